#!/usr/bin/env python3
"""Run the checks against the seeded changes kept under /verif/seeded/<id>/ (patch.diff, demo.py, meta.json).

usage: tools/seeded.py [--inplace] [ids...]
 default: each patch is applied in a scratch worktree of /repo (DH_REPO), so /repo itself is untouched;
 --inplace: `git -C /repo apply`, run, `git -C /repo checkout -- .` (only when nothing else is using /repo).
Prints one line per seeded change: caught / MISSED, and the clauses that caught it; updates meta.json["detected"].
"""
import glob, json, os, shutil, subprocess, sys, tempfile
V = os.path.dirname(os.path.dirname(os.path.abspath(__file__)))
inplace = "--inplace" in sys.argv
ids = [a for a in sys.argv[1:] if not a.startswith("--")] or sorted(os.path.basename(d) for d in glob.glob(os.path.join(V, "seeded", "*")) if os.path.isdir(d))
for sid in ids:
    d = os.path.join(V, "seeded", sid)
    meta = json.load(open(os.path.join(d, "meta.json")))
    prop = meta["property"]
    if meta.get("neutralised_by") and "--all" not in sys.argv:
        print("%-28s n/a    (no longer violates the property: %s)" % (sid, meta["neutralised_by"][:60]))
        continue
    patch = os.path.join(d, "patch.diff")
    if inplace:
        repo = "/repo"
        subprocess.check_call(["git", "-C", "/repo", "apply", patch])
    else:
        repo = tempfile.mkdtemp(prefix="sw_%s_" % sid, dir="/tmp")
        os.rmdir(repo)
        subprocess.check_call(["git", "-C", "/repo", "worktree", "add", "-q", "--detach", repo, "HEAD"])
        subprocess.check_call(["git", "-C", repo, "apply", patch])
    try:
        env = dict(os.environ, DH_REPO=repo, PYTHONPATH=os.path.join(repo, "src"))
        demo = subprocess.run(["/venv/bin/python", os.path.join(d, "demo.py")], env=env, stdout=subprocess.PIPE, stderr=subprocess.STDOUT, text=True, timeout=900)
        chk = subprocess.run([os.path.join(V, "check"), prop, "--tier", "quick"], env=env, stdout=subprocess.PIPE, stderr=subprocess.STDOUT, text=True, timeout=3600, cwd=V)
        lines = [l for l in chk.stdout.split("\n") if l.startswith("VIOLATION") or l.startswith("KNOWN-FINDING")]
        clauses = []
        for l in lines:
            if "replay=" in l:
                rp = l.split("replay=")[1].split()[0]
                try:
                    b = json.load(open(rp))
                    clauses.append("%s/%s" % (b.get("stream"), b.get("clause")))
                except Exception:
                    pass
        caught = chk.returncode == 1 and any(l.startswith("VIOLATION") for l in lines)
        meta["detected"] = dict(check_exit=chk.returncode, caught=caught, clauses=sorted(set(clauses)), demo_exit_with_change=demo.returncode,
                                no_failing_input_found=any("no-failing-input-found" in l for l in lines))
        json.dump(meta, open(os.path.join(d, "meta.json"), "w"), indent=1)
        print("%-28s %s demo_exit=%d  %s" % (sid, "caught" if caught else "MISSED", demo.returncode, ", ".join(sorted(set(clauses)))))
    finally:
        if inplace:
            subprocess.check_call(["git", "-C", "/repo", "checkout", "--", "."])
        else:
            subprocess.call(["git", "-C", "/repo", "worktree", "remove", "--force", repo])
