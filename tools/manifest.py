#!/usr/bin/env python3
"""Regenerates MANIFEST.json from the table below (kept here so that the file is always schema-valid)."""
import json, os, subprocess
V = os.path.dirname(os.path.dirname(os.path.abspath(__file__)))
props = [json.loads(l) for l in open(os.path.join(V, "properties.jsonl"))]
TECH = "Rocq/Coq proof over a Gallina model + extracted-model correspondence and Coq-verified oracles"
NOTE_COMMON = ("Trusted: Coq 8.16.1 kernel, ExtrOcamlBasic extraction, OCaml driver, the Python harness (generators, canonicalisation, "
               "float->exact rational), CPython/numpy/asyncio. The Python code is tied to the model by behaviour on every run, not verified itself. ")
CLAIMS = {
 "C01": dict(cat="proof", text="Coq theorems over ALL histories of submit/gather ALL/gather BATCH k/close/dump and ALL completion schedules (no bound): "
   "exactly-once ledger (every id is either still running once or handed back once), counters = true counts, BATCH returns >= min(k, running), ALL drains, "
   "payload = submitted configuration and returned value, evaluator usable after close (model of the repaired close; the pinned close is refuted by a witness = F01). "
   "Tie: trace acceptance - histories run on the real evaluator (serial with a conductor forcing completion order incl. several completions per wake-up and queued jobs; "
   "thread/process/loky) are replayed by the extracted Coq oracle `replay`; an accepted history is provably a run of the model (C01_accepted_history_is_run).",
   note="asyncio wait/cancel semantics and executor backends are observed, not modelled (a finished task is never lost; cancel of a finished task is a no-op). Run-functions that raise are outside the property."),
 "C12": dict(cat="proof", text="Coq theorems over an integer grid model, any dimension >= 1, any finite point list: the specification hv_spec is the number of dominated unit cells (exactness anchor), monotone under inclusion, invariant under permutation/duplication, "
   "boundary points contribute zero, non-negative, dominated points irrelevant (hv (nds P) = hv P via C11), scaling c^d (justifies the per-case integer scaling), and the fast evaluators the driver runs (compressed grid, re-compressed slices, with nds at every level) all EQUAL the cell count (d-dimensional grid-refinement theorem). "
   "Tie: extensional correspondence - exact equality on lattice sets (exhaustive to 3 points on {0..4}^m, m<=3, sampled beyond), tie-heavy 5-7 objective sets, dyadic sets; 1e-9 relative on floats; metamorphic clauses (monotone / permutation+duplication / boundary) and 'caller's array unchanged' decided on the implementation's outputs by extracted oracles; ObjectiveRecorder callback values.",
   note="binary64 arithmetic of the implementation is exact on lattice/dyadic streams; the implementation's sweep algorithm is tied to the model only by behaviour; aliasing ('array unchanged') is a run-time observation."),
 "C13": dict(cat="proof", text="Coq theorems over ALL histories of the 17 public storage methods (any ids, keys, values): fresh ids, refinement to the abstract map search->job->key->value including the error answers, frame/isolation, created ids stay, final job set = union, every interleaving of atomic client operations is a sequential history for which the per-client read-your-writes oracle holds; non-atomic create refuted; pinned search-value namespace refuted (F32). "
   "Tie: step-wise refinement on MemoryStorage AND SharedMemoryStorage (every return value + full public audit after every step; exhaustive length-4 histories on the model side, sampled on both storages; random histories to length 60), snapshot/aliasing by keeping and re-comparing loaded objects, 2-8 concurrent client processes judged by extracted oracles, and a bytecode/lock atomicity certificate of create_new_search/create_new_job. PARTIAL: real OS schedules are sampled; the snapshot clause is carried by correspondence only.",
   note="CPython GIL / eval-breaker placement and BaseManager (one server thread per connection) trusted; values are opaque serialisations."),
 "C14": dict(cat="proof", text="Coq theorems about the per-job status machine of execute()/_on_done/close (every sequence of status writes, run-function polls and returns the code can produce, any position of the deadline): "
   "statuses only move forward along READY->RUNNING->(DONE | CANCELLING->CANCELLED) (READY/RUNNING->CANCELLED at close), a terminal status is final, a running job always sees the status written last (so CANCELLING from its write until the job returns), "
   "a job told to cancel is never reported DONE, DONE / CANCELLED-after-CANCELLING are only written after the run-function returned (value kept); the enum codes are tied to the source by a regenerated fact (C14_status_codes). "
   "Tie: real searches with a timeout (serial, thread) under a logging storage and logging run-functions; the extracted oracle ok_C14 (soundness theorem C14_oracle_sound) replays every job's events on the machine and checks the results table "
   "(one row per job, terminal status = last write, value kept, jobs running across the deadline told to cancel and reported CANCELLED, no activity after search() returned). PARTIAL: real time is not modelled.",
   note="the deadline instant is represented by a harness sentinel 1.5 s after it; wait_for/shield/thread pools are trusted; process/loky backends are not exercised by this harness."),
 "C16": dict(cat="proof", text="Coq theorems over the shared-storage model of Idle/Const/ASHA/Median stoppers for every protocol run (record then stopped, budgets 1,2,3..) of any number of evaluations in any operation-level interleaving: stop at the max_steps-th observation at the latest, stop right after a failure, values stored under a rung were observed at that rung's budget (same-budget invariant), "
   "an evaluation at least as good as every competitor recorded at its budget is never stopped early, ASHA stops only outside the top 1/reduction_factor, every decision equals a history-only reference rule; default constructor arguments are regenerated facts (C16_default_best_never_stopped); pinned MedianStopper refuted (F16). "
   "Tie: step-wise refinement of real stopper objects on RunningJobs sharing a MemoryStorage (every stopped() result and the metadata after every operation) + the extracted monitor on the implementation's traces; exhaustive interleavings of 3 evaluations x 4 steps; real RandomSearch runs.",
   note="objectives are dyadic numbers on one integer scale (epsilon included); numpy sort/median trusted; MemoryStorage metadata calls are C13's subject."),
 "C17": dict(cat="proof", text="Coq theorems for EVERY schedule of the mechanism model of the (repaired) queued evaluator, any queue / pop count / jobs / workers: "
   "conservation (queue + resources in jobs' hands is always a permutation of the initial queue), disjointness of concurrently held resources, exactly pop resources per job, "
   "no deadlock and liveness (some schedule finishes every job) when pop <= |queue|; the pinned shared-slot design is refuted by witnesses (shared resource, underflow = F17). "
   "Tie: the run-function's own Start/End log of real queued evaluators (serial with conductor-forced completion orders, thread with random sleeps) is accepted by the extracted Coq oracle "
   "(replay_obs/final_ok: resources free when handed out, exact count, metadata truthful, everything returned; proved to imply conservation and disjointness) and, on the serial backend, "
   "matches the mechanism model's exact FIFO prediction.",
   note="asyncio scheduling and thread pools are observed, not modelled; the worker bound itself is not part of the property (each submit installs a fresh worker semaphore, F21)."),
 "C03": dict(cat="proof", text="Coq theorems over a counter-machine model of search()/_search() on top of the evaluator counters, for ALL histories of earlier calls (budget, strict, timeout; any gather sizes; any clock), "
   "any number of workers: a plain call makes n <= new < n + W evaluations, a strict call exactly n, every call leaves a clean state (history independence), the returned table holds all evaluations so far; "
   "the pinned code is refuted by three witnesses (F05). Tie: sequences of <= 4 real search() calls (RandomSearch / CBO-DUMMY, serial and thread backends) with a counting run-function: the extracted oracle ok_history decides the statement, "
   "and the model's prediction of the number of new evaluations from the observed gather sizes must equal the observed number.",
   note="gather('BATCH',1) returning between 1 and in-flight jobs is assumed here (proved/checked by C01); wall-clock makes timed calls uncounted (only the calls after them are)."),
 "C05": dict(cat="proof", text="Coq theorems over Q: exploitation-only acquisition on a fully observed candidate set proposes the candidate with the LARGEST objective (single objective: any strictly increasing scaler; multi-objective, repaired scalarisation relative to the utopia point: ideal / weakly-Pareto / Pareto candidates for the five scalarisers as far as each method allows), "
   "the max<->min name tables of the source (regenerated facts, C05_name_maps) dualise lies, failure values and UCB/LCB, what CBO tells the optimizer is the negated objective, scalarisers monotone on the orthant above the utopia point with the utopia point as unique minimum, argmin invariant under positive rescaling and shifts; pinned unshifted Chebyshev refuted (F07); PBI/Quadratic dominance refuted (inherent, F07b open finding). "
   "Tie: functional correspondence of every Mo*Function, lies/imputation (spy optimizer), fit targets (spy regressor), acquisition sign, scalers; deterministic end-to-end exploit cases on fully told finite spaces (quick tier); statistical end-to-end (thorough, labelled a test). PARTIAL: 'later proposals concentrate at the maximiser' is a statistical test, not a theorem.",
   note="sklearn scalers and forest interpolation (splitter best, min_samples_split=2) are oracles; numpy exact on small dyadics; scalar values compared up to one additive constant per history."),
 "C06": dict(cat="proof", text="Coq theorems over extended numbers (finite | nan | +-inf) and label tokens, for ALL success/failure histories, the three policies, single/multi objective: every value handed to the surrogate fit is finite (for ANY length- and finiteness-preserving scaler/scalariser; ExhaustedFailures characterised exactly), failed evaluations of all four kinds are marked with failure strings in every objective cell, "
   "failure labels and failure kinds do not influence the optimizer state (relabelling theorems), failures never count toward n_initial_points, no failure enters the RegularizedEvolution population, the constant-liar lie is well shaped; the failure marker / option tables are regenerated facts consumed by C06_markers; pinned code refuted (F08 tuple nan, F31 ragged lie). "
   "Tie: functional correspondence of _on_done, CBO._tell (spy optimizer), _filter_failures, Optimizer.tell (spy estimator), RegularizedEvolution._tell; real searches replaying failure patterns under two labelings, decided by the extracted oracle ok_search.",
   note="scaler/scalariser are hypotheses (identity + linear-relative-to-utopia instances used in the tie); surrogate fit modelled as 'finite y'; pandas keeps F-cells as strings."),
 "C09": dict(cat="proof", text="Coq theorems over a rational model of every dimension kind / prior / transform with the binary64 rounding R, log10 and base**x as universally quantified oracles: exact round trip for exact arithmetic (any number of rows), "
   "Integer (uniform) and Categorical values round-trip exactly under ANY admissible rounding (relative error <= 2^-52, magnitudes <= 2^47), every round-tripped / decoded point is a member of the space for ANY R, lg, pw (repaired code with the Real clip), shapes, transformed values inside transformed_bounds for monotone R; "
   "pinned code refuted by witnesses (F02 no clip, F13 Identity rows). PARTIAL: Integer log-uniform exactness only under an explicit accuracy hypothesis on pow/log10 (C09_int_any_prior_partial). "
   "Tie: functional correspondence (model run on numpy's own log/pow values as tables) + extracted oracle ok_C09 (proved equivalent to Spec_C09) on the implementation's exact float values, on generated dimensions, spaces and HpProblem conversions.",
   note="libm log10/pow and binary64 rounding are oracles (tolerances of 4-16 ulp scaled by the condition number on the log path, defined in c09.py); sklearn LabelBinarizer / numpy round, clip trusted."),
 "C18": dict(cat="proof", text="Coq theorems over Q for any non-empty list of per-tree (mean, leaf impurity) oracle values: law of total variance for the clamped values the code returns (total = aleatoric + epistemic, min_variance >= 0), all three variances >= 0 before clamping (clamps are identities on exact values), the three request forms share one mean = average of the tree means, "
   "any permutation / any partition into parallel chunks gives the same sums (n_jobs clause), epistemic depends on the tree means only and the 'd' acquisition variants only on it, scale equivariance (justifies the integer transfer); oracles reflected. "
   "Tie: functional correspondence on real fitted forests (RF/ET, bootstrap, splitters, min_samples_split, min_variance, n_jobs 1 vs 4) with per-tree values read as exact rationals; LCBd/EId/PId/MESd checked against the epistemic part. PARTIAL: sklearn tree fitting is an oracle; binary64 rounding bounded by tolerances (1e-12 mean, 1e-9 of the cancelling terms), not modelled.",
   note="sqrt is an oracle (squares compared); joblib threading backend trusted."),
 "C19": dict(cat="proof", text="Coq theorems over a rational, cell-wise model of the four aggregators (weights, numpy.ma masks = members dropped with renormalisation): uniform weights = None, rescaling and permutation invariance, masked = removed = weight 0, member splitting, "
   "mean between the members' extremes, law of total variance for ANY weights (mixture variance = aleatoric + epistemic, all >= 0), aggregated probabilities form a distribution, confidence range and non-negative decomposition, entropy decomposition for any log oracle (Jensen under a concavity hypothesis), "
   "mode = argmax of normalised weighted votes with uncertainty in range; homogeneity theorems justify the integer scaling; every boolean oracle is proved equivalent to its Spec; pinned behaviour refuted by witnesses (F18, F24, F28). "
   "Tie: direct oracles and metamorphic oracles (extracted Coq checkers) on the implementation's outputs, then cell-wise functional correspondence (exact on dyadic inputs with power-of-two weight sums, 1e-9 of the cancelling terms otherwise) on generated members/shapes/weights/masks/options.",
   note="numpy / numpy.ma primitives trusted; sqrt never compared (variances are); log values taken from numpy as oracle input."),
 "C11": dict(cat="proof", text="Coq theorems (all point sets, all visiting orders, no bound): the sweep model selects exactly one copy of every minimal vector "
   "(sound, complete, unique), the result does not depend on the visiting order, the peeled fronts partition the input, ranked(req) has min(n,req) points taken front by front. "
   "Tied to the code by functional correspondence (value sets) and by the extracted Coq oracles ok_nds/ok_ranked (reflection lemmas proved) applied to the implementation's "
   "masks/indices on the exhaustive lattice and generated float sets, and to the pareto_efficient column writer.",
   note="numpy comparisons/argsort; np.ceil on dyadic fraction*n; the implementation's algorithm is tied to the model by behaviour only."),
 "C20": dict(cat="proof", text="Coq theorems with the aggregated loss, the sorting permutation and the bagging draws as universally quantified oracles: TopK returns min(k,n) distinct valid indices of lowest loss; greedy selection (model of the repaired loop) returns strictly increasing valid indices, 1 <= count <= max(k, |init|), positive weights summing to exactly 1, never raises, terminates within an explicit fuel in three option classes, "
   "with early stopping the final loss is no worse than the starting ensemble's and every accepted step improves by more than eps; predictions sorted by job id are in submission order for any completion permutation; pinned code refuted (F19a all-NaN, F19b non-termination); for the repaired code two option combinations are refuted and kept as open findings (F19c non-termination without early stopping + replacement + no max_it; F20 no-early-stopping can end worse). "
   "Tie: exact functional correspondence of (indices, weights) with the extracted model driven round by round on losses computed by the REAL aggregator+loss; oracles on the implementation's outputs; OnlineSelector prefixes; EnsemblePredictor on the thread backend with every latency order of <= 4 members.",
   note="the real aggregator/loss act as the loss oracle; numpy argsort is re-checked to be a sorting permutation on every case; CPU-time watchdog for non-termination."),
}
checks = []
for p in props:
    i = p["id"]
    if i not in CLAIMS:
        continue
    c = CLAIMS[i]
    checks.append(dict(property_id=i, quick_cmd="./check %s --tier quick" % i, thorough_cmd="./check %s --tier thorough" % i,
        evidence_file="/verif/evidence/%s.json" % i, replay_cmd_template="./check %s --replay {path}" % i, engine="coq-model+extracted-driver",
        level_claimed=dict(category=c["cat"], text=c["text"], design_ref="DESIGN.md §4 " + i), level_note=NOTE_COMMON + c["note"], technique=c.get("tech", TECH)))
na = [dict(property_id=p["id"], reason="check not merged yet in this session (being built, see DESIGN.md §4); not a claim of inapplicability") for p in props if p["id"] not in CLAIMS]
hooks_commits = []
m = dict(version=1, setup_cmd="./setup.sh",
    hooks=dict(guard="DEEPHYPER_VERIF", enable="no source hooks: checks run /venv/bin/python with PYTHONPATH=/repo/src and DEEPHYPER_VERIF=1 (schedules, storage and file operations are controlled from outside /repo)",
               baseline_off_cmd="cd /repo && /venv/bin/python -m pytest -ra -q -p no:cacheprovider --timeout=900 --continue-on-collection-errors", source_commits=hooks_commits, add_only=True),
    engines=[dict(name="coq-model+extracted-driver", path="/verif/check", serves_properties=sorted(CLAIMS),
                  kind_free_text="Coq 8.16 theorems over hand-written Gallina models; models and oracles extracted to OCaml (ExtrOcamlBasic) and compared with the Python implementation on generated/exhaustive inputs; translator facts regenerated from the source on every run")],
    checks=checks, not_applicable=na, notes="see DESIGN.md; known_findings.json lists fixed/open defects")
json.dump(m, open(os.path.join(V, "MANIFEST.json"), "w"), indent=1)
print("claimed:", sorted(CLAIMS))
