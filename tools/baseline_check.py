#!/usr/bin/env python3
"""Compare a junit xml of the pinned test command with /root/.vp/BASELINE.json stable_pass."""
import json, sys, xml.etree.ElementTree as ET
base = json.load(open("/root/.vp/BASELINE.json"))
t = ET.parse(sys.argv[1]).getroot()
passed = set()
for tc in t.iter("testcase"):
    if not any(c.tag in ("failure", "error", "skipped") for c in tc):
        passed.add(tc.get("classname") + "::" + tc.get("name"))
missing = [s for s in base["stable_pass"] if s not in passed]
print("stable %d, passing now %d, missing %d" % (len(base["stable_pass"]), len(passed), len(missing)))
for m in missing:
    print("  MISSING", m)
sys.exit(1 if missing else 0)
