#!/usr/bin/env python3
"""usage: merge_branch.py <branch> <Cxx> [old=new ...]   merge an agent branch; resolve known_findings.json (ours + the entries of
property Cxx from theirs, with finding ids renamed), rename fixes/<old>_*.patch accordingly."""
import glob, json, os, subprocess, sys
br, prop = sys.argv[1], sys.argv[2]
ren = dict(a.split("=") for a in sys.argv[3:])
r = subprocess.run(["git", "merge", "--no-edit", br], stdout=subprocess.PIPE, stderr=subprocess.STDOUT, text=True)
print(r.stdout[-400:])
conflict = "CONFLICT" in r.stdout
if conflict:
    un = subprocess.check_output(["git", "diff", "--name-only", "--diff-filter=U"]).decode().split()
    assert un == ["known_findings.json"], un
    ours = json.loads(subprocess.check_output(["git", "show", ":2:known_findings.json"]))
    theirs = json.loads(subprocess.check_output(["git", "show", ":3:known_findings.json"]))
else:
    ours = json.load(open("known_findings.json")); theirs = json.loads(subprocess.check_output(["git", "show", br + ":known_findings.json"]))
    # a clean merge took one side; rebuild from main's previous version
    ours = json.loads(subprocess.check_output(["git", "show", "HEAD~1:known_findings.json"])) if False else ours
have = {(f["property"], f["id"], json.dumps(f["match"], sort_keys=True)) for f in ours["findings"]}
for f in theirs["findings"]:
    if f["property"] != prop:
        continue
    f["id"] = ren.get(f["id"], f["id"])
    k = (f["property"], f["id"], json.dumps(f["match"], sort_keys=True))
    if k not in have:
        ours["findings"].append(f); have.add(k)
json.dump(ours, open("known_findings.json", "w"), indent=1)
for old, new in ren.items():
    for p in glob.glob("fixes/%s_*.patch" % old):
        # only rename patches that came with this branch (not yet present under the new id)
        if subprocess.run(["git", "cat-file", "-e", "HEAD:" + p], stderr=subprocess.DEVNULL).returncode != 0:
            os.rename(p, p.replace("fixes/%s_" % old, "fixes/%s_" % new))
subprocess.check_call(["git", "add", "-A"])
subprocess.check_call(["git", "commit", "-qm", "merge %s (%s)%s" % (br, prop, (" findings renumbered " + ",".join("%s->%s" % kv for kv in ren.items())) if ren else "")])
print([(f["id"], f["property"], f["status"]) for f in ours["findings"] if f["property"] == prop])
