#!/usr/bin/env python3
"""Import seeded changes produced by independent agents: confirm (demo passes on HEAD, fails with the patch) and store
under /verif/seeded/<Cxx>_<name>/.   usage: import_seed.py <out_dir> <Cxx>"""
import json, os, shutil, subprocess, sys, tempfile
out, prop = sys.argv[1], sys.argv[2]
offset = int(sys.argv[3]) if len(sys.argv) > 3 and sys.argv[3].isdigit() else 0
V = os.path.dirname(os.path.dirname(os.path.abspath(__file__)))
for n in (1, 2, 3):
    patch = os.path.join(out, "patch_%d.diff" % n)
    if not os.path.exists(patch):
        continue
    demo = os.path.join(out, "demo_%d.py" % n)
    meta = json.load(open(os.path.join(out, "meta_%d.json" % n)))
    wt = tempfile.mkdtemp(prefix="imp_", dir="/tmp"); os.rmdir(wt)
    subprocess.check_call(["git", "-C", "/repo", "worktree", "add", "-q", "--detach", wt, "HEAD"])
    try:
        env = dict(os.environ, PYTHONPATH=os.path.join(wt, "src"), PYTHONHASHSEED="0")
        r0 = subprocess.run(["/venv/bin/python", demo], env=env, cwd=out, stdout=subprocess.PIPE, stderr=subprocess.STDOUT, text=True, timeout=900)
        ap = subprocess.run(["git", "-C", wt, "apply", patch], stdout=subprocess.PIPE, stderr=subprocess.STDOUT, text=True)
        if ap.returncode != 0:
            print(prop, n, "PATCH DOES NOT APPLY to current HEAD:", ap.stdout[:300]); continue
        imp = subprocess.run(["/venv/bin/python", "-c", "import deephyper, deephyper.hpo, deephyper.evaluator"], env=env, stdout=subprocess.PIPE, stderr=subprocess.STDOUT, text=True)
        r1 = subprocess.run(["/venv/bin/python", demo], env=env, cwd=out, stdout=subprocess.PIPE, stderr=subprocess.STDOUT, text=True, timeout=900)
        ok = r0.returncode == 0 and r1.returncode != 0 and imp.returncode == 0
        tests = "test-suite run by the author: %s" % meta.get("tests_run")
        if ok and "--tests" in sys.argv:
            # the pinned test command on the patched worktree: every stable test of the baseline must still pass
            xml = os.path.join(tempfile.gettempdir(), "imp_%s_%d.xml" % (prop, n))
            subprocess.run(["/venv/bin/python", "-m", "pytest", "-q", "-p", "no:cacheprovider", "--timeout=900", "--continue-on-collection-errors", "--junitxml=" + xml],
                           env=env, cwd=wt, stdout=subprocess.DEVNULL, stderr=subprocess.DEVNULL, timeout=3000)
            bc = subprocess.run([sys.executable, os.path.join(V, "tools", "baseline_check.py"), xml], stdout=subprocess.PIPE, text=True)
            os.unlink(xml)
            tests = "pinned test command re-run by the coordinator on the patched worktree: " + bc.stdout.strip().replace("\n", "; ")
            if bc.returncode != 0:
                ok = False
                print(prop, n + offset, "TESTS FAIL with the patch:", bc.stdout[-400:])
        print(prop, n + offset, "confirmed" if ok else "NOT CONFIRMED", "demo without=%d with=%d import=%d" % (r0.returncode, r1.returncode, imp.returncode))
        if ok:
            d = os.path.join(V, "seeded", "%s_%d" % (prop, n + offset)); os.makedirs(d, exist_ok=True)
            shutil.copy(patch, os.path.join(d, "patch.diff")); shutil.copy(demo, os.path.join(d, "demo.py"))
            json.dump(dict(property=prop, summary=meta.get("summary"), needs_to_manifest=meta.get("needs_to_manifest"), files_touched=meta.get("files_touched"),
                           author="independent sub-agent given only the property text and a scratch worktree",
                           confirmed=dict(repo_head=subprocess.check_output(["git", "-C", "/repo", "log", "-1", "--format=%h"]).decode().strip(),
                                          ran="demo.py on a scratch worktree of /repo HEAD: exit %d without the patch, exit %d with it; `import deephyper` ok; %s" % (r0.returncode, r1.returncode, tests),
                                          demo_output_with_change=r1.stdout[-600:])),
                      open(os.path.join(d, "meta.json"), "w"), indent=1)
    finally:
        subprocess.call(["git", "-C", "/repo", "worktree", "remove", "--force", wt])
