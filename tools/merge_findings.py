#!/usr/bin/env python3
"""Resolve a merge conflict in known_findings.json: ours + entries of theirs whose id we do not have."""
import json, subprocess
ours = json.loads(subprocess.check_output(["git", "show", ":2:known_findings.json"]))
theirs = json.loads(subprocess.check_output(["git", "show", ":3:known_findings.json"]))
have = {f["id"] for f in ours["findings"]}
for f in theirs["findings"]:
    if f["id"] not in have:
        ours["findings"].append(f)
json.dump(ours, open("known_findings.json", "w"), indent=1)
print([ (f["id"], f["status"]) for f in ours["findings"]])
