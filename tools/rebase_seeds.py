#!/usr/bin/env python3
"""Re-create seeded/<id>/patch.diff against the current /repo HEAD when it no longer applies (later fix: commits touched
the same lines).  Uses `git apply --3way`; the demo is re-run with and without the rebased patch."""
import glob, json, os, subprocess, sys, tempfile
V = os.path.dirname(os.path.dirname(os.path.abspath(__file__)))
ids = sys.argv[1:] or sorted(os.path.basename(d) for d in glob.glob(os.path.join(V, "seeded", "*")) if os.path.isdir(d))
head = subprocess.check_output(["git", "-C", "/repo", "log", "-1", "--format=%h"]).decode().strip()
for sid in ids:
    d = os.path.join(V, "seeded", sid); patch = os.path.join(d, "patch.diff")
    wt = tempfile.mkdtemp(prefix="rb_", dir="/tmp"); os.rmdir(wt)
    subprocess.check_call(["git", "-C", "/repo", "worktree", "add", "-q", "--detach", wt, "HEAD"])
    try:
        if subprocess.run(["git", "-C", wt, "apply", "--check", patch], stderr=subprocess.DEVNULL).returncode == 0:
            print(sid, "applies"); continue
        r = subprocess.run(["git", "-C", wt, "apply", "--3way", patch], stdout=subprocess.PIPE, stderr=subprocess.STDOUT, text=True)
        conflicted = subprocess.check_output(["git", "-C", wt, "diff", "--name-only", "--diff-filter=U"]).decode().split()
        if r.returncode != 0 or conflicted:
            print(sid, "NEEDS MANUAL REBASE:", r.stdout[-300:], conflicted); continue
        new = subprocess.check_output(["git", "-C", wt, "diff", "HEAD"]).decode()
        env = dict(os.environ, PYTHONPATH=os.path.join(wt, "src"), PYTHONHASHSEED="0")
        r1 = subprocess.run(["/venv/bin/python", os.path.join(d, "demo.py")], env=env, cwd=d, stdout=subprocess.PIPE, stderr=subprocess.STDOUT, text=True, timeout=900)
        subprocess.check_call(["git", "-C", wt, "checkout", "-q", "HEAD", "--", "."]); subprocess.check_call(["git", "-C", wt, "reset", "-q", "--hard", "HEAD"])
        r0 = subprocess.run(["/venv/bin/python", os.path.join(d, "demo.py")], env=env, cwd=d, stdout=subprocess.PIPE, stderr=subprocess.STDOUT, text=True, timeout=900)
        if r0.returncode == 0 and r1.returncode != 0:
            open(patch, "w").write(new)
            meta = json.load(open(os.path.join(d, "meta.json")))
            meta["rebased"] = dict(onto=head, how="git apply --3way of the original patch; demo exit %d without / %d with the rebased patch" % (r0.returncode, r1.returncode))
            json.dump(meta, open(os.path.join(d, "meta.json"), "w"), indent=1)
            print(sid, "rebased onto", head)
        else:
            print(sid, "rebased patch NOT CONFIRMED: demo without=%d with=%d" % (r0.returncode, r1.returncode))
    finally:
        subprocess.call(["git", "-C", "/repo", "worktree", "remove", "--force", wt])
