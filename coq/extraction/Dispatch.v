From Coq Require Import List ZArith Bool.
Import ListNotations.
Require Import DH.Common.Data.
Require DH.C11_Pareto.Entry.
Open Scope Z_scope.

Definition all_entries : list (Z * (data -> data)) :=
  DH.C11_Pareto.Entry.entries.

Fixpoint lookup (k : Z) (l : list (Z * (data -> data))) : option (data -> data) :=
  match l with
  | [] => None
  | (k', f) :: t => if k =? k' then Some f else lookup k t
  end.

(* unknown function id: the distinguished answer (-1) *)
Definition dispatch (k : Z) (d : data) : data :=
  match lookup k all_entries with Some f => f d | None => I (-1) end.
