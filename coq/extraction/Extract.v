Require Import DH.Common.Data.
Require Import DHX.Dispatch.
From Coq Require Import Extraction ExtrOcamlBasic.
Extraction Language OCaml.
Extraction "dh_model.ml" dispatch.
