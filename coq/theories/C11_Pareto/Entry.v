(* Entry points for the extracted driver: data -> data *)
From Coq Require Import List ZArith Bool.
Import ListNotations.
Require Import DH.Common.Data DH.Common.VecOrd DH.C11_Pareto.Model DH.C11_Pareto.Check.
Open Scope Z_scope.

Definition d_vec (d : data) : vec := dmap dZ d.
Definition d_pts (d : data) : list vec := dmap d_vec d.
Definition e_vec (v : vec) : data := elist eZ v.
Definition e_pts (l : list vec) : data := elist e_vec l.

Definition entries : list (Z * (data -> data)) :=
  [ (1101, fun d => e_pts (nds (d_pts d)));
    (1102, fun d => ebool (ok_nds (d_pts (dnth 0 d)) (dmap dbool (dnth 1 d))));
    (1103, fun d => e_pts (ranked (dnat (dnth 0 d)) (d_pts (dnth 1 d))));
    (1104, fun d => ebool (ok_ranked (d_pts (dnth 1 d)) (dnat (dnth 0 d)) (dmap dbool (dnth 2 d))));
    (1105, fun d => enat (req_of (dZ (dnth 0 d)) (dZ (dnth 1 d)) (dnat (dnth 2 d))));
    (1106, fun d => elist e_pts (fronts (d_pts d))) ].
