(* Model of deephyper.skopt.moo._pf (pinned tree): non_dominated_set, non_dominated_set_ranked.
   Executable definitions only; proofs are in Lemmas.v.

   non_dominated_set:  costs are visited in some order (the code sorts by coordinate sum; the order is
   a parameter here - the input list is visited left to right).  For the pivot r every point c with
   np.any(c < r) = False is removed (the pivot itself is kept):  [sweep].
   non_dominated_set_ranked: repeated peeling of non-dominated fronts, truncated to req points. *)
From Coq Require Import List ZArith Bool Arith.
Import ListNotations.
Require Import DH.Common.VecOrd.
Open Scope Z_scope.

(* P = already visited and kept, R = not yet visited; fuel >= length R *)
Fixpoint sweep (fuel : nat) (P R : list vec) : list vec :=
  match fuel with
  | O => P
  | S f =>
    match R with
    | [] => P
    | r :: R' =>
      let keep := fun c => some_lt c r in
      sweep f (filter keep P ++ [r]) (filter keep R')
    end
  end.

Definition nds (pts : list vec) : list vec := sweep (length pts) [] pts.

(* remove one occurrence of v *)
Fixpoint remove1 (v : vec) (l : list vec) : list vec :=
  match l with
  | [] => []
  | x :: t => if veqb v x then t else x :: remove1 v t
  end.

(* y[~nds]: the multiset difference pts - front *)
Definition msub (pts front : list vec) : list vec := fold_left (fun acc v => remove1 v acc) front pts.

(* successive fronts; fuel >= length pts *)
Fixpoint peel (fuel : nat) (pts : list vec) : list (list vec) :=
  match fuel with
  | O => []
  | S f =>
    match pts with
    | [] => []
    | _ => let fr := nds pts in fr :: peel f (msub pts fr)
    end
  end.

Definition fronts (pts : list vec) : list (list vec) := peel (length pts) pts.

Definition ranked (req : nat) (pts : list vec) : list vec := firstn req (concat (fronts pts)).

(* req_number = min(ceil(fraction * n), n) for fraction = num / den, den > 0, num >= 0 *)
Definition req_of (num den : Z) (n : nat) : nat :=
  Z.to_nat (Z.min ((num * Z.of_nat n + den - 1) / den) (Z.of_nat n)).

(* selection by a boolean mask *)
Fixpoint select {A} (mask : list bool) (l : list A) : list A :=
  match mask, l with
  | b :: m, x :: t => if b then x :: select m t else select m t
  | _, _ => []
  end.
