From Coq Require Import List ZArith Bool Lia Arith Permutation.
Import ListNotations.
Require Import DH.Common.VecOrd DH.C11_Pareto.Model.
Open Scope Z_scope.

(* ---------- invariant of the sweep ---------- *)
Definition Anti (l : list vec) : Prop :=
  NoDup l /\ forall a b, In a l -> In b l -> wdom a b = true -> a = b.

Record Inv (m : nat) (pts P R : list vec) : Prop := {
  i_len : SameLen m pts;
  i_incl : incl (P ++ R) pts;
  i_anti : Anti P;
  i_cross : forall p r, In p P -> In r R -> wdom p r = false;
  i_cover : forall x, In x pts -> exists y, In y (P ++ R) /\ wdom y x = true }.

Lemma NoDup_snoc (A:Type) (l : list A) x : NoDup l -> ~ In x l -> NoDup (l ++ [x]).
Proof.
  intros H Hx. apply (NoDup_Add (a:=x) (l:=l)); [|split; assumption].
  clear. induction l as [|y l IH]; cbn; [constructor|constructor; exact IH].
Qed.

Lemma inv_step m pts P r R :
  Inv m pts P (r :: R) ->
  Inv m pts (filter (fun c => some_lt c r) P ++ [r]) (filter (fun c => some_lt c r) R).
Proof.
  intros [Hlen Hincl [Hnd Hanti] Hcross Hcover].
  assert (Hr : In r pts) by (apply Hincl; apply in_or_app; right; left; reflexivity).
  assert (HlenP : forall p, In p P -> length p = m).
  { intros p Hp. eapply samelen_in; eauto. apply Hincl, in_or_app; auto. }
  assert (HlenR : forall q, In q R -> length q = m).
  { intros q Hq. eapply samelen_in; eauto. apply Hincl, in_or_app; right; right; auto. }
  assert (Hlenr : length r = m) by (eapply samelen_in; eauto).
  assert (Hdual : forall c, length c = m -> some_lt c r = negb (wdom r c)).
  { intros c Hc. apply some_lt_wdom. congruence. }
  assert (HrP : ~ In r P).
  { intros Hin. specialize (Hcross r r Hin (or_introl eq_refl)). rewrite wdom_refl in Hcross. discriminate. }
  constructor.
  - exact Hlen.
  - intros x Hx. apply in_app_or in Hx as [Hx|Hx].
    + apply in_app_or in Hx as [Hx|[<-|[]]]; [|exact Hr].
      apply filter_In in Hx as [Hx _]. apply Hincl, in_or_app; auto.
    + apply filter_In in Hx as [Hx _]. apply Hincl, in_or_app; right; right; auto.
  - split.
    + apply NoDup_snoc; [apply NoDup_filter; exact Hnd|].
      intros Hin. apply filter_In in Hin as [Hin _]. contradiction.
    + intros a b Ha Hb Hab.
      apply in_app_or in Ha as [Ha|[<-|[]]]; apply in_app_or in Hb as [Hb|[<-|[]]].
      * apply filter_In in Ha as [Ha _]. apply filter_In in Hb as [Hb _]. auto.
      * apply filter_In in Ha as [Ha _]. rewrite (Hcross a r Ha (or_introl eq_refl)) in Hab. discriminate.
      * apply filter_In in Hb as [Hb Hb']. rewrite (Hdual b (HlenP b Hb)), Hab in Hb'. discriminate.
      * reflexivity.
  - intros p q Hp Hq. apply filter_In in Hq as [Hq Hq'].
    apply in_app_or in Hp as [Hp|[<-|[]]].
    + apply filter_In in Hp as [Hp _]. apply Hcross; [exact Hp|right; exact Hq].
    + rewrite (Hdual q (HlenR q Hq)) in Hq'. apply negb_true_iff in Hq'. exact Hq'.
  - intros x Hx. destruct (Hcover x Hx) as [y [Hy Hyx]].
    assert (Hleny : length y = m) by (eapply samelen_in; [exact Hlen| apply Hincl; exact Hy]).
    destruct (some_lt y r) eqn:E.
    + exists y. split; [|exact Hyx].
      apply in_app_or in Hy as [Hy|[<-|Hy]].
      * apply in_or_app; left. apply in_or_app; left. apply filter_In; auto.
      * apply in_or_app; left. apply in_or_app; right; left; reflexivity.
      * apply in_or_app; right. apply filter_In; auto.
    + exists r. split; [apply in_or_app; left; apply in_or_app; right; left; reflexivity|].
      rewrite (Hdual y Hleny) in E. apply negb_false_iff in E. eapply wdom_trans; eauto.
Qed.

Lemma filter_length_le (A:Type) (f : A -> bool) l : (length (filter f l) <= length l)%nat.
Proof. induction l as [|x l IH]; cbn; [lia|destruct (f x); cbn; lia]. Qed.

Lemma sweep_inv m pts : forall fuel P R, (length R <= fuel)%nat -> Inv m pts P R ->
  Inv m pts (sweep fuel P R) [].
Proof.
  induction fuel as [|f IH]; intros P R Hf HI.
  - destruct R; [exact HI| cbn in Hf; lia].
  - destruct R as [|r R']; [exact HI|]. cbn [sweep]. apply IH.
    + cbn [length] in Hf. pose proof (filter_length_le _ (fun c => some_lt c r) R'). lia.
    + apply inv_step. exact HI.
Qed.

Lemma inv_init m pts : SameLen m pts -> Inv m pts [] pts.
Proof.
  intros H. constructor; [exact H| intros x Hx; exact Hx| split; [constructor| intros a b []]| intros p r []|].
  intros x Hx. exists x. split; [exact Hx| apply wdom_refl].
Qed.

Theorem nds_correct m pts : SameLen m pts ->
  let out := nds pts in
  incl out pts /\ NoDup out
  /\ (forall s x, In s out -> In x pts -> ~ sdom x s)                    (* sound *)
  /\ (forall x, In x pts -> exists s, In s out /\ wdom s x = true).       (* complete *)
Proof.
  intros H out. pose proof (sweep_inv m pts (length pts) [] pts (le_n _) (inv_init m pts H)) as [_ Hincl [Hnd Hanti] _ Hcover].
  fold (nds pts) in *. fold out in Hincl, Hnd, Hanti, Hcover. rewrite app_nil_r in *.
  repeat split; try assumption.
  intros s x Hs Hx [Hxs Hne]. destruct (Hcover x Hx) as [s' [Hs' Hs'x]].
  assert (s' = s) by (apply Hanti; [assumption|assumption|eapply wdom_trans; eauto]). subst s'.
  apply Hne. apply wdom_antisym; assumption.
Qed.

(* ---------- characterisation: selected values = minimal values ---------- *)
Definition minimal (pts : list vec) (s : vec) : Prop :=
  In s pts /\ forall x, In x pts -> wdom x s = true -> x = s.

Theorem nds_char m pts : SameLen m pts -> forall s, In s (nds pts) <-> minimal pts s.
Proof.
  intros H s. destruct (nds_correct m pts H) as (Hincl & Hnd & Hsound & Hcomp). split.
  - intros Hs. split; [apply Hincl; exact Hs|]. intros x Hx Hxs.
    destruct (vec_eq_dec x s) as [E|E]; [exact E|]. exfalso. apply (Hsound s x Hs Hx). split; assumption.
  - intros [Hs Hmin]. destruct (Hcomp s Hs) as [s' [Hs' Hd]].
    rewrite <- (Hmin s' (Hincl _ Hs') Hd). exact Hs'.
Qed.

Lemma minimal_perm pts pts' s : Permutation pts pts' -> minimal pts s -> minimal pts' s.
Proof.
  intros Hp [H1 H2]. split; [eapply Permutation_in; eauto|].
  intros x Hx. apply H2. eapply Permutation_in; [apply Permutation_sym; exact Hp| exact Hx].
Qed.

Lemma samelen_perm m pts pts' : Permutation pts pts' -> SameLen m pts -> SameLen m pts'.
Proof. intros Hp H. eapply Permutation_Forall; eauto. Qed.

Theorem nds_order_irrelevant m pts pts' : SameLen m pts -> Permutation pts pts' ->
  forall s, In s (nds pts) <-> In s (nds pts').
Proof.
  intros H Hp s. rewrite (nds_char m pts H), (nds_char m pts' (samelen_perm _ _ _ Hp H)).
  split; apply minimal_perm; [exact Hp| apply Permutation_sym; exact Hp].
Qed.

Lemma nds_nonempty m pts : SameLen m pts -> pts <> [] -> nds pts <> [].
Proof.
  intros H Hne. destruct pts as [|x t]; [congruence|].
  destruct (nds_correct m (x :: t) H) as (_ & _ & _ & Hcomp).
  destruct (Hcomp x (or_introl eq_refl)) as [s [Hs _]]. intros E. rewrite E in Hs. exact Hs.
Qed.

(* ---------- multiset difference ---------- *)
Lemma remove1_perm v l : In v l -> Permutation l (v :: remove1 v l).
Proof.
  induction l as [|x t IH]; intros Hin; [destruct Hin|]. cbn [remove1].
  destruct (veqb v x) eqn:E.
  - apply veqb_eq in E. subst. reflexivity.
  - destruct Hin as [->|Hin]; [rewrite veqb_refl in E; discriminate|].
    rewrite perm_swap. constructor. apply IH. exact Hin.
Qed.

Lemma remove1_in_other v w l : v <> w -> In w l -> In w (remove1 v l).
Proof.
  intros Hne. induction l as [|x t IH]; intros Hin; [destruct Hin|]. cbn [remove1].
  destruct (veqb v x) eqn:E.
  - apply veqb_eq in E. subst. destruct Hin as [E'|Hin]; [congruence|exact Hin].
  - destruct Hin as [->|Hin]; [left; reflexivity| right; auto].
Qed.

Lemma msub_perm : forall fr pts, NoDup fr -> incl fr pts -> Permutation pts (fr ++ msub pts fr).
Proof.
  induction fr as [|v fr IH]; intros pts Hnd Hincl; [reflexivity|].
  unfold msub. cbn [fold_left]. fold (msub (remove1 v pts) fr).
  inversion Hnd as [|? ? Hv Hnd']; subst.
  assert (Hvin : In v pts) by (apply Hincl; left; reflexivity).
  rewrite (remove1_perm v pts Hvin) at 1. cbn [app]. constructor.
  apply IH; [exact Hnd'|]. intros w Hw. apply remove1_in_other; [intros ->; contradiction| apply Hincl; right; exact Hw].
Qed.

Lemma msub_length fr pts : NoDup fr -> incl fr pts -> (length (msub pts fr) + length fr = length pts)%nat.
Proof. intros H1 H2. rewrite (Permutation_length (msub_perm fr pts H1 H2)), app_length. lia. Qed.

(* ---------- peeling ---------- *)
Lemma peel_S fuel pts : pts <> [] -> peel (S fuel) pts = nds pts :: peel fuel (msub pts (nds pts)).
Proof. destruct pts; [congruence|reflexivity]. Qed.

Lemma peel_step_facts m pts : SameLen m pts -> pts <> [] ->
  Permutation pts (nds pts ++ msub pts (nds pts)) /\ SameLen m (msub pts (nds pts)) /\
  (length (msub pts (nds pts)) < length pts)%nat.
Proof.
  intros Hlen Hne.
  destruct (nds_correct m pts Hlen) as (Hincl & Hnd & _ & _).
  pose proof (msub_perm (nds pts) pts Hnd Hincl) as Hp.
  pose proof (msub_length (nds pts) pts Hnd Hincl) as Hl.
  assert (length (nds pts) <> 0)%nat.
  { intros E. apply (nds_nonempty m pts Hlen Hne). apply length_zero_iff_nil. exact E. }
  repeat split; [exact Hp| |lia].
  eapply samelen_incl; [exact Hlen|]. intros w Hw.
  eapply Permutation_in; [apply Permutation_sym; exact Hp| apply in_or_app; right; exact Hw].
Qed.

Lemma peel_perm m : forall fuel pts, SameLen m pts -> (length pts <= fuel)%nat ->
  Permutation (concat (peel fuel pts)) pts.
Proof.
  induction fuel as [|f IH]; intros pts Hlen Hf.
  - destruct pts; [reflexivity| cbn in Hf; lia].
  - destruct (list_eq_dec vec_eq_dec pts []) as [->|Hne]; [reflexivity|].
    rewrite (peel_S f pts Hne). cbn [concat].
    destruct (peel_step_facts m pts Hlen Hne) as (Hp & Hl' & Hlt).
    eapply Permutation_trans; [|apply Permutation_sym; exact Hp].
    apply Permutation_app_head. apply IH; [exact Hl'|lia].
Qed.

Theorem fronts_partition m pts : SameLen m pts -> Permutation (concat (fronts pts)) pts.
Proof. intros H. apply (peel_perm m); [exact H| apply le_n]. Qed.

Theorem ranked_count m pts req : SameLen m pts -> length (ranked req pts) = Nat.min req (length pts).
Proof.
  intros H. unfold ranked. rewrite firstn_length. rewrite (Permutation_length (fronts_partition m pts H)). reflexivity.
Qed.

Lemma ranked_incl m pts req : SameLen m pts -> forall v, (count_occ vec_eq_dec (ranked req pts) v <= count_occ vec_eq_dec pts v)%nat.
Proof.
  intros H v. unfold ranked.
  pose proof (proj1 (Permutation_count_occ vec_eq_dec _ _) (fronts_partition m pts H) v) as E.
  rewrite <- E. rewrite <- (firstn_skipn req (concat (fronts pts))) at 2. rewrite count_occ_app. lia.
Qed.

(* front by front: a prefix of a concatenation is whole blocks followed by a prefix of the next block *)
Lemma firstn_concat {A} : forall (ll : list (list A)) n,
  exists j t, firstn n (concat ll) = concat (firstn j ll) ++ t /\
              (t = [] \/ exists fr, nth_error ll j = Some fr /\ exists k, t = firstn k fr /\ (k < length fr)%nat).
Proof.
  induction ll as [|l ll IH]; intros n.
  - exists 0%nat, []. cbn. rewrite firstn_nil. auto.
  - cbn [concat]. destruct (Nat.lt_ge_cases n (length l)) as [Hlt|Hge].
    + exists 0%nat, (firstn n l). cbn [firstn concat app]. split.
      * rewrite firstn_app. replace (n - length l)%nat with 0%nat by lia. cbn. rewrite app_nil_r. reflexivity.
      * right. exists l. split; [reflexivity|]. exists n. auto.
    + destruct (IH (n - length l)%nat) as (j & t & E & Ht).
      exists (S j), t. split.
      * rewrite firstn_app. rewrite (firstn_all2 (n:=n) l Hge). cbn [firstn concat]. rewrite E, app_assoc. reflexivity.
      * cbn [nth_error]. exact Ht.
Qed.

Theorem ranked_front_by_front pts req :
  exists j t, ranked req pts = concat (firstn j (fronts pts)) ++ t /\
    (t = [] \/ exists fr, nth_error (fronts pts) j = Some fr /\ exists k, t = firstn k fr /\ (k < length fr)%nat).
Proof. apply firstn_concat. Qed.

(* every front is the non-dominated set of what is left after removing the earlier fronts *)
Lemma peel_front_is_nds : forall fuel pts j fr, nth_error (peel fuel pts) j = Some fr ->
  exists rest, fr = nds rest /\ rest <> [] /\
     (forall m, SameLen m pts -> (length pts <= fuel)%nat -> Permutation pts (concat (firstn j (peel fuel pts)) ++ rest)).
Proof.
  induction fuel as [|f IH]; intros pts j fr Hn.
  - destruct j; discriminate.
  - destruct (list_eq_dec vec_eq_dec pts []) as [->|Hne]; [destruct j; discriminate|].
    rewrite (peel_S f pts Hne) in *. destruct j as [|j].
    + injection Hn as <-. exists pts. repeat split; [exact Hne| intros; reflexivity].
    + cbn [nth_error] in Hn. destruct (IH _ _ _ Hn) as (rest & E1 & E2 & E3).
      exists rest. repeat split; try assumption. intros m Hlen Hf.
      destruct (peel_step_facts m pts Hlen Hne) as (Hp & Hl' & Hlt).
      cbn [firstn concat]. rewrite <- app_assoc. eapply Permutation_trans; [exact Hp|]. apply Permutation_app_head.
      apply (E3 m); [exact Hl'|lia].
Qed.

(* ---------- req_of ---------- *)
Lemma req_of_spec num den n : 0 < den -> 0 <= num ->
  let r := Z.of_nat (req_of num den n) in
  r <= Z.of_nat n /\ (r < Z.of_nat n -> (r - 1) * den < num * Z.of_nat n <= r * den).
Proof.
  intros Hd Hn. unfold req_of. set (N := Z.of_nat n). set (c := (num * N + den - 1) / den).
  assert (HN : 0 <= N) by (unfold N; lia).
  assert (Hc0 : 0 <= c) by (unfold c; apply Z.div_pos; nia).
  assert (Hc : c * den <= num * N + den - 1 < (c + 1) * den).
  { unfold c. pose proof (Z.div_mod (num * N + den - 1) den ltac:(lia)).
    pose proof (Z.mod_pos_bound (num * N + den - 1) den Hd). nia. }
  cbn zeta. rewrite Z2Nat.id by lia. split; [lia|]. intros Hlt.
  assert (Z.min c N = c) as -> by lia. nia.
Qed.
