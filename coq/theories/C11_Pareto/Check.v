(* Boolean oracles applied to the IMPLEMENTATION's outputs, with their reflection lemmas. *)
From Coq Require Import List ZArith Bool Lia Arith Permutation.
Import ListNotations.
Require Import DH.Common.ListSet DH.Common.VecOrd DH.C11_Pareto.Model DH.C11_Pareto.Lemmas.
Open Scope Z_scope.

Definition memv (v : vec) (l : list vec) : bool := existsb (veqb v) l.
Fixpoint nodupb (l : list vec) : bool :=
  match l with [] => true | x :: t => negb (memv x t) && nodupb t end.

Lemma memv_In v l : memv v l = true <-> In v l.
Proof.
  unfold memv. rewrite existsb_exists. split.
  - intros [x [Hx E]]. apply veqb_eq in E. subst. exact Hx.
  - intros H. exists v. split; [exact H| apply veqb_refl].
Qed.

Lemma nodupb_NoDup l : nodupb l = true <-> NoDup l.
Proof.
  induction l as [|x t IH]; cbn [nodupb]; [split; [constructor|reflexivity]|].
  rewrite andb_true_iff, negb_true_iff, IH. split.
  - intros [H1 H2]. constructor; [|exact H2]. intros Hin. apply memv_In in Hin. congruence.
  - intros H. inversion H as [|? ? H1 H2]; subst. split; [|exact H2].
    destruct (memv x t) eqn:E; [apply memv_In in E; contradiction|reflexivity].
Qed.

(* --- specification of "sel is the non-dominated set of pts" (the statement of the property) --- *)
Definition NdsSpec (pts sel : list vec) : Prop :=
  incl sel pts /\ NoDup sel
  /\ (forall s x, In s sel -> In x pts -> ~ sdom x s)
  /\ (forall x, In x pts -> exists s, In s sel /\ wdom s x = true).

Definition ok_nds_sel (pts sel : list vec) : bool :=
  forallb (fun s => memv s pts) sel && nodupb sel
  && forallb (fun s => forallb (fun x => negb (sdomb x s)) pts) sel
  && forallb (fun x => existsb (fun s => wdom s x) sel) pts.

Lemma ok_nds_sel_spec pts sel : ok_nds_sel pts sel = true <-> NdsSpec pts sel.
Proof.
  unfold ok_nds_sel, NdsSpec. rewrite !andb_true_iff, !forallb_forall, nodupb_NoDup. split.
  - intros [[[H1 H2] H3] H4]. repeat split; try assumption.
    + intros s Hs. apply memv_In, H1, Hs.
    + intros s x Hs Hx Hd. specialize (H3 s Hs). rewrite forallb_forall in H3. specialize (H3 x Hx).
      apply sdomb_spec in Hd. rewrite Hd in H3. discriminate.
    + intros x Hx. specialize (H4 x Hx). apply existsb_exists in H4. exact H4.
  - intros (H1 & H2 & H3 & H4). repeat split; try assumption.
    + intros s Hs. apply memv_In, H1, Hs.
    + intros s Hs. apply forallb_forall. intros x Hx. apply negb_true_iff.
      destruct (sdomb x s) eqn:E; [|reflexivity]. apply sdomb_spec in E. exfalso. eapply H3; eauto.
    + intros x Hx. apply existsb_exists. auto.
Qed.

(* mask form *)
Definition ok_nds (pts : list vec) (mask : list bool) : bool :=
  Nat.eqb (length mask) (length pts) && ok_nds_sel pts (select mask pts).

(* --- ranked --- *)
Definition inclb (a b : list vec) : bool := forallb (fun v => memv v b) a.
Lemma inclb_incl a b : inclb a b = true <-> incl a b.
Proof. unfold inclb. rewrite forallb_forall. split; intros H v Hv; [apply memv_In|apply memv_In]; auto. Qed.

Fixpoint fbf (frs : list (list vec)) (sel : list vec) : bool :=
  match frs with
  | [] => match sel with [] => true | _ => false end
  | f :: rest => if inclb f sel then fbf rest (msub sel f) else nodupb sel && inclb sel f
  end.

Definition FrontByFront (frs : list (list vec)) (sel : list vec) : Prop :=
  exists j t, Permutation sel (concat (firstn j frs) ++ t) /\
    (t = [] \/ exists fr, nth_error frs j = Some fr /\ NoDup t /\ incl t fr).

Lemma fbf_sound : forall frs sel, Forall (@NoDup vec) frs -> fbf frs sel = true -> FrontByFront frs sel.
Proof.
  induction frs as [|f rest IH]; intros sel Hnd H; cbn [fbf] in H.
  - destruct sel; [|discriminate]. exists 0%nat, []. cbn. auto.
  - inversion Hnd as [|? ? Hf Hrest]; subst. destruct (inclb f sel) eqn:E.
    + apply inclb_incl in E. destruct (IH _ Hrest H) as (j & t & Hp & Ht).
      exists (S j), t. split; [|exact Ht]. cbn [firstn concat]. rewrite <- app_assoc.
      eapply Permutation_trans; [apply (msub_perm f sel Hf E)|]. apply Permutation_app_head. exact Hp.
    + apply andb_true_iff in H as [H1 H2]. apply nodupb_NoDup in H1. apply inclb_incl in H2.
      exists 0%nat, sel. split; [reflexivity|]. right. exists f. auto.
Qed.

Definition RankedSpec (pts : list vec) (req : nat) (sel : list vec) : Prop :=
  length sel = Nat.min req (length pts) /\ FrontByFront (fronts pts) sel.

Definition ok_ranked_sel (pts : list vec) (req : nat) (sel : list vec) : bool :=
  Nat.eqb (length sel) (Nat.min req (length pts)) && fbf (fronts pts) sel.

Definition ok_ranked (pts : list vec) (req : nat) (mask : list bool) : bool :=
  Nat.eqb (length mask) (length pts) && ok_ranked_sel pts req (select mask pts).

Lemma fronts_nodup m pts : SameLen m pts -> Forall (@NoDup vec) (fronts pts).
Proof.
  intros H. apply Forall_forall. intros fr Hin. apply In_nth_error in Hin as [j Hj].
  destruct (peel_front_is_nds _ _ _ _ Hj) as (rest & -> & Hne & Hp).
  specialize (Hp m H (le_n _)).
  assert (SameLen m rest).
  { eapply samelen_incl; [exact H|]. intros w Hw. eapply Permutation_in; [apply Permutation_sym; exact Hp|].
    apply in_or_app; right; exact Hw. }
  destruct (nds_correct m rest H0) as (_ & Hnd & _). exact Hnd.
Qed.

Lemma ok_ranked_sel_sound m pts req sel : SameLen m pts ->
  ok_ranked_sel pts req sel = true -> RankedSpec pts req sel.
Proof.
  intros H Hok. unfold ok_ranked_sel in Hok. apply andb_true_iff in Hok as [H1 H2].
  apply Nat.eqb_eq in H1. split; [exact H1|]. apply fbf_sound; [apply (fronts_nodup m); exact H| exact H2].
Qed.

(* the model meets both specifications *)
Theorem model_nds_spec m pts : SameLen m pts -> NdsSpec pts (nds pts).
Proof. intros H. exact (nds_correct m pts H). Qed.

Theorem model_ranked_spec m pts req : SameLen m pts -> RankedSpec pts req (ranked req pts).
Proof.
  intros H. split; [apply (ranked_count m); exact H|].
  destruct (ranked_front_by_front pts req) as (j & t & E & Ht). exists j, t. split; [rewrite E; reflexivity|].
  destruct Ht as [->|(fr & Hfr & k & -> & Hk)]; [left; reflexivity|right]. exists fr. split; [exact Hfr|].
  assert (Hnd : NoDup fr).
  { pose proof (fronts_nodup m pts H) as HF. rewrite Forall_forall in HF. apply HF. eapply nth_error_In; eauto. }
  split.
  - rewrite <- (firstn_skipn k fr) in Hnd. apply NoDup_app_l in Hnd. exact Hnd.
  - intros w Hw. rewrite <- (firstn_skipn k fr). apply in_or_app; left; exact Hw.
Qed.
