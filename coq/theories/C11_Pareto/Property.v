(* C11 - Non-dominated set and Pareto front are exact.  Property theorems only. *)
From Coq Require Import List ZArith Bool Arith Permutation.
Import ListNotations.
Require Import DH.Common.VecOrd DH.C11_Pareto.Model DH.C11_Pareto.Lemmas DH.C11_Pareto.Check.
Open Scope Z_scope.

(* soundness, completeness, one-per-value - for the input visited in ANY order (pts is any list) *)
Theorem C11_nds_sound_complete_unique : forall m pts, SameLen m pts ->
  let out := nds pts in
  incl out pts /\ NoDup out
  /\ (forall s x, In s out -> In x pts -> ~ sdom x s)
  /\ (forall x, In x pts -> exists s, In s out /\ wdom s x = true).
Proof. exact nds_correct. Qed.
Print Assumptions C11_nds_sound_complete_unique.

(* the selected values are exactly the minimal values: each minimal value once *)
Theorem C11_nds_one_per_value : forall m pts, SameLen m pts -> forall s, In s (nds pts) <-> minimal pts s.
Proof. exact nds_char. Qed.
Print Assumptions C11_nds_one_per_value.

(* the sort by coordinate sum (or any other visiting order) cannot matter *)
Theorem C11_order_irrelevant : forall m pts pts', SameLen m pts -> Permutation pts pts' ->
  forall s, In s (nds pts) <-> In s (nds pts').
Proof. exact nds_order_irrelevant. Qed.
Print Assumptions C11_order_irrelevant.

Theorem C11_fronts_partition : forall m pts, SameLen m pts -> Permutation (concat (fronts pts)) pts.
Proof. exact fronts_partition. Qed.
Print Assumptions C11_fronts_partition.

Theorem C11_ranked_count : forall m pts req, SameLen m pts -> length (ranked req pts) = Nat.min req (length pts).
Proof. exact ranked_count. Qed.
Print Assumptions C11_ranked_count.

Theorem C11_ranked_front_by_front : forall m pts req, SameLen m pts -> RankedSpec pts req (ranked req pts).
Proof. exact model_ranked_spec. Qed.
Print Assumptions C11_ranked_front_by_front.

(* the oracles used on the implementation's outputs decide exactly / soundly the specifications *)
Theorem C11_oracle_nds : forall pts sel, ok_nds_sel pts sel = true <-> NdsSpec pts sel.
Proof. exact ok_nds_sel_spec. Qed.
Print Assumptions C11_oracle_nds.

Theorem C11_oracle_ranked : forall m pts req sel, SameLen m pts ->
  ok_ranked_sel pts req sel = true -> RankedSpec pts req sel.
Proof. exact ok_ranked_sel_sound. Qed.
Print Assumptions C11_oracle_ranked.

(* non-vacuity: a concrete set with ties, duplicates and weakly dominated points *)
Example C11_example :
  nds [[1;2];[2;1];[2;2];[1;2];[0;3];[3;0];[1;1]] = [[0;3];[3;0];[1;1]]
  /\ ranked 4 [[1;2];[2;1];[2;2];[1;2];[0;3];[3;0];[1;1]] = [[0;3];[3;0];[1;1];[1;2]].
Proof. vm_compute. split; reflexivity. Qed.
