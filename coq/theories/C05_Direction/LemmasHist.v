(* C05 - the scalarised history (scaler per objective, shift by the utopia point, scalariser) and the exploitation step
   for several objectives. *)
From Coq Require Import List ZArith QArith Qabs Bool Arith Lia Lqa.
Import ListNotations.
Require Import DH.C05_Direction.Model DH.C05_Direction.LemmasBasic DH.C05_Direction.LemmasVec DH.C05_Direction.LemmasSign
  DH.C05_Direction.LemmasScalar DH.C05_Direction.LemmasInvar.
Open Scope Q_scope.

(* ---------- lists indexed by seq ---------- *)
Lemma nth_map_seq (f : nat -> Q) m j : (j < m)%nat -> nth j (map f (seq 0 m)) 0 = f j.
Proof.
  intros H. rewrite (nth_indep _ 0 (f O)) by (rewrite map_length, seq_length; exact H).
  rewrite map_nth. rewrite seq_nth by exact H. reflexivity.
Qed.

Lemma Forall_map_seq (P : Q -> Prop) (f : nat -> Q) m :
  Forall P (map f (seq 0 m)) <-> forall j, (j < m)%nat -> P (f j).
Proof.
  rewrite Forall_forall. split.
  - intros H j Hj. apply H. apply in_map. apply in_seq. lia.
  - intros H x Hx. apply in_map_iff in Hx as [j [<- Hj]]. apply H. apply in_seq in Hj. lia.
Qed.

Lemma Forall2_map_same {A} (R : Q -> Q -> Prop) (f g : A -> Q) l :
  Forall2 R (map f l) (map g l) <-> forall x, In x l -> R (f x) (g x).
Proof.
  induction l as [|a l IH]; cbn [map]; split.
  - intros _ x [].
  - intros _. constructor.
  - intros H x [->|Hx]; inversion H; subst; [assumption|]. apply IH; assumption.
  - intros H. constructor; [apply H; left; reflexivity|]. apply IH. intros x Hx. apply H. right. exact Hx.
Qed.

Lemma Forall2_map_seq (R : Q -> Q -> Prop) (f g : nat -> Q) m :
  Forall2 R (map f (seq 0 m)) (map g (seq 0 m)) <-> forall j, (j < m)%nat -> R (f j) (g j).
Proof.
  rewrite Forall2_map_same. split; intros H j Hj; apply H; [apply in_seq; lia|apply in_seq in Hj; lia].
Qed.

Lemma Forall2_map_r {A} (P : A -> Q -> Prop) (f : A -> Q) l :
  Forall2 P l (map f l) <-> forall x, In x l -> P x (f x).
Proof.
  induction l as [|a l IH]; cbn [map]; split.
  - intros _ x [].
  - intros _. constructor.
  - intros H x [->|Hx]; inversion H; subst; [assumption|]. apply IH; assumption.
  - intros H. constructor; [apply H; left; reflexivity|]. apply IH. intros x Hx. apply H. right. exact Hx.
Qed.

(* ---------- the shifted, scaled row ---------- *)
(* column j of the scaled history, and the row of a told vector r after scaling and subtracting the utopia point *)
Definition scol (sc : nat -> Q -> Q) (Y : list (list Q)) (j : nat) : list Q := map (fun r => sc j (nth j r 0)) Y.
Definition shrow (sc : nat -> Q -> Q) (m : nat) (Y : list (list Q)) (r : list Q) : list Q :=
  map (fun j => sc j (nth j r 0) - qminl (scol sc Y j)) (seq 0 m).

Lemma col_scale_rows sc m Y j : (j < m)%nat -> col j (scale_rows sc m Y) = scol sc Y j.
Proof.
  intros Hj. unfold col, scale_rows, scol. rewrite map_map. apply map_ext. intros r. apply nth_map_seq. exact Hj.
Qed.

Lemma moo_score_eq sc k par w m Y :
  moo_score sc k par w m Y = map (fun r => scal k par w (shrow sc m Y r)) Y.
Proof.
  unfold moo_score, scal_hist, scale_rows. rewrite map_map. apply map_ext. intros r. f_equal.
  unfold vsub, colmin. rewrite map2_map. unfold shrow. apply map_ext_in. intros j Hj. apply in_seq in Hj.
  fold (scale_rows sc m Y). rewrite col_scale_rows by lia. reflexivity.
Qed.

Lemma shrow_length sc m Y r : length (shrow sc m Y r) = m.
Proof. unfold shrow. rewrite map_length, seq_length. reflexivity. Qed.

Lemma scol_in sc Y j r : In r Y -> In (sc j (nth j r 0)) (scol sc Y j).
Proof. intros H. unfold scol. apply (in_map (fun r0 => sc j (nth j r0 0))). exact H. Qed.

Lemma shrow_nonneg sc m Y r : In r Y -> nonneg (shrow sc m Y r).
Proof.
  intros Hr. unfold nonneg, shrow. apply Forall_map_seq. intros j Hj.
  pose proof (qminl_lb _ _ (scol_in sc Y j r Hr)). lra.
Qed.

Lemma shrow_vle sc m Y r r' :
  (forall j, (j < m)%nat -> sc j (nth j r 0) <= sc j (nth j r' 0)) -> vle (shrow sc m Y r) (shrow sc m Y r').
Proof. intros H. unfold vle, shrow. apply Forall2_map_seq. intros j Hj. specialize (H j Hj). lra. Qed.

Lemma shrow_vlt sc m Y r r' :
  (forall j, (j < m)%nat -> sc j (nth j r 0) < sc j (nth j r' 0)) -> vlt (shrow sc m Y r) (shrow sc m Y r').
Proof. intros H. unfold vlt, shrow. apply Forall2_map_seq. intros j Hj. specialize (H j Hj). lra. Qed.

Lemma shrow_veq_inv sc m Y r r' :
  veq (shrow sc m Y r) (shrow sc m Y r') -> forall j, (j < m)%nat -> sc j (nth j r 0) == sc j (nth j r' 0).
Proof.
  intros H j Hj. unfold veq, shrow in H. rewrite Forall2_map_seq in H. specialize (H j Hj). lra.
Qed.

Lemma shrow_ideal_zero sc m Y r :
  In r Y -> (forall r' j, In r' Y -> (j < m)%nat -> sc j (nth j r 0) <= sc j (nth j r' 0)) -> allzero (shrow sc m Y r).
Proof.
  intros Hr H. unfold allzero, shrow. apply Forall_map_seq. intros j Hj.
  assert (E : qminl (scol sc Y j) == sc j (nth j r 0)).
  { apply qminl_char; [apply scol_in; exact Hr|]. intros x Hx. unfold scol in Hx. apply in_map_iff in Hx as [r' [<- Hr']].
    apply H; assumption. }
  rewrite E. ring.
Qed.

Lemma shrow_zero_inv sc m Y r :
  allzero (shrow sc m Y r) -> forall j, (j < m)%nat -> sc j (nth j r 0) == qminl (scol sc Y j).
Proof.
  intros H j Hj. unfold allzero, shrow in H. rewrite Forall_map_seq in H. specialize (H j Hj). cbv beta in H. lra.
Qed.

Lemma nth_vneg j v : nth j (vneg v) 0 = - nth j v 0.
Proof. unfold vneg. change 0 with (Qopp 0) at 1. apply map_nth. Qed.

(* ---------- exploitation step with several objectives ---------- *)
Section MooExploit.
  Variable C : Type.
  Variables (obj : C -> list Q) (mu sigma : C -> Q) (sc : nat -> Q -> Q) (kappa par : Q) (k : skind) (w : list Q) (m : nat).
  Variables (cs : list C) (d : C).

  (* objective j of candidate c (the user's value: larger is better) *)
  Definition ob (c : C) (j : nat) : Q := nth j (obj c) 0.
  (* what the optimizer was told *)
  Definition toldY : list (list Q) := map (fun c => vneg (obj c)) cs.

  Hypothesis Hk : kappa == 0.
  Hypothesis Hw : allpos w.
  Hypothesis Lw : length w = m.
  Hypothesis Hm : (0 < m)%nat.
  Hypothesis Hpar : 0 <= par.
  Hypothesis Hne : cs <> [].
  (* the objective scaler is increasing on the told sample, objective by objective *)
  Hypothesis Hsc : forall j a b, (j < m)%nat -> In a (col j toldY) -> In b (col j toldY) ->
                                 (a <= b -> sc j a <= sc j b) /\ (a < b -> sc j a < sc j b).
  (* the surrogate mean interpolates the scalarised history *)
  Hypothesis Hint : Forall2 (fun c s => mu c == s) cs (moo_score sc k par w m toldY).

  Definition score (c : C) : Q := scal k par w (shrow sc m toldY (vneg (obj c))).
  Definition proposal : C := nth (next_idx kappa (map mu cs) (map sigma cs)) cs d.

  Lemma mu_score c : In c cs -> mu c == score c.
  Proof.
    intros Hc. rewrite moo_score_eq in Hint. unfold toldY in Hint at 2. rewrite map_map in Hint.
    rewrite Forall2_map_r in Hint. apply Hint. exact Hc.
  Qed.

  Lemma told_in c : In c cs -> In (vneg (obj c)) toldY.
  Proof. intros H. unfold toldY. apply (in_map (fun c0 => vneg (obj c0))). exact H. Qed.

  Lemma col_told_in c j : In c cs -> In (- ob c j) (col j toldY).
  Proof.
    intros H. unfold col, ob. rewrite <- nth_vneg. apply (in_map (fun r => nth j r 0)). apply told_in. exact H.
  Qed.

  Lemma proposal_min : In proposal cs /\ forall c, In c cs -> score proposal <= score c.
  Proof.
    unfold proposal, next_idx. rewrite map2_map.
    destruct (argmin_map_spec (fun c => acq_lcb kappa (mu c) (sigma c)) cs d Hne) as [Hin Hmin].
    set (x := nth _ cs d) in *. split; [exact Hin|]. intros c Hc. specialize (Hmin c Hc). cbv beta in Hmin.
    unfold acq_lcb in Hmin. rewrite <- (mu_score c Hc), <- (mu_score x Hin).
    assert (Hz : kappa * sigma x == 0 /\ kappa * sigma c == 0) by (split; rewrite Hk; ring).
    destruct Hz as [Hz1 Hz2]. rewrite Hz1, Hz2 in Hmin. lra.
  Qed.

  (* scaled coordinates follow the objectives, reversed *)
  Lemma sc_le c c' j : In c cs -> In c' cs -> (j < m)%nat -> ob c' j <= ob c j ->
    sc j (nth j (vneg (obj c)) 0) <= sc j (nth j (vneg (obj c')) 0).
  Proof.
    intros Hc Hc' Hj H. rewrite !nth_vneg. fold (ob c j) (ob c' j).
    apply (Hsc j _ _ Hj (col_told_in c j Hc) (col_told_in c' j Hc')). lra.
  Qed.
  Lemma sc_lt c c' j : In c cs -> In c' cs -> (j < m)%nat -> ob c' j < ob c j ->
    sc j (nth j (vneg (obj c)) 0) < sc j (nth j (vneg (obj c')) 0).
  Proof.
    intros Hc Hc' Hj H. rewrite !nth_vneg. fold (ob c j) (ob c' j).
    apply (Hsc j _ _ Hj (col_told_in c j Hc) (col_told_in c' j Hc')). lra.
  Qed.
  Lemma sc_eq_inv c c' j : In c cs -> In c' cs -> (j < m)%nat ->
    sc j (nth j (vneg (obj c)) 0) == sc j (nth j (vneg (obj c')) 0) -> ob c j == ob c' j.
  Proof.
    intros Hc Hc' Hj H. rewrite !nth_vneg in H. fold (ob c j) (ob c' j) in H.
    destruct (Q_dec (ob c j) (ob c' j)) as [[Hlt|Hgt]|Heq]; [| |exact Heq]; exfalso.
    - assert (H1 : - ob c' j < - ob c j) by lra.
      apply (Hsc j _ _ Hj (col_told_in c' j Hc') (col_told_in c j Hc)) in H1. lra.
    - assert (H1 : - ob c j < - ob c' j) by lra.
      apply (Hsc j _ _ Hj (col_told_in c j Hc) (col_told_in c' j Hc')) in H1. lra.
  Qed.

  Let Hwne : w <> [].
  Proof. intros E. rewrite E in Lw. cbn in Lw. lia. Qed.

  (* (1) a candidate that is best in every objective is proposed (up to equal objective values): all five scalarisers *)
  Lemma moo_ideal c' : In c' cs -> (forall c j, In c cs -> (j < m)%nat -> ob c j <= ob c' j) ->
    forall j, (j < m)%nat -> ob proposal j == ob c' j.
  Proof.
    intros Hc' Hbest. destruct proposal_min as [Hin Hmin].
    assert (Hz : allzero (shrow sc m toldY (vneg (obj c')))).
    { apply shrow_ideal_zero; [apply told_in; exact Hc'|]. intros r' j Hr' Hj.
      unfold toldY in Hr'. apply in_map_iff in Hr' as [c [<- Hc]]. apply sc_le; auto. }
    assert (H0 : score c' == 0) by (apply scal_at_zero; exact Hz).
    assert (Hx0 : score proposal == 0).
    { pose proof (Hmin c' Hc') as H1.
      pose proof (scal_nonneg w (shrow sc m toldY (vneg (obj proposal))) par Hw Hwne
                    (eq_trans Lw (eq_sym (shrow_length sc m toldY _))) Hpar (shrow_nonneg sc m toldY _ (told_in _ Hin)) k) as H2.
      fold (score proposal) in H2. lra. }
    apply scal_zero_inv in Hx0; [|exact Hw|exact Hwne|rewrite shrow_length; exact Lw|exact Hpar|apply shrow_nonneg, told_in, Hin].
    intros j Hj. apply sc_eq_inv; [exact Hin|exact Hc'|exact Hj|].
    rewrite (shrow_zero_inv sc m toldY _ Hx0 j Hj), (shrow_zero_inv sc m toldY _ Hz j Hj). reflexivity.
  Qed.

  (* (2) Linear / Chebyshev / augmented Chebyshev: no candidate is better than the proposal in EVERY objective *)
  Lemma moo_weak : k = SLin \/ k = SCheb \/ k = SAug ->
    forall c, In c cs -> ~ (forall j, (j < m)%nat -> ob proposal j < ob c j).
  Proof.
    intros Hkind c Hc Hdom. destruct proposal_min as [Hin Hmin]. specialize (Hmin c Hc).
    assert (Hlt : vlt (shrow sc m toldY (vneg (obj c))) (shrow sc m toldY (vneg (obj proposal)))).
    { apply shrow_vlt. intros j Hj. apply sc_lt; auto. }
    assert (Hnn : nonneg (shrow sc m toldY (vneg (obj c)))) by (apply shrow_nonneg, told_in, Hc).
    assert (Ll : length w = length (shrow sc m toldY (vneg (obj c)))) by (rewrite shrow_length; exact Lw).
    assert (Hs : score c < score proposal).
    { unfold score. destruct Hkind as [ -> | [ -> | -> ] ]; cbn [scal].
      - apply lin_strict; [exact Hw|exact Ll|apply vlt_vle; exact Hlt|].
        intros He. pose proof (shrow_veq_inv _ _ _ _ _ He O Hm) as E.
        pose proof (sc_lt c proposal O Hc Hin Hm (Hdom O Hm)). lra.
      - apply cheb_strict; assumption.
      - apply aug_strict_all; assumption. }
    lra.
  Qed.

  (* (3) Linear / augmented Chebyshev with alpha > 0: the proposal is Pareto optimal among the candidates *)
  Lemma moo_pareto : k = SLin \/ (k = SAug /\ 0 < par) ->
    forall c, In c cs -> (forall j, (j < m)%nat -> ob proposal j <= ob c j) -> forall j, (j < m)%nat -> ob c j == ob proposal j.
  Proof.
    intros Hkind c Hc Hdom. destruct proposal_min as [Hin Hmin]. specialize (Hmin c Hc).
    assert (Hle : vle (shrow sc m toldY (vneg (obj c))) (shrow sc m toldY (vneg (obj proposal)))).
    { apply shrow_vle. intros j Hj. apply sc_le; auto. }
    assert (Hnn : nonneg (shrow sc m toldY (vneg (obj c)))) by (apply shrow_nonneg, told_in, Hc).
    assert (Ll : length w = length (shrow sc m toldY (vneg (obj c)))) by (rewrite shrow_length; exact Lw).
    assert (Heq : veq (shrow sc m toldY (vneg (obj c))) (shrow sc m toldY (vneg (obj proposal)))).
    { destruct (veq_dec (shrow sc m toldY (vneg (obj c))) (shrow sc m toldY (vneg (obj proposal)))) as [He|Hn];
        [exact He|exfalso].
      assert (Hs : score c < score proposal).
      { unfold score. destruct Hkind as [ -> | [ -> Hp ] ]; cbn [scal].
        - apply lin_strict; assumption.
        - apply aug_strict; assumption. }
      lra. }
    intros j Hj. apply sc_eq_inv; [exact Hc|exact Hin|exact Hj|]. apply (shrow_veq_inv _ _ _ _ _ Heq j Hj).
  Qed.
End MooExploit.
