(* C05 - Searches maximise the objective(s).  Property theorems only. *)
From Coq Require Import String.
From Coq Require Import List ZArith QArith Qabs Bool Arith Permutation.
Import ListNotations.
Require Import DH.C05_Direction.Model DH.C05_Direction.LemmasBasic DH.C05_Direction.LemmasVec DH.C05_Direction.LemmasSign
  DH.C05_Direction.LemmasScalar DH.C05_Direction.LemmasInvar DH.C05_Direction.LemmasHist DH.C05_Direction.LemmasAffine
  DH.C05_Direction.LemmasScaler DH.C05_Direction.LemmasFinal DH.C05_Direction.LemmasProperty DH.C05_Direction.LemmasTopk DH.C05_Direction.LemmasSweep DH.C05_Direction.Check DH.C05_Direction.Names.
Require Import DH.Generated.Facts_C05.
Open Scope Q_scope.

(* Exploitation only (kappa = 0), every candidate observed, surrogate mean interpolating the (scaled, negated) told values,
   any strictly increasing objective scaler, any predicted uncertainty: the next proposal has the LARGEST objective. *)
Theorem C05_exploit_picks_max :
  forall (C : Type) (obj mu sigma : C -> Q) (sc : Q -> Q) (kappa : Q),
    (forall x y, x < y -> sc x < sc y) -> kappa == 0 ->
    forall (cs : list C) (d : C), cs <> [] ->
    (forall c, In c cs -> mu c == sc (- obj c)) ->
    let x := nth (next_idx kappa (map mu cs) (map sigma cs)) cs d in
    In x cs /\ forall c, In c cs -> obj c <= obj x.
Proof. exact exploit_picks_max. Qed.
Print Assumptions C05_exploit_picks_max.

(* The name tables of _cbo.py (GENERATED from the source on every run) map every user-level (maximisation) name to the
   optimizer-level (minimisation) name with the dual meaning, and the dual meaning composed with the negation is the
   user's meaning: lies, failure values, confidence bounds, improvement. *)
Theorem C05_name_maps :
  srcfacts_ok = true
  /\ (forall s k, In (s, k) user_lies ->
        opt_lie_kind (resolve map_multi_point_strategy s) = Some (dual k)
        /\ forall ys, - lie (dual k) (map Qopp ys) == lie k ys)
  /\ (forall s p, In (s, p) user_fills ->
        opt_fpol (resolve map_filter_failures s) = upol_to_opt p
        /\ forall good, - fill_value (upol_to_opt p) (map Qopp good) == fill_user p good)
  /\ opt_fpol (resolve map_filter_failures "ignore"%string) = POther
  /\ (forall s, In s user_ucb -> opt_is_lcb (resolve map_acq_func s) = true)
  /\ (forall s, In s user_qucb -> opt_is_lcb (resolve map_multi_point_strategy s) = true)
  /\ (forall kappa mu sigma, acq_lcb kappa (- mu) sigma == - ucb kappa mu sigma)
  /\ (forall s, In s user_same_acq -> resolve map_acq_func s = s)
  /\ (forall s, In s user_same_strategy -> resolve map_multi_point_strategy s = s)
  /\ (forall best xi mu, improve_min (- best) xi (- mu) == improve_max best xi mu)
  /\ (forall s, In s cbo_multi_point_strategy_allowed -> In s (map fst user_lies ++ user_qucb ++ user_same_strategy))
  /\ (forall s, In s cbo_acq_func_allowed -> In s (user_ucb ++ user_same_acq)).
Proof. exact name_maps. Qed.
Print Assumptions C05_name_maps.

(* multi-objective lies are taken per objective *)
Theorem C05_lie_vec_dual : forall k m Y, Forall2 Qeq (vneg (lie_vec (dual k) m (map vneg Y))) (lie_vec k m Y).
Proof. exact lie_vec_dual. Qed.
Print Assumptions C05_lie_vec_dual.

(* what CBO._tell hands to the optimizer: exactly the negated objective vectors of the successful jobs, "F" for the
   failed ones unless failures are ignored; a failure imputed with the "max" policy is never better than an observation *)
Theorem C05_tell_negates :
  forall ignore jobs c,
    (forall y, In (c, TVal y) (cbo_tell ignore jobs) <-> exists v, In (c, Some v) jobs /\ y = vneg v)
    /\ (In (c, TFail) (cbo_tell ignore jobs) <-> ignore = false /\ In (c, None) jobs)
    /\ (forall good x, In x good -> x <= fill_value PMax good).
Proof. exact tell_negates_all. Qed.
Print Assumptions C05_tell_negates.

(* Linear, Chebyshev and augmented Chebyshev are monotone on the orthant above the utopia point (where the repaired
   scalarize() evaluates them): weakly for weights >= 0, strictly for weights > 0. *)
Theorem C05_scalar_monotone :
  forall w y y', nonneg y -> vle y y' ->
    (nonneg w -> lin w y <= lin w y' /\ cheb w y <= cheb w y' /\ forall a, 0 <= a -> augcheb a w y <= augcheb a w y')
    /\ (allpos w -> length w = length y -> ~ veq y y' ->
          lin w y < lin w y' /\ forall a, 0 < a -> augcheb a w y < augcheb a w y')
    /\ (allpos w -> w <> [] -> length w = length y -> vlt y y' ->
          cheb w y < cheb w y' /\ forall a, 0 <= a -> augcheb a w y < augcheb a w y').
Proof. exact scalar_monotone_all. Qed.
Print Assumptions C05_scalar_monotone.

(* All five scalarisers: on the orthant above the utopia point the value is >= 0, it is 0 at the utopia point and
   nowhere else (weights > 0, parameter >= 0): a configuration that is best in every objective is the unique minimiser. *)
Theorem C05_utopia_unique_minimum :
  forall k par w y, allpos w -> w <> [] -> length w = length y -> 0 <= par -> nonneg y ->
    0 <= scal k par w y /\ (scal k par w y == 0 <-> allzero y).
Proof. exact utopia_unique_minimum_all. Qed.
Print Assumptions C05_utopia_unique_minimum.

(* Several objectives, exploitation only, every candidate observed, interpolating surrogate, REPAIRED scalarisation
   (relative to the utopia point), any objective scaler that is increasing per objective on the told sample,
   weights > 0.  [ob c j] is objective j of candidate c in the user's terms (larger is better).
   (1) all five scalarisers: a candidate that is best in every objective is proposed (up to equal objective values);
   (2) Linear / Chebyshev / AugChebyshev: no candidate is better than the proposal in every objective;
   (3) Linear / AugChebyshev (alpha > 0): the proposal is Pareto optimal. *)
Theorem C05_moo_exploit :
  forall (C : Type) (obj : C -> list Q) (mu sigma : C -> Q) (sc : nat -> Q -> Q) (kappa par : Q) (k : skind) (w : list Q) (m : nat)
         (cs : list C) (d : C),
    kappa == 0 -> allpos w -> length w = m -> (0 < m)%nat -> 0 <= par -> cs <> [] ->
    (forall j a b, (j < m)%nat -> In a (col j (toldY C obj cs)) -> In b (col j (toldY C obj cs)) ->
                   (a <= b -> sc j a <= sc j b) /\ (a < b -> sc j a < sc j b)) ->
    Forall2 (fun c s => mu c == s) cs (moo_score sc k par w m (toldY C obj cs)) ->
    let x := nth (next_idx kappa (map mu cs) (map sigma cs)) cs d in
    In x cs
    /\ (forall c', In c' cs -> (forall c j, In c cs -> (j < m)%nat -> ob C obj c j <= ob C obj c' j) ->
                   forall j, (j < m)%nat -> ob C obj x j == ob C obj c' j)
    /\ (k = SLin \/ k = SCheb \/ k = SAug ->
        forall c, In c cs -> ~ (forall j, (j < m)%nat -> ob C obj x j < ob C obj c j))
    /\ (k = SLin \/ (k = SAug /\ 0 < par) ->
        forall c, In c cs -> (forall j, (j < m)%nat -> ob C obj x j <= ob C obj c j) ->
                  forall j, (j < m)%nat -> ob C obj c j == ob C obj x j).
Proof. exact moo_exploit_all. Qed.
Print Assumptions C05_moo_exploit.

(* The modelled scalers (identity, minmax, quantile-uniform fitted on the sample) satisfy the scaler hypothesis, so the three
   conclusions hold for the model's own pipeline [moo_scalarize] with no assumption on the scaler. *)
Theorem C05_scalers_increasing :
  forall sk ys a b, In a ys -> In b ys ->
    (a <= b -> scale_col sk ys a <= scale_col sk ys b) /\ (a < b -> scale_col sk ys a < scale_col sk ys b).
Proof. exact scalers_increasing_all. Qed.
Print Assumptions C05_scalers_increasing.

Theorem C05_moo_exploit_model_scalers :
  forall (C : Type) (obj : C -> list Q) (mu sigma : C -> Q) (sk : sckind) (kappa par : Q) (k : skind) (w : list Q) (m : nat)
         (cs : list C) (d : C),
    kappa == 0 -> allpos w -> length w = m -> (0 < m)%nat -> 0 <= par -> cs <> [] ->
    Forall2 (fun c s => mu c == s) cs (moo_scalarize sk k par w m (toldY C obj cs)) ->
    let x := nth (next_idx kappa (map mu cs) (map sigma cs)) cs d in
    (forall c', In c' cs -> (forall c j, In c cs -> (j < m)%nat -> ob C obj c j <= ob C obj c' j) ->
                forall j, (j < m)%nat -> ob C obj x j == ob C obj c' j)
    /\ (k = SLin \/ k = SCheb \/ k = SAug ->
        forall c, In c cs -> ~ (forall j, (j < m)%nat -> ob C obj x j < ob C obj c j))
    /\ (k = SLin \/ (k = SAug /\ 0 < par) ->
        forall c, In c cs -> (forall j, (j < m)%nat -> ob C obj x j <= ob C obj c j) ->
                  forall j, (j < m)%nat -> ob C obj c j == ob C obj x j).
Proof. exact moo_exploit_model_scalers_all. Qed.
Print Assumptions C05_moo_exploit_model_scalers.

(* The direction does not change when a constant is added to the objectives or they are rescaled by a positive factor:
   the index selected on the scalarised history of  a*Y + b  is the index selected on Y.  With the identity scaler: one common
   factor (a_j == a_0) and any shift per objective; with minmax / quantile-uniform: any a_j > 0, b_j per objective.
   All five scalarisers (REPAIRED: relative to the utopia point), any weights, any parameter. *)
Theorem C05_shift_scale_invariant :
  forall sk k par w m Y (a b : nat -> Q),
    Y <> [] -> (forall j, 0 < a j) -> (sk = ScId -> forall j, a j == a O) ->
    argmin_idx (moo_scalarize sk k par w m (affine a b m Y)) = argmin_idx (moo_scalarize sk k par w m Y).
Proof. exact shift_scale_invariant. Qed.
Print Assumptions C05_shift_scale_invariant.

(* single objective: told values a*y + b (a > 0) under any strictly increasing scaler select the same index as y *)
Theorem C05_single_objective_invariant :
  forall (sc sc' : Q -> Q) a b ys,
    0 < a -> (forall x y, x < y -> sc x < sc y) -> (forall x y, x < y -> sc' x < sc' y) ->
    (forall x y, x == y -> sc x == sc y) -> (forall x y, x == y -> sc' x == sc' y) ->
    argmin_idx (map (fun y => sc' (a * y + b)) ys) = argmin_idx (map sc ys).
Proof. exact so_argmin_invariant. Qed.
Print Assumptions C05_single_objective_invariant.

(* positive homogeneity and compatibility with pointwise equality, all five scalarisers *)
Theorem C05_scalar_homogeneous :
  forall k par w a y, 0 <= a -> scal k par w (vscale a y) == hdeg k a * scal k par w y.
Proof. exact scal_scale. Qed.
Print Assumptions C05_scalar_homogeneous.

(* One-shot batch ask(n, "topk"): the n selected (index, value) pairs are a sub-multiset of the candidates, there are
   min(n, #candidates) of them, and no candidate left out has a smaller acquisition value than a selected one. *)
Theorem C05_topk_selects_smallest :
  forall n l, exists rest,
    Permutation l (topk_pairs n l ++ rest)
    /\ length (topk_pairs n l) = Nat.min n (length l)
    /\ forall p q, In p (topk_pairs n l) -> In q rest -> snd p <= snd q.
Proof. exact topk_pairs_spec. Qed.
Print Assumptions C05_topk_selects_smallest.

(* ... hence, exploitation only (kappa = 0), every candidate observed, interpolating mean, strictly increasing scaler:
   the batch consists of candidates with the LARGEST objectives - no candidate outside the batch beats one inside. *)
Theorem C05_topk_largest_objectives :
  forall (C : Type) (obj mu sigma : C -> Q) (sc : Q -> Q) (kappa : Q),
    (forall x y, x < y -> sc x < sc y) -> kappa == 0 ->
    forall (cs : list C) (d : C) (n : nat),
    (forall c, In c cs -> mu c == sc (- obj c)) ->
    let vals := map2 (acq_lcb kappa) (map mu cs) (map sigma cs) in
    exists rest, Permutation (indexed vals) (topk_pairs n (indexed vals) ++ rest)
                 /\ length (topk n vals) = Nat.min n (length cs)
                 /\ forall p q, In p (topk_pairs n (indexed vals)) -> In q rest ->
                                obj (nth (fst q) cs d) <= obj (nth (fst p) cs d).
Proof. exact topk_largest. Qed.
Print Assumptions C05_topk_largest_objectives.

(* Failed evaluations mixed with observations ("max" imputation = CBO's filter_failures="min"): the best score after
   imputation is the best OBSERVED score - a failed candidate can only be selected when it ties with every observation. *)
Theorem C05_failure_never_preferred :
  forall ys, goods ys <> [] ->
    let l := goods (impute PMax ys) in
    let best := nth (argmin_idx l) l 0 in
    (forall v, In v (goods ys) -> best <= v) /\ (exists v, In v (goods ys) /\ best == v).
Proof. exact failure_never_preferred. Qed.
Print Assumptions C05_failure_never_preferred.

(* A history that arrives in several tells: with the utopia point of the WHOLE history every told row lies in the orthant
   on which the scalarisers are monotone (the hypothesis of C05_scalar_monotone / C05_utopia_unique_minimum) ... *)
Theorem C05_refit_orthant :
  forall sc m Y1 Y2 r, In r (Y1 ++ Y2) -> nonneg (shrow sc m (Y1 ++ Y2) r).
Proof. exact refit_orthant. Qed.
Print Assumptions C05_refit_orthant.

(* ... whereas a utopia point frozen at the first fit makes Chebyshev prefer the row that is worse in every objective. *)
Theorem C05_frozen_utopia_refuted :
  exists w Y1 Y2,
    argmin_idx (scal_hist_frozen SCheb 0 w 2 Y1 Y2) = 0%nat /\ argmin_idx (scal_hist SCheb 0 w 2 (Y1 ++ Y2)) = 1%nat
    /\ vlt (nth 1 (Y1 ++ Y2) []) (nth 0 (Y1 ++ Y2) []).
Proof. exact frozen_utopia_refuted. Qed.
Print Assumptions C05_frozen_utopia_refuted.

(* Constant liar: a lie lies between the smallest and the largest value it is computed from; lies computed on a history
   extended by earlier lies therefore never leave the observed range. *)
Theorem C05_lie_in_range : forall k ys, ys <> [] -> qminl ys <= lie k ys <= qmaxl ys.
Proof. exact lie_in_range. Qed.
Print Assumptions C05_lie_in_range.

(* TODAY's code (before fix F07) applies the scalarisers to the unshifted negated objectives: Chebyshev prefers the point
   that is worse in every objective.  Witness y = (-3,-3) (objectives 3,3), y' = (-1,-1): 3/2 vs 1/2. *)
Theorem C05_cheb_refuted : exists w y y', allpos w /\ vlt y y' /\ cheb w y' < cheb w y.
Proof. exact cheb_unshifted_refuted. Qed.
Print Assumptions C05_cheb_refuted.

(* PBI and Quadratic penalise the distance to the weight ray and do not preserve dominance even above the utopia point:
   inherent to the two methods, not repaired by F07. *)
Theorem C05_pbi_dominance_refuted : exists w y y', allpos w /\ nonneg y /\ vle y y' /\ pbi 5 w y' < pbi 5 w y.
Proof. exact pbi_dominance_refuted. Qed.
Print Assumptions C05_pbi_dominance_refuted.

Theorem C05_quad_dominance_refuted : exists w y y', allpos w /\ nonneg y /\ vle y y' /\ quad 10 w y' < quad 10 w y.
Proof. exact quad_dominance_refuted. Qed.
Print Assumptions C05_quad_dominance_refuted.

(* ---- the oracles used on the implementation's outputs decide the specifications ---- *)
Theorem C05_oracles :
  (forall objs i, ok_pick_max objs i = true <-> PickMax objs i)
  /\ (forall objs i, ok_pick_weak objs i = true <-> PickWeak objs i)
  /\ (forall objs i, ok_pick_pareto objs i = true <-> PickPareto objs i)
  /\ (forall objs i, ok_pick_ideal objs i = true <-> PickIdeal objs i)
  /\ (forall k objs t, ok_lie_user k objs t = true <-> - t == lie k objs)
  /\ (forall k m objs t, ok_lie_vec_user k m objs t = true <-> Forall2 Qeq (vneg t) (lie_vec k m objs))
  /\ (forall p good t, ok_fill_user p good t = true <-> - t == fill_user p good)
  /\ (forall objs told, ok_order_reversing objs told = true <-> OrderReversing objs told)
  /\ (forall l, ok_lcb_direction l = true <-> LcbDirection l)
  /\ (forall rows vals, ok_scal_mono rows vals = true <-> ScalMono rows vals)
  /\ (forall rows vals, ok_scal_strict rows vals = true <-> ScalStrict rows vals)
  /\ (forall rows vals, ok_scal_ideal rows vals = true <-> ScalIdeal rows vals)
  /\ (forall xs ts, ok_scaler_mono xs ts = true <-> ScalerMono xs ts).
Proof. exact oracles_all. Qed.
Print Assumptions C05_oracles.

Theorem C05_oracles_batch :
  (forall l, ok_acq_weak l = true <-> AcqWeak l) /\ (forall objs n sel, ok_topk objs n sel = true <-> TopK objs n sel).
Proof. exact (conj ok_acq_weak_spec ok_topk_spec). Qed.
Print Assumptions C05_oracles_batch.

(* ---- non-vacuity ---- *)
Example C05_example_topk :
  topk 2 [- (3#1); - (7#1); - (5#1); - (1#1)] = [1%nat; 2%nat] /\ ok_topk [3#1; 7#1; 5#1; 1#1] 2 [2%nat; 1%nat] = true
  /\ ok_topk [3#1; 7#1; 5#1; 1#1] 2 [0%nat; 1%nat] = false.
Proof. vm_compute. repeat split; reflexivity. Qed.

Example C05_example_exploit :
  next_idx 0 [- (3#1); - (7#1); - (5#1)] [1; 2; 3] = 1%nat /\ ok_pick_max [3#1; 7#1; 5#1] 1 = true.
Proof. vm_compute. split; reflexivity. Qed.

Example C05_example_f07 :
  argmin_idx (scal_hist_today SCheb 0 [1#2; 1#2] [[-3#1; -3#1]; [-1#1; -1#1]]) = 1%nat
  /\ argmin_idx (scal_hist SCheb 0 [1#2; 1#2] 2 [[-3#1; -3#1]; [-1#1; -1#1]]) = 0%nat.
Proof. vm_compute. split; reflexivity. Qed.

(* the hypotheses of C05_moo_exploit_model_scalers are satisfiable and the conclusion is not trivial: three candidates,
   objectives (1,5), (4,4), (5,1) and (6,6)-free; Chebyshev with minmax scaler proposes (4,4) *)
Example C05_example_moo :
  let objs := [[1; 5]; [4; 4]; [5; 1]] in
  let S := moo_scalarize ScMinMax SCheb 0 [1#2; 1#2] 2 (map vneg objs) in
  next_idx 0 S [1; 1; 1] = 1%nat /\ ok_pick_weak objs 1 = true /\ ok_pick_pareto objs 1 = true.
Proof. vm_compute. repeat split; reflexivity. Qed.

Example C05_example_invariant :
  let Y := [[-3#1; -3#1]; [-1#1; -5#1]; [-4#1; -1#1]] in
  argmin_idx (moo_scalarize ScId SQuad 10 [1#2; 1#2] 2 (affine (fun _ => 8) (fun j => inject_Z (Z.of_nat j) + 100) 2 Y))
  = argmin_idx (moo_scalarize ScId SQuad 10 [1#2; 1#2] 2 Y).
Proof. vm_compute. reflexivity. Qed.
