(* C05 - boolean oracles applied to the IMPLEMENTATION's outputs, with their reflection lemmas.
   All objective values here are in the USER's terms (larger is better) unless a name says "told". *)
From Coq Require Import List ZArith QArith Qabs Bool Arith Lia Lqa.
Import ListNotations.
Require Import DH.C05_Direction.Model DH.C05_Direction.LemmasBasic.
Open Scope Q_scope.

(* ---------- generic helpers ---------- *)
Definition all_pairs {A} (p : A -> A -> bool) (l : list A) : bool := forallb (fun a => forallb (p a) l) l.

Lemma all_pairs_spec {A} (p : A -> A -> bool) l :
  all_pairs p l = true <-> forall a b, In a l -> In b l -> p a b = true.
Proof.
  unfold all_pairs. rewrite forallb_forall. split.
  - intros H a b Ha Hb. specialize (H a Ha). rewrite forallb_forall in H. apply H, Hb.
  - intros H a Ha. apply forallb_forall. intros b Hb. apply H; assumption.
Qed.

Fixpoint forallb2 {A B} (p : A -> B -> bool) (a : list A) (b : list B) : bool :=
  match a, b with
  | [], [] => true
  | x :: a', y :: b' => p x y && forallb2 p a' b'
  | _, _ => false
  end.

Lemma forallb2_spec {A B} (p : A -> B -> bool) a b :
  forallb2 p a b = true <-> Forall2 (fun x y => p x y = true) a b.
Proof.
  revert b. induction a as [|x a IH]; intros [|y b]; cbn [forallb2]; split; intros H; try discriminate; try constructor;
    try (inversion H; fail).
  - apply andb_true_iff in H as [H1 _]. exact H1.
  - apply andb_true_iff in H as [_ H2]. apply IH. exact H2.
  - inversion H; subst. apply andb_true_iff. split; [assumption|apply IH; assumption].
Qed.

Definition vleb (a b : list Q) : bool := forallb2 Qle_bool a b.
Definition vltb (a b : list Q) : bool := forallb2 qltb a b.
Definition veqb (a b : list Q) : bool := forallb2 Qeq_bool a b.

Lemma vleb_spec a b : vleb a b = true <-> Forall2 Qle a b.
Proof.
  unfold vleb. rewrite forallb2_spec. split; intros H; induction H; constructor; try assumption; apply Qle_bool_iff; assumption.
Qed.
Lemma vltb_spec a b : vltb a b = true <-> Forall2 Qlt a b.
Proof.
  unfold vltb. rewrite forallb2_spec. split; intros H; induction H; constructor; try assumption; apply qltb_iff; assumption.
Qed.
Lemma veqb_spec a b : veqb a b = true <-> Forall2 Qeq a b.
Proof.
  unfold veqb. rewrite forallb2_spec. split; intros H; induction H; constructor; try assumption; apply Qeq_bool_iff; assumption.
Qed.

(* ---------- (1) exploitation, single objective: the proposal has the largest objective ---------- *)
Definition ok_pick_max (objs : list Q) (i : nat) : bool :=
  Nat.ltb i (length objs) && forallb (fun o => Qle_bool o (nth i objs 0)) objs.

Definition PickMax (objs : list Q) (i : nat) : Prop :=
  (i < length objs)%nat /\ forall o, In o objs -> o <= nth i objs 0.

Lemma ok_pick_max_spec objs i : ok_pick_max objs i = true <-> PickMax objs i.
Proof.
  unfold ok_pick_max, PickMax. rewrite andb_true_iff, Nat.ltb_lt, forallb_forall. split; intros [H1 H2]; split; try assumption.
  - intros o Ho. apply Qle_bool_iff, H2, Ho.
  - intros o Ho. apply Qle_bool_iff, H2, Ho.
Qed.

(* ---------- (2) exploitation, several objectives ---------- *)
(* a is better than b in every objective *)
Definition better_all (a b : list Q) : bool := vltb b a.
(* a Pareto-dominates b: at least as good everywhere, and b is not at least as good everywhere *)
Definition pareto_dom (a b : list Q) : bool := vleb b a && negb (vleb a b).
(* a is an ideal point of objs: at least as good as every candidate in every objective *)
Definition is_ideal (objs : list (list Q)) (a : list Q) : bool := forallb (fun o => vleb o a) objs.

Definition ok_pick_weak (objs : list (list Q)) (i : nat) : bool :=
  Nat.ltb i (length objs) && forallb (fun o => negb (better_all o (nth i objs []))) objs.
Definition ok_pick_pareto (objs : list (list Q)) (i : nat) : bool :=
  Nat.ltb i (length objs) && forallb (fun o => negb (pareto_dom o (nth i objs []))) objs.
Definition ok_pick_ideal (objs : list (list Q)) (i : nat) : bool :=
  Nat.ltb i (length objs) && forallb (fun o => implb (is_ideal objs o) (veqb o (nth i objs []))) objs.

Definition PickWeak (objs : list (list Q)) (i : nat) : Prop :=
  (i < length objs)%nat /\ forall o, In o objs -> ~ Forall2 Qlt (nth i objs []) o.
Definition PickPareto (objs : list (list Q)) (i : nat) : Prop :=
  (i < length objs)%nat /\ forall o, In o objs -> ~ (Forall2 Qle (nth i objs []) o /\ ~ Forall2 Qle o (nth i objs [])).
Definition PickIdeal (objs : list (list Q)) (i : nat) : Prop :=
  (i < length objs)%nat /\
  forall o, In o objs -> (forall o', In o' objs -> Forall2 Qle o' o) -> Forall2 Qeq o (nth i objs []).

Lemma ok_pick_weak_spec objs i : ok_pick_weak objs i = true <-> PickWeak objs i.
Proof.
  unfold ok_pick_weak, PickWeak. rewrite andb_true_iff, Nat.ltb_lt, forallb_forall. split; intros [H1 H2]; split; try assumption.
  - intros o Ho Hd. specialize (H2 o Ho). apply negb_true_iff in H2. apply vltb_spec in Hd.
    unfold better_all in H2. congruence.
  - intros o Ho. apply negb_true_iff. unfold better_all. destruct (vltb (nth i objs []) o) eqn:E; [|reflexivity].
    apply vltb_spec in E. exfalso. exact (H2 o Ho E).
Qed.

Lemma ok_pick_pareto_spec objs i : ok_pick_pareto objs i = true <-> PickPareto objs i.
Proof.
  unfold ok_pick_pareto, PickPareto. rewrite andb_true_iff, Nat.ltb_lt, forallb_forall. split; intros [H1 H2]; split; try assumption.
  - intros o Ho [Hd1 Hd2]. specialize (H2 o Ho). apply negb_true_iff in H2. unfold pareto_dom in H2.
    apply vleb_spec in Hd1. rewrite Hd1 in H2. cbn in H2. apply negb_false_iff in H2. apply vleb_spec in H2. contradiction.
  - intros o Ho. apply negb_true_iff. unfold pareto_dom.
    destruct (vleb (nth i objs []) o) eqn:E1; [|reflexivity]. destruct (vleb o (nth i objs [])) eqn:E2; [reflexivity|].
    exfalso. apply (H2 o Ho). split; [apply vleb_spec; exact E1|]. intros Hc. apply vleb_spec in Hc. congruence.
Qed.

Lemma is_ideal_spec objs a : is_ideal objs a = true <-> forall o, In o objs -> Forall2 Qle o a.
Proof.
  unfold is_ideal. rewrite forallb_forall. split; intros H o Ho; apply vleb_spec, H, Ho.
Qed.

Lemma ok_pick_ideal_spec objs i : ok_pick_ideal objs i = true <-> PickIdeal objs i.
Proof.
  unfold ok_pick_ideal, PickIdeal. rewrite andb_true_iff, Nat.ltb_lt, forallb_forall. split; intros [H1 H2]; split; try assumption.
  - intros o Ho Hid. specialize (H2 o Ho). apply is_ideal_spec in Hid. rewrite Hid in H2. cbn in H2. apply veqb_spec. exact H2.
  - intros o Ho. destruct (is_ideal objs o) eqn:E; [|reflexivity]. cbn. apply veqb_spec. apply H2; [exact Ho|].
    apply is_ideal_spec. exact E.
Qed.

(* ---------- (3) lies and failure values, in the user's terms ---------- *)
(* what the optimizer copy was told as a lie (told_lie, minimisation form), against the user-level meaning of the
   strategy name: minimum / mean / maximum of the user's objectives observed so far *)
Definition ok_lie_user (k : lkind) (objs : list Q) (told_lie : Q) : bool := Qeq_bool (- told_lie) (lie k objs).
Lemma ok_lie_user_spec k objs t : ok_lie_user k objs t = true <-> - t == lie k objs.
Proof. apply Qeq_bool_iff. Qed.

Definition ok_lie_vec_user (k : lkind) (m : nat) (objs : list (list Q)) (told_lie : list Q) : bool :=
  veqb (vneg told_lie) (lie_vec k m objs).
Lemma ok_lie_vec_user_spec k m objs t : ok_lie_vec_user k m objs t = true <-> Forall2 Qeq (vneg t) (lie_vec k m objs).
Proof. apply veqb_spec. Qed.

(* the value given to a failed evaluation *)
Definition ok_fill_user (p : upol) (good : list Q) (told_fill : Q) : bool := Qeq_bool (- told_fill) (fill_user p good).
Lemma ok_fill_user_spec p good t : ok_fill_user p good t = true <-> - t == fill_user p good.
Proof. apply Qeq_bool_iff. Qed.

(* ---------- (4) direction of what CBO tells the optimizer: larger objective <-> smaller told value ---------- *)
Definition rev_pair (a b : Q * Q) : bool := Bool.eqb (qltb (fst a) (fst b)) (qltb (snd b) (snd a)).
Definition ok_order_reversing (objs told : list Q) : bool :=
  Nat.eqb (length objs) (length told) && all_pairs rev_pair (combine objs told).

Definition OrderReversing (objs told : list Q) : Prop :=
  length objs = length told /\
  forall a b, In a (combine objs told) -> In b (combine objs told) -> (fst a < fst b <-> snd b < snd a).

Lemma ok_order_reversing_spec objs told : ok_order_reversing objs told = true <-> OrderReversing objs told.
Proof.
  unfold ok_order_reversing, OrderReversing. rewrite andb_true_iff, Nat.eqb_eq, all_pairs_spec.
  split; intros [H1 H2]; split; try assumption; intros a b Ha Hb; specialize (H2 a b Ha Hb); unfold rev_pair in *.
  - apply eqb_prop in H2. rewrite <- !qltb_iff. rewrite H2. reflexivity.
  - destruct (qltb (fst a) (fst b)) eqn:E1; destruct (qltb (snd b) (snd a)) eqn:E2; try reflexivity; exfalso.
    + apply qltb_iff in E1. apply H2 in E1. apply qltb_iff in E1. congruence.
    + apply qltb_iff in E2. apply H2 in E2. apply qltb_iff in E2. congruence.
Qed.

(* ---------- (5) lower confidence bound: lower mean is better, higher uncertainty is better (kappa >= 0) ---------- *)
(* triples (mu, sigma, value) *)
Definition lcb_pair (a b : Q * Q * Q) : bool :=
  let '(ma, sa, va) := a in let '(mb, sb, vb) := b in
  implb (Qle_bool ma mb && Qle_bool sb sa) (Qle_bool va vb) &&
  implb (qltb ma mb && Qle_bool sb sa) (qltb va vb).
Definition ok_lcb_direction (l : list (Q * Q * Q)) : bool := all_pairs lcb_pair l.

Definition LcbDirection (l : list (Q * Q * Q)) : Prop :=
  forall ma sa va mb sb vb, In (ma, sa, va) l -> In (mb, sb, vb) l ->
    (ma <= mb -> sb <= sa -> va <= vb) /\ (ma < mb -> sb <= sa -> va < vb).

Lemma ok_lcb_direction_spec l : ok_lcb_direction l = true <-> LcbDirection l.
Proof.
  unfold ok_lcb_direction, LcbDirection. rewrite all_pairs_spec. split.
  - intros H ma sa va mb sb vb Ha Hb. specialize (H _ _ Ha Hb). cbn in H. apply andb_true_iff in H as [H1 H2]. split.
    + intros Hm Hs. apply Qle_bool_iff in Hm, Hs. rewrite Hm, Hs in H1. cbn in H1. apply Qle_bool_iff. exact H1.
    + intros Hm Hs. apply qltb_iff in Hm. apply Qle_bool_iff in Hs. rewrite Hm, Hs in H2. cbn in H2. apply qltb_iff. exact H2.
  - intros H [[ma sa] va] [[mb sb] vb] Ha Hb. destruct (H _ _ _ _ _ _ Ha Hb) as [H1 H2]. cbn. apply andb_true_iff. split.
    + destruct (Qle_bool ma mb) eqn:E1; [|reflexivity]. destruct (Qle_bool sb sa) eqn:E2; [|reflexivity]. cbn.
      apply Qle_bool_iff. apply H1; apply Qle_bool_iff; assumption.
    + destruct (qltb ma mb) eqn:E1; [|reflexivity]. destruct (Qle_bool sb sa) eqn:E2; [|reflexivity]. cbn.
      apply qltb_iff. apply H2; [apply qltb_iff|apply Qle_bool_iff]; assumption.
Qed.

(* ---------- (6) scalarised values against dominance (minimisation form: smaller rows are better) ---------- *)
(* pairs (row, scalar value) *)
Definition mono_pair (a b : list Q * Q) : bool := implb (vleb (fst a) (fst b)) (Qle_bool (snd a) (snd b)).
Definition strict_pair (a b : list Q * Q) : bool := implb (vltb (fst a) (fst b)) (qltb (snd a) (snd b)).
Definition ok_scal_mono (rows : list (list Q)) (vals : list Q) : bool :=
  Nat.eqb (length rows) (length vals) && all_pairs mono_pair (combine rows vals).
Definition ok_scal_strict (rows : list (list Q)) (vals : list Q) : bool :=
  Nat.eqb (length rows) (length vals) && all_pairs strict_pair (combine rows vals).
(* a row that is best in every objective has the smallest scalar value *)
Definition ideal_pair (rows : list (list Q)) (a b : list Q * Q) : bool :=
  implb (forallb (fun r => vleb (fst a) r) rows) (Qle_bool (snd a) (snd b)).
Definition ok_scal_ideal (rows : list (list Q)) (vals : list Q) : bool :=
  Nat.eqb (length rows) (length vals) && all_pairs (ideal_pair rows) (combine rows vals).

Definition ScalMono (rows : list (list Q)) (vals : list Q) : Prop :=
  length rows = length vals /\
  forall a b, In a (combine rows vals) -> In b (combine rows vals) -> Forall2 Qle (fst a) (fst b) -> snd a <= snd b.
Definition ScalStrict (rows : list (list Q)) (vals : list Q) : Prop :=
  length rows = length vals /\
  forall a b, In a (combine rows vals) -> In b (combine rows vals) -> Forall2 Qlt (fst a) (fst b) -> snd a < snd b.
Definition ScalIdeal (rows : list (list Q)) (vals : list Q) : Prop :=
  length rows = length vals /\
  forall a b, In a (combine rows vals) -> In b (combine rows vals) ->
    (forall r, In r rows -> Forall2 Qle (fst a) r) -> snd a <= snd b.

Lemma ok_scal_mono_spec rows vals : ok_scal_mono rows vals = true <-> ScalMono rows vals.
Proof.
  unfold ok_scal_mono, ScalMono. rewrite andb_true_iff, Nat.eqb_eq, all_pairs_spec.
  split; intros [H1 H2]; split; try assumption; intros a b Ha Hb.
  - intros Hd. specialize (H2 a b Ha Hb). unfold mono_pair in H2. apply vleb_spec in Hd. rewrite Hd in H2. cbn in H2.
    apply Qle_bool_iff. exact H2.
  - unfold mono_pair. destruct (vleb (fst a) (fst b)) eqn:E; [|reflexivity]. cbn. apply Qle_bool_iff.
    apply (H2 a b Ha Hb). apply vleb_spec. exact E.
Qed.

Lemma ok_scal_strict_spec rows vals : ok_scal_strict rows vals = true <-> ScalStrict rows vals.
Proof.
  unfold ok_scal_strict, ScalStrict. rewrite andb_true_iff, Nat.eqb_eq, all_pairs_spec.
  split; intros [H1 H2]; split; try assumption; intros a b Ha Hb.
  - intros Hd. specialize (H2 a b Ha Hb). unfold strict_pair in H2. apply vltb_spec in Hd. rewrite Hd in H2. cbn in H2.
    apply qltb_iff. exact H2.
  - unfold strict_pair. destruct (vltb (fst a) (fst b)) eqn:E; [|reflexivity]. cbn. apply qltb_iff.
    apply (H2 a b Ha Hb). apply vltb_spec. exact E.
Qed.

Lemma ok_scal_ideal_spec rows vals : ok_scal_ideal rows vals = true <-> ScalIdeal rows vals.
Proof.
  unfold ok_scal_ideal, ScalIdeal. rewrite andb_true_iff, Nat.eqb_eq, all_pairs_spec.
  split; intros [H1 H2]; split; try assumption; intros a b Ha Hb.
  - intros Hid. specialize (H2 a b Ha Hb). unfold ideal_pair in H2.
    assert (E : forallb (fun r => vleb (fst a) r) rows = true)
      by (apply forallb_forall; intros r Hr; apply vleb_spec, Hid, Hr).
    rewrite E in H2. cbn in H2. apply Qle_bool_iff. exact H2.
  - unfold ideal_pair. destruct (forallb (fun r => vleb (fst a) r) rows) eqn:E; [|reflexivity]. cbn. apply Qle_bool_iff.
    apply (H2 a b Ha Hb). intros r Hr. rewrite forallb_forall in E. apply vleb_spec, E, Hr.
Qed.

(* ---------- (7) objective scaler: strictly increasing on the sample, equal values stay equal ---------- *)
Definition scaler_pair (a b : Q * Q) : bool :=
  implb (qltb (fst a) (fst b)) (qltb (snd a) (snd b)) && implb (Qeq_bool (fst a) (fst b)) (Qeq_bool (snd a) (snd b)).
Definition ok_scaler_mono (xs ts : list Q) : bool :=
  Nat.eqb (length xs) (length ts) && all_pairs scaler_pair (combine xs ts).
Definition ScalerMono (xs ts : list Q) : Prop :=
  length xs = length ts /\
  forall a b, In a (combine xs ts) -> In b (combine xs ts) ->
    (fst a < fst b -> snd a < snd b) /\ (fst a == fst b -> snd a == snd b).

Lemma ok_scaler_mono_spec xs ts : ok_scaler_mono xs ts = true <-> ScalerMono xs ts.
Proof.
  unfold ok_scaler_mono, ScalerMono. rewrite andb_true_iff, Nat.eqb_eq, all_pairs_spec.
  split; intros [H1 H2]; split; try assumption; intros a b Ha Hb; specialize (H2 a b Ha Hb); unfold scaler_pair in *.
  - apply andb_true_iff in H2 as [H3 H4]. split; intros Hx.
    + apply qltb_iff in Hx. rewrite Hx in H3. cbn in H3. apply qltb_iff. exact H3.
    + apply Qeq_bool_iff in Hx. rewrite Hx in H4. cbn in H4. apply Qeq_bool_iff. exact H4.
  - destruct H2 as [H3 H4]. apply andb_true_iff. split.
    + destruct (qltb (fst a) (fst b)) eqn:E; [|reflexivity]. cbn. apply qltb_iff, H3, qltb_iff, E.
    + destruct (Qeq_bool (fst a) (fst b)) eqn:E; [|reflexivity]. cbn. apply Qeq_bool_iff, H4, Qeq_bool_iff, E.
Qed.

(* ---------- (8) acquisition values, weak direction only (used where the predicted std is exactly 0 at some candidates:
   EI / PI are 0 there, so strictness cannot be asked; what must hold: a candidate with a lower (better) predicted mean and
   at least as much uncertainty never gets a larger (worse) acquisition value) ---------- *)
Definition acq_weak_pair (a b : Q * Q * Q) : bool :=
  let '(ma, sa, va) := a in let '(mb, sb, vb) := b in
  implb (Qle_bool ma mb && Qle_bool sb sa) (Qle_bool va vb).
Definition ok_acq_weak (l : list (Q * Q * Q)) : bool := all_pairs acq_weak_pair l.
Definition AcqWeak (l : list (Q * Q * Q)) : Prop :=
  forall ma sa va mb sb vb, In (ma, sa, va) l -> In (mb, sb, vb) l -> ma <= mb -> sb <= sa -> va <= vb.

Lemma ok_acq_weak_spec l : ok_acq_weak l = true <-> AcqWeak l.
Proof.
  unfold ok_acq_weak, AcqWeak. rewrite all_pairs_spec. split.
  - intros H ma sa va mb sb vb Ha Hb Hm Hs. specialize (H _ _ Ha Hb). cbn in H.
    apply Qle_bool_iff in Hm, Hs. rewrite Hm, Hs in H. cbn in H. apply Qle_bool_iff. exact H.
  - intros H [[ma sa] va] [[mb sb] vb] Ha Hb. cbn.
    destruct (Qle_bool ma mb) eqn:E1; [|reflexivity]. destruct (Qle_bool sb sa) eqn:E2; [|reflexivity]. cbn.
    apply Qle_bool_iff. apply (H _ _ _ _ _ _ Ha Hb); apply Qle_bool_iff; assumption.
Qed.

(* ---------- (9) a one-shot batch: the selected candidates are distinct and no candidate outside the batch has a larger
   objective than one inside ---------- *)
Fixpoint nodup_nat (l : list nat) : bool :=
  match l with [] => true | x :: t => negb (existsb (Nat.eqb x) t) && nodup_nat t end.
Definition ok_topk (objs : list Q) (n : nat) (sel : list nat) : bool :=
  Nat.eqb (length sel) (Nat.min n (length objs)) && nodup_nat sel && forallb (fun i => Nat.ltb i (length objs)) sel
  && forallb (fun i => forallb (fun j => existsb (Nat.eqb j) sel || Qle_bool (nth j objs 0) (nth i objs 0)) (seq 0 (length objs))) sel.

Definition TopK (objs : list Q) (n : nat) (sel : list nat) : Prop :=
  length sel = Nat.min n (length objs) /\ NoDup sel /\ (forall i, In i sel -> (i < length objs)%nat)
  /\ forall i j, In i sel -> (j < length objs)%nat -> ~ In j sel -> nth j objs 0 <= nth i objs 0.

Lemma existsb_eqb_In j l : existsb (Nat.eqb j) l = true <-> In j l.
Proof.
  rewrite existsb_exists. split.
  - intros [x [Hx E]]. apply Nat.eqb_eq in E. subst. exact Hx.
  - intros H. exists j. split; [exact H|apply Nat.eqb_refl].
Qed.

Lemma nodup_nat_spec l : nodup_nat l = true <-> NoDup l.
Proof.
  induction l as [|x t IH]; cbn [nodup_nat]; [split; [constructor|reflexivity]|].
  rewrite andb_true_iff, negb_true_iff, IH. split.
  - intros [H1 H2]. constructor; [|exact H2]. intros Hin. apply existsb_eqb_In in Hin. congruence.
  - intros H. inversion H as [|? ? H1 H2]; subst. split; [|exact H2].
    destruct (existsb (Nat.eqb x) t) eqn:E; [apply existsb_eqb_In in E; contradiction|reflexivity].
Qed.

Lemma ok_topk_spec objs n sel : ok_topk objs n sel = true <-> TopK objs n sel.
Proof.
  unfold ok_topk, TopK. rewrite !andb_true_iff, Nat.eqb_eq, nodup_nat_spec, !forallb_forall. split.
  - intros [[[H1 H2] H3] H4]. repeat split; try assumption.
    + intros i Hi. apply Nat.ltb_lt, H3, Hi.
    + intros i j Hi Hj Hn. specialize (H4 i Hi). rewrite forallb_forall in H4.
      specialize (H4 j (proj2 (in_seq _ _ _) (conj (Nat.le_0_l j) Hj))). apply orb_true_iff in H4 as [H4|H4].
      * apply existsb_eqb_In in H4. contradiction.
      * apply Qle_bool_iff. exact H4.
  - intros (H1 & H2 & H3 & H4). repeat split; try assumption.
    + intros i Hi. apply Nat.ltb_lt, H3, Hi.
    + intros i Hi. apply forallb_forall. intros j Hj. apply in_seq in Hj. apply orb_true_iff.
      destruct (existsb (Nat.eqb j) sel) eqn:E; [left; reflexivity|right]. apply Qle_bool_iff. apply H4; [exact Hi|lia|].
      intros Hin. apply existsb_eqb_In in Hin. congruence.
Qed.
