(* C05 - Searches maximise the objective(s).   Executable model over Q, no proofs here.

   Describes (pinned tree /repo @ 3919200 plus the proposed fix F07, see [scal_hist] / [scal_hist_today]):
     deephyper/hpo/_cbo.py          CBO._tell: objectives negated (np.negative), failures -> "F" or dropped ("ignore");
                                    MAP_* name tables (the tables themselves are GENERATED facts, see Names.v)
     deephyper/skopt/optimizer/optimizer.py
                                    Optimizer.ask  : constant-liar lies  np.min / np.mean / np.max (axis=0) of the
                                                     failure-imputed told values, 0.0 when nothing was told
                                    Optimizer._filter_failures : "mean" / "max" imputation, other policies: unchanged
                                    Optimizer._tell : next point = Xsample[np.argmin(acquisition values)] (first minimum)
                                    Optimizer._moo_scalarize : scaler per objective column, normalize() (utopia point =
                                                     column-wise minimum of the scaled history), scalarize() of every row
     deephyper/skopt/acquisition.py gaussian_lcb = mu - kappa*std ; EI/PI use improve = y_opt - xi - mu and are negated
     deephyper/skopt/moo/_multiobjective.py   Mo{Linear,Chebyshev,AugmentedChebyshev,PBI,Quadratic}Function._scalarize
     deephyper/skopt/utils.py       cook_objective_scaler: identity / minmax / quantile-uniform on the sample itself

   Everything the optimizer sees is in MINIMISATION form (negated objectives). *)
From Coq Require Import List ZArith QArith Qabs Bool Arith.
Import ListNotations.
Open Scope Q_scope.

(* ---------- small numeric toolkit ---------- *)
Definition qmax (a b : Q) : Q := if Qle_bool a b then b else a.
Definition qmin (a b : Q) : Q := if Qle_bool a b then a else b.
Definition qltb (a b : Q) : bool := negb (Qle_bool b a).

Fixpoint qsum (l : list Q) : Q := match l with [] => 0 | x :: t => x + qsum t end.

(* np.max / np.min of a non-empty array; 0 for the empty list (never used on it by the code) *)
Fixpoint qmaxl (l : list Q) : Q :=
  match l with [] => 0 | x :: t => match t with [] => x | _ => qmax x (qmaxl t) end end.
Fixpoint qminl (l : list Q) : Q :=
  match l with [] => 0 | x :: t => match t with [] => x | _ => qmin x (qminl t) end end.
Definition qlen (l : list Q) : Q := inject_Z (Z.of_nat (length l)).
Definition qmean (l : list Q) : Q := qsum l / qlen l.

Fixpoint map2 {A B C} (f : A -> B -> C) (a : list A) (b : list B) : list C :=
  match a, b with x :: a', y :: b' => f x y :: map2 f a' b' | _, _ => [] end.

Definition dot (w y : list Q) : Q := qsum (map2 Qmult w y).
Definition vabs (y : list Q) : list Q := map Qabs y.
Definition vneg (y : list Q) : list Q := map Qopp y.
Definition vsub (a b : list Q) : list Q := map2 Qminus a b.
Definition vadd (a b : list Q) : list Q := map2 Qplus a b.
Definition vscale (a : Q) (y : list Q) : list Q := map (Qmult a) y.

(* np.argmin: index of the FIRST minimum *)
Fixpoint argmin_idx (l : list Q) : nat :=
  match l with
  | [] => O
  | x :: t => match t with
              | [] => O
              | _ => let j := argmin_idx t in if Qle_bool x (nth j t 0) then O else S j
              end
  end.

(* ---------- CBO._tell: what reaches Optimizer.tell ---------- *)
Inductive told := TFail | TVal (v : list Q).       (* "F"  |  negated objective vector (a scalar is a 1-vector) *)

(* a job's objective: None = a failure string "F...", Some v = numbers *)
Definition cbo_tell (ignore : bool) (jobs : list (Z * option (list Q))) : list (Z * told) :=
  flat_map (fun j => match snd j with
                     | Some v => [(fst j, TVal (vneg v))]
                     | None => if ignore then [] else [(fst j, TFail)]
                     end) jobs.

(* ---------- constant liar ---------- *)
Inductive lkind := LMin | LMean | LMax.
Definition lie (k : lkind) (ys : list Q) : Q :=
  match ys with
  | [] => 0
  | _ => match k with LMin => qminl ys | LMean => qmean ys | LMax => qmaxl ys end
  end.
Definition dual (k : lkind) : lkind := match k with LMin => LMax | LMean => LMean | LMax => LMin end.

Definition col (j : nat) (Y : list (list Q)) : list Q := map (fun r => nth j r 0) Y.
(* np.min/mean/max(opt_yi, axis=0) for m objectives *)
Definition lie_vec (k : lkind) (m : nat) (Y : list (list Q)) : list Q := map (fun j => lie k (col j Y)) (seq 0 m).

(* ---------- Optimizer._filter_failures ---------- *)
Inductive fpol := PMean | PMax | POther.
Definition goods (ys : list (option Q)) : list Q :=
  flat_map (fun o => match o with Some v => [v] | None => [] end) ys.
Definition fill_value (p : fpol) (good : list Q) : Q :=
  match good with [] => 0 | _ => match p with PMean => qmean good | _ => qmaxl good end end.
Definition impute (p : fpol) (ys : list (option Q)) : list (option Q) :=
  match p with
  | POther => ys
  | _ => let fv := fill_value p (goods ys) in map (fun o => match o with Some v => Some v | None => Some fv end) ys
  end.
(* the value a failure is given, in the user's (maximisation) terms: CBO(filter_failures="min" | "mean") *)
Inductive upol := UMin | UMean.
Definition upol_to_opt (p : upol) : fpol := match p with UMin => PMax | UMean => PMean end.
Definition fill_user (p : upol) (good : list Q) : Q :=
  match good with [] => 0 | _ => match p with UMin => qminl good | UMean => qmean good end end.
(* the lie of a 2-point ask: computed on the imputed list *)
Definition y_lie (p : fpol) (k : lkind) (ys : list (option Q)) : Q := lie k (goods (impute p ys)).

(* ---------- acquisition ---------- *)
Definition acq_lcb (kappa mu sigma : Q) : Q := mu - kappa * sigma.       (* minimised *)
Definition ucb (kappa mu sigma : Q) : Q := mu + kappa * sigma.           (* what the user asks to maximise *)
Definition improve_min (y_opt xi mu : Q) : Q := y_opt - xi - mu.         (* EI / PI argument in the optimizer *)
Definition improve_max (best xi mu : Q) : Q := mu - best - xi.           (* the same for a maximiser *)

(* ---------- scalarisers: Mo*Function._scalarize applied to a vector ---------- *)
Definition lin (w y : list Q) : Q := dot w y.
Definition cheb (w y : list Q) : Q := qmaxl (map2 Qmult w (vabs y)).
Definition augcheb (alpha : Q) (w y : list Q) : Q :=
  let p := map2 Qmult w (vabs y) in qmaxl p + alpha * qsum (vabs p).
(* d1 = w.y / ||w||^2 ; d2 = || y - d1 w ||_1 *)
Definition pbi (theta : Q) (w y : list Q) : Q :=
  let d1 := dot w y / dot w w in d1 + theta * qsum (vabs (vsub y (vscale d1 w))).
(* y^T (U diag(1,alpha,..,alpha) U^T) y with U[:,0] = w/||w||  =  (w.y)^2/||w||^2 + alpha (||y||^2 - (w.y)^2/||w||^2) *)
Definition quad (alpha : Q) (w y : list Q) : Q :=
  let p := dot w y * dot w y / dot w w in p + alpha * (dot y y - p).

Inductive skind := SLin | SCheb | SAug | SPbi | SQuad.
(* par = alpha (AugChebyshev, Quadratic) or penalty (PBI); ignored otherwise *)
Definition scal (k : skind) (par : Q) (w y : list Q) : Q :=
  match k with
  | SLin => lin w y | SCheb => cheb w y | SAug => augcheb par w y | SPbi => pbi par w y | SQuad => quad par w y
  end.

(* normalize(): utopia point = column-wise minimum of the (scaled) history *)
Definition colmin (m : nat) (Y : list (list Q)) : list Q := map (fun j => qminl (col j Y)) (seq 0 m).

(* TODAY (before fix F07): the utopia point is computed and not used *)
Definition scal_hist_today (k : skind) (par : Q) (w : list Q) (Y : list (list Q)) : list Q := map (scal k par w) Y.
(* REPAIRED: scalarize(y) = _scalarize(y - utopia) *)
Definition scal_hist (k : skind) (par : Q) (w : list Q) (m : nat) (Y : list (list Q)) : list Q :=
  let u := colmin m Y in map (fun y => scal k par w (vsub y u)) Y.

(* ---------- objective scalers, fitted on the sample and applied to the sample ---------- *)
Inductive sckind := ScId | ScMinMax | ScQuantile.
Definition minmax_col (ys : list Q) (y : Q) : Q :=
  let lo := qminl ys in let hi := qmaxl ys in
  if Qeq_bool hi lo then y - lo else (y - lo) / (hi - lo).
Definition count (f : Q -> bool) (ys : list Q) : Z := Z.of_nat (length (filter f ys)).
(* QuantileTransformer(uniform) with n_quantiles = n_samples on its own sample: the minimum is sent to 0, the maximum to 1
   (in that order: X_col[upper] = 1 ; X_col[lower] = 0), every other value to its mid-rank / (n-1) *)
Definition quantile_col (ys : list Q) (y : Q) : Q :=
  if Qeq_bool y (qminl ys) then 0
  else if Qeq_bool y (qmaxl ys) then 1
  else inject_Z (count (fun x => qltb x y) ys + count (fun x => Qle_bool x y) ys - 1)
       / inject_Z (2 * (Z.of_nat (length ys) - 1)).
(* With repeated values np.nanpercentile may return a quantile a few ulps away from the repeated sample value, and the
   transform then returns some value between the lowest and the highest rank of the tied group instead of the mid-rank
   (still the same value for equal inputs, still increasing).  The correspondence uses these bounds; [quantile_col]
   is the idealised mid-rank.  For distinct values lo = hi = rank/(n-1). *)
Definition quantile_lo (ys : list Q) (y : Q) : Q :=
  if Qeq_bool y (qminl ys) then 0 else if Qeq_bool y (qmaxl ys) then 1
  else inject_Z (count (fun x => qltb x y) ys) / inject_Z (Z.of_nat (length ys) - 1).
Definition quantile_hi (ys : list Q) (y : Q) : Q :=
  if Qeq_bool y (qminl ys) then 0 else if Qeq_bool y (qmaxl ys) then 1
  else inject_Z (count (fun x => Qle_bool x y) ys - 1) / inject_Z (Z.of_nat (length ys) - 1).
Definition scale_col (sk : sckind) (ys : list Q) (y : Q) : Q :=
  match sk with ScId => y | ScMinMax => minmax_col ys y | ScQuantile => quantile_col ys y end.
(* a scaler per objective column j applied to every row *)
Definition scale_rows (sc : nat -> Q -> Q) (m : nat) (Y : list (list Q)) : list (list Q) :=
  map (fun r => map (fun j => sc j (nth j r 0)) (seq 0 m)) Y.
Definition scale_hist (sk : sckind) (m : nat) (Y : list (list Q)) : list (list Q) :=
  scale_rows (fun j => scale_col sk (col j Y)) m Y.

(* Optimizer._moo_scalarize without failures / upper bounds: scaler, then utopia shift, then scalariser *)
Definition moo_score (sc : nat -> Q -> Q) (k : skind) (par : Q) (w : list Q) (m : nat) (Y : list (list Q)) : list Q :=
  scal_hist k par w m (scale_rows sc m Y).
Definition moo_scalarize (sk : sckind) (k : skind) (par : Q) (w : list Q) (m : nat) (Y : list (list Q)) : list Q :=
  moo_score (fun j => scale_col sk (col j Y)) k par w m Y.
Definition moo_scalarize_today (sk : sckind) (k : skind) (par : Q) (w : list Q) (m : nat) (Y : list (list Q)) : list Q :=
  scal_hist_today k par w (scale_hist sk m Y).

(* single objective: scaler on the told (negated) values *)
Definition so_scale (sk : sckind) (ys : list Q) : list Q := map (scale_col sk ys) ys.

(* exploitation step on a fully observed candidate set with an interpolating surrogate: index of the next proposal *)
Definition next_idx (kappa : Q) (mus sigmas : list Q) : nat := argmin_idx (map2 (acq_lcb kappa) mus sigmas).

(* ---------- one-shot batch: Optimizer.ask(n, "topk") = the n candidates with the smallest acquisition values ---------- *)
(* np.argsort(values)[:n]; modelled as n successive first-minimum selections (= the first n of a stable argsort; numpy's
   sort is not stable, the theorems and the oracle only speak about the selected SET and its values) *)
Fixpoint remove_nth {A} (i : nat) (l : list A) : list A :=
  match l with
  | [] => []
  | x :: t => match i with O => t | S i' => x :: remove_nth i' t end
  end.
Fixpoint topk_pairs (n : nat) (l : list (nat * Q)) : list (nat * Q) :=
  match n with
  | O => []
  | S n' => match l with
            | [] => []
            | p0 :: _ => let i := argmin_idx (map snd l) in nth i l p0 :: topk_pairs n' (remove_nth i l)
            end
  end.
Definition indexed (vals : list Q) : list (nat * Q) := combine (seq 0 (length vals)) vals.
Definition topk (n : nat) (vals : list Q) : list nat := map fst (topk_pairs n (indexed vals)).
