(* C05 - the five scalarisers: monotonicity in the shifted orthant (Linear, Chebyshev, AugChebyshev),
   the utopia point is the unique zero (all five), and the refutations. *)
From Coq Require Import List ZArith QArith Qabs Bool Arith Lia Lqa.
Import ListNotations.
Require Import DH.C05_Direction.Model DH.C05_Direction.LemmasBasic DH.C05_Direction.LemmasVec.
Open Scope Q_scope.

Lemma nonneg_vle y y' : nonneg y -> vle y y' -> nonneg y'.
Proof.
  intros Hy H. revert Hy. induction H as [|x x' y y' Hx _ IH]; intros Hy; [constructor|].
  inversion Hy; subst. constructor; [lra|apply IH; assumption].
Qed.

(* ---------- Linear ---------- *)
Lemma lin_mono w y y' : nonneg w -> vle y y' -> lin w y <= lin w y'.
Proof. intros Hw H. unfold lin, dot. apply qsum_le, wprod_le; assumption. Qed.

Lemma lin_strict w y y' : allpos w -> length w = length y -> vle y y' -> ~ veq y y' -> lin w y < lin w y'.
Proof.
  intros Hw L H Hne. unfold lin, dot. apply qsum_lt.
  - apply wprod_le; [apply allpos_nonneg|]; assumption.
  - intros He. apply Hne. apply (wprod_veq_inv w); [assumption|assumption|apply vle_length; assumption|assumption].
Qed.

(* ---------- Chebyshev ---------- *)
Lemma cheb_orthant w y : nonneg y -> cheb w y == qmaxl (map2 Qmult w y).
Proof.
  intros Hy. unfold cheb. apply qmaxl_eq. apply map2_eq; [exact mul_eq|apply veq_refl|apply vabs_nonneg_eq; exact Hy].
Qed.

Lemma cheb_mono w y y' : nonneg w -> nonneg y -> vle y y' -> cheb w y <= cheb w y'.
Proof.
  intros Hw Hy H. rewrite (cheb_orthant w y Hy), (cheb_orthant w y' (nonneg_vle _ _ Hy H)).
  apply qmaxl_le, wprod_le; assumption.
Qed.

Lemma cheb_strict w y y' : allpos w -> w <> [] -> length w = length y -> nonneg y -> vlt y y' -> cheb w y < cheb w y'.
Proof.
  intros Hw Hne L Hy H.
  rewrite (cheb_orthant w y Hy), (cheb_orthant w y' (nonneg_vle _ _ Hy (vlt_vle _ _ H))).
  apply qmaxl_lt; [|apply wprod_lt; assumption].
  destruct w; [congruence|]. destruct y; [discriminate|]. discriminate.
Qed.

(* ---------- Augmented Chebyshev ---------- *)
Lemma aug_orthant a w y : nonneg w -> nonneg y ->
  augcheb a w y == qmaxl (map2 Qmult w y) + a * qsum (map2 Qmult w y).
Proof.
  intros Hw Hy. unfold augcheb.
  assert (E : veq (map2 Qmult w (vabs y)) (map2 Qmult w y))
    by (apply map2_eq; [exact mul_eq|apply veq_refl|apply vabs_nonneg_eq; exact Hy]).
  rewrite (qmaxl_eq _ _ E).
  assert (E2 : veq (vabs (map2 Qmult w (vabs y))) (map2 Qmult w y)).
  { eapply veq_trans; [apply vabs_eq; exact E|]. apply vabs_nonneg_eq. apply wprod_nonneg; assumption. }
  rewrite (qsum_eq _ _ E2). reflexivity.
Qed.

Lemma aug_mono a w y y' : 0 <= a -> nonneg w -> nonneg y -> vle y y' -> augcheb a w y <= augcheb a w y'.
Proof.
  intros Ha Hw Hy H. pose proof (nonneg_vle _ _ Hy H) as Hy'.
  rewrite (aug_orthant a w y Hw Hy), (aug_orthant a w y' Hw Hy').
  pose proof (wprod_le w y y' Hw H) as Hp.
  pose proof (qmaxl_le _ _ Hp). pose proof (qsum_le _ _ Hp). nra.
Qed.

Lemma aug_strict a w y y' : 0 < a -> allpos w -> length w = length y -> nonneg y -> vle y y' -> ~ veq y y' ->
  augcheb a w y < augcheb a w y'.
Proof.
  intros Ha Hw L Hy H Hne. pose proof (nonneg_vle _ _ Hy H) as Hy'. pose proof (allpos_nonneg _ Hw) as Hw0.
  rewrite (aug_orthant a w y Hw0 Hy), (aug_orthant a w y' Hw0 Hy').
  pose proof (wprod_le w y y' Hw0 H) as Hp. pose proof (qmaxl_le _ _ Hp).
  assert (Hs : qsum (map2 Qmult w y) < qsum (map2 Qmult w y')).
  { apply qsum_lt; [exact Hp|]. intros He. apply Hne.
    apply (wprod_veq_inv w); [assumption|assumption|apply vle_length; assumption|assumption]. }
  nra.
Qed.

Lemma aug_strict_all a w y y' : 0 <= a -> allpos w -> w <> [] -> length w = length y -> nonneg y -> vlt y y' ->
  augcheb a w y < augcheb a w y'.
Proof.
  intros Ha Hw Hne L Hy H. pose proof (vlt_vle _ _ H) as Hle.
  pose proof (nonneg_vle _ _ Hy Hle) as Hy'. pose proof (allpos_nonneg _ Hw) as Hw0.
  rewrite (aug_orthant a w y Hw0 Hy), (aug_orthant a w y' Hw0 Hy').
  pose proof (wprod_le w y y' Hw0 Hle) as Hp. pose proof (qsum_le _ _ Hp).
  assert (Hm : qmaxl (map2 Qmult w y) < qmaxl (map2 Qmult w y')).
  { apply qmaxl_lt; [|apply wprod_lt; assumption]. destruct w; [congruence|]. destruct y; discriminate. }
  nra.
Qed.

(* ---------- zero at the utopia point, positive elsewhere in the orthant (all five) ---------- *)
Lemma allzero_veq_zero_prod w y : allzero y -> allzero (map2 Qmult w y).
Proof.
  intros H. revert w. induction H as [|x y Hx _ IH]; intros [|a w]; cbn [map2]; constructor; [rewrite Hx; ring|apply IH].
Qed.
Lemma qsum_allzero l : allzero l -> qsum l == 0.
Proof. induction 1 as [|x l Hx _ IH]; cbn [qsum]; [reflexivity|rewrite Hx, IH; ring]. Qed.
Lemma qmaxl_allzero l : allzero l -> qmaxl l == 0.
Proof.
  intros H. destruct l as [|x t] eqn:E; [reflexivity|]. rewrite <- E in *.
  assert (Hne : l <> []) by (subst; discriminate).
  unfold allzero in H. rewrite Forall_forall in H.
  pose proof (H _ (qmaxl_in l Hne)) as H0. exact H0.
Qed.
Lemma vabs_allzero y : allzero y -> allzero (vabs y).
Proof. induction 1 as [|x y Hx _ IH]; cbn; constructor; [rewrite Hx; reflexivity|exact IH]. Qed.
Lemma dot_zero_r w y : allzero y -> dot w y == 0.
Proof. intros H. unfold dot. apply qsum_allzero, allzero_veq_zero_prod, H. Qed.
Lemma dot_zero_l w y : allzero w -> dot w y == 0.
Proof.
  intros H. unfold dot. apply qsum_allzero. revert y.
  induction H as [|x w Hx _ IH]; intros [|b y]; cbn [map2]; constructor; [rewrite Hx; ring|apply IH].
Qed.

Lemma dot_nonneg w y : nonneg w -> nonneg y -> 0 <= dot w y.
Proof. intros. unfold dot. apply qsum_nonneg, wprod_nonneg; assumption. Qed.

Lemma dot_zero_inv w y : allpos w -> length w = length y -> nonneg y -> dot w y == 0 -> allzero y.
Proof.
  intros Hw L Hy H0. apply (wprod_zero_inv w); [assumption|assumption|].
  apply qsum_zero; [apply wprod_nonneg; [apply allpos_nonneg|]; assumption|exact H0].
Qed.

Lemma dot_self_pos w : allpos w -> w <> [] -> 0 < dot w w.
Proof.
  intros Hw Hne. destruct Hw as [|a w Ha Hw]; [congruence|]. unfold dot. cbn [map2 qsum].
  pose proof (qsum_nonneg (map2 Qmult w w) (wprod_nonneg w w (allpos_nonneg _ Hw) (allpos_nonneg _ Hw))). nra.
Qed.

(* sum of (y_i - t w_i)^2, its expansion and non-negativity: Cauchy-Schwarz without square roots *)
Lemma sq_expand t : forall w y, length w = length y ->
  qsum (map2 (fun wi yi => (yi - t * wi) * (yi - t * wi)) w y) == dot y y - 2 * t * dot w y + t * t * dot w w.
Proof.
  induction w as [|a w IH]; intros [|b y] L; cbn in L; try discriminate; [unfold dot; cbn; ring|].
  unfold dot in *. cbn [map2 qsum]. rewrite IH by congruence. ring.
Qed.
Lemma sq_nonneg t : forall w y, 0 <= qsum (map2 (fun wi yi => (yi - t * wi) * (yi - t * wi)) w y).
Proof.
  induction w as [|a w IH]; intros [|b y]; cbn [map2 qsum]; try lra.
  specialize (IH y). assert (Hz : 0 <= (b - t * a) * (b - t * a)) by (generalize (b - t * a); intros z; nra). lra.
Qed.
Lemma cauchy_schwarz w y : length w = length y -> 0 < dot w w ->
  dot w y * dot w y / dot w w <= dot y y.
Proof.
  intros L Hp. pose proof (sq_nonneg (dot w y / dot w w) w y) as H.
  rewrite (sq_expand _ w y L) in H.
  assert (E : dot y y - 2 * (dot w y / dot w w) * dot w y + dot w y / dot w w * (dot w y / dot w w) * dot w w
              == dot y y - dot w y * dot w y / dot w w) by (field; lra).
  rewrite E in H. lra.
Qed.

Lemma div_nonneg a b : 0 <= a -> 0 < b -> 0 <= a / b.
Proof.
  intros Ha Hb. unfold Qdiv. assert (0 < / b) by (apply Qinv_lt_0_compat; exact Hb). nra.
Qed.
Lemma div_zero_inv a b : 0 < b -> a / b == 0 -> a == 0.
Proof. intros Hb H. assert (E : a == a / b * b) by (field; lra). rewrite E, H. ring. Qed.

Section Zero.
  Variables (w y : list Q) (par : Q).
  Hypothesis Hw : allpos w.
  Hypothesis Hne : w <> [].
  Hypothesis L : length w = length y.
  Hypothesis Hpar : 0 <= par.
  Hypothesis Hy : nonneg y.

  Let Hw0 : nonneg w := allpos_nonneg _ Hw.
  Let Hww : 0 < dot w w := dot_self_pos w Hw Hne.

  Lemma pbi_parts : 0 <= dot w y / dot w w /\ 0 <= qsum (vabs (vsub y (vscale (dot w y / dot w w) w))).
  Proof.
    split; [apply div_nonneg; [apply dot_nonneg; assumption|exact Hww]|].
    apply qsum_nonneg, vabs_is_nonneg.
  Qed.

  Lemma quad_parts : 0 <= dot w y * dot w y / dot w w /\ 0 <= dot y y - dot w y * dot w y / dot w w.
  Proof.
    split.
    - apply div_nonneg; [|exact Hww]. pose proof (dot_nonneg w y Hw0 Hy). nra.
    - pose proof (cauchy_schwarz w y L Hww). lra.
  Qed.

  Lemma scal_nonneg k : 0 <= scal k par w y.
  Proof.
    destruct k; cbn [scal].
    - apply dot_nonneg; assumption.
    - rewrite (cheb_orthant w y Hy). apply qmaxl_nonneg, wprod_nonneg; assumption.
    - rewrite (aug_orthant par w y Hw0 Hy).
      pose proof (qmaxl_nonneg _ (wprod_nonneg w y Hw0 Hy)). pose proof (qsum_nonneg _ (wprod_nonneg w y Hw0 Hy)). nra.
    - unfold pbi. destruct pbi_parts as [H1 H2]. cbv zeta. nra.
    - unfold quad. destruct quad_parts as [H1 H2]. cbv zeta. nra.
  Qed.

  Lemma scal_zero_inv k : scal k par w y == 0 -> allzero y.
  Proof.
    destruct k; cbn [scal]; intros H0.
    - apply (dot_zero_inv w); assumption.
    - rewrite (cheb_orthant w y Hy) in H0. apply (wprod_zero_inv w); [assumption|assumption|].
      apply qmaxl_zero; [apply wprod_nonneg; assumption|exact H0].
    - rewrite (aug_orthant par w y Hw0 Hy) in H0.
      pose proof (qmaxl_nonneg _ (wprod_nonneg w y Hw0 Hy)). pose proof (qsum_nonneg _ (wprod_nonneg w y Hw0 Hy)).
      apply (wprod_zero_inv w); [assumption|assumption|].
      apply qmaxl_zero; [apply wprod_nonneg; assumption|nra].
    - unfold pbi in H0. cbv zeta in H0. destruct pbi_parts as [H1 H2].
      apply (dot_zero_inv w); [assumption|assumption|assumption|].
      apply (div_zero_inv _ (dot w w) Hww). nra.
    - unfold quad in H0. cbv zeta in H0. destruct quad_parts as [H1 H2].
      assert (Hp : dot w y * dot w y / dot w w == 0) by nra.
      apply div_zero_inv in Hp; [|exact Hww].
      apply (dot_zero_inv w); [assumption|assumption|assumption|].
      pose proof (dot_nonneg w y Hw0 Hy). nra.
  Qed.
End Zero.

Lemma vsub_scale_allzero y w d : allzero y -> d == 0 -> allzero (vsub y (vscale d w)).
Proof.
  intros Hy Hd. revert w. induction Hy as [|x y Hx _ IH]; intros [|a w]; cbn; constructor; [rewrite Hx, Hd; ring|apply IH].
Qed.

Lemma scal_at_zero k par w y : allzero y -> scal k par w y == 0.
Proof.
  intros Hy. destruct k; cbn [scal].
  - apply dot_zero_r, Hy.
  - unfold cheb. apply qmaxl_allzero, allzero_veq_zero_prod, vabs_allzero, Hy.
  - unfold augcheb. cbv zeta.
    rewrite (qmaxl_allzero _ (allzero_veq_zero_prod w _ (vabs_allzero _ Hy))).
    rewrite (qsum_allzero _ (vabs_allzero _ (allzero_veq_zero_prod w _ (vabs_allzero _ Hy)))). ring.
  - unfold pbi. cbv zeta. assert (Hd : dot w y / dot w w == 0) by (rewrite (dot_zero_r w y Hy); unfold Qdiv; ring).
    rewrite (qsum_allzero _ (vabs_allzero _ (vsub_scale_allzero y w _ Hy Hd))). rewrite Hd. ring.
  - unfold quad. cbv zeta. rewrite (dot_zero_r w y Hy), (dot_zero_r y y Hy). unfold Qdiv. ring.
Qed.

(* ---------- refutations ---------- *)
(* today's Chebyshev on the unshifted negated objectives prefers the dominated point (F07) *)
Lemma cheb_unshifted_refuted :
  exists w y y', allpos w /\ vlt y y' /\ cheb w y' < cheb w y.
Proof.
  exists [1#2; 1#2], [-3#1; -3#1], [-1#1; -1#1]. split; [|split].
  - repeat constructor.
  - repeat constructor.
  - vm_compute. reflexivity.
Qed.

(* PBI and Quadratic do not preserve dominance even in the shifted orthant (inherent to the two methods) *)
Lemma pbi_dominance_refuted :
  exists w y y', allpos w /\ nonneg y /\ vle y y' /\ pbi 5 w y' < pbi 5 w y.
Proof.
  exists [1#2; 1#2], [1; 1#2], [1; 1]. split; [|split; [|split]].
  - repeat constructor.
  - repeat constructor; vm_compute; discriminate.
  - repeat constructor; vm_compute; discriminate.
  - vm_compute. reflexivity.
Qed.

Lemma quad_dominance_refuted :
  exists w y y', allpos w /\ nonneg y /\ vle y y' /\ quad 10 w y' < quad 10 w y.
Proof.
  exists [1#2; 1#2], [0; 1], [1#2; 1]. split; [|split; [|split]].
  - repeat constructor.
  - repeat constructor; vm_compute; discriminate.
  - repeat constructor; vm_compute; discriminate.
  - vm_compute. reflexivity.
Qed.
