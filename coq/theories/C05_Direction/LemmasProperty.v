(* C05 - the composed statements closed by Property.v (same statements, proofs by composition of the lemma files). *)
From Coq Require Import String.
From Coq Require Import List ZArith QArith Qabs Bool Arith.
Import ListNotations.
Require Import DH.C05_Direction.Model DH.C05_Direction.LemmasBasic DH.C05_Direction.LemmasVec DH.C05_Direction.LemmasSign
  DH.C05_Direction.LemmasScalar DH.C05_Direction.LemmasInvar DH.C05_Direction.LemmasHist DH.C05_Direction.LemmasAffine
  DH.C05_Direction.LemmasScaler DH.C05_Direction.LemmasFinal DH.C05_Direction.Check.
Open Scope Q_scope.

Lemma tell_negates_all :
  forall ignore jobs c,
    (forall y, In (c, TVal y) (cbo_tell ignore jobs) <-> exists v, In (c, Some v) jobs /\ y = vneg v)
    /\ (In (c, TFail) (cbo_tell ignore jobs) <-> ignore = false /\ In (c, None) jobs)
    /\ (forall good x, In x good -> x <= fill_value PMax good).
Proof.
  intros ignore jobs c. split; [intros y; apply cbo_tell_in|]. split; [apply cbo_tell_fail|exact fill_max_worst].
Qed.

Lemma scalar_monotone_all :
  forall w y y', nonneg y -> vle y y' ->
    (nonneg w -> lin w y <= lin w y' /\ cheb w y <= cheb w y' /\ forall a, 0 <= a -> augcheb a w y <= augcheb a w y')
    /\ (allpos w -> length w = length y -> ~ veq y y' ->
          lin w y < lin w y' /\ forall a, 0 < a -> augcheb a w y < augcheb a w y')
    /\ (allpos w -> w <> [] -> length w = length y -> vlt y y' ->
          cheb w y < cheb w y' /\ forall a, 0 <= a -> augcheb a w y < augcheb a w y').
Proof.
  intros w y y' Hy H. split; [|split].
  - intros Hw. split; [apply lin_mono; assumption|]. split; [apply cheb_mono; assumption|].
    intros a Ha. apply aug_mono; assumption.
  - intros Hw L Hne. split; [apply lin_strict; assumption|]. intros a Ha. apply aug_strict; assumption.
  - intros Hw Hne L Hlt. split; [apply cheb_strict; assumption|]. intros a Ha. apply aug_strict_all; assumption.
Qed.

Lemma utopia_unique_minimum_all :
  forall k par w y, allpos w -> w <> [] -> length w = length y -> 0 <= par -> nonneg y ->
    0 <= scal k par w y /\ (scal k par w y == 0 <-> allzero y).
Proof.
  intros k par w y Hw Hne L Hp Hy. split; [apply scal_nonneg; assumption|]. split.
  - apply scal_zero_inv; assumption.
  - apply scal_at_zero.
Qed.

Lemma moo_exploit_all :
  forall (C : Type) (obj : C -> list Q) (mu sigma : C -> Q) (sc : nat -> Q -> Q) (kappa par : Q) (k : skind) (w : list Q) (m : nat)
         (cs : list C) (d : C),
    kappa == 0 -> allpos w -> length w = m -> (0 < m)%nat -> 0 <= par -> cs <> [] ->
    (forall j a b, (j < m)%nat -> In a (col j (toldY C obj cs)) -> In b (col j (toldY C obj cs)) ->
                   (a <= b -> sc j a <= sc j b) /\ (a < b -> sc j a < sc j b)) ->
    Forall2 (fun c s => mu c == s) cs (moo_score sc k par w m (toldY C obj cs)) ->
    let x := nth (next_idx kappa (map mu cs) (map sigma cs)) cs d in
    In x cs
    /\ (forall c', In c' cs -> (forall c j, In c cs -> (j < m)%nat -> ob C obj c j <= ob C obj c' j) ->
                   forall j, (j < m)%nat -> ob C obj x j == ob C obj c' j)
    /\ (k = SLin \/ k = SCheb \/ k = SAug ->
        forall c, In c cs -> ~ (forall j, (j < m)%nat -> ob C obj x j < ob C obj c j))
    /\ (k = SLin \/ (k = SAug /\ 0 < par) ->
        forall c, In c cs -> (forall j, (j < m)%nat -> ob C obj x j <= ob C obj c j) ->
                  forall j, (j < m)%nat -> ob C obj c j == ob C obj x j).
Proof.
  intros C obj mu sigma sc kappa par k w m cs d Hk Hw Lw Hm Hpar Hne Hsc Hint x.
  split; [|split; [|split]].
  - exact (proj1 (proposal_min C obj mu sigma sc kappa par k w m cs d Hk Hne Hint)).
  - intros c' Hc' Hb. eapply moo_ideal with (sc := sc) (par := par) (k := k) (w := w); eassumption.
  - intros Hkind. eapply moo_weak with (sc := sc) (par := par) (k := k) (w := w); eassumption.
  - intros Hkind. eapply moo_pareto with (sc := sc) (par := par) (k := k) (w := w); eassumption.
Qed.

Lemma scalers_increasing_all :
  forall sk ys a b, In a ys -> In b ys ->
    (a <= b -> scale_col sk ys a <= scale_col sk ys b) /\ (a < b -> scale_col sk ys a < scale_col sk ys b).
Proof. intros sk ys a b Ha Hb. exact (scale_col_inc sk ys a b Ha Hb). Qed.

Lemma moo_exploit_model_scalers_all :
  forall (C : Type) (obj : C -> list Q) (mu sigma : C -> Q) (sk : sckind) (kappa par : Q) (k : skind) (w : list Q) (m : nat)
         (cs : list C) (d : C),
    kappa == 0 -> allpos w -> length w = m -> (0 < m)%nat -> 0 <= par -> cs <> [] ->
    Forall2 (fun c s => mu c == s) cs (moo_scalarize sk k par w m (toldY C obj cs)) ->
    let x := nth (next_idx kappa (map mu cs) (map sigma cs)) cs d in
    (forall c', In c' cs -> (forall c j, In c cs -> (j < m)%nat -> ob C obj c j <= ob C obj c' j) ->
                forall j, (j < m)%nat -> ob C obj x j == ob C obj c' j)
    /\ (k = SLin \/ k = SCheb \/ k = SAug ->
        forall c, In c cs -> ~ (forall j, (j < m)%nat -> ob C obj x j < ob C obj c j))
    /\ (k = SLin \/ (k = SAug /\ 0 < par) ->
        forall c, In c cs -> (forall j, (j < m)%nat -> ob C obj x j <= ob C obj c j) ->
                  forall j, (j < m)%nat -> ob C obj c j == ob C obj x j).
Proof.
  intros C obj mu sigma sk kappa par k w m cs d Hk Hw Lw Hm Hpar Hne Hint x. split; [|split].
  - intros c' Hc' Hb. eapply concrete_ideal with (sk := sk) (par := par) (k := k) (w := w); eassumption.
  - intros Hkind. eapply concrete_weak with (sk := sk) (par := par) (k := k) (w := w); eassumption.
  - intros Hkind. eapply concrete_pareto with (sk := sk) (par := par) (k := k) (w := w); eassumption.
Qed.

Lemma oracles_all :
  (forall objs i, ok_pick_max objs i = true <-> PickMax objs i)
  /\ (forall objs i, ok_pick_weak objs i = true <-> PickWeak objs i)
  /\ (forall objs i, ok_pick_pareto objs i = true <-> PickPareto objs i)
  /\ (forall objs i, ok_pick_ideal objs i = true <-> PickIdeal objs i)
  /\ (forall k objs t, ok_lie_user k objs t = true <-> - t == lie k objs)
  /\ (forall k m objs t, ok_lie_vec_user k m objs t = true <-> Forall2 Qeq (vneg t) (lie_vec k m objs))
  /\ (forall p good t, ok_fill_user p good t = true <-> - t == fill_user p good)
  /\ (forall objs told, ok_order_reversing objs told = true <-> OrderReversing objs told)
  /\ (forall l, ok_lcb_direction l = true <-> LcbDirection l)
  /\ (forall rows vals, ok_scal_mono rows vals = true <-> ScalMono rows vals)
  /\ (forall rows vals, ok_scal_strict rows vals = true <-> ScalStrict rows vals)
  /\ (forall rows vals, ok_scal_ideal rows vals = true <-> ScalIdeal rows vals)
  /\ (forall xs ts, ok_scaler_mono xs ts = true <-> ScalerMono xs ts).
Proof.
  repeat (match goal with |- _ /\ _ => split end); intros; first
    [ apply ok_pick_max_spec | apply ok_pick_weak_spec | apply ok_pick_pareto_spec | apply ok_pick_ideal_spec
    | apply ok_lie_user_spec | apply ok_lie_vec_user_spec | apply ok_fill_user_spec | apply ok_order_reversing_spec
    | apply ok_lcb_direction_spec | apply ok_scal_mono_spec | apply ok_scal_strict_spec | apply ok_scal_ideal_spec
    | apply ok_scaler_mono_spec ].
Qed.
