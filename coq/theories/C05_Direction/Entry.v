(* Entry points for the extracted driver: data -> data.   Function ids 501..
   Rationals: every call carries one common denominator [den] (a power of two chosen by the harness) as its first
   field and integers (numerators) everywhere else; results are returned as [num; den] pairs (un-reduced). *)
From Coq Require Import List ZArith QArith Bool.
Import ListNotations.
Require Import DH.Common.Data DH.C05_Direction.Model DH.C05_Direction.Check.
Open Scope Z_scope.

Definition d_q (den : Z) (d : data) : Q := Qmake (dZ d) (Z.to_pos den).
Definition d_qs (den : Z) (d : data) : list Q := dmap (d_q den) d.
Definition d_rows (den : Z) (d : data) : list (list Q) := dmap (d_qs den) d.
Definition e_q (q : Q) : data := L [I (Qnum q); I (Zpos (Qden q))].
Definition e_qs (l : list Q) : data := elist e_q l.
Definition e_rows (l : list (list Q)) : data := elist e_qs l.

Definition d_lkind (d : data) : lkind := match dZ d with 0 => LMin | 1 => LMean | _ => LMax end.
Definition d_fpol (d : data) : fpol := match dZ d with 0 => PMean | 1 => PMax | _ => POther end.
Definition d_upol (d : data) : upol := match dZ d with 0 => UMin | _ => UMean end.
Definition d_skind (d : data) : skind :=
  match dZ d with 0 => SLin | 1 => SCheb | 2 => SAug | 3 => SPbi | _ => SQuad end.
Definition d_sckind (d : data) : sckind := match dZ d with 0 => ScId | 1 => ScMinMax | _ => ScQuantile end.

Definition d_oq (den : Z) (d : data) : option Q := dopt (d_q den) d.
Definition e_oq (o : option Q) : data := eopt e_q o.
Definition d_job (den : Z) (d : data) : Z * option (list Q) := (dZ (dnth 0 d), dopt (d_qs den) (dnth 1 d)).
Definition e_told (t : Z * told) : data :=
  L [I (fst t); match snd t with TFail => L [] | TVal v => L [e_qs v] end].
Definition d_triple (den : Z) (d : data) : Q * Q * Q := (d_q den (dnth 0 d), d_q den (dnth 1 d), d_q den (dnth 2 d)).

Definition entries : list (Z * (data -> data)) :=
  [ (* ---- model functions ---- *)
    (501, fun d => let den := dZ (dnth 0 d) in
                   elist e_told (cbo_tell (dbool (dnth 1 d)) (dmap (d_job den) (dnth 2 d))));
    (502, fun d => let den := dZ (dnth 0 d) in e_q (lie (d_lkind (dnth 1 d)) (d_qs den (dnth 2 d))));
    (503, fun d => let den := dZ (dnth 0 d) in
                   e_qs (lie_vec (d_lkind (dnth 1 d)) (dnat (dnth 2 d)) (d_rows den (dnth 3 d))));
    (504, fun d => let den := dZ (dnth 0 d) in elist e_oq (impute (d_fpol (dnth 1 d)) (dmap (d_oq den) (dnth 2 d))));
    (505, fun d => let den := dZ (dnth 0 d) in
                   e_q (y_lie (d_fpol (dnth 1 d)) (d_lkind (dnth 2 d)) (dmap (d_oq den) (dnth 3 d))));
    (506, fun d => let den := dZ (dnth 0 d) in
                   e_qs (map2 (acq_lcb (d_q den (dnth 1 d))) (d_qs den (dnth 2 d)) (d_qs den (dnth 3 d))));
    (507, fun d => let den := dZ (dnth 0 d) in
                   e_qs (scal_hist_today (d_skind (dnth 1 d)) (d_q den (dnth 2 d)) (d_qs den (dnth 3 d)) (d_rows den (dnth 4 d))));
    (508, fun d => let den := dZ (dnth 0 d) in
                   e_qs (scal_hist (d_skind (dnth 1 d)) (d_q den (dnth 2 d)) (d_qs den (dnth 3 d)) (dnat (dnth 4 d))
                                   (d_rows den (dnth 5 d))));
    (509, fun d => let den := dZ (dnth 0 d) in
                   e_rows (scale_hist (d_sckind (dnth 1 d)) (dnat (dnth 2 d)) (d_rows den (dnth 3 d))));
    (510, fun d => let den := dZ (dnth 0 d) in
                   e_qs (moo_scalarize (d_sckind (dnth 1 d)) (d_skind (dnth 2 d)) (d_q den (dnth 3 d)) (d_qs den (dnth 4 d))
                                       (dnat (dnth 5 d)) (d_rows den (dnth 6 d))));
    (511, fun d => let den := dZ (dnth 0 d) in
                   e_qs (moo_scalarize_today (d_sckind (dnth 1 d)) (d_skind (dnth 2 d)) (d_q den (dnth 3 d)) (d_qs den (dnth 4 d))
                                             (dnat (dnth 5 d)) (d_rows den (dnth 6 d))));
    (512, fun d => let den := dZ (dnth 0 d) in enat (argmin_idx (d_qs den (dnth 1 d))));
    (513, fun d => let den := dZ (dnth 0 d) in e_qs (so_scale (d_sckind (dnth 1 d)) (d_qs den (dnth 2 d))));
    (514, fun d => let den := dZ (dnth 0 d) in let ys := d_qs den (dnth 1 d) in
                   elist (fun y => L [e_q (quantile_lo ys y); e_q (quantile_hi ys y)]) ys);
    (515, fun d => let den := dZ (dnth 0 d) in elist enat (topk (dnat (dnth 1 d)) (d_qs den (dnth 2 d))));
    (* ---- oracles ---- *)
    (520, fun d => let den := dZ (dnth 0 d) in ebool (ok_pick_max (d_qs den (dnth 1 d)) (dnat (dnth 2 d))));
    (521, fun d => let den := dZ (dnth 0 d) in ebool (ok_pick_weak (d_rows den (dnth 1 d)) (dnat (dnth 2 d))));
    (522, fun d => let den := dZ (dnth 0 d) in ebool (ok_pick_pareto (d_rows den (dnth 1 d)) (dnat (dnth 2 d))));
    (523, fun d => let den := dZ (dnth 0 d) in ebool (ok_pick_ideal (d_rows den (dnth 1 d)) (dnat (dnth 2 d))));
    (524, fun d => let den := dZ (dnth 0 d) in
                   ebool (ok_lie_user (d_lkind (dnth 1 d)) (d_qs den (dnth 2 d)) (d_q den (dnth 3 d))));
    (525, fun d => let den := dZ (dnth 0 d) in
                   ebool (ok_lie_vec_user (d_lkind (dnth 1 d)) (dnat (dnth 2 d)) (d_rows den (dnth 3 d)) (d_qs den (dnth 4 d))));
    (526, fun d => let den := dZ (dnth 0 d) in
                   ebool (ok_fill_user (d_upol (dnth 1 d)) (d_qs den (dnth 2 d)) (d_q den (dnth 3 d))));
    (527, fun d => let den := dZ (dnth 0 d) in ebool (ok_order_reversing (d_qs den (dnth 1 d)) (d_qs den (dnth 2 d))));
    (528, fun d => let den := dZ (dnth 0 d) in ebool (ok_lcb_direction (dmap (d_triple den) (dnth 1 d))));
    (529, fun d => let den := dZ (dnth 0 d) in ebool (ok_scal_mono (d_rows den (dnth 1 d)) (d_qs den (dnth 2 d))));
    (530, fun d => let den := dZ (dnth 0 d) in ebool (ok_scal_strict (d_rows den (dnth 1 d)) (d_qs den (dnth 2 d))));
    (531, fun d => let den := dZ (dnth 0 d) in ebool (ok_scal_ideal (d_rows den (dnth 1 d)) (d_qs den (dnth 2 d))));
    (532, fun d => let den := dZ (dnth 0 d) in ebool (ok_scaler_mono (d_qs den (dnth 1 d)) (d_qs den (dnth 2 d))));
    (533, fun d => let den := dZ (dnth 0 d) in ebool (ok_acq_weak (dmap (d_triple den) (dnth 1 d))));
    (534, fun d => let den := dZ (dnth 0 d) in ebool (ok_topk (d_qs den (dnth 1 d)) (dnat (dnth 2 d)) (dmap dnat (dnth 3 d)))) ].
