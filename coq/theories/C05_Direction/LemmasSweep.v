(* C05 - statements about histories that grow over several tells, failures mixed with observations, and repeated lies. *)
From Coq Require Import List ZArith QArith Qabs Bool Arith Lia Lqa.
Import ListNotations.
Require Import DH.C05_Direction.Model DH.C05_Direction.LemmasBasic DH.C05_Direction.LemmasVec DH.C05_Direction.LemmasSign
  DH.C05_Direction.LemmasScalar DH.C05_Direction.LemmasInvar DH.C05_Direction.LemmasHist.
Open Scope Q_scope.

(* ---- failures mixed with observations: the "max" imputation never makes a failed candidate the strict winner ---- *)
Lemma goods_impute_in p ys v : In v (goods ys) -> In v (goods (impute p ys)).
Proof.
  intros H. destruct p; [| |exact H].
  - cbn [impute]. unfold goods in *. rewrite in_flat_map in *. destruct H as [o [Ho Hv]]. destruct o as [x|]; [|contradiction].
    destruct Hv as [<-|[]]. exists (Some x). split; [|left; reflexivity].
    apply in_map_iff. exists (Some x). split; [reflexivity|exact Ho].
  - cbn [impute]. unfold goods in *. rewrite in_flat_map in *. destruct H as [o [Ho Hv]]. destruct o as [x|]; [|contradiction].
    destruct Hv as [<-|[]]. exists (Some x). split; [|left; reflexivity].
    apply in_map_iff. exists (Some x). split; [reflexivity|exact Ho].
Qed.

Lemma goods_impute_values ys x :
  In x (goods (impute PMax ys)) -> In x (goods ys) \/ x = fill_value PMax (goods ys).
Proof.
  cbn [impute]. unfold goods at 1. rewrite in_flat_map. intros [o [Ho Hx]]. apply in_map_iff in Ho as [o0 [<- Ho0]].
  destruct o0 as [v|]; destruct Hx as [<-|[]].
  - left. unfold goods. apply in_flat_map. exists (Some v). split; [exact Ho0|left; reflexivity].
  - right. reflexivity.
Qed.

Lemma failure_never_preferred ys :
  goods ys <> [] ->
  let l := goods (impute PMax ys) in
  let best := nth (argmin_idx l) l 0 in
  (forall v, In v (goods ys) -> best <= v)
  /\ (exists v, In v (goods ys) /\ best == v).
Proof.
  intros Hne l best.
  assert (Hl : l <> []).
  { destruct (goods ys) as [|v t] eqn:E; [congruence|]. intros El.
    assert (Hin : In v l) by (apply goods_impute_in; rewrite E; left; reflexivity). rewrite El in Hin. contradiction. }
  destruct (argmin_spec l Hl) as [Hlt Hmin]. split.
  - intros v Hv. apply Hmin. apply goods_impute_in. exact Hv.
  - assert (Hb : In best l) by (apply nth_In; exact Hlt).
    destruct (goods_impute_values ys best Hb) as [Hg|Hf]; [exists best; split; [exact Hg|reflexivity]|].
    (* the picked value is the fill = the maximum of the observations: then every observation equals it *)
    pose proof (qmaxl_in (goods ys) Hne) as Hm. exists (qmaxl (goods ys)). split; [exact Hm|].
    rewrite Hf. destruct (goods ys); [congruence|]. reflexivity.
Qed.

(* ---- a history that arrives in several tells: the utopia point is that of the WHOLE history ---- *)
Lemma refit_orthant sc m Y1 Y2 r : In r (Y1 ++ Y2) -> nonneg (shrow sc m (Y1 ++ Y2) r).
Proof. apply shrow_nonneg. Qed.

(* a utopia point frozen at the first fit (the history Y1) and applied to the full history: the dominated row wins *)
Definition scal_hist_frozen (k : skind) (par : Q) (w : list Q) (m : nat) (Y1 Y2 : list (list Q)) : list Q :=
  let u := colmin m Y1 in map (fun y => scal k par w (vsub y u)) (Y1 ++ Y2).

Lemma frozen_utopia_refuted :
  exists w Y1 Y2,
    argmin_idx (scal_hist_frozen SCheb 0 w 2 Y1 Y2) = 0%nat /\ argmin_idx (scal_hist SCheb 0 w 2 (Y1 ++ Y2)) = 1%nat
    /\ vlt (nth 1 (Y1 ++ Y2) []) (nth 0 (Y1 ++ Y2) []).
Proof.
  exists [1#2; 1#2], [[-1#1; -1#1]], [[-3#1; -3#1]]. split; [vm_compute; reflexivity|]. split; [vm_compute; reflexivity|].
  repeat constructor.
Qed.

(* ---- constant liar: a lie is never outside the range of the values it is computed from, so repeated lies (each computed on
        the history extended by the previous ones) stay inside the observed range ---- *)
Lemma qsum_bounds l lo hi : (forall x, In x l -> lo <= x <= hi) -> qlen l * lo <= qsum l <= qlen l * hi.
Proof.
  unfold qlen. induction l as [|a t IH]; intros H; [cbn [length qsum]; change (inject_Z (Z.of_nat 0)) with 0; lra|].
  assert (Ha : lo <= a <= hi) by (apply H; left; reflexivity).
  assert (IH' := IH (fun x Hx => H x (or_intror Hx))).
  cbn [length qsum]. rewrite Nat2Z.inj_succ, <- Z.add_1_r, inject_Z_plus.
  change (inject_Z 1) with 1. set (n := inject_Z (Z.of_nat (length t))) in *.
  destruct IH' as [I1 I2]. destruct Ha as [A1 A2].
  assert (E1 : (n + 1) * lo == n * lo + lo) by ring. assert (E2 : (n + 1) * hi == n * hi + hi) by ring.
  rewrite E1, E2. split; lra.
Qed.

Lemma lie_in_range k ys : ys <> [] -> qminl ys <= lie k ys <= qmaxl ys.
Proof.
  intros Hne. destruct ys as [|a t] eqn:E; [congruence|]. rewrite <- E in *.
  assert (El : lie k ys = match k with LMin => qminl ys | LMean => qmean ys | LMax => qmaxl ys end) by (subst; reflexivity).
  rewrite El. pose proof (qminl_in ys Hne) as Hi. pose proof (qmaxl_ub ys _ Hi) as Hmm.
  destruct k; [lra| |lra].
  unfold qmean.
  assert (Hb : qlen ys * qminl ys <= qsum ys <= qlen ys * qmaxl ys)
    by (apply qsum_bounds; intros x Hx; split; [apply qminl_lb|apply qmaxl_ub]; exact Hx).
  assert (Hn : 0 < qlen ys).
  { unfold qlen. subst ys. cbn [length]. rewrite Nat2Z.inj_succ. change 0 with (inject_Z 0). rewrite <- Zlt_Qlt. lia. }
  split.
  - apply Qle_shift_div_l; [exact Hn|]. lra.
  - apply Qle_shift_div_r; [exact Hn|]. lra.
Qed.
