(* C05 - vectors over Q: pointwise order / equality and compatibility of sum, max, min, dot, abs. *)
From Coq Require Import List ZArith QArith Qabs Bool Arith Lia Lqa.
Import ListNotations.
Require Import DH.C05_Direction.Model DH.C05_Direction.LemmasBasic.
Open Scope Q_scope.

Definition veq : list Q -> list Q -> Prop := Forall2 Qeq.
Definition vle : list Q -> list Q -> Prop := Forall2 Qle.
Definition vlt : list Q -> list Q -> Prop := Forall2 Qlt.
Definition nonneg (y : list Q) : Prop := Forall (fun x => 0 <= x) y.
Definition allpos (y : list Q) : Prop := Forall (fun x => 0 < x) y.
Definition allzero (y : list Q) : Prop := Forall (fun x => x == 0) y.

Lemma veq_refl y : veq y y.
Proof. induction y; constructor; [reflexivity|assumption]. Qed.
Lemma veq_sym a b : veq a b -> veq b a.
Proof. induction 1; constructor; [symmetry|]; assumption. Qed.
Lemma veq_trans a b c : veq a b -> veq b c -> veq a c.
Proof.
  intros H. revert c. induction H as [|x y a b Hxy _ IH]; intros c Hc; inversion Hc; subst; constructor.
  - etransitivity; eassumption.
  - apply IH. assumption.
Qed.
Lemma veq_dec a b : {veq a b} + {~ veq a b}.
Proof.
  revert b. induction a as [|x a IH]; intros [|y b].
  - left. constructor.
  - right. intros H. inversion H.
  - right. intros H. inversion H.
  - destruct (Qeq_dec x y) as [E|N]; [|right; intros H; inversion H; contradiction].
    destruct (IH b) as [E2|N2]; [left; constructor; assumption|right; intros H; inversion H; contradiction].
Qed.
Lemma veq_vle a b : veq a b -> vle a b.
Proof. induction 1 as [|x y a b H]; constructor; [rewrite H; apply Qle_refl|assumption]. Qed.
Lemma vlt_vle a b : vlt a b -> vle a b.
Proof. induction 1; constructor; [apply Qlt_le_weak|]; assumption. Qed.
Lemma vle_antisym a b : vle a b -> vle b a -> veq a b.
Proof.
  intros H. induction H as [|x y a b Hxy _ IH]; intros H2; [constructor|].
  inversion H2 as [|? ? ? ? Hyx Hba]; subst. constructor; [lra|apply IH; exact Hba].
Qed.
Lemma F2_length {A B} (R : A -> B -> Prop) a b : Forall2 R a b -> length a = length b.
Proof. induction 1; cbn; congruence. Qed.
Lemma allpos_nonneg w : allpos w -> nonneg w.
Proof. induction 1; constructor; [lra|assumption]. Qed.

(* ---- sums ---- *)
Lemma qsum_le a b : vle a b -> qsum a <= qsum b.
Proof. induction 1; cbn [qsum]; lra. Qed.
Lemma qsum_eq a b : veq a b -> qsum a == qsum b.
Proof. induction 1 as [|x y a b H _ IH]; cbn [qsum]; [reflexivity|rewrite H, IH; reflexivity]. Qed.
Lemma qsum_nonneg a : nonneg a -> 0 <= qsum a.
Proof. induction 1; cbn [qsum]; lra. Qed.
Lemma qsum_zero a : nonneg a -> qsum a == 0 -> allzero a.
Proof.
  induction 1 as [|x a Hx Ha IH]; cbn [qsum]; intros Hs; constructor.
  - pose proof (qsum_nonneg a Ha). lra.
  - apply IH. pose proof (qsum_nonneg a Ha). lra.
Qed.
(* strict: weakly below everywhere and not equal everywhere *)
Lemma qsum_lt a b : vle a b -> ~ veq a b -> qsum a < qsum b.
Proof.
  induction 1 as [|x y a b Hxy Hab IH]; intros Hne; [exfalso; apply Hne; constructor|].
  cbn [qsum]. pose proof (qsum_le a b Hab) as Hs.
  destruct (Qlt_le_dec x y) as [Hlt|Hge]; [lra|].
  assert (Hn : ~ veq a b) by (intros He; apply Hne; constructor; [lra|exact He]).
  specialize (IH Hn). lra.
Qed.
Lemma qsum_scale c a : qsum (map (Qmult c) a) == c * qsum a.
Proof. induction a as [|x t IH]; cbn [map qsum]; [ring|rewrite IH; ring]. Qed.

(* ---- max / min ---- *)
Lemma qmax_le a b c d : a <= c -> b <= d -> qmax a b <= qmax c d.
Proof.
  intros. destruct (qmax_spec a b) as [[? ->]|[? ->]]; destruct (qmax_spec c d) as [[? ->]|[? ->]]; lra.
Qed.
Lemma qmax_lt a b c d : a < c -> b < d -> qmax a b < qmax c d.
Proof.
  intros. destruct (qmax_spec a b) as [[? ->]|[? ->]]; destruct (qmax_spec c d) as [[? ->]|[? ->]]; lra.
Qed.
Lemma qmin_le a b c d : a <= c -> b <= d -> qmin a b <= qmin c d.
Proof.
  intros. destruct (qmin_spec a b) as [[? ->]|[? ->]]; destruct (qmin_spec c d) as [[? ->]|[? ->]]; lra.
Qed.

Lemma qmaxl_le a b : vle a b -> qmaxl a <= qmaxl b.
Proof.
  induction 1 as [|x y a b Hxy Hab IH]; [cbn; lra|].
  destruct Hab as [|x' y' a' b' H1 H2]; [cbn; exact Hxy|].
  rewrite !qmaxl_cons. apply qmax_le; assumption.
Qed.
Lemma qmaxl_lt a b : a <> [] -> vlt a b -> qmaxl a < qmaxl b.
Proof.
  intros Hne H. induction H as [|x y a b Hxy Hab IH]; [congruence|].
  destruct Hab as [|x' y' a' b' H1 H2]; [cbn; exact Hxy|].
  rewrite !qmaxl_cons. apply qmax_lt; [assumption|]. apply IH. discriminate.
Qed.
Lemma qminl_le a b : vle a b -> qminl a <= qminl b.
Proof.
  induction 1 as [|x y a b Hxy Hab IH]; [cbn; lra|].
  destruct Hab as [|x' y' a' b' H1 H2]; [cbn; exact Hxy|].
  rewrite !qminl_cons. apply qmin_le; assumption.
Qed.
Lemma qmaxl_eq a b : veq a b -> qmaxl a == qmaxl b.
Proof.
  intros H. pose proof (qmaxl_le a b (veq_vle _ _ H)). pose proof (qmaxl_le b a (veq_vle _ _ (veq_sym _ _ H))). lra.
Qed.
Lemma qminl_eq a b : veq a b -> qminl a == qminl b.
Proof.
  intros H. pose proof (qminl_le a b (veq_vle _ _ H)). pose proof (qminl_le b a (veq_vle _ _ (veq_sym _ _ H))). lra.
Qed.
Lemma qmaxl_nonneg a : nonneg a -> 0 <= qmaxl a.
Proof.
  intros H. destruct a as [|x t]; [cbn; lra|]. inversion H; subst.
  pose proof (qmaxl_ub (x :: t) x (or_introl eq_refl)). lra.
Qed.
Lemma qmaxl_zero a : nonneg a -> qmaxl a == 0 -> allzero a.
Proof.
  intros Hn Hz. unfold allzero, nonneg in *. apply Forall_forall. intros x Hx. pose proof (qmaxl_ub a x Hx).
  rewrite Forall_forall in Hn. specialize (Hn x Hx). cbv beta in Hn. lra.
Qed.
Lemma qmaxl_scale c a : 0 <= c -> qmaxl (map (Qmult c) a) == c * qmaxl a.
Proof.
  intros Hc. destruct a as [|x t] eqn:E; [cbn; ring|]. rewrite <- E.
  assert (Hne : a <> []) by (subst; discriminate).
  apply qmaxl_char.
  - apply in_map. apply qmaxl_in. exact Hne.
  - intros z Hz. apply in_map_iff in Hz as [z0 [<- Hz0]]. pose proof (qmaxl_ub a z0 Hz0). nra.
Qed.
Lemma qminl_scale c a : 0 <= c -> qminl (map (Qmult c) a) == c * qminl a.
Proof.
  intros Hc. destruct a as [|x t] eqn:E; [cbn; ring|]. rewrite <- E.
  assert (Hne : a <> []) by (subst; discriminate).
  apply qminl_char.
  - apply in_map. apply qminl_in. exact Hne.
  - intros z Hz. apply in_map_iff in Hz as [z0 [<- Hz0]]. pose proof (qminl_lb a z0 Hz0). nra.
Qed.
Lemma qminl_shift c a : a <> [] -> qminl (map (Qplus c) a) == c + qminl a.
Proof.
  intros Hne. apply qminl_char.
  - apply in_map. apply qminl_in. exact Hne.
  - intros z Hz. apply in_map_iff in Hz as [z0 [<- Hz0]]. pose proof (qminl_lb a z0 Hz0). lra.
Qed.
Lemma qmaxl_shift c a : a <> [] -> qmaxl (map (Qplus c) a) == c + qmaxl a.
Proof.
  intros Hne. apply qmaxl_char.
  - apply in_map. apply qmaxl_in. exact Hne.
  - intros z Hz. apply in_map_iff in Hz as [z0 [<- Hz0]]. pose proof (qmaxl_ub a z0 Hz0). lra.
Qed.

(* ---- map2 ---- *)
Lemma map2_length {A B C} (f : A -> B -> C) a b : length a = length b -> length (map2 f a b) = length a.
Proof. revert b. induction a as [|x a IH]; intros [|y b] H; cbn in *; try congruence. f_equal. apply IH. congruence. Qed.

Lemma map2_eq (f : Q -> Q -> Q) :
  (forall x x' y y', x == x' -> y == y' -> f x y == f x' y') ->
  forall a a' b b', veq a a' -> veq b b' -> veq (map2 f a b) (map2 f a' b').
Proof.
  intros Hf a a' b b' Ha. revert b b'. induction Ha as [|x x' a a' Hx Ha IH]; intros b b' Hb; [constructor|].
  destruct Hb as [|y y' b b' Hy Hb]; cbn [map2]; constructor; [apply Hf; assumption|apply IH; assumption].
Qed.

Lemma mul_eq x x' y y' : x == x' -> y == y' -> x * y == x' * y'.
Proof. intros -> ->. reflexivity. Qed.
Lemma sub_eq x x' y y' : x == x' -> y == y' -> x - y == x' - y'.
Proof. intros -> ->. reflexivity. Qed.

Lemma dot_eq w w' y y' : veq w w' -> veq y y' -> dot w y == dot w' y'.
Proof. intros Hw Hy. unfold dot. apply qsum_eq. apply map2_eq; [exact mul_eq|assumption|assumption]. Qed.

Lemma vabs_eq y y' : veq y y' -> veq (vabs y) (vabs y').
Proof. induction 1 as [|x x' y y' H _ IH]; cbn; constructor; [rewrite H; reflexivity|exact IH]. Qed.

Lemma vabs_nonneg_eq y : nonneg y -> veq (vabs y) y.
Proof. induction 1 as [|x y Hx _ IH]; cbn; constructor; [apply Qabs_pos; exact Hx|exact IH]. Qed.

Lemma vabs_is_nonneg y : nonneg (vabs y).
Proof. induction y; cbn; constructor; [apply Qabs_nonneg|assumption]. Qed.

(* weighted products *)
Lemma wprod_le w y y' : nonneg w -> vle y y' -> vle (map2 Qmult w y) (map2 Qmult w y').
Proof.
  intros Hw. revert y y'. induction Hw as [|a w Ha _ IH]; intros y y' H; [constructor|].
  destruct H as [|x x' y y' Hx Hy]; cbn [map2]; constructor; [nra|apply IH; exact Hy].
Qed.
Lemma wprod_lt w y y' : allpos w -> vlt y y' -> vlt (map2 Qmult w y) (map2 Qmult w y').
Proof.
  intros Hw. revert y y'. induction Hw as [|a w Ha _ IH]; intros y y' H; [constructor|].
  destruct H as [|x x' y y' Hx Hy]; cbn [map2]; constructor; [nra|apply IH; exact Hy].
Qed.
Lemma wprod_nonneg w y : nonneg w -> nonneg y -> nonneg (map2 Qmult w y).
Proof.
  intros Hw. revert y. induction Hw as [|a w Ha _ IH]; intros y H; [constructor|].
  destruct H as [|x y Hx Hy]; cbn [map2]; constructor; [nra|apply IH; exact Hy].
Qed.
(* with positive weights the products are all equal only if the vectors are *)
Lemma wprod_veq_inv w y y' : allpos w -> length w = length y -> length y = length y' ->
  veq (map2 Qmult w y) (map2 Qmult w y') -> veq y y'.
Proof.
  intros Hw. revert y y'. induction Hw as [|a w Ha _ IH]; intros [|x y] [|x' y'] L1 L2 H; cbn in *; try discriminate; [constructor|].
  inversion H; subst. constructor; [nra|]. apply IH; [congruence|congruence|assumption].
Qed.
Lemma wprod_zero_inv w y : allpos w -> length w = length y -> allzero (map2 Qmult w y) -> allzero y.
Proof.
  intros Hw. revert y. induction Hw as [|a w Ha _ IH]; intros [|x y] L H; cbn in *; try discriminate; [constructor|].
  inversion H; subst. constructor; [nra|]. apply IH; [congruence|assumption].
Qed.

Lemma vle_length a b : vle a b -> length a = length b.
Proof. apply F2_length. Qed.
