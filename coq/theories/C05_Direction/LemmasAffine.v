(* C05 - the direction does not change when a constant is added to the objectives or they are rescaled by a positive
   factor: the index selected on the scalarised history is the same for Y and for a*Y + b.
   identity scaler: one common factor a > 0, any shift per objective (the utopia shift absorbs b, homogeneity absorbs a);
   minmax / quantile-uniform scalers: any factor a_j > 0 and shift b_j per objective (the scaler absorbs both). *)
From Coq Require Import List ZArith QArith Qabs Bool Arith Lia Lqa.
Import ListNotations.
Require Import DH.C05_Direction.Model DH.C05_Direction.LemmasBasic DH.C05_Direction.LemmasVec DH.C05_Direction.LemmasSign
  DH.C05_Direction.LemmasScalar DH.C05_Direction.LemmasInvar DH.C05_Direction.LemmasHist.
Open Scope Q_scope.

Definition aff (a b : nat -> Q) (j : nat) (x : Q) : Q := a j * x + b j.
(* the told history after  y_j |-> a_j * y_j + b_j  in every row *)
Definition affine (a b : nat -> Q) (m : nat) (Y : list (list Q)) : list (list Q) := scale_rows (aff a b) m Y.

Lemma qminl_aff c e l : 0 <= c -> l <> [] -> qminl (map (fun x => c * x + e) l) == c * qminl l + e.
Proof.
  intros Hc Hne. apply qminl_char.
  - apply (in_map (fun x => c * x + e)). apply qminl_in. exact Hne.
  - intros z Hz. apply in_map_iff in Hz as [z0 [<- Hz0]]. pose proof (qminl_lb l z0 Hz0). nra.
Qed.
Lemma qmaxl_aff c e l : 0 <= c -> l <> [] -> qmaxl (map (fun x => c * x + e) l) == c * qmaxl l + e.
Proof.
  intros Hc Hne. apply qmaxl_char.
  - apply (in_map (fun x => c * x + e)). apply qmaxl_in. exact Hne.
  - intros z Hz. apply in_map_iff in Hz as [z0 [<- Hz0]]. pose proof (qmaxl_ub l z0 Hz0). nra.
Qed.

Lemma nth_affine_row a b m r j : (j < m)%nat ->
  nth j (map (fun j0 => aff a b j0 (nth j0 r 0)) (seq 0 m)) 0 = aff a b j (nth j r 0).
Proof. intros Hj. apply (nth_map_seq (fun j0 => aff a b j0 (nth j0 r 0))). exact Hj. Qed.

Lemma col_affine a b m Y j : (j < m)%nat -> col j (affine a b m Y) = map (aff a b j) (col j Y).
Proof.
  intros Hj. unfold affine. rewrite col_scale_rows by exact Hj. unfold scol, col. rewrite map_map. reflexivity.
Qed.

(* ---------- identity scaler ---------- *)
Definition idsc (j : nat) (x : Q) : Q := x.

Lemma scol_id_affine a b m Y j : (j < m)%nat ->
  scol idsc (affine a b m Y) j = map (fun x => a j * x + b j) (scol idsc Y j).
Proof.
  intros Hj. unfold scol, idsc, affine, scale_rows. rewrite !map_map. apply map_ext. intros r.
  rewrite nth_affine_row by exact Hj. reflexivity.
Qed.

Lemma shrow_id_affine a0 a b m Y r : Y <> [] -> 0 < a0 -> (forall j, a j == a0) ->
  veq (shrow idsc m (affine a b m Y) (map (fun j0 => aff a b j0 (nth j0 r 0)) (seq 0 m)))
      (vscale a0 (shrow idsc m Y r)).
Proof.
  intros Hne Ha Hall. unfold shrow, vscale. rewrite map_map. unfold veq. apply Forall2_map_seq. intros j Hj.
  rewrite nth_affine_row by exact Hj. rewrite scol_id_affine by exact Hj. unfold idsc, aff.
  rewrite qminl_aff; [|rewrite Hall; lra|unfold scol; destruct Y; [congruence|discriminate]].
  rewrite Hall. ring.
Qed.

Lemma moo_score_id_affine a0 a b k par w m Y : Y <> [] -> 0 < a0 -> (forall j, a j == a0) ->
  veq (moo_score idsc k par w m (affine a b m Y)) (map (Qmult (hdeg k a0)) (moo_score idsc k par w m Y)).
Proof.
  intros Hne Ha Hall. rewrite !moo_score_eq. unfold affine at 2. unfold scale_rows. rewrite !map_map.
  unfold veq. apply Forall2_map_same. intros r Hr.
  rewrite (scal_veq k par w _ _ (shrow_id_affine a0 a b m Y r Hne Ha Hall)).
  apply scal_scale. lra.
Qed.

Lemma argmin_id_affine a0 a b k par w m Y : Y <> [] -> 0 < a0 -> (forall j, a j == a0) ->
  argmin_idx (moo_score idsc k par w m (affine a b m Y)) = argmin_idx (moo_score idsc k par w m Y).
Proof.
  intros Hne Ha Hall. rewrite (argmin_veq _ _ (moo_score_id_affine a0 a b k par w m Y Hne Ha Hall)).
  apply argmin_scale. apply hdeg_pos. exact Ha.
Qed.

(* ---------- histories with pointwise equal rows ---------- *)
Lemma nth_veq j r r' : veq r r' -> nth j r 0 == nth j r' 0.
Proof.
  intros H. revert j. induction H as [|x x' r r' Hx _ IH]; intros [|j]; cbn [nth]; try reflexivity; [exact Hx|apply IH].
Qed.

Lemma col_veq j Ys Ys' : Forall2 veq Ys Ys' -> veq (col j Ys) (col j Ys').
Proof. intros H. unfold col. induction H as [|r r' Ys Ys' Hr _ IH]; cbn [map]; constructor; [apply nth_veq; exact Hr|exact IH]. Qed.

Lemma colmin_veq m Ys Ys' : Forall2 veq Ys Ys' -> veq (colmin m Ys) (colmin m Ys').
Proof.
  intros H. unfold colmin, veq. apply Forall2_map_same. intros j _. apply qminl_eq, col_veq, H.
Qed.

Lemma scal_rows_veq k par w u u' Ys Ys' : veq u u' -> Forall2 veq Ys Ys' ->
  veq (map (fun y => scal k par w (vsub y u)) Ys) (map (fun y => scal k par w (vsub y u')) Ys').
Proof.
  intros Hu H. induction H as [|r r' Ys0 Ys0' Hr _ IH]; cbn [map]; constructor; [|exact IH].
  apply scal_veq. apply vsub_eq; assumption.
Qed.

Lemma scal_hist_veq k par w m Ys Ys' : Forall2 veq Ys Ys' ->
  veq (scal_hist k par w m Ys) (scal_hist k par w m Ys').
Proof. intros H. unfold scal_hist. apply scal_rows_veq; [apply colmin_veq; exact H|exact H]. Qed.

(* ---------- minmax and quantile-uniform absorb a positive affine map of the column ---------- *)
Lemma minmax_aff c e ys y : 0 < c -> In y ys ->
  minmax_col (map (fun x => c * x + e) ys) (c * y + e) == minmax_col ys y.
Proof.
  intros Hc Hin. assert (Hne : ys <> []) by (destruct ys; [contradiction|discriminate]).
  unfold minmax_col. cbv zeta.
  pose proof (qminl_aff c e ys (Qlt_le_weak _ _ Hc) Hne) as Elo. pose proof (qmaxl_aff c e ys (Qlt_le_weak _ _ Hc) Hne) as Ehi.
  pose proof (qminl_lb ys y Hin) as Hlo. pose proof (qmaxl_ub ys y Hin) as Hhi.
  destruct (Qeq_bool (qmaxl (map (fun x => c * x + e) ys)) (qminl (map (fun x => c * x + e) ys))) eqn:B1;
    destruct (Qeq_bool (qmaxl ys) (qminl ys)) eqn:B2.
  - apply Qeq_bool_iff in B2. rewrite Elo. assert (Hy : y == qminl ys) by lra. rewrite Hy. ring.
  - apply Qeq_bool_iff in B1. rewrite Elo, Ehi in B1. apply Qeq_bool_neq in B2. exfalso. apply B2.
    assert (Hz : c * (qmaxl ys - qminl ys) == (c * qmaxl ys + e) - (c * qminl ys + e)) by ring.
    rewrite B1 in Hz. assert (Hz2 : c * (qmaxl ys - qminl ys) == 0) by (rewrite Hz; ring).
    apply Qmult_integral in Hz2. destruct Hz2; lra.
  - apply Qeq_bool_iff in B2. apply Qeq_bool_neq in B1. exfalso. apply B1. rewrite Elo, Ehi, B2. reflexivity.
  - apply Qeq_bool_neq in B2. rewrite Elo, Ehi.
    assert (Hd : ~ qmaxl ys - qminl ys == 0) by (intros H0; apply B2; lra).
    assert (Hd2 : ~ c * qmaxl ys + e - (c * qminl ys + e) == 0).
    { intros H0. assert (Hz2 : c * (qmaxl ys - qminl ys) == 0) by (rewrite <- H0; ring).
      apply Qmult_integral in Hz2. destruct Hz2; [lra|contradiction]. }
    field. split; assumption.
Qed.

Lemma count_map (p : Q -> bool) (f : Q -> Q) (q : Q -> bool) ys :
  (forall x, p (f x) = q x) -> count p (map f ys) = count q ys.
Proof.
  intros H. unfold count. f_equal. induction ys as [|x t IH]; [reflexivity|]. cbn [map filter]. rewrite H.
  destruct (q x); cbn [length]; rewrite IH; reflexivity.
Qed.

Lemma Qeq_bool_ext a b a' b' : (a == b <-> a' == b') -> Qeq_bool a b = Qeq_bool a' b'.
Proof.
  intros H. destruct (Qeq_bool a b) eqn:E1; destruct (Qeq_bool a' b') eqn:E2; try reflexivity.
  - apply Qeq_bool_iff in E1. apply H in E1. apply Qeq_bool_iff in E1. congruence.
  - apply Qeq_bool_iff in E2. apply H in E2. apply Qeq_bool_iff in E2. congruence.
Qed.

Lemma quantile_aff c e ys y : 0 < c -> ys <> [] ->
  quantile_col (map (fun x => c * x + e) ys) (c * y + e) = quantile_col ys y.
Proof.
  intros Hc Hne. unfold quantile_col.
  pose proof (qminl_aff c e ys (Qlt_le_weak _ _ Hc) Hne) as Elo. pose proof (qmaxl_aff c e ys (Qlt_le_weak _ _ Hc) Hne) as Ehi.
  rewrite (Qeq_bool_ext (c * y + e) (qminl (map (fun x => c * x + e) ys)) y (qminl ys)) by (rewrite Elo; split; intros; nra).
  rewrite (Qeq_bool_ext (c * y + e) (qmaxl (map (fun x => c * x + e) ys)) y (qmaxl ys)) by (rewrite Ehi; split; intros; nra).
  rewrite (count_map (fun x => qltb x (c * y + e)) (fun x => c * x + e) (fun x => qltb x y)).
  2:{ intros x. destruct (qltb x y) eqn:E; [apply qltb_iff in E; apply qltb_iff; nra|].
      apply qltb_false_iff in E. apply qltb_false_iff. nra. }
  rewrite (count_map (fun x => Qle_bool x (c * y + e)) (fun x => c * x + e) (fun x => Qle_bool x y)).
  2:{ intros x. destruct (Qle_bool x y) eqn:E; [apply Qle_bool_iff in E; apply Qle_bool_iff; nra|].
      apply Qle_bool_false_iff in E. apply Qle_bool_false_iff. nra. }
  rewrite map_length. reflexivity.
Qed.

(* ---------- the scaled history is unchanged ---------- *)
Lemma scale_hist_affine sk a b m Y : sk <> ScId -> (forall j, 0 < a j) ->
  Forall2 veq (scale_hist sk m (affine a b m Y)) (scale_hist sk m Y).
Proof.
  intros Hsk Ha. unfold scale_hist.
  set (sc1 := fun j => scale_col sk (col j (affine a b m Y))).
  set (sc2 := fun j => scale_col sk (col j Y)).
  unfold affine, scale_rows. rewrite map_map.
  assert (G : forall (l : list (list Q)), (forall r, In r l -> In r Y) ->
    Forall2 veq
      (map (fun r => map (fun j => sc1 j (nth j (map (fun j0 => aff a b j0 (nth j0 r 0)) (seq 0 m)) 0)) (seq 0 m)) l)
      (map (fun r => map (fun j => sc2 j (nth j r 0)) (seq 0 m)) l)).
  { induction l as [|r l IH]; intros Hl; cbn [map]; constructor; [|apply IH; intros r0 Hr0; apply Hl; right; exact Hr0].
    unfold veq. apply Forall2_map_seq. intros j Hj. rewrite nth_affine_row by exact Hj. unfold sc1, sc2.
    rewrite col_affine by exact Hj.
    assert (Hin : In (nth j r 0) (col j Y)) by (unfold col; apply (in_map (fun r0 => nth j r0 0)); apply Hl; left; reflexivity).
    unfold aff. destruct sk; [congruence| |]; cbn [scale_col].
    - apply minmax_aff; [apply Ha|exact Hin].
    - rewrite quantile_aff; [reflexivity|apply Ha|destruct (col j Y); [contradiction|discriminate]]. }
  apply G. auto.
Qed.

(* ---------- the theorem ---------- *)
Lemma moo_scalarize_id sk k par w m Y : sk = ScId -> moo_scalarize sk k par w m Y = moo_score idsc k par w m Y.
Proof. intros ->. reflexivity. Qed.

Lemma shift_scale_invariant sk k par w m Y a b :
  Y <> [] -> (forall j, 0 < a j) -> (sk = ScId -> forall j, a j == a O) ->
  argmin_idx (moo_scalarize sk k par w m (affine a b m Y)) = argmin_idx (moo_scalarize sk k par w m Y).
Proof.
  intros Hne Ha Hid. destruct sk eqn:Esk.
  - rewrite !(moo_scalarize_id ScId) by reflexivity. apply (argmin_id_affine (a O)); [exact Hne|apply Ha|apply Hid; reflexivity].
  - apply argmin_veq. unfold moo_scalarize, moo_score. fold (scale_hist ScMinMax m (affine a b m Y)). fold (scale_hist ScMinMax m Y).
    apply scal_hist_veq. apply scale_hist_affine; [discriminate|exact Ha].
  - apply argmin_veq. unfold moo_scalarize, moo_score. fold (scale_hist ScQuantile m (affine a b m Y)). fold (scale_hist ScQuantile m Y).
    apply scal_hist_veq. apply scale_hist_affine; [discriminate|exact Ha].
Qed.

(* single objective: any strictly increasing scaler keeps the argmin; in particular the scaled told values of a*y + b (a > 0)
   select the same index as those of y *)
Lemma so_argmin_invariant (sc sc' : Q -> Q) a b ys :
  0 < a -> (forall x y, x < y -> sc x < sc y) -> (forall x y, x < y -> sc' x < sc' y) ->
  (forall x y, x == y -> sc x == sc y) -> (forall x y, x == y -> sc' x == sc' y) ->
  argmin_idx (map (fun y => sc' (a * y + b)) ys) = argmin_idx (map sc ys).
Proof.
  intros Ha Hsc Hsc' Pe Pe'. apply argmin_order_ext. intros x y _ _. split; intros H.
  - destruct (Q_dec x y) as [[Hlt|Hgt]|Heq].
    + apply Qlt_le_weak, Hsc, Hlt.
    + exfalso. assert (H1 : a * y + b < a * x + b) by nra. apply Hsc' in H1. lra.
    + rewrite (Pe _ _ Heq). apply Qle_refl.
  - destruct (Q_dec x y) as [[Hlt|Hgt]|Heq].
    + apply Qlt_le_weak, Hsc'. nra.
    + exfalso. apply Hsc in Hgt. lra.
    + assert (E : a * x + b == a * y + b) by (rewrite Heq; reflexivity). rewrite (Pe' _ _ E). apply Qle_refl.
Qed.
