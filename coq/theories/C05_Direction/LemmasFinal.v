(* C05 - the exploitation step for the model's own pipeline moo_scalarize (identity / minmax / quantile-uniform scaler). *)
From Coq Require Import List ZArith QArith Qabs Bool Arith Lia Lqa.
Import ListNotations.
Require Import DH.C05_Direction.Model DH.C05_Direction.LemmasBasic DH.C05_Direction.LemmasVec DH.C05_Direction.LemmasSign
  DH.C05_Direction.LemmasScalar DH.C05_Direction.LemmasInvar DH.C05_Direction.LemmasHist DH.C05_Direction.LemmasScaler.
Open Scope Q_scope.

Section Concrete.
  Variable C : Type.
  Variables (obj : C -> list Q) (mu sigma : C -> Q) (sk : sckind) (kappa par : Q) (k : skind) (w : list Q) (m : nat).
  Variables (cs : list C) (d : C).
  Hypothesis Hk : kappa == 0.
  Hypothesis Hw : allpos w.
  Hypothesis Lw : length w = m.
  Hypothesis Hm : (0 < m)%nat.
  Hypothesis Hpar : 0 <= par.
  Hypothesis Hne : cs <> [].
  Hypothesis Hint : Forall2 (fun c s => mu c == s) cs (moo_scalarize sk k par w m (toldY C obj cs)).

  Let sc := fun j => scale_col sk (col j (toldY C obj cs)).
  Let Hsc : forall j a b, (j < m)%nat -> In a (col j (toldY C obj cs)) -> In b (col j (toldY C obj cs)) ->
                          (a <= b -> sc j a <= sc j b) /\ (a < b -> sc j a < sc j b).
  Proof. intros j a b _ Ha Hb. apply (scale_col_inc sk (col j (toldY C obj cs)) a b Ha Hb). Qed.

  Let x := proposal C mu sigma kappa cs d.

  Lemma concrete_ideal c' : In c' cs -> (forall c j, In c cs -> (j < m)%nat -> ob C obj c j <= ob C obj c' j) ->
    forall j, (j < m)%nat -> ob C obj x j == ob C obj c' j.
  Proof. intros Hc' Hb. unfold x. eapply moo_ideal with (sc := sc) (par := par) (k := k) (w := w); eassumption. Qed.

  Lemma concrete_weak : k = SLin \/ k = SCheb \/ k = SAug ->
    forall c, In c cs -> ~ (forall j, (j < m)%nat -> ob C obj x j < ob C obj c j).
  Proof. intros Hkind. unfold x. eapply moo_weak with (sc := sc) (par := par) (k := k) (w := w); eassumption. Qed.

  Lemma concrete_pareto : k = SLin \/ (k = SAug /\ 0 < par) ->
    forall c, In c cs -> (forall j, (j < m)%nat -> ob C obj x j <= ob C obj c j) ->
    forall j, (j < m)%nat -> ob C obj c j == ob C obj x j.
  Proof. intros Hkind. unfold x. eapply moo_pareto with (sc := sc) (par := par) (k := k) (w := w); eassumption. Qed.
End Concrete.
