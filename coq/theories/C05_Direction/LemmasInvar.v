(* C05 - the scalarisers respect pointwise equality and are positively homogeneous (degree 1; Quadratic: degree 2);
   argmin is invariant under pointwise-equal and under positively rescaled score lists. *)
From Coq Require Import List ZArith QArith Qabs Bool Arith Lia Lqa.
Import ListNotations.
Require Import DH.C05_Direction.Model DH.C05_Direction.LemmasBasic DH.C05_Direction.LemmasVec.
Open Scope Q_scope.

(* ---------- compatibility with veq ---------- *)
Lemma vsub_eq a a' b b' : veq a a' -> veq b b' -> veq (vsub a b) (vsub a' b').
Proof. apply map2_eq. exact sub_eq. Qed.

Lemma vscale_eq c c' y y' : c == c' -> veq y y' -> veq (vscale c y) (vscale c' y').
Proof.
  intros Hc H. induction H as [|x x' y y' Hx _ IH]; cbn; constructor; [rewrite Hc, Hx; reflexivity|exact IH].
Qed.

Lemma div_eq a a' b b' : a == a' -> b == b' -> a / b == a' / b'.
Proof. intros -> ->. reflexivity. Qed.

Lemma scal_veq k par w y y' : veq y y' -> scal k par w y == scal k par w y'.
Proof.
  intros H. pose proof (veq_refl w) as Hw. destruct k; cbn [scal].
  - apply dot_eq; assumption.
  - unfold cheb. apply qmaxl_eq, map2_eq; [exact mul_eq|exact Hw|apply vabs_eq; exact H].
  - unfold augcheb. cbv zeta.
    assert (E : veq (map2 Qmult w (vabs y)) (map2 Qmult w (vabs y')))
      by (apply map2_eq; [exact mul_eq|exact Hw|apply vabs_eq; exact H]).
    rewrite (qmaxl_eq _ _ E), (qsum_eq _ _ (vabs_eq _ _ E)). reflexivity.
  - unfold pbi. cbv zeta.
    assert (Ed : dot w y / dot w w == dot w y' / dot w w) by (apply div_eq; [apply dot_eq; assumption|reflexivity]).
    assert (E : veq (vabs (vsub y (vscale (dot w y / dot w w) w))) (vabs (vsub y' (vscale (dot w y' / dot w w) w))))
      by (apply vabs_eq, vsub_eq; [exact H|apply vscale_eq; [exact Ed|exact Hw]]).
    rewrite (qsum_eq _ _ E), Ed. reflexivity.
  - unfold quad. cbv zeta. rewrite (dot_eq w w y y' Hw H), (dot_eq y y' y y' H H). reflexivity.
Qed.

(* ---------- positive homogeneity ---------- *)
Lemma wprod_scale c w y : veq (map2 Qmult w (vscale c y)) (vscale c (map2 Qmult w y)).
Proof.
  revert y. induction w as [|a w IH]; intros [|b y]; cbn; constructor; [ring|apply IH].
Qed.

Lemma dot_scale_r c w y : dot w (vscale c y) == c * dot w y.
Proof. unfold dot. rewrite (qsum_eq _ _ (wprod_scale c w y)). apply qsum_scale. Qed.

Lemma dot_scale_both c y : dot (vscale c y) (vscale c y) == c * c * dot y y.
Proof.
  unfold dot. induction y as [|b y IH]; cbn; [ring|]. cbn in IH. rewrite IH. ring.
Qed.

Lemma vabs_scale c y : 0 <= c -> veq (vabs (vscale c y)) (vscale c (vabs y)).
Proof.
  intros Hc. induction y as [|b y IH]; cbn [vabs vscale map]; constructor; [|exact IH].
  rewrite Qabs_Qmult, (Qabs_pos c Hc). reflexivity.
Qed.

Lemma vsub_scale c y d w : veq (vsub (vscale c y) (vscale (c * d) w)) (vscale c (vsub y (vscale d w))).
Proof.
  revert w. induction y as [|b y IH]; intros [|a w]; cbn; constructor; [ring|apply IH].
Qed.

Definition hdeg (k : skind) (a : Q) : Q := match k with SQuad => a * a | _ => a end.

Lemma scal_scale k par w a y : 0 <= a -> scal k par w (vscale a y) == hdeg k a * scal k par w y.
Proof.
  intros Ha. destruct k; cbn [scal hdeg].
  - apply dot_scale_r.
  - unfold cheb.
    assert (E : veq (map2 Qmult w (vabs (vscale a y))) (vscale a (map2 Qmult w (vabs y)))).
    { eapply veq_trans; [apply map2_eq; [exact mul_eq|apply veq_refl|apply vabs_scale; exact Ha]|apply wprod_scale]. }
    rewrite (qmaxl_eq _ _ E). apply qmaxl_scale. exact Ha.
  - unfold augcheb. cbv zeta.
    assert (E : veq (map2 Qmult w (vabs (vscale a y))) (vscale a (map2 Qmult w (vabs y)))).
    { eapply veq_trans; [apply map2_eq; [exact mul_eq|apply veq_refl|apply vabs_scale; exact Ha]|apply wprod_scale]. }
    rewrite (qmaxl_eq _ _ E). unfold vscale at 1. rewrite (qmaxl_scale a _ Ha).
    assert (E2 : veq (vabs (map2 Qmult w (vabs (vscale a y)))) (vscale a (vabs (map2 Qmult w (vabs y))))).
    { eapply veq_trans; [apply vabs_eq; exact E|apply vabs_scale; exact Ha]. }
    rewrite (qsum_eq _ _ E2). unfold vscale. rewrite qsum_scale. ring.
  - unfold pbi. cbv zeta.
    assert (Ed : dot w (vscale a y) / dot w w == a * (dot w y / dot w w))
      by (rewrite (dot_scale_r a w y); unfold Qdiv; ring).
    assert (E : veq (vabs (vsub (vscale a y) (vscale (dot w (vscale a y) / dot w w) w)))
                    (vscale a (vabs (vsub y (vscale (dot w y / dot w w) w))))).
    { eapply veq_trans; [|apply vabs_scale; exact Ha]. apply vabs_eq.
      eapply veq_trans; [|apply vsub_scale]. apply vsub_eq; [apply veq_refl|apply vscale_eq; [exact Ed|apply veq_refl]]. }
    rewrite (qsum_eq _ _ E), Ed. unfold vscale. rewrite qsum_scale. ring.
  - unfold quad. cbv zeta. rewrite (dot_scale_r a w y), (dot_scale_both a y). unfold Qdiv. ring.
Qed.

Lemma hdeg_pos k a : 0 < a -> 0 < hdeg k a.
Proof. intros Ha. destruct k; cbn [hdeg]; try exact Ha. nra. Qed.

(* ---------- argmin ---------- *)
Lemma argmin_veq l l' : veq l l' -> argmin_idx l = argmin_idx l'.
Proof.
  intros H. induction H as [|x x' l l' Hx Hl IH]; [reflexivity|].
  destruct Hl as [|y y' l l' Hy Hl]; [reflexivity|].
  change (argmin_idx (x :: y :: l)) with
    (let j := argmin_idx (y :: l) in if Qle_bool x (nth j (y :: l) 0) then O else S j).
  change (argmin_idx (x' :: y' :: l')) with
    (let j := argmin_idx (y' :: l') in if Qle_bool x' (nth j (y' :: l') 0) then O else S j).
  cbv zeta. rewrite <- IH. set (j := argmin_idx (y :: l)).
  assert (Hn : nth j (y :: l) 0 == nth j (y' :: l') 0).
  { assert (HF : veq (y :: l) (y' :: l')) by (constructor; assumption).
    clearbody j. clear - HF. revert j. induction HF as [|a a' t t' Ha _ IHt]; intros [|j]; cbn [nth]; try reflexivity; [exact Ha|apply IHt]. }
  destruct (Qle_bool x (nth j (y :: l) 0)) eqn:E1; destruct (Qle_bool x' (nth j (y' :: l') 0)) eqn:E2; try reflexivity.
  - apply Qle_bool_iff in E1. rewrite Hx, Hn in E1. apply Qle_bool_iff in E1. congruence.
  - apply Qle_bool_iff in E2. rewrite <- Hx, <- Hn in E2. apply Qle_bool_iff in E2. congruence.
Qed.

Lemma argmin_scale a l : 0 < a -> argmin_idx (map (Qmult a) l) = argmin_idx l.
Proof.
  intros Ha. rewrite <- (map_id l) at 2. apply argmin_order_ext. intros x y _ _. split; intros H; nra.
Qed.
