(* C05 - the three modelled objective scalers are increasing on their own sample (weakly, and strictly for distinct values):
   the hypothesis the exploitation theorems put on the scaler holds for the models of identity, minmax, quantile-uniform. *)
From Coq Require Import List ZArith QArith Qabs Bool Arith Lia Lqa.
Import ListNotations.
Require Import DH.C05_Direction.Model DH.C05_Direction.LemmasBasic DH.C05_Direction.LemmasVec.
Open Scope Q_scope.

(* ---------- counting ---------- *)
Lemma count_imp (p q : Q -> bool) ys :
  (forall x, In x ys -> p x = true -> q x = true) -> (count p ys <= count q ys)%Z.
Proof.
  unfold count. intros H. apply inj_le. induction ys as [|x t IH]; [cbn; lia|].
  cbn [filter]. assert (IH' : (length (filter p t) <= length (filter q t))%nat) by (apply IH; intros; apply H; [right|]; assumption).
  destruct (p x) eqn:Ep.
  - rewrite (H x (or_introl eq_refl) Ep). cbn [length]. lia.
  - destruct (q x); cbn [length]; lia.
Qed.

Lemma count_imp_strict (p q : Q -> bool) ys y :
  (forall x, In x ys -> p x = true -> q x = true) -> In y ys -> p y = false -> q y = true ->
  (count p ys + 1 <= count q ys)%Z.
Proof.
  unfold count. intros H Hin Hp Hq.
  assert (G : (length (filter p ys) + 1 <= length (filter q ys))%nat).
  { induction ys as [|x t IH]; [contradiction|]. cbn [filter].
    assert (Hw : (length (filter p t) <= length (filter q t))%nat).
    { pose proof (count_imp p q t (fun x0 Hx0 => H x0 (or_intror Hx0))) as Hc. unfold count in Hc. lia. }
    destruct Hin as [->|Hin].
    - rewrite Hp, Hq. cbn [length]. lia.
    - specialize (IH (fun x0 Hx0 => H x0 (or_intror Hx0)) Hin).
      destruct (p x) eqn:Ep; [rewrite (H x (or_introl eq_refl) Ep); cbn [length]; lia|].
      destruct (q x); cbn [length]; lia. }
  lia.
Qed.

Lemma count_len (p : Q -> bool) ys : (count p ys <= Z.of_nat (length ys))%Z.
Proof.
  unfold count. apply inj_le. induction ys as [|x t IH]; [cbn; lia|]. cbn [filter]. destruct (p x); cbn [length]; lia.
Qed.

Lemma count_nonneg (p : Q -> bool) ys : (0 <= count p ys)%Z.
Proof. unfold count. lia. Qed.

Definition LT (ys : list Q) (y : Q) : Z := count (fun x => qltb x y) ys.
Definition LE (ys : list Q) (y : Q) : Z := count (fun x => Qle_bool x y) ys.

Lemma LT_mono ys a b : a <= b -> (LT ys a <= LT ys b)%Z.
Proof. intros H. apply count_imp. intros x _ Hx. apply qltb_iff in Hx. apply qltb_iff. lra. Qed.
Lemma LE_mono ys a b : a <= b -> (LE ys a <= LE ys b)%Z.
Proof. intros H. apply count_imp. intros x _ Hx. apply Qle_bool_iff in Hx. apply Qle_bool_iff. lra. Qed.
Lemma LE_LT ys a b : a < b -> (LE ys a <= LT ys b)%Z.
Proof. intros H. apply count_imp. intros x _ Hx. apply Qle_bool_iff in Hx. apply qltb_iff. lra. Qed.
Lemma LT_LE_strict ys y : In y ys -> (LT ys y + 1 <= LE ys y)%Z.
Proof.
  intros H. apply (count_imp_strict _ _ ys y); [|exact H| |].
  - intros x _ Hx. apply qltb_iff in Hx. apply Qle_bool_iff. lra.
  - apply qltb_false_iff. lra.
  - apply Qle_bool_iff. lra.
Qed.
Lemma LE_len ys y : (LE ys y <= Z.of_nat (length ys))%Z.
Proof. apply count_len. Qed.

(* ---------- fractions of integers ---------- *)
Lemma zfrac_le x y d : (0 <= d)%Z -> (x <= y)%Z -> inject_Z x / inject_Z d <= inject_Z y / inject_Z d.
Proof.
  intros Hd H. unfold Qdiv. assert (Hi : 0 <= / inject_Z d).
  { apply Qinv_le_0_compat. pose proof Hd as Hd'. rewrite Zle_Qle in Hd'. exact Hd'. }
  assert (Hxy : inject_Z x <= inject_Z y) by (rewrite <- Zle_Qle; exact H). nra.
Qed.
Lemma zfrac_lt x y d : (0 < d)%Z -> (x < y)%Z -> inject_Z x / inject_Z d < inject_Z y / inject_Z d.
Proof.
  intros Hd H. unfold Qdiv. assert (Hi : 0 < / inject_Z d).
  { apply Qinv_lt_0_compat. pose proof Hd as Hd'. rewrite Zlt_Qlt in Hd'. exact Hd'. }
  assert (Hxy : inject_Z x < inject_Z y) by (rewrite <- Zlt_Qlt; exact H). nra.
Qed.
Lemma zfrac_nonneg x d : (0 <= d)%Z -> (0 <= x)%Z -> 0 <= inject_Z x / inject_Z d.
Proof.
  intros Hd Hx. unfold Qdiv. assert (Hi : 0 <= / inject_Z d).
  { apply Qinv_le_0_compat. pose proof Hd as Hd'. rewrite Zle_Qle in Hd'. exact Hd'. }
  assert (H0 : 0 <= inject_Z x) by (pose proof Hx as Hx'; rewrite Zle_Qle in Hx'; exact Hx'). nra.
Qed.
Lemma zfrac_le1 x d : (0 <= d)%Z -> (x <= d)%Z -> inject_Z x / inject_Z d <= 1.
Proof.
  intros Hd Hx. destruct (Z.eq_dec d 0) as [->|Hn].
  - unfold Qdiv. cbn. lra.
  - pose proof (zfrac_le x d d Hd Hx) as H. assert (E : inject_Z d / inject_Z d == 1).
    { field. intros H0. apply Hn. apply inject_Z_injective. exact H0. }
    lra.
Qed.
Lemma zfrac_lt1 x d : (0 < d)%Z -> (x < d)%Z -> inject_Z x / inject_Z d < 1.
Proof.
  intros Hd Hx. pose proof (zfrac_lt x d d Hd Hx) as H. assert (E : inject_Z d / inject_Z d == 1).
  { field. intros H0. assert (d = 0)%Z by (apply inject_Z_injective; exact H0). lia. }
  lra.
Qed.
Lemma zfrac_pos x d : (0 < d)%Z -> (0 < x)%Z -> 0 < inject_Z x / inject_Z d.
Proof.
  intros Hd Hx. unfold Qdiv. assert (Hi : 0 < / inject_Z d).
  { apply Qinv_lt_0_compat. pose proof Hd as Hd'. rewrite Zlt_Qlt in Hd'. exact Hd'. }
  assert (H0 : 0 < inject_Z x) by (pose proof Hx as Hx'; rewrite Zlt_Qlt in Hx'; exact Hx'). nra.
Qed.

(* ---------- the scalers ---------- *)
Definition IncOn (f : Q -> Q) (ys : list Q) : Prop :=
  forall a b, In a ys -> In b ys -> (a <= b -> f a <= f b) /\ (a < b -> f a < f b).

Lemma id_inc ys : IncOn (scale_col ScId ys) ys.
Proof. intros a b _ _. cbn [scale_col]. split; intros; lra. Qed.

Lemma minmax_inc ys : IncOn (scale_col ScMinMax ys) ys.
Proof.
  intros a b Ha Hb. cbn [scale_col]. unfold minmax_col. cbv zeta.
  pose proof (qminl_lb ys a Ha). pose proof (qmaxl_ub ys a Ha).
  destruct (Qeq_bool (qmaxl ys) (qminl ys)) eqn:B; [split; intros; lra|].
  apply Qeq_bool_neq in B. assert (Hd : 0 < qmaxl ys - qminl ys).
  { destruct (Qlt_le_dec (qminl ys) (qmaxl ys)) as [Hl|Hg]; [lra|]. exfalso. apply B. lra. }
  assert (Hi : 0 < / (qmaxl ys - qminl ys)) by (apply Qinv_lt_0_compat; exact Hd).
  unfold Qdiv. split; intros; nra.
Qed.

Lemma Qeq_bool_false a b : Qeq_bool a b = false -> ~ a == b.
Proof. apply Qeq_bool_neq. Qed.

Lemma quantile_inc ys : IncOn (scale_col ScQuantile ys) ys.
Proof.
  intros a b Ha Hb. cbn [scale_col]. unfold quantile_col. fold (LT ys a) (LE ys a) (LT ys b) (LE ys b).
  pose proof (qminl_lb ys a Ha) as Hla. pose proof (qmaxl_ub ys a Ha) as Hua.
  pose proof (qminl_lb ys b Hb) as Hlb. pose proof (qmaxl_ub ys b Hb) as Hub.
  pose proof (LT_LE_strict ys a Ha) as Sa. pose proof (LT_LE_strict ys b Hb) as Sb.
  pose proof (LE_len ys a) as Na. pose proof (LE_len ys b) as Nb.
  pose proof (count_nonneg (fun x => qltb x a) ys) as Pa. fold (LT ys a) in Pa.
  pose proof (count_nonneg (fun x => qltb x b) ys) as Pb. fold (LT ys b) in Pb.
  set (n := Z.of_nat (length ys)) in *.
  assert (Hn : (1 <= n)%Z) by lia.
  destruct (Qeq_bool a (qminl ys)) eqn:Amin.
  - (* a is the minimum: value 0 *)
    apply Qeq_bool_iff in Amin. destruct (Qeq_bool b (qminl ys)) eqn:Bmin.
    + apply Qeq_bool_iff in Bmin. split; intros; lra.
    + apply Qeq_bool_false in Bmin. destruct (Qeq_bool b (qmaxl ys)) eqn:Bmax; [split; intros; lra|].
      assert (Hab : a < b) by (destruct (Qlt_le_dec a b) as [L|G]; [exact L|exfalso; apply Bmin; lra]).
      pose proof (LE_LT ys a b Hab) as H1.
      assert (Hp : 0 < inject_Z (LT ys b + LE ys b - 1) / inject_Z (2 * (n - 1))) by (apply zfrac_pos; lia).
      split; intros; lra.
  - apply Qeq_bool_false in Amin. destruct (Qeq_bool b (qminl ys)) eqn:Bmin.
    + (* b is the minimum and a is not: a > b *)
      apply Qeq_bool_iff in Bmin. split; intros Hab; exfalso; apply Amin; lra.
    + apply Qeq_bool_false in Bmin. destruct (Qeq_bool a (qmaxl ys)) eqn:Amax.
      * apply Qeq_bool_iff in Amax. destruct (Qeq_bool b (qmaxl ys)) eqn:Bmax; [split; intros; lra|].
        apply Qeq_bool_false in Bmax. split; intros Hab; exfalso; apply Bmax; lra.
      * apply Qeq_bool_false in Amax. destruct (Qeq_bool b (qmaxl ys)) eqn:Bmax.
        -- (* a interior, b the maximum: value of a below 1 *)
           apply Qeq_bool_iff in Bmax.
           assert (Hab : a < b) by (destruct (Qlt_le_dec a b) as [L|G]; [exact L|exfalso; apply Amax; lra]).
           pose proof (LE_LT ys a b Hab) as H1.
           assert (Hp : inject_Z (LT ys a + LE ys a - 1) / inject_Z (2 * (n - 1)) < 1) by (apply zfrac_lt1; lia).
           split; intros; lra.
        -- (* both interior *)
           split; intros Hab.
           ++ apply zfrac_le; [lia|]. pose proof (LT_mono ys a b Hab). pose proof (LE_mono ys a b Hab). lia.
           ++ pose proof (LE_LT ys a b Hab) as H1. apply zfrac_lt; lia.
Qed.

Lemma scale_col_inc sk ys : IncOn (scale_col sk ys) ys.
Proof. destruct sk; [apply id_inc|apply minmax_inc|apply quantile_inc]. Qed.
