(* C05 - basic facts: max/min of lists, negation duality, argmin. *)
From Coq Require Import List ZArith QArith Qabs Bool Arith Lia Lqa.
Import ListNotations.
Require Import DH.C05_Direction.Model.
Open Scope Q_scope.

Lemma qltb_iff a b : qltb a b = true <-> a < b.
Proof.
  unfold qltb. rewrite negb_true_iff. split.
  - intros H. apply Qnot_le_lt. intros Hle. apply Qle_bool_iff in Hle. congruence.
  - intros H. destruct (Qle_bool b a) eqn:E; [|reflexivity]. apply Qle_bool_iff in E. lra.
Qed.

Lemma qltb_false_iff a b : qltb a b = false <-> b <= a.
Proof.
  split; intros H.
  - destruct (Qlt_le_dec a b) as [Hlt|Hle]; [apply qltb_iff in Hlt; congruence|exact Hle].
  - destruct (qltb a b) eqn:E; [apply qltb_iff in E; lra|reflexivity].
Qed.

Lemma Qle_bool_false_iff a b : Qle_bool a b = false <-> b < a.
Proof.
  split; intros H.
  - apply Qnot_le_lt. intros Hle. apply Qle_bool_iff in Hle. congruence.
  - destruct (Qle_bool a b) eqn:E; [apply Qle_bool_iff in E; lra|reflexivity].
Qed.

Lemma qmax_spec a b : (a <= b /\ qmax a b = b) \/ (b < a /\ qmax a b = a).
Proof.
  unfold qmax. destruct (Qle_bool a b) eqn:E.
  - left. split; [apply Qle_bool_iff; exact E|reflexivity].
  - right. split; [apply Qle_bool_false_iff; exact E|reflexivity].
Qed.

Lemma qmin_spec a b : (a <= b /\ qmin a b = a) \/ (b < a /\ qmin a b = b).
Proof.
  unfold qmin. destruct (Qle_bool a b) eqn:E.
  - left. split; [apply Qle_bool_iff; exact E|reflexivity].
  - right. split; [apply Qle_bool_false_iff; exact E|reflexivity].
Qed.

Lemma qmaxl_cons x y t : qmaxl (x :: y :: t) = qmax x (qmaxl (y :: t)).
Proof. reflexivity. Qed.
Lemma qminl_cons x y t : qminl (x :: y :: t) = qmin x (qminl (y :: t)).
Proof. reflexivity. Qed.

Lemma qmaxl_ub l : forall x, In x l -> x <= qmaxl l.
Proof.
  induction l as [|a t IH]; intros x Hin; [contradiction|].
  destruct t as [|b t'].
  - destruct Hin as [->|[]]. cbn. lra.
  - rewrite qmaxl_cons. destruct (qmax_spec a (qmaxl (b :: t'))) as [[H1 ->]|[H1 ->]];
      destruct Hin as [->|Hin]; try lra; specialize (IH x Hin); lra.
Qed.

Lemma qminl_lb l : forall x, In x l -> qminl l <= x.
Proof.
  induction l as [|a t IH]; intros x Hin; [contradiction|].
  destruct t as [|b t'].
  - destruct Hin as [->|[]]. cbn. lra.
  - rewrite qminl_cons. destruct (qmin_spec a (qminl (b :: t'))) as [[H1 ->]|[H1 ->]];
      destruct Hin as [->|Hin]; try lra; specialize (IH x Hin); lra.
Qed.

Lemma qmaxl_in l : l <> [] -> In (qmaxl l) l.
Proof.
  induction l as [|a t IH]; intros Hne; [congruence|].
  destruct t as [|b t'].
  - left. reflexivity.
  - rewrite qmaxl_cons. destruct (qmax_spec a (qmaxl (b :: t'))) as [[_ ->]|[_ ->]].
    + right. apply IH. discriminate.
    + left. reflexivity.
Qed.

Lemma qminl_in l : l <> [] -> In (qminl l) l.
Proof.
  induction l as [|a t IH]; intros Hne; [congruence|].
  destruct t as [|b t'].
  - left. reflexivity.
  - rewrite qminl_cons. destruct (qmin_spec a (qminl (b :: t'))) as [[_ ->]|[_ ->]].
    + left. reflexivity.
    + right. apply IH. discriminate.
Qed.

(* characterisation up to == *)
Lemma qmaxl_char l a : In a l -> (forall x, In x l -> x <= a) -> qmaxl l == a.
Proof.
  intros Hin Hub. assert (Hne : l <> []) by (destruct l; [contradiction|discriminate]).
  pose proof (qmaxl_ub l a Hin). pose proof (Hub _ (qmaxl_in l Hne)). lra.
Qed.

Lemma qminl_char l a : In a l -> (forall x, In x l -> a <= x) -> qminl l == a.
Proof.
  intros Hin Hlb. assert (Hne : l <> []) by (destruct l; [contradiction|discriminate]).
  pose proof (qminl_lb l a Hin). pose proof (Hlb _ (qminl_in l Hne)). lra.
Qed.

(* ---- negation duality ---- *)
Lemma qmaxl_neg l : qmaxl (map Qopp l) == - qminl l.
Proof.
  destruct l as [|a t] eqn:El; [cbn; lra|]. rewrite <- El.
  assert (Hne : l <> []) by (subst; discriminate).
  apply qmaxl_char.
  - apply in_map. apply qminl_in. exact Hne.
  - intros x Hx. apply in_map_iff in Hx as [z [<- Hz]]. pose proof (qminl_lb l z Hz). lra.
Qed.

Lemma qminl_neg l : qminl (map Qopp l) == - qmaxl l.
Proof.
  destruct l as [|a t] eqn:El; [cbn; lra|]. rewrite <- El.
  assert (Hne : l <> []) by (subst; discriminate).
  apply qminl_char.
  - apply in_map. apply qmaxl_in. exact Hne.
  - intros x Hx. apply in_map_iff in Hx as [z [<- Hz]]. pose proof (qmaxl_ub l z Hz). lra.
Qed.

Lemma qsum_neg l : qsum (map Qopp l) == - qsum l.
Proof. induction l as [|a t IH]; cbn [map qsum]; [lra|rewrite IH; ring]. Qed.

Lemma qmean_neg l : qmean (map Qopp l) == - qmean l.
Proof. unfold qmean, qlen. rewrite map_length, qsum_neg. unfold Qdiv. ring. Qed.

(* ---- argmin ---- *)
Lemma argmin_spec l : l <> [] ->
  (argmin_idx l < length l)%nat /\ forall x, In x l -> nth (argmin_idx l) l 0 <= x.
Proof.
  induction l as [|a t IH]; intros Hne; [congruence|].
  destruct t as [|b t'].
  - cbn. split; [lia|]. intros x [->|[]]. lra.
  - assert (Hne' : b :: t' <> []) by discriminate. destruct (IH Hne') as [Hlt Hmin].
    change (argmin_idx (a :: b :: t')) with
      (let j := argmin_idx (b :: t') in if Qle_bool a (nth j (b :: t') 0) then O else S j).
    cbv zeta. destruct (Qle_bool a (nth (argmin_idx (b :: t')) (b :: t') 0)) eqn:E.
    + apply Qle_bool_iff in E. split; [cbn; lia|]. intros x [->|Hin]; cbn [nth]; [lra|].
      specialize (Hmin x Hin). lra.
    + apply Qle_bool_false_iff in E. split; [cbn [length] in *; lia|].
      intros x [->|Hin]; [apply Qlt_le_weak; exact E|]. apply (Hmin x Hin).
Qed.

(* every earlier element is strictly larger: the FIRST minimum *)
Lemma argmin_first l : forall j, (j < argmin_idx l)%nat -> nth (argmin_idx l) l 0 < nth j l 0.
Proof.
  induction l as [|a t IH]; intros j Hj; [cbn in Hj; lia|].
  destruct t as [|b t']; [cbn in Hj; lia|].
  change (argmin_idx (a :: b :: t')) with
    (let j := argmin_idx (b :: t') in if Qle_bool a (nth j (b :: t') 0) then O else S j) in *.
  cbv zeta in *. destruct (Qle_bool a (nth (argmin_idx (b :: t')) (b :: t') 0)) eqn:E; [lia|].
  apply Qle_bool_false_iff in E. destruct j as [|j']; cbn [nth]; [exact E|].
  apply IH. lia.
Qed.

Lemma nth_map_in {A} (f : A -> Q) (cs : list A) (d : A) j :
  (j < length cs)%nat -> nth j (map f cs) 0 = f (nth j cs d).
Proof. intros H. rewrite (nth_indep _ 0 (f d)); [apply map_nth|rewrite map_length; exact H]. Qed.

(* two score functions that order the candidates in the same way select the same index *)
Lemma argmin_order_ext {A} (f g : A -> Q) (cs : list A) :
  (forall x y, In x cs -> In y cs -> (f x <= f y <-> g x <= g y)) ->
  argmin_idx (map f cs) = argmin_idx (map g cs).
Proof.
  induction cs as [|a t IH]; intros H; [reflexivity|].
  destruct t as [|b t']; [reflexivity|].
  assert (IH' : argmin_idx (map f (b :: t')) = argmin_idx (map g (b :: t'))).
  { apply IH. intros x y Hx Hy. apply H; right; assumption. }
  cbn [map] in *.
  change (argmin_idx (f a :: f b :: map f t')) with
    (let j := argmin_idx (f b :: map f t') in if Qle_bool (f a) (nth j (f b :: map f t') 0) then O else S j).
  change (argmin_idx (g a :: g b :: map g t')) with
    (let j := argmin_idx (g b :: map g t') in if Qle_bool (g a) (nth j (g b :: map g t') 0) then O else S j).
  cbv zeta. rewrite <- IH'. set (j := argmin_idx (f b :: map f t')).
  assert (Hj : (j < length (b :: t'))%nat).
  { pose proof (argmin_spec (map f (b :: t'))) as Hs. cbn [map] in Hs.
    destruct Hs as [Hs _]; [discriminate|]. cbn [length] in *. rewrite map_length in Hs. exact Hs. }
  change (f b :: map f t') with (map f (b :: t')). change (g b :: map g t') with (map g (b :: t')).
  rewrite (nth_map_in f (b :: t') a j Hj), (nth_map_in g (b :: t') a j Hj).
  assert (Hin : In (nth j (b :: t') a) (a :: b :: t')) by (right; apply nth_In; exact Hj).
  specialize (H a (nth j (b :: t') a) (or_introl eq_refl) Hin).
  destruct (Qle_bool (f a) (f (nth j (b :: t') a))) eqn:E1;
    destruct (Qle_bool (g a) (g (nth j (b :: t') a))) eqn:E2; try reflexivity.
  - apply Qle_bool_iff in E1. apply H in E1. apply Qle_bool_iff in E1. congruence.
  - apply Qle_bool_iff in E2. apply H in E2. apply Qle_bool_iff in E2. congruence.
Qed.

Lemma argmin_map_spec {A} (f : A -> Q) (cs : list A) (d : A) : cs <> [] ->
  let i := argmin_idx (map f cs) in
  In (nth i cs d) cs /\ forall c, In c cs -> f (nth i cs d) <= f c.
Proof.
  intros Hne i. assert (Hne' : map f cs <> []) by (destruct cs; [congruence|discriminate]).
  destruct (argmin_spec (map f cs) Hne') as [Hlt Hmin]. rewrite map_length in Hlt.
  split; [apply nth_In; exact Hlt|]. intros c Hc.
  specialize (Hmin (f c) (in_map f cs c Hc)). fold i in Hmin. rewrite (nth_map_in f cs d i Hlt) in Hmin. exact Hmin.
Qed.
