(* C05 - one-shot batch "topk": the n selected candidates have the n smallest acquisition values; with an interpolating
   mean, kappa = 0 and an increasing scaler they are the n candidates with the largest objectives. *)
From Coq Require Import List ZArith QArith Qabs Bool Arith Lia Lqa Permutation.
Import ListNotations.
Require Import DH.C05_Direction.Model DH.C05_Direction.LemmasBasic DH.C05_Direction.LemmasSign.
Open Scope Q_scope.

Lemma remove_nth_length {A} i (l : list A) : (i < length l)%nat -> length (remove_nth i l) = (length l - 1)%nat.
Proof.
  revert i. induction l as [|x t IH]; intros i Hi; [cbn in Hi; lia|].
  destruct i as [|i']; cbn [remove_nth length]; [lia|]. cbn [length] in Hi. rewrite IH by lia. destruct t; cbn in *; lia.
Qed.

Lemma perm_remove_nth {A} i (l : list A) d : (i < length l)%nat -> Permutation l (nth i l d :: remove_nth i l).
Proof.
  revert i. induction l as [|x t IH]; intros i Hi; [cbn in Hi; lia|].
  destruct i as [|i']; cbn [remove_nth nth]; [apply Permutation_refl|].
  cbn [length] in Hi. eapply Permutation_trans; [apply perm_skip, (IH i'); lia|apply perm_swap].
Qed.

Lemma nth_map_snd (l : list (nat * Q)) i p0 : (i < length l)%nat -> nth i (map snd l) 0 = snd (nth i l p0).
Proof.
  intros H. rewrite (nth_indep _ 0 (snd p0)) by (rewrite map_length; exact H). apply map_nth.
Qed.

Lemma topk_pairs_spec n : forall l,
  exists rest, Permutation l (topk_pairs n l ++ rest)
               /\ length (topk_pairs n l) = Nat.min n (length l)
               /\ forall p q, In p (topk_pairs n l) -> In q rest -> snd p <= snd q.
Proof.
  induction n as [|n IH]; intros l.
  - exists l. cbn. repeat split; [apply Permutation_refl|intros p q []].
  - destruct l as [|p0 t] eqn:El; [exists []; cbn; repeat split; [constructor|intros p q []]|]. rewrite <- El.
    assert (Hne : map snd l <> []) by (subst; discriminate).
    destruct (argmin_spec (map snd l) Hne) as [Hlt Hmin]. rewrite map_length in Hlt.
    assert (E : topk_pairs (S n) l = nth (argmin_idx (map snd l)) l p0 :: topk_pairs n (remove_nth (argmin_idx (map snd l)) l))
      by (subst l; reflexivity).
    set (i := argmin_idx (map snd l)) in *.
    destruct (IH (remove_nth i l)) as (rest & Hp & Hlen & Hord).
    exists rest. rewrite E. split; [|split].
    + cbn [app]. eapply Permutation_trans; [apply (perm_remove_nth i l p0 Hlt)|]. apply perm_skip. exact Hp.
    + cbn [length]. rewrite Hlen, (remove_nth_length i l Hlt). lia.
    + intros p q [<-|Hin] Hq.
      * assert (Hql : In q l).
        { eapply Permutation_in; [apply Permutation_sym, (perm_remove_nth i l p0 Hlt)|]. right.
          eapply Permutation_in; [apply Permutation_sym, Hp|]. apply in_or_app. right. exact Hq. }
        specialize (Hmin (snd q) (in_map snd l q Hql)). rewrite (nth_map_snd l i p0 Hlt) in Hmin. exact Hmin.
      * apply Hord; assumption.
Qed.

Lemma indexed_in vals i v : In (i, v) (indexed vals) -> (i < length vals)%nat /\ nth i vals 0 = v.
Proof.
  assert (G : forall (l : list Q) s i, In (i, v) (combine (seq s (length l)) l) -> (s <= i < s + length l)%nat /\ nth (i - s) l 0 = v).
  { clear i. induction l as [|x t IH]; intros s i H; [contradiction|]. cbn [length seq combine] in H. destruct H as [H|H].
    - inversion H; subst. split; [cbn; lia|]. rewrite Nat.sub_diag. reflexivity.
    - destruct (IH (S s) i H) as [H1 H2]. split; [cbn [length]; lia|].
      replace (i - s)%nat with (S (i - S s)) by lia. exact H2. }
  intros H. destruct (G vals 0%nat i H) as [H1 H2]. rewrite Nat.sub_0_r in H2. split; [lia|exact H2].
Qed.

(* the batch in terms of the user's objectives *)
Section TopkExploit.
  Variable C : Type.
  Variables (obj mu sigma : C -> Q) (sc : Q -> Q) (kappa : Q).
  Hypothesis Hsc : forall x y, x < y -> sc x < sc y.
  Hypothesis Hk : kappa == 0.

  Lemma topk_largest cs d n :
    (forall c, In c cs -> mu c == sc (- obj c)) ->
    let vals := map2 (acq_lcb kappa) (map mu cs) (map sigma cs) in
    exists rest, Permutation (indexed vals) (topk_pairs n (indexed vals) ++ rest)
                 /\ length (topk n vals) = Nat.min n (length cs)
                 /\ forall p q, In p (topk_pairs n (indexed vals)) -> In q rest ->
                                obj (nth (fst q) cs d) <= obj (nth (fst p) cs d).
  Proof.
    intros Hint vals. unfold vals. rewrite map2_map.
    set (f := fun c => acq_lcb kappa (mu c) (sigma c)).
    destruct (topk_pairs_spec n (indexed (map f cs))) as (rest & Hp & Hlen & Hord).
    exists rest. split; [exact Hp|]. split.
    - unfold topk. rewrite map_length, Hlen. unfold indexed. rewrite combine_length, seq_length, map_length. lia.
    - intros [i v] [j u] Hi Hj. cbn [fst]. specialize (Hord _ _ Hi Hj). cbn [snd] in Hord.
      assert (Hil : In (i, v) (indexed (map f cs))) by (eapply Permutation_in; [apply Permutation_sym, Hp|apply in_or_app; left; exact Hi]).
      assert (Hjl : In (j, u) (indexed (map f cs))) by (eapply Permutation_in; [apply Permutation_sym, Hp|apply in_or_app; right; exact Hj]).
      apply indexed_in in Hil as [Li Ei]. apply indexed_in in Hjl as [Lj Ej]. rewrite map_length in Li, Lj.
      rewrite (nth_map_in f cs d i Li) in Ei. rewrite (nth_map_in f cs d j Lj) in Ej. subst v u.
      set (ci := nth i cs d) in *. set (cj := nth j cs d) in *.
      assert (Hci : In ci cs) by (apply nth_In; exact Li). assert (Hcj : In cj cs) by (apply nth_In; exact Lj).
      unfold f, acq_lcb in Hord. rewrite (Hint ci Hci), (Hint cj Hcj) in Hord.
      assert (Hz : kappa * sigma ci == 0 /\ kappa * sigma cj == 0) by (split; rewrite Hk; ring).
      destruct Hz as [Hz1 Hz2]. rewrite Hz1, Hz2 in Hord.
      destruct (Qlt_le_dec (obj ci) (obj cj)) as [Hlt|Hle]; [|exact Hle]. exfalso.
      assert (H1 : - obj cj < - obj ci) by lra. apply Hsc in H1. lra.
  Qed.
End TopkExploit.
