(* C05 - the max <-> min name tables of deephyper/hpo/_cbo.py (GENERATED facts) against the meaning of the names.
   Not extracted (strings).  This file is the only one that imports the generated facts. *)
From Coq Require Import List ZArith QArith Bool String.
Import ListNotations.
Require Import DH.Generated.Facts_C05.
Require Import DH.C05_Direction.Model DH.C05_Direction.LemmasSign.
Open Scope string_scope.

Fixpoint assoc (k : string) (t : list (string * string)) : option string :=
  match t with
  | [] => None
  | (k', v) :: t' => if String.eqb k k' then Some v else assoc k t'
  end.
(* MAP.get(name, name) *)
Definition resolve (t : list (string * string)) (k : string) : string :=
  match assoc k t with Some v => v | None => k end.

(* ---- meaning of the names on the optimizer side (minimisation), read off Optimizer.ask / _filter_failures / acquisition ---- *)
(* Optimizer.ask: if strategy == "cl_min" ... elif "cl_mean" ... else ("cl_max" is the only other constant-liar name) *)
Definition opt_lie_kind (s : string) : option lkind :=
  if String.eqb s "cl_min" then Some LMin else if String.eqb s "cl_mean" then Some LMean
  else if String.eqb s "cl_max" then Some LMax else None.
(* Optimizer._filter_failures: in ["mean","max"]: "mean" -> mean, else max; any other policy leaves the list unchanged *)
Definition opt_fpol (s : string) : fpol :=
  if String.eqb s "mean" then PMean else if String.eqb s "max" then PMax else POther.
(* acquisition names of the optimizer that denote the lower confidence bound mu - kappa*sigma, minimised *)
Definition opt_is_lcb (s : string) : bool := String.eqb s "LCB" || String.eqb s "LCBd" || String.eqb s "qLCB" || String.eqb s "qLCBd".

(* ---- meaning of the names on the user's side (maximisation), from the documentation of CBO ---- *)
Definition user_lies : list (string * lkind) := [("cl_min", LMin); ("cl_mean", LMean); ("cl_max", LMax)].
Definition user_fills : list (string * upol) := [("min", UMin); ("mean", UMean)].
Definition user_ucb : list string := ["UCB"; "UCBd"].
Definition user_qucb : list string := ["qUCB"; "qUCBd"].
(* names whose meaning does not depend on the direction once the objective is negated (EI/PI: improve_dual) *)
Definition user_same_acq : list string := ["EI"; "PI"; "MES"; "gp_hedge"; "EId"; "PId"; "MESd"; "gp_hedged"].
Definition user_same_strategy : list string := ["topk"; "boltzmann"].

Definition names_ok : bool :=
  srcfacts_ok
  && forallb (fun p => match opt_lie_kind (resolve map_multi_point_strategy (fst p)) with
                       | Some k => match k, dual (snd p) with LMin, LMin | LMean, LMean | LMax, LMax => true | _, _ => false end
                       | None => false end) user_lies
  && forallb (fun p => match opt_fpol (resolve map_filter_failures (fst p)), upol_to_opt (snd p) with
                       | PMean, PMean | PMax, PMax => true | _, _ => false end) user_fills
  && match opt_fpol (resolve map_filter_failures "ignore") with POther => true | _ => false end
  && forallb (fun s => opt_is_lcb (resolve map_acq_func s)) user_ucb
  && forallb (fun s => opt_is_lcb (resolve map_multi_point_strategy s)) user_qucb
  && forallb (fun s => String.eqb (resolve map_acq_func s) s) user_same_acq
  && forallb (fun s => String.eqb (resolve map_multi_point_strategy s) s) user_same_strategy
  (* every name CBO accepts has a declared meaning above (a newly accepted name fails closed) *)
  && forallb (fun s => existsb (String.eqb s) (map fst user_lies ++ user_qucb ++ user_same_strategy)) cbo_multi_point_strategy_allowed
  && forallb (fun s => existsb (String.eqb s) (user_ucb ++ user_same_acq)) cbo_acq_func_allowed.

(* the proof obligation that consumes the generated facts: a changed table entry makes this fail *)
Lemma names_ok_true : names_ok = true.
Proof. vm_compute. reflexivity. Qed.

Lemma lkind_match k k' :
  match k, k' with LMin, LMin | LMean, LMean | LMax, LMax => true | _, _ => false end = true -> k = k'.
Proof. destruct k, k'; intros H; try reflexivity; discriminate. Qed.

Lemma name_maps :
  srcfacts_ok = true
  /\ (forall s k, In (s, k) user_lies ->
        opt_lie_kind (resolve map_multi_point_strategy s) = Some (dual k)
        /\ forall ys, (- lie (dual k) (map Qopp ys) == lie k ys)%Q)
  /\ (forall s p, In (s, p) user_fills ->
        opt_fpol (resolve map_filter_failures s) = upol_to_opt p
        /\ forall good, (- fill_value (upol_to_opt p) (map Qopp good) == fill_user p good)%Q)
  /\ opt_fpol (resolve map_filter_failures "ignore") = POther
  /\ (forall s, In s user_ucb -> opt_is_lcb (resolve map_acq_func s) = true)
  /\ (forall s, In s user_qucb -> opt_is_lcb (resolve map_multi_point_strategy s) = true)
  /\ (forall kappa mu sigma, (acq_lcb kappa (- mu) sigma == - ucb kappa mu sigma)%Q)
  /\ (forall s, In s user_same_acq -> resolve map_acq_func s = s)
  /\ (forall s, In s user_same_strategy -> resolve map_multi_point_strategy s = s)
  /\ (forall best xi mu, (improve_min (- best) xi (- mu) == improve_max best xi mu)%Q)
  /\ (forall s, In s cbo_multi_point_strategy_allowed -> In s (map fst user_lies ++ user_qucb ++ user_same_strategy))
  /\ (forall s, In s cbo_acq_func_allowed -> In s (user_ucb ++ user_same_acq)).
Proof.
  pose proof names_ok_true as H. unfold names_ok in H.
  repeat (apply andb_true_iff in H; destruct H as [H ?]).
  rename H into Hok.
  match goal with
  | [ H1 : forallb _ user_lies = true, H2 : forallb _ user_fills = true, H3 : match opt_fpol _ with _ => _ end = true,
      H4 : forallb _ user_ucb = true, H5 : forallb _ user_qucb = true, H6 : forallb _ user_same_acq = true,
      H7 : forallb _ user_same_strategy = true, H8 : forallb _ cbo_multi_point_strategy_allowed = true,
      H9 : forallb _ cbo_acq_func_allowed = true |- _ ] =>
      rewrite forallb_forall in H1, H2, H4, H5, H6, H7;
      rename H1 into Hl; rename H2 into Hf; rename H3 into Hi; rename H4 into Hu; rename H5 into Hq;
      rename H6 into Ha; rename H7 into Hs; rename H8 into Hall1; rename H9 into Hall2
  end.
  assert (EqIn : forall s l, existsb (String.eqb s) l = true -> In s l).
  { intros s l E. apply existsb_exists in E as [x [Hx E]]. apply String.eqb_eq in E. subst. exact Hx. }
  split; [exact Hok|]. split; [|split; [|split; [|split; [|split; [|split; [|split; [|split; [|split; [|split]]]]]]]]].
  - intros s k Hin. specialize (Hl (s, k) Hin). cbn [fst snd] in Hl. split; [|intros ys; apply lie_dual].
    destruct (opt_lie_kind (resolve map_multi_point_strategy s)) as [k'|]; [|discriminate].
    apply lkind_match in Hl. congruence.
  - intros s p Hin. specialize (Hf (s, p) Hin). cbn [fst snd] in Hf. split; [|intros good; apply fill_dual].
    destruct (opt_fpol (resolve map_filter_failures s)), (upol_to_opt p); try reflexivity; discriminate.
  - destruct (opt_fpol (resolve map_filter_failures "ignore")); try discriminate. reflexivity.
  - exact Hu.
  - exact Hq.
  - intros. apply lcb_ucb.
  - intros s Hin. apply String.eqb_eq. apply Ha. exact Hin.
  - intros s Hin. apply String.eqb_eq. apply Hs. exact Hin.
  - intros. apply improve_dual.
  - intros s Hin. apply EqIn. rewrite forallb_forall in Hall1. apply Hall1. exact Hin.
  - intros s Hin. apply EqIn. rewrite forallb_forall in Hall2. apply Hall2. exact Hin.
Qed.
