(* C05 - the sign chain: negation in CBO._tell, lies, failure imputation, acquisition, exploitation step. *)
From Coq Require Import List ZArith QArith Qabs Bool Arith Lia Lqa.
Import ListNotations.
Require Import DH.C05_Direction.Model DH.C05_Direction.LemmasBasic.
Open Scope Q_scope.

(* ---- lies: the optimizer's lie on negated values is the negated user-level lie of the dual kind ---- *)
Lemma lie_dual k ys : - lie (dual k) (map Qopp ys) == lie k ys.
Proof.
  destruct ys as [|a t]; [cbn; lra|].
  assert (E : forall kk, lie kk (a :: t) = match kk with LMin => qminl (a :: t) | LMean => qmean (a :: t) | LMax => qmaxl (a :: t) end)
    by reflexivity.
  assert (E' : forall kk, lie kk (map Qopp (a :: t)) =
     match kk with LMin => qminl (map Qopp (a :: t)) | LMean => qmean (map Qopp (a :: t)) | LMax => qmaxl (map Qopp (a :: t)) end)
    by reflexivity.
  rewrite E, E'. destruct k; cbn [dual].
  - rewrite qmaxl_neg. ring.
  - rewrite qmean_neg. ring.
  - rewrite qminl_neg. ring.
Qed.

Lemma col_vneg j Y : col j (map vneg Y) = map Qopp (col j Y).
Proof.
  unfold col. rewrite !map_map. apply map_ext. intros r. unfold vneg.
  change 0 with (Qopp 0) at 1. apply map_nth.
Qed.

Lemma lie_vec_dual k m Y :
  Forall2 Qeq (vneg (lie_vec (dual k) m (map vneg Y))) (lie_vec k m Y).
Proof.
  unfold lie_vec, vneg. rewrite map_map. induction (seq 0 m) as [|j t IH]; cbn [map]; constructor; [|exact IH].
  rewrite col_vneg. apply lie_dual.
Qed.

(* ---- failure imputation ---- *)
Definition omap_neg (ys : list (option Q)) : list (option Q) := map (option_map Qopp) ys.

Lemma goods_neg ys : goods (omap_neg ys) = map Qopp (goods ys).
Proof.
  unfold goods, omap_neg. induction ys as [|o t IH]; [reflexivity|].
  cbn [map flat_map]. rewrite IH. destruct o; reflexivity.
Qed.

Lemma fill_dual p good : - fill_value (upol_to_opt p) (map Qopp good) == fill_user p good.
Proof.
  destruct good as [|a t]; [cbn; destruct p; cbn; lra|].
  destruct p; cbn [upol_to_opt fill_value fill_user map].
  - change (Qopp a :: map Qopp t) with (map Qopp (a :: t)). rewrite qmaxl_neg. ring.
  - change (Qopp a :: map Qopp t) with (map Qopp (a :: t)). rewrite qmean_neg. ring.
Qed.

(* imputation keeps the numeric values and only replaces failures *)
Lemma impute_spec p ys : p <> POther ->
  impute p ys = map (fun o => match o with Some v => Some v | None => Some (fill_value p (goods ys)) end) ys.
Proof. destruct p; intros H; [reflexivity|reflexivity|congruence]. Qed.

Lemma impute_other ys : impute POther ys = ys.
Proof. reflexivity. Qed.

(* the worst told value ("max" policy) is never better than any observed one: a failure is never preferred *)
Lemma fill_max_worst good x : In x good -> x <= fill_value PMax good.
Proof. intros H. destruct good as [|a t]; [contradiction|]. cbn [fill_value]. apply qmaxl_ub. exact H. Qed.

(* ---- acquisition ---- *)
Lemma lcb_ucb kappa mu sigma : acq_lcb kappa (- mu) sigma == - ucb kappa mu sigma.
Proof. unfold acq_lcb, ucb. ring. Qed.

Lemma improve_dual best xi mu : improve_min (- best) xi (- mu) == improve_max best xi mu.
Proof. unfold improve_min, improve_max. ring. Qed.

(* EI and PI are functions of (improve, sigma) only; [F] stands for  improve*Phi(improve/s) + s*phi(improve/s)  or Phi(improve/s) *)
Lemma ei_pi_dual (F : Q -> Q -> Q) best xi mu sigma :
  (forall a b s, a == b -> F a s == F b s) ->
  - F (improve_min (- best) xi (- mu)) sigma == - F (improve_max best xi mu) sigma.
Proof. intros HF. rewrite (HF _ _ sigma (improve_dual best xi mu)). reflexivity. Qed.

(* ---- CBO._tell ---- *)
Lemma cbo_tell_in ignore jobs c y :
  In (c, TVal y) (cbo_tell ignore jobs) <-> exists v, In (c, Some v) jobs /\ y = vneg v.
Proof.
  unfold cbo_tell. rewrite in_flat_map. split.
  - intros [[c' o] [Hin Hx]]. cbn [fst snd] in Hx. destruct o as [v|].
    + destruct Hx as [Hx|[]]. inversion Hx; subst. exists v. auto.
    + destruct ignore; [contradiction|]. destruct Hx as [Hx|[]]. discriminate.
  - intros [v [Hin ->]]. exists (c, Some v). split; [exact Hin|]. left. reflexivity.
Qed.

Lemma cbo_tell_fail ignore jobs c :
  In (c, TFail) (cbo_tell ignore jobs) <-> ignore = false /\ In (c, None) jobs.
Proof.
  unfold cbo_tell. rewrite in_flat_map. split.
  - intros [[c' o] [Hin Hx]]. cbn [fst snd] in Hx. destruct o as [v|].
    + destruct Hx as [Hx|[]]. discriminate.
    + destruct ignore; [contradiction|]. destruct Hx as [Hx|[]]. inversion Hx; subst. auto.
  - intros [-> Hin]. exists (c, None). split; [exact Hin|]. left. reflexivity.
Qed.

(* negation reverses the order of single objectives: a larger objective is a smaller told value *)
Lemma neg_reverses a b : a < b <-> - b < - a.
Proof. split; intros; lra. Qed.

(* ---- exploitation step, single objective ---- *)
Lemma map2_map {A} (f : Q -> Q -> Q) (g h : A -> Q) cs :
  map2 f (map g cs) (map h cs) = map (fun c => f (g c) (h c)) cs.
Proof. induction cs as [|a t IH]; [reflexivity|]. cbn [map map2]. rewrite IH. reflexivity. Qed.

Section Exploit.
  Variable C : Type.
  Variables (obj mu sigma : C -> Q) (sc : Q -> Q) (kappa : Q).
  Hypothesis Hsc : forall x y, x < y -> sc x < sc y.
  Hypothesis Hk : kappa == 0.

  Lemma exploit_picks_max cs d : cs <> [] ->
    (forall c, In c cs -> mu c == sc (- obj c)) ->
    let x := nth (next_idx kappa (map mu cs) (map sigma cs)) cs d in
    In x cs /\ forall c, In c cs -> obj c <= obj x.
  Proof.
    intros Hne Hint. cbv zeta. unfold next_idx. rewrite map2_map.
    destruct (argmin_map_spec (fun c => acq_lcb kappa (mu c) (sigma c)) cs d Hne) as [Hin Hmin].
    set (x := nth _ cs d) in *. split; [exact Hin|]. intros c Hc.
    specialize (Hmin c Hc). cbv beta in Hmin. unfold acq_lcb in Hmin.
    rewrite (Hint c Hc), (Hint x Hin) in Hmin.
    destruct (Qlt_le_dec (obj x) (obj c)) as [Hlt|Hle]; [|exact Hle]. exfalso.
    assert (H1 : - obj c < - obj x) by lra. apply Hsc in H1.
    assert (Hz : kappa * sigma x == 0 /\ kappa * sigma c == 0) by (split; rewrite Hk; ring).
    destruct Hz as [Hz1 Hz2]. rewrite Hz1, Hz2 in Hmin. lra.
  Qed.
End Exploit.
