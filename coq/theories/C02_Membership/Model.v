(* C02 - every proposed configuration is a member of the declared search space.
   Executable model, NO proofs.  Built on the shared dimension model of C09 (DH.C09_Transforms.Dims / Model):
   dimensions, membership [in_dim]/[in_space], the per-cell inverse transform [inv_cell] (REPAIRED code: Real clips,
   fixes/F02) and [inverse_row]; every numeric step of the code is an oracle (Section variables R, lg, pw) and every
   theorem quantifies over them.  The model describes /repo at HEAD *plus* the repairs proposed with this property
   (fixes/F03 + fixes/F49: the one-shot strategies topk / boltzmann inverse-transform what they return and give inactive
   dimensions their canonical value again); the pinned behaviour of those two branches is the [Pinned] variant, the
   intermediate one (F03 alone) the [Decoded] variant; Property.v proves a refutation for each.

   Parts
     1. decode pipelines          ask_decode (Optimizer._tell: clip to transformed bounds unless the space is purely
                                  categorical, Space.inverse_transform), design_decode (sampler/*: set_transformer
                                  ("normalize") then inverse_transform of a point of the unit cube)
     2. tell's check              check_x  (skopt/utils.py check_x_in_space, Space.__contains__, Dimension.__contains__)
     3. inactive canonicalisation canon_value / canon  (get_inactive_value_of_hyperparameter in _random.py, _regevo.py;
                                  bounds0 = `dimensions[i].bounds[0]` of Space.rvs / deactivate_inactive_dimensions)
     4. the ask automaton         branch_of / step  (Optimizer.ask, Optimizer._ask, the part of Optimizer._tell that
                                  produces _next_x and the cached candidates _last_X)
     (the option lists the harness enumerates are in Options.v)                                                     *)
From Coq Require Import List ZArith QArith Qround Bool.
Import ListNotations.
Require Import DH.C09_Transforms.Dims DH.C09_Transforms.Model.
Open Scope Q_scope.

(* ------------------------------------------------------------------------------------------------ 1. decode *)
(* np.clip(next_x, transformed_bounds[:, 0], transformed_bounds[:, 1]) *)
Fixpoint clip_row (tb : list (Q * Q)) (z : list Q) : list Q :=
  match tb, z with
  | (lo, hi) :: tb', x :: z' => clipQ lo hi x :: clip_row tb' z'
  | _, _ => z
  end.

Definition is_cat (d : dim) : bool := match d with DCat _ _ _ => true | _ => false end.
(* Space.is_categorical : exclusively categorical dimensions *)
Definition all_cat (sp : space) : bool := forallb is_cat sp.

Definition is_cat_ident (d : dim) : bool := match d with DCat _ _ CIdentity => true | _ => false end.
Definition cats_of (d : dim) : list Q := match d with DCat _ cats _ => cats | _ => [] end.

(* the hypothesis the identity-encoded categories need (numeric ordinal hyperparameters: the warped coordinate IS
   the value): the coordinate is one of the declared categories - true for every transformed candidate *)
Fixpoint ident_ok (sp : space) (z : list Q) : bool :=
  match sp with
  | [] => true
  | d :: sp' =>
      (if is_cat_ident d then memQ (hd 0 (firstn (tsize d) z)) (cats_of d) else true)
      && ident_ok sp' (skipn (tsize d) z)
  end.

(* Sampler.generate: space.set_transformer("normalize") *)
Definition normalize_dim (d : dim) : dim :=
  match d with
  | DReal lo hi p _ => DReal lo hi p TNormalize
  | DInt lo hi p _ => DInt lo hi p TNormalize
  | DCat k cats _ => DCat k cats CNormalize
  end.
Definition normalize_space (sp : space) : space := map normalize_dim sp.

Section Oracles.
  Variable R : Q -> Q.
  Variable lg : Q -> Q.
  Variable pw : Q -> Q -> Q.

  (* Optimizer._tell, lines "if not self.space.is_categorical: next_x = np.clip(...)" and
     "self._next_x = self.space.inverse_transform(next_x.reshape(1, -1))[0]" *)
  Definition clip_tb (sp : space) (z : list Q) : list Q :=
    if all_cat sp then z else clip_row (tbounds_space R lg sp) z.
  Definition ask_decode (sp : space) (z : list Q) : list Q := inverse_row R lg pw sp (clip_tb sp z).

  (* initial designs (sobol, halton, hammersly, lhs, grid): a point u of the unit cube, one coordinate per dimension *)
  Definition design_decode (sp : space) (u : list Q) : list Q := inverse_row R lg pw (normalize_space sp) u.

  (* the pw queries of ask_decode (harness: supplies pw as a finite table) *)
  Definition ask_pw_args (sp : space) (z : list Q) : list (Q * Q) := pw_args_row R lg sp (clip_tb sp z).
  Definition design_pw_args (sp : space) (u : list Q) : list (Q * Q) := pw_args_row R lg (normalize_space sp) u.
End Oracles.

(* ------------------------------------------------------------------------------------------------ 2. tell's check *)
(* Real.__contains__ / Integer.__contains__ : low <= point <= high (Integer does NOT test integrality);
   Categorical.__contains__ : point in categories *)
Definition contains_dim (d : dim) (x : Q) : bool :=
  match d with
  | DReal lo hi _ _ => Qle_bool lo x && Qle_bool x hi
  | DInt lo hi _ _ => Qle_bool (inject_Z lo) x && Qle_bool x (inject_Z hi)
  | DCat _ cats _ => memQ x cats
  end.

(* Space.__contains__ : for component, dim in zip(point, self.dimensions) - zip stops at the shorter one *)
Fixpoint contains (sp : space) (row : list Q) : bool :=
  match sp, row with
  | d :: sp', x :: row' => contains_dim d x && contains sp' row'
  | _, _ => true
  end.

Inductive tell_check := TOk | TErrBounds | TErrDims.

(* check_x_in_space for one point: first "not within the bounds", then "dimensions do not match" *)
Definition check_x (sp : space) (row : list Q) : tell_check :=
  if negb (contains sp row) then TErrBounds
  else if negb (Nat.eqb (length row) (length sp)) then TErrDims
  else TOk.

Definition check_xs (sp : space) (rows : list (list Q)) : tell_check :=
  if negb (forallb (contains sp) rows) then TErrBounds
  else if negb (forallb (fun r => Nat.eqb (length r) (length sp)) rows) then TErrDims
  else TOk.

Definition tell_code (t : tell_check) : Z := match t with TOk => 0%Z | TErrBounds => 1%Z | TErrDims => 2%Z end.

(* ------------------------------------------------------------------------------------------------ 3. canonicalisation *)
(* classes of ConfigSpace hyperparameters as get_inactive_value_of_hyperparameter distinguishes them *)
Inductive hclass := HNumerical | HCategorical | HOrdinal | HConstant.
(* what the function returns: hp.lower | the first declared choice / sequence element | the constant's value *)
Inductive csel := SLower | SFirst | SValue.

Definition hclass_code (c : hclass) : Z :=
  match c with HNumerical => 0%Z | HCategorical => 1%Z | HOrdinal => 2%Z | HConstant => 3%Z end.
Definition csel_code (s : csel) : Z := match s with SLower => 0%Z | SFirst => 1%Z | SValue => 2%Z end.

(* the hand-written table the model uses; Property.v proves that it equals the GENERATED one *)
Definition canon_sel (c : hclass) : csel :=
  match c with HNumerical => SLower | HCategorical => SFirst | HOrdinal => SFirst | HConstant => SValue end.
Definition canon_sel_table : list (Z * Z) :=
  map (fun c => (hclass_code c, csel_code (canon_sel c))) [HNumerical; HCategorical; HOrdinal; HConstant].

(* a hyperparameter as the search stack sees it: its ConfigSpace class and the dimension it was converted to
   (convert_to_skopt_dim: numerical -> Real / Integer; categorical, ordinal, constant -> Categorical, the constant
   with its value as the single category) *)
Definition hp := (hclass * dim)%type.

Definition lower_of (d : dim) : Q :=
  match d with DReal lo _ _ _ => lo | DInt lo _ _ _ => inject_Z lo | DCat _ cats _ => hd 0 cats end.
Definition first_of (d : dim) : Q :=
  match d with DCat _ cats _ => hd 0 cats | DReal lo _ _ _ => lo | DInt lo _ _ _ => inject_Z lo end.

Definition canon_value (h : hp) : Q :=
  match canon_sel (fst h) with
  | SLower => lower_of (snd h)
  | SFirst => first_of (snd h)
  | SValue => first_of (snd h)
  end.

(* `self.dimensions[i].bounds[0]` (Space.rvs, Space.deactivate_inactive_dimensions) *)
Definition bounds0 (d : dim) : Q := match d with DReal lo _ _ _ => lo | DInt lo _ _ _ => inject_Z lo | DCat _ cats _ => hd 0 cats end.

Definition hp_wf (h : hp) : bool :=
  wf_dim (snd h) &&
  match fst h, snd h with
  | HNumerical, DReal _ _ _ _ | HNumerical, DInt _ _ _ _ => true
  | HCategorical, DCat _ _ _ | HOrdinal, DCat _ _ _ => true
  | HConstant, DCat _ cats _ => Nat.eqb (length cats) 1
  | _, _ => false
  end.

(* the configuration handed out: active hyperparameters keep their value, inactive ones get the canonical value *)
Fixpoint canon (hps : list hp) (act : list bool) (cfg : list Q) : list Q :=
  match hps, act, cfg with
  | h :: hps', a :: act', v :: cfg' => (if a then v else canon_value h) :: canon hps' act' cfg'
  | _, _, _ => []
  end.

(* the same on a space (CBO path: bounds0) *)
Fixpoint canon_row (sp : space) (act : list bool) (row : list Q) : list Q :=
  match sp, act, row with
  | d :: sp', a :: act', v :: row' => (if a then v else bounds0 d) :: canon_row sp' act' row'
  | _, _, _ => row
  end.

(* ------------------------------------------------------------------------------------------------ 4. the ask automaton *)
Inductive strat := StCL | StTopk | StBoltz | StQ.    (* cl_min / cl_mean / cl_max | topk | boltzmann | qLCB / qLCBd *)
(* one-shot branches: Pinned = rows of _last_X as they are (before fixes/F03); Decoded = inverse_transform only (fixes/F03
   alone); Fixed = inverse_transform then deactivate_inactive_dimensions (fixes/F03 + fixes/F49) *)
Inductive variant := Pinned | Decoded | Fixed.
Inductive branch :=
| BSingleInit      (* _ask: next initial sample *)
| BSingleRandom    (* _ask: _ask_random_points() *)
| BSingleModel     (* _ask: _next_x *)
| BNoModel         (* _ask: RuntimeError "Random evaluations exhausted and no model has been fit." *)
| BMultiInit       (* ask(n): initial samples then random points *)
| BBadN            (* ask(0): ValueError *)
| BOneShot         (* topk / boltzmann over the cached candidates _last_X *)
| BQ               (* qLCB / qLCBd *)
| BCL.             (* constant liar loop on a copy *)

Record ostate := mkO {
  o_ninit : Z;                            (* _n_initial_points *)
  o_init : list (list Q);                 (* _initial_samples (caller's points + the initial design) *)
  o_dummy : bool;                         (* base_estimator_ is None *)
  o_models : nat;                         (* len(models) *)
  o_next : option (list Q);               (* _next_x *)
  o_last : option (list (list Q)) }.      (* _last_X : the transformed candidates of the last fit *)

Definition init_phase (st : ostate) : bool := (0 <? o_ninit st)%Z || o_dummy st.

Definition single_branch (st : ostate) : branch :=
  if init_phase st then match o_init st with [] => BSingleRandom | _ => BSingleInit end
  else match o_models st with O => BNoModel | _ => BSingleModel end.

Definition is_oneshot (s : strat) : bool := match s with StTopk | StBoltz => true | _ => false end.
Definition is_q (s : strat) : bool := match s with StQ => true | _ => false end.
Definition is_some {A} (o : option A) : bool := match o with Some _ => true | None => false end.

Definition branch_of (st : ostate) (n : option nat) (s : strat) : branch :=
  match n with
  | None => single_branch st
  | Some 1%nat => single_branch st
  | Some O => BBadN
  | Some _ =>
      if init_phase st then BMultiInit
      else if is_some (o_last st) && is_oneshot s then BOneShot
      else if negb (Nat.eqb (o_models st) 0) && is_q s then BQ
      else if Nat.eqb (o_models st) 0 then BNoModel   (* the copy's own ask() raises: nothing told, no model (n_initial_points = 0) *)
      else BCL
  end.

(* what the libraries contribute to one ask (all universally quantified) *)
Record oracle := mkOr {
  r_rvs : list (list Q);                  (* rows of Space.rvs (after duplicate filtering), in the order they are used *)
  r_idx : list nat;                       (* topk / boltzmann: indices into _last_X ;  qLCB: indices into r_rvs *)
  r_fits : list (list Q) }.               (* constant liar: per fit of the copy, the argmin / lbfgs vector *)

Definition npts (n : option nat) : nat := match n with None => 1%nat | Some k => k end.

Fixpoint pick {A} (l : list A) (idx : list nat) : list A :=
  match idx with
  | [] => []
  | i :: idx' => match nth_error l i with Some x => x :: pick l idx' | None => pick l idx' end
  end.

Section Automaton.
  Variable R : Q -> Q.
  Variable lg : Q -> Q.
  Variable pw : Q -> Q -> Q.
  Variable v : variant.
  Variable sp : space.
  (* ConfigSpace: which dimensions are active in a point (a function of the point; all true for a flat space) *)
  Variable actf : list Q -> list bool.

  (* Space.deactivate_inactive_dimensions *)
  Definition deactivate (x : list Q) : list Q := canon_row sp (actf x) x.

  (* _next_x after a fit: inverse_transform, then deactivate_inactive_dimensions *)
  Definition fit_point (z : list Q) : list Q := deactivate (ask_decode R lg pw sp z).

  Definition oneshot_point (zt : list Q) : list Q :=
    match v with
    | Fixed => deactivate (inverse_row R lg pw sp zt)   (* fixes/F03 + fixes/F49 *)
    | Decoded => inverse_row R lg pw sp zt              (* fixes/F03 alone: the round trip is not exact, inactive values drift *)
    | Pinned => zt                                      (* pinned code: self._last_X[idx].tolist() - a TRANSFORMED row *)
    end.

  Definition ask_points (st : ostate) (n : option nat) (s : strat) (orc : oracle) : list (list Q) * ostate :=
    match branch_of st n s with
    | BSingleInit =>
        match o_init st with
        | x :: rest => ([x], mkO (o_ninit st) rest (o_dummy st) (o_models st) (o_next st) (o_last st))
        | [] => ([], st)
        end
    | BSingleRandom => (firstn 1 (r_rvs orc), st)
    | BSingleModel => (match o_next st with Some x => [x] | None => [] end, st)
    | BNoModel | BBadN => ([], st)
    | BMultiInit =>
        let k := Nat.min (length (o_init st)) (npts n) in
        (firstn k (o_init st) ++ firstn (npts n - k) (r_rvs orc),
         mkO (o_ninit st) (skipn k (o_init st)) (o_dummy st) (o_models st) (o_next st) (o_last st))
    | BOneShot =>
        (match o_last st with Some L => map oneshot_point (pick L (r_idx orc)) | None => [] end, st)
    | BQ =>
        (match o_next st with Some x => [x] | None => [] end ++ pick (r_rvs orc) (r_idx orc), st)
    | BCL => (map fit_point (r_fits orc), st)
    end.

  Inductive event :=
  | Tell (k_ok : Z) (fit : bool) (cands : list (list Q)) (z : list Q)
        (* k_ok results that are not failures were told; when a model is fitted: the candidates that were sampled,
           the vector the acquisition optimizer returned *)
  | Ask (n : option nat) (s : strat) (orc : oracle).

  Definition tell_state (st : ostate) (k_ok : Z) (fit : bool) (cands : list (list Q)) (z : list Q) : ostate :=
    let ni := (o_ninit st - k_ok)%Z in
    if fit && (ni <=? 0)%Z && negb (o_dummy st) then
      mkO ni (o_init st) (o_dummy st) (S (o_models st)) (Some (fit_point z))
          (Some (map (transform_row R lg sp) cands))
    else mkO ni (o_init st) (o_dummy st) (o_models st) (o_next st) (o_last st).

  Definition step (st : ostate) (e : event) : list (list Q) * ostate :=
    match e with
    | Tell k fit cands z => ([], tell_state st k fit cands z)
    | Ask n s orc => ask_points st n s orc
    end.

  (* every point handed out along a history *)
  Fixpoint asked (st : ostate) (evs : list event) : list (list Q) :=
    match evs with
    | [] => []
    | e :: evs' => let '(rows, st') := step st e in rows ++ asked st' evs'
    end.

  Fixpoint final (st : ostate) (evs : list event) : ostate :=
    match evs with
    | [] => st
    | e :: evs' => final (snd (step st e)) evs'
    end.
End Automaton.

(* Optimizer.__init__: caller's initial points, then the initial design decoded from the unit cube *)
Definition init_state (R : Q -> Q) (lg : Q -> Q) (pw : Q -> Q -> Q) (sp : space) (n_initial : Z) (dummy : bool)
           (user : list (list Q)) (design : list (list Q)) : ostate :=
  mkO n_initial (user ++ map (design_decode R lg pw sp) design) dummy O None None.
