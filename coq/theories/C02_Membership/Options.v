(* The option lists harness/vp/props/c02.py enumerates (the plug-in READS these very lines, so this file is the single
   source of what is enumerated); Property.v proves that they equal the lists GENERATED from the source
   (Generated/Facts_C02.v).  Strings: this file is not reachable from Entry.v. *)
From Coq Require Import List String.
Import ListNotations.
Open Scope string_scope.

Definition enum_surrogates : list string := ["RF"; "ET"; "TB"; "RS"; "MF"; "GBRT"; "GP"; "HGBRT"; "DUMMY"].
Definition enum_acq : list string := ["UCB"; "EI"; "PI"; "MES"; "gp_hedge"; "UCBd"; "EId"; "PId"; "MESd"; "gp_hedged"].
Definition enum_strategies : list string := ["cl_min"; "cl_mean"; "cl_max"; "topk"; "boltzmann"; "qUCB"; "qUCBd"].
Definition enum_designs : list string := ["sobol"; "halton"; "hammersly"; "lhs"; "random"; "grid"].
Definition enum_acq_optimizers : list string := ["lbfgs"; "sampling"; "mixedga"; "ga"].
