(* Boolean oracles applied to what the IMPLEMENTATION produced, with their reflection lemmas.

   ok_C02       one configuration handed to the run-function, against the declared hyperparameters
                (returns the number of the first clause that fails, 0 = none):
                  1 names      the configuration does not have exactly the declared hyperparameters
                  2 kind       an integer hyperparameter is not a Python / NumPy integer, a float one not a (finite) float
                  3 bounds     a numeric value is outside the inclusive declared bounds (exact rational comparison)
                  4 choice     a categorical / ordinal / constant value is not a declared choice
                  5 inactive   an inactive conditional hyperparameter does not carry its canonical inactive value
                  6 forbidden  a forbidden clause is violated                       (evaluated by ConfigSpace)
                  7 invalid    ConfigSpace rejects the active sub-configuration      (evaluated by ConfigSpace)
   accept_ask   one call of Optimizer.ask against the ask automaton of Model.v (branch, provenance of every returned
                point, membership, acceptance by tell's check)
   ask_post / tell_post   the observable part of the automaton's next state (step-wise refinement)            *)
From Coq Require Import List ZArith QArith Bool Arith.
Import ListNotations.
Require Import DH.C09_Transforms.Dims DH.C02_Membership.Model.
Open Scope Q_scope.

(* ---------------------------------------------------------------------------------------------- configurations *)
Inductive hdecl :=
| HDInt (lo hi : Z)          (* integer range *)
| HDFloat (lo hi : Q)        (* float range *)
| HDChoice (n : nat).        (* categorical / ordinal with n declared choices; a constant has n = 1 *)

Record hobs := mkObs {
  b_int : bool;              (* the value is a Python int / NumPy integer (and not a bool) *)
  b_float : bool;            (* the value is a Python float / NumPy floating, and finite *)
  b_val : Q;                 (* its exact value (0 when not numeric) *)
  b_idx : Z;                 (* index of the value among the declared choices (same kind and ==), -1 if none *)
  b_active : bool }.         (* ConfigSpace: the hyperparameter is active in this configuration *)

Definition kind_ok (d : hdecl) (o : hobs) : bool :=
  match d with HDInt _ _ => b_int o | HDFloat _ _ => b_float o | HDChoice _ => true end.
Definition bounds_ok (d : hdecl) (o : hobs) : bool :=
  match d with
  | HDInt lo hi => Qle_bool (inject_Z lo) (b_val o) && Qle_bool (b_val o) (inject_Z hi)
  | HDFloat lo hi => Qle_bool lo (b_val o) && Qle_bool (b_val o) hi
  | HDChoice _ => true
  end.
Definition choice_ok (d : hdecl) (o : hobs) : bool :=
  match d with HDChoice n => (0 <=? b_idx o)%Z && (b_idx o <? Z.of_nat n)%Z | _ => true end.
(* canonical inactive value (Model.canon_sel): the lower bound / the first declared choice / the constant's value *)
Definition inactive_ok (d : hdecl) (o : hobs) : bool :=
  if b_active o then true else
  match d with
  | HDInt lo _ => Qeq_bool (b_val o) (inject_Z lo)
  | HDFloat lo _ => Qeq_bool (b_val o) lo
  | HDChoice _ => (b_idx o =? 0)%Z
  end.

Definition all2 (f : hdecl -> hobs -> bool) (l : list (hdecl * hobs)) : bool := forallb (fun p => f (fst p) (snd p)) l.

Definition ok_C02 (names_ok : bool) (l : list (hdecl * hobs)) (forbidden : bool) (cs_valid : bool) : Z :=
  if negb names_ok then 1%Z
  else if negb (all2 kind_ok l) then 2%Z
  else if negb (all2 bounds_ok l) then 3%Z
  else if negb (all2 choice_ok l) then 4%Z
  else if negb (all2 inactive_ok l) then 5%Z
  else if forbidden then 6%Z
  else if negb cs_valid then 7%Z
  else 0%Z.

Record Spec_C02 (names_ok : bool) (l : list (hdecl * hobs)) (forbidden cs_valid : bool) : Prop := {
  sp_names : names_ok = true;
  sp_kind : Forall (fun p => kind_ok (fst p) (snd p) = true) l;
  sp_bounds : Forall (fun p => bounds_ok (fst p) (snd p) = true) l;
  sp_choice : Forall (fun p => choice_ok (fst p) (snd p) = true) l;
  sp_inactive : Forall (fun p => inactive_ok (fst p) (snd p) = true) l;
  sp_forbidden : forbidden = false;
  sp_valid : cs_valid = true }.

Lemma all2_Forall f l : all2 f l = true <-> Forall (fun p => f (fst p) (snd p) = true) l.
Proof. unfold all2. rewrite forallb_forall, Forall_forall. reflexivity. Qed.

Lemma ok_C02_spec names_ok l forbidden cs_valid :
  ok_C02 names_ok l forbidden cs_valid = 0%Z <-> Spec_C02 names_ok l forbidden cs_valid.
Proof.
  unfold ok_C02. split.
  - intros H.
    destruct names_ok; cbn [negb] in H; [|discriminate].
    destruct (all2 kind_ok l) eqn:E2; cbn [negb] in H; [|discriminate].
    destruct (all2 bounds_ok l) eqn:E3; cbn [negb] in H; [|discriminate].
    destruct (all2 choice_ok l) eqn:E4; cbn [negb] in H; [|discriminate].
    destruct (all2 inactive_ok l) eqn:E5; cbn [negb] in H; [|discriminate].
    destruct forbidden; [discriminate|].
    destruct cs_valid; cbn [negb] in H; [|discriminate].
    constructor; try reflexivity; apply all2_Forall; assumption.
  - intros [S1 S2 S3 S4 S5 S6 S7]. subst.
    apply all2_Forall in S2, S3, S4, S5. rewrite S2, S3, S4, S5. reflexivity.
Qed.

(* ---------------------------------------------------------------------------------------------- rows *)
Fixpoint row_eqb (a b : list Q) : bool :=
  match a, b with
  | [], [] => true
  | x :: a', y :: b' => Qeq_bool x y && row_eqb a' b'
  | _, _ => false
  end.

Fixpoint rows_eqb (a b : list (list Q)) : bool :=
  match a, b with
  | [], [] => true
  | x :: a', y :: b' => row_eqb x y && rows_eqb a' b'
  | _, _ => false
  end.

Definition row_mem (r : list Q) (l : list (list Q)) : bool := existsb (row_eqb r) l.

(* ---------------------------------------------------------------------------------------------- one ask *)
(* observed before the call: the automaton state, with the implementation's OWN decode of the cached candidates
   (Space.inverse_transform(_last_X), a library oracle) in place of _last_X; observed after: the returned rows.
   Codes: 0 accepted | 1 more points than asked (an exhausted space may give fewer) | 2 a point does not come from where the branch takes it
          | 3 a point is not a member of the space | 4 tell's check would reject a point | 5 error branch *)
Definition accept_tail (sp : space) (want : nat) (prov : bool) (ret : list (list Q)) : Z :=
  if negb (Nat.leb (length ret) want) then 1%Z
  else if negb prov then 2%Z
  else if negb (forallb (in_space sp) ret) then 3%Z
  else if negb (forallb (fun r => Z.eqb (tell_code (check_x sp r)) 0) ret) then 4%Z
  else 0%Z.

Definition provenance (st : ostate) (decoded_last : list (list Q)) (n : option nat) (s : strat) (ret : list (list Q)) : bool :=
  match branch_of st n s with
  | BSingleInit => match o_init st with x :: _ => rows_eqb ret [x] | [] => false end
  | BSingleRandom => true
  | BSingleModel => match o_next st with Some x => rows_eqb ret [x] | None => false end
  | BMultiInit =>
      let k := Nat.min (length (o_init st)) (npts n) in rows_eqb (firstn k ret) (firstn k (o_init st))
  | BOneShot => forallb (fun r => row_mem r decoded_last) ret
  | BQ => match o_next st, ret with Some x, r :: _ => row_eqb r x | _, _ => false end
  | BCL => true
  | BNoModel | BBadN => false
  end.

Definition is_error_branch (b : branch) : bool := match b with BNoModel | BBadN => true | _ => false end.

Definition accept_ask (sp : space) (st : ostate) (decoded_last : list (list Q)) (n : option nat) (s : strat)
           (ret : list (list Q)) : Z :=
  if is_error_branch (branch_of st n s) then 5%Z
  else accept_tail sp (npts n) (provenance st decoded_last n s ret) ret.

Definition branch_code (b : branch) : Z :=
  match b with
  | BSingleInit => 0 | BSingleRandom => 1 | BSingleModel => 2 | BNoModel => 3 | BMultiInit => 4
  | BBadN => 5 | BOneShot => 6 | BQ => 7 | BCL => 8
  end%Z.

(* observable next state: (_n_initial_points, len(_initial_samples), len(models), hasattr(_last_X)) *)
Definition ask_post (st : ostate) (n : option nat) (s : strat) : Z * nat * nat * bool :=
  let li := length (o_init st) in
  let li' :=
    match branch_of st n s with
    | BSingleInit => pred li
    | BMultiInit => (li - Nat.min li (npts n))%nat
    | _ => li
    end in
  (o_ninit st, li', o_models st, is_some (o_last st)).

Definition tell_post (st : ostate) (k_ok : Z) (fit : bool) : Z * nat * nat * bool :=
  let ni := (o_ninit st - k_ok)%Z in
  if fit && (ni <=? 0)%Z && negb (o_dummy st)
  then (ni, length (o_init st), S (o_models st), true)
  else (ni, length (o_init st), o_models st, is_some (o_last st)).

Definition obs_of (st : ostate) : Z * nat * nat * bool :=
  (o_ninit st, length (o_init st), o_models st, is_some (o_last st)).

(* what accept_ask = 0 means *)
Lemma accept_tail_member sp want prov ret :
  accept_tail sp want prov ret = 0%Z ->
  (length ret <= want)%nat /\ prov = true /\ Forall (fun r => in_space sp r = true) ret /\ Forall (fun r => check_x sp r = TOk) ret.
Proof.
  unfold accept_tail. intros H.
  destruct (Nat.leb (length ret) want) eqn:E1; cbn [negb] in H; [|discriminate].
  destruct prov; cbn [negb] in H; [|discriminate].
  destruct (forallb (in_space sp) ret) eqn:E3; cbn [negb] in H; [|discriminate].
  destruct (forallb (fun r => Z.eqb (tell_code (check_x sp r)) 0) ret) eqn:E4; cbn [negb] in H; [|discriminate].
  split; [apply Nat.leb_le, E1|]. split; [reflexivity|]. split.
  - rewrite forallb_forall in E3. apply Forall_forall. exact E3.
  - rewrite forallb_forall in E4. apply Forall_forall. intros r Hr. specialize (E4 r Hr).
    destruct (check_x sp r); [reflexivity| discriminate| discriminate].
Qed.

Lemma accept_ask_member sp st dl n s ret :
  accept_ask sp st dl n s ret = 0%Z ->
  (length ret <= npts n)%nat /\ Forall (fun r => in_space sp r = true) ret /\ Forall (fun r => check_x sp r = TOk) ret.
Proof.
  unfold accept_ask. intros H. destruct (is_error_branch (branch_of st n s)); [discriminate|].
  apply accept_tail_member in H as [H1 [_ [H3 H4]]]. auto.
Qed.
