(* The statements of Property.v, assembled from the lemma files (Property.v only says `exact`). *)
From Coq Require Import List ZArith QArith Qround Bool String.
Import ListNotations.
Require Import DH.C09_Transforms.Dims DH.C09_Transforms.Model.
Require Import DH.C02_Membership.Model DH.C02_Membership.Check DH.C02_Membership.Options.
Require Import DH.C02_Membership.LemmasDecode DH.C02_Membership.LemmasTell DH.C02_Membership.LemmasCanon
               DH.C02_Membership.LemmasAsk DH.C02_Membership.LemmasOptions.
Open Scope Q_scope.

Lemma decode_in_space : forall (R lg : Q -> Q) (pw : Q -> Q -> Q) (sp : space), wf_space sp = true ->
  (forall z, ident_ok sp z = true -> in_space sp (ask_decode R lg pw sp z) = true) /\
  (forall x, in_space sp x = true -> in_space sp (ask_decode R lg pw sp (transform_row R lg sp x)) = true) /\
  (no_ident sp = true -> forall z, in_space sp (ask_decode R lg pw sp z) = true) /\
  (forall z, in_space sp (ask_decode R lg pw (normalize_space sp) z) = true) /\
  (forall u, in_space sp (design_decode R lg pw sp u) = true).
Proof.
  intros R lg pw sp W. split; [|split; [|split; [|split]]].
  - intros z I. exact (ask_decode_member R lg pw sp z W I).
  - intros x I. exact (ask_decode_candidate R lg pw sp x W I).
  - intros N z. exact (ask_decode_member_any R lg pw sp z W N).
  - intros z. exact (ask_decode_member_normalized R lg pw sp z W).
  - intros u. exact (design_decode_member R lg pw sp u W).
Qed.

Lemma tell_accepts_both : forall sp,
  (forall row, in_space sp row = true -> check_x sp row = TOk) /\
  (forall rows, Forall (fun r => in_space sp r = true) rows -> check_xs sp rows = TOk).
Proof. intros sp. split; [exact (tell_accepts sp)| exact (tell_accepts_batch sp)]. Qed.

Lemma canon_props : forall hps act cfg,
  (forall i h v d, nth_error hps i = Some h -> nth_error act i = Some false -> nth_error cfg i = Some v ->
                   nth i (canon hps act cfg) d = canon_value h) /\
  (forall i h v d, nth_error hps i = Some h -> nth_error act i = Some true -> nth_error cfg i = Some v ->
                   nth i (canon hps act cfg) d = v) /\
  canon hps act (canon hps act cfg) = canon hps act cfg /\
  (forallb hp_wf hps = true -> List.length act = List.length hps -> in_space (map snd hps) cfg = true ->
   in_space (map snd hps) (canon hps act cfg) = true /\ canon hps act cfg = canon_row (map snd hps) act cfg).
Proof.
  intros hps act cfg. split; [|split; [|split]].
  - intros i h v d. exact (canon_inactive hps act cfg i h v d).
  - intros i h v d. exact (canon_active hps act cfg i h v d).
  - exact (canon_idempotent hps act cfg).
  - intros W Ha I. split; [exact (canon_member hps act cfg W Ha I)|].
    apply canon_eq_canon_row; [exact W| exact Ha|].
    rewrite (in_space_length (map snd hps) cfg I). apply map_length.
Qed.

Lemma ask_paths_original_space : forall (R lg : Q -> Q) (pw : Q -> Q -> Q) sp actf v n_initial dummy user design evs,
  v <> Pinned ->
  wf_space sp = true -> Forall (fun r => in_space sp r = true) user -> Forall (ev_ok sp) evs ->
  let pts := asked R lg pw v sp actf (init_state R lg pw sp n_initial dummy user design) evs in
  Forall (fun r => in_space sp r = true) pts /\ Forall (fun r => check_x sp r = TOk) pts.
Proof.
  intros R lg pw sp actf v n_initial dummy user design evs NP W U H. cbv zeta. split.
  - exact (asked_members R lg pw sp actf W v NP evs _ (init_state_inv R lg pw sp W n_initial dummy user design U) H).
  - exact (asked_accepted R lg pw sp actf W v evs _ NP (init_state_inv R lg pw sp W n_initial dummy user design U) H).
Qed.

Lemma ask_paths_canonical : forall (R lg : Q -> Q) (pw : Q -> Q -> Q) sp actf n_initial dummy user evs,
  (forall x, actf (deactivate sp actf x) = actf x) ->
  Forall (canonical sp actf) user -> Forall (ev_canon sp actf) evs ->
  Forall (canonical sp actf) (asked R lg pw Fixed sp actf (init_state R lg pw sp n_initial dummy user []) evs).
Proof.
  intros R lg pw sp actf n_initial dummy user evs ST U H.
  exact (asked_canonical R lg pw sp actf ST evs _ (init_state_invc R lg pw sp actf n_initial dummy user U) H).
Qed.

Lemma topk_refuted :
  exists R lg pw sp actf st evs,
    wf_space sp = true /\ Inv R lg sp st /\ Forall (ev_ok sp) evs /\
    List.length (asked R lg pw Pinned sp actf st evs) = 2%nat /\
    Forall (fun r => in_space sp r = false /\ check_x sp r = TErrBounds) (asked R lg pw Pinned sp actf st evs) /\
    Forall (fun r => in_space sp r = true) (asked R lg pw Fixed sp actf st evs).
Proof. exists Rid, lg0, pw0, wit_sp, act_all, wit_st, wit_evs. exact topk_pinned_refuted. Qed.

Lemma oneshot_noncanonical_refuted :
  exists R lg pw sp actf st evs user,
    wf_space sp = true /\ Forall (ev_ok sp) evs /\ (forall x, actf (deactivate sp actf x) = actf x) /\
    Forall (canonical sp actf) user /\
    Forall (fun r => in_space sp r = true) (asked R lg pw Decoded sp actf st evs) /\
    Exists (fun r => deactivate sp actf r <> r) (asked R lg pw Decoded sp actf st evs) /\
    Forall (canonical sp actf) (asked R lg pw Fixed sp actf st evs).
Proof. exists R_up53, lg0, pw0, drift_sp, drift_act, drift_st, drift_evs, [[1; 2 # 1000]]. exact oneshot_decoded_refuted. Qed.

Lemma post_state : forall R lg pw v sp actf st,
  (forall n s orc, ask_post st n s = obs_of (snd (ask_points R lg pw v sp actf st n s orc))) /\
  (forall k fit cands z, tell_post st k fit = obs_of (tell_state R lg pw sp actf st k fit cands z)).
Proof.
  intros R lg pw v sp actf st. split.
  - intros n s orc. exact (ask_post_spec R lg pw v sp actf st n s orc).
  - intros k fit cands z. exact (tell_post_spec R lg pw sp actf st k fit cands z).
Qed.

(* several search() calls on ONE search object: the history of the object is the concatenation of the calls' histories; the
   points handed out are the concatenation of the calls' points, and the state a later call starts from satisfies the same
   invariants as the initial one - so every later call is covered by ask_paths_original_space / ask_paths_canonical again *)
Lemma history_composes : forall (R lg : Q -> Q) (pw : Q -> Q -> Q) sp actf v st evs1 evs2,
  asked R lg pw v sp actf st (evs1 ++ evs2)%list =
    (asked R lg pw v sp actf st evs1 ++ asked R lg pw v sp actf (final R lg pw v sp actf st evs1) evs2)%list /\
  (v <> Pinned -> wf_space sp = true -> Inv R lg sp st -> Forall (ev_ok sp) evs1 -> Inv R lg sp (final R lg pw v sp actf st evs1)) /\
  ((forall x, actf (deactivate sp actf x) = actf x) -> InvC sp actf st -> Forall (ev_canon sp actf) evs1 ->
   InvC sp actf (final R lg pw Fixed sp actf st evs1)).
Proof.
  intros R lg pw sp actf v st evs1 evs2. split; [apply asked_app|]. split.
  - intros NP W I H. exact (final_inv R lg pw sp actf W v NP evs1 st I H).
  - intros ST I H. exact (final_invc R lg pw sp actf ST evs1 st I H).
Qed.
