(* Canonicalisation of inactive hyperparameters: inactive ones get the table value, active ones are untouched, the
   operation is idempotent, preserves membership, and the three implementations (the two copies of
   get_inactive_value_of_hyperparameter and `dimensions[i].bounds[0]` of the optimizer's Space) agree. *)
From Coq Require Import List ZArith QArith Qround Bool Lia Lqa Arith.
Import ListNotations.
Require Import DH.C09_Transforms.Dims DH.C09_Transforms.LemmasNum DH.C09_Transforms.LemmasCat.
Require Import DH.C02_Membership.Model.
Open Scope Q_scope.

Lemma canon_length hps : forall act cfg, length act = length hps -> length cfg = length hps -> length (canon hps act cfg) = length hps.
Proof.
  induction hps as [|h hps IH]; intros [|a act] [|v cfg] Ha Hc; try discriminate; [reflexivity|].
  cbn [canon length]. f_equal. apply IH; [cbn in Ha; lia| cbn in Hc; lia].
Qed.

(* position-wise description *)
Lemma canon_nth hps : forall act cfg i h a v d,
  nth_error hps i = Some h -> nth_error act i = Some a -> nth_error cfg i = Some v ->
  nth i (canon hps act cfg) d = if a then v else canon_value h.
Proof.
  induction hps as [|h0 hps IH]; intros [|a0 act] [|v0 cfg] [|i] h a v d Hh Ha Hv; try discriminate.
  - cbn in Hh, Ha, Hv. injection Hh as <-. injection Ha as <-. injection Hv as <-. reflexivity.
  - cbn in Hh, Ha, Hv. cbn [canon nth]. apply (IH act cfg i h a v d); assumption.
Qed.

Lemma canon_inactive hps act cfg i h v d :
  nth_error hps i = Some h -> nth_error act i = Some false -> nth_error cfg i = Some v ->
  nth i (canon hps act cfg) d = canon_value h.
Proof. intros Hh Ha Hv. rewrite (canon_nth hps act cfg i h false v d Hh Ha Hv). reflexivity. Qed.

Lemma canon_active hps act cfg i h v d :
  nth_error hps i = Some h -> nth_error act i = Some true -> nth_error cfg i = Some v ->
  nth i (canon hps act cfg) d = v.
Proof. intros Hh Ha Hv. rewrite (canon_nth hps act cfg i h true v d Hh Ha Hv). reflexivity. Qed.

Lemma canon_idempotent hps : forall act cfg, canon hps act (canon hps act cfg) = canon hps act cfg.
Proof.
  induction hps as [|h hps IH]; intros [|a act] [|v cfg]; try reflexivity.
  cbn [canon]. destruct a; f_equal; apply IH.
Qed.

(* all hyperparameters active: nothing changes *)
Lemma canon_all_active hps : forall cfg, length cfg = length hps -> canon hps (repeat true (length hps)) cfg = cfg.
Proof.
  induction hps as [|h hps IH]; intros [|v cfg] H; try discriminate; [reflexivity|].
  cbn [length repeat canon]. f_equal. apply IH. cbn in H. lia.
Qed.

(* the canonical value is a member of the hyperparameter's dimension *)
Lemma bounds0_member d : wf_dim d = true -> in_dim d (bounds0 d) = true.
Proof.
  intros W. destruct d as [lo hi p t|lo hi p t|k cats t]; cbn [bounds0 in_dim].
  - cbn [wf_dim] in W. apply andb_true_iff in W as [W _]. apply Qltb_lt in W.
    apply andb_true_iff. split; apply Qle_bool_iff; lra.
  - cbn [wf_dim] in W. apply andb_true_iff in W as [W _]. apply Z.ltb_lt in W.
    rewrite is_intQ_inject, andb_true_r. apply andb_true_iff. split; apply Qle_bool_iff; rewrite <- Zle_Qle; lia.
  - cbn [wf_dim] in W. apply andb_true_iff in W as [W _]. apply andb_true_iff in W as [W _].
    apply hd_mem. destruct cats; [discriminate| congruence].
Qed.

(* the three implementations agree: table value = bounds[0] of the converted dimension *)
Lemma canon_value_bounds0 h : hp_wf h = true -> canon_value h = bounds0 (snd h).
Proof.
  destruct h as [c d]. unfold hp_wf, canon_value. cbn [fst snd]. intros W. apply andb_true_iff in W as [_ W].
  destruct c, d; try discriminate; reflexivity.
Qed.

Lemma canon_value_member h : hp_wf h = true -> in_dim (snd h) (canon_value h) = true.
Proof.
  intros W. rewrite (canon_value_bounds0 h W). apply bounds0_member.
  unfold hp_wf in W. apply andb_true_iff in W as [W _]. exact W.
Qed.

Lemma canon_eq_canon_row hps : forall act cfg,
  forallb hp_wf hps = true -> length act = length hps -> length cfg = length hps ->
  canon hps act cfg = canon_row (map snd hps) act cfg.
Proof.
  induction hps as [|h hps IH]; intros [|a act] [|v cfg] W Ha Hc; try discriminate; [reflexivity|].
  cbn [forallb] in W. apply andb_true_iff in W as [W1 W2].
  cbn [canon map canon_row]. rewrite (canon_value_bounds0 h W1). f_equal. apply IH; [exact W2| cbn in Ha; lia| cbn in Hc; lia].
Qed.

(* membership is preserved (whatever the activity flags are) *)
Lemma canon_row_member sp : forall act row, wf_space sp = true -> in_space sp row = true -> in_space sp (canon_row sp act row) = true.
Proof.
  induction sp as [|d sp IH]; intros act [|v row] W I; try discriminate.
  - destruct act; exact I.
  - destruct act as [|a act]; [exact I|].
    cbn [wf_space forallb] in W. apply andb_true_iff in W as [W1 W2].
    cbn [in_space] in I. apply andb_true_iff in I as [I1 I2].
    cbn [canon_row in_space]. apply andb_true_iff. split; [|apply IH; assumption].
    destruct a; [exact I1| apply bounds0_member, W1].
Qed.

Lemma canon_member hps act cfg :
  forallb hp_wf hps = true -> length act = length hps -> in_space (map snd hps) cfg = true ->
  in_space (map snd hps) (canon hps act cfg) = true.
Proof.
  intros W Ha I.
  assert (Hc : length cfg = length hps).
  { clear W Ha. revert cfg I. induction hps as [|h hps IH]; intros [|v cfg] I; try discriminate; [reflexivity|].
    cbn [map in_space] in I. apply andb_true_iff in I as [_ I]. cbn [length]. f_equal. apply IH, I. }
  rewrite (canon_eq_canon_row hps act cfg W Ha Hc). apply canon_row_member; [|exact I].
  unfold wf_space. clear Ha I Hc. induction hps as [|h hps IH]; [reflexivity|].
  cbn [forallb] in W. apply andb_true_iff in W as [W1 W2]. cbn [map forallb].
  unfold hp_wf in W1. apply andb_true_iff in W1 as [W1 _]. rewrite W1. apply IH, W2.
Qed.

Lemma canon_row_idempotent sp : forall act row, canon_row sp act (canon_row sp act row) = canon_row sp act row.
Proof.
  induction sp as [|d sp IH]; intros act row.
  - destruct act, row; reflexivity.
  - destruct act as [|a act]; [destruct row; reflexivity|]. destruct row as [|v row]; [reflexivity|].
    cbn [canon_row]. destruct a; f_equal; apply IH.
Qed.
