(* Entry points for the extracted driver (ids 201..): data -> data.  Rationals travel as (num den) pairs, spaces in the
   encoding of C09's Entry.v (reused).  The model is run with R = identity on exact rationals and lg / pw given as finite
   tables of the libm values recorded by the harness (the theorems hold for every R, lg, pw). *)
From Coq Require Import List ZArith QArith Bool.
Import ListNotations.
Require Import DH.Common.Data DH.C09_Transforms.Dims DH.C09_Transforms.Model.
Require DH.C09_Transforms.Entry.
Require Import DH.C02_Membership.Model DH.C02_Membership.Check.
Open Scope Z_scope.

Definition d_qrow (d : data) : list Q := dmap DH.C09_Transforms.Entry.dQ d.
Definition e_qrow (r : list Q) : data := elist DH.C09_Transforms.Entry.eQ r.

Definition d_hdecl (d : data) : hdecl :=
  let tag := dZ (dnth 0 d) in
  if tag =? 0 then HDInt (dZ (dnth 1 d)) (dZ (dnth 2 d))
  else if tag =? 1 then HDFloat (DH.C09_Transforms.Entry.dQ (dnth 1 d)) (DH.C09_Transforms.Entry.dQ (dnth 2 d))
  else HDChoice (dnat (dnth 1 d)).
Definition d_hobs (d : data) : hobs :=
  mkObs (dbool (dnth 0 d)) (dbool (dnth 1 d)) (DH.C09_Transforms.Entry.dQ (dnth 2 d)) (dZ (dnth 3 d)) (dbool (dnth 4 d)).

Definition d_hclass (d : data) : hclass :=
  let z := dZ d in if z =? 0 then HNumerical else if z =? 1 then HCategorical else if z =? 2 then HOrdinal else HConstant.
Definition d_hp (d : data) : hp := (d_hclass (dnth 0 d), DH.C09_Transforms.Entry.d_dim (dnth 1 d)).

Definition d_strat (d : data) : strat :=
  let z := dZ d in if z =? 0 then StCL else if z =? 1 then StTopk else if z =? 2 then StBoltz else StQ.

(* [ninit, init rows, dummy, nmodels, (next row)?, (last rows)?] *)
Definition d_ostate (d : data) : ostate :=
  mkO (dZ (dnth 0 d)) (DH.C09_Transforms.Entry.d_rows (dnth 1 d)) (dbool (dnth 2 d)) (dnat (dnth 3 d))
      (dopt d_qrow (dnth 4 d)) (dopt DH.C09_Transforms.Entry.d_rows (dnth 5 d)).

Definition e_obs (o : Z * nat * nat * bool) : data :=
  let '(ni, li, m, hl) := o in L [eZ ni; enat li; enat m; ebool hl].

Definition entries : list (Z * (data -> data)) :=
  [ (201, fun d => DH.C09_Transforms.Entry.e_rows (map (ask_decode rid (DH.C09_Transforms.Entry.d_lg (dnth 2 d)) (DH.C09_Transforms.Entry.d_pw (dnth 3 d)) (DH.C09_Transforms.Entry.d_space (dnth 0 d)))
                                  (DH.C09_Transforms.Entry.d_rows (dnth 1 d))));
    (202, fun d => elist DH.C09_Transforms.Entry.eQQ (flat_map (ask_pw_args rid (DH.C09_Transforms.Entry.d_lg (dnth 2 d)) (DH.C09_Transforms.Entry.d_space (dnth 0 d))) (DH.C09_Transforms.Entry.d_rows (dnth 1 d))));
    (203, fun d => DH.C09_Transforms.Entry.e_rows (map (design_decode rid (DH.C09_Transforms.Entry.d_lg (dnth 2 d)) (DH.C09_Transforms.Entry.d_pw (dnth 3 d)) (DH.C09_Transforms.Entry.d_space (dnth 0 d)))
                                  (DH.C09_Transforms.Entry.d_rows (dnth 1 d))));
    (204, fun d => elist DH.C09_Transforms.Entry.eQQ (flat_map (design_pw_args rid (DH.C09_Transforms.Entry.d_lg (dnth 2 d)) (DH.C09_Transforms.Entry.d_space (dnth 0 d))) (DH.C09_Transforms.Entry.d_rows (dnth 1 d))));
    (205, fun d => let sp := DH.C09_Transforms.Entry.d_space (dnth 0 d) in let rows := DH.C09_Transforms.Entry.d_rows (dnth 1 d) in
                   L [ elist (fun r => L [ebool (in_space sp r); ebool (contains sp r); eZ (tell_code (check_x sp r))]) rows;
                       eZ (tell_code (check_xs sp rows)); ebool (wf_space sp) ]);
    (206, fun d => eZ (ok_C02 (dbool (dnth 0 d)) (dmap (fun p => (d_hdecl (dnth 0 p), d_hobs (dnth 1 p))) (dnth 1 d))
                              (dbool (dnth 2 d)) (dbool (dnth 3 d))));
    (207, fun d => e_qrow (canon (dmap d_hp (dnth 0 d)) (dmap dbool (dnth 1 d)) (d_qrow (dnth 2 d))));
    (208, fun d => e_qrow (canon_row (DH.C09_Transforms.Entry.d_space (dnth 0 d)) (dmap dbool (dnth 1 d)) (d_qrow (dnth 2 d))));
    (209, fun d => let sp := DH.C09_Transforms.Entry.d_space (dnth 0 d) in let st := d_ostate (dnth 1 d) in
                   let n := dopt dnat (dnth 3 d) in let s := d_strat (dnth 4 d) in
                   L [ eZ (accept_ask sp st (DH.C09_Transforms.Entry.d_rows (dnth 2 d)) n s (DH.C09_Transforms.Entry.d_rows (dnth 5 d)));
                       eZ (branch_code (branch_of st n s)); e_obs (ask_post st n s) ]);
    (210, fun d => e_obs (tell_post (d_ostate (dnth 0 d)) (dZ (dnth 1 d)) (dbool (dnth 2 d))));
    (211, fun d => elist (fun z => ebool (ident_ok (DH.C09_Transforms.Entry.d_space (dnth 0 d)) z)) (DH.C09_Transforms.Entry.d_rows (dnth 1 d)));
    (212, fun d => elist (fun p => L [eZ (fst p); eZ (snd p)]) canon_sel_table) ].
