(* tell's check (check_x_in_space / Space.__contains__) accepts every member of the space; it is strictly weaker than
   membership (Integer.__contains__ does not test integrality, zip ignores missing trailing components). *)
From Coq Require Import List ZArith QArith Qround Bool Lia Arith.
Import ListNotations.
Require Import DH.C09_Transforms.Dims DH.C02_Membership.Model.
Open Scope Q_scope.

Lemma in_dim_contains d x : in_dim d x = true -> contains_dim d x = true.
Proof.
  destruct d as [lo hi p t|lo hi p t|k cats t]; cbn [in_dim contains_dim]; intros H; try exact H.
  apply andb_true_iff in H as [H _]. exact H.
Qed.

Lemma in_space_contains sp : forall row, in_space sp row = true -> contains sp row = true.
Proof.
  induction sp as [|d sp IH]; intros [|x row] H; try reflexivity; try discriminate.
  cbn [in_space] in H. apply andb_true_iff in H as [H1 H2]. cbn [contains].
  rewrite (in_dim_contains d x H1). apply IH, H2.
Qed.

Lemma in_space_length sp : forall row, in_space sp row = true -> length row = length sp.
Proof.
  induction sp as [|d sp IH]; intros [|x row] H; try reflexivity; try discriminate.
  cbn [in_space] in H. apply andb_true_iff in H as [_ H2]. cbn [length]. f_equal. apply IH, H2.
Qed.

Theorem tell_accepts sp row : in_space sp row = true -> check_x sp row = TOk.
Proof.
  intros H. unfold check_x. rewrite (in_space_contains sp row H). cbn [negb].
  rewrite (in_space_length sp row H), Nat.eqb_refl. reflexivity.
Qed.

Theorem tell_accepts_batch sp rows : Forall (fun r => in_space sp r = true) rows -> check_xs sp rows = TOk.
Proof.
  intros H. unfold check_xs.
  assert (A : forallb (contains sp) rows = true).
  { apply forallb_forall. intros r Hr. rewrite Forall_forall in H. apply in_space_contains, H, Hr. }
  assert (B : forallb (fun r => Nat.eqb (length r) (length sp)) rows = true).
  { apply forallb_forall. intros r Hr. rewrite Forall_forall in H. apply Nat.eqb_eq, in_space_length, H, Hr. }
  rewrite A, B. reflexivity.
Qed.

(* the converse fails: 3/2 is accepted for Integer(0, 5) *)
Lemma tell_check_weaker : exists sp row, check_x sp row = TOk /\ in_space sp row = false.
Proof. exists [DInt 0 5 PUniform TIdentity], [3 # 2]. split; reflexivity. Qed.

(* a transformed row of a one-hot / normalised space is rejected (what F03 runs into) *)
Lemma tell_rejects_transformed :
  check_x [DCat KTok [5; 6; 7] COnehot] [0; 1; 0] = TErrBounds /\
  check_x [DCat KTok [0; 1; 2] COnehot] [0; 1; 0] = TErrDims /\
  check_x [DReal 10 20 PUniform TNormalize] [1 # 2] = TErrBounds.
Proof. repeat split; reflexivity. Qed.
