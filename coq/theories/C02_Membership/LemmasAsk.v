(* The ask automaton: every point handed out along ANY history of tell / ask events is a member of the space, for every
   oracle (random samples, indices, acquisition-optimizer vectors, activity flags, numbers of non-failed results) - for the
   REPAIRED one-shot branches; the pinned ones (topk / boltzmann return transformed rows) are refuted by a witness. *)
From Coq Require Import List ZArith QArith Qround Bool Lia Lqa Arith.
Import ListNotations.
Require Import DH.C09_Transforms.Dims DH.C09_Transforms.Model DH.C09_Transforms.LemmasMember.
Require Import DH.C02_Membership.Model DH.C02_Membership.LemmasDecode DH.C02_Membership.LemmasTell DH.C02_Membership.LemmasCanon.
Open Scope Q_scope.

Definition mem (sp : space) (r : list Q) : Prop := in_space sp r = true.

Lemma Forall_firstn_ {A} (P : A -> Prop) n : forall l, Forall P l -> Forall P (firstn n l).
Proof.
  induction n as [|n IH]; intros [|x l] H; cbn [firstn]; try constructor.
  - inversion H; assumption.
  - apply IH. inversion H; assumption.
Qed.

Lemma Forall_skipn_ {A} (P : A -> Prop) n : forall l, Forall P l -> Forall P (skipn n l).
Proof.
  induction n as [|n IH]; intros [|x l] H; cbn [skipn]; try assumption.
  apply IH. inversion H; assumption.
Qed.

Lemma pick_In {A} (l : list A) : forall idx y, In y (pick l idx) -> In y l.
Proof.
  induction idx as [|i idx IH]; intros y H; [contradiction|].
  cbn [pick] in H. destruct (nth_error l i) eqn:E.
  - destruct H as [<-|H]; [eapply nth_error_In, E| apply IH, H].
  - apply IH, H.
Qed.

Lemma Forall_pick {A} (P : A -> Prop) l idx : Forall P l -> Forall P (pick l idx).
Proof. intros H. apply Forall_forall. intros y Hy. rewrite Forall_forall in H. apply H, (pick_In l idx y Hy). Qed.

Section Ask.
  Variable R : Q -> Q.
  Variable lg : Q -> Q.
  Variable pw : Q -> Q -> Q.
  Variable sp : space.
  Variable actf : list Q -> list bool.
  Hypothesis WF : wf_space sp = true.

  Record Inv (st : ostate) : Prop := {
    inv_init : Forall (mem sp) (o_init st);
    inv_next : forall x, o_next st = Some x -> mem sp x;
    inv_last : forall L, o_last st = Some L -> exists cands, Forall (mem sp) cands /\ L = map (transform_row R lg sp) cands }.

  (* what is assumed of the libraries: random samples are members (Space.rvs; re-checked by the oracle on every run);
     the vector handed to the final decode satisfies the identity-category hypothesis (vacuous without such dimensions,
     true for transformed candidates) *)
  Definition ev_ok (e : event) : Prop :=
    match e with
    | Tell _ _ cands z => Forall (mem sp) cands /\ ident_ok sp z = true
    | Ask _ _ orc => Forall (mem sp) (r_rvs orc) /\ Forall (fun z => ident_ok sp z = true) (r_fits orc)
    end.

  Lemma deactivate_member x : mem sp x -> mem sp (deactivate sp actf x).
  Proof. intros M. unfold mem, deactivate. apply canon_row_member; [exact WF| exact M]. Qed.

  Lemma fit_point_member z : ident_ok sp z = true -> mem sp (fit_point R lg pw sp actf z).
  Proof. intros I. unfold fit_point. apply deactivate_member. apply ask_decode_member; assumption. Qed.

  Lemma tell_state_inv st k fit cands z :
    Inv st -> Forall (mem sp) cands -> ident_ok sp z = true -> Inv (tell_state R lg pw sp actf st k fit cands z).
  Proof.
    intros [I1 I2 I3] HC HZ. unfold tell_state.
    destruct (fit && (o_ninit st - k <=? 0)%Z && negb (o_dummy st)).
    - constructor; cbn [o_init o_next o_last].
      + exact I1.
      + intros x E. injection E as <-. apply fit_point_member, HZ.
      + intros L E. injection E as <-. exists cands. split; [exact HC| reflexivity].
    - constructor; cbn [o_init o_next o_last]; assumption.
  Qed.

  (* membership holds for the repaired branch and for the F03-only branch alike *)
  Lemma ask_points_inv v st n s orc : v <> Pinned ->
    Inv st -> ev_ok (Ask n s orc) ->
    Forall (mem sp) (fst (ask_points R lg pw v sp actf st n s orc)) /\ Inv (snd (ask_points R lg pw v sp actf st n s orc)).
  Proof.
    intros NP [I1 I2 I3] [HR HF]. unfold ask_points.
    destruct (branch_of st n s); cbn [fst snd].
    - (* BSingleInit *)
      destruct (o_init st) as [|x rest] eqn:E; cbn [fst snd].
      + split; [constructor| constructor; [rewrite E; constructor| exact I2| exact I3]].
      + inversion I1 as [|? ? Hx Hr]; subst.
        split; [constructor; [exact Hx| constructor]|]. constructor; cbn [o_init o_next o_last]; assumption.
    - split; [apply Forall_firstn_, HR| constructor; assumption].
    - split; [|constructor; assumption].
      destruct (o_next st) as [x|] eqn:E; [|constructor]. constructor; [apply I2; reflexivity| constructor].
    - split; [constructor| constructor; assumption].
    - (* BMultiInit *)
      split.
      + apply Forall_app. split; apply Forall_firstn_; assumption.
      + constructor; cbn [o_init o_next o_last]; [apply Forall_skipn_, I1| exact I2| exact I3].
    - split; [constructor| constructor; assumption].
    - (* BOneShot *)
      split; [|constructor; assumption].
      destruct (o_last st) as [L|] eqn:E; [|constructor].
      destruct (I3 L eq_refl) as [cands [HC ->]].
      apply Forall_forall. intros y Hy. apply in_map_iff in Hy as [zt [<- Hz]].
      apply pick_In in Hz. apply in_map_iff in Hz as [x [<- Hx]].
      rewrite Forall_forall in HC.
      assert (M : mem sp (inverse_row R lg pw sp (transform_row R lg sp x))) by (apply row_member; [exact WF| apply HC, Hx]).
      destruct v; cbn [oneshot_point]; [contradiction| exact M| apply deactivate_member, M].
    - (* BQ *)
      split; [|constructor; assumption].
      apply Forall_app. split.
      + destruct (o_next st) as [x|] eqn:E; [|constructor]. constructor; [apply I2; reflexivity| constructor].
      + apply Forall_pick, HR.
    - (* BCL *)
      split; [|constructor; assumption].
      apply Forall_forall. intros y Hy. apply in_map_iff in Hy as [z [<- Hz]].
      rewrite Forall_forall in HF. apply fit_point_member, HF, Hz.
  Qed.

  Lemma step_inv v st e : v <> Pinned ->
    Inv st -> ev_ok e ->
    Forall (mem sp) (fst (step R lg pw v sp actf st e)) /\ Inv (snd (step R lg pw v sp actf st e)).
  Proof.
    intros NP I H. destruct e as [k fit cands z|n s orc]; cbn [step].
    - destruct H as [HC HZ]. cbn [fst snd]. split; [constructor| apply tell_state_inv; assumption].
    - apply ask_points_inv; assumption.
  Qed.

  Theorem asked_members v : v <> Pinned -> forall evs st,
    Inv st -> Forall ev_ok evs -> Forall (mem sp) (asked R lg pw v sp actf st evs).
  Proof.
    intros NP. induction evs as [|e evs IH]; intros st I H; cbn [asked]; [constructor|].
    inversion H as [|? ? He Hes]; subst.
    destruct (step_inv v st e NP I He) as [A B].
    destruct (step R lg pw v sp actf st e) as [rows st'] eqn:E. cbn [fst snd] in A, B.
    apply Forall_app. split; [exact A| apply IH; assumption].
  Qed.

  (* ... and tell accepts every one of them back *)
  Corollary asked_accepted v evs st : v <> Pinned ->
    Inv st -> Forall ev_ok evs -> Forall (fun r => check_x sp r = TOk) (asked R lg pw v sp actf st evs).
  Proof.
    intros NP I H. pose proof (asked_members v NP evs st I H) as M. rewrite Forall_forall in *. intros r Hr. apply tell_accepts, M, Hr.
  Qed.

  (* the state Optimizer.__init__ builds: caller's points (members) + the decoded initial design *)
  Lemma init_state_inv n_initial dummy user design :
    Forall (mem sp) user -> Inv (init_state R lg pw sp n_initial dummy user design).
  Proof.
    intros HU. unfold init_state. constructor; cbn [o_init o_next o_last].
    - apply Forall_app. split; [exact HU|]. apply Forall_forall. intros y Hy. apply in_map_iff in Hy as [u [<- _]].
      apply design_decode_member, WF.
    - intros x E. discriminate.
    - intros L E. discriminate.
  Qed.

  (* ---------- canonical inactive values along every history (repaired one-shot branches) ---------- *)
  (* a point is canonical when deactivate_inactive_dimensions leaves it alone *)
  Definition canonical (x : list Q) : Prop := deactivate sp actf x = x.

  (* ConfigSpace: the values of inactive hyperparameters play no role for the activity of any hyperparameter
     (checked on every run by the canon stream, clause activity_changed_by_canonicalisation) *)
  Hypothesis act_stable : forall x, actf (deactivate sp actf x) = actf x.

  Lemma deactivate_canonical x : canonical (deactivate sp actf x).
  Proof. unfold canonical. unfold deactivate at 1. rewrite act_stable. unfold deactivate. apply canon_row_idempotent. Qed.

  Record InvC (st : ostate) : Prop := {
    invc_init : Forall canonical (o_init st);
    invc_next : forall x, o_next st = Some x -> canonical x }.

  (* the samples of Space.rvs come canonical from the ConfigSpace path (re-checked on every run: canon stream, clause rvs_not_canonical) *)
  Definition ev_canon (e : event) : Prop :=
    match e with Tell _ _ _ _ => True | Ask _ _ orc => Forall canonical (r_rvs orc) end.

  Lemma tell_state_invc st k fit cands z : InvC st -> InvC (tell_state R lg pw sp actf st k fit cands z).
  Proof.
    intros [I1 I2]. unfold tell_state. destruct (fit && (o_ninit st - k <=? 0)%Z && negb (o_dummy st)).
    - constructor; cbn [o_init o_next]; [exact I1|]. intros x E. injection E as <-. apply deactivate_canonical.
    - constructor; cbn [o_init o_next]; assumption.
  Qed.

  Lemma ask_points_invc st n s orc :
    InvC st -> ev_canon (Ask n s orc) ->
    Forall canonical (fst (ask_points R lg pw Fixed sp actf st n s orc)) /\ InvC (snd (ask_points R lg pw Fixed sp actf st n s orc)).
  Proof.
    intros [I1 I2] HR. cbn [ev_canon] in HR. unfold ask_points.
    destruct (branch_of st n s); cbn [fst snd].
    - destruct (o_init st) as [|x rest] eqn:E; cbn [fst snd].
      + split; [constructor| constructor; [rewrite E; constructor| exact I2]].
      + inversion I1 as [|? ? Hx Hr]; subst.
        split; [constructor; [exact Hx| constructor]|]. constructor; cbn [o_init o_next]; assumption.
    - split; [apply Forall_firstn_, HR| constructor; assumption].
    - split; [|constructor; assumption].
      destruct (o_next st) as [x|] eqn:E; [|constructor]. constructor; [apply I2; reflexivity| constructor].
    - split; [constructor| constructor; assumption].
    - split.
      + apply Forall_app. split; apply Forall_firstn_; assumption.
      + constructor; cbn [o_init o_next]; [apply Forall_skipn_, I1| exact I2].
    - split; [constructor| constructor; assumption].
    - split; [|constructor; assumption].
      destruct (o_last st) as [L|]; [|constructor].
      apply Forall_forall. intros y Hy. apply in_map_iff in Hy as [zt [<- _]]. cbn [oneshot_point]. apply deactivate_canonical.
    - split; [|constructor; assumption].
      apply Forall_app. split.
      + destruct (o_next st) as [x|] eqn:E; [|constructor]. constructor; [apply I2; reflexivity| constructor].
      + apply Forall_pick, HR.
    - split; [|constructor; assumption].
      apply Forall_forall. intros y Hy. apply in_map_iff in Hy as [z [<- _]]. unfold fit_point. apply deactivate_canonical.
  Qed.

  Theorem asked_canonical : forall evs st,
    InvC st -> Forall ev_canon evs -> Forall canonical (asked R lg pw Fixed sp actf st evs).
  Proof.
    induction evs as [|e evs IH]; intros st I H; cbn [asked]; [constructor|].
    inversion H as [|? ? He Hes]; subst.
    assert (AB : Forall canonical (fst (step R lg pw Fixed sp actf st e)) /\ InvC (snd (step R lg pw Fixed sp actf st e))).
    { destruct e as [k fit cands z|n s orc]; cbn [step fst snd].
      - split; [constructor| apply tell_state_invc, I].
      - apply ask_points_invc; assumption. }
    destruct AB as [A B]. destruct (step R lg pw Fixed sp actf st e) as [rows st'] eqn:E. cbn [fst snd] in A, B.
    apply Forall_app. split; [exact A| apply IH; assumption].
  Qed.

  (* ---------- several search() calls on one object: a history splits into consecutive calls ---------- *)
  Lemma asked_app v : forall evs1 evs2 st,
    asked R lg pw v sp actf st (evs1 ++ evs2) =
    asked R lg pw v sp actf st evs1 ++ asked R lg pw v sp actf (final R lg pw v sp actf st evs1) evs2.
  Proof.
    induction evs1 as [|e evs1 IH]; intros evs2 st; [reflexivity|].
    cbn [app asked final]. destruct (step R lg pw v sp actf st e) as [rows st'] eqn:E. cbn [snd].
    rewrite IH, app_assoc. reflexivity.
  Qed.

  Lemma final_inv v : v <> Pinned -> forall evs st, Inv st -> Forall ev_ok evs -> Inv (final R lg pw v sp actf st evs).
  Proof.
    intros NP. induction evs as [|e evs IH]; intros st I H; cbn [final]; [exact I|].
    inversion H as [|? ? He Hes]; subst. apply IH; [|exact Hes]. apply (step_inv v st e NP I He).
  Qed.

  Lemma final_invc : forall evs st, InvC st -> Forall ev_canon evs -> InvC (final R lg pw Fixed sp actf st evs).
  Proof.
    induction evs as [|e evs IH]; intros st I H; cbn [final]; [exact I|].
    inversion H as [|? ? He Hes]; subst. apply IH; [|exact Hes].
    destruct e as [k fit cands z|n s orc]; cbn [step snd].
    - apply tell_state_invc, I.
    - apply (ask_points_invc st n s orc I He).
  Qed.

  (* the initial state is canonical when the caller's points are and there is no quasi-random design (the property quantifies
     constrained spaces with the random design only: the designs fill the box and ignore conditions) *)
  Lemma init_state_invc n_initial dummy user : Forall canonical user -> InvC (init_state R lg pw sp n_initial dummy user []).
  Proof.
    intros HU. unfold init_state. constructor; cbn [o_init o_next map]; [rewrite app_nil_r; exact HU| discriminate].
  Qed.
End Ask.

(* the automaton state and the checker's next-state functions agree (what the step-wise correspondence compares) *)
Require Import DH.C02_Membership.Check.

Lemma ask_post_spec R lg pw v sp actf st n s orc :
  ask_post st n s = obs_of (snd (ask_points R lg pw v sp actf st n s orc)).
Proof.
  unfold ask_post, ask_points, obs_of. destruct (branch_of st n s) eqn:B; cbn [snd]; try reflexivity.
  - destruct (o_init st) as [|x rest] eqn:E; cbn [snd o_ninit o_init o_models o_last length pred]; [rewrite E|]; reflexivity.
  - cbn [o_ninit o_init o_models o_last]. rewrite skipn_length. reflexivity.
Qed.

Lemma tell_post_spec R lg pw sp actf st k fit cands z :
  tell_post st k fit = obs_of (tell_state R lg pw sp actf st k fit cands z).
Proof.
  unfold tell_post, tell_state, obs_of. destruct (fit && (o_ninit st - k <=? 0)%Z && negb (o_dummy st)); reflexivity.
Qed.

(* ---------- the pinned one-shot branches ---------- *)
Definition Rid (x : Q) : Q := x.
Definition lg0 (x : Q) : Q := 0.
Definition pw0 (b x : Q) : Q := 0.
Definition act_all (x : list Q) : list bool := map (fun _ => true) x.

Definition wit_sp : space := [DReal 10 20 PUniform TNormalize].
Definition wit_st : ostate := mkO 1 [] false O None None.
Definition wit_evs : list event :=
  [ Tell 1 true [[15]; [12]] [1 # 2];                       (* one result told, model fitted, argmin = 0.5 *)
    Ask (Some 2%nat) StTopk (mkOr [] [0%nat; 1%nat] []) ].  (* ask(2, "topk") *)

Lemma topk_pinned_refuted :
  wf_space wit_sp = true /\ Inv Rid lg0 wit_sp wit_st /\ Forall (ev_ok wit_sp) wit_evs /\
  length (asked Rid lg0 pw0 Pinned wit_sp act_all wit_st wit_evs) = 2%nat /\
  Forall (fun r => in_space wit_sp r = false /\ check_x wit_sp r = TErrBounds) (asked Rid lg0 pw0 Pinned wit_sp act_all wit_st wit_evs) /\
  Forall (fun r => in_space wit_sp r = true) (asked Rid lg0 pw0 Fixed wit_sp act_all wit_st wit_evs).
Proof.
  split; [reflexivity|]. split.
  - constructor; cbn; [constructor| discriminate| discriminate].
  - split; [repeat constructor|]. split; [vm_compute; reflexivity|]. split.
    + vm_compute. repeat constructor.
    + vm_compute. repeat constructor.
Qed.

(* ---------- the one-shot branches with fixes/F03 alone: members, but inactive values drift ---------- *)
(* space: a parent category {0, 1} and a child Real(2/1000, 9/10) that is active iff the parent is 0; a rounding that errs
   upwards by a relative 2^-53 (admissible: what 10 ** log10(0.002) does in binary64) moves the child's canonical value
   2/1000 off the lower bound on the round trip; without deactivate_inactive_dimensions the point handed out is a member
   of the space but not canonical *)
Definition R_up53 (x : Q) : Q := x * (1 + (1 # 9007199254740992)).
Definition drift_sp : space := [DCat KTok [0; 1] CLabel; DReal (2 # 1000) (9 # 10) PUniform TNormalize].
Definition drift_act (x : list Q) : list bool := [true; Qeq_bool (hd 0 x) 0].
Definition drift_st : ostate := mkO 1 [] false O None None.
Definition drift_evs : list event :=
  [ Tell 1 true [[1; 2 # 1000]] [1; 0];                     (* the only candidate: parent = 1, child inactive at its canonical value *)
    Ask (Some 2%nat) StTopk (mkOr [] [0%nat] []) ].

Lemma oneshot_decoded_refuted :
  wf_space drift_sp = true /\ Forall (ev_ok drift_sp) drift_evs /\
  (forall x, drift_act (deactivate drift_sp drift_act x) = drift_act x) /\
  Forall (canonical drift_sp drift_act) [[1; 2 # 1000]] /\
  Forall (fun r => in_space drift_sp r = true) (asked R_up53 lg0 pw0 Decoded drift_sp drift_act drift_st drift_evs) /\
  Exists (fun r => deactivate drift_sp drift_act r <> r) (asked R_up53 lg0 pw0 Decoded drift_sp drift_act drift_st drift_evs) /\
  Forall (canonical drift_sp drift_act) (asked R_up53 lg0 pw0 Fixed drift_sp drift_act drift_st drift_evs).
Proof.
  split; [reflexivity|]. split; [repeat constructor|]. split.
  - intros x. unfold drift_act, deactivate, drift_sp. destruct x as [|a [|b x]]; reflexivity.
  - split; [repeat constructor|]. split; [vm_compute; repeat constructor|]. split.
    + apply Exists_cons_hd. vm_compute. intros E. discriminate E.
    + vm_compute. repeat constructor.
Qed.
