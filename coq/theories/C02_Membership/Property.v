(* C02 - Every proposed configuration is a member of the declared search space.
   Theorems only (proofs in Lemmas*.v / Check.v), each followed by Print Assumptions; non-vacuity Examples at the end.
   The model (Model.v, on top of C09's Dims.v / Model.v) describes /repo at HEAD + fixes/F03; R, lg, pw are ARBITRARY
   (every binary64 rounding, every libm log10 / pow): membership is established by the final decode alone. *)
From Coq Require Import List ZArith QArith Qround Bool String.
Import ListNotations.
Require Import DH.C09_Transforms.Dims DH.C09_Transforms.Model.
Require Import DH.C02_Membership.Model DH.C02_Membership.Check DH.C02_Membership.Options.
Require Import DH.C02_Membership.LemmasDecode DH.C02_Membership.LemmasTell DH.C02_Membership.LemmasCanon
               DH.C02_Membership.LemmasAsk DH.C02_Membership.LemmasOptions DH.C02_Membership.LemmasProp.
Open Scope Q_scope.

(* (1) every path that produces a point by inverse_transform yields a member:
       a. any vector whose identity-encoded coordinates (numeric ordinal hyperparameters) are declared categories - after the
          clip of Optimizer._tell, i.e. in range, on the bounds, or out of range as lbfgs may return it;
       b. in particular every transformed candidate (argmin of the acquisition function over the sampled points);
       c. ANY vector at all when the space has no identity-encoded category;
       d. ANY vector for the space a GP surrogate works in (normalize_dimensions);
       e. ANY point of the unit cube decoded by an initial design (sobol, halton, hammersly, lhs, grid). *)
Theorem C02_decode_in_space : forall (R lg : Q -> Q) (pw : Q -> Q -> Q) (sp : space), wf_space sp = true ->
  (forall z, ident_ok sp z = true -> in_space sp (ask_decode R lg pw sp z) = true) /\
  (forall x, in_space sp x = true -> in_space sp (ask_decode R lg pw sp (transform_row R lg sp x)) = true) /\
  (no_ident sp = true -> forall z, in_space sp (ask_decode R lg pw sp z) = true) /\
  (forall z, in_space sp (ask_decode R lg pw (normalize_space sp) z) = true) /\
  (forall u, in_space sp (design_decode R lg pw sp u) = true).
Proof. exact decode_in_space. Qed.
Print Assumptions C02_decode_in_space.

(* the hypothesis of (1a) cannot be dropped: an identity-encoded ordinal and a vector inside the transformed bounds (what
   a continuous acquisition optimizer - ga, lbfgs - may return) decode to a value that is no category *)
Theorem C02_decode_free_ordinal_refuted :
  exists sp z, wf_space sp = true /\ (forall R lg, Forall2 (fun v b => fst b <= v <= snd b) z (tbounds_space R lg sp)) /\
               forall R lg pw, in_space sp (ask_decode R lg pw sp z) = false.
Proof. exact ident_hypothesis_needed. Qed.
Print Assumptions C02_decode_free_ordinal_refuted.

(* (2) tell accepts every member (one point / a batch) *)
Theorem C02_tell_accepts : forall sp,
  (forall row, in_space sp row = true -> check_x sp row = TOk) /\
  (forall rows, Forall (fun r => in_space sp r = true) rows -> check_xs sp rows = TOk).
Proof. exact tell_accepts_both. Qed.
Print Assumptions C02_tell_accepts.

(* (3) canonicalisation of inactive hyperparameters: table value for the inactive ones, active ones untouched, idempotent,
       membership preserved, and it is what the optimizer's Space does (bounds[0]) *)
Theorem C02_canon : forall hps act cfg,
  (forall i h v d, nth_error hps i = Some h -> nth_error act i = Some false -> nth_error cfg i = Some v ->
                   nth i (canon hps act cfg) d = canon_value h) /\
  (forall i h v d, nth_error hps i = Some h -> nth_error act i = Some true -> nth_error cfg i = Some v ->
                   nth i (canon hps act cfg) d = v) /\
  canon hps act (canon hps act cfg) = canon hps act cfg /\
  (forallb hp_wf hps = true -> List.length act = List.length hps -> in_space (map snd hps) cfg = true ->
   in_space (map snd hps) (canon hps act cfg) = true /\ canon hps act cfg = canon_row (map snd hps) act cfg).
Proof. exact canon_props. Qed.
Print Assumptions C02_canon.

(* (4) the ask automaton (single ask, initial-points branch, constant-liar loop, qLCB, one-shot topk / boltzmann): along
       EVERY history of tell / ask events - whatever numbers of failed / successful results were told, whatever the
       libraries returned - every point handed out is a member of the space and is accepted back by tell's check *)
Theorem C02_ask_paths_original_space : forall (R lg : Q -> Q) (pw : Q -> Q -> Q) sp actf v n_initial dummy user design evs,
  v <> Pinned ->
  wf_space sp = true -> Forall (fun r => in_space sp r = true) user -> Forall (ev_ok sp) evs ->
  let pts := asked R lg pw v sp actf (init_state R lg pw sp n_initial dummy user design) evs in
  Forall (fun r => in_space sp r = true) pts /\ Forall (fun r => check_x sp r = TOk) pts.
Proof. exact ask_paths_original_space. Qed.
Print Assumptions C02_ask_paths_original_space.

(* the pinned one-shot branches (topk / boltzmann return rows of _last_X, the TRANSFORMED candidates): a history on which
   both returned points are outside the space and are rejected by tell - while the repaired branch returns members (F03) *)
Theorem C02_topk_refuted :
  exists R lg pw sp actf st evs,
    wf_space sp = true /\ Inv R lg sp st /\ Forall (ev_ok sp) evs /\
    List.length (asked R lg pw Pinned sp actf st evs) = 2%nat /\
    Forall (fun r => in_space sp r = false /\ check_x sp r = TErrBounds) (asked R lg pw Pinned sp actf st evs) /\
    Forall (fun r => in_space sp r = true) (asked R lg pw Fixed sp actf st evs).
Proof. exact topk_refuted. Qed.
Print Assumptions C02_topk_refuted.

(* (4b) ... and carries the canonical value of every inactive dimension (deactivate_inactive_dimensions leaves it alone), for
        every activity function actf that ignores the values of inactive dimensions, when the caller's points and the random
        samples are canonical (Space.rvs pins them; re-checked on every run) and there is no quasi-random design (the property
        quantifies constrained spaces with the random design only).  This is the statement the round trip
        inverse_transform(transform(candidate)) - which is NOT exact for log-uniform floats - would break without the final
        deactivate_inactive_dimensions. *)
Theorem C02_ask_paths_canonical : forall (R lg : Q -> Q) (pw : Q -> Q -> Q) sp actf n_initial dummy user evs,
  (forall x, actf (deactivate sp actf x) = actf x) ->
  Forall (canonical sp actf) user -> Forall (ev_canon sp actf) evs ->
  Forall (canonical sp actf) (asked R lg pw Fixed sp actf (init_state R lg pw sp n_initial dummy user []) evs).
Proof. exact ask_paths_canonical. Qed.
Print Assumptions C02_ask_paths_canonical.

(* the one-shot branches with fixes/F03 alone (inverse_transform but no deactivate_inactive_dimensions; /repo before fixes/F49):
   with a rounding that errs upwards by a relative 2^-53 the inactive child comes back one step above its canonical lower
   bound - a member of the space, accepted by tell, but not canonical; the repaired branch returns canonical points *)
Theorem C02_oneshot_noncanonical_refuted :
  exists R lg pw sp actf st evs user,
    wf_space sp = true /\ Forall (ev_ok sp) evs /\ (forall x, actf (deactivate sp actf x) = actf x) /\
    Forall (canonical sp actf) user /\
    Forall (fun r => in_space sp r = true) (asked R lg pw Decoded sp actf st evs) /\
    Exists (fun r => deactivate sp actf r <> r) (asked R lg pw Decoded sp actf st evs) /\
    Forall (canonical sp actf) (asked R lg pw Fixed sp actf st evs).
Proof. exact oneshot_noncanonical_refuted. Qed.
Print Assumptions C02_oneshot_noncanonical_refuted.

(* (4c) several search() calls on ONE object (pattern "state that survives between calls"): the object's history is the
        concatenation of the calls' histories, the points handed out are the concatenation of the calls' points, and the state
        a later call starts from satisfies the invariants (4) and (4b) start from - every later call is covered again *)
Theorem C02_history_composes : forall (R lg : Q -> Q) (pw : Q -> Q -> Q) sp actf v st evs1 evs2,
  asked R lg pw v sp actf st (evs1 ++ evs2)%list =
    (asked R lg pw v sp actf st evs1 ++ asked R lg pw v sp actf (final R lg pw v sp actf st evs1) evs2)%list /\
  (v <> Pinned -> wf_space sp = true -> Inv R lg sp st -> Forall (ev_ok sp) evs1 -> Inv R lg sp (final R lg pw v sp actf st evs1)) /\
  ((forall x, actf (deactivate sp actf x) = actf x) -> InvC sp actf st -> Forall (ev_canon sp actf) evs1 ->
   InvC sp actf (final R lg pw Fixed sp actf st evs1)).
Proof. exact history_composes. Qed.
Print Assumptions C02_history_composes.

(* (5) the option lists the harness enumerates are the ones the source accepts (GENERATED facts), and every accepted
       acquisition function / strategy is forwarded to the Optimizer under a name the Optimizer accepts *)
Theorem C02_options_enumerated :
  DH.Generated.Facts_C02.srcfacts_ok = true /\
  same_set enum_surrogates DH.Generated.Facts_C02.surrogates_allowed = true /\
  same_set enum_acq DH.Generated.Facts_C02.acq_allowed = true /\
  same_set enum_strategies DH.Generated.Facts_C02.strategies_allowed = true /\
  same_set enum_designs DH.Generated.Facts_C02.designs_allowed = true /\
  same_set enum_acq_optimizers DH.Generated.Facts_C02.acq_optimizers_allowed = true /\
  acq_forwarded_ok = true /\ strategy_forwarded_ok = true.
Proof. exact options_enumerated. Qed.
Print Assumptions C02_options_enumerated.

(* the model's canonicalisation table is the GENERATED one (get_inactive_value_of_hyperparameter called on a representative
   of every ConfigSpace hyperparameter class) *)
Theorem C02_canon_table : DH.Generated.Facts_C02.srcfacts_ok = true /\ table_ok = true.
Proof. exact canon_table_generated. Qed.
Print Assumptions C02_canon_table.

(* (6) the oracles applied to the implementation's outputs decide exactly the specification *)
Theorem C02_oracle_config : forall names_ok l forbidden cs_valid,
  ok_C02 names_ok l forbidden cs_valid = 0%Z <-> Spec_C02 names_ok l forbidden cs_valid.
Proof. exact ok_C02_spec. Qed.
Print Assumptions C02_oracle_config.

Theorem C02_oracle_ask : forall sp st dl n s ret,
  accept_ask sp st dl n s ret = 0%Z ->
  (List.length ret <= npts n)%nat /\ Forall (fun r => in_space sp r = true) ret /\ Forall (fun r => check_x sp r = TOk) ret.
Proof. exact accept_ask_member. Qed.
Print Assumptions C02_oracle_ask.

(* the checker's next-state functions are the automaton's (step-wise correspondence compares these with the implementation) *)
Theorem C02_post_state : forall R lg pw v sp actf st,
  (forall n s orc, ask_post st n s = obs_of (snd (ask_points R lg pw v sp actf st n s orc))) /\
  (forall k fit cands z, tell_post st k fit = obs_of (tell_state R lg pw sp actf st k fit cands z)).
Proof. exact post_state. Qed.
Print Assumptions C02_post_state.

(* ---------- non-vacuity ---------- *)
(* a mixed space as CBO builds it: log-uniform real, integer, label-encoded categories, an identity-encoded ordinal *)
Definition ex_sp : space :=
  [DReal (1 # 100000) 10000000 (PLog 10) TIdentity; DInt 1 100 PUniform TIdentity; DCat KTok [0; 1; 2] CLabel; DCat KInt [1; 2; 4; 16] CIdentity].

Example ex_wf : wf_space ex_sp = true /\ no_ident ex_sp = false.
Proof. split; reflexivity. Qed.

(* a vector far outside the transformed bounds in every free coordinate, the ordinal coordinate a category: hypothesis true *)
Example ex_ident_ok : ident_ok ex_sp [100; -7; 9; 4] = true /\ ident_ok ex_sp [100; -7; 9; 3] = false.
Proof. split; reflexivity. Qed.

(* with exact arithmetic and pw = 0 the out-of-range vector decodes to the bounds / a category *)
Example ex_decode : ask_decode Rid lg0 pw0 ex_sp [100; -7; 9; 4] = [1 # 100000; 1; 2; 4].
Proof. vm_compute. reflexivity. Qed.

Example ex_design : design_decode Rid lg0 pw0 [DInt 1 100 PUniform TIdentity; DCat KTok [0; 1; 2] COnehot] [1 # 2; 1] = [50; 2].
Proof. vm_compute. reflexivity. Qed.

(* canonicalisation: the inactive integer gets its lower bound, the inactive category its first choice *)
Example ex_canon :
  canon [(HNumerical, DInt 3 9 PUniform TIdentity); (HCategorical, DCat KTok [0; 1; 2] CLabel); (HNumerical, DReal 0 1 PUniform TIdentity)]
        [false; false; true] [7; 2; 1 # 2] = [3; 0; 1 # 2].
Proof. reflexivity. Qed.

(* a history that visits the initial-points branch, the fit, the single ask, topk, qLCB and the constant-liar loop *)
Definition ex_evs : list event :=
  [ Ask (Some 3%nat) StCL (mkOr [[5 # 1000; 7; 1; 2]] [] []);
    Tell 3 true [[1; 50; 2; 16]; [100; 3; 0; 1]] [3; 40; 1; 2];
    Ask None StCL (mkOr [] [] []);
    Ask (Some 2%nat) StTopk (mkOr [] [1%nat; 0%nat] []);
    Ask (Some 2%nat) StQ (mkOr [[2; 9; 1; 4]] [0%nat] []);
    Ask (Some 2%nat) StCL (mkOr [] [] [[0; 0; 0; 1]; [9; 200; 5; 16]]) ].

Example ex_history_ok : Forall (ev_ok ex_sp) ex_evs.
Proof. repeat constructor. Qed.

Example ex_history_len :
  List.length (asked Rid lg0 pw0 Fixed ex_sp act_all (init_state Rid lg0 pw0 ex_sp 3 false [[1; 1; 0; 1]] [[0; 1; 1 # 2; 0]]) ex_evs) = 10%nat.
Proof. vm_compute. reflexivity. Qed.

(* the configuration oracle accepts a valid configuration and names the first failing clause otherwise *)
Example ex_oracle :
  ok_C02 true [(HDInt 1 10, mkObs true false 10 (-1) true); (HDFloat (1 # 10) (3 # 10), mkObs false true (1 # 10) (-1) false); (HDChoice 3, mkObs false false 0 2 true)] false true = 0%Z /\
  ok_C02 true [(HDInt 1 10, mkObs true false 11 (-1) true)] false true = 3%Z /\
  ok_C02 true [(HDInt 1 10, mkObs false true 5 (-1) true)] false true = 2%Z /\
  ok_C02 true [(HDChoice 3, mkObs false false 0 1 false)] false true = 5%Z.
Proof. repeat split; reflexivity. Qed.

(* the pre-fix behaviour of Real.inverse_transform (no clip, F02 - repaired in /repo, fixes/F02): kept as the regression
   witness; proved in C09 *)
Theorem C02_real_noclip_refuted :
  exists R d x, DH.C09_Transforms.LemmasRobust.admissible R /\ wf_dim d = true /\ in_dim d x = true /\
    (forall lg pw, in_dim d (inv_cell_noclip R lg pw d (tr_cell R lg d x)) = false).
Proof. exact DH.C09_Transforms.LemmasMember.real_member_refuted. Qed.
Print Assumptions C02_real_noclip_refuted.
