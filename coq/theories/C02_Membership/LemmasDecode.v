(* Membership after decode, for EVERY transformed vector and every oracle R, lg, pw:
     ask_decode_member      the pipeline of Optimizer._tell (clip to the transformed bounds unless purely categorical,
                            Space.inverse_transform)
     design_decode_member   the pipeline of the initial designs (normalise every dimension, inverse_transform)
   Corollaries of C09's inv_cell_member / cell_member; the only hypothesis concerns identity-encoded categories
   (numeric ordinal hyperparameters), whose warped coordinate must be a declared category - which holds for every
   transformed candidate (ident_ok_transform) - and disappears for spaces without such dimensions. *)
From Coq Require Import List ZArith QArith Qround Bool Lia Lqa Arith.
Import ListNotations.
Require Import DH.C09_Transforms.Dims DH.C09_Transforms.Model DH.C09_Transforms.LemmasNum DH.C09_Transforms.LemmasCat
               DH.C09_Transforms.LemmasExact DH.C09_Transforms.LemmasMember.
Require Import DH.C02_Membership.Model.
Open Scope Q_scope.

(* ---------- clip_row and the slicing of Space.inverse_transform ---------- *)
Lemma firstn_clip_app a b : forall z, firstn (length a) (clip_row (a ++ b) z) = clip_row a (firstn (length a) z).
Proof.
  induction a as [|[lo hi] a IH]; intros z.
  - cbn [length firstn app]. destruct z; reflexivity.
  - destruct z as [|x z]; [reflexivity|]. cbn [app clip_row length firstn]. f_equal. apply IH.
Qed.

Lemma skipn_clip_app a b : forall z, skipn (length a) (clip_row (a ++ b) z) = clip_row b (skipn (length a) z).
Proof.
  induction a as [|[lo hi] a IH]; intros z.
  - reflexivity.
  - destruct z as [|x z].
    + cbn [app clip_row length skipn]. destruct b as [|[l h] b]; reflexivity.
    + cbn [app clip_row length skipn]. apply IH.
Qed.

Lemma forallb_map {A B} (f : B -> bool) (g : A -> B) l : forallb f (map g l) = forallb (fun x => f (g x)) l.
Proof. induction l as [|a l IH]; [reflexivity|]. cbn [map forallb]. rewrite IH. reflexivity. Qed.

Lemma tbounds_length R lg d : length (tbounds R lg d) = tsize d.
Proof.
  destruct d as [lo hi p t|lo hi p t|k cats t]; try reflexivity.
  destruct t; try reflexivity; cbn [tbounds]; apply repeat_length.
Qed.

Lemma is_cat_ident_eq d : is_cat_ident d = is_cat_identity d.
Proof. destruct d as [| |k cats t]; reflexivity. Qed.

Section Decode.
  Variable R : Q -> Q.
  Variable lg : Q -> Q.
  Variable pw : Q -> Q -> Q.

  (* one dimension: decode of the clipped cell; [clipped] says whether the clip was applied *)
  Lemma cell_decode_member (clipped : bool) d zs :
    wf_dim d = true ->
    (is_cat_ident d = true -> memQ (hd 0 zs) (cats_of d) = true) ->
    in_dim d (inv_cell R lg pw d (if clipped then clip_row (tbounds R lg d) zs else zs)) = true.
  Proof.
    intros W H. destruct (is_cat_ident d) eqn:CI.
    - specialize (H eq_refl).
      destruct d as [| |k cats t]; try discriminate. destruct t; try discriminate.
      cbn [cats_of] in H.
      assert (E : hd 0 (if clipped then clip_row (tbounds R lg (DCat k cats CIdentity)) zs else zs) = hd 0 zs).
      { destruct clipped; [|reflexivity]. cbn [tbounds clip_row]. destruct zs as [|x zs]; [reflexivity|].
        cbn [clip_row hd]. cbn [hd] in H. apply clipQ_id. apply qmin_qmax, H. }
      pose proof (cell_member R lg pw (DCat k cats CIdentity) (hd 0 zs) W H) as M.
      cbn [tr_cell inv_cell cat_inv hd] in M. cbn [inv_cell cat_inv]. rewrite E. exact M.
    - apply inv_cell_member; [exact W| rewrite <- is_cat_ident_eq; exact CI].
  Qed.

  (* rows: with or without the clip *)
  Lemma row_decode_member (clipped : bool) sp : forall z,
    wf_space sp = true -> ident_ok sp z = true ->
    in_space sp (inverse_row R lg pw sp (if clipped then clip_row (tbounds_space R lg sp) z else z)) = true.
  Proof.
    induction sp as [|d sp IH]; intros z W I; cbn [inverse_row in_space]; [reflexivity|].
    cbn [wf_space forallb] in W. apply andb_true_iff in W as [W1 W2].
    cbn [ident_ok] in I. apply andb_true_iff in I as [I1 I2].
    apply andb_true_iff. split.
    - destruct clipped.
      + cbn [tbounds_space flat_map]. rewrite <- (tbounds_length R lg d) at 1. rewrite firstn_clip_app, tbounds_length.
        apply (cell_decode_member true); [exact W1|]. intros CI. rewrite CI in I1. exact I1.
      + apply (cell_decode_member false); [exact W1|]. intros CI. rewrite CI in I1. exact I1.
    - destruct clipped.
      + cbn [tbounds_space flat_map]. rewrite <- (tbounds_length R lg d) at 1. rewrite skipn_clip_app, tbounds_length.
        apply (IH (skipn (tsize d) z) W2 I2).
      + apply (IH (skipn (tsize d) z) W2 I2).
  Qed.

  Theorem ask_decode_member sp z :
    wf_space sp = true -> ident_ok sp z = true -> in_space sp (ask_decode R lg pw sp z) = true.
  Proof.
    intros W I. unfold ask_decode, clip_tb. destruct (all_cat sp).
    - apply (row_decode_member false); assumption.
    - apply (row_decode_member true); assumption.
  Qed.

  (* every transformed candidate satisfies the hypothesis *)
  Lemma ident_ok_transform sp : forall x, in_space sp x = true -> ident_ok sp (transform_row R lg sp x) = true.
  Proof.
    induction sp as [|d sp IH]; intros [|v x] I; try discriminate; cbn [ident_ok transform_row]; [reflexivity|].
    cbn [in_space] in I. apply andb_true_iff in I as [I1 I2].
    rewrite <- (tr_cell_length R lg d v). rewrite firstn_app_exact, skipn_app_exact.
    apply andb_true_iff. split; [|apply IH, I2].
    destruct (is_cat_ident d) eqn:CI; [|reflexivity].
    destruct d as [| |k cats t]; try discriminate. destruct t; try discriminate.
    cbn [tr_cell hd cats_of]. exact I1.
  Qed.

  (* spaces without identity-encoded categories: no hypothesis at all *)
  Definition no_ident (sp : space) : bool := forallb (fun d => negb (is_cat_ident d)) sp.

  Lemma no_ident_ok sp : forall z, no_ident sp = true -> ident_ok sp z = true.
  Proof.
    induction sp as [|d sp IH]; intros z N; cbn [ident_ok]; [reflexivity|].
    cbn [no_ident forallb] in N. apply andb_true_iff in N as [N1 N2]. apply negb_true_iff in N1. rewrite N1.
    cbn [andb]. apply IH, N2.
  Qed.

  Corollary ask_decode_member_any sp z :
    wf_space sp = true -> no_ident sp = true -> in_space sp (ask_decode R lg pw sp z) = true.
  Proof. intros W N. apply ask_decode_member; [exact W| apply no_ident_ok, N]. Qed.

  Corollary ask_decode_candidate sp x :
    wf_space sp = true -> in_space sp x = true ->
    in_space sp (ask_decode R lg pw sp (transform_row R lg sp x)) = true.
  Proof. intros W I. apply ask_decode_member; [exact W| apply ident_ok_transform, I]. Qed.

  (* ---------- the initial designs ---------- *)
  Lemma in_dim_normalize d x : in_dim (normalize_dim d) x = in_dim d x.
  Proof. destruct d; reflexivity. Qed.

  Lemma in_space_normalize sp : forall row, in_space (normalize_space sp) row = in_space sp row.
  Proof.
    induction sp as [|d sp IH]; intros [|x row]; try reflexivity.
    cbn [normalize_space map in_space]. rewrite in_dim_normalize. f_equal. apply IH.
  Qed.

  Lemma wf_dim_normalize d : wf_dim d = true -> wf_dim (normalize_dim d) = true.
  Proof.
    destruct d as [lo hi p t|lo hi p t|k cats t]; cbn [normalize_dim wf_dim]; try (intros H; exact H).
    intros H. apply andb_true_iff in H as [H _]. rewrite H. reflexivity.
  Qed.

  Lemma wf_space_normalize sp : wf_space sp = true -> wf_space (normalize_space sp) = true.
  Proof.
    unfold wf_space, normalize_space. rewrite forallb_map. intros H. rewrite forallb_forall in H.
    apply forallb_forall. intros d Hd. apply wf_dim_normalize, H, Hd.
  Qed.

  Lemma no_ident_normalize sp : forallb (fun d => negb (is_cat_identity d)) (normalize_space sp) = true.
  Proof.
    unfold normalize_space. rewrite forallb_map. apply forallb_forall. intros d _. destruct d; reflexivity.
  Qed.

  Theorem design_decode_member sp u : wf_space sp = true -> in_space sp (design_decode R lg pw sp u) = true.
  Proof.
    intros W. unfold design_decode. rewrite <- in_space_normalize.
    apply inverse_row_member; [apply wf_space_normalize, W| apply no_ident_normalize].
  Qed.

  (* a GP surrogate normalises the optimizer's own space (normalize_dimensions): no identity categories are left *)
  Lemma no_ident_normalized sp : no_ident (normalize_space sp) = true.
  Proof. unfold no_ident, normalize_space. rewrite forallb_map. apply forallb_forall. intros d _. destruct d; reflexivity. Qed.

  Corollary ask_decode_member_normalized sp z :
    wf_space sp = true -> in_space sp (ask_decode R lg pw (normalize_space sp) z) = true.
  Proof.
    intros W. rewrite <- in_space_normalize.
    apply ask_decode_member_any; [apply wf_space_normalize, W| apply no_ident_normalized].
  Qed.

  Lemma ask_decode_length sp z : length (ask_decode R lg pw sp z) = length sp.
  Proof. unfold ask_decode. apply inverse_row_length. Qed.
End Decode.

(* without the hypothesis the statement fails: an identity-encoded ordinal [1; 2; 4] and a vector INSIDE the transformed
   bounds (what a continuous acquisition optimizer - lbfgs, ga - may return) decode to 3, which is no category *)
Lemma ident_hypothesis_needed :
  exists sp z, wf_space sp = true /\ (forall R lg, Forall2 (fun v b => fst b <= v <= snd b) z (tbounds_space R lg sp)) /\
               forall R lg pw, in_space sp (ask_decode R lg pw sp z) = false.
Proof.
  exists [DCat KInt [1; 2; 4] CIdentity; DReal 0 1 PUniform TIdentity], [3 + (1 # 5); 1 # 2].
  split; [reflexivity|]. split.
  - intros R lg. cbn. repeat constructor; cbn; lra.
  - intros R lg pw. vm_compute. reflexivity.
Qed.
