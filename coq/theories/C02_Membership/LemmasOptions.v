(* The lists the harness enumerates (Options.v) and the model's canonicalisation table (Model.canon_sel) against the facts
   GENERATED from the source on every run (Generated/Facts_C02.v); finite checks by computation. *)
From Coq Require Import List String Bool ZArith.
Import ListNotations.
Require DH.Generated.Facts_C02.
Require Import DH.C02_Membership.Options DH.C02_Membership.Model.
Module F := DH.Generated.Facts_C02.

Definition mem_s (x : string) (l : list string) : bool := existsb (String.eqb x) l.
Definition incl_s (a b : list string) : bool := forallb (fun x => mem_s x b) a.
Definition same_set (a b : list string) : bool := incl_s a b && incl_s b a.
Definition map_get (m : list (string * string)) (x : string) : string :=
  match find (fun p => String.eqb (fst p) x) m with Some p => snd p | None => x end.

(* CBO hands MAP_acq_func.get(a, a) / MAP_multi_point_strategy.get(s, s) to the Optimizer *)
Definition acq_forwarded_ok : bool := forallb (fun a => mem_s (map_get F.map_acq a) F.opt_acq_allowed) F.acq_allowed.
Definition strategy_forwarded_ok : bool :=
  forallb (fun s => mem_s (map_get F.map_strategy s) F.opt_strategies_supported) F.strategies_allowed.

Definition sel_pair_ok (k s : Z) : bool := existsb (fun p => Z.eqb (fst p) k && Z.eqb (snd p) s) canon_sel_table.
Definition table_ok : bool :=
  forallb (fun e => sel_pair_ok (snd (fst e)) (snd e)) F.inactive_table
  && forallb (fun p => existsb (fun e => Z.eqb (snd (fst e)) (fst p)) F.inactive_table) canon_sel_table.

Lemma options_enumerated :
  F.srcfacts_ok = true /\
  same_set enum_surrogates F.surrogates_allowed = true /\
  same_set enum_acq F.acq_allowed = true /\
  same_set enum_strategies F.strategies_allowed = true /\
  same_set enum_designs F.designs_allowed = true /\
  same_set enum_acq_optimizers F.acq_optimizers_allowed = true /\
  acq_forwarded_ok = true /\ strategy_forwarded_ok = true.
Proof. repeat split; vm_compute; reflexivity. Qed.

Lemma canon_table_generated : F.srcfacts_ok = true /\ table_ok = true.
Proof. split; vm_compute; reflexivity. Qed.

Lemma same_set_spec a b : same_set a b = true -> forall x, In x a <-> In x b.
Proof.
  unfold same_set, incl_s. intros H. apply andb_true_iff in H as [H1 H2]. rewrite forallb_forall in H1, H2.
  assert (M : forall x l, mem_s x l = true -> In x l).
  { intros x l E. unfold mem_s in E. apply existsb_exists in E as [y [Hy Ey]]. apply String.eqb_eq in Ey. subst. exact Hy. }
  intros x. split; intros Hx; [apply M, H1, Hx| apply M, H2, Hx].
Qed.
