From Coq Require Import List ZArith Bool.
Import ListNotations.
Require Import DH.Common.Data DH.C17_Queue.Model DH.C17_Queue.Check.
Open Scope Z_scope.

Definition d_oobs (d : data) : oobs :=
  if dZ (dnth 0 d) =? 0 then ObsStart (dnat (dnth 1 d)) (dmap dZ (dnth 2 d)) else ObsEnd (dnat (dnth 1 d)).

(* 1701: [pop; q0; njobs; trace; meta] -> [accepted; index; clause; final clause; mechanism agrees] *)
Definition e_replay (d : data) : data :=
  let pop := dnat (dnth 0 d) in
  let q0 := dmap dZ (dnth 1 d) in
  let n := dnat (dnth 2 d) in
  let tr := dmap d_oobs (dnth 3 d) in
  let meta := dmap (dpair dnat (dmap dZ)) (dnth 4 d) in
  let (r, s) := replay_obs pop (mkA q0 [] []) 0 tr in
  L [ ebool (match r with None => true | _ => false end);
      enat (match r with Some (i, _) => i | None => 0%nat end);
      enat (match r with Some (_, c) => c | None => 0%nat end);
      enat (match r with None => final_ok q0 n meta s | _ => 0%nat end);
      ebool (mech_replay pop (qinit q0 n n) tr) ].

Definition entries : list (Z * (data -> data)) := [ (1701, e_replay) ].
