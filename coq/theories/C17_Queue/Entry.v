From Coq Require Import List ZArith Bool.
Import ListNotations.
Require Import DH.Common.Data DH.C17_Queue.Model DH.C17_Queue.Check.
Open Scope Z_scope.

Definition d_oobs (d : data) : oobs :=
  if dZ (dnth 0 d) =? 0 then ObsStart (dnat (dnth 1 d)) (dmap dZ (dnth 2 d)) else ObsEnd (dnat (dnth 1 d)).

(* 1701: [pop; q0; njobs; trace; meta] -> [accepted; index; clause; final clause; mechanism agrees] *)
Definition e_replay (d : data) : data :=
  let pop := dnat (dnth 0 d) in
  let q0 := dmap dZ (dnth 1 d) in
  let n := dnat (dnth 2 d) in
  let tr := dmap d_oobs (dnth 3 d) in
  let meta := dmap (dpair dnat (dmap dZ)) (dnth 4 d) in
  let (r, s) := replay_obs pop (mkA q0 [] []) 0 tr in
  L [ ebool (match r with None => true | _ => false end);
      enat (match r with Some (i, _) => i | None => 0%nat end);
      enat (match r with Some (_, c) => c | None => 0%nat end);
      enat (match r with None => final_ok q0 n meta s | _ => 0%nat end);
      ebool (mech_replay pop (qinit q0 n n) tr) ].

Definition d_xop (d : data) : xop :=
  let a := dnat (dnth 1 d) in
  match dnat (dnth 0 d) with
  | 0%nat => DSubmit a | 1%nat => DFinish a | 2%nat => DFail a | 3%nat => DClose | 4%nat => DZombieEnd a | _ => DStart a
  end.
Definition e_xphase (p : xphase) : data :=
  enat (match p with XWaiting => 0 | XHolding => 1 | XRunning => 2 | XDone => 3 | XFailed => 4 | XCancelled => 5 | XZombie => 6 | XQueued => 7 end)%nat.
Definition e_xs (s : xs) : data :=
  L [ elist eZ (xqueue s); elist (fun x => L [e_xphase (xph x); elist eZ (xres x)]) (xjobs s); ebool (xerr s);
      elist (epair enat (elist eZ)) (xmeta s) ].

(* 1702: [pop; W; thread backend; q0; ops; trace; meta; final deque]
         -> [constructor accepts; model states after each op; accepted; index; clause; final clause]
   the jobs that report no metadata are the ones the model ends with as failed / cancelled / zombie *)
Definition e_xreplay (d : data) : data :=
  let pop := dnat (dnth 0 d) in
  let W := dnat (dnth 1 d) in
  let thr := dbool (dnth 2 d) in
  let q0 := dmap dZ (dnth 3 d) in
  let ops := dmap d_xop (dnth 4 d) in
  let tr := dmap d_oobs (dnth 5 d) in
  let meta := dmap (dpair dnat (dmap dZ)) (dnth 6 d) in
  let fq := dmap dZ (dnth 7 d) in
  let states := xdrive_all pop W thr (xinit pop q0) ops in
  let fin := last states (xinit pop q0) in
  let njobs := length (xjobs fin) in
  let nometa := filter (fun j => match xph (xget fin j) with XFailed | XCancelled | XZombie => true | _ => false end) (seq 0 njobs) in
  let (r, s) := replay_obs pop (mkA q0 [] []) 0 tr in
  L [ ebool (match xnew pop q0 with Some _ => true | None => false end);
      elist e_xs states;
      ebool (match r with None => true | _ => false end);
      enat (match r with Some (i, _) => i | None => 0%nat end);
      enat (match r with Some (_, c) => c | None => 0%nat end);
      enat (match r with None => final_okx q0 njobs nometa meta fq s | _ => 0%nat end) ].

(* 1703: [pop; q0; njobs; trace; final deque] -> [prediction defined; predicted final deque; every resource is back in the real deque] *)
Definition e_mechq (d : data) : data :=
  let pop := dnat (dnth 0 d) in
  let q0 := dmap dZ (dnth 1 d) in
  let n := dnat (dnth 2 d) in
  let tr := dmap d_oobs (dnth 3 d) in
  let fq := dmap dZ (dnth 4 d) in
  let m := mech_state pop (qinit q0 n n) tr in
  L [ ebool (match m with Some _ => true | None => false end);
      elist eZ (match m with Some s => queue s | None => [] end);
      ebool (queue_back q0 fq) ].

(* 1704: [q0; deque; resources of the executing run-functions] -> [deque + resources in use = the initial collection]
   (asked when no job is between "submitted" and "started": nothing is bound out of sight) *)
Definition e_conserved (d : data) : data :=
  let q0 := dmap dZ (dnth 0 d) in
  let dq := dmap dZ (dnth 1 d) in
  let held := dmap (dmap dZ) (dnth 2 d) in
  L [ ebool (queue_back q0 (dq ++ concat held)) ].

Definition entries : list (Z * (data -> data)) := [ (1701, e_replay); (1702, e_xreplay); (1703, e_mechq); (1704, e_conserved) ].
