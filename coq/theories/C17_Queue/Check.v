(* Acceptance oracle for OBSERVED runs of a queued evaluator: the run-function logs (Start j resources) when it begins
   and (End j) when it returns; at the end the 'dequed' metadata of every job is compared with what it received.
   Resources are tokens; only disjointness / counts / conservation are demanded (no order of the deque is imposed). *)
From Coq Require Import List ZArith Bool Arith Lia Permutation.
Import ListNotations.
Require Import DH.Common.ListSet.

Inductive oobs := ObsStart (j : nat) (r : list Z) | ObsEnd (j : nat).

Record ast := mkA { free : list Z; active : list (nat * list Z); ended : list (nat * list Z) }.

Fixpoint remove1z (x : Z) (l : list Z) : option (list Z) :=
  match l with
  | [] => None
  | y :: t => if Z.eqb x y then Some t else match remove1z x t with Some t' => Some (y :: t') | None => None end
  end.

Fixpoint take_all (r : list Z) (l : list Z) : option (list Z) :=
  match r with
  | [] => Some l
  | x :: t => match remove1z x l with Some l' => take_all t l' | None => None end
  end.

Fixpoint lookupn (j : nat) (l : list (nat * list Z)) : option (list Z) :=
  match l with [] => None | (k, r) :: t => if Nat.eqb j k then Some r else lookupn j t end.
Fixpoint removen (j : nat) (l : list (nat * list Z)) : list (nat * list Z) :=
  match l with [] => [] | (k, r) :: t => if Nat.eqb j k then t else (k, r) :: removen j t end.

(* clause: 1 wrong number of resources, 2 a resource that is not free (shared with a running job or unknown),
           3 start/end of a job in the wrong state *)
Definition accept_obs (pop : nat) (s : ast) (e : oobs) : ast + nat :=
  match e with
  | ObsStart j r =>
      match lookupn j (active s), lookupn j (ended s) with
      | None, None =>
          if negb (Nat.eqb (length r) pop) then inr 1
          else match take_all r (free s) with
               | Some f => inl (mkA f ((j, r) :: active s) (ended s))
               | None => inr 2
               end
      | _, _ => inr 3
      end
  | ObsEnd j =>
      match lookupn j (active s) with
      | Some r => inl (mkA (free s ++ r) (removen j (active s)) ((j, r) :: ended s))
      | None => inr 3
      end
  end.

Fixpoint replay_obs (pop : nat) (s : ast) (i : nat) (tr : list oobs) : option (nat * nat) * ast :=
  match tr with
  | [] => (None, s)
  | e :: t => match accept_obs pop s e with
              | inl s' => replay_obs pop s' (S i) t
              | inr c => (Some (i, c), s)
              end
  end.

Fixpoint zlist_eqb (a b : list Z) : bool :=
  match a, b with [], [] => true | x :: a', y :: b' => Z.eqb x y && zlist_eqb a' b' | _, _ => false end.

(* every job 0..njobs-1 ended, its metadata names exactly what it received, nothing is active, every resource is back *)
Definition final_ok (q0 : list Z) (njobs : nat) (meta : list (nat * list Z)) (s : ast) : nat :=
  if negb (Nat.eqb (length (active s)) 0) then 5
  else if negb (forallb (fun j => match lookupn j (ended s) with Some _ => true | None => false end) (seq 0 njobs)) then 5
  else if negb (forallb (fun m => match lookupn (fst m) (ended s) with Some r => zlist_eqb r (snd m) | None => false end) meta) then 4
  else if negb (Nat.eqb (length meta) njobs) then 4
  else match take_all q0 (free s) with Some [] => 0 | _ => 6 end.

(* ---------------- what acceptance guarantees ---------------- *)
Definition aheld (s : ast) : list Z := flat_map snd (active s).

Lemma remove1z_perm x l l' : remove1z x l = Some l' -> Permutation l (x :: l').
Proof.
  revert l'. induction l as [|y t IH]; intros l' H; cbn in H; [discriminate|].
  destruct (Z.eqb x y) eqn:E.
  - apply Z.eqb_eq in E. subst. injection H as <-. reflexivity.
  - destruct (remove1z x t) as [t'|]; [|discriminate]. injection H as <-.
    rewrite (IH t' eq_refl). apply perm_swap.
Qed.

Lemma take_all_perm : forall r l l', take_all r l = Some l' -> Permutation l (r ++ l').
Proof.
  induction r as [|x r IH]; intros l l' H; cbn in H; [injection H as <-; reflexivity|].
  destruct (remove1z x l) as [l1|] eqn:E; [|discriminate].
  rewrite (remove1z_perm _ _ _ E). cbn. constructor. apply IH. exact H.
Qed.

Lemma removen_perm j r l : lookupn j l = Some r -> Permutation (flat_map snd l) (r ++ flat_map snd (removen j l)).
Proof.
  induction l as [|[k r'] t IH]; cbn; [discriminate|]. destruct (Nat.eqb j k).
  - intros E. injection E as ->. reflexivity.
  - intros E. cbn. rewrite (IH E). apply Permutation_app_swap_app.
Qed.

(* conservation: free resources + resources in the hands of active jobs = the initial queue, after every accepted event *)
Theorem accept_conserves pop q0 s e s' : Permutation (free s ++ aheld s) q0 -> accept_obs pop s e = inl s' ->
  Permutation (free s' ++ aheld s') q0.
Proof.
  intros H. destruct e as [j r|j]; cbn [accept_obs].
  - destruct (lookupn j (active s)); [discriminate|]. destruct (lookupn j (ended s)); [discriminate|].
    destruct (negb _); [discriminate|]. destruct (take_all r (free s)) as [f|] eqn:E; [|discriminate].
    intros A; injection A as <-. unfold aheld in *. cbn [free active flat_map snd].
    rewrite <- H. rewrite (take_all_perm _ _ _ E). rewrite <- app_assoc. apply Permutation_app_swap_app.
  - destruct (lookupn j (active s)) as [r|] eqn:E; [|discriminate]. intros A; injection A as <-.
    unfold aheld in *. cbn [free active]. rewrite <- H. rewrite (removen_perm j r _ E). rewrite <- app_assoc. reflexivity.
Qed.

Theorem replay_conserves pop q0 : forall tr s i s', Permutation (free s ++ aheld s) q0 ->
  replay_obs pop s i tr = (None, s') -> Permutation (free s' ++ aheld s') q0.
Proof.
  induction tr as [|e t IH]; intros s i s' H; cbn [replay_obs]; [intros E; injection E as <-; exact H|].
  destruct (accept_obs pop s e) as [s1|c] eqn:E; [|discriminate]. apply IH. eapply accept_conserves; eauto.
Qed.

(* hence, with distinct resources, two jobs active at the same time never hold a common resource *)
Theorem accepted_disjoint q0 s : NoDup q0 -> Permutation (free s ++ aheld s) q0 ->
  forall j1 r1 j2 r2 x, In (j1, r1) (active s) -> In (j2, r2) (active s) -> (j1, r1) <> (j2, r2) -> In x r1 -> In x r2 -> False.
Proof.
  intros Hnd Hp. assert (Hh : NoDup (aheld s)).
  { apply (NoDup_app_r (free s)). eapply Permutation_NoDup; [apply Permutation_sym; exact Hp| exact Hnd]. }
  unfold aheld in Hh. induction (active s) as [|[k r] t IH]; intros j1 r1 j2 r2 x H1 H2 Hne X1 X2; [destruct H1|].
  cbn [flat_map snd] in Hh. destruct H1 as [E1|H1], H2 as [E2|H2].
  - congruence.
  - injection E1 as -> ->. eapply NoDup_app_disj; [exact Hh| exact X1|]. apply in_flat_map. exists (j2, r2). auto.
  - injection E2 as -> ->. eapply NoDup_app_disj; [exact Hh| exact X2|]. apply in_flat_map. exists (j1, r1). auto.
  - apply NoDup_app_r in Hh. eapply IH; eauto.
Qed.

(* every accepted start hands out exactly pop resources *)
Theorem accepted_count pop s j r s' : accept_obs pop s (ObsStart j r) = inl s' -> length r = pop.
Proof.
  cbn. destruct (lookupn j (active s)); [discriminate|]. destruct (lookupn j (ended s)); [discriminate|].
  destruct (Nat.eqb (length r) pop) eqn:E; cbn; [|discriminate]. intros _. apply Nat.eqb_eq. exact E.
Qed.

(* ---------------- correspondence with the mechanism model (exact FIFO prediction) ----------------
   Replays the observed trace on Model.qstep: a Start is Take then Run; the resources the model hands to the job must be
   exactly the ones observed.  W is the number of jobs (the worker bound is not part of this property). *)
Require Import DH.C17_Queue.Model.

(* the queue semaphore is FIFO: jobs take their resources in the order of their ids; when job j is seen to start, every
   job with a smaller id has taken its resources as well *)
Definition take_upto (pop : nat) (s : qs) (j : nat) : qs :=
  fold_left (fun s k => qstep pop s (Take k)) (seq 0 (S j)) s.

Fixpoint mech_replay (pop : nat) (s : qs) (tr : list oobs) : bool :=
  match tr with
  | [] => all_finished s
  | ObsStart j r :: t =>
      let s1 := take_upto pop s j in
      zlist_eqb (res (getj s1 j)) r && enabled pop s1 (Run j) && mech_replay pop (qstep pop s1 (Run j)) t
  | ObsEnd j :: t => enabled pop s (Finish j) && mech_replay pop (qstep pop s (Finish j)) t
  end.

(* ---------------- what the mechanism model shows to an observer ----------------
   Only events that are enabled happen.  [Take] is invisible (the run-function has not been called yet), [Run j] is the
   moment the run-function is called with the resources bound to job j, [Finish j] the moment it returns. *)
Fixpoint obs_trace (pop : nat) (s : qs) (sched : list qev) : list oobs :=
  match sched with
  | [] => []
  | e :: t =>
      (if enabled pop s e
       then match e with Take _ => [] | Run j => [ObsStart j (res (getj s j))] | Finish j => [ObsEnd j] end
       else []) ++ obs_trace pop (qstep pop s e) t
  end.

(* the 'dequed' metadata the model reports for each job: what the job is bound to *)
Definition model_meta (s : qs) : list (nat * list Z) := map (fun j => (j, res (getj s j))) (seq 0 (length (jobs s))).

(* schedules in which the resources are taken in the order of the job ids (the queue semaphore wakes its waiters in
   FIFO order, and jobs reach it in the order of their submission): an enabled [Take j] happens only when no job with a
   smaller id is still waiting *)
Definition not_waiting (s : qs) (k : nat) : bool := match ph (getj s k) with Waiting => false | _ => true end.
Fixpoint fifo_sched (pop : nat) (s : qs) (sched : list qev) : bool :=
  match sched with
  | [] => true
  | e :: t =>
      (if enabled pop s e then match e with Take j => forallb (not_waiting s) (seq 0 j) | _ => true end else true)
      && fifo_sched pop (qstep pop s e) t
  end.

(* the state the exact FIFO prediction ends in (None: the trace is not the predicted one); its deque is compared with
   the implementation's deque at the end of a run (order included) *)
Fixpoint mech_state (pop : nat) (s : qs) (tr : list oobs) : option qs :=
  match tr with
  | [] => Some s
  | ObsStart j r :: t =>
      let s1 := take_upto pop s j in
      if zlist_eqb (res (getj s1 j)) r && enabled pop s1 (Run j) then mech_state pop (qstep pop s1 (Run j)) t else None
  | ObsEnd j :: t => if enabled pop s (Finish j) then mech_state pop (qstep pop s (Finish j)) t else None
  end.

Lemma mech_replay_state pop : forall tr s,
  mech_replay pop s tr = match mech_state pop s tr with Some s' => all_finished s' | None => false end.
Proof.
  induction tr as [|[j r|j] t IH]; intros s; cbn [mech_replay mech_state]; [reflexivity| |].
  - destruct (zlist_eqb _ r && enabled pop (take_upto pop s j) (Run j)); cbn [andb]; [apply IH| reflexivity].
  - destruct (enabled pop s (Finish j)); cbn [andb]; [apply IH| reflexivity].
Qed.

(* is the implementation's deque, at the end, the initial collection of resources? *)
Definition queue_back (q0 fq : list Z) : bool := match take_all q0 fq with Some [] => true | _ => false end.

Lemma queue_back_sound q0 fq : queue_back q0 fq = true -> Permutation fq q0.
Proof.
  unfold queue_back. destruct (take_all q0 fq) as [[|x l]|] eqn:E; try discriminate. intros _.
  rewrite (take_all_perm _ _ _ E), app_nil_r. reflexivity.
Qed.

(* final check for runs in which some jobs report no metadata ([nometa]: the run-function raised, or the job was
   cancelled by close()): nothing is active, every other job ended, the metadata of a job names what it received, every
   job is either reported once or in [nometa], every resource is back - in the oracle's books and in the real deque *)
Definition final_okx (q0 : list Z) (njobs : nat) (nometa : list nat) (meta : list (nat * list Z)) (fq : list Z) (s : ast) : nat :=
  if negb (Nat.eqb (length (active s)) 0) then 5
  else if negb (forallb (fun j => existsb (Nat.eqb j) nometa || match lookupn j (ended s) with Some _ => true | None => false end) (seq 0 njobs)) then 5
  else if negb (forallb (fun m => match lookupn (fst m) (ended s) with Some r => zlist_eqb r (snd m) | None => false end) meta) then 4
  else if negb (forallb (fun j => Nat.eqb (count_occ Nat.eq_dec (map fst meta ++ nometa) j) 1) (seq 0 njobs)) then 4
  else if queue_back q0 (free s) && queue_back q0 fq then 0 else 6.

Lemma final_okx_sound q0 njobs nometa meta fq s : final_okx q0 njobs nometa meta fq s = 0 ->
  active s = [] /\ Permutation fq q0 /\ Permutation (free s) q0.
Proof.
  unfold final_okx. destruct (Nat.eqb (length (active s)) 0) eqn:E1; cbn [negb]; [|discriminate].
  destruct (forallb _ (seq 0 njobs)); cbn [negb]; [|discriminate]. destruct (forallb _ meta); cbn [negb]; [|discriminate].
  destruct (forallb _ (seq 0 njobs)); cbn [negb]; [|discriminate].
  destruct (queue_back q0 (free s)) eqn:E2; destruct (queue_back q0 fq) eqn:E3; cbn [andb]; try discriminate. intros _.
  split; [|split; apply queue_back_sound; assumption]. apply Nat.eqb_eq in E1. destruct (active s); [reflexivity| discriminate].
Qed.

(* ---------------- what the extended mechanism shows to an observer ----------------
   The run-function of job j is called when the job is admitted (serial backend) or picked up by a pool thread (thread
   backend); it ends when it returns, raises, is cancelled by close() (serial backend: the coroutine is cancelled) or, for
   a zombie of the thread backend, when the thread returns. *)
Definition xobs1 (W : nat) (thr : bool) (s : xs) (e : xev) : list oobs :=
  if xerr s then [] else if negb (xenabled s e) then [] else
  match e with
  | XRun j => if thr then [] else [ObsStart j (xres (xget s j))]
  | XStart j => if Nat.ltb (xbusy s) W then [ObsStart j (xres (xget s j))] else []
  | XFinish j | XFail j | XZombieEnd j => [ObsEnd j]
  | XClose => if thr then []
              else flat_map (fun j => match xph (xget s j) with XRunning => [ObsEnd j] | _ => [] end) (seq 0 (length (xjobs s)))
  | _ => []
  end.
Fixpoint xobs_trace (pop W : nat) (thr : bool) (s : xs) (sched : list xev) : list oobs :=
  match sched with
  | [] => []
  | e :: t => xobs1 W thr s e ++ xobs_trace pop W thr (xstep pop W thr s e) t
  end.
