(* The deterministic driver [xsettle]: one pass of (take j; admit j) in id order reaches a state in which no job can take
   its resources and no job can be admitted to a worker any more - the state the harness compares the implementation with
   after it has let the event loop run. *)
From Coq Require Import List ZArith Bool Arith Lia Permutation.
Import ListNotations.
Require Import DH.Common.ListSet DH.C17_Queue.Model DH.C17_Queue.Lemmas5.

Definition step2 (pop W : nat) (thr : bool) (s : xs) (k : nat) : xs := xstep pop W thr (xstep pop W thr s (XTake k)) (XRun k).

(* ---------- frame: what a take / an admission of job k changes ---------- *)
Lemma xstep_take_frame q0 pop W thr s k : XInv q0 pop W s ->
  let s' := xstep pop W thr s (XTake k) in
  length (xjobs s') = length (xjobs s) /\ xsems s' = xsems s /\ xperm s' <= xperm s /\
  (forall j, j <> k -> xget s' j = xget s j) /\
  (xenabled s (XTake k) = true -> xph (xget s' k) = XHolding) /\ (xenabled s (XTake k) = false -> s' = s).
Proof.
  intros H s'. unfold s', xstep. rewrite (x_err _ _ _ _ H). destruct (xenabled s (XTake k)) eqn:En; cbn [negb].
  - destruct (xenabled_take _ _ En) as (Hk & Hph & Hp). pose proof (permit_means_resources _ _ _ _ H Hp) as Hq.
    replace (length (xqueue s) <? pop) with false by (symmetry; apply Nat.ltb_ge; exact Hq). cbn [xjobs xsems xperm]. unfold xget. cbn [xjobs].
    split; [apply setn_length|]. split; [reflexivity|]. split; [lia|]. split; [|split; [|intros; discriminate]].
    + intros j Hj. rewrite nth_setn by exact Hk. replace (j =? k) with false by (symmetry; apply Nat.eqb_neq; exact Hj). reflexivity.
    + intros _. rewrite nth_setn by exact Hk. rewrite Nat.eqb_refl. reflexivity.
  - split; [reflexivity|]. split; [reflexivity|]. split; [lia|]. split; [reflexivity|]. split; [intros; discriminate| reflexivity].
Qed.

Lemma xstep_run_frame q0 pop W thr s k : XInv q0 pop W s ->
  let s' := xstep pop W thr s (XRun k) in
  length (xjobs s') = length (xjobs s) /\ xperm s' = xperm s /\ (forall g, nth g (xsems s') 0 <= nth g (xsems s) 0) /\
  (forall j, j <> k -> xget s' j = xget s j) /\
  (xenabled s (XRun k) = true -> xph (xget s' k) <> XHolding /\ xph (xget s' k) <> XWaiting) /\ (xenabled s (XRun k) = false -> s' = s).
Proof.
  intros H s'. unfold s', xstep. rewrite (x_err _ _ _ _ H). destruct (xenabled s (XRun k)) eqn:En; cbn [negb].
  - destruct (xenabled_run _ _ En) as (Hk & Hph & Hp). cbn [xjobs xsems xperm]. unfold xget. cbn [xjobs].
    split; [apply setn_length|]. split; [reflexivity|]. split; [|split; [|split; [|intros; discriminate]]].
    + intros g. set (gk := xgen (nth k (xjobs s) xdflt)). destruct (Nat.lt_ge_cases gk (length (xsems s))) as [L|L].
      * rewrite nth_setn by exact L. destruct (g =? gk) eqn:E; [apply Nat.eqb_eq in E; subst; lia| lia].
      * rewrite nth_setn_out by exact L. lia.
    + intros j Hj. rewrite nth_setn by exact Hk. replace (j =? k) with false by (symmetry; apply Nat.eqb_neq; exact Hj). reflexivity.
    + intros _. rewrite nth_setn by exact Hk. rewrite Nat.eqb_refl. cbn. destruct thr; split; congruence.
  - split; [reflexivity|]. split; [reflexivity|]. split; [intros; lia|]. split; [reflexivity|]. split; [intros; discriminate| reflexivity].
Qed.

Lemma take_disabled_iff s j : xenabled s (XTake j) = false <-> (length (xjobs s) <= j \/ xph (xget s j) <> XWaiting \/ xperm s = 0).
Proof.
  cbn [xenabled]. split.
  - intros H. destruct (j <? length (xjobs s)) eqn:E1; [|left; apply Nat.ltb_ge; exact E1]. right.
    destruct (xph (xget s j)) eqn:E2; try (left; congruence). right. cbn in H. destruct (xperm s); [reflexivity| discriminate].
  - intros [H|[H|H]].
    + replace (j <? length (xjobs s)) with false by (symmetry; apply Nat.ltb_ge; exact H). reflexivity.
    + destruct (xph (xget s j)); try congruence; rewrite andb_false_r; reflexivity.
    + rewrite H. cbn. apply andb_false_r.
Qed.

Lemma run_disabled_iff s j : xenabled s (XRun j) = false <->
  (length (xjobs s) <= j \/ xph (xget s j) <> XHolding \/ nth (xgen (xget s j)) (xsems s) 0 = 0).
Proof.
  cbn [xenabled]. split.
  - intros H. destruct (j <? length (xjobs s)) eqn:E1; [|left; apply Nat.ltb_ge; exact E1]. right.
    destruct (xph (xget s j)) eqn:E2; try (left; congruence). right. cbn in H. destruct (nth _ (xsems s) 0); [reflexivity| discriminate].
  - intros [H|[H|H]].
    + replace (j <? length (xjobs s)) with false by (symmetry; apply Nat.ltb_ge; exact H). reflexivity.
    + destruct (xph (xget s j)); try congruence; rewrite andb_false_r; reflexivity.
    + rewrite H. cbn. apply andb_false_r.
Qed.

Definition quiet (k : nat) (s : xs) : Prop := forall j, j < k -> xenabled s (XTake j) = false /\ xenabled s (XRun j) = false.

Lemma step2_quiet q0 pop W thr s k : XInv q0 pop W s -> quiet k s ->
  quiet (S k) (step2 pop W thr s k) /\ length (xjobs (step2 pop W thr s k)) = length (xjobs s).
Proof.
  intros H Q. unfold step2. set (s1 := xstep pop W thr s (XTake k)).
  assert (H1 : XInv q0 pop W s1) by (apply xinv_step, H).
  destruct (xstep_take_frame q0 pop W thr s k H) as (L1 & S1 & P1 & G1 & E1 & D1). fold s1 in L1, S1, P1, G1, E1, D1.
  destruct (xstep_run_frame q0 pop W thr s1 k H1) as (L2 & P2 & S2 & G2 & E2 & D2). set (s2 := xstep pop W thr s1 (XRun k)) in *.
  split; [|lia]. intros j Hj. destruct (Nat.eq_dec j k) as [->|Hne].
  - (* job k itself *)
    split.
    + apply take_disabled_iff. destruct (Nat.lt_ge_cases k (length (xjobs s2))) as [Lk|Lk]; [right|left; exact Lk].
      destruct (xenabled s (XTake k)) eqn:ET.
      * (* it has taken: holding in s1, then holding or beyond *)
        left. destruct (xenabled s1 (XRun k)) eqn:ER; [apply (E2 eq_refl)|]. rewrite (D2 eq_refl). rewrite (E1 eq_refl). congruence.
      * rewrite (D1 eq_refl) in *. destruct (xenabled s (XRun k)) eqn:ER.
        -- left. apply (E2 eq_refl).
        -- fold s2. rewrite (D2 eq_refl). apply take_disabled_iff in ET as [X|[X|X]]; [lia| left; exact X| right; exact X].
    + apply run_disabled_iff. destruct (Nat.lt_ge_cases k (length (xjobs s2))) as [Lk|Lk]; [right|left; exact Lk].
      destruct (xenabled s1 (XRun k)) eqn:ER.
      * left. apply (E2 eq_refl).
      * rewrite (D2 eq_refl). apply run_disabled_iff in ER as [X|[X|X]]; [lia| left; exact X| right; exact X].
  - (* an earlier job: nothing it could use has been freed *)
    destruct (Q j ltac:(lia)) as (QT & QR). split.
    + apply take_disabled_iff. rewrite (G2 j Hne), (G1 j Hne), L2, L1, P2.
      apply take_disabled_iff in QT as [X|[X|X]]; [left; exact X| right; left; exact X| right; right; lia].
    + apply run_disabled_iff. rewrite (G2 j Hne), (G1 j Hne), L2, L1.
      apply run_disabled_iff in QR as [X|[X|X]]; [left; exact X| right; left; exact X|].
      right. right. pose proof (S2 (xgen (xget s j))) as Z. rewrite S1 in Z. lia.
Qed.

Lemma settle_fold q0 pop W thr : forall m a s, XInv q0 pop W s -> quiet a s ->
  let s' := fold_left (step2 pop W thr) (seq a m) s in
  quiet (a + m) s' /\ length (xjobs s') = length (xjobs s) /\ XInv q0 pop W s'.
Proof.
  induction m as [|m IH]; intros a s H Q; cbn [seq fold_left].
  - rewrite Nat.add_0_r. auto.
  - destruct (step2_quiet q0 pop W thr s a H Q) as (Q1 & L1).
    assert (H1 : XInv q0 pop W (step2 pop W thr s a)) by (unfold step2; apply xinv_step, xinv_step, H).
    destruct (IH (S a) _ H1 Q1) as (Q2 & L2 & H2). replace (a + S m) with (S a + m) by lia. split; [exact Q2| split; [lia| exact H2]].
Qed.

Theorem settle_quiescent q0 pop W thr s : XInv q0 pop W s ->
  let s' := xsettle pop W thr s in
  XInv q0 pop W s' /\ forall j, xenabled s' (XTake j) = false /\ xenabled s' (XRun j) = false.
Proof.
  intros H s'. destruct (settle_fold q0 pop W thr (length (xjobs s)) 0 s H) as (Q & L & H').
  { intros j Hj. lia. }
  change (fold_left (step2 pop W thr) (seq 0 (length (xjobs s))) s) with s' in *. split; [exact H'|].
  intros j. destruct (Nat.lt_ge_cases j (length (xjobs s))) as [Lj|Lj]; [apply Q; lia|].
  split; [apply take_disabled_iff| apply run_disabled_iff]; left; lia.
Qed.
