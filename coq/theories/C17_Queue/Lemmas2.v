From Coq Require Import List ZArith Bool Arith Lia Permutation.
Import ListNotations.
Require Import DH.Common.ListSet DH.C17_Queue.Model DH.C17_Queue.Lemmas.

Theorem qinv_run q0 pop W sched : forall s, QInv q0 pop W s -> QInv q0 pop W (qrun pop s sched).
Proof. unfold qrun. induction sched as [|e t IH]; intros s H; cbn [fold_left]; [exact H| apply IH, qinv_step, H]. Qed.

(* ---------- disjointness ---------- *)
Lemma flat_map_nodup_disjoint {A B} (f : A -> list B) : forall l i j d x, NoDup (flat_map f l) -> i < j -> j < length l ->
  In x (f (nth i l d)) -> In x (f (nth j l d)) -> False.
Proof.
  induction l as [|a l IH]; intros i j d x Hnd Hij Hj Hi Hjx; cbn in Hj; [lia|].
  cbn [flat_map] in Hnd. destruct i as [|i].
  - destruct j as [|j]; [lia|]. cbn [nth] in *.
    eapply NoDup_app_disj; [exact Hnd| exact Hi|]. apply in_flat_map. exists (nth j l d). split; [apply nth_In; lia| exact Hjx].
  - destruct j as [|j]; [lia|]. cbn [nth] in *. apply NoDup_app_r in Hnd. eapply (IH i j); eauto; lia.
Qed.

Theorem disjoint q0 pop W s : NoDup q0 -> QInv q0 pop W s -> forall i j x, i <> j -> i < length (jobs s) -> j < length (jobs s) ->
  In x (holds (getj s i)) -> In x (holds (getj s j)) -> False.
Proof.
  intros Hnd [Hc _ _] i j x Hne Hi Hj Hxi Hxj.
  assert (Hh : NoDup (held s)).
  { apply (NoDup_app_r (queue s)). eapply Permutation_NoDup; [apply Permutation_sym; exact Hc| exact Hnd]. }
  unfold getj in *. destruct (Nat.lt_ge_cases i j) as [L|L].
  - eapply (flat_map_nodup_disjoint holds (jobs s) i j); eauto.
  - eapply (flat_map_nodup_disjoint holds (jobs s) j i); eauto. lia.
Qed.

(* a resource is never at the same time in the queue and in a job's hands *)
Theorem not_free_while_held q0 pop W s : NoDup q0 -> QInv q0 pop W s -> forall x, In x (queue s) -> In x (held s) -> False.
Proof.
  intros Hnd [Hc _ _] x H1 H2. eapply NoDup_app_disj; [|exact H1|exact H2].
  eapply Permutation_NoDup; [apply Permutation_sym; exact Hc| exact Hnd].
Qed.

(* ---------- progress ---------- *)
Lemma all_finished_false s : all_finished s = false -> exists j, j < length (jobs s) /\ ph (getj s j) <> Finished.
Proof.
  unfold all_finished, getj. induction (jobs s) as [|a l IH]; cbn; [discriminate|].
  destruct (ph a) eqn:E; cbn; try (intros _; exists 0; split; [lia| cbn; congruence]).
  intros H. destruct (IH H) as [j [Hj Hp]]. exists (S j). split; [lia| exact Hp].
Qed.

Lemma existsb_seq_intro (f : nat -> bool) n j : j < n -> f j = true -> existsb f (seq 0 n) = true.
Proof. intros Hj Hf. apply existsb_exists. exists j. split; [apply in_seq; lia| exact Hf]. Qed.

Lemma nrunning_zero_no_running s : nrunning s = 0 -> forall j, j < length (jobs s) -> ph (getj s j) <> Running.
Proof.
  unfold nrunning, getj. intros H j Hj E.
  assert (In (nth j (jobs s) (mkJob Finished [])) (filter (fun x => match ph x with Running => true | _ => false end) (jobs s))).
  { apply filter_In. split; [apply nth_In; exact Hj| rewrite E; reflexivity]. }
  destruct (filter _ (jobs s)); [contradiction| discriminate].
Qed.

Lemma held_nil_if_none_holding s : (forall j, j < length (jobs s) -> ph (getj s j) = Waiting \/ ph (getj s j) = Finished) -> held s = [].
Proof.
  unfold held, getj. induction (jobs s) as [|a l IH]; intros H; [reflexivity|]. cbn [flat_map].
  rewrite IH; [|intros j Hj; apply (H (S j)); cbn; lia].
  destruct (H 0 ltac:(cbn; lia)) as [E|E]; cbn in E; unfold holds; rewrite E; reflexivity.
Qed.

Theorem progress q0 pop W s : QInv q0 pop W s -> pop <= length q0 -> 1 <= W ->
  all_finished s = false -> some_enabled pop s = true.
Proof.
  intros [Hc Hl Hw] Hpop HW Hnf. unfold some_enabled.
  (* a running job can finish *)
  destruct (existsb (fun j => match ph (getj s j) with Running => true | _ => false end) (seq 0 (length (jobs s)))) eqn:ER.
  { apply existsb_exists in ER as [j [Hj Ej]]. apply in_seq in Hj. apply (existsb_seq_intro _ _ j); [lia|].
    cbn [enabled]. destruct (ph (getj s j)); try discriminate. replace (j <? length (jobs s)) with true by (symmetry; apply Nat.ltb_lt; lia).
    cbn [andb]. apply orb_true_iff. right. reflexivity. }
  assert (NoRun : forall j, j < length (jobs s) -> ph (getj s j) <> Running).
  { intros j Hj E. assert (X : existsb (fun j => match ph (getj s j) with Running => true | _ => false end) (seq 0 (length (jobs s))) = true).
    { apply (existsb_seq_intro _ _ j); [exact Hj| rewrite E; reflexivity]. } congruence. }
  assert (Hnr : nrunning s = 0).
  { unfold nrunning. destruct (filter _ (jobs s)) as [|a l] eqn:Ef; [reflexivity|]. exfalso.
    assert (Ha : In a (filter (fun x => match ph x with Running => true | _ => false end) (jobs s))) by (rewrite Ef; left; reflexivity).
    apply filter_In in Ha as [Ha Hp]. apply (In_nth _ _ (mkJob Finished [])) in Ha as [j [Hj Ej]].
    apply (NoRun j Hj). unfold getj. rewrite Ej. destruct (ph a); try discriminate; reflexivity. }
  (* a holding job can start: all workers are free *)
  destruct (existsb (fun j => match ph (getj s j) with Holding => true | _ => false end) (seq 0 (length (jobs s)))) eqn:EH.
  { apply existsb_exists in EH as [j [Hj Ej]]. apply in_seq in Hj. apply (existsb_seq_intro _ _ j); [lia|].
    cbn [enabled]. destruct (ph (getj s j)); try discriminate. replace (j <? length (jobs s)) with true by (symmetry; apply Nat.ltb_lt; lia).
    replace (0 <? workers s) with true by (symmetry; apply Nat.ltb_lt; lia). cbn [andb]. apply orb_true_iff. left. apply orb_true_iff. right. reflexivity. }
  assert (NoHold : forall j, j < length (jobs s) -> ph (getj s j) <> Holding).
  { intros j Hj E. assert (X : existsb (fun j => match ph (getj s j) with Holding => true | _ => false end) (seq 0 (length (jobs s))) = true).
    { apply (existsb_seq_intro _ _ j); [exact Hj| rewrite E; reflexivity]. } congruence. }
  (* otherwise nobody holds anything: the whole queue is free and a waiting job can take *)
  destruct (all_finished_false s Hnf) as [j [Hj Hp]].
  assert (Hheld : held s = []).
  { apply held_nil_if_none_holding. intros i Hi. specialize (NoRun i Hi). specialize (NoHold i Hi). destruct (ph (getj s i)); auto; congruence. }
  rewrite Hheld, app_nil_r in Hc. apply Permutation_length in Hc.
  apply (existsb_seq_intro _ _ j); [exact Hj|]. cbn [enabled].
  specialize (NoRun j Hj). specialize (NoHold j Hj). destruct (ph (getj s j)); try congruence.
  replace (j <? length (jobs s)) with true by (symmetry; apply Nat.ltb_lt; lia).
  replace (pop <=? length (queue s)) with true by (symmetry; apply Nat.leb_le; lia). cbn [andb]. reflexivity.
Qed.

(* every enabled event advances exactly one job by one phase: schedules of enabled events are at most 3 * njobs long *)
Lemma measure_split l1 (y : job) l2 : fold_right (fun x acc => rank (ph x) + acc) 0 (l1 ++ y :: l2)
  = fold_right (fun x acc => rank (ph x) + acc) 0 l1 + rank (ph y) + fold_right (fun x acc => rank (ph x) + acc) 0 l2.
Proof. induction l1 as [|a l1 IH]; cbn; [lia| rewrite IH; lia]. Qed.

Theorem enabled_advances pop s e : enabled pop s e = true ->
  measure (qstep pop s e) = S (measure s) /\ length (jobs (qstep pop s e)) = length (jobs s).
Proof.
  intros En. unfold qstep. rewrite En. cbn [negb]. unfold measure.
  destruct e as [j|j|j]; cbn [enabled] in En; apply andb_true_iff in En as [En E3]; apply andb_true_iff in En as [E1 E2];
    apply Nat.ltb_lt in E1; unfold getj in *; cbn [jobs];
    (split; [|apply setj_length]);
    match goal with |- context [setj (jobs s) j ?x] =>
      destruct (setj_split (jobs s) j x (mkJob Finished []) E1) as (l1 & y & l2 & S1 & S2 & S3 & S4) end;
    rewrite S3; rewrite S4 in *; rewrite S1; rewrite !measure_split; cbn [ph rank];
    destruct (ph y); try discriminate; cbn [rank]; lia.
Qed.

Lemma measure_bound s : measure s <= 3 * length (jobs s).
Proof. unfold measure. induction (jobs s) as [|a l IH]; cbn; [lia|]. destruct (ph a); cbn; lia. Qed.

Lemma measure_all_finished s : all_finished s = true <-> measure s = 3 * length (jobs s).
Proof.
  unfold measure, all_finished. induction (jobs s) as [|a l IH]; cbn; [split; auto|].
  pose proof (measure_bound (mkQ [] l 0)) as B. unfold measure in B. cbn in B.
  destruct (ph a); cbn; rewrite ?IH; split; intros; try discriminate; try lia.
Qed.

(* liveness: from every reachable state some schedule finishes every submitted job *)
Theorem all_jobs_can_finish q0 pop W : pop <= length q0 -> 1 <= W -> forall k s, QInv q0 pop W s ->
  3 * length (jobs s) - measure s <= k -> exists sched, all_finished (qrun pop s sched) = true.
Proof.
  intros Hpop HW. induction k as [|k IH]; intros s H Hk.
  - exists []. cbn. apply measure_all_finished. pose proof (measure_bound s). lia.
  - destruct (all_finished s) eqn:Ef; [exists []; exact Ef|].
    pose proof (progress q0 pop W s H Hpop HW Ef) as Hp. unfold some_enabled in Hp.
    apply existsb_exists in Hp as [j [_ Hp]].
    assert (exists e, enabled pop s e = true) as [e He].
    { apply orb_true_iff in Hp as [Hp|Hp]; [apply orb_true_iff in Hp as [Hp|Hp]|]; eauto. }
    destruct (enabled_advances pop s e He) as [M L].
    destruct (IH (qstep pop s e) (qinv_step _ _ _ _ e H) ltac:(lia)) as [sched Hs].
    exists (e :: sched). exact Hs.
Qed.

(* ---------- the pinned design: shared slot and underflow ---------- *)
(* 4 resources, 2 workers, 4 jobs: jobs 2 and 3 enter while both workers are busy; both later read the last writer's resource *)
Theorem shared_slot_refuted :
  running_received (orun 1 (oinit [10; 11; 12; 13]%Z 4 2)
     [Enter 0; Acquire 0; Enter 1; Acquire 1; Enter 2; Enter 3; OFinish 0; Acquire 2; OFinish 1; Acquire 3])
  = [[13]; [13]]%Z.
Proof. vm_compute. reflexivity. Qed.

(* 2 resources, 3 jobs: the third job pops from an empty deque *)
Theorem underflow_refuted :
  underflow (orun 1 (oinit [10; 11]%Z 3 1) [Enter 0; Acquire 0; Enter 1; Enter 2]) = true.
Proof. vm_compute. reflexivity. Qed.
