(* Invariants of the extended mechanism [xstep] (group semaphore, waves, failures, close()), for every schedule. *)
From Coq Require Import List ZArith Bool Arith Lia Permutation.
Import ListNotations.
Require Import DH.Common.ListSet DH.C17_Queue.Model DH.C17_Queue.Lemmas2.

(* ---------- setn ---------- *)
Lemma setn_length {A} : forall (l : list A) j x, length (setn l j x) = length l.
Proof. induction l as [|a l IH]; intros [|j] x; cbn; auto. Qed.

Lemma nth_setn {A} : forall (l : list A) j k x d, j < length l -> nth k (setn l j x) d = if Nat.eqb k j then x else nth k l d.
Proof.
  induction l as [|a l IH]; intros j k x d Hj; cbn in Hj; [lia|]. destruct j as [|j], k as [|k]; cbn; try reflexivity.
  apply IH. lia.
Qed.

Lemma nth_setn_out {A} : forall (l : list A) j k x d, length l <= j -> nth k (setn l j x) d = nth k l d.
Proof. induction l as [|a l IH]; intros j k x d Hj; cbn in *; [reflexivity|]. destruct j as [|j]; [lia|]. destruct k; cbn; [reflexivity| apply IH; lia]. Qed.

Lemma in_setn {A} : forall (l : list A) j x y, In y (setn l j x) -> y = x \/ In y l.
Proof.
  induction l as [|a l IH]; intros j x y H; cbn in H; [destruct j; destruct H|]. destruct j as [|j]; cbn in H.
  - destruct H as [H|H]; [left; auto| right; right; exact H].
  - destruct H as [H|H]; [right; left; exact H|]. destruct (IH j x y H); [left; assumption| right; right; assumption].
Qed.

Lemma flat_map_setn {A B} (f : A -> list B) d : forall l j x, j < length l ->
  Permutation (f (nth j l d) ++ flat_map f (setn l j x)) (f x ++ flat_map f l).
Proof.
  induction l as [|a l IH]; intros j x Hj; cbn in Hj; [lia|]. destruct j as [|j]; cbn [nth setn flat_map].
  - rewrite !app_assoc. apply Permutation_app_tail. apply Permutation_app_comm.
  - specialize (IH j x ltac:(lia)).
    rewrite (Permutation_app_swap_app (f (nth j l d)) (f a)). rewrite (Permutation_app_swap_app (f x) (f a)).
    apply Permutation_app_head. exact IH.
Qed.

Definition lsum {A} (f : A -> nat) (l : list A) : nat := fold_right (fun x acc => f x + acc) 0 l.

Lemma lsum_setn {A} (f : A -> nat) d : forall l j x, j < length l -> f (nth j l d) + lsum f (setn l j x) = f x + lsum f l.
Proof.
  induction l as [|a l IH]; intros j x Hj; cbn in Hj; [lia|]. destruct j as [|j]; cbn [nth setn lsum fold_right].
  - lia.
  - specialize (IH j x ltac:(lia)). unfold lsum in IH. lia.
Qed.

Lemma lsum_app {A} (f : A -> nat) l1 l2 : lsum f (l1 ++ l2) = lsum f l1 + lsum f l2.
Proof. unfold lsum. induction l1 as [|a l IH]; cbn; [reflexivity|]. rewrite IH. lia. Qed.

Lemma lsum_zero {A} (f : A -> nat) l : (forall x, In x l -> f x = 0) -> lsum f l = 0.
Proof. induction l as [|a l IH]; intros H; cbn; [reflexivity|]. rewrite (H a (or_introl eq_refl)). apply IH. intros x Hx. apply H. right. exact Hx. Qed.

Lemma lsum_pos_in {A} (f : A -> nat) l : 0 < lsum f l -> exists x, In x l /\ 0 < f x.
Proof.
  induction l as [|a l IH]; cbn; [lia|]. intros H. destruct (Nat.eq_dec (f a) 0) as [E|E].
  - destruct IH as (x & Hx & Hp); [unfold lsum; lia|]. exists x. split; [right; exact Hx| exact Hp].
  - exists a. split; [left; reflexivity| lia].
Qed.

Lemma lsum_map {A B} (f : B -> nat) (g : A -> B) l : lsum f (map g l) = lsum (fun x => f (g x)) l.
Proof. unfold lsum. induction l as [|a l IH]; cbn; [reflexivity|]. rewrite IH. reflexivity. Qed.

Lemma flat_map_nil {A B} (f : A -> list B) l : (forall x, In x l -> f x = []) -> flat_map f l = [].
Proof. induction l as [|a l IH]; intros H; cbn; [reflexivity|]. rewrite (H a (or_introl eq_refl)), IH; [reflexivity|]. intros x Hx. apply H. right. exact Hx. Qed.

(* ---------- the invariant ---------- *)
Definition ihold (x : xjob) : nat := match xph x with XHolding | XQueued | XRunning => 1 | _ => 0 end.
Definition irun (g : nat) (x : xjob) : nat := match xph x with XQueued | XRunning => if Nat.eqb (xgen x) g then 1 else 0 | _ => 0 end.
Definition ibusy (x : xjob) : nat := match xph x with XRunning | XZombie => 1 | _ => 0 end.
Definition xnhold (s : xs) : nat := lsum ihold (xjobs s).
Definition xnrun (s : xs) (g : nat) : nat := lsum (irun g) (xjobs s).

Definition len_ok (pop : nat) (x : xjob) : Prop :=
  match xph x with XWaiting | XCancelled => True | _ => length (xres x) = pop end.

Record XInv (q0 : list Z) (pop W : nat) (s : xs) : Prop := {
  x_err : xerr s = false;
  x_cons : Permutation (xqueue s ++ xheld s) q0;
  x_len : forall x, In x (xjobs s) -> len_ok pop x;
  x_perm : xperm s + xnhold s = Nat.div (length q0) pop;
  x_sem : forall g, g < length (xsems s) -> nth g (xsems s) 0 + xnrun s g = W;
  x_gen : forall x, In x (xjobs s) -> 0 < ihold x -> xgen x < length (xsems s);
  x_sub : 0 < length (xjobs s) -> 0 < length (xsems s) }.

Lemma xinv_init q0 pop W : XInv q0 pop W (xinit pop q0).
Proof.
  constructor; unfold xinit, xheld, xnhold; cbn [xerr xqueue xjobs xperm xsems flat_map length].
  - reflexivity.
  - rewrite app_nil_r. reflexivity.
  - intros x [].
  - cbn. lia.
  - intros g Hg. lia.
  - intros x [].
  - lia.
Qed.

Lemma xheld_length pop l : (forall x, In x l -> len_ok pop x) -> length (flat_map xholds l) = lsum ihold l * pop.
Proof.
  induction l as [|a l IH]; intros H; cbn [flat_map lsum fold_right]; [reflexivity|]. rewrite app_length, IH by (intros x Hx; apply H; right; exact Hx).
  pose proof (H a (or_introl eq_refl)) as Ha. unfold len_ok in Ha. unfold xholds, ihold, lsum. destruct (xph a); cbn [length]; lia.
Qed.

(* the accounting of the group semaphore implies that a permit holder always finds its resources in the deque *)
Lemma xqueue_length q0 pop W s : XInv q0 pop W s -> length (xqueue s) + xnhold s * pop = length q0.
Proof.
  intros [_ Hc Hl _ _ _ _]. apply Permutation_length in Hc. rewrite app_length in Hc. unfold xheld in Hc. rewrite (xheld_length pop) in Hc by exact Hl.
  exact Hc.
Qed.

Lemma permit_means_resources q0 pop W s : XInv q0 pop W s -> 0 < xperm s -> pop <= length (xqueue s).
Proof.
  intros H Hp. pose proof (xqueue_length _ _ _ _ H) as Hq. pose proof (x_perm _ _ _ _ H) as Hperm.
  destruct (Nat.eq_dec pop 0) as [->|Hz]; [lia|].
  pose proof (Nat.mul_div_le (length q0) pop Hz) as Hd.
  assert (S (xnhold s) <= length q0 / pop) by lia.
  assert (S (xnhold s) * pop <= (length q0 / pop) * pop) by (apply Nat.mul_le_mono_r; assumption).
  lia.
Qed.

Lemma xenabled_take s j : xenabled s (XTake j) = true -> j < length (xjobs s) /\ xph (xget s j) = XWaiting /\ 0 < xperm s.
Proof.
  cbn [xenabled]. intros H. apply andb_true_iff in H as [H H3]. apply andb_true_iff in H as [H1 H2].
  apply Nat.ltb_lt in H1. apply Nat.ltb_lt in H3. destruct (xph (xget s j)); try discriminate. auto.
Qed.
Lemma xenabled_run s j : xenabled s (XRun j) = true -> j < length (xjobs s) /\ xph (xget s j) = XHolding /\ 0 < nth (xgen (xget s j)) (xsems s) 0.
Proof.
  cbn [xenabled]. intros H. apply andb_true_iff in H as [H H3]. apply andb_true_iff in H as [H1 H2].
  apply Nat.ltb_lt in H1. apply Nat.ltb_lt in H3. destruct (xph (xget s j)); try discriminate. auto.
Qed.
Lemma xenabled_finish s j : xenabled s (XFinish j) = true -> j < length (xjobs s) /\ xph (xget s j) = XRunning.
Proof.
  cbn [xenabled]. intros H. apply andb_true_iff in H as [H1 H2].
  apply Nat.ltb_lt in H1. destruct (xph (xget s j)); try discriminate. auto.
Qed.
Lemma xenabled_zombie s j : xenabled s (XZombieEnd j) = true -> j < length (xjobs s) /\ xph (xget s j) = XZombie.
Proof.
  cbn [xenabled]. intros H. apply andb_true_iff in H as [H1 H2].
  apply Nat.ltb_lt in H1. destruct (xph (xget s j)); try discriminate. auto.
Qed.

Lemma irun_other g x : xph x <> XRunning -> xph x <> XQueued -> irun g x = 0.
Proof. unfold irun. destruct (xph x); congruence. Qed.

Lemma xenabled_start s j : xenabled s (XStart j) = true -> j < length (xjobs s) /\ xph (xget s j) = XQueued.
Proof.
  cbn [xenabled]. intros H. apply andb_true_iff in H as [H1 H2].
  apply Nat.ltb_lt in H1. destruct (xph (xget s j)); try discriminate. auto.
Qed.

Lemma xbusy_lsum s : xbusy s = lsum ibusy (xjobs s).
Proof. unfold xbusy, lsum, ibusy. induction (xjobs s) as [|a l IH]; cbn; [reflexivity|]. destruct (xph a); cbn; rewrite IH; reflexivity. Qed.

(* returning the resources of a running job (normal return or exception) *)
Lemma xinv_return q0 pop W s j p : XInv q0 pop W s -> xenabled s (XFinish j) = true -> (p = XDone \/ p = XFailed) ->
  XInv q0 pop W (xreturn s j p).
Proof.
  intros H En Hp. destruct (xenabled_finish _ _ En) as (Hj & Hph). destruct H as [He Hc Hl Hperm Hsem Hgen Hsub].
  set (x := xget s j) in *. assert (Hx : In x (xjobs s)) by (apply nth_In; exact Hj).
  assert (Hg : xgen x < length (xsems s)) by (apply Hgen; [exact Hx| unfold ihold; rewrite Hph; lia]).
  assert (Hih : ihold (mkXJob p (xres x) (xgen x)) = 0) by (destruct Hp as [-> | ->]; reflexivity).
  assert (Hxh : xholds (mkXJob p (xres x) (xgen x)) = []) by (destruct Hp as [-> | ->]; reflexivity).
  unfold xreturn. fold x. constructor; cbn [xerr xqueue xjobs xperm xsems].
  - reflexivity.
  - unfold xheld in *. cbn [xjobs]. pose proof (flat_map_setn xholds xdflt (xjobs s) j (mkXJob p (xres x) (xgen x)) Hj) as P.
    fold (xget s j) in P. fold x in P. rewrite Hxh in P. unfold xholds at 1 in P. rewrite Hph in P. cbn [app] in P.
    rewrite <- Hc. rewrite <- P. rewrite <- !app_assoc. reflexivity.
  - intros y Hy. apply in_setn in Hy as [->|Hy]; [|apply Hl, Hy]. pose proof (Hl x Hx) as L. unfold len_ok in *. rewrite Hph in L.
    destruct Hp as [-> | ->]; cbn; exact L.
  - unfold xnhold in *. cbn [xjobs]. pose proof (lsum_setn ihold xdflt (xjobs s) j (mkXJob p (xres x) (xgen x)) Hj) as P.
    fold (xget s j) in P. fold x in P. rewrite Hih in P. unfold ihold at 1 in P. rewrite Hph in P. lia.
  - intros g Hg'. rewrite setn_length in Hg'. unfold xnrun in *. cbn [xjobs]. rewrite nth_setn by exact Hg.
    pose proof (lsum_setn (irun g) xdflt (xjobs s) j (mkXJob p (xres x) (xgen x)) Hj) as P.
    fold (xget s j) in P. fold x in P. rewrite (irun_other g (mkXJob p (xres x) (xgen x))) in P by (destruct Hp as [-> | ->]; cbn; congruence).
    specialize (Hsem g Hg'). unfold irun at 1 in P. rewrite Hph in P. destruct (Nat.eqb g (xgen x)) eqn:E.
    + apply Nat.eqb_eq in E. subst g. rewrite Nat.eqb_refl in P. lia.
    + rewrite Nat.eqb_sym, E in P. lia.
  - intros y Hy Hpos. rewrite setn_length. apply in_setn in Hy as [->|Hy]; [rewrite Hih in Hpos; lia| apply Hgen; assumption].
  - rewrite !setn_length. exact Hsub.
Qed.

Lemma xcancel_ihold thr x : ihold (xcancel thr x) = 0.
Proof. unfold xcancel, ihold. destruct (xph x) eqn:E; cbn; try rewrite E; try reflexivity. destruct thr; reflexivity. Qed.
Lemma xcancel_holds thr x : xholds (xcancel thr x) = [].
Proof. unfold xcancel, xholds. destruct (xph x) eqn:E; cbn; try rewrite E; try reflexivity. destruct thr; reflexivity. Qed.
Lemma xcancel_irun thr g x : irun g (xcancel thr x) = 0.
Proof. unfold xcancel, irun. destruct (xph x) eqn:E; cbn; try rewrite E; try reflexivity. destruct thr; reflexivity. Qed.
Lemma xcancel_len thr pop x : len_ok pop x -> len_ok pop (xcancel thr x).
Proof. unfold xcancel, len_ok. destruct (xph x) eqn:E; cbn; try rewrite E; auto. destruct thr; auto. Qed.

Lemma nth_map_const {A} (l : list A) (W : nat) g : g < length l -> nth g (map (fun _ => W) l) 0 = W.
Proof. revert g. induction l as [|a l IH]; intros g Hg; cbn in *; [lia|]. destruct g; [reflexivity| apply IH; lia]. Qed.

Lemma xreturned_perm thr s : Permutation (xreturned thr s) (xheld s).
Proof.
  unfold xreturned, xheld. destruct thr; [reflexivity|]. induction (xjobs s) as [|a l IH]; cbn [flat_map]; [reflexivity|].
  unfold xhold1 at 1, xrun1 at 1, xholds at 1. destruct (xph a); cbn [app]; try exact IH.
  - rewrite <- app_assoc. apply Permutation_app_head. exact IH.
  - rewrite <- app_assoc. apply Permutation_app_head. exact IH.
  - rewrite <- IH. apply Permutation_app_swap_app.
Qed.

Theorem xinv_step q0 pop W thr s e : XInv q0 pop W s -> XInv q0 pop W (xstep pop W thr s e).
Proof.
  intros H. unfold xstep. rewrite (x_err _ _ _ _ H). destruct (xenabled s e) eqn:En; cbn [negb]; [|exact H].
  destruct e as [k|j|j|j|j|j| |j].
  - (* submit *)
    destruct H as [He Hc Hl Hperm Hsem Hgen Hsub]. constructor; cbn [xerr xqueue xjobs xperm xsems].
    + reflexivity.
    + unfold xheld in *. cbn [xjobs]. rewrite flat_map_app. rewrite (flat_map_nil xholds (repeat _ k)); [rewrite app_nil_r; exact Hc|].
      intros x Hx. apply repeat_spec in Hx. subst. reflexivity.
    + intros x Hx. apply in_app_or in Hx as [Hx|Hx]; [apply Hl, Hx|]. apply repeat_spec in Hx. subst. exact I.
    + unfold xnhold in *. cbn [xjobs]. rewrite lsum_app. rewrite (lsum_zero ihold (repeat _ k)); [lia|].
      intros x Hx. apply repeat_spec in Hx. subst. reflexivity.
    + intros g Hg. rewrite app_length in Hg. cbn in Hg. unfold xnrun in *. cbn [xjobs]. rewrite lsum_app.
      rewrite (lsum_zero (irun g) (repeat _ k)) by (intros x Hx; apply repeat_spec in Hx; subst; reflexivity).
      destruct (Nat.lt_ge_cases g (length (xsems s))) as [L|L].
      * rewrite app_nth1 by exact L. specialize (Hsem g L). lia.
      * assert (g = length (xsems s)) by lia. subst g. rewrite app_nth2, Nat.sub_diag by lia. cbn [nth].
        rewrite (lsum_zero (irun (length (xsems s))) (xjobs s)); [lia|]. intros x Hx. unfold irun. destruct (xph x) eqn:E; try reflexivity;
        (assert (xgen x < length (xsems s)) by (apply Hgen; [exact Hx| unfold ihold; rewrite E; lia]);
         replace (xgen x =? length (xsems s)) with false by (symmetry; apply Nat.eqb_neq; lia); reflexivity).
    + intros x Hx Hpos. rewrite app_length. cbn. apply in_app_or in Hx as [Hx|Hx]; [specialize (Hgen x Hx Hpos); lia|].
      apply repeat_spec in Hx. subst. cbn in Hpos. lia.
    + intros _. rewrite app_length. cbn. lia.
  - (* take *)
    destruct (xenabled_take _ _ En) as (Hj & Hph & Hp). pose proof (permit_means_resources _ _ _ _ H Hp) as Hq.
    replace (length (xqueue s) <? pop) with false by (symmetry; apply Nat.ltb_ge; exact Hq).
    destruct H as [He Hc Hl Hperm Hsem Hgen Hsub]. set (x := xget s j) in *. set (y := mkXJob XHolding (firstn pop (xqueue s)) (length (xsems s) - 1)).
    constructor; cbn [xerr xqueue xjobs xperm xsems].
    + reflexivity.
    + unfold xheld in *. cbn [xjobs]. pose proof (flat_map_setn xholds xdflt (xjobs s) j y Hj) as P.
      fold (xget s j) in P. fold x in P. unfold xholds at 1 3 in P. rewrite Hph in P. cbn [app y xph xres] in P.
      rewrite P. rewrite <- Hc. rewrite <- (firstn_skipn pop (xqueue s)) at 3. rewrite <- !app_assoc.
      apply Permutation_app_swap_app.
    + intros z Hz. apply in_setn in Hz as [->|Hz]; [|apply Hl, Hz]. unfold len_ok. cbn. apply firstn_length_le. exact Hq.
    + unfold xnhold in *. cbn [xjobs]. pose proof (lsum_setn ihold xdflt (xjobs s) j y Hj) as P.
      fold (xget s j) in P. fold x in P. unfold ihold at 1 3 in P. rewrite Hph in P. cbn [y xph] in P. lia.
    + intros g Hg. unfold xnrun in *. cbn [xjobs]. pose proof (lsum_setn (irun g) xdflt (xjobs s) j y Hj) as P.
      fold (xget s j) in P. fold x in P. rewrite (irun_other g x), (irun_other g y) in P by (cbn; congruence). specialize (Hsem g Hg). lia.
    + intros z Hz Hpos. apply in_setn in Hz as [->|Hz]; [|apply Hgen; assumption]. cbn [y xgen].
      assert (0 < length (xsems s)) by (apply Hsub; lia). lia.
    + rewrite setn_length. exact Hsub.
  - (* run *)
    destruct (xenabled_run _ _ En) as (Hj & Hph & Hw).
    destruct H as [He Hc Hl Hperm Hsem Hgen Hsub]. set (x := xget s j) in *.
    set (p := if thr then XQueued else XRunning). set (y := mkXJob p (xres x) (xgen x)).
    assert (Hp : p = XQueued \/ p = XRunning) by (unfold p; destruct thr; auto).
    assert (Hyh : xholds y = xres x) by (destruct Hp as [E|E]; unfold xholds, y; cbn; rewrite E; reflexivity).
    assert (Hyi : ihold y = 1) by (destruct Hp as [E|E]; unfold ihold, y; cbn; rewrite E; reflexivity).
    assert (Hyr : forall g, irun g y = if Nat.eqb (xgen x) g then 1 else 0) by (intros g; destruct Hp as [E|E]; unfold irun, y; cbn; rewrite E; reflexivity).
    assert (Hx : In x (xjobs s)) by (apply nth_In; exact Hj).
    assert (Hg : xgen x < length (xsems s)) by (apply Hgen; [exact Hx| unfold ihold; rewrite Hph; lia]).
    constructor; cbn [xerr xqueue xjobs xperm xsems].
    + reflexivity.
    + unfold xheld in *. cbn [xjobs]. pose proof (flat_map_setn xholds xdflt (xjobs s) j y Hj) as P.
      fold (xget s j) in P. fold x in P. rewrite Hyh in P. unfold xholds at 1 in P. rewrite Hph in P.
      apply Permutation_app_inv_l in P. rewrite P. exact Hc.
    + intros z Hz. apply in_setn in Hz as [->|Hz]; [|apply Hl, Hz]. pose proof (Hl x Hx) as L. unfold len_ok in *. rewrite Hph in L.
      destruct Hp as [E|E]; unfold y; cbn; rewrite E; exact L.
    + unfold xnhold in *. cbn [xjobs]. pose proof (lsum_setn ihold xdflt (xjobs s) j y Hj) as P.
      fold (xget s j) in P. fold x in P. rewrite Hyi in P. unfold ihold at 1 in P. rewrite Hph in P. lia.
    + intros g Hg'. rewrite setn_length in Hg'. unfold xnrun in *. cbn [xjobs]. rewrite nth_setn by exact Hg.
      pose proof (lsum_setn (irun g) xdflt (xjobs s) j y Hj) as P. fold (xget s j) in P. fold x in P.
      rewrite (irun_other g x) in P by congruence. rewrite Hyr in P.
      specialize (Hsem g Hg'). destruct (Nat.eqb g (xgen x)) eqn:E.
      * apply Nat.eqb_eq in E. subst g. rewrite Nat.eqb_refl in P. lia.
      * rewrite Nat.eqb_sym, E in P. lia.
    + intros z Hz Hpos. rewrite setn_length. apply in_setn in Hz as [->|Hz]; [exact Hg| apply Hgen; assumption].
    + rewrite !setn_length. exact Hsub.
  - (* a pool thread picks the job up *)
    destruct (xenabled_start _ _ En) as (Hj & Hph). destruct (xbusy s <? W); [|exact H].
    destruct H as [He Hc Hl Hperm Hsem Hgen Hsub]. set (x := xget s j) in *. set (y := mkXJob XRunning (xres x) (xgen x)).
    assert (Hx : In x (xjobs s)) by (apply nth_In; exact Hj).
    constructor; cbn [xerr xqueue xjobs xperm xsems].
    + reflexivity.
    + unfold xheld in *. cbn [xjobs]. pose proof (flat_map_setn xholds xdflt (xjobs s) j y Hj) as P.
      fold (xget s j) in P. fold x in P. unfold xholds at 1 3 in P. rewrite Hph in P. cbn [y xph xres] in P.
      apply Permutation_app_inv_l in P. rewrite P. exact Hc.
    + intros z Hz. apply in_setn in Hz as [->|Hz]; [|apply Hl, Hz]. pose proof (Hl x Hx) as L. unfold len_ok in *. rewrite Hph in L. cbn. exact L.
    + unfold xnhold in *. cbn [xjobs]. pose proof (lsum_setn ihold xdflt (xjobs s) j y Hj) as P.
      fold (xget s j) in P. fold x in P. unfold ihold at 1 3 in P. rewrite Hph in P. cbn [y xph] in P. lia.
    + intros g Hg'. unfold xnrun in *. cbn [xjobs]. pose proof (lsum_setn (irun g) xdflt (xjobs s) j y Hj) as P.
      fold (xget s j) in P. fold x in P. unfold irun at 1 3 in P. rewrite Hph in P. cbn [y xph xgen] in P. specialize (Hsem g Hg'). lia.
    + intros z Hz Hpos. apply in_setn in Hz as [->|Hz]; [|apply Hgen; assumption]. cbn [y xgen]. apply Hgen; [exact Hx| unfold ihold; rewrite Hph; lia].
    + rewrite setn_length. exact Hsub.
  - (* finish *) apply xinv_return; [exact H| exact En| left; reflexivity].
  - (* fail *) apply xinv_return; [exact H| exact En| right; reflexivity].
  - (* close *)
    destruct H as [He Hc Hl Hperm Hsem Hgen Hsub].
    assert (Z1 : lsum ihold (map (xcancel thr) (xjobs s)) = 0) by (rewrite lsum_map; apply lsum_zero; intros; apply xcancel_ihold).
    constructor; cbn [xerr xqueue xjobs xperm xsems].
    + reflexivity.
    + unfold xheld at 1. cbn [xjobs]. rewrite (flat_map_nil xholds (map _ _)); [rewrite app_nil_r, xreturned_perm; exact Hc|].
      intros x Hx. apply in_map_iff in Hx as (y & <- & _). apply xcancel_holds.
    + intros x Hx. apply in_map_iff in Hx as (y & <- & Hy). apply xcancel_len, Hl, Hy.
    + unfold xnhold. cbn [xjobs]. rewrite Z1. rewrite <- (Permutation_length Hc), !app_length, (Permutation_length (xreturned_perm thr s)). lia.
    + intros g Hg. rewrite map_length in Hg. rewrite nth_map_const by exact Hg. unfold xnrun. cbn [xjobs].
      rewrite lsum_map, lsum_zero; [lia|]. intros; apply xcancel_irun.
    + intros x Hx Hpos. apply in_map_iff in Hx as (y & <- & _). rewrite xcancel_ihold in Hpos. lia.
    + rewrite !map_length. exact Hsub.
  - (* the thread of a cancelled job returns *)
    destruct (xenabled_zombie _ _ En) as (Hj & Hph).
    destruct H as [He Hc Hl Hperm Hsem Hgen Hsub]. set (x := xget s j) in *. set (y := mkXJob XCancelled (xres x) (xgen x)).
    constructor; cbn [xerr xqueue xjobs xperm xsems].
    + reflexivity.
    + unfold xheld in *. cbn [xjobs]. pose proof (flat_map_setn xholds xdflt (xjobs s) j y Hj) as P.
      fold (xget s j) in P. fold x in P. unfold xholds at 1 3 in P. rewrite Hph in P. cbn [y xph app] in P. rewrite P. exact Hc.
    + intros z Hz. apply in_setn in Hz as [->|Hz]; [exact I| apply Hl, Hz].
    + unfold xnhold in *. cbn [xjobs]. pose proof (lsum_setn ihold xdflt (xjobs s) j y Hj) as P.
      fold (xget s j) in P. fold x in P. unfold ihold at 1 3 in P. rewrite Hph in P. cbn [y xph] in P. lia.
    + intros g Hg. unfold xnrun in *. cbn [xjobs]. pose proof (lsum_setn (irun g) xdflt (xjobs s) j y Hj) as P.
      fold (xget s j) in P. fold x in P. rewrite (irun_other g x), (irun_other g y) in P by (cbn; congruence). specialize (Hsem g Hg). lia.
    + intros z Hz Hpos. apply in_setn in Hz as [->|Hz]; [cbn in Hpos; lia| apply Hgen; assumption].
    + rewrite setn_length. exact Hsub.
Qed.

Theorem xinv_run q0 pop W thr sched : forall s, XInv q0 pop W s -> XInv q0 pop W (xrun pop W thr s sched).
Proof. unfold xrun. induction sched as [|e t IH]; intros s H; cbn [fold_left]; [exact H| apply IH, xinv_step, H]. Qed.
