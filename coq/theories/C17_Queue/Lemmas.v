From Coq Require Import List ZArith Bool Arith Lia Permutation.
Import ListNotations.
Require Import DH.Common.ListSet DH.C17_Queue.Model.

(* ---------- setj / getj ---------- *)
Lemma setj_split : forall (l : list job) j x d, j < length l ->
  exists l1 y l2, l = l1 ++ y :: l2 /\ length l1 = j /\ setj l j x = l1 ++ x :: l2 /\ nth j l d = y.
Proof.
  induction l as [|a l IH]; intros j x d Hj; cbn in Hj; [lia|].
  destruct j as [|j].
  - exists [], a, l. cbn. auto.
  - destruct (IH j x d ltac:(lia)) as (l1 & y & l2 & E1 & E2 & E3 & E4).
    exists (a :: l1), y, l2. cbn. rewrite E3, E2, E4. rewrite E1 at 1. auto.
Qed.

Lemma setj_length : forall l j x, length (setj l j x) = length l.
Proof. induction l as [|a l IH]; intros [|j] x; cbn; auto. Qed.

Lemma nth_setj_same : forall l j x d, j < length l -> nth j (setj l j x) d = x.
Proof. induction l as [|a l IH]; intros [|j] x d Hj; cbn in *; try lia; auto. apply IH. lia. Qed.

Lemma nth_setj_other : forall l j j' x d, j <> j' -> nth j' (setj l j x) d = nth j' l d.
Proof.
  induction l as [|a l IH]; intros [|j] [|j'] x d Hne; cbn; try reflexivity; try congruence.
  apply IH. congruence.
Qed.

(* ---------- invariant ---------- *)
Definition rank (p : phase) : nat := match p with Waiting => 0 | Holding => 1 | Running => 2 | Finished => 3 end.
Definition measure (s : qs) : nat := fold_right (fun x acc => rank (ph x) + acc) 0 (jobs s).
Definition nrunning (s : qs) : nat := length (filter (fun x => match ph x with Running => true | _ => false end) (jobs s)).

Record QInv (q0 : list Z) (pop W : nat) (s : qs) : Prop := {
  q_cons : Permutation (queue s ++ held s) q0;
  q_len : forall x, In x (jobs s) -> match ph x with Waiting => True | _ => length (res x) = pop end;
  q_work : workers s + nrunning s = W }.

Lemma holds_waiting n : flat_map holds (repeat (mkJob Waiting []) n) = [].
Proof. induction n; cbn; auto. Qed.

Lemma nrunning_waiting n : length (filter (fun x => match ph x with Running => true | _ => false end) (repeat (mkJob Waiting []) n)) = 0.
Proof. induction n; cbn; auto. Qed.

Lemma qinv_init q n w pop : QInv q pop w (qinit q n w).
Proof.
  constructor; cbn.
  - unfold held. cbn. rewrite holds_waiting, app_nil_r. reflexivity.
  - intros x Hx. apply repeat_spec in Hx. subst. exact I.
  - unfold nrunning. cbn. rewrite nrunning_waiting. lia.
Qed.

Ltac split_job s j Hj :=
  let l1 := fresh "l1" in let y := fresh "y" in let l2 := fresh "l2" in
  let E1 := fresh "E1" in let E2 := fresh "E2" in let E3 := fresh "E3" in let E4 := fresh "E4" in
  destruct (setj_split (jobs s) j (mkJob Waiting []) (mkJob Finished []) Hj) as (l1 & y & l2 & E1 & E2 & E3 & E4).

Lemma in_split_job {l1 : list job} {y l2 x z} : In x (l1 ++ z :: l2) -> x = z \/ In x (l1 ++ y :: l2).
Proof. rewrite !in_app_iff. cbn. intuition. Qed.

Lemma filter_app_len {A} (f : A -> bool) l1 l2 : length (filter f (l1 ++ l2)) = length (filter f l1) + length (filter f l2).
Proof. rewrite filter_app, app_length. reflexivity. Qed.

Lemma qinv_step q0 pop W s e : QInv q0 pop W s -> QInv q0 pop W (qstep pop s e).
Proof.
  intros [Hc Hl Hw]. unfold qstep. destruct (enabled pop s e) eqn:En; cbn [negb]; [|constructor; assumption].
  destruct e as [j|j|j]; cbn [enabled] in En; apply andb_true_iff in En as [En E3]; apply andb_true_iff in En as [E1 E2];
    apply Nat.ltb_lt in E1; unfold getj in *;
    destruct (setj_split (jobs s) j (mkJob Waiting []) (mkJob Finished []) E1) as (l1 & y & l2 & S1 & S2 & _ & S4);
    rewrite S4 in *; destruct y as [p r]; cbn [ph res] in *; destruct p; try discriminate.
  - (* Take *)
    apply Nat.leb_le in E3.
    destruct (setj_split (jobs s) j (mkJob Holding (firstn pop (queue s))) (mkJob Finished []) E1) as (l1' & y' & l2' & T1 & T2 & T3 & _).
    assert (l1' = l1 /\ l2' = l2) as [-> ->].
    { rewrite S1 in T1. apply app_inj_pivot_len in T1; [|congruence]. destruct T1 as (A & B & C). auto. }
    constructor; cbn [queue jobs workers]; unfold held, nrunning in *; cbn [jobs]; rewrite T3.
    + rewrite S1 in Hc. rewrite !flat_map_app in *. cbn [flat_map holds ph res] in *.
      rewrite <- Hc. rewrite <- (firstn_skipn pop (queue s)) at 3.
      rewrite <- !app_assoc. cbn [app].
      (* skipn ++ H1 ++ firstn ++ H2  ~  firstn ++ skipn ++ H1 ++ H2 *)
      eapply Permutation_trans; [|apply Permutation_app_swap_app]. apply Permutation_app_head.
      apply Permutation_app_swap_app.
    + intros x Hx. apply (@in_split_job l1 (mkJob Waiting r) l2) in Hx as [->|Hx]; [cbn; apply firstn_length_le; exact E3| apply Hl; rewrite S1; exact Hx].
    + rewrite S1 in Hw. rewrite !filter_app_len in *. cbn in *. exact Hw.
  - (* Run *)
    apply Nat.ltb_lt in E3.
    destruct (setj_split (jobs s) j (mkJob Running r) (mkJob Finished []) E1) as (l1' & y' & l2' & T1 & T2 & T3 & _).
    assert (l1' = l1 /\ l2' = l2) as [-> ->].
    { rewrite S1 in T1. apply app_inj_pivot_len in T1; [|congruence]. destruct T1 as (A & B & C). auto. }
    constructor; cbn [queue jobs workers]; unfold held, nrunning in *; cbn [jobs]; rewrite T3.
    + rewrite S1 in Hc. rewrite !flat_map_app in *. cbn [flat_map holds ph res] in *. exact Hc.
    + intros x Hx. apply (@in_split_job l1 (mkJob Holding r) l2) in Hx as [->|Hx]; [cbn; apply (Hl (mkJob Holding r)); rewrite S1; apply in_or_app; right; left; reflexivity| apply Hl; rewrite S1; exact Hx].
    + rewrite S1 in Hw. rewrite !filter_app_len in *. cbn in *. lia.
  - (* Finish *)
    destruct (setj_split (jobs s) j (mkJob Finished r) (mkJob Finished []) E1) as (l1' & y' & l2' & T1 & T2 & T3 & _).
    assert (l1' = l1 /\ l2' = l2) as [-> ->].
    { rewrite S1 in T1. apply app_inj_pivot_len in T1; [|congruence]. destruct T1 as (A & B & C). auto. }
    constructor; cbn [queue jobs workers]; unfold held, nrunning in *; cbn [jobs]; rewrite T3.
    + rewrite S1 in Hc. rewrite !flat_map_app in *. cbn [flat_map holds ph res] in *. rewrite <- Hc.
      rewrite <- !app_assoc. apply Permutation_app_head. cbn [app].
      (* r ++ H1 ++ H2 ~ H1 ++ r ++ H2 *)
      apply Permutation_app_swap_app.
    + intros x Hx. apply (@in_split_job l1 (mkJob Running r) l2) in Hx as [->|Hx]; [cbn; apply (Hl (mkJob Running r)); rewrite S1; apply in_or_app; right; left; reflexivity| apply Hl; rewrite S1; exact Hx].
    + rewrite S1 in Hw. rewrite !filter_app_len in *. cbn in *. lia.
Qed.
