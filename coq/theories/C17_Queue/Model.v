(* Model of deephyper.evaluator._queued.queued (resources handed to jobs from a deque).

   REPAIRED design ([qstep], what /repo HEAD does after the fix of F17): a job first waits for a group of
   queue_pop_per_task free resources (a semaphore with |queue| / pop permits), pops them from the left of the deque
   ([Take]), is bound to them privately, then waits for a worker ([Run]), runs, and on return pushes its resources
   back to the right of the deque and releases worker and group ([Finish]).  The scheduler chooses which enabled
   event happens next: a schedule is any list of events; a disabled event leaves the state unchanged (it cannot happen).

   PINNED design ([ostep]): resources are popped and written into ONE shared slot when the task first runs ([Enter]),
   before the worker semaphore; the run-function's arguments are read from that slot when the worker is acquired
   ([Acquire]).  Popping from an empty deque raises ([underflow]). *)
From Coq Require Import List ZArith Bool Arith.
Import ListNotations.

Inductive phase := Waiting | Holding | Running | Finished.

Record job := mkJob { ph : phase; res : list Z }.

Record qs := mkQ {
  queue : list Z;           (* the deque, left = head *)
  jobs : list job;          (* index = job id *)
  workers : nat             (* free worker permits *)
}.

Inductive qev := Take (j : nat) | Run (j : nat) | Finish (j : nat).

Definition getj (s : qs) (j : nat) : job := nth j (jobs s) (mkJob Finished []).
Fixpoint setj (l : list job) (j : nat) (x : job) : list job :=
  match l, j with
  | [], _ => []
  | _ :: t, O => x :: t
  | y :: t, S j' => y :: setj t j' x
  end.

Definition enabled (pop : nat) (s : qs) (e : qev) : bool :=
  match e with
  | Take j => Nat.ltb j (length (jobs s)) && (match ph (getj s j) with Waiting => true | _ => false end) && Nat.leb pop (length (queue s))
  | Run j => Nat.ltb j (length (jobs s)) && (match ph (getj s j) with Holding => true | _ => false end) && Nat.ltb 0 (workers s)
  | Finish j => Nat.ltb j (length (jobs s)) && (match ph (getj s j) with Running => true | _ => false end) && true
  end.

Definition qstep (pop : nat) (s : qs) (e : qev) : qs :=
  if negb (enabled pop s e) then s else
  match e with
  | Take j => mkQ (skipn pop (queue s)) (setj (jobs s) j (mkJob Holding (firstn pop (queue s)))) (workers s)
  | Run j => mkQ (queue s) (setj (jobs s) j (mkJob Running (res (getj s j)))) (workers s - 1)
  | Finish j => mkQ (queue s ++ res (getj s j)) (setj (jobs s) j (mkJob Finished (res (getj s j)))) (S (workers s))
  end.

Definition qinit (q : list Z) (njobs w : nat) : qs := mkQ q (repeat (mkJob Waiting []) njobs) w.
Definition qrun (pop : nat) (s : qs) (sched : list qev) : qs := fold_left (qstep pop) sched s.

(* resources in the hands of jobs that have taken and not yet returned them *)
Definition holds (x : job) : list Z := match ph x with Holding | Running => res x | _ => [] end.
Definition held (s : qs) : list Z := flat_map holds (jobs s).
Definition all_finished (s : qs) : bool := forallb (fun x => match ph x with Finished => true | _ => false end) (jobs s).
Definition some_enabled (pop : nat) (s : qs) : bool :=
  existsb (fun j => enabled pop s (Take j) || enabled pop s (Run j) || enabled pop s (Finish j)) (seq 0 (length (jobs s))).

(* ---------------- pinned design ---------------- *)
Inductive ophase := OWaiting | OEntered | ORunning | OFinished.
Record ojob := mkOJob { oph : ophase; popped : list Z; received : list Z }.
Record os := mkO { oqueue : list Z; slot : list Z; ojobs : list ojob; oworkers : nat; underflow : bool }.
Inductive oev := Enter (j : nat) | Acquire (j : nat) | OFinish (j : nat).

Definition ogetj (s : os) (j : nat) : ojob := nth j (ojobs s) (mkOJob OFinished [] []).
Fixpoint osetj (l : list ojob) (j : nat) (x : ojob) : list ojob :=
  match l, j with
  | [], _ => []
  | _ :: t, O => x :: t
  | y :: t, S j' => y :: osetj t j' x
  end.

Definition ostep (pop : nat) (s : os) (e : oev) : os :=
  if underflow s then s else
  match e with
  | Enter j =>
      match oph (ogetj s j) with
      | OWaiting =>
          if Nat.ltb (length (oqueue s)) pop then mkO (oqueue s) (slot s) (ojobs s) (oworkers s) true   (* IndexError: pop from an empty deque *)
          else mkO (skipn pop (oqueue s)) (firstn pop (oqueue s))
                   (osetj (ojobs s) j (mkOJob OEntered (firstn pop (oqueue s)) [])) (oworkers s) false
      | _ => s
      end
  | Acquire j =>
      match oph (ogetj s j) with
      | OEntered => if Nat.ltb 0 (oworkers s)
                    then mkO (oqueue s) (slot s) (osetj (ojobs s) j (mkOJob ORunning (popped (ogetj s j)) (slot s))) (oworkers s - 1) false
                    else s
      | _ => s
      end
  | OFinish j =>
      match oph (ogetj s j) with
      | ORunning => mkO (oqueue s ++ popped (ogetj s j)) (slot s)
                        (osetj (ojobs s) j (mkOJob OFinished (popped (ogetj s j)) (received (ogetj s j)))) (S (oworkers s)) false
      | _ => s
      end
  end.

Definition oinit (q : list Z) (njobs w : nat) : os := mkO q [] (repeat (mkOJob OWaiting [] []) njobs) w false.
Definition orun (pop : nat) (s : os) (sched : list oev) : os := fold_left (ostep pop) sched s.
Definition running_received (s : os) : list (list Z) :=
  map received (filter (fun x => match oph x with ORunning => true | _ => false end) (ojobs s)).
