(* Model of deephyper.evaluator._queued.queued (resources handed to jobs from a deque).

   REPAIRED design ([qstep], what /repo HEAD does after the fix of F17): a job first waits for a group of
   queue_pop_per_task free resources (a semaphore with |queue| / pop permits), pops them from the left of the deque
   ([Take]), is bound to them privately, then waits for a worker ([Run]), runs, and on return pushes its resources
   back to the right of the deque and releases worker and group ([Finish]).  The scheduler chooses which enabled
   event happens next: a schedule is any list of events; a disabled event leaves the state unchanged (it cannot happen).

   PINNED design ([ostep]): resources are popped and written into ONE shared slot when the task first runs ([Enter]),
   before the worker semaphore; the run-function's arguments are read from that slot when the worker is acquired
   ([Acquire]).  Popping from an empty deque raises ([underflow]). *)
From Coq Require Import List ZArith Bool Arith.
Import ListNotations.

Inductive phase := Waiting | Holding | Running | Finished.

Record job := mkJob { ph : phase; res : list Z }.

Record qs := mkQ {
  queue : list Z;           (* the deque, left = head *)
  jobs : list job;          (* index = job id *)
  workers : nat             (* free worker permits *)
}.

Inductive qev := Take (j : nat) | Run (j : nat) | Finish (j : nat).

Definition getj (s : qs) (j : nat) : job := nth j (jobs s) (mkJob Finished []).
Fixpoint setj (l : list job) (j : nat) (x : job) : list job :=
  match l, j with
  | [], _ => []
  | _ :: t, O => x :: t
  | y :: t, S j' => y :: setj t j' x
  end.

Definition enabled (pop : nat) (s : qs) (e : qev) : bool :=
  match e with
  | Take j => Nat.ltb j (length (jobs s)) && (match ph (getj s j) with Waiting => true | _ => false end) && Nat.leb pop (length (queue s))
  | Run j => Nat.ltb j (length (jobs s)) && (match ph (getj s j) with Holding => true | _ => false end) && Nat.ltb 0 (workers s)
  | Finish j => Nat.ltb j (length (jobs s)) && (match ph (getj s j) with Running => true | _ => false end) && true
  end.

Definition qstep (pop : nat) (s : qs) (e : qev) : qs :=
  if negb (enabled pop s e) then s else
  match e with
  | Take j => mkQ (skipn pop (queue s)) (setj (jobs s) j (mkJob Holding (firstn pop (queue s)))) (workers s)
  | Run j => mkQ (queue s) (setj (jobs s) j (mkJob Running (res (getj s j)))) (workers s - 1)
  | Finish j => mkQ (queue s ++ res (getj s j)) (setj (jobs s) j (mkJob Finished (res (getj s j)))) (S (workers s))
  end.

Definition qinit (q : list Z) (njobs w : nat) : qs := mkQ q (repeat (mkJob Waiting []) njobs) w.
Definition qrun (pop : nat) (s : qs) (sched : list qev) : qs := fold_left (qstep pop) sched s.

(* resources in the hands of jobs that have taken and not yet returned them *)
Definition holds (x : job) : list Z := match ph x with Holding | Running => res x | _ => [] end.
Definition held (s : qs) : list Z := flat_map holds (jobs s).
Definition all_finished (s : qs) : bool := forallb (fun x => match ph x with Finished => true | _ => false end) (jobs s).
Definition some_enabled (pop : nat) (s : qs) : bool :=
  existsb (fun j => enabled pop s (Take j) || enabled pop s (Run j) || enabled pop s (Finish j)) (seq 0 (length (jobs s))).

(* ---------------- pinned design ---------------- *)
Inductive ophase := OWaiting | OEntered | ORunning | OFinished.
Record ojob := mkOJob { oph : ophase; popped : list Z; received : list Z }.
Record os := mkO { oqueue : list Z; slot : list Z; ojobs : list ojob; oworkers : nat; underflow : bool }.
Inductive oev := Enter (j : nat) | Acquire (j : nat) | OFinish (j : nat).

Definition ogetj (s : os) (j : nat) : ojob := nth j (ojobs s) (mkOJob OFinished [] []).
Fixpoint osetj (l : list ojob) (j : nat) (x : ojob) : list ojob :=
  match l, j with
  | [], _ => []
  | _ :: t, O => x :: t
  | y :: t, S j' => y :: osetj t j' x
  end.

Definition ostep (pop : nat) (s : os) (e : oev) : os :=
  if underflow s then s else
  match e with
  | Enter j =>
      match oph (ogetj s j) with
      | OWaiting =>
          if Nat.ltb (length (oqueue s)) pop then mkO (oqueue s) (slot s) (ojobs s) (oworkers s) true   (* IndexError: pop from an empty deque *)
          else mkO (skipn pop (oqueue s)) (firstn pop (oqueue s))
                   (osetj (ojobs s) j (mkOJob OEntered (firstn pop (oqueue s)) [])) (oworkers s) false
      | _ => s
      end
  | Acquire j =>
      match oph (ogetj s j) with
      | OEntered => if Nat.ltb 0 (oworkers s)
                    then mkO (oqueue s) (slot s) (osetj (ojobs s) j (mkOJob ORunning (popped (ogetj s j)) (slot s))) (oworkers s - 1) false
                    else s
      | _ => s
      end
  | OFinish j =>
      match oph (ogetj s j) with
      | ORunning => mkO (oqueue s ++ popped (ogetj s j)) (slot s)
                        (osetj (ojobs s) j (mkOJob OFinished (popped (ogetj s j)) (received (ogetj s j)))) (S (oworkers s)) false
      | _ => s
      end
  end.

Definition oinit (q : list Z) (njobs w : nat) : os := mkO q [] (repeat (mkOJob OWaiting [] []) njobs) w false.
Definition orun (pop : nat) (s : os) (sched : list oev) : os := fold_left (ostep pop) sched s.
Definition running_received (s : os) : list (list Z) :=
  map received (filter (fun x => match oph x with ORunning => true | _ => false end) (ojobs s)).

(* ---------------- extended mechanism ([xstep]): /repo HEAD in full ----------------
   What [qstep] leaves out:
   * the group semaphore itself: asyncio.Semaphore(len(queue) // queue_pop_per_task), created at the first execute()
     of an event loop ([xperm]); a job takes a permit, THEN pops ([XTake]; popping from a deque that is too short is
     the error flag [xerr] - it is a theorem that it never happens);
   * waves: every submit() renews the worker semaphore (set_event_loop: self.sem = Semaphore(num_workers), F21), a job
     waits on the worker semaphore that is current when it has taken its resources ([xgen]); [xsems] = free permits
     of each generation;
   * a run-function that raises ([XFail]): the finally-clause returns the resources, no metadata is reported;
   * close() ([XClose]): every task is cancelled; resources of the cancelled jobs go back to the deque ([xreturned]);
     the next loop gets a new group semaphore with len(queue) // pop permits.  On the thread backend ([thr] = true)
     a running run-function cannot be interrupted: the job is cancelled, its resources are returned, but its thread
     keeps executing with them ([XZombie]) until it returns ([XZombieEnd]);
   * the pool of the thread backend: ThreadPoolExecutor(max_workers = num_workers).  A job that has its worker permit is
     handed to the pool ([XQueued]) and its run-function is called when a pool thread is free ([XStart]; which of the
     queued jobs is served is the pool's choice: any).  close() cancels a queued job before it starts;
   * the constructor ([xnew]): the repaired code rejects queue_pop_per_task outside 1..len(queue) (F51);
     [xinit] is the pinned constructor, which accepts anything. *)
Inductive xphase := XWaiting | XHolding | XQueued | XRunning | XDone | XFailed | XCancelled | XZombie.
Record xjob := mkXJob { xph : xphase; xres : list Z; xgen : nat }.
Record xs := mkX {
  xqueue : list Z;
  xjobs : list xjob;
  xperm : nat;            (* free permits of the group semaphore *)
  xsems : list nat;       (* free permits of the worker semaphores, one per submit() *)
  xerr : bool             (* popleft from a deque shorter than pop (IndexError) *)
}.
Inductive xev := XSubmit (k : nat) | XTake (j : nat) | XRun (j : nat) | XStart (j : nat) | XFinish (j : nat) | XFail (j : nat) | XClose | XZombieEnd (j : nat).

Fixpoint setn {A} (l : list A) (j : nat) (x : A) : list A :=
  match l, j with
  | [], _ => []
  | _ :: t, O => x :: t
  | y :: t, S j' => y :: setn t j' x
  end.

Definition xdflt : xjob := mkXJob XCancelled [] 0.
Definition xget (s : xs) (j : nat) : xjob := nth j (xjobs s) xdflt.
Definition xholds (x : xjob) : list Z := match xph x with XHolding | XQueued | XRunning => xres x | _ => [] end.
(* resources in use by a run-function that is executing *)
Definition xexec (x : xjob) : list Z := match xph x with XRunning | XZombie => xres x | _ => [] end.
Definition xheld (s : xs) : list Z := flat_map xholds (xjobs s).
(* pool threads in use *)
Definition xbusy (s : xs) : nat := length (filter (fun x => match xph x with XRunning | XZombie => true | _ => false end) (xjobs s)).

Definition xenabled (s : xs) (e : xev) : bool :=
  match e with
  | XSubmit _ | XClose => true
  | XTake j => Nat.ltb j (length (xjobs s)) && (match xph (xget s j) with XWaiting => true | _ => false end) && Nat.ltb 0 (xperm s)
  | XRun j => Nat.ltb j (length (xjobs s)) && (match xph (xget s j) with XHolding => true | _ => false end)
              && Nat.ltb 0 (nth (xgen (xget s j)) (xsems s) 0)
  | XStart j => Nat.ltb j (length (xjobs s)) && (match xph (xget s j) with XQueued => true | _ => false end)
  | XFinish j | XFail j => Nat.ltb j (length (xjobs s)) && (match xph (xget s j) with XRunning => true | _ => false end)
  | XZombieEnd j => Nat.ltb j (length (xjobs s)) && (match xph (xget s j) with XZombie => true | _ => false end)
  end.

Definition xcancel (thr : bool) (x : xjob) : xjob :=
  match xph x with
  | XWaiting => mkXJob XCancelled [] (xgen x)
  | XHolding | XQueued => mkXJob XCancelled (xres x) (xgen x)
  | XRunning => mkXJob (if thr then XZombie else XCancelled) (xres x) (xgen x)
  | _ => x
  end.

(* the order in which close() brings the resources back.  Serial backend: the tasks that wait for a worker are woken by
   their cancellation one loop iteration before the tasks that await a run-function (whose cancellation first goes to the
   run-function), each group in job order; thread backend: the executor future is cancelled at once, job order. *)
Definition xhold1 (x : xjob) : list Z := match xph x with XHolding | XQueued => xres x | _ => [] end.
Definition xrun1 (x : xjob) : list Z := match xph x with XRunning => xres x | _ => [] end.
Definition xreturned (thr : bool) (s : xs) : list Z :=
  if thr then xheld s else flat_map xhold1 (xjobs s) ++ flat_map xrun1 (xjobs s).

Definition xreturn (s : xs) (j : nat) (p : xphase) : xs :=
  let x := xget s j in
  mkX (xqueue s ++ xres x) (setn (xjobs s) j (mkXJob p (xres x) (xgen x))) (S (xperm s))
      (setn (xsems s) (xgen x) (S (nth (xgen x) (xsems s) 0))) false.

Definition xstep (pop W : nat) (thr : bool) (s : xs) (e : xev) : xs :=
  if xerr s then s else if negb (xenabled s e) then s else
  match e with
  | XSubmit k => mkX (xqueue s) (xjobs s ++ repeat (mkXJob XWaiting [] 0) k) (xperm s) (xsems s ++ [W]) false
  | XTake j =>
      if Nat.ltb (length (xqueue s)) pop then mkX (xqueue s) (xjobs s) (xperm s) (xsems s) true
      else mkX (skipn pop (xqueue s)) (setn (xjobs s) j (mkXJob XHolding (firstn pop (xqueue s)) (length (xsems s) - 1)))
               (xperm s - 1) (xsems s) false
  | XRun j =>
      let x := xget s j in
      mkX (xqueue s) (setn (xjobs s) j (mkXJob (if thr then XQueued else XRunning) (xres x) (xgen x))) (xperm s)
          (setn (xsems s) (xgen x) (nth (xgen x) (xsems s) 0 - 1)) false
  | XStart j =>
      let x := xget s j in
      if Nat.ltb (xbusy s) W then mkX (xqueue s) (setn (xjobs s) j (mkXJob XRunning (xres x) (xgen x))) (xperm s) (xsems s) false
      else s
  | XFinish j => xreturn s j XDone
  | XFail j => xreturn s j XFailed
  | XClose =>
      let q' := xqueue s ++ xreturned thr s in
      mkX q' (map (xcancel thr) (xjobs s)) (Nat.div (length q') pop) (map (fun _ => W) (xsems s)) false
  | XZombieEnd j => let x := xget s j in mkX (xqueue s) (setn (xjobs s) j (mkXJob XCancelled (xres x) (xgen x))) (xperm s) (xsems s) false
  end.

Definition xinit (pop : nat) (q : list Z) : xs := mkX q [] (Nat.div (length q) pop) [] false.
Definition xnew (pop : nat) (q : list Z) : option xs :=
  if Nat.leb 1 pop && Nat.leb pop (length q) then Some (xinit pop q) else None.
Definition xrun (pop W : nat) (thr : bool) (s : xs) (sched : list xev) : xs := fold_left (xstep pop W thr) sched s.

Definition xunfinished (x : xjob) : bool := match xph x with XWaiting | XHolding | XQueued | XRunning => true | _ => false end.
Definition xsome_enabled (W : nat) (s : xs) : bool :=
  existsb (fun j => xenabled s (XTake j) || xenabled s (XRun j) || (xenabled s (XStart j) && Nat.ltb (xbusy s) W)
                    || xenabled s (XFinish j) || xenabled s (XZombieEnd j)) (seq 0 (length (xjobs s))).
(* the 'dequed' metadata is reported for the jobs that returned *)
Definition xmeta (s : xs) : list (nat * list Z) :=
  flat_map (fun j => match xph (xget s j) with XDone => [(j, xres (xget s j))] | _ => [] end) (seq 0 (length (xjobs s))).

(* what asyncio does between two interventions of the driver, on the serial backend: the semaphores wake their waiters
   in FIFO order and jobs reach them in the order of their ids, so every job that can take its resources, and then
   every job that can start, does so in id order.  One pass suffices: takes and starts only consume permits.
   (On the thread backend the start of the run-function of a queued job is the pool's choice: an input, [DStart].) *)
Definition xsettle (pop W : nat) (thr : bool) (s : xs) : xs :=
  fold_left (fun s j => xstep pop W thr (xstep pop W thr s (XTake j)) (XRun j)) (seq 0 (length (xjobs s))) s.

(* embedding of the basic mechanism: one submit, no failure, no close, serial backend (no job is ever XQueued there) *)
Definition emb (e : qev) : xev := match e with Take j => XTake j | Run j => XRun j | Finish j => XFinish j end.
Definition projjob (x : xjob) : job :=
  mkJob (match xph x with XWaiting => Waiting | XHolding => Holding | XRunning => Running | _ => Finished end) (xres x).
Definition proj (s : xs) : qs := mkQ (xqueue s) (map projjob (xjobs s)) (nth 0 (xsems s) 0).

(* what the driver of an evaluator does, step by step (the harness performs the same operations on the implementation and
   compares the states): an intervention followed by everything asyncio then does by itself ([xsettle]) *)
Inductive xop := DSubmit (k : nat) | DFinish (j : nat) | DFail (j : nat) | DClose | DZombieEnd (j : nat) | DStart (j : nat).
Definition xop_ev (o : xop) : xev :=
  match o with DSubmit k => XSubmit k | DFinish j => XFinish j | DFail j => XFail j | DClose => XClose | DZombieEnd j => XZombieEnd j | DStart j => XStart j end.
Definition xdrive (pop W : nat) (thr : bool) (s : xs) (o : xop) : xs := xsettle pop W thr (xstep pop W thr s (xop_ev o)).
Fixpoint xdrive_all (pop W : nat) (thr : bool) (s : xs) (ops : list xop) : list xs :=
  match ops with [] => [] | o :: t => let s' := xdrive pop W thr s o in s' :: xdrive_all pop W thr s' t end.
