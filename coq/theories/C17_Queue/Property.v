(* C17 - Queued evaluators never share a resource between concurrent jobs.  Property theorems only.
   Mechanism model = Model.qstep (the repaired design: per-job binding, resources taken only when a group is free).
   All theorems are for EVERY schedule (list of events), every queue, pop count, number of jobs and workers. *)
From Coq Require Import List ZArith Bool Arith Permutation.
Import ListNotations.
Require Import DH.C17_Queue.Model DH.C17_Queue.Lemmas DH.C17_Queue.Lemmas2 DH.C17_Queue.Check DH.C17_Queue.Lemmas3 DH.C17_Queue.Lemmas4.

Theorem C17_conservation : forall q0 pop njobs W sched,
  let s := qrun pop (qinit q0 njobs W) sched in Permutation (queue s ++ held s) q0.
Proof. intros. apply (q_cons q0 pop W). apply qinv_run, qinv_init. Qed.
Print Assumptions C17_conservation.

Theorem C17_disjoint : forall q0 pop njobs W sched, NoDup q0 ->
  let s := qrun pop (qinit q0 njobs W) sched in
  forall i j x, i <> j -> i < length (jobs s) -> j < length (jobs s) -> In x (holds (getj s i)) -> In x (holds (getj s j)) -> False.
Proof. intros q0 pop njobs W sched Hnd s. apply (disjoint q0 pop W); [exact Hnd| apply qinv_run, qinv_init]. Qed.
Print Assumptions C17_disjoint.

Theorem C17_exact_count : forall q0 pop njobs W sched,
  let s := qrun pop (qinit q0 njobs W) sched in
  forall x, In x (jobs s) -> match ph x with Waiting => True | _ => length (res x) = pop end.
Proof. intros q0 pop njobs W sched s. apply (q_len q0 pop W). apply qinv_run, qinv_init. Qed.
Print Assumptions C17_exact_count.

(* no deadlock: while some job is unfinished some event is enabled; and every job can be driven to completion *)
Theorem C17_progress : forall q0 pop njobs W sched, pop <= length q0 -> 1 <= W ->
  let s := qrun pop (qinit q0 njobs W) sched in
  (all_finished s = false -> some_enabled pop s = true) /\ exists more, all_finished (qrun pop s more) = true.
Proof.
  intros q0 pop njobs W sched Hp HW s. assert (H : QInv q0 pop W s) by (apply qinv_run, qinv_init). split.
  - apply (progress q0 pop W); assumption.
  - apply (all_jobs_can_finish q0 pop W Hp HW (3 * length (jobs s) - measure s)); [exact H| apply le_n].
Qed.
Print Assumptions C17_progress.

(* the oracle applied to observed runs: accepted histories conserve the resources and never share one *)
Theorem C17_oracle_conserves : forall pop q0 tr s', replay_obs pop (mkA q0 [] []) 0 tr = (None, s') ->
  Permutation (free s' ++ aheld s') q0.
Proof. intros pop q0 tr s'. apply replay_conserves. cbn. rewrite app_nil_r. reflexivity. Qed.
Print Assumptions C17_oracle_conserves.

Theorem C17_oracle_disjoint : forall pop q0 tr s', NoDup q0 -> replay_obs pop (mkA q0 [] []) 0 tr = (None, s') ->
  forall j1 r1 j2 r2 x, In (j1, r1) (active s') -> In (j2, r2) (active s') -> (j1, r1) <> (j2, r2) -> In x r1 -> In x r2 -> False.
Proof.
  intros pop q0 tr s' Hnd H. apply (accepted_disjoint q0 s' Hnd). eapply replay_conserves; [|exact H]. cbn. rewrite app_nil_r. reflexivity.
Qed.
Print Assumptions C17_oracle_disjoint.


(* never more running jobs than workers (one submit; see C17_ext_worker_bound_across_submits_refuted for several), and the
   jobs that hold resources (bound to them, running or not) hold exactly pop each: groups in use * pop + free = |queue| *)
Theorem C17_worker_bound : forall q0 pop njobs W sched,
  let s := qrun pop (qinit q0 njobs W) sched in nrunning s <= W /\ workers s + nrunning s = W.
Proof. intros. apply (worker_bound q0 pop W). apply qinv_run, qinv_init. Qed.
Print Assumptions C17_worker_bound.

Theorem C17_group_bound : forall q0 pop njobs W sched,
  let s := qrun pop (qinit q0 njobs W) sched in nholding s * pop + length (queue s) = length q0.
Proof. intros. apply (group_bound q0 pop W). apply qinv_run, qinv_init. Qed.
Print Assumptions C17_group_bound.

(* the oracle raises no alarm on ANY behaviour of the mechanism model: the observation trace of every schedule is accepted,
   and on every complete run the final check (every job ran, metadata = resources received, every resource back) passes *)
Theorem C17_model_run_is_accepted : forall q0 pop njobs W sched,
  let s0 := qinit q0 njobs W in
  exists s', replay_obs pop (mkA q0 [] []) 0 (obs_trace pop s0 sched) = (None, s') /\
    (all_finished (qrun pop s0 sched) = true -> final_ok q0 njobs (model_meta (qrun pop s0 sched)) s' = 0).
Proof. intros. apply model_run_is_accepted. Qed.
Print Assumptions C17_model_run_is_accepted.

(* the exact FIFO prediction used on the serial backend accepts every complete schedule whose takes are in job-id order
   (what the FIFO queue semaphore does); a schedule with takes out of order is rejected (so it is a statement about that
   semaphore, not a consequence of the property) *)
Theorem C17_mech_replay_accepts_fifo : forall q0 pop njobs W sched,
  let s0 := qinit q0 njobs W in
  fifo_sched pop s0 sched = true -> all_finished (qrun pop s0 sched) = true -> mech_replay pop s0 (obs_trace pop s0 sched) = true.
Proof. intros q0 pop njobs W sched s0. apply mech_replay_accepts_fifo. Qed.
Print Assumptions C17_mech_replay_accepts_fifo.

Theorem C17_mech_replay_rejects_non_fifo :
  let sched := [Take 1; Take 0; Run 1; Run 0; Finish 0; Finish 1] in
  let s0 := qinit [10; 11]%Z 2 2 in
  all_finished (qrun 1 s0 sched) = true /\ fifo_sched 1 s0 sched = false /\ mech_replay 1 s0 (obs_trace 1 s0 sched) = false.
Proof. exact mech_replay_rejects_non_fifo. Qed.
Print Assumptions C17_mech_replay_rejects_non_fifo.

(* the pinned design (pop before the worker semaphore, one shared slot): F17 *)
Theorem C17_prefix_shared_slot_refuted :
  running_received (orun 1 (oinit [10; 11; 12; 13]%Z 4 2)
     [Enter 0; Acquire 0; Enter 1; Acquire 1; Enter 2; Enter 3; OFinish 0; Acquire 2; OFinish 1; Acquire 3])
  = [[13]; [13]]%Z.
Proof. exact shared_slot_refuted. Qed.
Print Assumptions C17_prefix_shared_slot_refuted.

Theorem C17_prefix_underflow_refuted :
  underflow (orun 1 (oinit [10; 11]%Z 3 1) [Enter 0; Acquire 0; Enter 1; Enter 2]) = true.
Proof. exact underflow_refuted. Qed.
Print Assumptions C17_prefix_underflow_refuted.

Example C17_example :
  let s := qrun 2 (qinit [1;2;3;4;5]%Z 3 2) [Take 0; Take 1; Take 2; Run 0; Run 1; Finish 0; Take 2; Run 2] in
  map res (jobs s) = [[1;2];[3;4];[5;1]]%Z /\ queue s = [2]%Z /\ all_finished s = false.
Proof. vm_compute. auto. Qed.

(* non-vacuity: a complete FIFO schedule with contention (3 jobs, 2 groups of 2, 1 worker), its observation trace *)
Example C17_example_fifo_complete :
  let sched := [Take 0; Take 1; Take 2; Run 0; Run 1; Finish 0; Take 2; Run 1; Finish 1; Run 2; Finish 2] in
  let s0 := qinit [1;2;3;4;5]%Z 3 1 in
  fifo_sched 2 s0 sched = true /\ all_finished (qrun 2 s0 sched) = true /\
  obs_trace 2 s0 sched = [ObsStart 0 [1;2]; ObsEnd 0; ObsStart 1 [3;4]; ObsEnd 1; ObsStart 2 [5;1]; ObsEnd 2]%Z.
Proof. vm_compute. auto. Qed.
