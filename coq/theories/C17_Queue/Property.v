(* C17 - Queued evaluators never share a resource between concurrent jobs.  Property theorems only.
   Mechanism model = Model.qstep (the repaired design: per-job binding, resources taken only when a group is free).
   All theorems are for EVERY schedule (list of events), every queue, pop count, number of jobs and workers. *)
From Coq Require Import List ZArith Bool Arith Permutation.
Import ListNotations.
Require Import DH.C17_Queue.Model DH.C17_Queue.Lemmas DH.C17_Queue.Lemmas2 DH.C17_Queue.Check DH.C17_Queue.Lemmas3 DH.C17_Queue.Lemmas4 DH.C17_Queue.Lemmas5 DH.C17_Queue.Lemmas6 DH.C17_Queue.Lemmas7 DH.C17_Queue.Lemmas8 DH.C17_Queue.Lemmas9.

Theorem C17_conservation : forall q0 pop njobs W sched,
  let s := qrun pop (qinit q0 njobs W) sched in Permutation (queue s ++ held s) q0.
Proof. intros. apply (q_cons q0 pop W). apply qinv_run, qinv_init. Qed.
Print Assumptions C17_conservation.

Theorem C17_disjoint : forall q0 pop njobs W sched, NoDup q0 ->
  let s := qrun pop (qinit q0 njobs W) sched in
  forall i j x, i <> j -> i < length (jobs s) -> j < length (jobs s) -> In x (holds (getj s i)) -> In x (holds (getj s j)) -> False.
Proof. intros q0 pop njobs W sched Hnd s. apply (disjoint q0 pop W); [exact Hnd| apply qinv_run, qinv_init]. Qed.
Print Assumptions C17_disjoint.

Theorem C17_exact_count : forall q0 pop njobs W sched,
  let s := qrun pop (qinit q0 njobs W) sched in
  forall x, In x (jobs s) -> match ph x with Waiting => True | _ => length (res x) = pop end.
Proof. intros q0 pop njobs W sched s. apply (q_len q0 pop W). apply qinv_run, qinv_init. Qed.
Print Assumptions C17_exact_count.

(* no deadlock: while some job is unfinished some event is enabled; and every job can be driven to completion *)
Theorem C17_progress : forall q0 pop njobs W sched, pop <= length q0 -> 1 <= W ->
  let s := qrun pop (qinit q0 njobs W) sched in
  (all_finished s = false -> some_enabled pop s = true) /\ exists more, all_finished (qrun pop s more) = true.
Proof.
  intros q0 pop njobs W sched Hp HW s. assert (H : QInv q0 pop W s) by (apply qinv_run, qinv_init). split.
  - apply (progress q0 pop W); assumption.
  - apply (all_jobs_can_finish q0 pop W Hp HW (3 * length (jobs s) - measure s)); [exact H| apply le_n].
Qed.
Print Assumptions C17_progress.

(* the oracle applied to observed runs: accepted histories conserve the resources and never share one *)
Theorem C17_oracle_conserves : forall pop q0 tr s', replay_obs pop (mkA q0 [] []) 0 tr = (None, s') ->
  Permutation (free s' ++ aheld s') q0.
Proof. intros pop q0 tr s'. apply replay_conserves. cbn. rewrite app_nil_r. reflexivity. Qed.
Print Assumptions C17_oracle_conserves.

Theorem C17_oracle_disjoint : forall pop q0 tr s', NoDup q0 -> replay_obs pop (mkA q0 [] []) 0 tr = (None, s') ->
  forall j1 r1 j2 r2 x, In (j1, r1) (active s') -> In (j2, r2) (active s') -> (j1, r1) <> (j2, r2) -> In x r1 -> In x r2 -> False.
Proof.
  intros pop q0 tr s' Hnd H. apply (accepted_disjoint q0 s' Hnd). eapply replay_conserves; [|exact H]. cbn. rewrite app_nil_r. reflexivity.
Qed.
Print Assumptions C17_oracle_disjoint.


(* never more running jobs than workers (one submit; see C17_ext_worker_bound_across_submits_refuted for several), and the
   jobs that hold resources (bound to them, running or not) hold exactly pop each: groups in use * pop + free = |queue| *)
Theorem C17_worker_bound : forall q0 pop njobs W sched,
  let s := qrun pop (qinit q0 njobs W) sched in nrunning s <= W /\ workers s + nrunning s = W.
Proof. intros. apply (worker_bound q0 pop W). apply qinv_run, qinv_init. Qed.
Print Assumptions C17_worker_bound.

Theorem C17_group_bound : forall q0 pop njobs W sched,
  let s := qrun pop (qinit q0 njobs W) sched in nholding s * pop + length (queue s) = length q0.
Proof. intros. apply (group_bound q0 pop W). apply qinv_run, qinv_init. Qed.
Print Assumptions C17_group_bound.

(* the oracle raises no alarm on ANY behaviour of the mechanism model: the observation trace of every schedule is accepted,
   and on every complete run the final check (every job ran, metadata = resources received, every resource back) passes *)
Theorem C17_model_run_is_accepted : forall q0 pop njobs W sched,
  let s0 := qinit q0 njobs W in
  exists s', replay_obs pop (mkA q0 [] []) 0 (obs_trace pop s0 sched) = (None, s') /\
    (all_finished (qrun pop s0 sched) = true -> final_ok q0 njobs (model_meta (qrun pop s0 sched)) s' = 0).
Proof. intros. apply model_run_is_accepted. Qed.
Print Assumptions C17_model_run_is_accepted.

(* the exact FIFO prediction used on the serial backend accepts every complete schedule whose takes are in job-id order
   (what the FIFO queue semaphore does); a schedule with takes out of order is rejected (so it is a statement about that
   semaphore, not a consequence of the property) *)
Theorem C17_mech_replay_accepts_fifo : forall q0 pop njobs W sched,
  let s0 := qinit q0 njobs W in
  fifo_sched pop s0 sched = true -> all_finished (qrun pop s0 sched) = true -> mech_replay pop s0 (obs_trace pop s0 sched) = true.
Proof. intros q0 pop njobs W sched s0. apply mech_replay_accepts_fifo. Qed.
Print Assumptions C17_mech_replay_accepts_fifo.

Theorem C17_mech_replay_rejects_non_fifo :
  let sched := [Take 1; Take 0; Run 1; Run 0; Finish 0; Finish 1] in
  let s0 := qinit [10; 11]%Z 2 2 in
  all_finished (qrun 1 s0 sched) = true /\ fifo_sched 1 s0 sched = false /\ mech_replay 1 s0 (obs_trace 1 s0 sched) = false.
Proof. exact mech_replay_rejects_non_fifo. Qed.
Print Assumptions C17_mech_replay_rejects_non_fifo.


(* ... and it ends exactly in the state of the mechanism: the deque of the implementation can be compared, order included *)
Theorem C17_mech_state_complete : forall q0 pop njobs W sched,
  let s0 := qinit q0 njobs W in
  fifo_sched pop s0 sched = true -> all_finished (qrun pop s0 sched) = true ->
  mech_state pop s0 (obs_trace pop s0 sched) = Some (qrun pop s0 sched).
Proof. intros q0 pop njobs W sched s0. apply mech_state_complete. Qed.
Print Assumptions C17_mech_state_complete.

(* ---------------- the extended mechanism [xstep]: group semaphore, waves of submissions, run-functions that raise,
   close() on both backends; every theorem is for EVERY schedule of [xev], every queue, pop, W, backend ---------------- *)
Theorem C17_ext_conservation : forall q0 pop W thr sched,
  let s := xrun pop W thr (xinit pop q0) sched in Permutation (xqueue s ++ xheld s) q0.
Proof. intros. apply (x_cons q0 pop W). apply xinv_run, xinv_init. Qed.
Print Assumptions C17_ext_conservation.

(* a job that has a permit of the group semaphore always finds its resources: popleft never raises *)
Theorem C17_ext_no_underflow : forall q0 pop W thr sched, xerr (xrun pop W thr (xinit pop q0) sched) = false.
Proof. intros. apply (x_err q0 pop W). apply xinv_run, xinv_init. Qed.
Print Assumptions C17_ext_no_underflow.

Theorem C17_ext_exact_count : forall q0 pop W thr sched x,
  In x (xjobs (xrun pop W thr (xinit pop q0) sched)) ->
  match xph x with XWaiting | XCancelled => True | _ => length (xres x) = pop end.
Proof. intros q0 pop W thr sched x. apply (x_len q0 pop W). apply xinv_run, xinv_init. Qed.
Print Assumptions C17_ext_exact_count.

(* the permits of Semaphore(len(queue) // pop) account for the groups in use, also when pop does not divide |queue| *)
Theorem C17_ext_group_semaphore : forall q0 pop W thr sched,
  let s := xrun pop W thr (xinit pop q0) sched in
  xperm s + xnhold s = Nat.div (length q0) pop /\ length (xqueue s) + xnhold s * pop = length q0.
Proof.
  intros q0 pop W thr sched s. assert (H : XInv q0 pop W s) by (apply xinv_run, xinv_init).
  split; [apply (x_perm _ _ _ _ H)| apply (xqueue_length _ _ _ _ H)].
Qed.
Print Assumptions C17_ext_group_semaphore.

Theorem C17_ext_disjoint : forall q0 pop W thr sched, NoDup q0 ->
  let s := xrun pop W thr (xinit pop q0) sched in
  forall i j x, i <> j -> i < length (xjobs s) -> j < length (xjobs s) -> In x (xholds (xget s i)) -> In x (xholds (xget s j)) -> False.
Proof. intros q0 pop W thr sched Hnd s. apply (xdisjoint q0 pop W); [exact Hnd| apply xinv_run, xinv_init]. Qed.
Print Assumptions C17_ext_disjoint.

(* serial backend: run-functions that are EXECUTING (cancelled or not) never share a resource *)
Theorem C17_ext_executing_disjoint_serial : forall q0 pop W sched, NoDup q0 ->
  let s := xrun pop W false (xinit pop q0) sched in
  forall i j x, i <> j -> i < length (xjobs s) -> j < length (xjobs s) -> In x (xexec (xget s i)) -> In x (xexec (xget s j)) -> False.
Proof.
  intros q0 pop W sched Hnd s. apply (xexec_disjoint_serial q0 pop W); [exact Hnd| apply xinv_run, xinv_init|].
  apply noz_run. intros x [].
Qed.
Print Assumptions C17_ext_executing_disjoint_serial.

(* thread backend: after close() during an evaluation the thread keeps executing with resources that are handed out again (F52) *)
Theorem C17_ext_zombie_shares_refuted :
  let s := xrun 1 2 true (xinit 1 [100]%Z) [XSubmit 1; XTake 0; XRun 0; XStart 0; XClose; XSubmit 1; XTake 1; XRun 1; XStart 1] in
  xerr s = false /\ map xph (xjobs s) = [XZombie; XRunning] /\ xexec (xget s 0) = [100]%Z /\ xexec (xget s 1) = [100]%Z.
Proof. exact zombie_shares_refuted. Qed.
Print Assumptions C17_ext_zombie_shares_refuted.

(* workers: the bound holds per submit() (one worker semaphore per call) ... *)
Theorem C17_ext_worker_bound_per_submit : forall q0 pop W thr sched,
  let s := xrun pop W thr (xinit pop q0) sched in
  forall g, g < length (xsems s) -> xnrun s g <= W /\ nth g (xsems s) 0 + xnrun s g = W.
Proof. intros q0 pop W thr sched s. apply (xworker_bound q0 pop W). apply xinv_run, xinv_init. Qed.
Print Assumptions C17_ext_worker_bound_per_submit.

(* ... and not across submits on the serial backend (F21; not part of the statement of C17) *)
Theorem C17_ext_worker_bound_across_submits_refuted :
  let s := xrun 1 1 false (xinit 1 [1; 2]%Z) [XSubmit 1; XTake 0; XRun 0; XSubmit 1; XTake 1; XRun 1] in
  map xph (xjobs s) = [XRunning; XRunning] /\ map xres (xjobs s) = [[1]; [2]]%Z.
Proof. exact worker_bound_across_submits_refuted. Qed.
Print Assumptions C17_ext_worker_bound_across_submits_refuted.

(* thread backend: the pool bounds the run-functions that execute (cancelled ones included) by num_workers, across submits too *)
Theorem C17_ext_thread_pool_bound : forall q0 pop W sched, xbusy (xrun pop W true (xinit pop q0) sched) <= W.
Proof. intros. apply pool_bound. Qed.
Print Assumptions C17_ext_thread_pool_bound.

(* no deadlock, for an evaluator that the (repaired) constructor accepts: 1 <= pop <= |queue|: while a job is unfinished a job
   can take / be admitted / be started by the pool / return, or the thread of a cancelled job can return *)
Theorem C17_ext_progress : forall q0 pop W thr s0 sched, xnew pop q0 = Some s0 -> 1 <= W ->
  let s := xrun pop W thr s0 sched in existsb xunfinished (xjobs s) = true -> xsome_enabled W s = true.
Proof.
  intros q0 pop W thr s0 sched Hn HW s. unfold xnew in Hn.
  destruct (Nat.leb 1 pop) eqn:E1; destruct (Nat.leb pop (length q0)) eqn:E2; cbn in Hn; try discriminate. injection Hn as <-.
  apply Nat.leb_le in E1. apply Nat.leb_le in E2. apply (xprogress q0 pop W); try assumption. apply xinv_run, xinv_init.
Qed.
Print Assumptions C17_ext_progress.

(* the pinned constructor accepts queue_pop_per_task > len(queue): then no job ever receives a resource or runs, whatever
   the schedule (gather never returns), F51; the repaired constructor rejects it *)
Theorem C17_unvalidated_pop_starves_refuted : forall q0 pop W thr sched, length q0 < pop ->
  let s := xrun pop W thr (xinit pop q0) sched in
  xnew pop q0 = None /\ xqueue s = q0 /\ forall x, In x (xjobs s) -> xph x = XWaiting \/ xph x = XCancelled.
Proof.
  intros q0 pop W thr sched Hlt s. destruct (pop_too_large_starves q0 pop W thr Hlt sched) as (A & _ & C).
  split; [|split; assumption]. unfold xnew. replace (Nat.leb pop (length q0)) with false by (symmetry; apply Nat.leb_gt; exact Hlt).
  rewrite andb_false_r. reflexivity.
Qed.
Print Assumptions C17_unvalidated_pop_starves_refuted.

(* [qstep] is the extended mechanism (serial backend) restricted to one submit without failures: same states along every schedule
   (in particular its guard "pop <= |deque|" is exactly "the group semaphore has a permit") *)
Theorem C17_ext_refines_mechanism : forall q0 pop W n sched, 1 <= pop ->
  proj (xrun pop W false (xstep pop W false (xinit pop q0) (XSubmit n)) (map emb sched)) = qrun pop (qinit q0 n W) sched.
Proof. intros. apply ext_refines_mechanism. assumption. Qed.
Print Assumptions C17_ext_refines_mechanism.

(* the oracle raises no alarm on ANY behaviour of the extended mechanism on the serial backend (waves, run-functions that
   raise, close() during evaluations and reuse afterwards): every schedule's observation trace is accepted, and the oracle's
   free set is the deque plus the resources bound to jobs that have not started *)
Theorem C17_ext_serial_run_is_accepted : forall q0 pop W sched,
  let s := xrun pop W false (xinit pop q0) sched in
  exists a', replay_obs pop (mkA q0 [] []) 0 (xobs_trace pop W false (xinit pop q0) sched) = (None, a') /\
             Permutation (free a') (xqueue s ++ flat_map xhold1 (xjobs s)).
Proof. intros. apply ext_serial_run_is_accepted. Qed.
Print Assumptions C17_ext_serial_run_is_accepted.

(* ... whereas on the thread backend the trace of the zombie schedule is rejected: event 1 (the start of the second job),
   clause 2 = a resource that is not free (F52, what the thread_steps stream reports on the implementation) *)
Theorem C17_ext_thread_zombie_trace_refuted :
  fst (replay_obs 1 (mkA [100]%Z [] []) 0
        (xobs_trace 1 2 true (xinit 1 [100]%Z) [XSubmit 1; XTake 0; XRun 0; XStart 0; XClose; XSubmit 1; XTake 1; XRun 1; XStart 1]))
  = Some (1, 2).
Proof. exact ext_thread_zombie_rejected. Qed.
Print Assumptions C17_ext_thread_zombie_trace_refuted.

(* the deterministic driver used by the step-wise streams: after [xsettle] (one pass of take j; admit j in id order) no job can
   take resources or be admitted any more, from every reachable state - the model state that is compared with the
   implementation is the quiescent one *)
Theorem C17_settle_quiescent : forall q0 pop W thr sched,
  let s := xsettle pop W thr (xrun pop W thr (xinit pop q0) sched) in
  forall j, xenabled s (XTake j) = false /\ xenabled s (XRun j) = false.
Proof. intros q0 pop W thr sched s. apply (settle_quiescent q0 pop W thr). apply xinv_run, xinv_init. Qed.
Print Assumptions C17_settle_quiescent.

(* the final check of runs with failed / cancelled jobs: what a verdict 0 guarantees *)
Theorem C17_final_okx_sound : forall q0 njobs nometa meta fq s, final_okx q0 njobs nometa meta fq s = 0 ->
  active s = [] /\ Permutation fq q0 /\ Permutation (free s) q0.
Proof. exact final_okx_sound. Qed.
Print Assumptions C17_final_okx_sound.


(* queues with equal entries (several slots per device, e.g. [0; 0; 1; 1]): no theorem above except the two disjointness
   theorems assumes distinct resources.  The slot bound replaces disjointness: deque + in use contains every value exactly as
   often as the initial queue, hence a value is never in use more often than it has slots - in the mechanism, in the
   extended mechanism, and in every history the oracle accepts *)
Theorem C17_slot_bound : forall q0 pop njobs W sched v,
  let s := qrun pop (qinit q0 njobs W) sched in
  count_occ Z.eq_dec (queue s) v + count_occ Z.eq_dec (held s) v = count_occ Z.eq_dec q0 v.
Proof. intros. apply (slot_bound q0 pop W). apply qinv_run, qinv_init. Qed.
Print Assumptions C17_slot_bound.

Theorem C17_ext_slot_bound : forall q0 pop W thr sched v,
  let s := xrun pop W thr (xinit pop q0) sched in
  count_occ Z.eq_dec (xqueue s) v + count_occ Z.eq_dec (xheld s) v = count_occ Z.eq_dec q0 v.
Proof. intros. apply (xslot_bound q0 pop W). apply xinv_run, xinv_init. Qed.
Print Assumptions C17_ext_slot_bound.

Theorem C17_oracle_slot_bound : forall pop q0 tr s' v, replay_obs pop (mkA q0 [] []) 0 tr = (None, s') ->
  count_occ Z.eq_dec (free s') v + count_occ Z.eq_dec (aheld s') v = count_occ Z.eq_dec q0 v.
Proof. exact oracle_slot_bound. Qed.
Print Assumptions C17_oracle_slot_bound.

(* the pinned design (pop before the worker semaphore, one shared slot): F17 *)
Theorem C17_prefix_shared_slot_refuted :
  running_received (orun 1 (oinit [10; 11; 12; 13]%Z 4 2)
     [Enter 0; Acquire 0; Enter 1; Acquire 1; Enter 2; Enter 3; OFinish 0; Acquire 2; OFinish 1; Acquire 3])
  = [[13]; [13]]%Z.
Proof. exact shared_slot_refuted. Qed.
Print Assumptions C17_prefix_shared_slot_refuted.

Theorem C17_prefix_underflow_refuted :
  underflow (orun 1 (oinit [10; 11]%Z 3 1) [Enter 0; Acquire 0; Enter 1; Enter 2]) = true.
Proof. exact underflow_refuted. Qed.
Print Assumptions C17_prefix_underflow_refuted.

Example C17_example :
  let s := qrun 2 (qinit [1;2;3;4;5]%Z 3 2) [Take 0; Take 1; Take 2; Run 0; Run 1; Finish 0; Take 2; Run 2] in
  map res (jobs s) = [[1;2];[3;4];[5;1]]%Z /\ queue s = [2]%Z /\ all_finished s = false.
Proof. vm_compute. auto. Qed.

(* non-vacuity: a complete FIFO schedule with contention (3 jobs, 2 groups of 2, 1 worker), its observation trace *)
Example C17_example_fifo_complete :
  let sched := [Take 0; Take 1; Take 2; Run 0; Run 1; Finish 0; Take 2; Run 1; Finish 1; Run 2; Finish 2] in
  let s0 := qinit [1;2;3;4;5]%Z 3 1 in
  fifo_sched 2 s0 sched = true /\ all_finished (qrun 2 s0 sched) = true /\
  obs_trace 2 s0 sched = [ObsStart 0 [1;2]; ObsEnd 0; ObsStart 1 [3;4]; ObsEnd 1; ObsStart 2 [5;1]; ObsEnd 2]%Z.
Proof. vm_compute. auto. Qed.

(* non-vacuity of the extended mechanism: 5 resources in groups of 2 (one spare), 2 workers; job 0 raises, close() cancels a
   running, a holding and a waiting job, the evaluator is used again *)
Example C17_example_ext :
  let s := xrun 2 2 false (xinit 2 [100;101;102;103;104]%Z)
     [XSubmit 4; XTake 0; XRun 0; XTake 1; XRun 1; XFail 0; XTake 2; XClose; XSubmit 2; XTake 4; XRun 4; XTake 5; XRun 5; XFinish 4] in
  map xph (xjobs s) = [XFailed; XCancelled; XCancelled; XCancelled; XDone; XRunning] /\
  xqueue s = [103; 101; 104]%Z /\ xres (xget s 5) = [100; 102]%Z /\ xmeta s = [(4, [101; 104]%Z)] /\ xperm s = 1.
Proof. vm_compute. auto 6. Qed.
Example C17_example_xnew : xnew 2 [1;2;3]%Z <> None /\ xnew 0 [1]%Z = None /\ xnew 2 [1]%Z = None.
Proof. vm_compute. split; [discriminate| auto]. Qed.

(* thread backend: the pool serves one job at a time with one worker; the second job of another submit waits in the pool *)
Example C17_example_pool :
  let s := xrun 1 1 true (xinit 1 [1; 2]%Z) [XSubmit 1; XTake 0; XRun 0; XStart 0; XSubmit 1; XTake 1; XRun 1; XStart 1] in
  map xph (xjobs s) = [XRunning; XQueued] /\ xbusy s = 1%nat.
Proof. vm_compute. auto. Qed.

(* two slots per device: both jobs may hold the value 0 at the same time; a third job that reports 0 while both slots are taken
   is rejected (clause 2), and so is a final deque that has lost one of the equal entries (what seeded C17_6 does) *)
Example C17_example_multislot :
  let q0 := [0; 0; 1; 1]%Z in
  fst (replay_obs 1 (mkA q0 [] []) 0 [ObsStart 0 [0]; ObsStart 1 [0]; ObsEnd 0; ObsStart 2 [0]; ObsEnd 1; ObsEnd 2])%Z = None /\
  fst (replay_obs 1 (mkA q0 [] []) 0 [ObsStart 0 [0]; ObsStart 1 [0]; ObsStart 2 [0]])%Z = Some (2, 2) /\
  queue_back q0 [1; 1; 0]%Z = false /\ queue_back q0 [1; 0; 1; 0]%Z = true /\
  map res (jobs (qrun 1 (qinit q0 3 3) [Take 0; Take 1; Run 0; Run 1; Finish 0; Take 2; Run 2])) = [[0]; [0]; [1]]%Z.
Proof. vm_compute. auto 6. Qed.
