(* Which schedules does the exact FIFO prediction [mech_replay] accept?  Every complete schedule of the mechanism in
   which the resources are taken in the order of the job ids ([fifo_sched]).  [mech_replay] takes the resources lazily
   (just before the start of a job, for every job with a smaller or equal id); because the deque is FIFO (popped on
   the left, pushed on the right) delaying a take does not change what it receives. *)
From Coq Require Import List ZArith Bool Arith Lia Permutation.
Import ListNotations.
Require Import DH.Common.ListSet DH.C17_Queue.Model DH.C17_Queue.Lemmas DH.C17_Queue.Lemmas2 DH.C17_Queue.Check DH.C17_Queue.Lemmas3.

Lemma firstn_exact {A} (l r : list A) n : length l = n -> firstn n (l ++ r) = l /\ skipn n (l ++ r) = r.
Proof.
  intros <-. split.
  - rewrite firstn_app, Nat.sub_diag, firstn_all. cbn. apply app_nil_r.
  - rewrite skipn_app, Nat.sub_diag, skipn_all. reflexivity.
Qed.

Lemma flat_map_ext_in' {A B} (f g : A -> list B) l : (forall x, In x l -> f x = g x) -> flat_map f l = flat_map g l.
Proof. induction l as [|a l IH]; intros H; cbn; [reflexivity|]. rewrite (H a (or_introl eq_refl)), IH; [reflexivity|]. intros x Hx. apply H. right. exact Hx. Qed.

Lemma job_eta x : x = mkJob (ph x) (res x).
Proof. destruct x; reflexivity. Qed.

Lemma getj_take pop s j k : enabled pop s (Take j) = true ->
  getj (qstep pop s (Take j)) k = if Nat.eqb k j then mkJob Holding (firstn pop (queue s)) else getj s k.
Proof. intros E. rewrite (qstep_take _ _ _ E). destruct (enabled_take _ _ _ E) as (Hj & _). unfold getj. cbn [jobs]. apply getj_set, Hj. Qed.
Lemma getj_run pop s j k : enabled pop s (Run j) = true ->
  getj (qstep pop s (Run j)) k = if Nat.eqb k j then mkJob Running (res (getj s j)) else getj s k.
Proof. intros E. rewrite (qstep_run _ _ _ E). destruct (enabled_run _ _ _ E) as (Hj & _). unfold getj. cbn [jobs]. apply getj_set, Hj. Qed.
Lemma getj_finish pop s j k : enabled pop s (Finish j) = true ->
  getj (qstep pop s (Finish j)) k = if Nat.eqb k j then mkJob Finished (res (getj s j)) else getj s k.
Proof. intros E. rewrite (qstep_finish _ _ _ E). destruct (enabled_finish _ _ _ E) as (Hj & _). unfold getj. cbn [jobs]. apply getj_set, Hj. Qed.

Record MRel (pop : nat) (s m : qs) (tm ts : nat) : Prop := {
  mr_le : tm <= ts <= length (jobs s);
  mr_len : length (jobs m) = length (jobs s);
  mr_w : workers m = workers s;
  mr_out : forall k, k < tm \/ ts <= k -> getj m k = getj s k;
  mr_mid : forall k, tm <= k < ts -> ph (getj s k) = Holding /\ ph (getj m k) = Waiting /\ length (res (getj s k)) = pop;
  mr_pre : forall k, k < ts -> ph (getj s k) <> Waiting;
  mr_post : forall k, ts <= k -> k < length (jobs s) -> ph (getj s k) = Waiting;
  mr_q : queue m = flat_map (fun k => res (getj s k)) (seq tm (ts - tm)) ++ queue s }.

Lemma mrel_init pop q n w : MRel pop (qinit q n w) (qinit q n w) 0 0.
Proof.
  constructor; unfold getj, qinit; cbn [jobs workers queue]; try reflexivity.
  - lia.
  - intros k Hk. lia.
  - intros k Hk. lia.
  - intros k _ Hk. rewrite repeat_length in Hk. rewrite nth_repeat_lt by exact Hk. reflexivity.
Qed.

(* the lazy takes of mech_replay *)
Lemma mrel_takes pop s m tm ts : MRel pop s m tm ts -> forall n, n <= ts ->
  MRel pop s (fold_left (fun s k => qstep pop s (Take k)) (seq 0 n) m) (Nat.max tm n) ts.
Proof.
  intros H. induction n as [|n IH]; intros Hn.
  - cbn. rewrite Nat.max_0_r. exact H.
  - rewrite seq_S, fold_left_app. cbn [fold_left Nat.add]. specialize (IH ltac:(lia)).
    set (m1 := fold_left (fun s k => qstep pop s (Take k)) (seq 0 n) m) in *.
    destruct IH as [Hle Hlen Hw Hout Hmid Hpre Hpost Hq].
    destruct (Nat.lt_ge_cases n tm) as [L|L].
    + (* already taken in m1 *)
      assert (En : enabled pop m1 (Take n) = false).
      { cbn [enabled]. rewrite (Hout n) by lia. pose proof (Hpre n ltac:(lia)) as P. destruct (ph (getj s n)); try congruence; rewrite ?andb_false_r; reflexivity. }
      rewrite (qstep_disabled _ _ _ En). replace (Nat.max tm (S n)) with (Nat.max tm n) by lia. constructor; assumption.
    + replace (Nat.max tm n) with n in * by lia. replace (Nat.max tm (S n)) with (S n) by lia.
      destruct (Hmid n ltac:(lia)) as (P1 & P2 & P3).
      assert (Eq : queue m1 = res (getj s n) ++ flat_map (fun k => res (getj s k)) (seq (S n) (ts - S n)) ++ queue s).
      { rewrite Hq. replace (ts - n) with (S (ts - S n)) by lia. cbn [seq flat_map]. rewrite <- app_assoc. reflexivity. }
      assert (En : enabled pop m1 (Take n) = true).
      { cbn [enabled]. rewrite P2. replace (n <? length (jobs m1)) with true by (symmetry; apply Nat.ltb_lt; lia).
        replace (pop <=? length (queue m1)) with true; [reflexivity|]. symmetry. apply Nat.leb_le. rewrite Eq, app_length. lia. }
      destruct (firstn_exact (res (getj s n)) (flat_map (fun k => res (getj s k)) (seq (S n) (ts - S n)) ++ queue s) pop P3) as [F1 F2].
      rewrite <- Eq in F1, F2.
      constructor.
      * lia.
      * rewrite qstep_length. exact Hlen.
      * rewrite (qstep_take _ _ _ En). exact Hw.
      * intros k Hk. rewrite (getj_take _ _ _ _ En). destruct (Nat.eqb k n) eqn:E.
        -- apply Nat.eqb_eq in E. subst. rewrite F1. rewrite (job_eta (getj s n)) at 2. rewrite P1. reflexivity.
        -- apply Nat.eqb_neq in E. apply Hout. lia.
      * intros k Hk. rewrite (getj_take _ _ _ _ En). replace (Nat.eqb k n) with false by (symmetry; apply Nat.eqb_neq; lia). apply Hmid. lia.
      * exact Hpre.
      * exact Hpost.
      * rewrite (qstep_take _ _ _ En). cbn [queue]. exact F2.
Qed.

Lemma mrel_real_take pop s m tm ts j : MRel pop s m tm ts -> enabled pop s (Take j) = true -> forallb (not_waiting s) (seq 0 j) = true ->
  MRel pop (qstep pop s (Take j)) m tm (S ts).
Proof.
  intros [Hle Hlen Hw Hout Hmid Hpre Hpost Hq] En Hf. destruct (enabled_take _ _ _ En) as (Hj & Hp & Hqq).
  assert (j = ts) as ->.
  { destruct (Nat.lt_trichotomy j ts) as [L|[L|L]]; [exfalso; apply (Hpre j L), Hp| exact L|].
    exfalso. rewrite forallb_forall in Hf. specialize (Hf ts ltac:(apply in_seq; lia)). unfold not_waiting in Hf.
    rewrite (Hpost ts) in Hf by lia. discriminate. }
  constructor.
  - rewrite qstep_length. lia.
  - rewrite qstep_length. exact Hlen.
  - rewrite (qstep_take _ _ _ En). exact Hw.
  - intros k Hk. rewrite (getj_take _ _ _ _ En). replace (Nat.eqb k ts) with false by (symmetry; apply Nat.eqb_neq; lia). apply Hout. lia.
  - intros k Hk. rewrite (getj_take _ _ _ _ En). destruct (Nat.eqb k ts) eqn:E.
    + apply Nat.eqb_eq in E. subst. cbn [ph res]. split; [reflexivity|]. split; [|apply firstn_length_le; exact Hqq].
      rewrite (Hout ts) by lia. exact Hp.
    + apply Nat.eqb_neq in E. apply Hmid. lia.
  - intros k Hk. rewrite (getj_take _ _ _ _ En). destruct (Nat.eqb k ts) eqn:E; [cbn; congruence| apply Nat.eqb_neq in E; apply Hpre; lia].
  - intros k Hk Hk2. rewrite qstep_length in Hk2. rewrite (getj_take _ _ _ _ En). replace (Nat.eqb k ts) with false by (symmetry; apply Nat.eqb_neq; lia).
    apply Hpost; lia.
  - rewrite Hq. replace (queue (qstep pop s (Take ts))) with (skipn pop (queue s)) by (rewrite (qstep_take _ _ _ En); reflexivity).
    replace (S ts - tm) with (S (ts - tm)) by lia.
    rewrite seq_S, flat_map_app. cbn [flat_map]. rewrite app_nil_r. replace (tm + (ts - tm)) with ts by lia.
    rewrite (getj_take _ _ _ _ En), Nat.eqb_refl. cbn [res]. rewrite <- app_assoc. rewrite firstn_skipn. f_equal.
    apply flat_map_ext_in'. intros k Hk. apply in_seq in Hk. rewrite (getj_take _ _ _ _ En).
    replace (Nat.eqb k ts) with false by (symmetry; apply Nat.eqb_neq; lia). reflexivity.
Qed.

Lemma mrel_run pop s m tm ts j : MRel pop s m tm ts -> j < tm -> enabled pop s (Run j) = true ->
  enabled pop m (Run j) = true /\ res (getj m j) = res (getj s j) /\ MRel pop (qstep pop s (Run j)) (qstep pop m (Run j)) tm ts.
Proof.
  intros [Hle Hlen Hw Hout Hmid Hpre Hpost Hq] Hj En. destruct (enabled_run _ _ _ En) as (Hjl & Hp & Hww).
  pose proof (Hout j (or_introl Hj)) as Ej.
  assert (Em : enabled pop m (Run j) = true).
  { cbn [enabled]. rewrite Ej, Hp, Hlen, Hw. replace (j <? length (jobs s)) with true by (symmetry; apply Nat.ltb_lt; lia).
    replace (0 <? workers s) with true by (symmetry; apply Nat.ltb_lt; lia). reflexivity. }
  split; [exact Em|]. split; [rewrite Ej; reflexivity|].
  constructor.
  - rewrite qstep_length. lia.
  - rewrite !qstep_length. exact Hlen.
  - rewrite (qstep_run _ _ _ En), (qstep_run _ _ _ Em). cbn [workers]. lia.
  - intros k Hk. rewrite (getj_run _ _ _ _ En), (getj_run _ _ _ _ Em). destruct (Nat.eqb k j); [rewrite Ej; reflexivity| apply Hout, Hk].
  - intros k Hk. rewrite (getj_run _ _ _ _ En), (getj_run _ _ _ _ Em). replace (Nat.eqb k j) with false by (symmetry; apply Nat.eqb_neq; lia). apply Hmid, Hk.
  - intros k Hk. rewrite (getj_run _ _ _ _ En). destruct (Nat.eqb k j); [cbn; congruence| apply Hpre, Hk].
  - intros k Hk Hk2. rewrite qstep_length in Hk2. rewrite (getj_run _ _ _ _ En). replace (Nat.eqb k j) with false by (symmetry; apply Nat.eqb_neq; lia). apply Hpost; assumption.
  - replace (queue (qstep pop m (Run j))) with (queue m) by (rewrite (qstep_run _ _ _ Em); reflexivity).
    replace (queue (qstep pop s (Run j))) with (queue s) by (rewrite (qstep_run _ _ _ En); reflexivity). rewrite Hq. f_equal.
    apply flat_map_ext_in'. intros k Hk. apply in_seq in Hk. rewrite (getj_run _ _ _ _ En).
    replace (Nat.eqb k j) with false by (symmetry; apply Nat.eqb_neq; lia). reflexivity.
Qed.

Lemma mrel_finish pop s m tm ts j : MRel pop s m tm ts -> enabled pop s (Finish j) = true ->
  enabled pop m (Finish j) = true /\ MRel pop (qstep pop s (Finish j)) (qstep pop m (Finish j)) tm ts.
Proof.
  intros [Hle Hlen Hw Hout Hmid Hpre Hpost Hq] En. destruct (enabled_finish _ _ _ En) as (Hjl & Hp).
  assert (Hj : j < tm).
  { destruct (Nat.lt_ge_cases j tm) as [L|L]; [exact L|]. exfalso. destruct (Nat.lt_ge_cases j ts) as [L2|L2].
    - destruct (Hmid j ltac:(lia)) as (X & _). congruence.
    - rewrite (Hpost j L2 Hjl) in Hp. discriminate. }
  pose proof (Hout j (or_introl Hj)) as Ej.
  assert (Em : enabled pop m (Finish j) = true).
  { cbn [enabled]. rewrite Ej, Hp, Hlen. replace (j <? length (jobs s)) with true by (symmetry; apply Nat.ltb_lt; lia). reflexivity. }
  split; [exact Em|].
  constructor.
  - rewrite qstep_length. lia.
  - rewrite !qstep_length. exact Hlen.
  - rewrite (qstep_finish _ _ _ En), (qstep_finish _ _ _ Em). cbn [workers]. lia.
  - intros k Hk. rewrite (getj_finish _ _ _ _ En), (getj_finish _ _ _ _ Em). destruct (Nat.eqb k j); [rewrite Ej; reflexivity| apply Hout, Hk].
  - intros k Hk. rewrite (getj_finish _ _ _ _ En), (getj_finish _ _ _ _ Em). replace (Nat.eqb k j) with false by (symmetry; apply Nat.eqb_neq; lia). apply Hmid, Hk.
  - intros k Hk. rewrite (getj_finish _ _ _ _ En). destruct (Nat.eqb k j); [cbn; congruence| apply Hpre, Hk].
  - intros k Hk Hk2. rewrite qstep_length in Hk2. rewrite (getj_finish _ _ _ _ En). replace (Nat.eqb k j) with false by (symmetry; apply Nat.eqb_neq; lia). apply Hpost; assumption.
  - replace (queue (qstep pop m (Finish j))) with (queue m ++ res (getj m j)) by (rewrite (qstep_finish _ _ _ Em); reflexivity).
    replace (queue (qstep pop s (Finish j))) with (queue s ++ res (getj s j)) by (rewrite (qstep_finish _ _ _ En); reflexivity).
    rewrite Hq, Ej, <- app_assoc. f_equal.
    apply flat_map_ext_in'. intros k Hk. apply in_seq in Hk. rewrite (getj_finish _ _ _ _ En).
    replace (Nat.eqb k j) with false by (symmetry; apply Nat.eqb_neq; lia). reflexivity.
Qed.

Lemma mrel_finished_eq pop s m tm ts : MRel pop s m tm ts -> all_finished s = true -> m = s.
Proof.
  intros [Hle Hlen Hw Hout Hmid Hpre Hpost Hq] Hall. pose proof (all_finished_spec s Hall) as Hfin.
  assert (tm = ts).
  { destruct (Nat.eq_dec tm ts) as [E|E]; [exact E|]. exfalso. destruct (Hmid tm ltac:(lia)) as (X & _). rewrite (Hfin tm) in X by lia. discriminate. }
  subst. assert (E : jobs m = jobs s).
  { apply (nth_ext _ _ (mkJob Finished []) (mkJob Finished [])); [exact Hlen|]. intros k _. apply (Hout k). lia. }
  rewrite Nat.sub_diag in Hq. cbn in Hq. destruct m, s. cbn in *. congruence.
Qed.

(* the prediction follows the mechanism along every FIFO schedule (complete or not) *)
Theorem mech_sim_state pop : forall sched s m tm ts, MRel pop s m tm ts -> fifo_sched pop s sched = true ->
  exists m' tm' ts', mech_state pop m (obs_trace pop s sched) = Some m' /\ MRel pop (qrun pop s sched) m' tm' ts'.
Proof.
  induction sched as [|e t IH]; intros s m tm ts HR Hf.
  - cbn. eauto.
  - cbn [obs_trace fifo_sched qrun fold_left] in *. fold (qrun pop (qstep pop s e) t).
    apply andb_true_iff in Hf as [Hf1 Hf2]. destruct (enabled pop s e) eqn:En.
    + destruct e as [j|j|j]; cbn [app].
      * eapply IH; [eapply mrel_real_take; eauto| exact Hf2].
      * destruct (enabled_run _ _ _ En) as (Hjl & Hp & _).
        assert (Hjts : j < ts).
        { destruct (Nat.lt_ge_cases j ts) as [L|L]; [exact L|]. rewrite (mr_post _ _ _ _ _ HR j L Hjl) in Hp. discriminate. }
        pose proof (mrel_takes pop s m tm ts HR (S j) ltac:(lia)) as HR1. fold (take_upto pop m j) in HR1.
        destruct (mrel_run pop s _ _ ts j HR1 ltac:(lia) En) as (Em & Er & HR2).
        cbn [mech_state]. rewrite Er, zlist_eqb_refl, Em. cbn [andb]. eapply IH; eauto.
      * destruct (mrel_finish pop s m tm ts j HR En) as (Em & HR2). cbn [mech_state]. rewrite Em. eapply IH; eauto.
    + cbn [app]. rewrite (qstep_disabled _ _ _ En) in *. eapply IH; eauto.
Qed.

(* on a complete FIFO schedule the prediction ends exactly in the state of the mechanism (deque order included) *)
Theorem mech_state_complete q0 pop njobs W sched :
  fifo_sched pop (qinit q0 njobs W) sched = true -> all_finished (qrun pop (qinit q0 njobs W) sched) = true ->
  mech_state pop (qinit q0 njobs W) (obs_trace pop (qinit q0 njobs W) sched) = Some (qrun pop (qinit q0 njobs W) sched).
Proof.
  intros Hf Hall. destruct (mech_sim_state pop sched _ _ 0 0 (mrel_init pop q0 njobs W) Hf) as (m' & tm' & ts' & E & HR).
  rewrite E. f_equal. eapply mrel_finished_eq; eauto.
Qed.

Theorem mech_replay_accepts_fifo q0 pop njobs W sched :
  fifo_sched pop (qinit q0 njobs W) sched = true -> all_finished (qrun pop (qinit q0 njobs W) sched) = true ->
  mech_replay pop (qinit q0 njobs W) (obs_trace pop (qinit q0 njobs W) sched) = true.
Proof. intros Hf Hall. rewrite mech_replay_state, (mech_state_complete _ _ _ _ _ Hf Hall). exact Hall. Qed.

(* non-FIFO takes are NOT accepted by the exact prediction (it is a statement about the FIFO queue semaphore only):
   job 1 takes before job 0 and therefore receives the head of the deque *)
Theorem mech_replay_rejects_non_fifo :
  let sched := [Take 1; Take 0; Run 1; Run 0; Finish 0; Finish 1] in
  let s0 := qinit [10; 11]%Z 2 2 in
  all_finished (qrun 1 s0 sched) = true /\ fifo_sched 1 s0 sched = false /\ mech_replay 1 s0 (obs_trace 1 s0 sched) = false.
Proof. vm_compute. auto. Qed.
