(* Simulation between the mechanism model and the acceptance oracle: the oracle raises no alarm on any behaviour of
   the mechanism (every schedule, every queue, pop count, number of jobs and workers), and the final check passes on
   every complete run.  Also: worker bound and resource-group bound in every reachable state. *)
From Coq Require Import List ZArith Bool Arith Lia Permutation.
Import ListNotations.
Require Import DH.Common.ListSet DH.C17_Queue.Model DH.C17_Queue.Lemmas DH.C17_Queue.Lemmas2 DH.C17_Queue.Check.

(* ---------- generic list facts ---------- *)
Lemma flat_map_setj {B} (f : job -> list B) d : forall l j x, j < length l ->
  Permutation (f (nth j l d) ++ flat_map f (setj l j x)) (f x ++ flat_map f l).
Proof.
  induction l as [|a l IH]; intros j x Hj; cbn in Hj; [lia|]. destruct j as [|j]; cbn [nth setj flat_map].
  - rewrite !app_assoc. apply Permutation_app_tail. apply Permutation_app_comm.
  - specialize (IH j x ltac:(lia)).
    rewrite (Permutation_app_swap_app (f (nth j l d)) (f a)). rewrite (Permutation_app_swap_app (f x) (f a)).
    apply Permutation_app_head. exact IH.
Qed.

Lemma count_setj (g : job -> nat) d : forall l j x, j < length l ->
  g (nth j l d) + list_sum (map g (setj l j x)) = g x + list_sum (map g l).
Proof.
  induction l as [|a l IH]; intros j x Hj; cbn in Hj; [lia|]. destruct j as [|j]; simpl.
  - lia.
  - specialize (IH j x ltac:(lia)). simpl in IH. lia.
Qed.

Lemma remove1z_in x : forall l, In x l -> exists l', remove1z x l = Some l'.
Proof.
  induction l as [|y t IH]; intros H; [destruct H|]. cbn. destruct (Z.eqb x y) eqn:E; [eauto|].
  destruct H as [H|H]; [subst; rewrite Z.eqb_refl in E; discriminate|]. destruct (IH H) as [l' ->]. eauto.
Qed.

Lemma take_all_of_perm : forall r l l', Permutation l (r ++ l') -> exists l'', take_all r l = Some l'' /\ Permutation l'' l'.
Proof.
  induction r as [|x r IH]; intros l l' H; cbn [take_all].
  - exists l. split; [reflexivity| exact H].
  - assert (Hin : In x l) by (eapply Permutation_in; [apply Permutation_sym; exact H| left; reflexivity]).
    destruct (remove1z_in x l Hin) as [l1 E]. rewrite E.
    apply IH. apply (Permutation_cons_inv (a := x)). rewrite <- (remove1z_perm _ _ _ E). exact H.
Qed.

Lemma take_all_whole q l : Permutation l q -> take_all q l = Some [].
Proof.
  intros H. destruct (take_all_of_perm q l [] ltac:(rewrite app_nil_r; exact H)) as (l2 & E & P).
  apply Permutation_sym, Permutation_nil in P. subst. exact E.
Qed.

Lemma zlist_eqb_refl l : zlist_eqb l l = true.
Proof. induction l as [|x l IH]; cbn; [reflexivity| rewrite Z.eqb_refl, IH; reflexivity]. Qed.

Lemma lookupn_none_notin j : forall l, lookupn j l = None <-> ~ In j (map fst l).
Proof.
  induction l as [|[k r] t IH]; cbn; [tauto|]. destruct (Nat.eqb j k) eqn:E.
  - apply Nat.eqb_eq in E. subst. split; [discriminate| intros H; exfalso; apply H; left; reflexivity].
  - apply Nat.eqb_neq in E. rewrite IH. split; [intros H [X|X]; [congruence| tauto]| tauto].
Qed.

Lemma removen_subset j k : forall l, In k (map fst (removen j l)) -> In k (map fst l).
Proof.
  induction l as [|[k' r] t IH]; cbn; [tauto|]. destruct (Nat.eqb j k'); cbn; [tauto|]. intros [H|H]; [left; exact H| right; apply IH, H].
Qed.

Lemma removen_nodup j : forall l, NoDup (map fst l) -> NoDup (map fst (removen j l)).
Proof.
  induction l as [|[k r] t IH]; cbn; intros H; [constructor|]. inversion H as [|? ? Hn Ht]; subst.
  destruct (Nat.eqb j k); [exact Ht|]. cbn. constructor; [intros X; apply Hn; eapply removen_subset; exact X| apply IH, Ht].
Qed.

Lemma lookupn_removen_same j : forall l, NoDup (map fst l) -> lookupn j (removen j l) = None.
Proof.
  induction l as [|[k r] t IH]; cbn; intros H; [reflexivity|]. inversion H as [|? ? Hn Ht]; subst.
  destruct (Nat.eqb j k) eqn:E.
  - apply Nat.eqb_eq in E. subst. apply lookupn_none_notin. exact Hn.
  - cbn. rewrite E. apply IH, Ht.
Qed.

Lemma lookupn_removen_other j k : j <> k -> forall l, lookupn k (removen j l) = lookupn k l.
Proof.
  intros Hne. induction l as [|[k' r] t IH]; cbn; [reflexivity|]. destruct (Nat.eqb j k') eqn:E.
  - apply Nat.eqb_eq in E. subst. destruct (Nat.eqb k k') eqn:E2; [apply Nat.eqb_eq in E2; congruence| reflexivity].
  - cbn. rewrite IH. reflexivity.
Qed.

Lemma nth_repeat_lt {A} (a d : A) : forall n j, j < n -> nth j (repeat a n) d = a.
Proof. induction n as [|n IH]; intros [|j] H; cbn; try lia; auto. apply IH. lia. Qed.

(* ---------- the state after an enabled event ---------- *)
Lemma qstep_disabled pop s e : enabled pop s e = false -> qstep pop s e = s.
Proof. intros E. unfold qstep. rewrite E. reflexivity. Qed.

Lemma getj_set l j x k : j < length l -> nth k (setj l j x) (mkJob Finished []) = if Nat.eqb k j then x else nth k l (mkJob Finished []).
Proof.
  intros Hj. destruct (Nat.eqb k j) eqn:E.
  - apply Nat.eqb_eq in E. subst. apply nth_setj_same, Hj.
  - apply Nat.eqb_neq in E. apply nth_setj_other. congruence.
Qed.

Lemma enabled_take pop s j : enabled pop s (Take j) = true -> j < length (jobs s) /\ ph (getj s j) = Waiting /\ pop <= length (queue s).
Proof.
  cbn [enabled]. intros H. apply andb_true_iff in H as [H H3]. apply andb_true_iff in H as [H1 H2].
  apply Nat.ltb_lt in H1. apply Nat.leb_le in H3. destruct (ph (getj s j)); try discriminate. auto.
Qed.
Lemma enabled_run pop s j : enabled pop s (Run j) = true -> j < length (jobs s) /\ ph (getj s j) = Holding /\ 0 < workers s.
Proof.
  cbn [enabled]. intros H. apply andb_true_iff in H as [H H3]. apply andb_true_iff in H as [H1 H2].
  apply Nat.ltb_lt in H1. apply Nat.ltb_lt in H3. destruct (ph (getj s j)); try discriminate. auto.
Qed.
Lemma enabled_finish pop s j : enabled pop s (Finish j) = true -> j < length (jobs s) /\ ph (getj s j) = Running.
Proof.
  cbn [enabled]. intros H. apply andb_true_iff in H as [H H3]. apply andb_true_iff in H as [H1 H2].
  apply Nat.ltb_lt in H1. destruct (ph (getj s j)); try discriminate. auto.
Qed.

Lemma qstep_take pop s j : enabled pop s (Take j) = true ->
  qstep pop s (Take j) = mkQ (skipn pop (queue s)) (setj (jobs s) j (mkJob Holding (firstn pop (queue s)))) (workers s).
Proof. intros E. unfold qstep. rewrite E. reflexivity. Qed.
Lemma qstep_run pop s j : enabled pop s (Run j) = true ->
  qstep pop s (Run j) = mkQ (queue s) (setj (jobs s) j (mkJob Running (res (getj s j)))) (workers s - 1).
Proof. intros E. unfold qstep. rewrite E. reflexivity. Qed.
Lemma qstep_finish pop s j : enabled pop s (Finish j) = true ->
  qstep pop s (Finish j) = mkQ (queue s ++ res (getj s j)) (setj (jobs s) j (mkJob Finished (res (getj s j)))) (S (workers s)).
Proof. intros E. unfold qstep. rewrite E. reflexivity. Qed.

Lemma qstep_length pop s e : length (jobs (qstep pop s e)) = length (jobs s).
Proof.
  unfold qstep. destruct (negb (enabled pop s e)); [reflexivity|]. destruct e; cbn [jobs]; apply setj_length.
Qed.

Lemma qrun_length pop sched : forall s, length (jobs (qrun pop s sched)) = length (jobs s).
Proof. unfold qrun. induction sched as [|e t IH]; intros s; cbn [fold_left]; [reflexivity| rewrite IH; apply qstep_length]. Qed.

(* ---------- the simulation relation ---------- *)
Definition hres (x : job) : list Z := match ph x with Holding => res x | _ => [] end.

Record Sim (s : qs) (a : ast) : Prop := {
  sim_free : Permutation (free a) (queue s ++ flat_map hres (jobs s));
  sim_act : forall j, lookupn j (active a) = match ph (getj s j) with Running => Some (res (getj s j)) | _ => None end;
  sim_end : forall j, lookupn j (ended a) =
      if Nat.ltb j (length (jobs s)) then match ph (getj s j) with Finished => Some (res (getj s j)) | _ => None end else None;
  sim_nd : NoDup (map fst (active a)) }.

Lemma sim_init q n w : Sim (qinit q n w) (mkA q [] []).
Proof.
  constructor; unfold getj, qinit; cbn [free active ended queue jobs].
  - assert (E : flat_map hres (repeat (mkJob Waiting []) n) = []) by (induction n; cbn; auto). rewrite E, app_nil_r. reflexivity.
  - intros j. unfold getj. cbn [jobs lookupn]. destruct (Nat.lt_ge_cases j n) as [L|L].
    + rewrite nth_repeat_lt by exact L. reflexivity.
    + rewrite nth_overflow by (rewrite repeat_length; exact L). reflexivity.
  - intros j. unfold getj. cbn [jobs lookupn]. rewrite repeat_length. destruct (Nat.ltb j n) eqn:E; [|reflexivity].
    apply Nat.ltb_lt in E. rewrite nth_repeat_lt by exact E. reflexivity.
  - constructor.
Qed.

Lemma sim_take q0 pop W s a j : QInv q0 pop W s -> Sim s a -> enabled pop s (Take j) = true -> Sim (qstep pop s (Take j)) a.
Proof.
  intros HI [Hf Ha He Hn] En. rewrite (qstep_take _ _ _ En). destruct (enabled_take _ _ _ En) as (Hj & Hp & Hq).
  constructor; cbn [queue jobs workers]; unfold getj in *; cbn [jobs].
  - rewrite Hf. pose proof (flat_map_setj hres (mkJob Finished []) (jobs s) j (mkJob Holding (firstn pop (queue s))) Hj) as P.
    unfold hres at 1 in P. rewrite Hp in P. cbn [app] in P. rewrite P. unfold hres at 1. cbn [ph res].
    rewrite app_assoc. apply Permutation_app_tail. rewrite <- (firstn_skipn pop (queue s)) at 1. apply Permutation_app_comm.
  - intros k. rewrite Ha. rewrite getj_set by exact Hj. destruct (Nat.eqb k j) eqn:E; [|reflexivity].
    apply Nat.eqb_eq in E. subst. rewrite Hp. reflexivity.
  - intros k. rewrite He. rewrite setj_length. rewrite getj_set by exact Hj. destruct (Nat.eqb k j) eqn:E; [|reflexivity].
    apply Nat.eqb_eq in E. subst. rewrite Hp. cbn [ph]. destruct (Nat.ltb j (length (jobs s))); reflexivity.
  - exact Hn.
Qed.

Lemma sim_run q0 pop W s a j : QInv q0 pop W s -> Sim s a -> enabled pop s (Run j) = true ->
  exists a', accept_obs pop a (ObsStart j (res (getj s j))) = inl a' /\ Sim (qstep pop s (Run j)) a'.
Proof.
  intros HI [Hf Ha He Hn] En. rewrite (qstep_run _ _ _ En). destruct (enabled_run _ _ _ En) as (Hj & Hp & Hw).
  pose proof (flat_map_setj hres (mkJob Finished []) (jobs s) j (mkJob Running (res (getj s j))) Hj) as P.
  unfold hres at 1 3 in P. fold (getj s j) in P. rewrite Hp in P. cbn [ph app] in P.
  assert (Hlen : length (res (getj s j)) = pop).
  { pose proof (q_len _ _ _ _ HI (getj s j)) as L. rewrite Hp in L. apply L. apply nth_In. exact Hj. }
  destruct (take_all_of_perm (res (getj s j)) (free a) (queue s ++ flat_map hres (setj (jobs s) j (mkJob Running (res (getj s j))))))
    as (f & Ef & Pf).
  { rewrite Hf. rewrite <- P. apply Permutation_app_swap_app. }
  cbn [accept_obs]. rewrite Ha, He, Hp. replace (j <? length (jobs s)) with true by (symmetry; apply Nat.ltb_lt; exact Hj).
  rewrite Hlen, Nat.eqb_refl. cbn [negb]. rewrite Ef. eexists. split; [reflexivity|].
  constructor; cbn [free active ended queue jobs workers]; unfold getj in *; cbn [jobs].
  - exact Pf.
  - intros k. cbn [lookupn]. rewrite getj_set by exact Hj. destruct (Nat.eqb k j) eqn:E; [reflexivity| apply Ha].
  - intros k. rewrite He. rewrite setj_length. rewrite getj_set by exact Hj. destruct (Nat.eqb k j) eqn:E; [|reflexivity].
    apply Nat.eqb_eq in E. subst. rewrite Hp. cbn [ph]. destruct (Nat.ltb j (length (jobs s))); reflexivity.
  - cbn [map fst]. constructor; [|exact Hn]. apply lookupn_none_notin. rewrite Ha, Hp. reflexivity.
Qed.

Lemma sim_finish q0 pop W s a j : QInv q0 pop W s -> Sim s a -> enabled pop s (Finish j) = true ->
  exists a', accept_obs pop a (ObsEnd j) = inl a' /\ Sim (qstep pop s (Finish j)) a'.
Proof.
  intros HI [Hf Ha He Hn] En. rewrite (qstep_finish _ _ _ En). destruct (enabled_finish _ _ _ En) as (Hj & Hp).
  pose proof (flat_map_setj hres (mkJob Finished []) (jobs s) j (mkJob Finished (res (getj s j))) Hj) as P.
  unfold hres at 1 3 in P. fold (getj s j) in P. rewrite Hp in P. cbn [ph app] in P.
  cbn [accept_obs]. rewrite Ha, Hp. eexists. split; [reflexivity|].
  constructor; cbn [free active ended queue jobs workers]; unfold getj in *; cbn [jobs].
  - rewrite P. rewrite Hf. rewrite <- !app_assoc. apply Permutation_app_head. apply Permutation_app_comm.
  - intros k. rewrite getj_set by exact Hj. destruct (Nat.eqb k j) eqn:E.
    + apply Nat.eqb_eq in E. subst. cbn [ph]. apply lookupn_removen_same, Hn.
    + apply Nat.eqb_neq in E. rewrite lookupn_removen_other by congruence. apply Ha.
  - intros k. cbn [lookupn]. rewrite setj_length. rewrite getj_set by exact Hj. destruct (Nat.eqb k j) eqn:E.
    + apply Nat.eqb_eq in E. subst. cbn [ph res]. replace (j <? length (jobs s)) with true by (symmetry; apply Nat.ltb_lt; exact Hj). reflexivity.
    + apply He.
  - apply removen_nodup, Hn.
Qed.

Theorem sim_run_all q0 pop W : forall sched s a i, QInv q0 pop W s -> Sim s a ->
  exists a', replay_obs pop a i (obs_trace pop s sched) = (None, a') /\ Sim (qrun pop s sched) a'.
Proof.
  induction sched as [|e t IH]; intros s a i HI HS; cbn [obs_trace qrun fold_left].
  - exists a. split; [reflexivity| exact HS].
  - fold (qrun pop (qstep pop s e) t). destruct (enabled pop s e) eqn:En.
    + pose proof (qinv_step q0 pop W s e HI) as HI'. destruct e as [j|j|j]; cbn [app].
      * apply IH; [exact HI'| eapply sim_take; eauto].
      * destruct (sim_run q0 pop W s a j HI HS En) as (a1 & E1 & S1). cbn [replay_obs]. rewrite E1. apply IH; assumption.
      * destruct (sim_finish q0 pop W s a j HI HS En) as (a1 & E1 & S1). cbn [replay_obs]. rewrite E1. apply IH; assumption.
    + cbn [app]. rewrite (qstep_disabled _ _ _ En). apply IH; assumption.
Qed.

(* ---------- the final check on a complete run ---------- *)
Lemma all_finished_spec s : all_finished s = true -> forall j, j < length (jobs s) -> ph (getj s j) = Finished.
Proof.
  unfold all_finished, getj. intros H j Hj. rewrite forallb_forall in H. specialize (H (nth j (jobs s) (mkJob Finished [])) (nth_In _ _ Hj)).
  destruct (ph (nth j (jobs s) (mkJob Finished []))); try discriminate; reflexivity.
Qed.

Lemma flat_map_nil_all {A B} (f : A -> list B) l : (forall x, In x l -> f x = []) -> flat_map f l = [].
Proof. induction l as [|a l IH]; intros H; cbn; [reflexivity|]. rewrite (H a (or_introl eq_refl)), IH; [reflexivity|]. intros x Hx. apply H. right. exact Hx. Qed.

Theorem sim_final q0 pop W s a : QInv q0 pop W s -> Sim s a -> all_finished s = true ->
  final_ok q0 (length (jobs s)) (model_meta s) a = 0.
Proof.
  intros HI [Hf Ha He Hn] Hall. pose proof (all_finished_spec s Hall) as Hfin.
  assert (Hph : forall x, In x (jobs s) -> ph x = Finished).
  { intros x Hx. apply (In_nth _ _ (mkJob Finished [])) in Hx as (j & Hj & <-). apply Hfin. exact Hj. }
  unfold final_ok.
  assert (E1 : active a = []).
  { destruct (active a) as [|[k r] t] eqn:E; [reflexivity|]. exfalso. specialize (Ha k). cbn in Ha. rewrite Nat.eqb_refl in Ha.
    destruct (Nat.lt_ge_cases k (length (jobs s))) as [L|L].
    - rewrite (Hfin k L) in Ha. discriminate.
    - unfold getj in Ha. rewrite nth_overflow in Ha by exact L. discriminate. }
  rewrite E1. cbn [length Nat.eqb negb].
  assert (E2 : forallb (fun j => match lookupn j (ended a) with Some _ => true | None => false end) (seq 0 (length (jobs s))) = true).
  { apply forallb_forall. intros j Hj. apply in_seq in Hj. rewrite He. replace (j <? length (jobs s)) with true by (symmetry; apply Nat.ltb_lt; lia).
    rewrite (Hfin j) by lia. reflexivity. }
  rewrite E2. cbn [negb].
  assert (E3 : forallb (fun m => match lookupn (fst m) (ended a) with Some r => zlist_eqb r (snd m) | None => false end) (model_meta s) = true).
  { apply forallb_forall. intros m Hm. unfold model_meta in Hm. apply in_map_iff in Hm as (j & <- & Hj). apply in_seq in Hj. cbn [fst snd].
    rewrite He. replace (j <? length (jobs s)) with true by (symmetry; apply Nat.ltb_lt; lia). rewrite (Hfin j) by lia. apply zlist_eqb_refl. }
  rewrite E3. cbn [negb]. unfold model_meta at 1. rewrite map_length, seq_length, Nat.eqb_refl. cbn [negb].
  rewrite take_all_whole; [reflexivity|].
  pose proof (q_cons _ _ _ _ HI) as Hc.
  assert (Hh : held s = []).
  { unfold held. apply flat_map_nil_all. intros x Hx. unfold holds. rewrite (Hph x Hx). reflexivity. }
  assert (Hh2 : flat_map hres (jobs s) = []).
  { apply flat_map_nil_all. intros x Hx. unfold hres. rewrite (Hph x Hx). reflexivity. }
  rewrite Hh, app_nil_r in Hc. rewrite Hh2, app_nil_r in Hf. rewrite Hf. exact Hc.
Qed.

Theorem model_run_is_accepted q0 pop njobs W sched :
  exists a', replay_obs pop (mkA q0 [] []) 0 (obs_trace pop (qinit q0 njobs W) sched) = (None, a') /\
    (all_finished (qrun pop (qinit q0 njobs W) sched) = true ->
     final_ok q0 njobs (model_meta (qrun pop (qinit q0 njobs W) sched)) a' = 0).
Proof.
  destruct (sim_run_all q0 pop W sched (qinit q0 njobs W) (mkA q0 [] []) 0 (qinv_init _ _ _ _) (sim_init _ _ _)) as (a' & E & S).
  exists a'. split; [exact E|]. intros Hall.
  pose proof (sim_final q0 pop W _ a' (qinv_run q0 pop W sched _ (qinv_init _ _ _ _)) S Hall) as F.
  rewrite qrun_length in F. cbn [qinit jobs] in F. rewrite repeat_length in F. exact F.
Qed.

(* ---------- worker bound and resource-group bound ---------- *)
Definition nholding (s : qs) : nat := length (filter (fun x => match ph x with Holding | Running => true | _ => false end) (jobs s)).

Lemma held_length pop (l : list job) : (forall x, In x l -> match ph x with Waiting => True | _ => length (res x) = pop end) ->
  length (flat_map holds l) = length (filter (fun x => match ph x with Holding | Running => true | _ => false end) l) * pop.
Proof.
  induction l as [|a l IH]; intros H; cbn [flat_map filter]; [reflexivity|]. rewrite app_length, IH by (intros x Hx; apply H; right; exact Hx).
  pose proof (H a (or_introl eq_refl)) as Ha. unfold holds. destruct (ph a); cbn [length]; lia.
Qed.

Theorem worker_bound q0 pop W s : QInv q0 pop W s -> nrunning s <= W /\ workers s + nrunning s = W.
Proof. intros [_ _ Hw]. split; lia. Qed.

Theorem group_bound q0 pop W s : QInv q0 pop W s -> nholding s * pop + length (queue s) = length q0.
Proof.
  intros [Hc Hl _]. apply Permutation_length in Hc. rewrite app_length in Hc. unfold held in Hc. rewrite (held_length pop) in Hc by exact Hl.
  unfold nholding. lia.
Qed.
