(* Consequences of the invariant of the extended mechanism: no underflow, disjointness, worker bound per submit,
   progress, starvation when pop > |queue| (F51), zombies of the thread backend (F52), refinement of [qstep]. *)
From Coq Require Import List ZArith Bool Arith Lia Permutation.
Import ListNotations.
Require Import DH.Common.ListSet DH.C17_Queue.Model DH.C17_Queue.Lemmas DH.C17_Queue.Lemmas2 DH.C17_Queue.Lemmas5.

(* ---------- disjointness ---------- *)
Theorem xdisjoint q0 pop W s : NoDup q0 -> XInv q0 pop W s -> forall i j x, i <> j -> i < length (xjobs s) -> j < length (xjobs s) ->
  In x (xholds (xget s i)) -> In x (xholds (xget s j)) -> False.
Proof.
  intros Hnd H i j x Hne Hi Hj Hxi Hxj. pose proof (x_cons _ _ _ _ H) as Hc.
  assert (Hh : NoDup (xheld s)).
  { apply (NoDup_app_r (xqueue s)). eapply Permutation_NoDup; [apply Permutation_sym; exact Hc| exact Hnd]. }
  unfold xget in *. destruct (Nat.lt_ge_cases i j) as [L|L].
  - eapply (flat_map_nodup_disjoint xholds (xjobs s) i j); eauto.
  - eapply (flat_map_nodup_disjoint xholds (xjobs s) j i); eauto. lia.
Qed.

(* on the serial backend a cancelled run-function is not executing any more: no zombies *)
Definition noz (s : xs) : Prop := forall x, In x (xjobs s) -> xph x <> XZombie.

Lemma noz_step pop W s e : noz s -> noz (xstep pop W false s e).
Proof.
  intros H. unfold xstep. destruct (xerr s); [exact H|]. destruct (negb (xenabled s e)); [exact H|].
  destruct e as [k|j|j|j|j|j| |j]; unfold noz, xreturn; cbn [xjobs].
  - intros x Hx. apply in_app_or in Hx as [Hx|Hx]; [apply H, Hx|]. apply repeat_spec in Hx. subst. cbn. congruence.
  - destruct (length (xqueue s) <? pop); cbn [xjobs]; [exact H|]. intros x Hx. apply in_setn in Hx as [->|Hx]; [cbn; congruence| apply H, Hx].
  - intros x Hx. apply in_setn in Hx as [->|Hx]; [cbn; congruence| apply H, Hx].
  - destruct (xbusy s <? W); cbn [xjobs]; [|exact H]. intros x Hx. apply in_setn in Hx as [->|Hx]; [cbn; congruence| apply H, Hx].
  - intros x Hx. apply in_setn in Hx as [->|Hx]; [cbn; congruence| apply H, Hx].
  - intros x Hx. apply in_setn in Hx as [->|Hx]; [cbn; congruence| apply H, Hx].
  - intros x Hx. apply in_map_iff in Hx as (y & <- & Hy). specialize (H y Hy). unfold xcancel. destruct (xph y) eqn:E; cbn; congruence.
  - intros x Hx. apply in_setn in Hx as [->|Hx]; [cbn; congruence| apply H, Hx].
Qed.

Lemma noz_run pop W sched : forall s, noz s -> noz (xrun pop W false s sched).
Proof. unfold xrun. induction sched as [|e t IH]; intros s H; cbn [fold_left]; [exact H| apply IH, noz_step, H]. Qed.

Theorem xexec_disjoint_serial q0 pop W s : NoDup q0 -> XInv q0 pop W s -> noz s -> forall i j x, i <> j ->
  i < length (xjobs s) -> j < length (xjobs s) -> In x (xexec (xget s i)) -> In x (xexec (xget s j)) -> False.
Proof.
  intros Hnd H Hz i j x Hne Hi Hj Hxi Hxj.
  assert (Sub : forall k, k < length (xjobs s) -> In x (xexec (xget s k)) -> In x (xholds (xget s k))).
  { intros k Hk. pose proof (Hz (xget s k) (nth_In _ _ Hk)) as Z. unfold xexec, xholds. destruct (xph (xget s k)) eqn:E; cbn; tauto. }
  eapply (xdisjoint q0 pop W s Hnd H i j x); eauto.
Qed.

(* thread backend: close() while a run-function is executing, then the evaluator is used again: the resource of the
   cancelled job is handed to a new job while the old thread still executes with it (F52) *)
Theorem zombie_shares_refuted :
  let s := xrun 1 2 true (xinit 1 [100]%Z) [XSubmit 1; XTake 0; XRun 0; XStart 0; XClose; XSubmit 1; XTake 1; XRun 1; XStart 1] in
  xerr s = false /\ map xph (xjobs s) = [XZombie; XRunning] /\ xexec (xget s 0) = [100]%Z /\ xexec (xget s 1) = [100]%Z.
Proof. vm_compute. auto. Qed.

(* ---------- workers ---------- *)
Theorem xworker_bound q0 pop W s : XInv q0 pop W s -> forall g, g < length (xsems s) -> xnrun s g <= W /\ nth g (xsems s) 0 + xnrun s g = W.
Proof. intros H g Hg. pose proof (x_sem _ _ _ _ H g Hg). lia. Qed.

(* every submit() installs a fresh worker semaphore: with num_workers = 1 two jobs of two submits run together (F21) *)
Theorem worker_bound_across_submits_refuted :
  let s := xrun 1 1 false (xinit 1 [1; 2]%Z) [XSubmit 1; XTake 0; XRun 0; XSubmit 1; XTake 1; XRun 1] in
  map xph (xjobs s) = [XRunning; XRunning] /\ map xres (xjobs s) = [[1]; [2]]%Z.
Proof. vm_compute. auto. Qed.

(* thread backend: the pool bounds the run-functions that execute, zombies included, also across submits *)
Lemma lsum_ext {A} (f g : A -> nat) l : (forall x, In x l -> f x = g x) -> lsum f l = lsum g l.
Proof. unfold lsum. induction l as [|a l IH]; intros H; cbn; [reflexivity|]. rewrite (H a (or_introl eq_refl)), IH; [reflexivity|]. intros x Hx. apply H. right. exact Hx. Qed.

Lemma pool_step pop W s e : xbusy s <= W -> xbusy (xstep pop W true s e) <= W.
Proof.
  intros H. unfold xstep. destruct (xerr s); [exact H|]. destruct (xenabled s e) eqn:En; cbn [negb]; [|exact H].
  rewrite !xbusy_lsum in *. destruct e as [k|j|j|j|j|j| |j]; unfold xreturn; cbn [xjobs].
  - rewrite lsum_app, (lsum_zero ibusy (repeat _ k)); [lia|]. intros x Hx. apply repeat_spec in Hx. subst. reflexivity.
  - destruct (xenabled_take _ _ En) as (Hj & Hph & _). destruct (length (xqueue s) <? pop); cbn [xjobs]; [exact H|].
    pose proof (lsum_setn ibusy xdflt (xjobs s) j (mkXJob XHolding (firstn pop (xqueue s)) (length (xsems s) - 1)) Hj) as P.
    fold (xget s j) in P. unfold ibusy at 1 3 in P. rewrite Hph in P. cbn in P. unfold lsum in *. lia.
  - destruct (xenabled_run _ _ En) as (Hj & Hph & _).
    pose proof (lsum_setn ibusy xdflt (xjobs s) j (mkXJob XQueued (xres (xget s j)) (xgen (xget s j))) Hj) as P.
    fold (xget s j) in P. unfold ibusy at 1 3 in P. rewrite Hph in P. cbn in P. unfold lsum in *. lia.
  - destruct (xenabled_start _ _ En) as (Hj & Hph). destruct (lsum ibusy (xjobs s) <? W) eqn:EB; cbn [xjobs]; [|exact H].
    apply Nat.ltb_lt in EB.
    pose proof (lsum_setn ibusy xdflt (xjobs s) j (mkXJob XRunning (xres (xget s j)) (xgen (xget s j))) Hj) as P.
    fold (xget s j) in P. unfold ibusy at 1 3 in P. rewrite Hph in P. cbn in P. unfold lsum in *. lia.
  - destruct (xenabled_finish _ _ En) as (Hj & Hph).
    pose proof (lsum_setn ibusy xdflt (xjobs s) j (mkXJob XDone (xres (xget s j)) (xgen (xget s j))) Hj) as P.
    fold (xget s j) in P. unfold ibusy at 1 3 in P. rewrite Hph in P. cbn in P. unfold lsum in *. lia.
  - destruct (xenabled_finish _ _ En) as (Hj & Hph).
    pose proof (lsum_setn ibusy xdflt (xjobs s) j (mkXJob XFailed (xres (xget s j)) (xgen (xget s j))) Hj) as P.
    fold (xget s j) in P. unfold ibusy at 1 3 in P. rewrite Hph in P. cbn in P. unfold lsum in *. lia.
  - rewrite lsum_map. rewrite (lsum_ext _ ibusy); [exact H|]. intros x _. unfold xcancel, ibusy. destruct (xph x) eqn:E; cbn; rewrite ?E; reflexivity.
  - destruct (xenabled_zombie _ _ En) as (Hj & Hph).
    pose proof (lsum_setn ibusy xdflt (xjobs s) j (mkXJob XCancelled (xres (xget s j)) (xgen (xget s j))) Hj) as P.
    fold (xget s j) in P. unfold ibusy at 1 3 in P. rewrite Hph in P. cbn in P. unfold lsum in *. lia.
Qed.

Theorem pool_bound pop W q0 sched : xbusy (xrun pop W true (xinit pop q0) sched) <= W.
Proof.
  assert (H0 : xbusy (xinit pop q0) <= W) by (cbn; lia). revert H0. generalize (xinit pop q0). unfold xrun.
  induction sched as [|e t IH]; intros s H; cbn [fold_left]; [exact H| apply IH, pool_step, H].
Qed.

(* ---------- progress ---------- *)
Lemma existsb_seq_false (f : nat -> bool) n : existsb f (seq 0 n) = false -> forall j, j < n -> f j = false.
Proof.
  intros H j Hj. destruct (f j) eqn:E; [|reflexivity]. assert (existsb f (seq 0 n) = true); [|congruence].
  apply existsb_exists. exists j. split; [apply in_seq; lia| exact E].
Qed.

Ltac pick_enabled j n :=
  apply (existsb_seq_intro _ _ j); [lia|]; cbn [xenabled]; fold n; replace (j <? n) with true by (symmetry; apply Nat.ltb_lt; lia).

Theorem xprogress q0 pop W s : XInv q0 pop W s -> 1 <= pop -> pop <= length q0 -> 1 <= W ->
  existsb xunfinished (xjobs s) = true -> xsome_enabled W s = true.
Proof.
  intros H Hp1 Hp2 HW Hun. unfold xsome_enabled. set (n := length (xjobs s)).
  assert (Hin : forall x, In x (xjobs s) -> exists j, j < n /\ xget s j = x).
  { intros x Hx. apply (In_nth _ _ xdflt) in Hx as (j & Hj & Ex). exists j. split; assumption. }
  destruct (existsb (fun j => match xph (xget s j) with XRunning => true | _ => false end) (seq 0 n)) eqn:ER.
  { apply existsb_exists in ER as [j [Hj Ej]]. apply in_seq in Hj. pick_enabled j n.
    destruct (xph (xget s j)); try discriminate. cbn. rewrite ?orb_true_r. reflexivity. }
  pose proof (existsb_seq_false _ _ ER) as NoRun.
  destruct (existsb (fun j => match xph (xget s j) with XZombie => true | _ => false end) (seq 0 n)) eqn:EZ.
  { apply existsb_exists in EZ as [j [Hj Ej]]. apply in_seq in Hj. pick_enabled j n.
    destruct (xph (xget s j)); try discriminate. cbn. rewrite ?orb_true_r. reflexivity. }
  pose proof (existsb_seq_false _ _ EZ) as NoZ.
  assert (Hb : xbusy s = 0).
  { rewrite xbusy_lsum. apply lsum_zero. intros x Hx. destruct (Hin x Hx) as (j & Hj & <-). specialize (NoRun j Hj). specialize (NoZ j Hj). cbn beta in *.
    unfold ibusy. destruct (xph (xget s j)); try reflexivity; congruence. }
  destruct (existsb (fun j => match xph (xget s j) with XQueued => true | _ => false end) (seq 0 n)) eqn:EQ.
  { apply existsb_exists in EQ as [j [Hj Ej]]. apply in_seq in Hj. pick_enabled j n.
    destruct (xph (xget s j)); try discriminate. rewrite Hb. replace (0 <? W) with true by (symmetry; apply Nat.ltb_lt; lia). cbn. rewrite ?orb_true_r. reflexivity. }
  pose proof (existsb_seq_false _ _ EQ) as NoQ.
  assert (Hr0 : forall g, xnrun s g = 0).
  { intros g. unfold xnrun. apply lsum_zero. intros x Hx. destruct (Hin x Hx) as (j & Hj & <-). specialize (NoRun j Hj). specialize (NoQ j Hj). cbn beta in *.
    unfold irun. destruct (xph (xget s j)); try reflexivity; congruence. }
  destruct (existsb (fun j => match xph (xget s j) with XHolding => true | _ => false end) (seq 0 n)) eqn:EH.
  { apply existsb_exists in EH as [j [Hj Ej]]. apply in_seq in Hj. pick_enabled j n.
    destruct (xph (xget s j)) eqn:Eph; try discriminate.
    assert (Hg : xgen (xget s j) < length (xsems s)).
    { apply (x_gen _ _ _ _ H); [apply nth_In; fold n; lia| unfold ihold; rewrite Eph; lia]. }
    pose proof (x_sem _ _ _ _ H _ Hg) as Hs. rewrite Hr0 in Hs.
    replace (0 <? nth (xgen (xget s j)) (xsems s) 0) with true by (symmetry; apply Nat.ltb_lt; lia). cbn. rewrite ?orb_true_r. reflexivity. }
  pose proof (existsb_seq_false _ _ EH) as NoHold.
  assert (Hnh : xnhold s = 0).
  { unfold xnhold. apply lsum_zero. intros x Hx. destruct (Hin x Hx) as (j & Hj & <-).
    specialize (NoRun j Hj). specialize (NoQ j Hj). specialize (NoHold j Hj). cbn beta in *. unfold ihold. destruct (xph (xget s j)); try reflexivity; congruence. }
  pose proof (x_perm _ _ _ _ H) as Hperm. rewrite Hnh in Hperm.
  assert (0 < length q0 / pop) by (apply Nat.div_str_pos; lia).
  apply existsb_exists in Hun as (x & Hx & Ux). destruct (Hin x Hx) as (j & Hj & <-).
  specialize (NoRun j Hj). specialize (NoQ j Hj). specialize (NoHold j Hj). cbn beta in *. pick_enabled j n. unfold xunfinished in Ux.
  destruct (xph (xget s j)); try discriminate.
  replace (0 <? xperm s) with true by (symmetry; apply Nat.ltb_lt; lia). reflexivity.
Qed.

(* ---------- pop larger than the queue: nothing ever runs (F51, pinned constructor) ---------- *)
Definition starved (q0 : list Z) (s : xs) : Prop :=
  xqueue s = q0 /\ xperm s = 0 /\ forall x, In x (xjobs s) -> xph x = XWaiting \/ xph x = XCancelled.

Lemma starved_step q0 pop W thr s e : length q0 < pop -> starved q0 s -> starved q0 (xstep pop W thr s e).
Proof.
  intros Hlt (Hq & Hp & Hj). unfold xstep. destruct (xerr s); [repeat split; assumption|].
  destruct (xenabled s e) eqn:En; cbn [negb]; [|repeat split; assumption].
  assert (Hph : forall j, j < length (xjobs s) -> xph (xget s j) = XWaiting \/ xph (xget s j) = XCancelled).
  { intros j Hjl. apply Hj. apply nth_In. exact Hjl. }
  destruct e as [k|j|j|j|j|j| |j].
  - repeat split; cbn [xqueue xperm xjobs]; try assumption. intros x Hx. apply in_app_or in Hx as [Hx|Hx]; [apply Hj, Hx|].
    apply repeat_spec in Hx. subst. left. reflexivity.
  - destruct (xenabled_take _ _ En) as (_ & _ & X). lia.
  - destruct (xenabled_run _ _ En) as (L & X & _). destruct (Hph j L); congruence.
  - destruct (xenabled_start _ _ En) as (L & X). destruct (Hph j L); congruence.
  - destruct (xenabled_finish _ _ En) as (L & X). destruct (Hph j L); congruence.
  - destruct (xenabled_finish _ _ En) as (L & X). destruct (Hph j L); congruence.
  - assert (Hh : xheld s = []).
    { unfold xheld. apply flat_map_nil. intros x Hx. unfold xholds. destruct (Hj x Hx) as [E|E]; rewrite E; reflexivity. }
    assert (Hr : xreturned thr s = []) by (apply Permutation_nil; rewrite <- Hh; apply Permutation_sym, xreturned_perm).
    rewrite Hr, app_nil_r. repeat split; cbn [xqueue xperm xjobs].
    + exact Hq.
    + rewrite Hq. apply Nat.div_small. exact Hlt.
    + intros x Hx. apply in_map_iff in Hx as (y & <- & Hy). unfold xcancel. destruct (Hj y Hy) as [E|E]; rewrite E; cbn; auto.
  - destruct (xenabled_zombie _ _ En) as (L & X). destruct (Hph j L); congruence.
Qed.

Theorem pop_too_large_starves q0 pop W thr : length q0 < pop -> forall sched,
  starved q0 (xrun pop W thr (xinit pop q0) sched).
Proof.
  intros Hlt sched. assert (H0 : starved q0 (xinit pop q0)).
  { repeat split; cbn; [apply Nat.div_small; exact Hlt| tauto]. }
  revert H0. generalize (xinit pop q0). unfold xrun. induction sched as [|e t IH]; intros s H; cbn [fold_left]; [exact H|].
  apply IH. apply starved_step; assumption.
Qed.

(* ---------- the guard of [qstep] is the group semaphore ---------- *)
Lemma take_guard_equiv q0 pop W s : XInv q0 pop W s -> 1 <= pop -> (0 < xperm s <-> pop <= length (xqueue s)).
Proof.
  intros H Hp. split; [apply (permit_means_resources q0 pop W s H)|]. intros Hq.
  pose proof (xqueue_length _ _ _ _ H) as Hl. pose proof (x_perm _ _ _ _ H) as Hperm.
  assert (S (xnhold s) <= length q0 / pop); [|lia]. apply Nat.div_le_lower_bound; [lia|]. lia.
Qed.

Lemma map_setn_setj : forall (l : list xjob) j y, map projjob (setn l j y) = setj (map projjob l) j (projjob y).
Proof. induction l as [|a l IH]; intros [|j] y; cbn; try reflexivity. rewrite IH. reflexivity. Qed.

Lemma getj_proj s j : getj (proj s) j = projjob (xget s j).
Proof. unfold getj, proj, xget. cbn [jobs]. change (mkJob Finished []) with (projjob xdflt). apply map_nth. Qed.

Lemma refine_step q0 pop W s e : XInv q0 pop W s -> length (xsems s) = 1 -> 1 <= pop ->
  proj (xstep pop W false s (emb e)) = qstep pop (proj s) e /\ length (xsems (xstep pop W false s (emb e))) = 1.
Proof.
  intros H Hs1 Hp. unfold xstep, qstep. rewrite (x_err _ _ _ _ H).
  assert (Hlen : length (jobs (proj s)) = length (xjobs s)) by (cbn; apply map_length).
  destruct e as [j|j|j]; cbn [emb].
  - (* take *)
    assert (Een : enabled pop (proj s) (Take j) = xenabled s (XTake j)).
    { cbn [enabled xenabled]. rewrite Hlen, getj_proj. cbn [projjob ph]. f_equal; [f_equal; destruct (xph (xget s j)); reflexivity|].
      pose proof (take_guard_equiv _ _ _ _ H Hp) as G. cbn [proj queue].
      destruct (0 <? xperm s) eqn:E1; destruct (pop <=? length (xqueue s)) eqn:E2; try reflexivity.
      - apply Nat.ltb_lt in E1. apply Nat.leb_gt in E2. apply G in E1. lia.
      - apply Nat.ltb_ge in E1. apply Nat.leb_le in E2. apply G in E2. lia. }
    rewrite Een. destruct (xenabled s (XTake j)) eqn:En; cbn [negb]; [|split; [reflexivity| exact Hs1]].
    destruct (xenabled_take _ _ En) as (Hj & Hph & Hperm). pose proof (permit_means_resources _ _ _ _ H Hperm) as Hq.
    replace (length (xqueue s) <? pop) with false by (symmetry; apply Nat.ltb_ge; exact Hq).
    split; [|exact Hs1]. unfold proj. cbn [xqueue xjobs xsems queue jobs workers]. rewrite map_setn_setj. reflexivity.
  - (* run *)
    assert (Hg : xph (xget s j) = XHolding -> j < length (xjobs s) -> xgen (xget s j) = 0).
    { intros E L. assert (xgen (xget s j) < length (xsems s)); [|lia]. apply (x_gen _ _ _ _ H); [apply nth_In; exact L| unfold ihold; rewrite E; lia]. }
    assert (Een : enabled pop (proj s) (Run j) = xenabled s (XRun j)).
    { cbn [enabled xenabled]. rewrite Hlen, getj_proj. cbn [projjob ph proj workers].
      destruct (j <? length (xjobs s)) eqn:EL; [|reflexivity]. apply Nat.ltb_lt in EL. cbn [andb].
      destruct (xph (xget s j)) eqn:E; try reflexivity. rewrite (Hg eq_refl EL). reflexivity. }
    rewrite Een. destruct (xenabled s (XRun j)) eqn:En; cbn [negb]; [|split; [reflexivity| exact Hs1]].
    destruct (xenabled_run _ _ En) as (Hj & Hph & Hw). rewrite (Hg Hph Hj) in *.
    split; [|cbn [xsems]; rewrite setn_length; exact Hs1]. rewrite getj_proj. unfold proj. cbn [xqueue xjobs xsems queue jobs workers].
    rewrite map_setn_setj. rewrite nth_setn by lia. cbn [Nat.eqb projjob res xph xres]. reflexivity.
  - (* finish *)
    assert (Een : enabled pop (proj s) (Finish j) = xenabled s (XFinish j)).
    { cbn [enabled xenabled]. rewrite Hlen, getj_proj. cbn [projjob ph]. rewrite andb_true_r. f_equal. destruct (xph (xget s j)); reflexivity. }
    rewrite Een. destruct (xenabled s (XFinish j)) eqn:En; cbn [negb]; [|split; [reflexivity| exact Hs1]].
    destruct (xenabled_finish _ _ En) as (Hj & Hph).
    assert (Hg : xgen (xget s j) = 0).
    { assert (xgen (xget s j) < length (xsems s)); [|lia]. apply (x_gen _ _ _ _ H); [apply nth_In; exact Hj| unfold ihold; rewrite Hph; lia]. }
    unfold xreturn. rewrite Hg. split; [|cbn [xsems]; rewrite setn_length; exact Hs1]. rewrite getj_proj. unfold proj. cbn [xqueue xjobs xsems queue jobs workers].
    rewrite map_setn_setj. rewrite nth_setn by lia. cbn [Nat.eqb projjob res xph xres]. reflexivity.
Qed.

Theorem refine_run q0 pop W : 1 <= pop -> forall sched s, XInv q0 pop W s -> length (xsems s) = 1 ->
  proj (xrun pop W false s (map emb sched)) = qrun pop (proj s) sched.
Proof.
  intros Hp. unfold xrun, qrun. induction sched as [|e t IH]; intros s H Hs; cbn [map fold_left]; [reflexivity|].
  destruct (refine_step q0 pop W s e H Hs Hp) as (E & L). rewrite <- E. apply IH; [apply xinv_step, H| exact L].
Qed.

Theorem ext_refines_mechanism q0 pop W n sched : 1 <= pop ->
  proj (xrun pop W false (xstep pop W false (xinit pop q0) (XSubmit n)) (map emb sched)) = qrun pop (qinit q0 n W) sched.
Proof.
  intros Hp. rewrite (refine_run q0 pop W Hp); [|apply xinv_step, xinv_init| reflexivity].
  f_equal. unfold proj, qinit. cbn. f_equal. induction n as [|n IH]; cbn; [reflexivity| rewrite IH; reflexivity].
Qed.
