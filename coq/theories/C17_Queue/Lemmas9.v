(* Queues with EQUAL entries (several slots per device: [0; 0; 1; 1]).  Nothing in the models or the oracle assumes distinct
   resources except the disjointness theorems (NoDup q0).  What replaces disjointness is the slot bound: at any time a value
   is in use at most as often as the initial queue contains it, and deque + in use has every value exactly as often. *)
From Coq Require Import List ZArith Bool Arith Lia Permutation.
Import ListNotations.
Require Import DH.C17_Queue.Model DH.C17_Queue.Lemmas DH.C17_Queue.Lemmas2 DH.C17_Queue.Check DH.C17_Queue.Lemmas5.

Lemma perm_count_split (q0 a b : list Z) v : Permutation (a ++ b) q0 ->
  count_occ Z.eq_dec a v + count_occ Z.eq_dec b v = count_occ Z.eq_dec q0 v.
Proof. intros H. apply (Permutation_count_occ Z.eq_dec) with (x := v) in H. rewrite <- H, count_occ_app. reflexivity. Qed.

Theorem slot_bound q0 pop W s v : QInv q0 pop W s ->
  count_occ Z.eq_dec (queue s) v + count_occ Z.eq_dec (held s) v = count_occ Z.eq_dec q0 v.
Proof. intros H. apply perm_count_split, (q_cons _ _ _ _ H). Qed.

Theorem xslot_bound q0 pop W s v : XInv q0 pop W s ->
  count_occ Z.eq_dec (xqueue s) v + count_occ Z.eq_dec (xheld s) v = count_occ Z.eq_dec q0 v.
Proof. intros H. apply perm_count_split, (x_cons _ _ _ _ H). Qed.

Theorem oracle_slot_bound pop q0 tr s' v : replay_obs pop (mkA q0 [] []) 0 tr = (None, s') ->
  count_occ Z.eq_dec (free s') v + count_occ Z.eq_dec (aheld s') v = count_occ Z.eq_dec q0 v.
Proof.
  intros H. apply perm_count_split. eapply replay_conserves; [|exact H]. cbn. rewrite app_nil_r. reflexivity.
Qed.
