(* The acceptance oracle raises no alarm on any behaviour of the EXTENDED mechanism on the serial backend (waves,
   run-functions that raise, close() and reuse): simulation between [xstep] and [accept_obs].  On the thread backend the
   observation trace of the zombie schedule is rejected with clause 2 (a resource that is not free): F52. *)
From Coq Require Import List ZArith Bool Arith Lia Permutation.
Import ListNotations.
Require Import DH.Common.ListSet DH.C17_Queue.Model DH.C17_Queue.Check DH.C17_Queue.Lemmas3 DH.C17_Queue.Lemmas5 DH.C17_Queue.Lemmas6.

Lemma replay_obs_app pop : forall t1 t2 a i a1, replay_obs pop a i t1 = (None, a1) ->
  replay_obs pop a i (t1 ++ t2) = replay_obs pop a1 (i + length t1) t2.
Proof.
  induction t1 as [|e t1 IH]; intros t2 a i a1 H; cbn [replay_obs app length] in *.
  - injection H as <-. rewrite Nat.add_0_r. reflexivity.
  - destruct (accept_obs pop a e) as [a2|c]; [|discriminate]. rewrite (IH t2 a2 (S i) a1 H). f_equal. lia.
Qed.

(* serial backend: no zombies, no job waiting for a pool thread *)
Definition nqz (s : xs) : Prop := forall x, In x (xjobs s) -> xph x <> XZombie /\ xph x <> XQueued.

Lemma nqz_step pop W s e : nqz s -> nqz (xstep pop W false s e).
Proof.
  intros H. unfold xstep. destruct (xerr s); [exact H|]. destruct (negb (xenabled s e)); [exact H|].
  destruct e as [k|j|j|j|j|j| |j]; unfold nqz, xreturn; cbn [xjobs].
  - intros x Hx. apply in_app_or in Hx as [Hx|Hx]; [apply H, Hx|]. apply repeat_spec in Hx. subst. cbn. split; congruence.
  - destruct (length (xqueue s) <? pop); cbn [xjobs]; [exact H|]. intros x Hx. apply in_setn in Hx as [->|Hx]; [cbn; split; congruence| apply H, Hx].
  - intros x Hx. apply in_setn in Hx as [->|Hx]; [cbn; split; congruence| apply H, Hx].
  - destruct (xbusy s <? W); cbn [xjobs]; [|exact H]. intros x Hx. apply in_setn in Hx as [->|Hx]; [cbn; split; congruence| apply H, Hx].
  - intros x Hx. apply in_setn in Hx as [->|Hx]; [cbn; split; congruence| apply H, Hx].
  - intros x Hx. apply in_setn in Hx as [->|Hx]; [cbn; split; congruence| apply H, Hx].
  - intros x Hx. apply in_map_iff in Hx as (y & <- & Hy). destruct (H y Hy) as (Z & Q). unfold xcancel. destruct (xph y) eqn:E; cbn; rewrite ?E; split; congruence.
  - intros x Hx. apply in_setn in Hx as [->|Hx]; [cbn; split; congruence| apply H, Hx].
Qed.

Definition done_phase (p : xphase) : Prop := p = XDone \/ p = XFailed \/ p = XCancelled.

Record XSim (s : xs) (a : ast) : Prop := {
  xs_free : Permutation (free a) (xqueue s ++ flat_map xhold1 (xjobs s));
  xs_act : forall j, lookupn j (active a) = match xph (xget s j) with XRunning => Some (xres (xget s j)) | _ => None end;
  xs_end : forall j r, lookupn j (ended a) = Some r -> j < length (xjobs s) /\ done_phase (xph (xget s j));
  xs_nd : NoDup (map fst (active a)) }.

Lemma xsim_init pop q : XSim (xinit pop q) (mkA q [] []).
Proof.
  constructor; unfold xinit, xget; cbn [free active ended xqueue xjobs flat_map lookupn map].
  - rewrite app_nil_r. reflexivity.
  - intros j. destruct j; reflexivity.
  - intros j r H. discriminate.
  - constructor.
Qed.

Lemma xget_setn s j y k q p sm e : j < length (xjobs s) ->
  xget (mkX q (setn (xjobs s) j y) p sm e) k = if Nat.eqb k j then y else xget s k.
Proof. intros Hj. unfold xget. cbn [xjobs]. apply nth_setn, Hj. Qed.

Lemma nth_repeat_cases {A} (x d : A) : forall k i, nth i (repeat x k) d = x \/ nth i (repeat x k) d = d.
Proof. induction k as [|k IH]; intros [|i]; cbn; auto. Qed.

Lemma flat_map_filter_idx {A B} (f : A -> list B) d : forall l,
  flat_map (fun j => f (nth j l d)) (seq 0 (length l)) = flat_map f l.
Proof.
  induction l as [|a l IH]; cbn [length seq flat_map]; [reflexivity|]. cbn [nth]. f_equal.
  rewrite <- seq_shift, flat_map_concat_map, map_map, <- flat_map_concat_map. exact IH.
Qed.

(* ---------- the batch of cancelled run-functions at close() ---------- *)
Lemma close_batch pop s a : XSim s a -> forall m i, exists a',
  replay_obs pop a i (flat_map (fun j => match xph (xget s j) with XRunning => [ObsEnd j] | _ => [] end) (seq 0 m)) = (None, a') /\
  free a' = free a ++ flat_map (fun j => xrun1 (xget s j)) (seq 0 m) /\
  (forall j, lookupn j (active a') = if Nat.ltb j m then None else lookupn j (active a)) /\
  (forall j r, lookupn j (ended a') = Some r -> lookupn j (ended a) = Some r \/ (j < m /\ xph (xget s j) = XRunning)) /\
  NoDup (map fst (active a')).
Proof.
  intros [Hf Ha He Hn]. induction m as [|m IH]; intros i.
  - exists a. cbn [seq flat_map replay_obs]. rewrite app_nil_r. repeat split; auto.
  - destruct (IH i) as (a1 & E1 & F1 & A1 & D1 & N1). rewrite seq_S, !flat_map_app. cbn [Nat.add flat_map]. rewrite !app_nil_r.
    rewrite (replay_obs_app pop _ _ a i a1 E1). unfold xrun1 at 2. destruct (xph (xget s m)) eqn:Eph;
      try (exists a1; cbn [replay_obs]; rewrite app_nil_r; split; [reflexivity|]; split; [exact F1|]; split; [|split; [|exact N1]];
           [intros j; rewrite A1; destruct (Nat.eq_dec j m) as [->|Hne];
              [rewrite Nat.ltb_irrefl; replace (m <? S m) with true by (symmetry; apply Nat.ltb_lt; lia); rewrite Ha, Eph; reflexivity
              | destruct (j <? m) eqn:X; [apply Nat.ltb_lt in X; replace (j <? S m) with true by (symmetry; apply Nat.ltb_lt; lia); reflexivity
                                         | apply Nat.ltb_ge in X; replace (j <? S m) with false by (symmetry; apply Nat.ltb_ge; lia); reflexivity]]
           | intros j r H; destruct (D1 j r H) as [X|[X Y]]; [left; exact X| right; split; [lia| exact Y]]]).
    (* job m is running: its run-function is cancelled and logs its end *)
    assert (Lm : lookupn m (active a1) = Some (xres (xget s m))).
    { rewrite A1, Nat.ltb_irrefl, Ha, Eph. reflexivity. }
    cbn [replay_obs accept_obs]. rewrite Lm. eexists. split; [reflexivity|]. cbn [free active ended].
    split; [rewrite F1, app_assoc; reflexivity|]. split; [|split].
    + intros j. destruct (Nat.eq_dec j m) as [->|Hne].
      * replace (m <? S m) with true by (symmetry; apply Nat.ltb_lt; lia). apply lookupn_removen_same, N1.
      * rewrite lookupn_removen_other by congruence. rewrite A1.
        destruct (j <? m) eqn:X; [apply Nat.ltb_lt in X; replace (j <? S m) with true by (symmetry; apply Nat.ltb_lt; lia); reflexivity
                                 | apply Nat.ltb_ge in X; replace (j <? S m) with false by (symmetry; apply Nat.ltb_ge; lia); reflexivity].
    + intros j r H. cbn [lookupn] in H. destruct (Nat.eqb j m) eqn:X.
      * apply Nat.eqb_eq in X. subst. right. split; [lia| exact Eph].
      * destruct (D1 j r H) as [Y|[Y Z]]; [left; exact Y| right; split; [lia| exact Z]].
    + apply removen_nodup, N1.
Qed.

(* ---------- one event ---------- *)
Lemma xsim_return q0 pop W s a j p i : XInv q0 pop W s -> XSim s a -> xenabled s (XFinish j) = true -> (p = XDone \/ p = XFailed) ->
  exists a', replay_obs pop a i [ObsEnd j] = (None, a') /\ XSim (xreturn s j p) a'.
Proof.
  intros HI [Hf Ha He Hn] En Hp. destruct (xenabled_finish _ _ En) as (Hj & Hph).
  set (x := xget s j) in *. set (y := mkXJob p (xres x) (xgen x)).
  assert (Hy1 : xhold1 y = []) by (destruct Hp as [-> | ->]; reflexivity).
  assert (Hy2 : xph y <> XRunning) by (destruct Hp as [-> | ->]; cbn; congruence).
  cbn [replay_obs accept_obs]. rewrite Ha. fold x. rewrite Hph. eexists. split; [reflexivity|].
  unfold xreturn. fold x. fold y. constructor; cbn [free active ended xqueue xjobs].
  - pose proof (flat_map_setn xhold1 xdflt (xjobs s) j y Hj) as P. fold (xget s j) in P. fold x in P.
    rewrite Hy1 in P. unfold xhold1 at 1 in P. rewrite Hph in P. cbn [app] in P. rewrite P, Hf. rewrite <- !app_assoc.
    apply Permutation_app_head. apply Permutation_app_comm.
  - intros k. rewrite xget_setn by exact Hj. destruct (Nat.eqb k j) eqn:E.
    + apply Nat.eqb_eq in E. subst. destruct (xph y) eqn:Ey; try congruence; apply lookupn_removen_same, Hn.
    + apply Nat.eqb_neq in E. rewrite lookupn_removen_other by congruence. apply Ha.
  - intros k r H. cbn [lookupn] in H. rewrite setn_length, xget_setn by exact Hj. destruct (Nat.eqb k j) eqn:E.
    + apply Nat.eqb_eq in E. subst. split; [exact Hj|]. unfold done_phase. destruct Hp as [-> | ->]; cbn; auto.
    + apply He in H. exact H.
  - apply removen_nodup, Hn.
Qed.

Lemma xsim_step q0 pop W s a e i : XInv q0 pop W s -> nqz s -> XSim s a ->
  exists a', replay_obs pop a i (xobs1 W false s e) = (None, a') /\ XSim (xstep pop W false s e) a'.
Proof.
  intros HI HZ HS. unfold xobs1, xstep. rewrite (x_err _ _ _ _ HI).
  destruct (xenabled s e) eqn:En; cbn [negb]; [|exists a; split; [reflexivity| exact HS]].
  destruct e as [k|j|j|j|j|j| |j].
  - (* submit *)
    exists a. split; [reflexivity|]. destruct HS as [Hf Ha He Hn].
    assert (Hg : forall j, xph (xget (mkX (xqueue s) (xjobs s ++ repeat (mkXJob XWaiting [] 0) k) (xperm s) (xsems s ++ [W]) false) j) = XRunning ->
                 j < length (xjobs s)).
    { intros j. unfold xget. cbn [xjobs]. destruct (Nat.lt_ge_cases j (length (xjobs s))) as [L|L]; [auto|].
      rewrite app_nth2 by exact L. destruct (nth_repeat_cases (mkXJob XWaiting [] 0) xdflt k (j - length (xjobs s))) as [-> | ->]; cbn; discriminate. }
    constructor; cbn [xqueue xjobs].
    + rewrite flat_map_app, (flat_map_nil xhold1 (repeat _ k)); [rewrite app_nil_r; exact Hf|]. intros x Hx. apply repeat_spec in Hx. subst. reflexivity.
    + intros j. rewrite Ha. destruct (Nat.lt_ge_cases j (length (xjobs s))) as [L|L].
      * unfold xget. cbn [xjobs]. rewrite app_nth1 by exact L. reflexivity.
      * specialize (Hg j). unfold xget in *. cbn [xjobs] in *. rewrite (nth_overflow (xjobs s)) by exact L. cbn.
        destruct (xph (nth j (xjobs s ++ repeat (mkXJob XWaiting [] 0) k) xdflt)); try reflexivity. specialize (Hg eq_refl). lia.
    + intros j r H. destruct (He j r H) as (L & D). rewrite app_length. split; [lia|]. unfold xget in *. cbn [xjobs]. rewrite app_nth1 by exact L. exact D.
    + exact Hn.
  - (* take *)
    destruct (xenabled_take _ _ En) as (Hj & Hph & Hp). pose proof (permit_means_resources _ _ _ _ HI Hp) as Hq.
    replace (length (xqueue s) <? pop) with false by (symmetry; apply Nat.ltb_ge; exact Hq).
    exists a. split; [reflexivity|]. destruct HS as [Hf Ha He Hn]. set (y := mkXJob XHolding (firstn pop (xqueue s)) (length (xsems s) - 1)).
    constructor; cbn [xqueue xjobs].
    + pose proof (flat_map_setn xhold1 xdflt (xjobs s) j y Hj) as P. fold (xget s j) in P. unfold xhold1 at 1 3 in P. rewrite Hph in P.
      cbn [y xph xres app] in P. rewrite P, Hf. rewrite app_assoc. apply Permutation_app_tail.
      rewrite <- (firstn_skipn pop (xqueue s)) at 1. apply Permutation_app_comm.
    + intros k. rewrite xget_setn by exact Hj. rewrite Ha. destruct (Nat.eqb k j) eqn:E; [|reflexivity].
      apply Nat.eqb_eq in E. subst. rewrite Hph. reflexivity.
    + intros k r H. destruct (He k r H) as (L & D). rewrite setn_length, xget_setn by exact Hj. split; [exact L|].
      destruct (Nat.eqb k j) eqn:E; [|exact D]. apply Nat.eqb_eq in E. subst. rewrite Hph in D. destruct D as [D|[D|D]]; discriminate.
    + exact Hn.
  - (* admitted to a worker: the run-function is called *)
    destruct (xenabled_run _ _ En) as (Hj & Hph & Hw). destruct HS as [Hf Ha He Hn].
    set (x := xget s j) in *. set (y := mkXJob XRunning (xres x) (xgen x)).
    assert (Hx : In x (xjobs s)) by (apply nth_In; exact Hj).
    assert (Hlen : length (xres x) = pop).
    { pose proof (x_len _ _ _ _ HI x Hx) as L. unfold len_ok in L. rewrite Hph in L. exact L. }
    pose proof (flat_map_setn xhold1 xdflt (xjobs s) j y Hj) as P. fold (xget s j) in P. fold x in P.
    unfold xhold1 at 1 3 in P. rewrite Hph in P. cbn [y xph app] in P.
    destruct (take_all_of_perm (xres x) (free a) (xqueue s ++ flat_map xhold1 (setn (xjobs s) j y))) as (f & Ef & Pf).
    { rewrite Hf. rewrite <- P. apply Permutation_app_swap_app. }
    assert (Le : lookupn j (ended a) = None).
    { destruct (lookupn j (ended a)) as [r|] eqn:E; [|reflexivity]. destruct (He j r E) as (_ & D). fold x in D. rewrite Hph in D.
      destruct D as [D|[D|D]]; discriminate. }
    cbn [replay_obs accept_obs]. rewrite Ha. fold x. rewrite Hph, Le, Hlen, Nat.eqb_refl. cbn [negb]. rewrite Ef.
    eexists. split; [reflexivity|]. fold y. constructor; cbn [free active ended xqueue xjobs].
    + exact Pf.
    + intros k. cbn [lookupn]. rewrite xget_setn by exact Hj. destruct (Nat.eqb k j) eqn:E; [reflexivity| apply Ha].
    + intros k r H. destruct (He k r H) as (L & D). rewrite setn_length, xget_setn by exact Hj. split; [exact L|].
      destruct (Nat.eqb k j) eqn:E; [|exact D]. apply Nat.eqb_eq in E. subst. fold x in D. rewrite Hph in D. destruct D as [D|[D|D]]; discriminate.
    + cbn [map fst]. constructor; [|exact Hn]. apply lookupn_none_notin. rewrite Ha. fold x. rewrite Hph. reflexivity.
  - (* no job waits for a pool thread on the serial backend *)
    exfalso. destruct (xenabled_start _ _ En) as (Hj & Hph). destruct (HZ (xget s j) (nth_In _ _ Hj)) as (_ & Q). congruence.
  - apply (xsim_return q0 pop W); auto.
  - apply (xsim_return q0 pop W); auto.
  - (* close *)
    destruct (close_batch pop s a HS (length (xjobs s)) i) as (a' & E & F & A & D & N). exists a'. split; [exact E|].
    destruct HS as [Hf Ha He Hn].
    assert (Hmap : forall j, xget (mkX (xqueue s ++ xreturned false s) (map (xcancel false) (xjobs s)) (length (xqueue s ++ xreturned false s) / pop)
                                  (map (fun _ => W) (xsems s)) false) j = xcancel false (xget s j)).
    { intros j. unfold xget. cbn [xjobs]. change xdflt with (xcancel false xdflt) at 1. apply map_nth. }
    constructor; cbn [xqueue xjobs].
    + unfold xget in F. rewrite F. rewrite (flat_map_filter_idx xrun1 xdflt (xjobs s)). unfold xreturned.
      rewrite (flat_map_nil xhold1 (map _ _)); [|intros x Hx; apply in_map_iff in Hx as (y & <- & _); unfold xcancel, xhold1; destruct (xph y) eqn:Ey; cbn; rewrite ?Ey; reflexivity].
      rewrite app_nil_r, Hf, !app_assoc. reflexivity.
    + intros j. rewrite Hmap, A. assert (Hc : xph (xcancel false (xget s j)) <> XRunning).
      { unfold xcancel. destruct (xph (xget s j)) eqn:Ey; cbn; rewrite ?Ey; congruence. }
      destruct (xph (xcancel false (xget s j))) eqn:Ec; try congruence;
        (destruct (j <? length (xjobs s)) eqn:X; [reflexivity|]; apply Nat.ltb_ge in X; rewrite Ha; unfold xget; rewrite nth_overflow by exact X; reflexivity).
    + intros j r H. rewrite map_length, Hmap. destruct (D j r H) as [X|[X Y]].
      * destruct (He j r X) as (L & Dn). split; [exact L|]. unfold xcancel. destruct Dn as [Dn|[Dn|Dn]]; rewrite Dn; unfold done_phase; rewrite Dn; auto.
      * split; [exact X|]. unfold xcancel. rewrite Y. unfold done_phase. cbn. auto.
    + exact N.
  - (* no zombies on the serial backend *)
    exfalso. destruct (xenabled_zombie _ _ En) as (Hj & Hph). destruct (HZ (xget s j) (nth_In _ _ Hj)) as (Q & _). congruence.
Qed.

Theorem xsim_run_all q0 pop W : forall sched s a i, XInv q0 pop W s -> nqz s -> XSim s a ->
  exists a', replay_obs pop a i (xobs_trace pop W false s sched) = (None, a') /\ XSim (xrun pop W false s sched) a'.
Proof.
  induction sched as [|e t IH]; intros s a i HI HZ HS; cbn [xobs_trace xrun fold_left].
  - exists a. split; [reflexivity| exact HS].
  - fold (xrun pop W false (xstep pop W false s e) t).
    destruct (xsim_step q0 pop W s a e i HI HZ HS) as (a1 & E1 & S1). rewrite (replay_obs_app pop _ _ a i a1 E1).
    apply IH; [apply xinv_step, HI| apply nqz_step, HZ| exact S1].
Qed.

Theorem ext_serial_run_is_accepted q0 pop W sched :
  exists a', replay_obs pop (mkA q0 [] []) 0 (xobs_trace pop W false (xinit pop q0) sched) = (None, a') /\
             Permutation (free a') (xqueue (xrun pop W false (xinit pop q0) sched) ++ flat_map xhold1 (xjobs (xrun pop W false (xinit pop q0) sched))).
Proof.
  destruct (xsim_run_all q0 pop W sched (xinit pop q0) (mkA q0 [] []) 0 (xinv_init _ _ _)) as (a' & E & S).
  - intros x [].
  - apply xsim_init.
  - exists a'. split; [exact E| apply (xs_free _ _ S)].
Qed.

(* thread backend: the trace of the zombie schedule is rejected at the start of the second job (event 1), clause 2 *)
Theorem ext_thread_zombie_rejected :
  fst (replay_obs 1 (mkA [100]%Z [] []) 0
        (xobs_trace 1 2 true (xinit 1 [100]%Z) [XSubmit 1; XTake 0; XRun 0; XStart 0; XClose; XSubmit 1; XTake 1; XRun 1; XStart 1]))
  = Some (1, 2).
Proof. vm_compute. reflexivity. Qed.
