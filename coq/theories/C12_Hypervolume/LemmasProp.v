(* C12: the combined statements closed in Property.v *)
From Coq Require Import List ZArith Bool Arith QArith.
Import ListNotations.
Require Import DH.Common.VecOrd DH.C11_Pareto.Model.
Require Import DH.C12_Hypervolume.Model DH.C12_Hypervolume.Lemmas DH.C12_Hypervolume.LemmasGrid
  DH.C12_Hypervolume.LemmasCells DH.C12_Hypervolume.LemmasScale DH.C12_Hypervolume.Check.
Open Scope Z_scope.

Lemma spec_is_cell_count lo ref P : SameLen (length ref) P ->
  hv_spec lo ref P = Z.of_nat (length (filter (fun c => existsb (fun p => wdom p c) P) (cells lo ref)))
  /\ NoDup (cells lo ref)
  /\ (forall c, In c (cells lo ref) <-> Forall2 (fun x r => lo <= x < r) c ref).
Proof. intros H. split; [exact (hv_spec_cells lo ref P H)|]. split; [apply NoDup_cells| apply In_cells]. Qed.

Lemma fast_is_spec lo ref P : SameLen (length ref) P -> Forall (fun r => lo <= r) ref -> Above lo P ->
  hv_fast ref P = hv_spec lo ref P /\ hv_slice ref P = hv_spec lo ref P /\ hv_nd ref P = hv_spec lo ref P.
Proof.
  intros H1 H2 H3. split; [apply hv_fast_is_spec; assumption|].
  split; [apply hv_slice_is_spec; assumption| apply hv_nd_is_spec; assumption].
Qed.

Lemma boundary_zero lo ref P B : SameLen (length ref) P -> SameLen (length ref) B ->
  (forall b, In b B -> exists k, (k < length ref)%nat /\ nth k ref 0 <= nth k b 0) ->
  hv_spec lo ref (P ++ B) = hv_spec lo ref P /\ hv_spec lo ref B = 0.
Proof.
  intros HP HB Hb. split; [exact (hv_boundary lo ref P B HP HB Hb)|].
  rewrite <- (hv_spec_nil lo ref). exact (hv_boundary lo ref [] B (Forall_nil _) HB Hb).
Qed.

Lemma lo_irrelevant lo lo' ref P : SameLen (length ref) P ->
  Forall (fun r => lo <= r) ref -> Above lo P -> Forall (fun r => lo' <= r) ref -> Above lo' P ->
  hv_spec lo ref P = hv_spec lo' ref P.
Proof.
  intros H1 H2 H3 H4 H5. rewrite <- (hv_slice_is_spec lo ref P H1 H2 H3). apply hv_slice_is_spec; assumption.
Qed.

Lemma oracle_le_eq n1 d1 n2 d2 :
  (ok_le n1 d1 n2 d2 = true <-> 0 < d1 /\ 0 < d2 /\ (n1 # Z.to_pos d1 <= n2 # Z.to_pos d2)%Q) /\
  (ok_eq n1 d1 n2 d2 = true <-> 0 < d1 /\ 0 < d2 /\ (n1 # Z.to_pos d1 == n2 # Z.to_pos d2)%Q).
Proof. split; [apply ok_le_spec| apply ok_eq_spec]. Qed.

(* an admissible case (ok_case) is Valid for every lo below all its coordinates *)
Lemma oracle_case lo ref P : ok_case ref P = true -> Forall (fun r => lo <= r) ref -> Above lo P ->
  Valid lo ref P /\ ref <> [] /\ (forall p, In p P -> wdom p ref = true).
Proof.
  intros H H2 H3. split; [split; [apply ok_case_samelen, H| split; assumption]|]. apply ok_case_spec, H.
Qed.
