(* Entry points for the extracted driver: data -> data *)
From Coq Require Import List ZArith Bool.
Import ListNotations.
Require Import DH.Common.Data DH.Common.VecOrd DH.C12_Hypervolume.Model DH.C12_Hypervolume.Check
  DH.C12_Hypervolume.ModelRecorder DH.C12_Hypervolume.CheckRecorder.
Open Scope Z_scope.

Definition d_vec (d : data) : vec := dmap dZ d.
Definition d_pts (d : data) : list vec := dmap d_vec d.
Definition z (k : nat) (d : data) : Z := dZ (dnth k d).

(* event: (0) = failure, (1 (v...)) = objective vector *)
Definition d_event (d : data) : event := if dZ (dnth 0 d) =? 0 then EFail else EObj (d_vec (dnth 1 d)).
Definition d_events (d : data) : list event := dmap d_event d.

Definition entries : list (Z * (data -> data)) :=
  [ (1201, fun d => eZ (hv_nd (d_vec (dnth 0 d)) (d_pts (dnth 1 d))));                       (* [ref, pts] *)
    (1202, fun d => eZ (hv_slice (d_vec (dnth 0 d)) (d_pts (dnth 1 d))));
    (1203, fun d => eZ (hv_fast (d_vec (dnth 0 d)) (d_pts (dnth 1 d))));
    (1204, fun d => eZ (hv_spec (z 0 d) (d_vec (dnth 1 d)) (d_pts (dnth 2 d))));              (* [lo, ref, pts] *)
    (1205, fun d => eZ (hv_cells (z 0 d) (d_vec (dnth 1 d)) (d_pts (dnth 2 d))));
    (1206, fun d => ebool (ok_exact (z 0 d) (d_vec (dnth 1 d)) (d_pts (dnth 2 d)) (z 3 d) (z 4 d)));   (* [s, ref, pts, num, den] *)
    (1207, fun d => ebool (ok_close (z 0 d) (d_vec (dnth 1 d)) (d_pts (dnth 2 d)) (z 3 d) (z 4 d) (z 5 d) (z 6 d)));
    (1208, fun d => ebool (ok_le (z 0 d) (z 1 d) (z 2 d) (z 3 d)));                            (* [n1, d1, n2, d2] *)
    (1209, fun d => ebool (ok_eq (z 0 d) (z 1 d) (z 2 d) (z 3 d)));
    (1210, fun d => ebool (ok_case (d_vec (dnth 0 d)) (d_pts (dnth 1 d))));                    (* [ref, pts] *)
    (1211, fun d => eopt eZ (rec_out (dnat (dnth 0 d)) (d_events (dnth 1 d))));                (* [d, events] *)
    (1212, fun d => ebool (ok_rec_exact (z 0 d) (dnat (dnth 1 d)) (d_events (dnth 2 d)) (z 3 d) (z 4 d)));   (* [s, d, events, num, den] *)
    (1213, fun d => ebool (ok_rec_close (z 0 d) (dnat (dnth 1 d)) (d_events (dnth 2 d)) (z 3 d) (z 4 d) (z 5 d) (z 6 d))) ].
