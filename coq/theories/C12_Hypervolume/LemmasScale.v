(* C12: scaling all coordinates by c > 0 multiplies the volume by c^d (justifies the per-case power-of-two scale). *)
From Coq Require Import List ZArith Bool Lia Arith.
Import ListNotations.
Require Import DH.Common.VecOrd.
Require Import DH.C12_Hypervolume.Model DH.C12_Hypervolume.Lemmas DH.C12_Hypervolume.LemmasGrid.
Open Scope Z_scope.

Lemma leb_scale c x a : 0 < c -> (c * x <=? c * a) = (x <=? a).
Proof.
  intros Hc. destruct (x <=? a) eqn:E.
  - apply Z.leb_le in E. apply Z.leb_le. nia.
  - apply Z.leb_gt in E. apply Z.leb_gt. nia.
Qed.

Lemma hd_vscale c p : hd 0 (vscale c p) = c * hd 0 p.
Proof. destruct p; cbn [vscale map hd]; lia. Qed.

Lemma tl_vscale c p : tl (vscale c p) = vscale c (tl p).
Proof. destruct p; reflexivity. Qed.

Lemma proj_scale c a P : 0 < c -> proj (c * a) (map (vscale c) P) = map (vscale c) (proj a P).
Proof.
  intros Hc. unfold proj. induction P as [|p P IH]; [reflexivity|]. cbn [map filter].
  rewrite hd_vscale, (leb_scale c _ _ Hc). destruct (hd 0 p <=? a); cbn [map]; rewrite IH; [rewrite tl_vscale|]; reflexivity.
Qed.

Lemma nonempty_map (f : vec -> vec) P : nonempty (map f P) = nonempty P.
Proof. destruct P; reflexivity. Qed.

Lemma slabs_map c : forall U, slabs (map (Z.mul c) U) = map (fun ab => (c * fst ab, c * snd ab)) (slabs U).
Proof.
  induction U as [|a U IH]; [reflexivity|]. destruct U as [|b t]; [reflexivity|].
  change (map (Z.mul c) (a :: b :: t)) with (c * a :: c * b :: map (Z.mul c) t).
  rewrite !slabs_cons2. cbn [map fst snd]. f_equal. exact IH.
Qed.

Lemma integ_scale c k U g g' : (forall a, g' (c * a) = k * g a) -> integ (map (Z.mul c) U) g' = c * k * integ U g.
Proof.
  intros H. unfold integ. rewrite slabs_map. induction (slabs U) as [|[a b] t IH]; cbn [map fold_right fst snd]; [lia|].
  rewrite IH, H. ring.
Qed.

Theorem vol_scale c : 0 < c -> forall U P,
  vol (map (map (Z.mul c)) U) (map (vscale c) P) = c ^ Z.of_nat (length U) * vol U P.
Proof.
  intros Hc. induction U as [|Ud U' IH]; intros P.
  - cbn [map vol length]. rewrite nonempty_map. change (Z.of_nat 0) with 0. lia.
  - cbn [map vol length]. rewrite (integ_scale c (c ^ Z.of_nat (length U')) Ud (fun a => vol U' (proj a P))).
    + rewrite Nat2Z.inj_succ, Z.pow_succ_r by lia. ring.
    + intros a. rewrite (proj_scale c a P Hc). apply IH.
Qed.

(* ---------- the scaled unit grid fits the scaled points ---------- *)
Lemma last_map_mul c : forall l, last (map (Z.mul c) l) 0 = c * last l 0.
Proof.
  induction l as [|a l IH]; [cbn; lia|]. destruct l as [|b t]; [reflexivity|].
  change (map (Z.mul c) (a :: b :: t)) with (c * a :: map (Z.mul c) (b :: t)).
  change (last (a :: b :: t) 0) with (last (b :: t) 0). rewrite <- IH. reflexivity.
Qed.

Lemma last_unit_from n : forall lo, last (unit_from lo n) 0 = lo + Z.of_nat n.
Proof.
  induction n as [|n IH]; intros lo; [cbn; lia|]. rewrite unit_from_S.
  destruct (unit_from_hd (lo + 1) n) as [t Ht]. rewrite Ht. change (last (lo :: lo + 1 :: t) 0) with (last (lo + 1 :: t) 0).
  rewrite <- Ht, IH. lia.
Qed.

Lemma last_unit_grid lo r : lo <= r -> last (unit_grid lo r) 0 = r.
Proof. intros H. unfold unit_grid. rewrite last_unit_from. lia. Qed.

Lemma hd_unit_grid lo r : hd 0 (unit_grid lo r) = lo.
Proof. unfold unit_grid. destruct (unit_from_hd lo (Z.to_nat (r - lo))) as [t ->]. reflexivity. Qed.

Lemma scaled_unit_fits1 c lo r col : 0 < c -> (forall x, In x col -> lo <= x) ->
  fits1 (c * lo) (map (Z.mul c) (unit_grid lo r)) (map (Z.mul c) col).
Proof.
  intros Hc Hcol. unfold fits1.
  assert (Hhd : hd 0 (map (Z.mul c) (unit_grid lo r)) = c * lo).
  { unfold unit_grid. destruct (unit_from_hd lo (Z.to_nat (r - lo))) as [t ->]. reflexivity. }
  split; [|split; [|split; [|split]]].
  - unfold asc. rewrite slabs_map. apply Forall_forall. intros [a' b'] Hin. apply in_map_iff in Hin as ([a b] & E & Hab).
    injection E as <- <-. destruct (slabs_unit_from _ _ _ _ Hab) as [-> _]. cbn [fst snd]. nia.
  - unfold unit_grid. destruct (unit_from_hd lo (Z.to_nat (r - lo))) as [t ->]. discriminate.
  - rewrite Hhd. lia.
  - intros x Hx. rewrite Hhd. apply in_map_iff in Hx as (x' & <- & Hx'). specialize (Hcol _ Hx'). nia.
  - intros x a' b' Hx Hin. rewrite slabs_map in Hin. apply in_map_iff in Hin as ([a b] & E & Hab).
    injection E as <- <-. destruct (slabs_unit_from _ _ _ _ Hab) as [-> _]. cbn [fst snd].
    apply in_map_iff in Hx as (x' & <- & _). destruct (Z_le_gt_dec x' a); [left|right]; nia.
Qed.

Lemma scaled_fits c lo : 0 < c -> forall ref P, SameLen (length ref) P -> Above lo P ->
  fits (c * lo) (map (map (Z.mul c)) (map (unit_grid lo) ref)) (map (vscale c) P).
Proof.
  intros Hc. induction ref as [|r ref' IH]; intros P HL HA; [exact I|]. cbn [map fits]. cbn [length] in HL. split.
  - replace (map (hd 0) (map (vscale c) P)) with (map (Z.mul c) (map (hd 0) P)).
    + apply scaled_unit_fits1; [exact Hc| apply (above_hd lo _ P HL HA)].
    + rewrite !map_map. apply map_ext. intros p. symmetry. apply hd_vscale.
  - replace (map (@tl Z) (map (vscale c) P)) with (map (vscale c) (map (@tl Z) P)).
    + apply IH; [apply samelen_tl, HL| apply above_tl, HA].
    + rewrite !map_map. apply map_ext. intros p. symmetry. apply tl_vscale.
Qed.

Lemma scaled_last c lo : forall ref, Forall (fun r => lo <= r) ref ->
  map (fun Ud => unit_grid (c * lo) (last Ud 0)) (map (map (Z.mul c)) (map (unit_grid lo) ref))
  = map (unit_grid (c * lo)) (vscale c ref).
Proof.
  induction ref as [|r ref' IH]; intros Hr; [reflexivity|]. inversion Hr as [|? ? Hr1 Hr']; subst.
  cbn [map vscale]. rewrite last_map_mul, (last_unit_grid lo r Hr1). f_equal. apply IH, Hr'.
Qed.

Theorem hv_scale c lo ref P : 0 < c -> SameLen (length ref) P -> Forall (fun r => lo <= r) ref -> Above lo P ->
  hv_spec (c * lo) (vscale c ref) (map (vscale c) P) = c ^ Z.of_nat (length ref) * hv_spec lo ref P.
Proof.
  intros Hc HL Hr HA. unfold hv_spec at 1. rewrite <- (scaled_last c lo ref Hr).
  rewrite vol_refine by (apply scaled_fits; assumption).
  rewrite (vol_scale c Hc). rewrite map_length. reflexivity.
Qed.
Print Assumptions hv_scale.
