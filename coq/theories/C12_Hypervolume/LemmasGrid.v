(* C12: the compressed grids fit the points; hv_fast = hv_slice = hv_spec. *)
From Coq Require Import List ZArith Bool Lia Arith.
Import ListNotations.
Require Import DH.Common.VecOrd DH.C12_Hypervolume.Model DH.C12_Hypervolume.Lemmas.
Open Scope Z_scope.

(* every coordinate of every point is >= lo *)
Definition Above (lo : Z) (P : list vec) : Prop := forall p x, In p P -> In x p -> lo <= x.

(* ---------- sort_dedup ---------- *)
Lemma insert_In x l y : In y (insert x l) <-> y = x \/ In y l.
Proof.
  induction l as [|z t IH]; cbn [insert].
  - cbn. intuition.
  - destruct (x <? z) eqn:E1; [cbn; intuition|]. destruct (x =? z) eqn:E2.
    + apply Z.eqb_eq in E2. subst. cbn. intuition.
    + cbn [In]. rewrite IH. intuition.
Qed.

Lemma insert_asc x l : asc l -> asc (insert x l).
Proof.
  induction l as [|z t IH]; intros H; cbn [insert]; [apply asc_single|].
  destruct (x <? z) eqn:E1.
  - apply Z.ltb_lt in E1. apply asc_cons2. split; [lia|exact H].
  - destruct (x =? z) eqn:E2; [exact H|]. apply Z.ltb_ge in E1. apply Z.eqb_neq in E2.
    apply asc_cons_iff in H as [Ht Hall]. apply asc_cons_iff. split; [apply IH, Ht|].
    apply Forall_forall. intros y Hy. apply insert_In in Hy as [->|Hy]; [lia|].
    rewrite Forall_forall in Hall. auto.
Qed.

Lemma sort_dedup_In l y : In y (sort_dedup l) <-> In y l.
Proof.
  induction l as [|a l IH]; [reflexivity|]. change (sort_dedup (a :: l)) with (insert a (sort_dedup l)).
  rewrite insert_In, IH. cbn [In]. split; intros [H|H]; auto.
Qed.

Lemma sort_dedup_asc l : asc (sort_dedup l).
Proof.
  induction l as [|a l IH]; [apply asc_nil|]. change (sort_dedup (a :: l)) with (insert a (sort_dedup l)).
  apply insert_asc, IH.
Qed.

Lemma asc_snoc l r : asc l -> Forall (fun z => z <= r) l -> asc (l ++ [r]).
Proof.
  induction l as [|a t IH]; intros H HF; [apply asc_single|]. cbn [app]. apply asc_cons_iff.
  apply asc_cons_iff in H as [Ht Hall]. inversion HF as [|? ? Har HF']; subst. split; [apply IH; assumption|].
  apply Forall_app. split; [exact Hall| constructor; [exact Har|constructor]].
Qed.

(* ---------- the grid of one dimension ---------- *)
Lemma grid1_In r col y : In y (grid1 r col) <-> (In y col /\ y < r) \/ y = r.
Proof.
  unfold grid1. rewrite in_app_iff, sort_dedup_In, filter_In, Z.ltb_lt. cbn [In]. intuition.
Qed.

Lemma grid1_asc r col : asc (grid1 r col).
Proof.
  unfold grid1. apply asc_snoc; [apply sort_dedup_asc|]. apply Forall_forall. intros z Hz.
  apply sort_dedup_In, filter_In in Hz as [_ Hz]. apply Z.ltb_lt in Hz. lia.
Qed.

Lemma grid1_ne r col : grid1 r col <> [].
Proof. unfold grid1. intros H. apply app_eq_nil in H as [_ H]. discriminate. Qed.

Lemma grid1_last r col : last (grid1 r col) 0 = r.
Proof. unfold grid1. apply last_last. Qed.

Lemma hd_In (l : list Z) : l <> [] -> In (hd 0 l) l.
Proof. destruct l; [congruence|]. intros _. left; reflexivity. Qed.

Lemma asc_hd_min (l : list Z) x : asc l -> In x l -> hd 0 l <= x.
Proof. destruct l as [|a t]; [intros _ []|]. intros H Hx. apply (asc_hd_le t a H x Hx). Qed.

Lemma grid1_fits lo r col : lo <= r -> (forall x, In x col -> lo <= x) -> fits1 lo (grid1 r col) col.
Proof.
  intros Hr Hcol. split; [apply grid1_asc|]. split; [apply grid1_ne|].
  assert (Hr_in : In r (grid1 r col)) by (apply grid1_In; right; reflexivity).
  split; [|split].
  - pose proof (hd_In _ (grid1_ne r col)) as Hh. apply grid1_In in Hh as [[Hh _]| ->]; [apply Hcol, Hh| exact Hr].
  - intros x Hx. destruct (Z_lt_le_dec x r) as [Hlt|Hge].
    + apply asc_hd_min; [apply grid1_asc|]. apply grid1_In. left. split; assumption.
    + pose proof (asc_hd_min _ _ (grid1_asc r col) Hr_in). lia.
  - intros x a b Hx Hab. destruct (Z_lt_le_dec x r) as [Hlt|Hge].
    + apply (asc_node_not_inside _ (grid1_asc r col)); [|exact Hab]. apply grid1_In. left. split; assumption.
    + right. destruct (slabs_in_l _ _ _ Hab) as [_ Hb]. apply grid1_In in Hb as [[_ Hb]| ->]; lia.
Qed.

(* ---------- columns of a point list ---------- *)
Lemma samelen_tl m P : SameLen (S m) P -> SameLen m (map (@tl Z) P).
Proof.
  intros H. apply Forall_forall. intros v Hv. apply in_map_iff in Hv as [p [<- Hp]].
  pose proof (samelen_in _ _ _ H Hp) as Hl. destruct p; cbn in *; lia.
Qed.

Lemma above_tl lo P : Above lo P -> Above lo (map (@tl Z) P).
Proof.
  intros H v x Hv Hx. apply in_map_iff in Hv as [p [<- Hp]]. apply (H p x Hp).
  destruct p; [destruct Hx| right; exact Hx].
Qed.

Lemma above_hd lo m P : SameLen (S m) P -> Above lo P -> forall x, In x (map (hd 0) P) -> lo <= x.
Proof.
  intros HL H x Hx. apply in_map_iff in Hx as [p [<- Hp]]. pose proof (samelen_in _ _ _ HL Hp) as Hl.
  destruct p as [|y p']; [discriminate|]. apply (H _ y Hp). left; reflexivity.
Qed.

Lemma above_incl lo P Q : incl P Q -> Above lo Q -> Above lo P.
Proof. intros Hi H p x Hp. apply H, Hi, Hp. Qed.

Lemma above_proj lo a P : Above lo P -> Above lo (proj a P).
Proof. intros H. eapply above_incl; [apply proj_incl_tl| apply above_tl, H]. Qed.

(* ---------- hv_fast = hv_spec ---------- *)
Lemma canon_fits lo : forall ref P, SameLen (length ref) P -> Forall (fun r => lo <= r) ref -> Above lo P ->
  fits lo (canon ref P) P.
Proof.
  induction ref as [|r ref' IH]; intros P HL Hr HA; [exact I|]. cbn [canon fits]. cbn [length] in HL.
  inversion Hr as [|? ? Hr1 Hr']; subst. split.
  - apply grid1_fits; [exact Hr1| apply (above_hd lo _ P HL HA)].
  - apply IH; [apply samelen_tl, HL| exact Hr'| apply above_tl, HA].
Qed.

Lemma canon_last lo : forall ref P, map (fun Ud => unit_grid lo (last Ud 0)) (canon ref P) = map (unit_grid lo) ref.
Proof.
  induction ref as [|r ref' IH]; intros P; [reflexivity|]. cbn [canon map]. rewrite grid1_last, IH. reflexivity.
Qed.

Theorem hv_fast_is_spec lo ref P : SameLen (length ref) P -> Forall (fun r => lo <= r) ref -> Above lo P ->
  hv_fast ref P = hv_spec lo ref P.
Proof.
  intros HL Hr HA. unfold hv_fast, hv_spec. rewrite <- (canon_last lo ref P). symmetry.
  apply vol_refine. apply canon_fits; assumption.
Qed.

(* ---------- hv_slice = hv_spec ---------- *)
Lemma hv_spec_nil lo ref : hv_spec lo ref [] = 0.
Proof. apply vol_nil. Qed.

Lemma hv_spec_cons lo r ref P :
  hv_spec lo (r :: ref) P = integ (unit_grid lo r) (fun a => hv_spec lo ref (proj a P)).
Proof. reflexivity. Qed.

Theorem hv_slice_is_spec lo : forall ref P, SameLen (length ref) P -> Forall (fun r => lo <= r) ref -> Above lo P ->
  hv_slice ref P = hv_spec lo ref P.
Proof.
  induction ref as [|r ref' IH]; intros P HL Hr HA; [reflexivity|]. cbn [length] in HL.
  inversion Hr as [|? ? Hr1 Hr']; subst. cbn [hv_slice]. rewrite hv_spec_cons.
  rewrite (integ_ext _ _ (fun a => hv_spec lo ref' (proj a P))).
  2:{ intros a. apply IH; [apply proj_samelen, HL| exact Hr'| apply above_proj, HA]. }
  rewrite <- (grid1_last r (map (hd 0) P)) at 2. symmetry.
  apply (slice_refine lo _ P (hv_spec lo ref')); [|apply hv_spec_nil].
  apply grid1_fits; [exact Hr1| apply (above_hd lo _ P HL HA)].
Qed.
Print Assumptions hv_slice_is_spec.
