(* Oracles for the values returned by ObjectiveRecorder along a history (see ModelRecorder.v), with reflection lemmas. *)
From Coq Require Import List ZArith Bool Lia QArith.
Import ListNotations.
Require Import DH.Common.VecOrd.
Require Import DH.C12_Hypervolume.Model DH.C12_Hypervolume.Lemmas DH.C12_Hypervolume.LemmasGrid DH.C12_Hypervolume.LemmasCells
  DH.C12_Hypervolume.Check DH.C12_Hypervolume.ModelRecorder DH.C12_Hypervolume.LemmasRecorder.
Open Scope Z_scope.

Definition rec_wf (d : nat) (evs : list event) : bool :=
  forallb (fun e => match e with EFail => true | EObj v => Nat.eqb (length v) d end) evs.

(* the value num/den returned after the history evs (objectives = integers / s) is the exact hypervolume of the record *)
Definition ok_rec_exact (s : Z) (d : nat) (evs : list event) (num den : Z) : bool :=
  let st := rec_state evs in
  rec_wf d evs && match st with [] => false | _ => ok_exact s (worst d st) st num den end.

Definition ok_rec_close (s : Z) (d : nat) (evs : list event) (num den tnum tden : Z) : bool :=
  let st := rec_state evs in
  rec_wf d evs && match st with [] => false | _ => ok_close s (worst d st) st num den tnum tden end.

Lemma rec_wf_spec d evs : rec_wf d evs = true <-> WellFormed d evs.
Proof.
  unfold rec_wf, WellFormed. rewrite forallb_forall. split.
  - intros H v Hv. specialize (H _ Hv). cbn in H. apply Nat.eqb_eq, H.
  - intros H [|v] He; [reflexivity|]. apply Nat.eqb_eq, H, He.
Qed.

Lemma rec_valid d evs : WellFormed d evs -> let st := rec_state evs in Valid (lowb (worst d st) st) (worst d st) st.
Proof.
  intros HW st. split; [rewrite worst_length; apply rec_state_samelen, HW|]. split; [apply lowb_ref| apply lowb_above].
Qed.

Theorem ok_rec_exact_spec s d evs num den : 0 < s ->
  (ok_rec_exact s d evs num den = true <->
   let st := rec_state evs in
   WellFormed d evs /\ st <> [] /\ 0 < den /\
   (num # Z.to_pos den == hv_spec (lowb (worst d st) st) (worst d st) st # Z.to_pos (scale_pow s (worst d st)))%Q).
Proof.
  intros Hs. unfold ok_rec_exact. cbv zeta. rewrite andb_true_iff, rec_wf_spec. split.
  - intros [HW H]. destruct (rec_state evs) as [|p t] eqn:E; [discriminate|]. rewrite <- E in *.
    apply (ok_exact_spec s _ _ _ num den Hs (rec_valid d evs HW)) in H. destruct H as [H1 H2].
    repeat split; try assumption. rewrite E. discriminate.
  - intros (HW & Hne & Hd & H). split; [exact HW|]. destruct (rec_state evs) as [|p t] eqn:E; [congruence|]. rewrite <- E in *.
    apply (ok_exact_spec s _ _ _ num den Hs (rec_valid d evs HW)). split; assumption.
Qed.
