(* C12: the specification counts the dominated unit cells; consequences (boundary, dominated points, hv_nd). *)
From Coq Require Import List ZArith Bool Lia Arith.
Import ListNotations.
Require Import DH.Common.ListSet DH.Common.VecOrd DH.C11_Pareto.Model DH.C11_Pareto.Lemmas.
Require Import DH.C12_Hypervolume.Model DH.C12_Hypervolume.Lemmas DH.C12_Hypervolume.LemmasGrid.
Open Scope Z_scope.

Fixpoint zsum (l : list Z) : Z := match l with [] => 0 | x :: t => x + zsum t end.

Lemma integ_unit_sum g : forall n lo, integ (unit_from lo n) g = zsum (map g (range lo n)).
Proof.
  induction n as [|n IH]; intros lo; [reflexivity|]. rewrite integ_unit_from, IH. reflexivity.
Qed.

Lemma count_flat_map {A B} (f : B -> bool) (h : A -> list B) l :
  Z.of_nat (length (filter f (flat_map h l))) = zsum (map (fun a => Z.of_nat (length (filter f (h a)))) l).
Proof.
  induction l as [|a l IH]; [reflexivity|]. cbn [flat_map map zsum].
  rewrite filter_app, app_length, Nat2Z.inj_add, IH. reflexivity.
Qed.

Lemma filter_map_cons (f : vec -> bool) a L :
  filter f (map (cons a) L) = map (cons a) (filter (fun c => f (a :: c)) L).
Proof.
  induction L as [|c L IH]; [reflexivity|]. cbn [map filter]. destruct (f (a :: c)); cbn [map]; rewrite IH; reflexivity.
Qed.

Lemma covered_cons m a c P : SameLen (S m) P -> covered P (a :: c) = covered (proj a P) c.
Proof.
  induction P as [|p P IH]; intros H; [reflexivity|]. inversion H as [|? ? Hp HP]; subst.
  destruct p as [|x p']; [discriminate|]. unfold covered, proj in *. cbn [existsb filter hd wdom].
  destruct (x <=? a); cbn [andb map existsb tl]; rewrite (IH HP); reflexivity.
Qed.

Lemma zsum_map_ext {A} (f g : A -> Z) l : (forall a, In a l -> f a = g a) -> zsum (map f l) = zsum (map g l).
Proof.
  induction l as [|a l IH]; intros H; [reflexivity|]. cbn [map zsum]. rewrite (H a) by (left; reflexivity).
  rewrite IH; [reflexivity|]. intros b Hb. apply H. right; exact Hb.
Qed.

(* the exactness anchor *)
Theorem hv_spec_cells lo : forall ref P, SameLen (length ref) P -> hv_spec lo ref P = hv_cells lo ref P.
Proof.
  induction ref as [|r ref' IH]; intros P H.
  - unfold hv_spec, hv_cells. cbn [map vol cells]. destruct P as [|p P]; [reflexivity|].
    inversion H as [|? ? Hp HP]; subst. destruct p; [|discriminate]. reflexivity.
  - cbn [length] in H. rewrite hv_spec_cons. unfold hv_cells. cbn [cells]. unfold unit_grid.
    rewrite integ_unit_sum, count_flat_map. apply zsum_map_ext. intros a _.
    rewrite filter_map_cons, map_length. rewrite IH by (apply proj_samelen, H). unfold hv_cells. do 2 f_equal.
    apply filter_ext. intros c. symmetry. apply (covered_cons _ _ _ _ H).
Qed.

(* ---------- cells enumerates the box, once each ---------- *)
Lemma In_range n : forall lo x, In x (range lo n) <-> lo <= x < lo + Z.of_nat n.
Proof.
  induction n as [|n IH]; intros lo x; cbn [range In]; [lia|]. rewrite IH. lia.
Qed.

Lemma NoDup_range n : forall lo, NoDup (range lo n).
Proof.
  induction n as [|n IH]; intros lo; cbn [range]; constructor; [|apply IH]. rewrite In_range. lia.
Qed.

Lemma In_cells lo : forall ref c, In c (cells lo ref) <-> Forall2 (fun x r => lo <= x < r) c ref.
Proof.
  induction ref as [|r ref' IH]; intros c; cbn [cells].
  - split; [intros [<-|[]]; constructor| intros H; inversion H; left; reflexivity].
  - rewrite in_flat_map. split.
    + intros (a & Ha & Hc). apply in_map_iff in Hc as (c' & <- & Hc'). apply In_range in Ha.
      constructor; [lia| apply IH, Hc'].
    + intros H. inversion H as [|x ? c' ? Hx Hc']; subst. exists x. split; [apply In_range; lia|].
      apply in_map. apply IH, Hc'.
Qed.

Lemma NoDup_map_cons (a : Z) (L : list vec) : NoDup L -> NoDup (map (cons a) L).
Proof.
  induction L as [|c L IH]; intros H; cbn [map]; [constructor|]. inversion H as [|? ? Hc HL]; subst.
  constructor; [|apply IH, HL]. intros Hin. apply in_map_iff in Hin as (c' & E & Hc'). injection E as ->. contradiction.
Qed.

Lemma NoDup_cells lo : forall ref, NoDup (cells lo ref).
Proof.
  induction ref as [|r ref' IH]; cbn [cells]; [constructor; [intros []|constructor]|].
  pose proof (NoDup_range (Z.to_nat (r - lo)) lo) as HR. induction (range lo (Z.to_nat (r - lo))) as [|a R IHR]; [constructor|].
  inversion HR as [|? ? Ha HR']; subst. cbn [flat_map]. apply NoDup_app_intro; [apply NoDup_map_cons, IH| apply IHR, HR'|].
  intros c Hc1 Hc2. apply in_map_iff in Hc1 as (c1 & <- & _). apply in_flat_map in Hc2 as (a' & Ha' & Hc2).
  apply in_map_iff in Hc2 as (c2 & E & _). injection E as -> _. contradiction.
Qed.

Lemma cells_nth lo : forall ref c, In c (cells lo ref) -> forall k, (k < length ref)%nat -> lo <= nth k c 0 < nth k ref 0.
Proof.
  intros ref c H. apply In_cells in H. induction H as [|x r c' ref' Hx H IH]; intros k Hk; [cbn in Hk; lia|].
  destruct k as [|k]; [exact Hx|]. cbn [nth]. apply IH. cbn [length] in Hk. lia.
Qed.

Lemma wdom_nth : forall a b, wdom a b = true -> forall k, nth k a 0 <= nth k b 0.
Proof.
  induction a as [|x a IH]; intros [|y b] H k; cbn [wdom] in H; try discriminate.
  - destruct k; cbn; lia.
  - apply andb_true_iff in H as [H1 H2]. apply Z.leb_le in H1. destruct k as [|k]; [exact H1|]. cbn [nth]. apply IH, H2.
Qed.

(* ---------- consequences of the cell-count reading ---------- *)
Lemma hv_cells_ext lo ref P Q : (forall c, In c (cells lo ref) -> covered P c = covered Q c) ->
  hv_cells lo ref P = hv_cells lo ref Q.
Proof. intros H. unfold hv_cells. do 2 f_equal. apply filter_ext_in. exact H. Qed.

Lemma covered_true P c : covered P c = true <-> exists p, In p P /\ wdom p c = true.
Proof. unfold covered. apply existsb_exists. Qed.

Definition on_boundary (ref b : vec) : Prop := exists k, (k < length ref)%nat /\ nth k ref 0 <= nth k b 0.

Theorem hv_boundary lo ref P B : SameLen (length ref) P -> SameLen (length ref) B ->
  (forall b, In b B -> on_boundary ref b) -> hv_spec lo ref (P ++ B) = hv_spec lo ref P.
Proof.
  intros HP HB Hb. rewrite !hv_spec_cells; [|exact HP| apply Forall_app; split; assumption].
  apply hv_cells_ext. intros c Hc. unfold covered. rewrite existsb_app.
  replace (existsb (fun p => wdom p c) B) with false; [apply orb_false_r|]. symmetry.
  destruct (existsb (fun p => wdom p c) B) eqn:E; [|reflexivity]. exfalso.
  apply existsb_exists in E as (b & Hin & Hd). destruct (Hb b Hin) as (k & Hk & Hge).
  pose proof (wdom_nth _ _ Hd k). pose proof (cells_nth _ _ _ Hc k Hk). lia.
Qed.

Theorem hv_nds lo ref P : SameLen (length ref) P -> hv_spec lo ref (nds P) = hv_spec lo ref P.
Proof.
  intros HP. destruct (nds_correct _ _ HP) as (Hincl & _ & _ & Hcomp).
  rewrite !hv_spec_cells; [|exact HP| eapply samelen_incl; [exact HP| exact Hincl]].
  apply hv_cells_ext. intros c _. apply eq_true_iff_eq. rewrite !covered_true. split.
  - intros (s & Hs & Hd). exists s. split; [apply Hincl, Hs| exact Hd].
  - intros (p & Hp & Hd). destruct (Hcomp p Hp) as (s & Hs & Hsp). exists s. split; [exact Hs|].
    eapply wdom_trans; eassumption.
Qed.

Theorem hv_spec_nonneg lo ref P : 0 <= hv_spec lo ref P.
Proof.
  unfold hv_spec. apply vol_nonneg. apply Forall_forall. intros U HU. apply in_map_iff in HU as (r & <- & _).
  apply asc_unit_grid.
Qed.

Theorem hv_spec_mono lo ref P Q : incl P Q -> hv_spec lo ref P <= hv_spec lo ref Q.
Proof.
  unfold hv_spec. apply vol_mono. apply Forall_forall. intros U HU. apply in_map_iff in HU as (r & <- & _).
  apply asc_unit_grid.
Qed.

Theorem hv_spec_set_ext lo ref P Q : incl P Q -> incl Q P -> hv_spec lo ref P = hv_spec lo ref Q.
Proof. unfold hv_spec. apply vol_set_ext. Qed.

(* ---------- hv_nd = hv_spec ---------- *)
Theorem hv_nd_is_spec lo : forall ref P, SameLen (length ref) P -> Forall (fun r => lo <= r) ref -> Above lo P ->
  hv_nd ref P = hv_spec lo ref P.
Proof.
  induction ref as [|r ref' IH]; intros P HL Hr HA; [reflexivity|].
  rewrite <- (hv_nds lo (r :: ref') P HL). cbn [hv_nd].
  destruct (nds_correct _ _ HL) as (Hincl & _).
  assert (HLN : SameLen (length (r :: ref')) (nds P)) by (eapply samelen_incl; [exact HL| exact Hincl]).
  assert (HAN : Above lo (nds P)) by (eapply above_incl; [exact Hincl| exact HA]).
  set (N := nds P) in *. cbn [length] in HLN.
  inversion Hr as [|? ? Hr1 Hr']; subst. rewrite hv_spec_cons.
  rewrite (integ_ext _ _ (fun a => hv_spec lo ref' (proj a N))).
  2:{ intros a. apply IH; [apply proj_samelen, HLN| exact Hr'| apply above_proj, HAN]. }
  rewrite <- (grid1_last r (map (hd 0) N)) at 2. symmetry.
  apply (slice_refine lo _ N (hv_spec lo ref')); [|apply hv_spec_nil].
  apply grid1_fits; [exact Hr1| apply (above_hd lo _ N HLN HAN)].
Qed.
Print Assumptions hv_nd_is_spec.
