(* Boolean oracles applied to the IMPLEMENTATION's outputs, with their reflection lemmas.

   A case is handed over on one scale s > 0: real coordinate = integer / s, so (d = number of objectives) the true
   volume is  hv_spec / s^d.  The value returned by the implementation (a binary64) is handed over as its exact
   rational num/den, den > 0 (float.as_integer_ratio). *)
From Coq Require Import List ZArith Bool Lia QArith.
Import ListNotations.
Require Import DH.Common.VecOrd DH.C11_Pareto.Model.
Require Import DH.C12_Hypervolume.Model DH.C12_Hypervolume.Lemmas DH.C12_Hypervolume.LemmasGrid DH.C12_Hypervolume.LemmasCells.
Open Scope Z_scope.

Definition scale_pow (s : Z) (ref : vec) : Z := s ^ Z.of_nat (length ref).

(* exactness: num/den = hv / s^d *)
Definition ok_exact (s : Z) (ref : vec) (P : list vec) (num den : Z) : bool :=
  (0 <? den) && (num * scale_pow s ref =? hv_nd ref P * den).

(* closeness for general floats: |num/den - V| <= (tnum/tden) * V  with V = hv / s^d, tden > 0 *)
Definition ok_close (s : Z) (ref : vec) (P : list vec) (num den tnum tden : Z) : bool :=
  (0 <? den) && (Z.abs (num * scale_pow s ref - hv_nd ref P * den) * tden <=? tnum * (hv_nd ref P * den)).

(* comparisons of two returned values n1/d1, n2/d2 (metamorphic clauses) *)
Definition ok_le (n1 d1 n2 d2 : Z) : bool := (0 <? d1) && (0 <? d2) && (n1 * d2 <=? n2 * d1).
Definition ok_eq (n1 d1 n2 d2 : Z) : bool := (0 <? d1) && (0 <? d2) && (n1 * d2 =? n2 * d1).

(* a case is admissible for the property: all points have the dimension of ref and are dominated-or-equal by ref *)
Definition ok_case (ref : vec) (P : list vec) : bool :=
  negb (Nat.eqb (length ref) 0) && forallb (fun p => wdom p ref) P.

Definition Valid (lo : Z) (ref : vec) (P : list vec) : Prop :=
  SameLen (length ref) P /\ Forall (fun r => lo <= r) ref /\ Above lo P.

Lemma scale_pow_pos s ref : 0 < s -> 0 < scale_pow s ref.
Proof. intros H. unfold scale_pow. apply Z.pow_pos_nonneg; lia. Qed.

Theorem ok_exact_spec s lo ref P num den : 0 < s -> Valid lo ref P ->
  (ok_exact s ref P num den = true <->
   0 < den /\ (num # Z.to_pos den == hv_spec lo ref P # Z.to_pos (scale_pow s ref))%Q).
Proof.
  intros Hs (HL & Hr & HA). unfold ok_exact. rewrite (hv_nd_is_spec lo ref P HL Hr HA).
  rewrite andb_true_iff, Z.ltb_lt, Z.eqb_eq. pose proof (scale_pow_pos s ref Hs) as Hp.
  split; intros [Hd H]; (split; [exact Hd|]); unfold Qeq in *; cbn [Qnum Qden] in *;
    rewrite !Z2Pos.id in * by assumption; exact H.
Qed.

Theorem ok_close_spec s lo ref P num den tnum tden : Valid lo ref P ->
  (ok_close s ref P num den tnum tden = true <->
   0 < den /\ Z.abs (num * scale_pow s ref - hv_spec lo ref P * den) * tden <= tnum * (hv_spec lo ref P * den)).
Proof.
  intros (HL & Hr & HA). unfold ok_close. rewrite (hv_nd_is_spec lo ref P HL Hr HA).
  rewrite andb_true_iff, Z.ltb_lt, Z.leb_le. reflexivity.
Qed.

Theorem ok_le_spec n1 d1 n2 d2 :
  ok_le n1 d1 n2 d2 = true <-> 0 < d1 /\ 0 < d2 /\ (n1 # Z.to_pos d1 <= n2 # Z.to_pos d2)%Q.
Proof.
  unfold ok_le. rewrite !andb_true_iff, !Z.ltb_lt, Z.leb_le. unfold Qle. cbn [Qnum Qden].
  split; [intros [[H1 H2] H]| intros (H1 & H2 & H)]; repeat split; try assumption; rewrite !Z2Pos.id in * by assumption; exact H.
Qed.

Theorem ok_eq_spec n1 d1 n2 d2 :
  ok_eq n1 d1 n2 d2 = true <-> 0 < d1 /\ 0 < d2 /\ (n1 # Z.to_pos d1 == n2 # Z.to_pos d2)%Q.
Proof.
  unfold ok_eq. rewrite !andb_true_iff, !Z.ltb_lt, Z.eqb_eq. unfold Qeq. cbn [Qnum Qden].
  split; [intros [[H1 H2] H]| intros (H1 & H2 & H)]; repeat split; try assumption; rewrite !Z2Pos.id in * by assumption; exact H.
Qed.

(* an admissible case is Valid for every lo below all its coordinates *)
Theorem ok_case_spec ref P : ok_case ref P = true <-> ref <> [] /\ forall p, In p P -> wdom p ref = true.
Proof.
  unfold ok_case. rewrite andb_true_iff, negb_true_iff, Nat.eqb_neq, forallb_forall. split; intros [H1 H2]; (split; [|exact H2]).
  - intros ->. apply H1. reflexivity.
  - destruct ref; [congruence| discriminate].
Qed.

Lemma ok_case_samelen ref P : ok_case ref P = true -> SameLen (length ref) P.
Proof.
  intros H. apply ok_case_spec in H as [_ H]. apply Forall_forall. intros p Hp. apply wdom_length. apply H, Hp.
Qed.
