(* Model of deephyper.evaluator.callback.ObjectiveRecorder on multi-objective jobs (MAXIMISATION objectives), as a
   function of the whole history of gathered jobs.  Executable definitions only; proofs are in LemmasRecorder.v.

   __call__(job): a failure (objective is a string) leaves the record unchanged; otherwise the objective vector is
   appended.  The value returned is -inf while nothing is recorded, else
       hypervolume(-objectives, ref = componentwise maximum of -objectives)          (the worst point as reference). *)
From Coq Require Import List ZArith Bool Arith.
Import ListNotations.
Require Import DH.Common.VecOrd DH.C12_Hypervolume.Model.
Open Scope Z_scope.

Inductive event := EFail | EObj (v : vec).

Definition col (k : nat) (P : list vec) : list Z := map (fun p => nth k p 0) P.
Definition lmax (l : list Z) : Z := match l with [] => 0 | x :: t => fold_right Z.max x t end.
(* componentwise worst (largest) point of P, d objectives *)
Definition worst (d : nat) (P : list vec) : vec := map (fun k => lmax (col k P)) (seq 0 d).

(* the recorded points in minimisation form *)
Definition rec_state (evs : list event) : list vec :=
  flat_map (fun e => match e with EFail => [] | EObj v => [map Z.opp v] end) evs.

(* None = -inf (nothing recorded yet) *)
Definition rec_out (d : nat) (evs : list event) : option Z :=
  match rec_state evs with
  | [] => None
  | st => Some (hv_nd (worst d st) st)
  end.
