(* Model of deephyper.skopt.moo._hv.hypervolume (pinned tree), MINIMISATION, over Z.
   Executable definitions only; proofs are in Lemmas*.v.

   hypervolume(pointset, ref) = volume of  { x : exists p in pointset, p <= x <= ref }  (componentwise).
   The code filters to the non-dominated subset, translates by ref and runs the Fonseca-Paquete-Lopez-Ibanez
   dimension sweep over shared linked lists.  None of that is transliterated: the tie to the code is EXTENSIONAL
   (same number out).  The model is slicing on an explicit grid:

     integ U g      = sum over consecutive grid nodes (a,b) of U of (b-a) * g a
     proj a S       = tails of the points whose first coordinate is <= a   (cross-section at first coordinate a)
     vol (Ud::U') S = integ Ud (fun a => vol U' (proj a S)),      vol [] S = 1 if S is non-empty else 0

   Instances:
     hv_spec lo ref S   the SPECIFICATION: unit grids lo..ref_k in every dimension; every slab has width 1, so this is
                        the number of unit cells of the box [lo,ref) dominated by some point (= hv_cells, proved);
     hv_fast ref S      the same slicing on the compressed grid of the points' own coordinates (fixed grid per dimension);
     hv_slice ref S     slicing with the grid re-compressed at every level (only the coordinates of the points still
                        present in the cross-section) - what the driver runs on large dyadic / float inputs;
     hv_nd ref S        hv_slice with the dominated points removed at every level (C11's nds) - the fastest evaluator.
   All four are proved equal (Property.v); points outside the box (some coordinate > ref) contribute only through the
   part inside the box, points on the boundary (some coordinate = ref) contribute nothing.

   Relation to the tree: the model is the SPECIFICATION the code has to meet, for any number of objectives.  The pinned
   tree (/repo 3919200) meets it for <= 4 objectives; for >= 5 objectives it does not (findings F26, F27: stale area
   initialisation, inconsistent order of tied nodes - fixes/F26_*.patch, fixes/F27_*.patch; witnesses
   C12_witness_F26 / C12_witness_F27 in Property.v).  With the three patches applied the check passes unchanged. *)
From Coq Require Import List ZArith Bool Arith.
Import ListNotations.
Require Import DH.Common.VecOrd DH.C11_Pareto.Model.
Open Scope Z_scope.

Fixpoint slabs (U : list Z) : list (Z * Z) :=
  match U with
  | a :: ((b :: _) as t) => (a, b) :: slabs t
  | _ => []
  end.

Definition integ (U : list Z) (g : Z -> Z) : Z :=
  fold_right (fun ab acc => (snd ab - fst ab) * g (fst ab) + acc) 0 (slabs U).

Definition proj (a : Z) (S : list vec) : list vec :=
  map (@tl Z) (filter (fun p => hd 0 p <=? a) S).

Definition nonempty (S : list vec) : Z := match S with [] => 0 | _ => 1 end.

Fixpoint vol (U : list (list Z)) (S : list vec) : Z :=
  match U with
  | [] => nonempty S
  | Ud :: U' => integ Ud (fun a => vol U' (proj a S))
  end.

(* unit grid lo, lo+1, ..., hi  (just [lo] when hi <= lo) *)
Fixpoint unit_from (lo : Z) (n : nat) : list Z :=
  match n with O => [lo] | S k => lo :: unit_from (lo + 1) k end.
Definition unit_grid (lo hi : Z) : list Z := unit_from lo (Z.to_nat (hi - lo)).

Definition hv_spec (lo : Z) (ref : vec) (S : list vec) : Z :=
  vol (map (unit_grid lo) ref) S.

(* ---- the cell-counting reading of the specification ---- *)
Fixpoint range (lo : Z) (n : nat) : list Z :=
  match n with O => [] | S k => lo :: range (lo + 1) k end.

(* lower corners of the unit cells of the box  prod_k [lo, ref_k) *)
Fixpoint cells (lo : Z) (ref : vec) : list vec :=
  match ref with
  | [] => [[]]
  | r :: ref' => flat_map (fun a => map (cons a) (cells lo ref')) (range lo (Z.to_nat (r - lo)))
  end.

Definition covered (S : list vec) (c : vec) : bool := existsb (fun p => wdom p c) S.

Definition hv_cells (lo : Z) (ref : vec) (S : list vec) : Z :=
  Z.of_nat (length (filter (covered S) (cells lo ref))).

(* ---- compressed grids ---- *)
Fixpoint insert (x : Z) (l : list Z) : list Z :=
  match l with
  | [] => [x]
  | y :: t => if x <? y then x :: l else if x =? y then l else y :: insert x t
  end.
Definition sort_dedup (l : list Z) : list Z := fold_right insert [] l.

(* grid of one dimension: the distinct coordinates below r, ascending, then r *)
Definition grid1 (r : Z) (col : list Z) : list Z :=
  sort_dedup (filter (fun x => x <? r) col) ++ [r].

Fixpoint canon (ref : vec) (S : list vec) : list (list Z) :=
  match ref with
  | [] => []
  | r :: ref' => grid1 r (map (hd 0) S) :: canon ref' (map (@tl Z) S)
  end.

Definition hv_fast (ref : vec) (S : list vec) : Z := vol (canon ref S) S.

Fixpoint hv_slice (ref : vec) (S : list vec) : Z :=
  match ref with
  | [] => nonempty S
  | r :: ref' => integ (grid1 r (map (hd 0) S)) (fun a => hv_slice ref' (proj a S))
  end.

Fixpoint hv_nd (ref : vec) (S : list vec) : Z :=
  match ref with
  | [] => nonempty S
  | r :: ref' => let N := nds S in integ (grid1 r (map (hd 0) N)) (fun a => hv_nd ref' (proj a N))
  end.

(* scaling of coordinates (the harness hands every case over on one power-of-two scale) *)
Definition vscale (c : Z) (v : vec) : vec := map (Z.mul c) v.
