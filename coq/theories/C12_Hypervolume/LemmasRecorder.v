(* C12: the hypervolume grows with the reference point; the recorder's value never decreases along a history. *)
From Coq Require Import List ZArith Bool Lia Arith Permutation.
Import ListNotations.
Require Import DH.Common.ListSet DH.Common.VecOrd.
Require Import DH.C12_Hypervolume.Model DH.C12_Hypervolume.Lemmas DH.C12_Hypervolume.LemmasGrid
  DH.C12_Hypervolume.LemmasCells DH.C12_Hypervolume.ModelRecorder.
Open Scope Z_scope.

(* ---------- monotone in the reference point ---------- *)
Lemma cells_incl lo ref ref' : Forall2 Z.le ref ref' -> incl (cells lo ref) (cells lo ref').
Proof.
  intros H c Hc. apply In_cells in Hc. apply In_cells. revert c Hc.
  induction H as [|r r' ref ref' Hr H IH]; intros c Hc; inversion Hc; subst; constructor; [lia| apply IH; assumption].
Qed.

Lemma NoDup_filter {A} (f : A -> bool) l : NoDup l -> NoDup (filter f l).
Proof.
  induction l as [|a l IH]; intros H; cbn [filter]; [constructor|]. inversion H as [|? ? Ha Hl]; subst.
  destruct (f a); [constructor; [|apply IH, Hl]| apply IH, Hl]. intros Hin. apply filter_In in Hin as [Hin _]. contradiction.
Qed.

Theorem hv_ref_mono lo ref ref' P : SameLen (length ref) P -> Forall2 Z.le ref ref' ->
  hv_spec lo ref P <= hv_spec lo ref' P.
Proof.
  intros HL H. assert (El : length ref = length ref') by (clear HL; induction H as [|? ? ? ? _ _ IH]; cbn [length]; [reflexivity| rewrite IH; reflexivity]).
  rewrite !hv_spec_cells; [|rewrite <- El; exact HL| exact HL]. unfold hv_cells. apply inj_le.
  apply NoDup_incl_length; [apply NoDup_filter, NoDup_cells|].
  intros c Hc. apply filter_In in Hc as [Hc Hcov]. apply filter_In. split; [eapply cells_incl; eassumption| exact Hcov].
Qed.

(* ---------- the worst point ---------- *)
Lemma lmax_ge l x : In x l -> x <= lmax l.
Proof.
  destruct l as [|a t]; [intros []|]. cbn [lmax]. revert a. induction t as [|b t IH]; intros a Hx; cbn [fold_right].
  - destruct Hx as [<-|[]]. lia.
  - destruct Hx as [<-|[<-|Hx]].
    + assert (a <= fold_right Z.max a t) by (apply IH; left; reflexivity). lia.
    + lia.
    + assert (x <= fold_right Z.max a t) by (apply IH; right; exact Hx). lia.
Qed.

Lemma lmax_In l : l <> [] -> In (lmax l) l.
Proof.
  destruct l as [|a t]; [congruence|]. intros _. cbn [lmax]. induction t as [|b t IH]; cbn [fold_right]; [left; reflexivity|].
  destruct (Z.max_spec b (fold_right Z.max a t)) as [[_ ->]|[_ ->]].
  - destruct IH as [<-|IH]; [left; reflexivity| right; right; exact IH].
  - right; left; reflexivity.
Qed.

Lemma lmax_app_le l x : l <> [] -> lmax l <= lmax (l ++ [x]).
Proof. intros H. apply lmax_ge. apply in_or_app. left. apply lmax_In, H. Qed.

Lemma worst_length d P : length (worst d P) = d.
Proof. unfold worst. rewrite map_length, seq_length. reflexivity. Qed.

Lemma map_seq_nth (f : nat -> Z) : forall d s k, (k < d)%nat -> nth k (map f (seq s d)) 0 = f (s + k)%nat.
Proof.
  induction d as [|d IH]; intros s k H; [lia|]. cbn [seq map]. destruct k as [|k]; cbn [nth].
  - f_equal. lia.
  - rewrite IH by lia. f_equal. lia.
Qed.

Lemma worst_nth d P k : (k < d)%nat -> nth k (worst d P) 0 = lmax (col k P).
Proof. intros H. unfold worst. rewrite map_seq_nth by exact H. reflexivity. Qed.

Lemma Forall2_nth (R : Z -> Z -> Prop) : forall a b, length a = length b ->
  (forall k, (k < length a)%nat -> R (nth k a 0) (nth k b 0)) -> Forall2 R a b.
Proof.
  induction a as [|x a IH]; intros [|y b] Hl H; cbn in Hl; try discriminate; constructor.
  - apply (H 0%nat). cbn. lia.
  - apply IH; [lia|]. intros k Hk. apply (H (S k)). cbn. lia.
Qed.

Lemma wdom_of_nth : forall a b, length a = length b -> (forall k, (k < length a)%nat -> nth k a 0 <= nth k b 0) -> wdom a b = true.
Proof.
  induction a as [|x a IH]; intros [|y b] Hl H; cbn in Hl; try discriminate; [reflexivity|]. cbn [wdom].
  apply andb_true_iff. split; [apply Z.leb_le; apply (H 0%nat); cbn; lia|]. apply IH; [lia|].
  intros k Hk. apply (H (S k)). cbn. lia.
Qed.

Lemma worst_dominated d P p : In p P -> length p = d -> wdom p (worst d P) = true.
Proof.
  intros Hp Hl. apply wdom_of_nth; [rewrite worst_length; exact Hl|]. intros k Hk. rewrite worst_nth by lia.
  apply lmax_ge. unfold col. apply (in_map (fun q => nth k q 0)). exact Hp.
Qed.

Lemma worst_grows d P p : P <> [] -> Forall2 Z.le (worst d P) (worst d (P ++ [p])).
Proof.
  intros HP. apply Forall2_nth; [rewrite !worst_length; reflexivity|]. intros k Hk. rewrite worst_length in Hk.
  rewrite !worst_nth by exact Hk. unfold col. rewrite map_app. cbn [map]. apply lmax_app_le.
  destruct P; [congruence| discriminate].
Qed.

(* a lower corner below everything *)
Definition lowb (ref : vec) (P : list vec) : Z := fold_right Z.min 0 (concat (ref :: P)).

Lemma fold_min_le l x : In x l -> fold_right Z.min 0 l <= x.
Proof. induction l as [|a l IH]; intros H; [destruct H|]. cbn [fold_right]. destruct H as [<-|H]; [lia| specialize (IH H); lia]. Qed.

Lemma lowb_ref ref P : Forall (fun r => lowb ref P <= r) ref.
Proof. apply Forall_forall. intros r Hr. apply fold_min_le. cbn [concat]. apply in_or_app. left; exact Hr. Qed.

Lemma lowb_above ref P : Above (lowb ref P) P.
Proof.
  intros p x Hp Hx. apply fold_min_le. cbn [concat]. apply in_or_app. right. apply in_concat. exists p. split; assumption.
Qed.

(* ---------- the recorder ---------- *)
Definition WellFormed (d : nat) (evs : list event) : Prop :=
  forall v, In (EObj v) evs -> length v = d.

Definition opt_le (a b : option Z) : Prop :=
  match a, b with None, _ => True | Some x, Some y => x <= y | Some _, None => False end.

Lemma rec_state_app evs evs' : rec_state (evs ++ evs') = rec_state evs ++ rec_state evs'.
Proof. unfold rec_state. apply flat_map_app. Qed.

Lemma rec_state_samelen d evs : WellFormed d evs -> SameLen d (rec_state evs).
Proof.
  intros H. apply Forall_forall. intros p Hp. unfold rec_state in Hp. apply in_flat_map in Hp as (e & He & Hp).
  destruct e as [|v]; [destruct Hp|]. destruct Hp as [<-|[]]. rewrite map_length. apply H, He.
Qed.

(* the value returned is the specified hypervolume of the record w.r.t. its worst point *)
Theorem rec_out_spec d evs : WellFormed d evs -> rec_state evs <> [] ->
  let st := rec_state evs in
  rec_out d evs = Some (hv_spec (lowb (worst d st) st) (worst d st) st)
  /\ (forall p, In p st -> wdom p (worst d st) = true).
Proof.
  intros HW Hne st. pose proof (rec_state_samelen d evs HW) as HL. fold st in HL, Hne. split.
  - unfold rec_out. fold st. destruct st as [|p0 t] eqn:E; [congruence|]. rewrite <- E in *. f_equal.
    apply hv_nd_is_spec; [rewrite worst_length; exact HL| apply lowb_ref| apply lowb_above].
  - intros p Hp. apply worst_dominated; [exact Hp| eapply samelen_in; eassumption].
Qed.

(* failures never change what is recorded *)
Theorem rec_failures_irrelevant evs :
  rec_state evs = rec_state (filter (fun e => match e with EFail => false | EObj _ => true end) evs).
Proof.
  induction evs as [|e evs IH]; [reflexivity|]. destruct e as [|v]; cbn [filter]; [exact IH|].
  change (rec_state (EObj v :: evs)) with (map Z.opp v :: rec_state evs). rewrite IH. reflexivity.
Qed.

(* the value never decreases along a history (SearchEarlyStopping compares successive values) *)
Theorem rec_monotone d evs e : WellFormed d (evs ++ [e]) -> opt_le (rec_out d evs) (rec_out d (evs ++ [e])).
Proof.
  intros HW. assert (HW0 : WellFormed d evs) by (intros v Hv; apply HW; apply in_or_app; left; exact Hv).
  unfold rec_out. rewrite rec_state_app. destruct e as [|v].
  - cbn [rec_state flat_map]. rewrite app_nil_r. destruct (rec_state evs); cbn; [exact I| lia].
  - change (rec_state [EObj v]) with [map Z.opp v]. set (p := map Z.opp v).
    pose proof (rec_state_samelen d evs HW0) as HL.
    assert (Hp : length p = d) by (unfold p; rewrite map_length; apply HW; apply in_or_app; right; left; reflexivity).
    destruct (rec_state evs) as [|p0 t] eqn:E; [destruct ([] ++ [p]); exact I|].
    rewrite <- E in *. set (st := rec_state evs) in *. assert (Hne : st <> []) by (rewrite E; discriminate).
    destruct (st ++ [p]) as [|q0 t'] eqn:E'; [apply app_eq_nil in E' as [_ E']; discriminate|]. rewrite <- E'.
    cbn [opt_le]. set (ref := worst d st). set (ref' := worst d (st ++ [p])).
    assert (HL' : SameLen d (st ++ [p])) by (apply Forall_app; split; [exact HL| constructor; [exact Hp|constructor]]).
    set (lo := lowb ref' (st ++ [p])).
    assert (HA' : Above lo (st ++ [p])) by apply lowb_above.
    assert (HA : Above lo st) by (eapply above_incl; [|exact HA']; apply incl_appl, incl_refl).
    assert (Hr' : Forall (fun r => lo <= r) ref') by apply lowb_ref.
    assert (Hr : Forall (fun r => lo <= r) ref).
    { apply Forall_forall. intros r Hr. apply (In_nth _ _ 0) in Hr as (k & Hk & <-). unfold ref in *.
      rewrite worst_length in Hk. rewrite worst_nth by exact Hk.
      assert (Hc : col k st <> []) by (unfold col; destruct st; [congruence| discriminate]).
      pose proof (lmax_In _ Hc) as Hin. unfold col in Hin. apply in_map_iff in Hin as (q & Hq & Hqin).
      unfold col. rewrite <- Hq. apply (HA q); [exact Hqin|]. apply nth_In. rewrite (samelen_in _ _ _ HL Hqin). exact Hk. }
    rewrite (hv_nd_is_spec lo ref st); [|unfold ref; rewrite worst_length; exact HL| exact Hr| exact HA].
    rewrite (hv_nd_is_spec lo ref' (st ++ [p])); [|unfold ref'; rewrite worst_length; exact HL'| exact Hr'| exact HA'].
    transitivity (hv_spec lo ref' st).
    + apply hv_ref_mono; [unfold ref; rewrite worst_length; exact HL| apply worst_grows, Hne].
    + apply hv_spec_mono. apply incl_appl, incl_refl.
Qed.
Print Assumptions rec_monotone.
