(* C12 - Hypervolume indicator is exact, monotone and side-effect free.  Property theorems only.
   Minimisation; P = point list, ref = reference point, all vectors of length d = length ref >= 0 (no bound on d or |P|).
   lo is any integer below every coordinate (the lower corner of the counting box). *)
From Coq Require Import List ZArith Bool Arith QArith.
Import ListNotations.
Require Import DH.Common.VecOrd DH.C11_Pareto.Model.
Require Import DH.C12_Hypervolume.Model DH.C12_Hypervolume.Lemmas DH.C12_Hypervolume.LemmasGrid
  DH.C12_Hypervolume.LemmasCells DH.C12_Hypervolume.LemmasScale DH.C12_Hypervolume.Check DH.C12_Hypervolume.LemmasProp
  DH.C12_Hypervolume.ModelRecorder DH.C12_Hypervolume.LemmasRecorder DH.C12_Hypervolume.CheckRecorder.
Open Scope Z_scope.

(* exactness anchor: the specification is the number of unit cells of the box prod_k [lo, ref_k) whose lower corner is
   weakly dominated by some point; [cells] enumerates exactly the cells of that box, each once *)
Theorem C12_spec_is_cell_count : forall lo ref P, SameLen (length ref) P ->
  hv_spec lo ref P = Z.of_nat (length (filter (fun c => existsb (fun p => wdom p c) P) (cells lo ref)))
  /\ NoDup (cells lo ref)
  /\ (forall c, In c (cells lo ref) <-> Forall2 (fun x r => lo <= x < r) c ref).
Proof. exact spec_is_cell_count. Qed.
Print Assumptions C12_spec_is_cell_count.

(* never decreases when points are added *)
Theorem C12_monotone : forall lo ref P Q, incl P Q -> hv_spec lo ref P <= hv_spec lo ref Q.
Proof. exact hv_spec_mono. Qed.
Print Assumptions C12_monotone.

(* depends only on the SET of points: permutation and duplication are instances *)
Theorem C12_perm_dup_invariant : forall lo ref P Q, incl P Q -> incl Q P -> hv_spec lo ref P = hv_spec lo ref Q.
Proof. exact hv_spec_set_ext. Qed.
Print Assumptions C12_perm_dup_invariant.

(* the evaluators on compressed grids compute the specification: the fixed compressed grid (hv_fast), the grid
   re-compressed in every cross-section (hv_slice), and the latter on the non-dominated subset of every cross-section
   (hv_nd, what the oracle ok_exact runs) *)
Theorem C12_fast_is_spec : forall lo ref P, SameLen (length ref) P -> Forall (fun r => lo <= r) ref -> Above lo P ->
  hv_fast ref P = hv_spec lo ref P /\ hv_slice ref P = hv_spec lo ref P /\ hv_nd ref P = hv_spec lo ref P.
Proof. exact fast_is_spec. Qed.
Print Assumptions C12_fast_is_spec.

(* general form: ANY grid that is ascending and has no point coordinate strictly inside a slab gives the unit-grid value *)
Theorem C12_grid_refinement : forall lo U P, fits lo U P ->
  vol (map (fun Ud => unit_grid lo (last Ud 0)) U) P = vol U P.
Proof. exact vol_refine. Qed.
Print Assumptions C12_grid_refinement.

(* points on the reference boundary (some coordinate >= the reference's) contribute nothing *)
Theorem C12_boundary_zero : forall lo ref P B, SameLen (length ref) P -> SameLen (length ref) B ->
  (forall b, In b B -> exists k, (k < length ref)%nat /\ nth k ref 0 <= nth k b 0) ->
  hv_spec lo ref (P ++ B) = hv_spec lo ref P /\ hv_spec lo ref B = 0.
Proof. exact boundary_zero. Qed.
Print Assumptions C12_boundary_zero.

Theorem C12_nonneg : forall lo ref P, 0 <= hv_spec lo ref P.
Proof. exact hv_spec_nonneg. Qed.
Print Assumptions C12_nonneg.

(* the non-dominated filter of the code (C11's nds) does not change the value *)
Theorem C12_dominated_irrelevant : forall lo ref P, SameLen (length ref) P -> hv_spec lo ref (nds P) = hv_spec lo ref P.
Proof. exact hv_nds. Qed.
Print Assumptions C12_dominated_irrelevant.

(* scaling every coordinate by c > 0 multiplies the volume by c^d: the rational hv / s^d does not depend on the scale s *)
Theorem C12_scale : forall c lo ref P, 0 < c -> SameLen (length ref) P -> Forall (fun r => lo <= r) ref -> Above lo P ->
  hv_spec (c * lo) (vscale c ref) (map (vscale c) P) = c ^ Z.of_nat (length ref) * hv_spec lo ref P.
Proof. exact hv_scale. Qed.
Print Assumptions C12_scale.

(* the value does not depend on the lower corner lo of the counting box *)
Theorem C12_lo_irrelevant : forall lo lo' ref P, SameLen (length ref) P ->
  Forall (fun r => lo <= r) ref -> Above lo P -> Forall (fun r => lo' <= r) ref -> Above lo' P ->
  hv_spec lo ref P = hv_spec lo' ref P.
Proof. exact lo_irrelevant. Qed.
Print Assumptions C12_lo_irrelevant.

(* the oracles applied to the implementation's outputs decide what they are meant to decide *)
Theorem C12_oracle_exact : forall s lo ref P num den, 0 < s -> Valid lo ref P ->
  (ok_exact s ref P num den = true <->
   0 < den /\ (num # Z.to_pos den == hv_spec lo ref P # Z.to_pos (scale_pow s ref))%Q).
Proof. exact ok_exact_spec. Qed.
Print Assumptions C12_oracle_exact.

Theorem C12_oracle_close : forall s lo ref P num den tnum tden, Valid lo ref P ->
  (ok_close s ref P num den tnum tden = true <->
   0 < den /\ Z.abs (num * scale_pow s ref - hv_spec lo ref P * den) * tden <= tnum * (hv_spec lo ref P * den)).
Proof. exact ok_close_spec. Qed.
Print Assumptions C12_oracle_close.

Theorem C12_oracle_le_eq : forall n1 d1 n2 d2,
  (ok_le n1 d1 n2 d2 = true <-> 0 < d1 /\ 0 < d2 /\ (n1 # Z.to_pos d1 <= n2 # Z.to_pos d2)%Q) /\
  (ok_eq n1 d1 n2 d2 = true <-> 0 < d1 /\ 0 < d2 /\ (n1 # Z.to_pos d1 == n2 # Z.to_pos d2)%Q).
Proof. exact oracle_le_eq. Qed.
Print Assumptions C12_oracle_le_eq.

(* an admissible case (every point weakly dominates ref, d >= 1) satisfies the hypotheses of the theorems above *)
Theorem C12_oracle_case : forall lo ref P, ok_case ref P = true -> Forall (fun r => lo <= r) ref -> Above lo P ->
  Valid lo ref P /\ ref <> [] /\ (forall p, In p P -> wdom p ref = true).
Proof. exact oracle_case. Qed.
Print Assumptions C12_oracle_case.

(* ---- several calls: the recorder of evaluator/callback.py along ANY history of gathered jobs ---- *)

(* the hypervolume grows with the reference point *)
Theorem C12_ref_monotone : forall lo ref ref' P, SameLen (length ref) P -> Forall2 Z.le ref ref' ->
  hv_spec lo ref P <= hv_spec lo ref' P.
Proof. exact hv_ref_mono. Qed.
Print Assumptions C12_ref_monotone.

(* what the recorder returns after a history: the specified hypervolume of the recorded (negated) objectives w.r.t. their
   componentwise worst point, which every recorded point weakly dominates (so the case is inside the property) *)
Theorem C12_recorder_value : forall d evs, WellFormed d evs -> rec_state evs <> [] ->
  let st := rec_state evs in
  rec_out d evs = Some (hv_spec (lowb (worst d st) st) (worst d st) st)
  /\ (forall p, In p st -> wdom p (worst d st) = true).
Proof. exact rec_out_spec. Qed.
Print Assumptions C12_recorder_value.

(* failed jobs never change the record *)
Theorem C12_recorder_failures_irrelevant : forall evs,
  rec_state evs = rec_state (filter (fun e => match e with EFail => false | EObj _ => true end) evs).
Proof. exact rec_failures_irrelevant. Qed.
Print Assumptions C12_recorder_failures_irrelevant.

(* the returned value never decreases from one call to the next, although the reference point moves *)
Theorem C12_recorder_monotone : forall d evs e, WellFormed d (evs ++ [e]) ->
  opt_le (rec_out d evs) (rec_out d (evs ++ [e])).
Proof. exact rec_monotone. Qed.
Print Assumptions C12_recorder_monotone.

Theorem C12_oracle_recorder : forall s d evs num den, 0 < s ->
  (ok_rec_exact s d evs num den = true <->
   let st := rec_state evs in
   WellFormed d evs /\ st <> [] /\ 0 < den /\
   (num # Z.to_pos den == hv_spec (lowb (worst d st) st) (worst d st) st # Z.to_pos (scale_pow s (worst d st)))%Q).
Proof. exact ok_rec_exact_spec. Qed.
Print Assumptions C12_oracle_recorder.

Example C12_example_recorder :
  let h := [EObj [1;1]; EFail; EObj [3;0]; EObj [0;3]; EObj [2;2]] in
  map (fun k => rec_out 2 (firstn k h)) [0;1;2;3;4;5]%nat = [None; Some 0; Some 0; Some 0; Some 1; Some 4]
  /\ WellFormed 2 h.
Proof.
  split; [vm_compute; reflexivity|]. intros v Hv. repeat (destruct Hv as [Hv|Hv]; [try discriminate; injection Hv as <-; reflexivity|]). destruct Hv.
Qed.

(* non-vacuity: concrete sets with ties, duplicates, dominated and boundary points; all evaluators agree *)
Example C12_example_2d :
  let P := [[1;2];[2;1];[3;3];[1;2];[4;0];[0;4]] in
  hv_spec 0 [4;4] P = 8 /\ hv_cells 0 [4;4] P = 8 /\ hv_fast [4;4] P = 8 /\ hv_slice [4;4] P = 8 /\ hv_nd [4;4] P = 8
  /\ SameLen 2 P /\ Above 0 P.
Proof.
  vm_compute. repeat split; try reflexivity.
  - repeat constructor.
  - intros p x Hp Hx. repeat (destruct Hp as [<-|Hp]; [repeat (destruct Hx as [<-|Hx]; [discriminate|]); destruct Hx|]). destruct Hp.
Qed.

Example C12_example_3d :
  let P := [[1;2;0];[2;1;3];[0;3;3];[4;0;0]] in
  hv_spec 0 [4;4;4] P = 27 /\ hv_cells 0 [4;4;4] P = 27 /\ hv_fast [4;4;4] P = 27 /\ hv_slice [4;4;4] P = 27 /\ hv_nd [4;4;4] P = 27.
Proof. vm_compute. repeat split; reflexivity. Qed.

(* one objective: the distance from the best point to the reference; negative coordinates *)
Example C12_example_1d : hv_nd [5] [[-3];[2];[5]] = 8 /\ hv_spec (-3) [5] [[-3];[2];[5]] = 8.
Proof. vm_compute. split; reflexivity. Qed.

Example C12_example_oracle : ok_exact 16 [64;64] [[16;32];[32;16]] 8 1 = true /\ ok_exact 16 [64;64] [[16;32];[32;16]] 17 2 = false
  /\ ok_case [4;4] [[1;2];[4;0]] = true /\ ok_case [4;4] [[5;0]] = false.
Proof. vm_compute. repeat split; reflexivity. Qed.

(* witnesses of the defects found in the pinned implementation (replayed from corpus/C12): the oracle rejects the value
   the unrepaired code returns and accepts the exact one.  F27: 5 objectives, returned 7 (in this order of the points);
   F26: 6 objectives, all points on the reference boundary, returned 48. *)
Example C12_witness_F27 :
  let P := [[2;2;1;2;1];[1;2;2;2;1];[2;2;1;1;2]] in
  hv_spec 0 [3;3;3;3;3] P = 8 /\ ok_exact 1 [3;3;3;3;3] P 7 1 = false /\ ok_exact 1 [3;3;3;3;3] P 8 1 = true.
Proof. vm_compute. repeat split; reflexivity. Qed.

Example C12_witness_F26 :
  let P := [[1;3;1;0;2;0];[0;1;1;3;3;0];[0;3;2;2;2;1]] in
  hv_spec 0 [3;3;3;3;3;3] P = 0 /\ ok_exact 1 [3;3;3;3;3;3] P 48 1 = false /\ ok_exact 1 [3;3;3;3;3;3] P 0 1 = true.
Proof. vm_compute. repeat split; reflexivity. Qed.
