(* C12: laws of slicing on a fixed grid, the 1-D refinement lemma and its d-dimensional lift. *)
From Coq Require Import List ZArith Bool Lia Arith.
Import ListNotations.
Require Import DH.Common.VecOrd DH.C12_Hypervolume.Model.
Open Scope Z_scope.

(* ---------- integ ---------- *)
Lemma slabs_cons2 a b t : slabs (a :: b :: t) = (a, b) :: slabs (b :: t).
Proof. reflexivity. Qed.
Lemma integ_cons2 a b t g : integ (a :: b :: t) g = (b - a) * g a + integ (b :: t) g.
Proof. reflexivity. Qed.
Lemma integ_single a g : integ [a] g = 0. Proof. reflexivity. Qed.
Lemma integ_nil g : integ [] g = 0. Proof. reflexivity. Qed.

(* ascending grid = every slab has non-negative width *)
Definition asc (U : list Z) : Prop := Forall (fun ab => fst ab <= snd ab) (slabs U).

Lemma integ_mono U g h : asc U -> (forall a, g a <= h a) -> integ U g <= integ U h.
Proof.
  unfold integ, asc. induction (slabs U) as [|[a b] t IH]; intros Hs Hgh; cbn [fold_right]; [lia|].
  inversion Hs as [|? ? Hab Ht]; subst. cbn [fst snd] in *. specialize (IH Ht Hgh). specialize (Hgh a). nia.
Qed.

Lemma integ_ext_in U g h : (forall a b, In (a, b) (slabs U) -> g a = h a) -> integ U g = integ U h.
Proof.
  unfold integ. induction (slabs U) as [|[a b] t IH]; intros Hgh; cbn [fold_right]; [reflexivity|].
  rewrite IH by (intros a' b' Hin; apply (Hgh a' b'); right; exact Hin).
  cbn [fst snd]. rewrite (Hgh a b) by (left; reflexivity). reflexivity.
Qed.

Lemma integ_ext U g h : (forall a, g a = h a) -> integ U g = integ U h.
Proof. intros H. apply integ_ext_in. intros a b _. apply H. Qed.

Lemma integ_zero U g : (forall a b, In (a, b) (slabs U) -> g a = 0) -> integ U g = 0.
Proof.
  unfold integ. induction (slabs U) as [|[a b] t IH]; intros Hg; cbn [fold_right]; [reflexivity|].
  rewrite IH by (intros a' b' Hin; apply (Hg a' b'); right; exact Hin).
  cbn [fst snd]. rewrite (Hg a b) by (left; reflexivity). lia.
Qed.

Lemma integ_nonneg U g : asc U -> (forall a, 0 <= g a) -> 0 <= integ U g.
Proof.
  intros HU Hg. rewrite <- (integ_zero U (fun _ => 0)) by reflexivity. apply integ_mono; assumption.
Qed.

(* ---------- proj ---------- *)
Lemma proj_incl a S S' : incl S S' -> incl (proj a S) (proj a S').
Proof.
  intros H x Hx. unfold proj in *. apply in_map_iff in Hx as [p [<- Hp]]. apply filter_In in Hp as [Hp Hle].
  apply in_map_iff. exists p. split; [reflexivity|]. apply filter_In. auto.
Qed.

Lemma proj_incl_tl a S : incl (proj a S) (map (@tl Z) S).
Proof.
  intros x Hx. unfold proj in Hx. apply in_map_iff in Hx as [p [<- Hp]]. apply filter_In in Hp as [Hp _].
  apply in_map. exact Hp.
Qed.

Lemma proj_nil a : proj a [] = []. Proof. reflexivity. Qed.

Lemma proj_app a S T : proj a (S ++ T) = proj a S ++ proj a T.
Proof. unfold proj. rewrite filter_app, map_app. reflexivity. Qed.

(* the cross-section only depends on which first coordinates are <= a *)
Lemma proj_same a x S : (forall p, In p S -> (hd 0 p <=? x) = (hd 0 p <=? a)) -> proj x S = proj a S.
Proof. intros H. unfold proj. f_equal. apply filter_ext_in. exact H. Qed.

Lemma proj_empty x S : (forall p, In p S -> x < hd 0 p) -> proj x S = [].
Proof.
  intros H. unfold proj. induction S as [|p S IH]; [reflexivity|]. cbn [filter].
  assert (E : (hd 0 p <=? x) = false) by (apply Z.leb_gt; apply H; left; reflexivity).
  rewrite E. apply IH. intros q Hq. apply H. right; exact Hq.
Qed.

Lemma proj_samelen m a P : SameLen (S m) P -> SameLen m (proj a P).
Proof.
  intros H. apply Forall_forall. intros v Hv. unfold proj in Hv. apply in_map_iff in Hv as [p [<- Hp]].
  apply filter_In in Hp as [Hp _]. pose proof (samelen_in _ _ _ H Hp) as Hl. destruct p; cbn in *; lia.
Qed.

(* ---------- vol on a fixed grid ---------- *)
Lemma nonempty_incl S S' : incl S S' -> nonempty S <= nonempty S'.
Proof.
  intros H. destruct S as [|p S]; destruct S' as [|p' S']; cbn; try lia. exfalso. apply (H p). left; reflexivity.
Qed.

Lemma nonempty_01 S : 0 <= nonempty S <= 1.
Proof. destruct S; cbn; lia. Qed.

Lemma vol_nil U : vol U [] = 0.
Proof. destruct U as [|Ud U']; cbn [vol nonempty]; [reflexivity|]. apply integ_zero. intros a b _.
  rewrite proj_nil. revert a. induction U' as [|Ue U'' IH]; intros a; cbn [vol nonempty]; [reflexivity|].
  apply integ_zero. intros a' b' _. rewrite proj_nil. apply (IH a').
Qed.

Theorem vol_mono U : Forall asc U -> forall S S', incl S S' -> vol U S <= vol U S'.
Proof.
  induction U as [|Ud U' IH]; intros HU S S' Hincl; cbn [vol].
  - apply nonempty_incl. exact Hincl.
  - inversion HU as [|? ? Hd HU']; subst. apply integ_mono; [exact Hd|].
    intros a. apply IH; [exact HU'|]. apply proj_incl. exact Hincl.
Qed.

Theorem vol_set_ext U : forall S S', incl S S' -> incl S' S -> vol U S = vol U S'.
Proof.
  induction U as [|Ud U' IH]; intros S S' H1 H2; cbn [vol].
  - pose proof (nonempty_incl _ _ H1). pose proof (nonempty_incl _ _ H2). lia.
  - apply integ_ext. intros a. apply IH; apply proj_incl; assumption.
Qed.

Theorem vol_nonneg U : Forall asc U -> forall S, 0 <= vol U S.
Proof.
  induction U as [|Ud U' IH]; intros HU S; cbn [vol]; [apply nonempty_01|].
  inversion HU as [|? ? Hd HU']; subst. apply integ_nonneg; [exact Hd|]. intros a. apply IH. exact HU'.
Qed.

(* ---------- ascending grids ---------- *)
Lemma asc_nil : asc []. Proof. constructor. Qed.
Lemma asc_single a : asc [a]. Proof. constructor. Qed.
Lemma asc_cons2 a b t : asc (a :: b :: t) <-> a <= b /\ asc (b :: t).
Proof.
  unfold asc. rewrite slabs_cons2. split.
  - intros H. inversion H; subst. auto.
  - intros [H1 H2]. constructor; assumption.
Qed.

Lemma asc_tail a t : asc (a :: t) -> asc t.
Proof. destruct t as [|b t]; [intros; apply asc_nil|]. intros H. apply asc_cons2 in H. tauto. Qed.

Lemma asc_hd_le t : forall a, asc (a :: t) -> forall x, In x (a :: t) -> a <= x.
Proof.
  induction t as [|b t IH]; intros a H x Hx.
  - destruct Hx as [<-|[]]. lia.
  - apply asc_cons2 in H as [Hab Ht]. destruct Hx as [<-|Hx]; [lia|]. specialize (IH b Ht x Hx). lia.
Qed.

Lemma asc_cons_iff y l : asc (y :: l) <-> asc l /\ Forall (fun z => y <= z) l.
Proof.
  split.
  - intros H. split; [eapply asc_tail; exact H|]. apply Forall_forall. intros z Hz.
    apply (asc_hd_le l y H). right; exact Hz.
  - intros [H1 H2]. destruct l as [|b t]; [apply asc_single|]. apply asc_cons2. split; [|exact H1].
    inversion H2; subst. assumption.
Qed.

Lemma slabs_in_l U : forall a b, In (a, b) (slabs U) -> In a U /\ In b U.
Proof.
  induction U as [|x U IH]; intros a b H; [destruct H|]. destruct U as [|y t]; [destruct H|].
  rewrite slabs_cons2 in H. destruct H as [E|H].
  - injection E as <- <-. split; [left; reflexivity| right; left; reflexivity].
  - destruct (IH a b H). split; right; assumption.
Qed.

(* a node of an ascending grid is never strictly inside one of its slabs *)
Lemma asc_node_not_inside U : asc U -> forall x a b, In x U -> In (a, b) (slabs U) -> x <= a \/ b <= x.
Proof.
  induction U as [|u U IH]; intros HU x a b Hx Hab; [destruct Hx|].
  destruct U as [|v t]; [destruct Hab|]. pose proof HU as HU0. apply asc_cons2 in HU as [Huv Ht].
  rewrite slabs_cons2 in Hab. destruct Hab as [E|Hab].
  - injection E as <- <-. destruct Hx as [<-|Hx]; [left; lia|]. right. apply (asc_hd_le t v Ht). exact Hx.
  - destruct Hx as [<-|Hx]; [|apply IH; assumption]. left.
    destruct (slabs_in_l _ _ _ Hab) as [Ha _]. pose proof (asc_hd_le t v Ht a Ha). lia.
Qed.

Lemma asc_last_ge t : forall a, asc (a :: t) -> a <= last (a :: t) 0.
Proof.
  intros a H. apply (asc_hd_le t a H). clear H. revert a. induction t as [|b t IH]; intros a; [left; reflexivity|].
  right. change (last (a :: b :: t) 0) with (last (b :: t) 0). apply IH.
Qed.

(* ---------- unit grids ---------- *)
Lemma unit_from_S lo n : unit_from lo (S n) = lo :: unit_from (lo + 1) n. Proof. reflexivity. Qed.

Lemma unit_from_hd lo n : exists t, unit_from lo n = lo :: t.
Proof. destruct n; cbn; eauto. Qed.

Lemma integ_unit_from lo n g : integ (unit_from lo (S n)) g = g lo + integ (unit_from (lo + 1) n) g.
Proof.
  rewrite unit_from_S. destruct (unit_from_hd (lo + 1) n) as [t Ht]. rewrite Ht. rewrite integ_cons2. lia.
Qed.

Lemma integ_unit_const n : forall lo g, (forall a, lo <= a < lo + Z.of_nat n -> g a = g lo) ->
  integ (unit_from lo n) g = Z.of_nat n * g lo.
Proof.
  induction n as [|n IH]; intros lo g H.
  - cbn. reflexivity.
  - rewrite integ_unit_from. rewrite (IH (lo + 1) g).
    + destruct n as [|n'].
      * change (Z.of_nat 0) with 0. change (Z.of_nat 1) with 1. ring.
      * rewrite (H (lo + 1)) by lia. rewrite !Nat2Z.inj_succ. ring.
    + intros a Ha. rewrite (H a) by lia. rewrite (H (lo + 1)) by lia. reflexivity.
Qed.

Lemma integ_unit_split n : forall m lo g,
  integ (unit_from lo (n + m)) g = integ (unit_from lo n) g + integ (unit_from (lo + Z.of_nat n) m) g.
Proof.
  induction n as [|n IH]; intros m lo g.
  - change (0 + m)%nat with m. change (unit_from lo 0) with [lo]. rewrite integ_single.
    replace (lo + Z.of_nat 0) with lo by lia. lia.
  - replace (S n + m)%nat with (S (n + m)) by lia. rewrite !integ_unit_from, IH.
    replace (lo + 1 + Z.of_nat n) with (lo + Z.of_nat (S n)) by lia. lia.
Qed.

Lemma slabs_unit_from n : forall lo a b, In (a, b) (slabs (unit_from lo n)) -> b = a + 1 /\ lo <= a < lo + Z.of_nat n.
Proof.
  induction n as [|n IH]; intros lo a b H; [destruct H|].
  rewrite unit_from_S in H. destruct (unit_from_hd (lo + 1) n) as [t Ht]. rewrite Ht in H.
  rewrite slabs_cons2 in H. destruct H as [E|H].
  - injection E as <- <-. lia.
  - rewrite <- Ht in H. destruct (IH _ _ _ H). lia.
Qed.

Lemma asc_unit_from n lo : asc (unit_from lo n).
Proof.
  unfold asc. apply Forall_forall. intros [a b] H. destruct (slabs_unit_from _ _ _ _ H). cbn. lia.
Qed.

Lemma asc_unit_grid lo hi : asc (unit_grid lo hi).
Proof. apply asc_unit_from. Qed.

(* ---------- the 1-D refinement lemma ---------- *)
(* g constant on every slab of an ascending grid U: the unit grid from its first to its last node gives the same sum *)
Lemma integ_refine g : forall U, asc U -> U <> [] ->
  (forall a b, In (a, b) (slabs U) -> forall x, a <= x < b -> g x = g a) ->
  integ (unit_grid (hd 0 U) (last U 0)) g = integ U g.
Proof.
  induction U as [|a U IH]; intros Hs Hne Hc; [congruence|].
  destruct U as [|b t].
  - cbn. unfold unit_grid. cbn. replace (a - a) with 0 by lia. reflexivity.
  - pose proof Hs as Hs0. apply asc_cons2 in Hs as [Hab Hs'].
    pose proof (asc_last_ge t b Hs') as Hlast.
    rewrite integ_cons2. rewrite <- IH; [| exact Hs' | discriminate |].
    + cbn [hd]. unfold unit_grid. change (last (a :: b :: t) 0) with (last (b :: t) 0).
      set (L := last (b :: t) 0) in *.
      replace (Z.to_nat (L - a)) with (Z.to_nat (b - a) + Z.to_nat (L - b))%nat by lia.
      rewrite integ_unit_split. rewrite Z2Nat.id by lia. replace (a + (b - a)) with b by lia.
      rewrite integ_unit_const.
      * rewrite Z2Nat.id by lia. reflexivity.
      * intros x Hx. rewrite Z2Nat.id in Hx by lia. apply (Hc a b); [left; reflexivity| lia].
    + intros a' b' Hin x Hx. apply (Hc a' b'); [right; exact Hin| exact Hx].
Qed.

(* the same with a lower end lo below the first node, g vanishing below the first node *)
Lemma integ_refine_lo g lo : forall U, asc U -> U <> [] -> lo <= hd 0 U ->
  (forall a b, In (a, b) (slabs U) -> forall x, a <= x < b -> g x = g a) ->
  (forall x, lo <= x < hd 0 U -> g x = 0) ->
  integ (unit_grid lo (last U 0)) g = integ U g.
Proof.
  intros U HU Hne Hlo Hc Hz. destruct U as [|u t]; [congruence|]. cbn [hd] in *.
  assert (E : integ (lo :: u :: t) g = integ (u :: t) g).
  { rewrite integ_cons2. destruct (Z.eq_dec lo u) as [->|Hneq]; [lia|]. rewrite (Hz lo) by lia. lia. }
  rewrite <- E. change (last (u :: t) 0) with (last (lo :: u :: t) 0).
  change lo with (hd 0 (lo :: u :: t)) at 1. apply integ_refine.
  - apply asc_cons2. split; assumption.
  - discriminate.
  - intros a b Hin x Hx. rewrite slabs_cons2 in Hin. destruct Hin as [Eab|Hin].
    + injection Eab as <- <-. rewrite (Hz x) by lia. rewrite (Hz lo) by lia. reflexivity.
    + apply (Hc a b Hin x Hx).
Qed.

(* ---------- the d-dimensional lift ---------- *)
(* grid U fits the point list S above lo: in every dimension k the grid is ascending and non-empty, starts at or above
   lo, no k-th coordinate is below its first node, and no k-th coordinate lies strictly inside one of its slabs *)
Definition fits1 (lo : Z) (Ud : list Z) (col : list Z) : Prop :=
  asc Ud /\ Ud <> [] /\ lo <= hd 0 Ud
  /\ (forall x, In x col -> hd 0 Ud <= x)
  /\ (forall x a b, In x col -> In (a, b) (slabs Ud) -> x <= a \/ b <= x).

Fixpoint fits (lo : Z) (U : list (list Z)) (S : list vec) : Prop :=
  match U with
  | [] => True
  | Ud :: U' => fits1 lo Ud (map (hd 0) S) /\ fits lo U' (map (@tl Z) S)
  end.

Lemma fits1_incl lo Ud col col' : incl col col' -> fits1 lo Ud col' -> fits1 lo Ud col.
Proof.
  intros Hi (H1 & H2 & H3 & H4 & H5). split; [exact H1|]. split; [exact H2|]. split; [exact H3|]. split.
  - intros x Hx. apply H4, Hi, Hx.
  - intros x a b Hx. apply H5. apply Hi, Hx.
Qed.

Lemma fits_incl lo : forall U S S', incl S S' -> fits lo U S' -> fits lo U S.
Proof.
  induction U as [|Ud U' IH]; intros S S' Hi H; [exact I|]. destruct H as [H1 H2]. split.
  - eapply fits1_incl; [|exact H1]. apply incl_map. exact Hi.
  - eapply IH; [|exact H2]. apply incl_map. exact Hi.
Qed.

(* one slicing step: any function F of the cross-section that vanishes on the empty cross-section *)
Lemma slice_refine lo Ud S (F : list vec -> Z) : fits1 lo Ud (map (hd 0) S) -> F [] = 0 ->
  integ (unit_grid lo (last Ud 0)) (fun a => F (proj a S)) = integ Ud (fun a => F (proj a S)).
Proof.
  intros (Hasc & Hne & Hlo & Hhd & Hgap) HF0.
  apply integ_refine_lo; try assumption.
  - intros a b Hab x Hx. f_equal. apply proj_same. intros p Hp.
    assert (Hin : In (hd 0 p) (map (hd 0) S)) by (apply in_map; exact Hp).
    destruct (Hgap _ _ _ Hin Hab) as [Hle|Hge].
    + transitivity true; [apply Z.leb_le; lia| symmetry; apply Z.leb_le; lia].
    + transitivity false; [apply Z.leb_gt; lia| symmetry; apply Z.leb_gt; lia].
  - intros x Hx. rewrite proj_empty; [exact HF0|]. intros p Hp.
    assert (Hin : In (hd 0 p) (map (hd 0) S)) by (apply in_map; exact Hp). specialize (Hhd _ Hin). lia.
Qed.

Theorem vol_refine lo : forall U S, fits lo U S ->
  vol (map (fun Ud => unit_grid lo (last Ud 0)) U) S = vol U S.
Proof.
  induction U as [|Ud U' IH]; intros S HF; [reflexivity|].
  destruct HF as [HF1 HF']. cbn [map vol].
  rewrite (integ_ext _ _ (fun a => vol U' (proj a S))).
  2:{ intros a. apply IH. eapply fits_incl; [apply proj_incl_tl| exact HF']. }
  apply (slice_refine lo Ud S (vol U')); [exact HF1| apply vol_nil].
Qed.
