(* Boolean oracle applied to the IMPLEMENTATION's values (exact rationals of the binary64 outputs), with its
   reflection lemma.  ok_C09 returns the number of the first clause of the property that fails (0 = none):
     1 shape of transform(X)            2 every warped coordinate inside transformed_bounds
     3 shape of inverse_transform(..)   4 every round-tripped point is a member of the space
     5 integer / categorical values returned exactly, real values within the stated tolerance          *)
From Coq Require Import List ZArith QArith Qabs Bool Arith.
Import ListNotations.
Require Import DH.C09_Transforms.Dims.
Open Scope Q_scope.

Fixpoint forall2b {A B} (f : A -> B -> bool) (l : list A) (m : list B) : bool :=
  match l, m with
  | [], [] => true
  | a :: l', b :: m' => f a b && forall2b f l' m'
  | _, _ => false
  end.

Lemma forall2b_Forall2 {A B} (f : A -> B -> bool) l m :
  forall2b f l m = true <-> Forall2 (fun a b => f a b = true) l m.
Proof.
  revert m. induction l as [|a l IH]; intros [|b m]; cbn [forall2b]; split; intros H;
    try discriminate; try constructor; try (inversion H; fail).
  - apply andb_true_iff in H as [H1 H2]. exact H1.
  - apply andb_true_iff in H as [H1 H2]. apply IH. exact H2.
  - inversion H as [|? ? ? ? H1 H2]; subst. apply andb_true_iff. split; [exact H1| apply IH; exact H2].
Qed.

Lemma Forall2_imp {A B} (P Q : A -> B -> Prop) l m :
  (forall a b, P a b -> Q a b) -> Forall2 P l m -> Forall2 Q l m.
Proof. intros H F. induction F; constructor; auto. Qed.

Definition all_len (n : nat) (rows : list (list Q)) : bool := forallb (fun r => Nat.eqb (length r) n) rows.

Lemma all_len_spec n rows : all_len n rows = true <-> Forall (fun r => length r = n) rows.
Proof.
  unfold all_len. rewrite forallb_forall, Forall_forall. split; intros H r Hr.
  - apply Nat.eqb_eq, H, Hr.
  - apply Nat.eqb_eq, H, Hr.
Qed.

Definition in_bound (z : Q) (b : Q * Q) : bool := Qle_bool (fst b) z && Qle_bool z (snd b).

(* tolerance of a real dimension: absolute + relative part (computed by the harness from ulps, see c09.py) *)
Definition close (tol : Q * Q) (x x' : Q) : bool := Qle_bool (Qabs (x' - x)) (fst tol + snd tol * Qabs x).

Definition same_cell (d : dim) (tol : Q * Q) (x x' : Q) : bool :=
  match d with
  | DReal _ _ _ _ => close tol x x'
  | _ => Qeq_bool x x'
  end.

Fixpoint same_row (sp : space) (tols : list (Q * Q)) (row row' : list Q) : bool :=
  match sp, tols, row, row' with
  | [], [], [], [] => true
  | d :: sp', t :: tols', x :: r, x' :: r' => same_cell d t x x' && same_row sp' tols' r r'
  | _, _, _, _ => false
  end.

Inductive SameRow : space -> list (Q * Q) -> list Q -> list Q -> Prop :=
| SameNil : SameRow [] [] [] []
| SameCons d sp t tols x r x' r' :
    same_cell d t x x' = true -> SameRow sp tols r r' -> SameRow (d :: sp) (t :: tols) (x :: r) (x' :: r').

Lemma same_row_spec sp : forall tols row row', same_row sp tols row row' = true <-> SameRow sp tols row row'.
Proof.
  induction sp as [|d sp IH]; intros [|t tols] [|x r] [|x' r']; cbn [same_row]; split; intros H;
    try discriminate; try (inversion H; fail); try constructor.
  - apply andb_true_iff in H as [H1 _]. exact H1.
  - apply andb_true_iff in H as [_ H2]. apply IH, H2.
  - inversion H; subst. apply andb_true_iff. split; [assumption| apply IH; assumption].
Qed.

Record Spec_C09 (sp : space) (tb : list (Q * Q)) (tols : list (Q * Q)) (X Xt X' : list (list Q)) : Prop := {
  spec_shape_t : length Xt = length X /\ Forall (fun r => length r = tdims sp) Xt;
  spec_bounds : Forall (fun r => Forall2 (fun z b => in_bound z b = true) r tb) Xt;
  spec_shape_inv : length X' = length X /\ Forall (fun r => length r = length sp) X';
  spec_member : Forall (fun r => in_space sp r = true) X';
  spec_same : Forall2 (SameRow sp tols) X X' }.

Definition ok_C09 (sp : space) (tb tols : list (Q * Q)) (X Xt X' : list (list Q)) : Z :=
  if negb (Nat.eqb (length Xt) (length X) && all_len (tdims sp) Xt) then 1%Z
  else if negb (forallb (fun r => forall2b in_bound r tb) Xt) then 2%Z
  else if negb (Nat.eqb (length X') (length X) && all_len (length sp) X') then 3%Z
  else if negb (forallb (in_space sp) X') then 4%Z
  else if negb (forall2b (same_row sp tols) X X') then 5%Z
  else 0%Z.

Lemma ok_C09_spec sp tb tols X Xt X' : ok_C09 sp tb tols X Xt X' = 0%Z <-> Spec_C09 sp tb tols X Xt X'.
Proof.
  unfold ok_C09. split.
  - intros H.
    destruct (Nat.eqb (length Xt) (length X) && all_len (tdims sp) Xt) eqn:E1; cbn [negb] in H; [|discriminate].
    destruct (forallb (fun r => forall2b in_bound r tb) Xt) eqn:E2; cbn [negb] in H; [|discriminate].
    destruct (Nat.eqb (length X') (length X) && all_len (length sp) X') eqn:E3; cbn [negb] in H; [|discriminate].
    destruct (forallb (in_space sp) X') eqn:E4; cbn [negb] in H; [|discriminate].
    destruct (forall2b (same_row sp tols) X X') eqn:E5; cbn [negb] in H; [|discriminate].
    apply andb_true_iff in E1 as [E1a E1b]. apply andb_true_iff in E3 as [E3a E3b].
    constructor.
    + split; [apply Nat.eqb_eq, E1a| apply all_len_spec, E1b].
    + rewrite forallb_forall in E2. apply Forall_forall. intros r Hr. apply forall2b_Forall2, E2, Hr.
    + split; [apply Nat.eqb_eq, E3a| apply all_len_spec, E3b].
    + rewrite forallb_forall in E4. apply Forall_forall. exact E4.
    + apply forall2b_Forall2 in E5. eapply Forall2_imp; [|exact E5]. intros a b Hab. apply same_row_spec, Hab.
  - intros [[S1 S2] S3 [S4 S5] S6 S7].
    apply Nat.eqb_eq in S1. apply all_len_spec in S2. rewrite S1, S2. cbn [andb negb].
    assert (E2 : forallb (fun r => forall2b in_bound r tb) Xt = true).
    { apply forallb_forall. intros r Hr. rewrite Forall_forall in S3. apply forall2b_Forall2, S3, Hr. }
    rewrite E2. cbn [negb].
    apply Nat.eqb_eq in S4. apply all_len_spec in S5. rewrite S4, S5. cbn [andb negb].
    assert (E4 : forallb (in_space sp) X' = true).
    { apply forallb_forall. rewrite Forall_forall in S6. exact S6. }
    rewrite E4. cbn [negb].
    assert (E5 : forall2b (same_row sp tols) X X' = true).
    { apply forall2b_Forall2. eapply Forall2_imp; [|exact S7]. intros a b Hab. apply same_row_spec, Hab. }
    rewrite E5. reflexivity.
Qed.
