(* Numeric helper lemmas: comparisons, clip, round-half-even, truncation. *)
From Coq Require Import List ZArith QArith Qround Qabs Bool Lia Lqa.
Import ListNotations.
Require Import DH.C09_Transforms.Dims.
Open Scope Q_scope.

Lemma Qltb_lt x y : Qltb x y = true <-> x < y.
Proof.
  unfold Qltb. rewrite negb_true_iff. split; intros H.
  - destruct (Qlt_le_dec x y) as [L|L]; [exact L|]. apply Qle_bool_iff in L. congruence.
  - destruct (Qle_bool y x) eqn:E; [|reflexivity]. apply Qle_bool_iff in E. lra.
Qed.

Lemma Qltb_ge x y : Qltb x y = false <-> y <= x.
Proof.
  unfold Qltb. rewrite negb_false_iff. apply Qle_bool_iff.
Qed.

Lemma Qeq_bool_refl x : Qeq_bool x x = true.
Proof. apply Qeq_bool_iff. reflexivity. Qed.

Lemma Qeq_bool_false x y : Qeq_bool x y = false <-> ~ x == y.
Proof.
  split; [apply Qeq_bool_neq|]. intros H. destruct (Qeq_bool x y) eqn:E; [|reflexivity].
  apply Qeq_bool_iff in E. contradiction.
Qed.

(* ---------- clip ---------- *)
Lemma clipQ_in lo hi x : lo <= hi -> lo <= clipQ lo hi x <= hi.
Proof.
  intros Hlh. unfold clipQ.
  destruct (Qltb x lo) eqn:E1.
  - destruct (Qltb hi lo) eqn:E2; [apply Qltb_lt in E2; lra| lra].
  - apply Qltb_ge in E1. destruct (Qltb hi x) eqn:E2; [lra|]. apply Qltb_ge in E2. lra.
Qed.

Lemma clipQ_id lo hi x : lo <= x <= hi -> clipQ lo hi x = x.
Proof.
  intros [H1 H2]. unfold clipQ.
  destruct (Qltb x lo) eqn:E1; [apply Qltb_lt in E1; lra|].
  destruct (Qltb hi x) eqn:E2; [apply Qltb_lt in E2; lra| reflexivity].
Qed.

(* ---------- floor ---------- *)
Lemma inj_p1 n : inject_Z (n + 1) == inject_Z n + 1.
Proof. rewrite inject_Z_plus. reflexivity. Qed.
Lemma inj_m1 n : inject_Z (n - 1) == inject_Z n - 1.
Proof. unfold Z.sub. rewrite inject_Z_plus. unfold Qminus. reflexivity. Qed.

Lemma Qfloor_unique (x : Q) (n : Z) : inject_Z n <= x -> x < inject_Z (n + 1) -> Qfloor x = n.
Proof.
  intros H1 H2.
  assert (A : (n <= Qfloor x)%Z). { rewrite <- (Qfloor_Z n). apply Qfloor_resp_le, H1. }
  assert (B : (Qfloor x < n + 1)%Z).
  { rewrite Zlt_Qlt. eapply Qle_lt_trans; [apply Qfloor_le| exact H2]. }
  lia.
Qed.

(* ---------- round half even ---------- *)
Lemma rhe_comp x y : x == y -> rhe x = rhe y.
Proof.
  intros H. unfold rhe. rewrite (Qfloor_comp x y H).
  assert (E : x - inject_Z (Qfloor y) == y - inject_Z (Qfloor y)) by (rewrite H; reflexivity).
  assert (L1 : Qltb (x - inject_Z (Qfloor y)) (1 # 2) = Qltb (y - inject_Z (Qfloor y)) (1 # 2)).
  { destruct (Qltb (y - inject_Z (Qfloor y)) (1 # 2)) eqn:A.
    - apply Qltb_lt. apply Qltb_lt in A. lra.
    - apply Qltb_ge. apply Qltb_ge in A. lra. }
  assert (L2 : Qltb (1 # 2) (x - inject_Z (Qfloor y)) = Qltb (1 # 2) (y - inject_Z (Qfloor y))).
  { destruct (Qltb (1 # 2) (y - inject_Z (Qfloor y))) eqn:A.
    - apply Qltb_lt. apply Qltb_lt in A. lra.
    - apply Qltb_ge. apply Qltb_ge in A. lra. }
  rewrite L1, L2. reflexivity.
Qed.

Lemma rhe_inject n : rhe (inject_Z n) = n.
Proof.
  unfold rhe. rewrite Qfloor_Z.
  assert (E : Qltb (inject_Z n - inject_Z n) (1 # 2) = true) by (apply Qltb_lt; lra).
  rewrite E. reflexivity.
Qed.

(* a value closer than 1/2 to an integer rounds to that integer *)
Lemma rhe_near x n : inject_Z n - (1 # 2) < x -> x < inject_Z n + (1 # 2) -> rhe x = n.
Proof.
  intros H1 H2. unfold rhe.
  destruct (Qlt_le_dec x (inject_Z n)) as [L|L].
  - assert (F : Qfloor x = (n - 1)%Z).
    { apply Qfloor_unique.
      - rewrite inj_m1. lra.
      - replace (n - 1 + 1)%Z with n by lia. exact L. }
    rewrite F. pose proof (inj_m1 n) as M.
    assert (E1 : Qltb (x - inject_Z (n - 1)) (1 # 2) = false) by (apply Qltb_ge; lra).
    assert (E2 : Qltb (1 # 2) (x - inject_Z (n - 1)) = true) by (apply Qltb_lt; lra).
    rewrite E1, E2. lia.
  - assert (F : Qfloor x = n).
    { apply Qfloor_unique; [exact L|]. rewrite inj_p1. lra. }
    rewrite F.
    assert (E1 : Qltb (x - inject_Z n) (1 # 2) = true) by (apply Qltb_lt; lra).
    rewrite E1. reflexivity.
Qed.

Lemma rhe_cases x : rhe x = Qfloor x \/ (rhe x = (Qfloor x + 1)%Z /\ inject_Z (Qfloor x) + (1 # 2) <= x).
Proof.
  unfold rhe.
  destruct (Qltb (x - inject_Z (Qfloor x)) (1 # 2)) eqn:E1; [left; reflexivity|].
  apply Qltb_ge in E1.
  destruct (Qltb (1 # 2) (x - inject_Z (Qfloor x))) eqn:E2.
  - right. split; [reflexivity| lra].
  - destruct (Z.even (Qfloor x)); [left; reflexivity| right; split; [reflexivity| lra]].
Qed.

Lemma rhe_ge x a : inject_Z a <= x -> (a <= rhe x)%Z.
Proof.
  intros H. assert (A : (a <= Qfloor x)%Z). { rewrite <- (Qfloor_Z a). apply Qfloor_resp_le, H. }
  destruct (rhe_cases x) as [E|[E _]]; rewrite E; lia.
Qed.

Lemma rhe_le x b : x <= inject_Z b -> (rhe x <= b)%Z.
Proof.
  intros H.
  assert (A : (Qfloor x <= b)%Z). { rewrite <- (Qfloor_Z b). apply Qfloor_resp_le, H. }
  destruct (rhe_cases x) as [E|[E E2]]; rewrite E; [exact A|].
  assert (B : (Qfloor x < b)%Z).
  { rewrite Zlt_Qlt. lra. }
  lia.
Qed.

(* ---------- integrality ---------- *)
Lemma is_intQ_inject n : is_intQ (inject_Z n) = true.
Proof. unfold is_intQ. rewrite Qfloor_Z. apply Qeq_bool_refl. Qed.

Lemma is_intQ_eq x : is_intQ x = true -> x == inject_Z (Qfloor x).
Proof. unfold is_intQ. intros H. apply Qeq_bool_iff in H. symmetry. exact H. Qed.

Lemma rhe_int x : is_intQ x = true -> inject_Z (rhe x) == x.
Proof.
  intros H. apply is_intQ_eq in H. rewrite (rhe_comp _ _ H), rhe_inject. symmetry. exact H.
Qed.

Lemma Qtrunc_comp x y : x == y -> Qtrunc x = Qtrunc y.
Proof.
  intros H. unfold Qtrunc.
  assert (E : Qltb x 0 = Qltb y 0).
  { destruct (Qltb y 0) eqn:A; [apply Qltb_lt; apply Qltb_lt in A; lra| apply Qltb_ge; apply Qltb_ge in A; lra]. }
  rewrite E, (Qfloor_comp _ _ H), (Qceiling_comp _ _ H). reflexivity.
Qed.

Lemma Qtrunc_inject n : Qtrunc (inject_Z n) = n.
Proof. unfold Qtrunc. rewrite Qfloor_Z, Qceiling_Z. destruct (Qltb (inject_Z n) 0); reflexivity. Qed.

Lemma Qtrunc_int x : is_intQ x = true -> inject_Z (Qtrunc x) == x.
Proof.
  intros H. apply is_intQ_eq in H. rewrite (Qtrunc_comp _ _ H), Qtrunc_inject. symmetry. exact H.
Qed.

(* ---------- membership in a list of rationals ---------- *)
Lemma memQ_In x l : memQ x l = true <-> exists c, In c l /\ x == c.
Proof.
  unfold memQ. rewrite existsb_exists. split; intros [c [H1 H2]]; exists c; split; auto.
  - apply Qeq_bool_iff, H2.
  - apply Qeq_bool_iff, H2.
Qed.

Lemma memQ_comp x y l : x == y -> memQ x l = memQ y l.
Proof.
  intros H. destruct (memQ y l) eqn:E.
  - apply memQ_In in E as [c [H1 H2]]. apply memQ_In. exists c. split; [exact H1| rewrite H; exact H2].
  - destruct (memQ x l) eqn:E2; [|reflexivity]. apply memQ_In in E2 as [c [H1 H2]].
    assert (memQ y l = true) by (apply memQ_In; exists c; split; [exact H1| rewrite <- H; exact H2]). congruence.
Qed.
