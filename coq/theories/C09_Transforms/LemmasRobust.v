(* Robustness to rounding: for ANY rounding R with relative error <= 2^-52 per arithmetic step, Integer (uniform
   prior) and Categorical values round-trip EXACTLY - the accumulated error stays below 1/2 before the final
   rounding - provided the magnitudes are at most 2^47. *)
From Coq Require Import List ZArith QArith Qround Qabs Bool Lia Lqa Arith.
Import ListNotations.
Require Import DH.C09_Transforms.Dims DH.C09_Transforms.Model DH.C09_Transforms.LemmasNum DH.C09_Transforms.LemmasCat
               DH.C09_Transforms.LemmasExact.
Open Scope Q_scope.

Definition eps : Q := 1 # 4503599627370496.   (* 2^-52 *)
Definition maxmag : Z := 140737488355328%Z.   (* 2^47 *)

(* |R v - v| <= eps * |v|, in a form that linear arithmetic can use: for every bound B of |v| *)
Definition admissible (R : Q -> Q) : Prop :=
  forall v B, - B <= v <= B -> - (eps * B) <= R v - v <= eps * B.

Lemma admissible_abs R : admissible R <-> forall v, Qabs (R v - v) <= eps * Qabs v.
Proof.
  split.
  - intros H v. apply Qabs_Qle_condition. apply H. apply Qabs_Qle_condition. lra.
  - intros H v B HB. specialize (H v). apply Qabs_Qle_condition in H.
    assert (A : Qabs v <= B) by (apply Qabs_Qle_condition; exact HB).
    assert (E : eps * Qabs v <= eps * B).
    { unfold eps. apply Qmult_le_l; [reflexivity| exact A]. }
    lra.
Qed.

(* the dimensions for which exactness survives rounding: Integer with uniform prior - under the identity transform for
   EVERY magnitude (no arithmetic at all: spaces whose warped columns are all integral are exact for any integer),
   under normalize with bounds within +-2^47; Categorical - identity / label / onehot for any number of categories and
   any category values, normalize with at most 2^47 categories *)
Definition robust_dim (d : dim) : bool :=
  match d with
  | DInt lo hi PUniform TIdentity => true
  | DInt lo hi PUniform TNormalize => (- maxmag <=? lo)%Z && (hi <=? maxmag)%Z
  | DCat _ cats CNormalize => (Z.of_nat (length cats) <=? maxmag)%Z
  | DCat _ _ _ => true
  | _ => false
  end.

Section Robust.
  Variable R : Q -> Q.
  Hypothesis HR : admissible R.

  Lemma adm_zero v : v == 0 -> R v == 0.
  Proof. intros E. pose proof (HR v 0) as H. unfold eps in H. lra. Qed.

  Lemma adm_pos v : 0 <= v -> (1 - eps) * v <= R v <= (1 + eps) * v.
  Proof. intros Hv. pose proof (HR v v) as H. unfold eps in *. lra. Qed.

  (* the Normalize round trip of a value of [L, H] stays within 5/16 of it when the bounds are at most 2^47 *)
  Lemma norm_close L H n :
    - inject_Z maxmag <= L -> H <= inject_Z maxmag -> L <= n <= H ->
    - (5 # 16) <= norm_inv R L H (norm_fwd R L H n) - n <= 5 # 16.
  Proof.
    intros BL BH [H1 H2]. unfold norm_inv, norm_fwd.
    change (inject_Z maxmag) with (140737488355328 # 1) in *.
    set (W := H - L). set (D := n - L).
    assert (HW : 0 <= W) by (unfold W; lra). assert (HD : 0 <= D <= W) by (unfold D, W; lra).
    assert (HWK : W <= 281474976710656 # 1) by (unfold W; lra).
    set (w := R W). pose proof (adm_pos W HW) as Hw. fold w in Hw.
    destruct (Qeq_bool w 0) eqn:E.
    - (* degenerate width: w == 0, hence W == 0 and n == L *)
      apply Qeq_bool_iff in E. unfold eps in Hw.
      assert (W0 : W == 0) by lra. assert (D0 : D == 0) by lra.
      set (z := R (n * 0)).
      assert (Z0 : z == 0) by (apply adm_zero; ring).
      set (u := R (z * w)). assert (U0 : u == 0) by (apply adm_zero; rewrite Z0; ring).
      pose proof (HR (u + L) (140737488355328 # 1)) as Hv. unfold eps in Hv.
      assert (Hs : - (140737488355328 # 1) <= u + L <= 140737488355328 # 1) by (unfold W in W0; lra).
      specialize (Hv Hs). unfold D in D0. lra.
    - apply Qeq_bool_false in E.
      assert (Wpos : 0 < w). { unfold eps in Hw. destruct (Qlt_le_dec 0 w) as [P|P]; [exact P|]. exfalso. apply E. lra. }
      set (a := R D). pose proof (adm_pos D (proj1 HD)) as Ha. fold a in Ha.
      assert (A0 : 0 <= a) by (unfold eps in Ha; lra).
      set (q := a / w).
      assert (Q0 : 0 <= q) by (unfold q; apply Qle_shift_div_l; [exact Wpos| lra]).
      assert (Hqw : q * w == a) by (unfold q; field; lra).
      set (t := R q). pose proof (HR q q) as Ht. fold t in Ht.
      assert (Ht' : - (eps * q) <= t - q <= eps * q) by (apply Ht; lra). clear Ht.
      assert (Hp : - (eps * a) <= t * w - a <= eps * a).
      { destruct Ht' as [T1 T2]. split.
        - assert (M : (- (eps * q)) * w <= (t - q) * w) by (apply Qmult_le_compat_r; [exact T1| lra]).
          rewrite <- Hqw. lra.
        - assert (M : (t - q) * w <= (eps * q) * w) by (apply Qmult_le_compat_r; [exact T2| lra]).
          rewrite <- Hqw. lra. }
      set (p := t * w) in *.
      assert (P0 : 0 <= p) by (unfold eps in Hp; lra).
      set (u := R p). pose proof (adm_pos p P0) as Hu. fold u in Hu.
      unfold eps in *.
      assert (DK : D <= 281474976710656 # 1) by lra.
      assert (A1 : a <= 281474976710657 # 1) by lra.
      assert (P1 : p <= 281474976710658 # 1) by lra.
      assert (U1 : 0 <= u <= 281474976710659 # 1) by lra.
      assert (UD : - (1 # 4) <= u - D <= 1 # 4) by lra.
      pose proof (HR (u + L) (281474976710656 # 1)) as Hv.
      assert (Hs : - (281474976710656 # 1) <= u + L <= 281474976710656 # 1) by (unfold D in *; lra).
      specialize (Hv Hs). unfold eps in *.
      unfold D in *. lra.
  Qed.

  Variable lg : Q -> Q.
  Variable pw : Q -> Q -> Q.

  Lemma close_rhe v m : - (5 # 16) <= v - inject_Z m <= 5 # 16 -> rhe v = m.
  Proof. intros H. apply rhe_near; lra. Qed.

  Lemma cell_robust d x :
    wf_dim d = true -> robust_dim d = true -> in_dim d x = true -> inv_cell R lg pw d (tr_cell R lg d x) == x.
  Proof.
    intros W B I. destruct d as [lo hi p t|lo hi p t|k cats t]; [discriminate| |].
    - destruct p as [|b]; [|discriminate].
      cbn [wf_dim] in W. apply andb_true_iff in W as [Wl _]. apply Z.ltb_lt in Wl. rewrite Zlt_Qlt in Wl.
      cbn [in_dim] in I. apply andb_true_iff in I as [I I3]. apply andb_true_iff in I as [I1 I2].
      apply Qle_bool_iff in I1. apply Qle_bool_iff in I2. pose proof (rhe_int x I3) as E.
      cbn [inv_cell tr_cell hd]. destruct t; cbn [num_inv num_fwd].
      + rewrite clipQ_id by (split; assumption). exact E.
      + cbn [robust_dim] in B. apply andb_true_iff in B as [B1 B2].
        apply Z.leb_le in B1. apply Z.leb_le in B2. rewrite Zle_Qle in B1, B2.
        assert (C : rhe (norm_inv R (inject_Z lo) (inject_Z hi) (norm_fwd R (inject_Z lo) (inject_Z hi) (inject_Z (rhe x)))) = rhe x).
        { apply close_rhe. apply norm_close.
          - change (- inject_Z maxmag) with (inject_Z (- maxmag)). exact B1.
          - exact B2.
          - rewrite E. split; assumption. }
        rewrite C. rewrite clipQ_id by (rewrite E; split; assumption). rewrite rhe_inject. exact E.
    - cbn [wf_dim] in W. apply andb_true_iff in W as [W W3]. apply andb_true_iff in W as [W1 W2].
      cbn [in_dim] in I. cbn [inv_cell tr_cell]. destruct t; cbn [cat_inv hd].
      + destruct k; try reflexivity.
        apply Qtrunc_int. pose proof I as I'. apply memQ_In in I' as [c [Hc E]].
        rewrite (is_intQ_comp _ _ E). rewrite forallb_forall in W2. apply W2, Hc.
      + rewrite rhe_inject. apply unrank_rank, I.
      + apply unonehot_onehot, I.
      + cbn [robust_dim] in B. apply Z.leb_le in B. rewrite !rhe_inject.
        pose proof (rank_range cats x) as [Rg0 _]. pose proof (rank_lt cats x I) as Rg1.
        assert (C : rhe (norm_inv R 0 (inject_Z (Z.of_nat (length cats)) - 1)
                           (norm_fwd R 0 (inject_Z (Z.of_nat (length cats)) - 1) (inject_Z (rank cats x)))) = rank cats x).
        { apply close_rhe. apply norm_close.
          - change (inject_Z maxmag) with (140737488355328 # 1). lra.
          - rewrite Zle_Qle in B. lra.
          - split.
            + change 0 with (inject_Z 0). rewrite <- Zle_Qle. exact Rg0.
            + assert (A : inject_Z (rank cats x) <= inject_Z (Z.of_nat (length cats) - 1)) by (rewrite <- Zle_Qle; lia).
              rewrite inj_m1 in A. exact A. }
        rewrite C. apply unrank_rank, I.
  Qed.

  (* every robust dimension of a space returns its value exactly, whatever the other dimensions do *)
  Lemma row_robust sp : forall row j d x, wf_space sp = true -> in_space sp row = true ->
    nth_error sp j = Some d -> nth_error row j = Some x -> robust_dim d = true ->
    exists x', nth_error (inverse_row R lg pw sp (transform_row R lg sp row)) j = Some x' /\ x' == x.
  Proof.
    induction sp as [|d0 sp IH]; intros [|x0 row] j d x W I Hd Hx B; try discriminate.
    - destruct j; discriminate.
    - cbn [wf_space forallb] in W. apply andb_true_iff in W as [W1 W2].
      cbn [in_space] in I. apply andb_true_iff in I as [I1 I2].
      cbn [transform_row inverse_row].
      rewrite <- (tr_cell_length R lg d0 x0). rewrite firstn_app_exact, skipn_app_exact.
      destruct j as [|j]; cbn [nth_error] in *.
      + inversion Hd; subst d0. inversion Hx; subst x0. eexists. split; [reflexivity|]. apply cell_robust; assumption.
      + eapply IH; eassumption.
  Qed.

  (* Integer with log-uniform prior: exactness needs an accuracy statement about libm's pow / log10 that the
     oracle model does not contain.  What IS proved: if the real-valued pipeline returns a value closer than
     1/2 to the integer it started from, clip + round give the integer back. *)
  Lemma int_any_prior_partial lo hi p t x :
    wf_dim (DInt lo hi p t) = true -> in_dim (DInt lo hi p t) x = true ->
    (let v := num_inv R lg pw (inject_Z lo) (inject_Z hi) p t true (num_fwd R lg (inject_Z lo) (inject_Z hi) p t true x) in
     x - (1 # 2) < v /\ v < x + (1 # 2)) ->
    inv_cell R lg pw (DInt lo hi p t) (tr_cell R lg (DInt lo hi p t) x) == x.
  Proof.
    intros W I Hv. cbn zeta in Hv.
    cbn [wf_dim] in W. apply andb_true_iff in W as [Wl _]. apply Z.ltb_lt in Wl.
    cbn [in_dim] in I. apply andb_true_iff in I as [I I3]. apply andb_true_iff in I as [I1 I2].
    apply Qle_bool_iff in I1. apply Qle_bool_iff in I2. pose proof (rhe_int x I3) as E.
    cbn [inv_cell tr_cell hd].
    set (v := num_inv R lg pw (inject_Z lo) (inject_Z hi) p t true (num_fwd R lg (inject_Z lo) (inject_Z hi) p t true x)) in *.
    assert (C : rhe (clipQ (inject_Z lo) (inject_Z hi) v) = rhe x).
    { assert (Wq : inject_Z lo < inject_Z hi) by (rewrite <- Zlt_Qlt; exact Wl).
      destruct Hv as [Hv1 Hv2].
      apply rhe_near; rewrite E; unfold clipQ.
      - destruct (Qltb v (inject_Z lo)) eqn:E1.
        + apply Qltb_lt in E1. destruct (Qltb (inject_Z hi) (inject_Z lo)) eqn:E2; [apply Qltb_lt in E2; lra| lra].
        + apply Qltb_ge in E1. destruct (Qltb (inject_Z hi) v) eqn:E2; [apply Qltb_lt in E2; lra| lra].
      - destruct (Qltb v (inject_Z lo)) eqn:E1.
        + apply Qltb_lt in E1. destruct (Qltb (inject_Z hi) (inject_Z lo)) eqn:E2; [apply Qltb_lt in E2; lra| lra].
        + apply Qltb_ge in E1. destruct (Qltb (inject_Z hi) v) eqn:E2; [apply Qltb_lt in E2; lra| lra]. }
    rewrite C. exact E.
  Qed.
End Robust.
