(* The model (repaired code) satisfies the very specification that the oracle ok_C09 decides on the
   implementation's values. *)
From Coq Require Import List ZArith QArith Qround Qabs Bool Lia Lqa Arith.
Import ListNotations.
Require Import DH.C09_Transforms.Dims DH.C09_Transforms.Model DH.C09_Transforms.Check DH.C09_Transforms.LemmasNum
               DH.C09_Transforms.LemmasCat DH.C09_Transforms.LemmasExact DH.C09_Transforms.LemmasRobust
               DH.C09_Transforms.LemmasMember.
Open Scope Q_scope.

Lemma in_space_length sp : forall row, in_space sp row = true -> length row = length sp.
Proof.
  induction sp as [|d sp IH]; intros [|x row] H; try discriminate; [reflexivity|].
  cbn [in_space] in H. apply andb_true_iff in H as [_ H]. cbn [length]. f_equal. apply IH, H.
Qed.

Definition tol_ok (t : Q * Q) : Prop := 0 <= fst t /\ 0 <= snd t.

Lemma same_row_of_eq sp : forall tols row row', length tols = length sp -> Forall tol_ok tols ->
  length row = length sp -> Forall2 Qeq row' row -> SameRow sp tols row row'.
Proof.
  induction sp as [|d sp IH]; intros [|t tols] [|x row] row' Lt Ft Lr F; try discriminate.
  - inversion F; subst. constructor.
  - inversion F as [|x' ? r' ? E F']; subst. inversion Ft as [|? ? [T1 T2] Ft']; subst.
    constructor.
    + destruct d; cbn [same_cell]; try (apply Qeq_bool_iff; symmetry; exact E).
      unfold close. apply Qle_bool_iff.
      assert (Z : Qabs (x' - x) == 0). { assert (D : x' - x == 0) by lra. rewrite D. reflexivity. }
      rewrite Z. pose proof (Qabs_nonneg x) as N.
      assert (P : 0 <= snd t * Qabs x) by (apply Qmult_le_0_compat; assumption). lra.
    + apply IH; [cbn in Lt; lia| exact Ft'| cbn in Lr; lia| exact F'].
Qed.

Theorem model_meets_spec R lg pw sp tols X :
  exact_oracles R lg pw -> mono_oracles R lg -> wf_space sp = true ->
  length tols = length sp -> Forall tol_ok tols -> Forall (fun row => in_space sp row = true) X ->
  Spec_C09 sp (tbounds_space R lg sp) tols X (transform R lg sp X) (inverse R lg pw sp (transform R lg sp X)).
Proof.
  intros EO MO W Lt Ft HX.
  assert (HL : Forall (fun row => length row = length sp) X).
  { apply Forall_forall. intros r Hr. rewrite Forall_forall in HX. apply in_space_length, HX, Hr. }
  destruct (shape R lg pw sp X HL) as (S1 & S2 & S3 & S4).
  constructor.
  - split; assumption.
  - pose proof (transformed_in_bounds R lg MO sp X W HX) as B.
    apply Forall_forall. intros r Hr. rewrite Forall_forall in B. specialize (B r Hr).
    eapply Forall2_imp; [|exact B]. intros z b [B1 B2]. unfold in_bound.
    apply andb_true_iff. split; apply Qle_bool_iff; assumption.
  - split; assumption.
  - apply member_after_roundtrip; assumption.
  - pose proof (roundtrip_exact R lg pw EO sp X W HX) as E. unfold rows_eq in E.
    clear S1 S2 S3 S4. revert E HL. generalize (inverse R lg pw sp (transform R lg sp X)). clear HX.
    induction X as [|row X IH]; intros Y E HL; inversion E; subst; constructor.
    + apply same_row_of_eq; auto. inversion HL; assumption.
    + apply IH; [assumption| inversion HL; assumption].
Qed.
