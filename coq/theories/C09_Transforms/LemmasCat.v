(* Categories: label rank / unrank, one-hot / argmax, min / max. *)
From Coq Require Import List ZArith QArith Qround Bool Lia Lqa Arith.
Import ListNotations.
Require Import DH.C09_Transforms.Dims DH.C09_Transforms.LemmasNum.
Open Scope Q_scope.

Lemma Qltb_comp_r c x y : x == y -> Qltb c x = Qltb c y.
Proof.
  intros H. destruct (Qltb c y) eqn:A.
  - apply Qltb_lt. apply Qltb_lt in A. lra.
  - apply Qltb_ge. apply Qltb_ge in A. lra.
Qed.

Lemma rank_comp cats x y : x == y -> rank cats x = rank cats y.
Proof.
  intros H. unfold rank. f_equal. f_equal. apply filter_ext. intros c. apply Qltb_comp_r, H.
Qed.

Lemma filter_length_le {A} (f : A -> bool) l : (length (filter f l) <= length l)%nat.
Proof. induction l as [|a l IH]; cbn; [lia|]. destruct (f a); cbn; lia. Qed.

Lemma filter_length_mono {A} (f g : A -> bool) l :
  (forall y, In y l -> f y = true -> g y = true) -> (length (filter f l) <= length (filter g l))%nat.
Proof.
  induction l as [|a l IH]; intros H; cbn; [lia|].
  assert (IH' : (length (filter f l) <= length (filter g l))%nat) by (apply IH; intros y Hy; apply H; right; exact Hy).
  destruct (f a) eqn:Fa.
  - rewrite (H a (or_introl eq_refl) Fa). cbn. lia.
  - destruct (g a); cbn; lia.
Qed.

Lemma filter_length_strict {A} (f g : A -> bool) l c :
  (forall y, In y l -> f y = true -> g y = true) -> In c l -> f c = false -> g c = true ->
  (length (filter f l) < length (filter g l))%nat.
Proof.
  induction l as [|a l IH]; intros H Hin Fc Gc; [destruct Hin|].
  assert (Hl : forall y, In y l -> f y = true -> g y = true) by (intros y Hy; apply H; right; exact Hy).
  pose proof (filter_length_mono f g l Hl) as M.
  destruct Hin as [->|Hin].
  - cbn. rewrite Fc, Gc. cbn. lia.
  - specialize (IH Hl Hin Fc Gc). cbn. destruct (f a) eqn:Fa.
    + rewrite (H a (or_introl eq_refl) Fa). cbn. lia.
    + destruct (g a); cbn; lia.
Qed.

Lemma rank_range cats x : (0 <= rank cats x <= Z.of_nat (length cats))%Z.
Proof. unfold rank. pose proof (filter_length_le (fun c => Qltb c x) cats). lia. Qed.

Lemma rank_lt cats x : memQ x cats = true -> (rank cats x < Z.of_nat (length cats))%Z.
Proof.
  intros H. apply memQ_In in H as [c [Hc E]]. unfold rank.
  assert (L : (length (filter (fun c0 => Qltb c0 x) cats) < length (filter (fun _ => true) cats))%nat).
  { apply (filter_length_strict _ _ cats c); auto. apply Qltb_ge. lra. }
  pose proof (filter_length_le (fun _ : Q => true) cats). lia.
Qed.

Lemma rank_lt_strict cats a b : In a cats -> a < b -> (rank cats a < rank cats b)%Z.
Proof.
  intros Ha Hab. unfold rank.
  assert (L : (length (filter (fun c => Qltb c a) cats) < length (filter (fun c => Qltb c b) cats))%nat).
  { apply (filter_length_strict _ _ cats a); auto.
    - intros y _ Hy. apply Qltb_lt. apply Qltb_lt in Hy. lra.
    - apply Qltb_ge. lra.
    - apply Qltb_lt. exact Hab. }
  lia.
Qed.

Lemma rank_inj cats c x : In c cats -> memQ x cats = true -> rank cats c = rank cats x -> c == x.
Proof.
  intros Hc Hx E. apply memQ_In in Hx as [c' [Hc' Ex]].
  destruct (Q_dec c x) as [[L|L]|L]; [| |exact L].
  - pose proof (rank_lt_strict cats c x Hc L). lia.
  - rewrite (rank_comp cats x c' Ex) in E.
    assert (L' : c' < c) by lra.
    pose proof (rank_lt_strict cats c' c Hc' L'). lia.
Qed.

Lemma unrank_rank cats x : memQ x cats = true -> unrank cats (rank cats x) == x.
Proof.
  intros Hx. unfold unrank.
  destruct (find (fun c => (rank cats c =? rank cats x)%Z) cats) eqn:F.
  - apply find_some in F as [Hin E]. apply Z.eqb_eq in E. apply (rank_inj cats); assumption.
  - exfalso. pose proof Hx as Hx'. apply memQ_In in Hx' as [c [Hc E]].
    pose proof (find_none _ _ F c Hc) as N. cbn in N. apply Z.eqb_neq in N. apply N.
    symmetry. apply rank_comp, E.
Qed.

Lemma hd_mem cats : cats <> [] -> memQ (hd 0 cats) cats = true.
Proof.
  destruct cats as [|c t]; [congruence|]. intros _. apply memQ_In. exists c. split; [left; reflexivity| reflexivity].
Qed.

Lemma In_memQ c cats : In c cats -> memQ c cats = true.
Proof. intros H. apply memQ_In. exists c. split; [exact H| reflexivity]. Qed.

Lemma unrank_mem cats i : cats <> [] -> memQ (unrank cats i) cats = true.
Proof.
  intros H. unfold unrank. destruct (find _ cats) eqn:F.
  - apply find_some in F as [Hin _]. apply In_memQ, Hin.
  - apply hd_mem, H.
Qed.

(* ---------- index / one-hot ---------- *)
Lemma index_spec cats x d : memQ x cats = true -> (index cats x < length cats)%nat /\ nth (index cats x) cats d == x.
Proof.
  induction cats as [|c t IH]; intros H; [discriminate|].
  cbn [index]. destruct (Qeq_bool x c) eqn:E.
  - cbn. split; [lia|]. apply Qeq_bool_iff in E. symmetry. exact E.
  - unfold memQ in H. cbn [existsb] in H. rewrite E in H. cbn in H. destruct (IH H) as [I1 I2].
    cbn [length nth]. split; [lia| exact I2].
Qed.

Lemma unit_vec_length n i : length (unit_vec n i) = n.
Proof.
  revert i. induction n as [|n IH]; intros i; [reflexivity|]. cbn [unit_vec].
  destruct i; cbn [length]; [rewrite repeat_length| rewrite IH]; reflexivity.
Qed.

Lemma onehot_length cats i : length (onehot (length cats) i) = tsize (DCat KTok cats COnehot).
Proof.
  cbn [tsize]. destruct cats as [|a [|b [|c t]]]; cbn [length onehot Nat.eqb]; try reflexivity.
  apply unit_vec_length.
Qed.

Lemma argmax_from_stay best bi i l : Forall (fun z => z <= best) l -> argmax_from best bi i l = bi.
Proof.
  revert i. induction l as [|z t IH]; intros i H; [reflexivity|].
  inversion H as [|? ? Hz Ht]; subst. cbn [argmax_from].
  assert (E : Qltb best z = false) by (apply Qltb_ge; exact Hz). rewrite E. apply IH, Ht.
Qed.

Lemma repeat0_le n : Forall (fun z => z <= 1) (repeat 0 n).
Proof. induction n; cbn; constructor; [lra| assumption]. Qed.

Lemma argmax_from_unit n : forall i bi k, (i < n)%nat -> argmax_from 0 bi k (unit_vec n i) = (k + i)%nat.
Proof.
  induction n as [|n IH]; intros i bi k H; [lia|].
  cbn [unit_vec]. destruct i as [|j].
  - cbn [argmax_from]. assert (E : Qltb 0 1 = true) by (apply Qltb_lt; lra). rewrite E.
    rewrite argmax_from_stay; [lia| apply repeat0_le].
  - cbn [argmax_from]. assert (E : Qltb 0 0 = false) by (apply Qltb_ge; lra). rewrite E.
    rewrite IH; lia.
Qed.

Lemma argmax_unit n i : (i < n)%nat -> argmax (unit_vec n i) = i.
Proof.
  intros H. destruct n as [|n]; [lia|]. cbn [unit_vec]. destruct i as [|j].
  - cbn [argmax]. apply argmax_from_stay, repeat0_le.
  - cbn [argmax]. rewrite argmax_from_unit; lia.
Qed.

Lemma unonehot_onehot cats x : memQ x cats = true -> unonehot cats (onehot (length cats) (index cats x)) == x.
Proof.
  intros H. destruct (index_spec cats x (hd 0 cats) H) as [I1 I2].
  unfold unonehot. destruct cats as [|a [|b [|c t]]].
  - discriminate.
  - cbn [length] in *. assert (index [a] x = O) by lia. rewrite H0 in I2. exact I2.
  - cbn [length onehot] in *. destruct (index [a; b] x) as [|[|k]] eqn:E; cbn [hd].
    + assert (Qltb (1 # 2) 0 = false) as -> by (apply Qltb_ge; lra). exact I2.
    + assert (Qltb (1 # 2) 1 = true) as -> by (apply Qltb_lt; lra). exact I2.
    + lia.
  - remember (a :: b :: c :: t) as cats eqn:Ec.
    assert (L : length cats = S (S (S (length t)))) by (subst; reflexivity).
    rewrite L. cbn [onehot]. rewrite <- L. rewrite argmax_unit by exact I1. exact I2.
Qed.

Lemma unonehot_mem cats zs : cats <> [] -> memQ (unonehot cats zs) cats = true.
Proof.
  intros H. unfold unonehot.
  assert (N : forall i, memQ (nth i cats (hd 0 cats)) cats = true).
  { intros i. destruct (nth_in_or_default i cats (hd 0 cats)) as [Hin|E]; [apply In_memQ, Hin| rewrite E; apply hd_mem, H]. }
  destruct (length cats) as [|[|[|n]]]; try (apply hd_mem, H); try apply N.
  destruct (Qltb (1 # 2) (hd 0 zs)); [apply N| apply hd_mem, H].
Qed.

Lemma unit_vec_01 n i : Forall (fun z => 0 <= z <= 1) (unit_vec n i).
Proof.
  revert i. induction n as [|n IH]; intros i; [constructor|]. cbn [unit_vec]. destruct i.
  - constructor; [lra|]. clear. induction n; cbn; constructor; [lra| assumption].
  - constructor; [lra| apply IH].
Qed.

Lemma onehot_01 n i : Forall (fun z => 0 <= z <= 1) (onehot n i).
Proof.
  destruct n as [|[|[|n]]]; cbn [onehot].
  - apply unit_vec_01.
  - constructor; [lra| constructor].
  - constructor; [destruct i; lra| constructor].
  - apply unit_vec_01.
Qed.

(* ---------- min / max of the categories ---------- *)
Lemma fold_min_le init l :
  let m := fold_right (fun c m => if Qltb c m then c else m) init l in
  m <= init /\ forall c, In c l -> m <= c.
Proof.
  induction l as [|a l IH]; cbn; [split; [lra| intros c []]|].
  destruct IH as [I1 I2]. destruct (Qltb a _) eqn:E.
  - apply Qltb_lt in E. split; [lra|]. intros c [->|Hc]; [lra|]. specialize (I2 c Hc). lra.
  - apply Qltb_ge in E. split; [exact I1|]. intros c [->|Hc]; [exact E| apply I2, Hc].
Qed.

Lemma fold_max_ge init l :
  let m := fold_right (fun c m => if Qltb m c then c else m) init l in
  init <= m /\ forall c, In c l -> c <= m.
Proof.
  induction l as [|a l IH]; cbn; [split; [lra| intros c []]|].
  destruct IH as [I1 I2]. destruct (Qltb _ a) eqn:E.
  - apply Qltb_lt in E. split; [lra|]. intros c [->|Hc]; [lra|]. specialize (I2 c Hc). lra.
  - apply Qltb_ge in E. split; [exact I1|]. intros c [->|Hc]; [exact E| apply I2, Hc].
Qed.

Lemma qmin_qmax cats x : memQ x cats = true -> qmin cats <= x <= qmax cats.
Proof.
  intros H. apply memQ_In in H as [c [Hc E]]. unfold qmin, qmax.
  destruct (fold_min_le (hd 0 cats) cats) as [_ A]. destruct (fold_max_ge (hd 0 cats) cats) as [_ B].
  specialize (A c Hc). specialize (B c Hc). cbn in A, B. lra.
Qed.
