(* Membership after the round trip (for EVERY rounding and every log/pow), shape, transformed bounds, and the
   refutations for today's code (F02: Real does not clip; F13: Identity(type_func) returns one row). *)
From Coq Require Import List ZArith QArith Qround Qabs Bool Lia Lqa Arith.
Import ListNotations.
Require Import DH.C09_Transforms.Dims DH.C09_Transforms.Model DH.C09_Transforms.LemmasNum DH.C09_Transforms.LemmasCat
               DH.C09_Transforms.LemmasExact DH.C09_Transforms.LemmasRobust.
Open Scope Q_scope.

Definition is_cat_identity (d : dim) : bool := match d with DCat _ _ CIdentity => true | _ => false end.

Section Member.
  Variable R : Q -> Q.
  Variable lg : Q -> Q.
  Variable pw : Q -> Q -> Q.

  (* the decode of ANY warped cell lands in the dimension (no hypothesis on R, lg, pw, nor on the cell) -
     for every dimension whose inverse does some decoding; this is the lemma C02 builds on *)
  Lemma inv_cell_member d zs : wf_dim d = true -> is_cat_identity d = false -> in_dim d (inv_cell R lg pw d zs) = true.
  Proof.
    intros W NI. destruct d as [lo hi p t|lo hi p t|k cats t].
    - cbn [wf_dim] in W. apply andb_true_iff in W as [Wl _]. apply Qltb_lt in Wl.
      cbn [in_dim inv_cell]. destruct (clipQ_in lo hi (num_inv R lg pw lo hi p t false (hd 0 zs))) as [A B]; [lra|].
      apply andb_true_iff. split; apply Qle_bool_iff; assumption.
    - cbn [wf_dim] in W. apply andb_true_iff in W as [Wl _]. apply Z.ltb_lt in Wl.
      assert (Wq : inject_Z lo <= inject_Z hi) by (rewrite <- Zle_Qle; lia).
      cbn [in_dim inv_cell].
      destruct (clipQ_in (inject_Z lo) (inject_Z hi) (num_inv R lg pw (inject_Z lo) (inject_Z hi) p t true (hd 0 zs)) Wq) as [A B].
      rewrite is_intQ_inject, andb_true_r. apply andb_true_iff.
      split; apply Qle_bool_iff; rewrite <- Zle_Qle; [apply rhe_ge, A| apply rhe_le, B].
    - cbn [wf_dim] in W. apply andb_true_iff in W as [W _]. apply andb_true_iff in W as [W1 _].
      assert (NE : cats <> []) by (destruct cats; [discriminate| congruence]).
      cbn [in_dim inv_cell]. destruct t; cbn [cat_inv]; [discriminate| | |].
      + apply unrank_mem, NE.
      + apply unonehot_mem, NE.
      + apply unrank_mem, NE.
  Qed.

  (* row level: a space without identity-encoded categories decodes ANY warped row into the space *)
  Lemma inverse_row_member sp : forall zs, wf_space sp = true -> forallb (fun d => negb (is_cat_identity d)) sp = true ->
    in_space sp (inverse_row R lg pw sp zs) = true.
  Proof.
    induction sp as [|d sp IH]; intros zs W NI; cbn [inverse_row in_space]; [reflexivity|].
    cbn [wf_space forallb] in W, NI. apply andb_true_iff in W as [W1 W2]. apply andb_true_iff in NI as [N1 N2].
    apply negb_true_iff in N1. apply andb_true_iff. split; [apply inv_cell_member; assumption| apply IH; assumption].
  Qed.

  Lemma cell_member d x : wf_dim d = true -> in_dim d x = true -> in_dim d (inv_cell R lg pw d (tr_cell R lg d x)) = true.
  Proof.
    intros W I. destruct (is_cat_identity d) eqn:CI; [|apply inv_cell_member; assumption].
    destruct d as [| |k cats t]; try discriminate. destruct t; try discriminate.
    cbn [wf_dim] in W. apply andb_true_iff in W as [W _]. apply andb_true_iff in W as [_ W2].
    cbn [in_dim] in *. cbn [inv_cell tr_cell cat_inv hd]. destruct k; try exact I.
    assert (E : inject_Z (Qtrunc x) == x).
    { apply Qtrunc_int. pose proof I as I'. apply memQ_In in I' as [c [Hc E]].
      rewrite (is_intQ_comp _ _ E). rewrite forallb_forall in W2. apply W2, Hc. }
    rewrite (memQ_comp _ _ cats E). exact I.
  Qed.

  Lemma row_member sp : forall row, wf_space sp = true -> in_space sp row = true ->
    in_space sp (inverse_row R lg pw sp (transform_row R lg sp row)) = true.
  Proof.
    induction sp as [|d sp IH]; intros [|x row] W I; try discriminate; cbn [transform_row inverse_row in_space].
    - reflexivity.
    - cbn [wf_space forallb] in W. apply andb_true_iff in W as [W1 W2].
      cbn [in_space] in I. apply andb_true_iff in I as [I1 I2].
      rewrite <- (tr_cell_length R lg d x). rewrite firstn_app_exact, skipn_app_exact.
      apply andb_true_iff. split; [apply cell_member; assumption| apply IH; assumption].
  Qed.

  Theorem member_after_roundtrip sp X : wf_space sp = true -> Forall (fun row => in_space sp row = true) X ->
    Forall (fun row => in_space sp row = true) (inverse R lg pw sp (transform R lg sp X)).
  Proof.
    intros W H. unfold inverse, transform. rewrite map_map. apply Forall_forall. intros r Hr.
    apply in_map_iff in Hr as [row [<- Hin]]. rewrite Forall_forall in H. apply row_member; [exact W| apply H, Hin].
  Qed.

  (* ---------- shape ---------- *)
  Lemma transform_row_length sp : forall row, length row = length sp -> length (transform_row R lg sp row) = tdims sp.
  Proof.
    induction sp as [|d sp IH]; intros [|x row] H; try discriminate; cbn [transform_row tdims fold_right]; [reflexivity|].
    rewrite app_length, tr_cell_length. f_equal. apply IH. cbn in H. lia.
  Qed.

  Lemma inverse_row_length sp zs : length (inverse_row R lg pw sp zs) = length sp.
  Proof. revert zs. induction sp as [|d sp IH]; intros zs; cbn [inverse_row length]; [reflexivity| rewrite IH; reflexivity]. Qed.

  Theorem shape sp X : Forall (fun row => length row = length sp) X ->
    length (transform R lg sp X) = length X
    /\ Forall (fun r => length r = tdims sp) (transform R lg sp X)
    /\ length (inverse R lg pw sp (transform R lg sp X)) = length X
    /\ Forall (fun r => length r = length sp) (inverse R lg pw sp (transform R lg sp X)).
  Proof.
    intros H. unfold transform, inverse. rewrite !map_length. repeat split.
    - apply Forall_forall. intros r Hr. apply in_map_iff in Hr as [row [<- Hin]].
      rewrite Forall_forall in H. apply transform_row_length, H, Hin.
    - apply Forall_forall. intros r Hr. apply in_map_iff in Hr as [z [<- _]]. apply inverse_row_length.
  Qed.
End Member.

(* ---------- transformed coordinates inside transformed_bounds, for monotone rounding ---------- *)
Record mono_oracles (R : Q -> Q) (lg : Q -> Q) : Prop := {
  mo_R : forall x y, x <= y -> R x <= R y;
  mo_R0 : R 0 == 0;
  mo_R1 : R 1 == 1;
  mo_lg : forall x y, 0 < x -> x <= y -> lg x <= lg y;
  mo_lg_base : forall b, 1 < b -> 0 < lg b }.

Definition in_b (z : Q) (b : Q * Q) : Prop := fst b <= z <= snd b.

Section Bounds.
  Variable R : Q -> Q.
  Variable lg : Q -> Q.
  Hypothesis MO : mono_oracles R lg.

  Let Rm := mo_R R lg MO.

  Lemma R_zero v : v == 0 -> R v == 0.
  Proof.
    intros E. pose proof (mo_R0 R lg MO) as Z0.
    assert (A : R v <= R 0) by (apply Rm; lra). assert (B : R 0 <= R v) by (apply Rm; lra). lra.
  Qed.

  Lemma norm_fwd_01 lo hi y : lo <= y <= hi -> 0 <= norm_fwd R lo hi y <= 1.
  Proof.
    intros [H1 H2]. unfold norm_fwd. pose proof (mo_R0 R lg MO) as Z0. pose proof (mo_R1 R lg MO) as O1.
    assert (A0 : 0 <= R (y - lo)). { assert (X : R 0 <= R (y - lo)) by (apply Rm; lra). lra. }
    assert (AW : R (y - lo) <= R (hi - lo)) by (apply Rm; lra).
    destruct (Qeq_bool (R (hi - lo)) 0) eqn:E.
    - assert (Z : R (y * 0) == 0) by (apply R_zero; ring). lra.
    - apply Qeq_bool_false in E.
      assert (Wp : 0 < R (hi - lo)). { destruct (Qlt_le_dec 0 (R (hi - lo))) as [P|P]; [exact P|]. exfalso. apply E. lra. }
      assert (Q0 : 0 <= R (y - lo) / R (hi - lo)) by (apply Qle_shift_div_l; [exact Wp| lra]).
      assert (Q1 : R (y - lo) / R (hi - lo) <= 1) by (apply Qle_shift_div_r; [exact Wp| lra]).
      assert (X0 : R 0 <= R (R (y - lo) / R (hi - lo))) by (apply Rm; exact Q0).
      assert (X1 : R (R (y - lo) / R (hi - lo)) <= R 1) by (apply Rm; exact Q1).
      lra.
  Qed.

  Lemma logt_mono b x y : 1 < b -> 0 < x -> x <= y -> logt R lg b x <= logt R lg b y.
  Proof.
    intros Hb Hx Hxy. unfold logt. apply Rm.
    pose proof (mo_lg_base R lg MO b Hb) as Lb. pose proof (mo_lg R lg MO x y Hx Hxy) as L.
    unfold Qdiv. apply Qmult_le_compat_r; [exact L| apply Qlt_le_weak, Qinv_lt_0_compat, Lb].
  Qed.

  Lemma num_in_bounds lo hi p t isint x :
    lo < hi -> wf_prior lo p = true -> lo <= x <= hi -> (isint = true -> is_intQ x = true) ->
    in_b (num_fwd R lg lo hi p t isint x) (num_tbounds R lg lo hi p t).
  Proof.
    intros Hlh Hp [H1 H2] Hi. unfold in_b. destruct t, p as [|b]; cbn [num_fwd num_tbounds fst snd].
    - split; assumption.
    - cbn [wf_prior] in Hp. apply andb_true_iff in Hp as [Hb Hl]. apply Qltb_lt in Hb. apply Qltb_lt in Hl.
      split; apply logt_mono; lra.
    - apply norm_fwd_01. destruct isint; [|split; assumption].
      rewrite (rhe_int x (Hi eq_refl)). split; assumption.
    - cbn [wf_prior] in Hp. apply andb_true_iff in Hp as [Hb Hl]. apply Qltb_lt in Hb. apply Qltb_lt in Hl.
      apply norm_fwd_01. split; apply logt_mono; lra.
  Qed.

  Lemma Forall2_repeat_01 l n : Forall (fun z => 0 <= z <= 1) l -> length l = n -> Forall2 in_b l (repeat (0, 1) n).
  Proof.
    revert n. induction l as [|z l IH]; intros [|n] F L; try discriminate; cbn [repeat]; constructor.
    - inversion F; subst. exact H1.
    - apply IH; [inversion F; assumption| cbn in L; lia].
  Qed.

  Lemma cell_in_bounds d x : wf_dim d = true -> in_dim d x = true -> Forall2 in_b (tr_cell R lg d x) (tbounds R lg d).
  Proof.
    intros W I. destruct d as [lo hi p t|lo hi p t|k cats t].
    - cbn [wf_dim] in W. apply andb_true_iff in W as [Wl Wp]. apply Qltb_lt in Wl.
      cbn [in_dim] in I. apply andb_true_iff in I as [I1 I2]. apply Qle_bool_iff in I1. apply Qle_bool_iff in I2.
      cbn [tr_cell tbounds]. constructor; [|constructor]. apply num_in_bounds; auto. discriminate.
    - cbn [wf_dim] in W. apply andb_true_iff in W as [Wl Wp]. apply Z.ltb_lt in Wl. rewrite Zlt_Qlt in Wl.
      cbn [in_dim] in I. apply andb_true_iff in I as [I I3]. apply andb_true_iff in I as [I1 I2].
      apply Qle_bool_iff in I1. apply Qle_bool_iff in I2.
      cbn [tr_cell tbounds]. constructor; [|constructor]. apply num_in_bounds; auto.
    - cbn [in_dim] in I. pose proof (rank_range cats x) as [Rg0 _]. pose proof (rank_lt cats x I) as Rg1.
      assert (RB : 0 <= inject_Z (rank cats x) <= inject_Z (Z.of_nat (length cats)) - 1).
      { split.
        - change 0 with (inject_Z 0). rewrite <- Zle_Qle. exact Rg0.
        - assert (A : inject_Z (rank cats x) <= inject_Z (Z.of_nat (length cats) - 1)) by (rewrite <- Zle_Qle; lia).
          rewrite inj_m1 in A. exact A. }
      destruct t; cbn [tr_cell tbounds].
      + constructor; [|constructor]. unfold in_b. cbn [fst snd]. apply qmin_qmax, I.
      + constructor; [|constructor]. unfold in_b. cbn [fst snd]. exact RB.
      + apply Forall2_repeat_01; [apply onehot_01| apply onehot_length].
      + constructor; [|constructor]. unfold in_b. cbn [fst snd]. rewrite rhe_inject. apply norm_fwd_01. exact RB.
  Qed.

  Lemma row_in_bounds sp : forall row, wf_space sp = true -> in_space sp row = true ->
    Forall2 in_b (transform_row R lg sp row) (tbounds_space R lg sp).
  Proof.
    induction sp as [|d sp IH]; intros [|x row] W I; try discriminate; cbn [transform_row tbounds_space flat_map].
    - constructor.
    - cbn [wf_space forallb] in W. apply andb_true_iff in W as [W1 W2].
      cbn [in_space] in I. apply andb_true_iff in I as [I1 I2].
      apply Forall2_app; [apply cell_in_bounds; assumption| apply IH; assumption].
  Qed.

  Theorem transformed_in_bounds sp X : wf_space sp = true -> Forall (fun row => in_space sp row = true) X ->
    Forall (fun r => Forall2 in_b r (tbounds_space R lg sp)) (transform R lg sp X).
  Proof.
    intros W H. unfold transform. apply Forall_forall. intros r Hr. apply in_map_iff in Hr as [row [<- Hin]].
    rewrite Forall_forall in H. apply row_in_bounds; [exact W| apply H, Hin].
  Qed.
End Bounds.

(* ---------- today's code ---------- *)
(* F02: a rounding that errs upwards by a relative 2^-53 at every step (admissible) pushes the upper bound of
   Real(1, 3, transform="normalize") above 3, and today's Real.inverse_transform does not clip. *)
Definition R_up (v : Q) : Q := v * (1 + (1 # 9007199254740992)).

Lemma R_up_admissible : admissible R_up.
Proof. intros v B H. unfold R_up, eps. lra. Qed.

Lemma real_member_refuted :
  exists R d x, admissible R /\ wf_dim d = true /\ in_dim d x = true /\
    (forall lg pw, in_dim d (inv_cell_noclip R lg pw d (tr_cell R lg d x)) = false).
Proof.
  exists R_up, (DReal 1 3 PUniform TNormalize), 3. split; [exact R_up_admissible|].
  split; [reflexivity|]. split; [reflexivity|]. intros lg pw. vm_compute. reflexivity.
Qed.

(* F13: numeric ordinal hyperparameter [1,2,3] (identity transform, int categories): two rows in, one row out;
   and IndexError (None) when the short column is not the first one.  No arithmetic is involved, so this holds for
   every R, lg, pw. *)
Lemma identity_rows_refuted :
  forall R lg pw,
    let sp := [DCat KInt [1; 2; 3] CIdentity] in
    let X := [[2]; [3]] in
    wf_space sp = true /\ Forall (fun row => in_space sp row = true) X
    /\ inverse_today R lg pw sp (transform R lg sp X) = Some [[2]]
    /\ inverse_today R lg pw (DInt 0 5 PUniform TIdentity :: sp) (transform R lg (DInt 0 5 PUniform TIdentity :: sp) [[0; 2]; [5; 3]]) = None.
Proof.
  intros R lg pw. cbn zeta. split; [reflexivity|]. split; [repeat constructor|]. split; reflexivity.
Qed.
