(* Model of Space.transform / Space.inverse_transform (deephyper/skopt/space/space.py) on lists of rows,
   on top of the per-dimension model of Dims.v.  Executable definitions only; proofs are in Lemmas*.v.

   A point set X is a list of rows, a row is a list of values (one per dimension); the warped set Xt is a
   list of rows of width [tdims sp].  Shape is therefore part of the model.

   Two versions of the inverse:
     inverse        - the REPAIRED code (fixes/F02: Real.inverse_transform clips; fixes/F13:
                      Identity(type_func).inverse_transform maps over the rows)
     inverse_today  - the pinned code: column by column as the code does it, Identity(type_func) returns ONE
                      element whatever the number of rows, Real does not clip, and the final
                      _transpose_list_array takes the number of rows from the FIRST column and fails with
                      IndexError (None here) when a later column is shorter.                                  *)
From Coq Require Import List ZArith QArith Qround Bool.
Import ListNotations.
Require Import DH.C09_Transforms.Dims.
Open Scope Q_scope.

Section Oracles.
  Variable R : Q -> Q.
  Variable lg : Q -> Q.
  Variable pw : Q -> Q -> Q.

  (* ----- transform ----- *)
  Fixpoint transform_row (sp : space) (row : list Q) : list Q :=
    match sp, row with
    | d :: sp', x :: row' => tr_cell R lg d x ++ transform_row sp' row'
    | _, _ => []
    end.
  Definition transform (sp : space) (X : list (list Q)) : list (list Q) := map (transform_row sp) X.

  (* ----- inverse, repaired code ----- *)
  Fixpoint inverse_row (sp : space) (zs : list Q) : list Q :=
    match sp with
    | [] => []
    | d :: sp' => inv_cell R lg pw d (firstn (tsize d) zs) :: inverse_row sp' (skipn (tsize d) zs)
    end.
  Definition inverse (sp : space) (Z : list (list Q)) : list (list Q) := map (inverse_row sp) Z.

  (* ----- inverse, TODAY's code: by columns ----- *)
  (* the slice Xt[:, start:start+offset] of every row, one entry per dimension *)
  Fixpoint columns (sp : space) (Z : list (list Q)) : list (list (list Q)) :=
    match sp with
    | [] => []
    | d :: sp' => map (firstn (tsize d)) Z :: columns sp' (map (skipn (tsize d)) Z)
    end.

  (* Dimension.inverse_transform on a whole column.  Identity(type_func=int) - chosen by
     Categorical.set_transformer("identity") when all categories are ints - returns [type_func(Xt[0])]. *)
  Definition inv_col_today (d : dim) (col : list (list Q)) : option (list Q) :=
    match d with
    | DCat KInt cats CIdentity =>
        match col with
        | [] => None                                   (* Xt[0] on an empty column: IndexError *)
        | z :: _ => Some [inv_cell_noclip R lg pw d z]
        end
    | _ => Some (map (inv_cell_noclip R lg pw d) col)
    end.

  Fixpoint opt_all {A} (l : list (option A)) : option (list A) :=
    match l with
    | [] => Some []
    | None :: _ => None
    | Some x :: t => match opt_all t with Some r => Some (x :: r) | None => None end
    end.

  (* _transpose_list_array: n_samples = len(x[0]); x[j][i] must exist for every column j *)
  Definition transpose_today (cols : list (list Q)) : option (list (list Q)) :=
    match cols with
    | [] => None                                        (* assert n_dims > 0 *)
    | c0 :: _ => opt_all (map (fun i => opt_all (map (fun c => nth_error c i) cols)) (seq 0 (length c0)))
    end.

  Definition inverse_today (sp : space) (Z : list (list Q)) : option (list (list Q)) :=
    match opt_all (map (fun dc => inv_col_today (fst dc) (snd dc)) (combine sp (columns sp Z))) with
    | None => None
    | Some cols => transpose_today cols
    end.

  (* the arguments at which the inverse of one warped row consults pw (base, exponent), in dimension order;
     used by the harness to supply pw as a finite table *)
  Definition pw_arg (d : dim) (zs : list Q) : list (Q * Q) :=
    let q lo hi p t :=
      match t, p with
      | TIdentity, PLog b => [(b, hd 0 zs)]
      | TNormalize, PLog b => [(b, norm_inv R (logt R lg b lo) (logt R lg b hi) (hd 0 zs))]
      | _, _ => []
      end in
    match d with
    | DReal lo hi p t => q lo hi p t
    | DInt lo hi p t => q (inject_Z lo) (inject_Z hi) p t
    | DCat _ _ _ => []
    end.
  Fixpoint pw_args_row (sp : space) (zs : list Q) : list (Q * Q) :=
    match sp with
    | [] => []
    | d :: sp' => pw_arg d (firstn (tsize d) zs) ++ pw_args_row sp' (skipn (tsize d) zs)
    end.
  Definition pw_args (sp : space) (Z : list (list Q)) : list (Q * Q) := flat_map (pw_args_row sp) Z.
End Oracles.

(* ----- oracles given as finite tables (how the extracted model is run: R = id, lg/pw = recorded libm values) ----- *)
Definition rid (x : Q) : Q := Qred x.

Fixpoint tab1 (t : list (Q * Q)) (x : Q) : Q :=
  match t with
  | [] => 0
  | (k, v) :: t' => if Qeq_bool k x then v else tab1 t' x
  end.

Fixpoint tab2 (t : list (Q * Q * Q)) (b x : Q) : Q :=
  match t with
  | [] => 0
  | (kb, kx, v) :: t' => if Qeq_bool kb b && Qeq_bool kx x then v else tab2 t' b x
  end.

(* ----- switching the transformers of a LIVE space (Space.set_transformer with a string or a list,
   Dimension.set_transformer, normalize_dimensions, Space.set_transformer_by_type) -----
   The only state a Space / Dimension object carries for C09 is its current configuration; a switch replaces the
   transform of some dimensions and nothing else.  Combinations the code rejects with ValueError leave the
   dimension unchanged here (Real / Integer accept identity and normalize only). *)
Inductive trname := TrIdentity | TrLabel | TrOnehot | TrNormalize.

Definition set_tr (d : dim) (t : trname) : dim :=
  match d, t with
  | DReal lo hi p _, TrIdentity => DReal lo hi p TIdentity
  | DReal lo hi p _, TrNormalize => DReal lo hi p TNormalize
  | DInt lo hi p _, TrIdentity => DInt lo hi p TIdentity
  | DInt lo hi p _, TrNormalize => DInt lo hi p TNormalize
  | DCat k cats _, TrIdentity => DCat k cats CIdentity
  | DCat k cats _, TrLabel => DCat k cats CLabel
  | DCat k cats _, TrOnehot => DCat k cats COnehot
  | DCat k cats _, TrNormalize => DCat k cats CNormalize
  | _, _ => d
  end.

Definition tr_of (d : dim) : trname :=
  match d with
  | DReal _ _ _ TIdentity | DInt _ _ _ TIdentity | DCat _ _ CIdentity => TrIdentity
  | DReal _ _ _ TNormalize | DInt _ _ _ TNormalize | DCat _ _ CNormalize => TrNormalize
  | DCat _ _ CLabel => TrLabel
  | DCat _ _ COnehot => TrOnehot
  end.

Definition kind_of (d : dim) : nat := match d with DReal _ _ _ _ => 0 | DInt _ _ _ _ => 1 | DCat _ _ _ => 2 end%nat.

Inductive switch :=
| SwAll (t : trname)                  (* space.set_transformer("normalize") ; normalize_dimensions = SwAll TrNormalize *)
| SwList (ts : list trname)           (* space.set_transformer([...]) ; a second Space over the same dimension objects *)
| SwDim (j : nat) (t : trname)        (* space.dimensions[j].set_transformer(t) *)
| SwByType (k : nat) (t : trname).    (* space.set_transformer_by_type(t, Real | Integer | Categorical) *)

Fixpoint set_list (sp : space) (ts : list trname) : space :=
  match sp, ts with
  | d :: sp', t :: ts' => set_tr d t :: set_list sp' ts'
  | _, _ => sp
  end.

Fixpoint set_nth (sp : space) (j : nat) (t : trname) : space :=
  match sp, j with
  | [], _ => []
  | d :: sp', O => set_tr d t :: sp'
  | d :: sp', S j' => d :: set_nth sp' j' t
  end.

Definition apply_switch (sp : space) (s : switch) : space :=
  match s with
  | SwAll t => map (fun d => set_tr d t) sp
  | SwList ts => set_list sp ts
  | SwDim j t => set_nth sp j t
  | SwByType k t => map (fun d => if Nat.eqb (kind_of d) k then set_tr d t else d) sp
  end.

Definition run_switches (sp : space) (ops : list switch) : space := fold_left apply_switch ops sp.
