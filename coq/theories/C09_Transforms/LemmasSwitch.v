(* One Space object used many times: transform / inverse_transform are row-by-row maps (no state between calls,
   no dependence between rows), and a switch of transformers changes the configuration and nothing else - so every
   C09 statement holds for the CURRENT configuration after any sequence of switches. *)
From Coq Require Import List ZArith QArith Bool Lia Arith.
Import ListNotations.
Require Import DH.C09_Transforms.Dims DH.C09_Transforms.Model DH.C09_Transforms.LemmasExact DH.C09_Transforms.LemmasMember.
Open Scope Q_scope.

(* ---------- row by row ---------- *)
Lemma transform_app R lg sp X Y : transform R lg sp (X ++ Y) = transform R lg sp X ++ transform R lg sp Y.
Proof. apply map_app. Qed.
Lemma transform_rev R lg sp X : transform R lg sp (rev X) = rev (transform R lg sp X).
Proof. apply map_rev. Qed.
Lemma inverse_app R lg pw sp X Y : inverse R lg pw sp (X ++ Y) = inverse R lg pw sp X ++ inverse R lg pw sp Y.
Proof. apply map_app. Qed.
Lemma inverse_rev R lg pw sp X : inverse R lg pw sp (rev X) = rev (inverse R lg pw sp X).
Proof. apply map_rev. Qed.
Lemma transform_nth R lg sp X i row : nth_error X i = Some row -> nth_error (transform R lg sp X) i = Some (transform_row R lg sp row).
Proof. intros H. unfold transform. apply map_nth_error, H. Qed.

(* ---------- switches keep the support ---------- *)
Definition same_support (d d' : dim) : Prop :=
  match d, d' with
  | DReal lo hi p _, DReal lo' hi' p' _ => lo = lo' /\ hi = hi' /\ p = p'
  | DInt lo hi p _, DInt lo' hi' p' _ => lo = lo' /\ hi = hi' /\ p = p'
  | DCat k c _, DCat k' c' _ => k = k' /\ c = c'
  | _, _ => False
  end.

Lemma same_support_refl d : same_support d d.
Proof. destruct d; cbn; auto. Qed.

Lemma same_support_trans a b c : same_support a b -> same_support b c -> same_support a c.
Proof.
  destruct a, b, c; cbn; try tauto.
  - intros (-> & -> & ->) (-> & -> & ->). auto.
  - intros (-> & -> & ->) (-> & -> & ->). auto.
  - intros (-> & ->) (-> & ->). auto.
Qed.

Lemma set_tr_support d t : same_support d (set_tr d t).
Proof. destruct d, t; cbn; auto. Qed.

Lemma in_dim_support d d' x : same_support d d' -> in_dim d x = in_dim d' x.
Proof.
  destruct d, d'; cbn; try tauto.
  - intros (-> & -> & _). reflexivity.
  - intros (-> & -> & _). reflexivity.
  - intros (_ & ->). reflexivity.
Qed.

Lemma Forall2_refl_support sp : Forall2 same_support sp sp.
Proof. induction sp; constructor; [apply same_support_refl| assumption]. Qed.

Lemma Forall2_trans_support a : forall b c, Forall2 same_support a b -> Forall2 same_support b c -> Forall2 same_support a c.
Proof.
  induction a as [|x a IH]; intros b c H1 H2; inversion H1; subst; inversion H2; subst; constructor.
  - eapply same_support_trans; eassumption.
  - eapply IH; eassumption.
Qed.

Lemma set_list_support sp : forall ts, Forall2 same_support sp (set_list sp ts).
Proof.
  induction sp as [|d sp IH]; intros [|t ts]; cbn [set_list]; try apply Forall2_refl_support.
  constructor; [apply set_tr_support| apply IH].
Qed.

Lemma set_nth_support sp : forall j t, Forall2 same_support sp (set_nth sp j t).
Proof.
  induction sp as [|d sp IH]; intros j t; cbn [set_nth]; [constructor|].
  destruct j; constructor; try apply same_support_refl; try apply set_tr_support; [apply Forall2_refl_support| apply IH].
Qed.

Lemma map_support (f : dim -> dim) sp : (forall d, same_support d (f d)) -> Forall2 same_support sp (map f sp).
Proof. intros H. induction sp; cbn; constructor; auto. Qed.

Lemma apply_switch_support sp s : Forall2 same_support sp (apply_switch sp s).
Proof.
  destruct s; cbn [apply_switch].
  - apply map_support. intros d. apply set_tr_support.
  - apply set_list_support.
  - apply set_nth_support.
  - apply map_support. intros d. destruct (Nat.eqb (kind_of d) k); [apply set_tr_support| apply same_support_refl].
Qed.

Lemma run_switches_support ops : forall sp, Forall2 same_support sp (run_switches sp ops).
Proof.
  induction ops as [|s ops IH]; intros sp; cbn [run_switches fold_left]; [apply Forall2_refl_support|].
  eapply Forall2_trans_support; [apply apply_switch_support| apply IH].
Qed.

Lemma in_space_support sp : forall sp' row, Forall2 same_support sp sp' -> in_space sp row = in_space sp' row.
Proof.
  induction sp as [|d sp IH]; intros sp' row H; inversion H; subst; destruct row as [|x row]; cbn [in_space]; try reflexivity.
  rewrite (in_dim_support d y x) by assumption. f_equal. apply IH. assumption.
Qed.

(* membership does not depend on the transforms currently installed *)
Theorem switch_membership_invariant sp ops row : in_space (run_switches sp ops) row = in_space sp row.
Proof. symmetry. apply in_space_support, run_switches_support. Qed.

Lemma Forall_in_space_switch sp ops X :
  Forall (fun row => in_space sp row = true) X -> Forall (fun row => in_space (run_switches sp ops) row = true) X.
Proof.
  intros H. apply Forall_forall. intros r Hr. rewrite switch_membership_invariant. rewrite Forall_forall in H. apply H, Hr.
Qed.

Lemma run_switches_length sp ops : length (run_switches sp ops) = length sp.
Proof.
  pose proof (run_switches_support ops sp) as H. induction H; cbn; [reflexivity| f_equal; assumption].
Qed.

(* after ANY sequence of switches, the laws hold for the configuration the space has NOW, for the points of the
   space it always was *)
Theorem switch_sequence R lg pw sp ops X :
  let sp' := run_switches sp ops in
  wf_space sp' = true -> Forall (fun row => in_space sp row = true) X ->
  (exact_oracles R lg pw -> rows_eq (inverse R lg pw sp' (transform R lg sp' X)) X)
  /\ Forall (fun row => in_space sp row = true) (inverse R lg pw sp' (transform R lg sp' X))
  /\ length (transform R lg sp' X) = length X
  /\ Forall (fun r => length r = tdims sp') (transform R lg sp' X)
  /\ (mono_oracles R lg -> Forall (fun r => Forall2 in_b r (tbounds_space R lg sp')) (transform R lg sp' X)).
Proof.
  intros sp' W H. pose proof (Forall_in_space_switch sp ops X H) as H'. fold sp' in H'.
  split; [intros EO; apply roundtrip_exact; assumption|].
  split.
  { pose proof (member_after_roundtrip R lg pw sp' X W H') as M. apply Forall_forall. intros r Hr.
    rewrite Forall_forall in M. rewrite <- (switch_membership_invariant sp ops). apply M, Hr. }
  assert (HL : Forall (fun row => length row = length sp') X).
  { apply Forall_forall. intros r Hr. rewrite Forall_forall in H'. specialize (H' r Hr).
    clear -H'. revert r H'. induction sp' as [|d s IH]; intros [|x r] E; try discriminate; [reflexivity|].
    cbn [in_space] in E. apply andb_true_iff in E as [_ E]. cbn [length]. f_equal. apply IH, E. }
  destruct (shape R lg pw sp' X HL) as (S1 & S2 & _ & _).
  split; [exact S1|]. split; [exact S2|].
  intros MO. apply transformed_in_bounds; assumption.
Qed.

(* which switches keep a space well-formed: everything except the identity transform on non-numeric categories *)
Lemma set_tr_wf d t : wf_dim d = true -> (match d, t with DCat KTok _ _, TrIdentity => False | _, _ => True end) ->
  wf_dim (set_tr d t) = true.
Proof.
  destruct d as [lo hi p tr|lo hi p tr|k cats tr], t; cbn [set_tr wf_dim]; intros W A; try exact W.
  - destruct k; [| |contradiction]; apply andb_true_iff in W as [W _]; rewrite W; reflexivity.
  - apply andb_true_iff in W as [W _]. rewrite W. reflexivity.
  - apply andb_true_iff in W as [W _]. rewrite W. reflexivity.
  - apply andb_true_iff in W as [W _]. rewrite W. reflexivity.
Qed.
