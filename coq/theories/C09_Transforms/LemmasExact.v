(* The algebraic law: with exact arithmetic (R x == x) and pw inverse to lg, inverse (transform X) == X. *)
From Coq Require Import List ZArith QArith Qround Bool Lia Lqa Arith Morphisms Setoid.
Import ListNotations.
Require Import DH.C09_Transforms.Dims DH.C09_Transforms.Model DH.C09_Transforms.LemmasNum DH.C09_Transforms.LemmasCat.
Open Scope Q_scope.

Lemma is_intQ_comp x y : x == y -> is_intQ x = is_intQ y.
Proof.
  intros H. unfold is_intQ. rewrite (Qfloor_comp _ _ H).
  destruct (Qeq_bool (inject_Z (Qfloor y)) y) eqn:E.
  - apply Qeq_bool_iff. apply Qeq_bool_iff in E. rewrite H. exact E.
  - apply Qeq_bool_false. apply Qeq_bool_false in E. rewrite H. exact E.
Qed.

Lemma firstn_app_exact {A} (l r : list A) : firstn (length l) (l ++ r) = l.
Proof. rewrite firstn_app, firstn_all, Nat.sub_diag, firstn_O, app_nil_r. reflexivity. Qed.

Lemma skipn_app_exact {A} (l r : list A) : skipn (length l) (l ++ r) = r.
Proof. rewrite skipn_app, skipn_all, Nat.sub_diag. reflexivity. Qed.

Lemma tr_cell_length R lg d x : length (tr_cell R lg d x) = tsize d.
Proof.
  destruct d as [lo hi p t|lo hi p t|k cats t]; try reflexivity.
  destruct t; try reflexivity. cbn [tr_cell]. rewrite (onehot_length cats). reflexivity.
Qed.

Definition rows_eq (X Y : list (list Q)) : Prop := Forall2 (Forall2 Qeq) X Y.

(* hypotheses on the oracles under which the law is exact *)
Record exact_oracles (R : Q -> Q) (lg : Q -> Q) (pw : Q -> Q -> Q) : Prop := {
  eo_R : forall x, R x == x;
  eo_pw_comp : forall b t t', t == t' -> pw b t == pw b t';
  eo_lg_comp : forall x y, x == y -> lg x == lg y;
  eo_lg_mono : forall x y, 0 < x -> x < y -> lg x < lg y;
  eo_lg_base : forall b, 1 < b -> 0 < lg b;
  eo_pw_lg : forall b x, 1 < b -> 0 < x -> pw b (lg x / lg b) == x }.

Section Exact.
  Variable R : Q -> Q.
  Variable lg : Q -> Q.
  Variable pw : Q -> Q -> Q.
  Hypothesis EO : exact_oracles R lg pw.

  Let HR := eo_R R lg pw EO.

  Instance R_proper : Proper (Qeq ==> Qeq) R.
  Proof. intros x y H. rewrite (HR x), (HR y). exact H. Qed.

  Lemma norm_rt lo hi y : lo <= y <= hi -> norm_inv R lo hi (norm_fwd R lo hi y) == y.
  Proof.
    intros [H1 H2]. unfold norm_inv, norm_fwd.
    destruct (Qeq_bool (R (hi - lo)) 0) eqn:E.
    - apply Qeq_bool_iff in E. rewrite HR in E. rewrite !HR. assert (y == lo) by lra. rewrite E. lra.
    - apply Qeq_bool_false in E. rewrite HR in E. rewrite !HR. field. exact E.
  Qed.

  Lemma logt_eq b x : logt R lg b x == lg x / lg b.
  Proof. unfold logt. apply HR. Qed.

  Lemma logt_lt b x y : 1 < b -> 0 < x -> x < y -> logt R lg b x < logt R lg b y.
  Proof.
    intros Hb Hx Hxy. rewrite !logt_eq.
    pose proof (eo_lg_base _ _ _ EO b Hb) as Lb. pose proof (eo_lg_mono _ _ _ EO x y Hx Hxy) as L.
    unfold Qdiv. apply Qmult_lt_compat_r; [apply Qinv_lt_0_compat, Lb| exact L].
  Qed.

  Lemma logt_le b x y : 1 < b -> 0 < x -> x <= y -> logt R lg b x <= logt R lg b y.
  Proof.
    intros Hb Hx Hxy. destruct (Qle_lt_or_eq _ _ Hxy) as [L|E].
    - apply Qlt_le_weak, logt_lt; assumption.
    - rewrite !logt_eq. rewrite (eo_lg_comp _ _ _ EO x y E). lra.
  Qed.

  Lemma pw_logt b x : 1 < b -> 0 < x -> pw b (logt R lg b x) == x.
  Proof.
    intros Hb Hx. rewrite (eo_pw_comp _ _ _ EO b _ _ (logt_eq b x)). apply (eo_pw_lg _ _ _ EO); assumption.
  Qed.

  (* the real-valued part of the pipeline, before clip / rounding *)
  Lemma num_rt lo hi p t x :
    lo < hi -> wf_prior lo p = true -> lo <= x <= hi ->
    num_inv R lg pw lo hi p t false (num_fwd R lg lo hi p t false x) == x.
  Proof.
    intros Hlh Hp [H1 H2]. destruct t, p as [|b]; cbn [num_inv num_fwd].
    - reflexivity.
    - cbn [wf_prior] in Hp. apply andb_true_iff in Hp as [Hb Hl]. apply Qltb_lt in Hb. apply Qltb_lt in Hl.
      apply pw_logt; lra.
    - apply norm_rt. lra.
    - cbn [wf_prior] in Hp. apply andb_true_iff in Hp as [Hb Hl]. apply Qltb_lt in Hb. apply Qltb_lt in Hl.
      assert (E : norm_inv R (logt R lg b lo) (logt R lg b hi) (norm_fwd R (logt R lg b lo) (logt R lg b hi) (logt R lg b x))
                  == logt R lg b x).
      { apply norm_rt. split; apply logt_le; lra. }
      rewrite (eo_pw_comp _ _ _ EO b _ _ E). apply pw_logt; lra.
  Qed.

  Lemma num_rt_int lo hi p t x :
    lo < hi -> wf_prior lo p = true -> lo <= x <= hi -> is_intQ x = true ->
    num_inv R lg pw lo hi p t true (num_fwd R lg lo hi p t true x) == x.
  Proof.
    intros Hlh Hp Hx Hi.
    destruct t, p as [|b].
    - exact (num_rt lo hi PUniform TIdentity x Hlh Hp Hx).
    - exact (num_rt lo hi (PLog b) TIdentity x Hlh Hp Hx).
    - cbn [num_inv num_fwd]. pose proof (rhe_int x Hi) as E.
      assert (E2 : norm_inv R lo hi (norm_fwd R lo hi (inject_Z (rhe x))) == inject_Z (rhe x)).
      { apply norm_rt. rewrite E. exact Hx. }
      rewrite (rhe_comp _ _ E2), rhe_inject. exact E.
    - exact (num_rt lo hi (PLog b) TNormalize x Hlh Hp Hx).
  Qed.

  Lemma cell_rt d x : wf_dim d = true -> in_dim d x = true -> inv_cell R lg pw d (tr_cell R lg d x) == x.
  Proof.
    intros W I. destruct d as [lo hi p t|lo hi p t|k cats t].
    - cbn [wf_dim] in W. apply andb_true_iff in W as [Wl Wp]. apply Qltb_lt in Wl.
      cbn [in_dim] in I. apply andb_true_iff in I as [I1 I2]. apply Qle_bool_iff in I1. apply Qle_bool_iff in I2.
      cbn [inv_cell tr_cell hd].
      pose proof (num_rt lo hi p t x Wl Wp (conj I1 I2)) as E.
      rewrite clipQ_id; [exact E| rewrite E; split; assumption].
    - cbn [wf_dim] in W. apply andb_true_iff in W as [Wl Wp]. apply Z.ltb_lt in Wl. rewrite Zlt_Qlt in Wl.
      cbn [in_dim] in I. apply andb_true_iff in I as [I I3]. apply andb_true_iff in I as [I1 I2].
      apply Qle_bool_iff in I1. apply Qle_bool_iff in I2.
      cbn [inv_cell tr_cell hd].
      pose proof (num_rt_int (inject_Z lo) (inject_Z hi) p t x Wl Wp (conj I1 I2) I3) as E.
      rewrite clipQ_id; [|rewrite E; split; assumption].
      rewrite (rhe_comp _ _ E). apply rhe_int, I3.
    - cbn [wf_dim] in W. apply andb_true_iff in W as [W W3]. apply andb_true_iff in W as [W1 W2].
      cbn [in_dim] in I. cbn [inv_cell tr_cell cat_inv]. destruct t.
      + cbn [cat_inv hd]. destruct k; try reflexivity.
        apply Qtrunc_int. pose proof I as I'. apply memQ_In in I' as [c [Hc E]].
        rewrite (is_intQ_comp _ _ E). rewrite forallb_forall in W2. apply W2, Hc.
      + cbn [cat_inv hd]. rewrite rhe_inject. apply unrank_rank, I.
      + cbn [cat_inv]. apply unonehot_onehot, I.
      + cbn [cat_inv hd]. rewrite !rhe_inject.
        pose proof (rank_range cats x) as [Rg0 _]. pose proof (rank_lt cats x I) as Rg1.
        assert (E : norm_inv R 0 (inject_Z (Z.of_nat (length cats)) - 1)
                      (norm_fwd R 0 (inject_Z (Z.of_nat (length cats)) - 1) (inject_Z (rank cats x)))
                    == inject_Z (rank cats x)).
        { apply norm_rt. split.
          - change 0 with (inject_Z 0). rewrite <- Zle_Qle. exact Rg0.
          - assert (A : inject_Z (rank cats x) <= inject_Z (Z.of_nat (length cats) - 1)) by (rewrite <- Zle_Qle; lia).
            rewrite inj_m1 in A. exact A. }
        rewrite (rhe_comp _ _ E), !rhe_inject. apply unrank_rank, I.
  Qed.

  Lemma row_rt sp : forall row, wf_space sp = true -> in_space sp row = true ->
    Forall2 Qeq (inverse_row R lg pw sp (transform_row R lg sp row)) row.
  Proof.
    induction sp as [|d sp IH]; intros [|x row] W I; try discriminate; cbn [transform_row inverse_row].
    - constructor.
    - cbn [wf_space forallb] in W. apply andb_true_iff in W as [W1 W2].
      cbn [in_space] in I. apply andb_true_iff in I as [I1 I2].
      rewrite <- (tr_cell_length R lg d x). rewrite firstn_app_exact, skipn_app_exact.
      constructor; [apply cell_rt; assumption| apply IH; assumption].
  Qed.

  Theorem roundtrip_exact sp X : wf_space sp = true -> Forall (fun row => in_space sp row = true) X ->
    rows_eq (inverse R lg pw sp (transform R lg sp X)) X.
  Proof.
    intros W H. unfold rows_eq, inverse, transform. induction H as [|row X Hr HX IH]; cbn [map]; constructor.
    - apply row_rt; assumption.
    - exact IH.
  Qed.
End Exact.
