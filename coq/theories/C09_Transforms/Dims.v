(* Shared dimension model of deephyper.skopt.space (pinned tree + the two proposed repairs F02, F13):
   Real / Integer / Categorical dimensions, membership, per-dimension transform, inverse transform,
   transformed size and transformed bounds.   Executable definitions only - no proofs in this file.
   Used by C09 (round trips) and meant to be imported by C02 (decode pipeline / membership).

   Values.  Every value of the original space and every coordinate of the warped space is a rational [Q]:
   reals and integers are themselves, numeric categories are themselves, non-numeric categories (str, bool)
   are rank tokens 0,1,2,.. assigned by the harness in the order np.unique sorts them (so that the label
   encoding, which np.unique defines, is "number of categories that are smaller").

   Oracles (Section variables; every theorem quantifies over them):
     R  : Q -> Q        the rounding applied by ONE binary64 arithmetic step (+ - * /)
     lg : Q -> Q        np.log10
     pw : Q -> Q -> Q   base ** x   (libm pow), first argument = base

   Interface (all that C02 needs):
     dim, space, wf_dim, wf_space, in_dim, in_space,
     tsize, tdims, tr_cell, inv_cell (repaired code: Real clips), inv_cell_noclip (today's Real),
     tbounds, tbounds_space, clipQ, rhe (round half even), Qtrunc.                                         *)
From Coq Require Import List ZArith QArith Qround Bool.
Import ListNotations.
Open Scope Q_scope.

Inductive prior := PUniform | PLog (base : Q).
Inductive ntrans := TIdentity | TNormalize.                        (* Real / Integer: "identity" | "normalize" *)
Inductive ctrans := CIdentity | CLabel | COnehot | CNormalize.     (* Categorical *)
Inductive ckind := KInt | KFloat | KTok.                           (* all-int categories | all-float | tokens (str/bool) *)

Inductive dim :=
| DReal (lo hi : Q) (p : prior) (t : ntrans)
| DInt (lo hi : Z) (p : prior) (t : ntrans)
| DCat (k : ckind) (cats : list Q) (t : ctrans).

Definition space := list dim.

(* ---------- small numeric helpers ---------- *)
Definition Qltb (x y : Q) : bool := negb (Qle_bool y x).

(* np.clip(x, lo, hi) = minimum(maximum(x, lo), hi) *)
Definition clipQ (lo hi x : Q) : Q :=
  let m := if Qltb x lo then lo else x in
  if Qltb hi m then hi else m.

(* np.round : round half to even *)
Definition rhe (x : Q) : Z :=
  let f := Qfloor x in
  let r := x - inject_Z f in
  if Qltb r (1 # 2) then f
  else if Qltb (1 # 2) r then (f + 1)%Z
  else if Z.even f then f else (f + 1)%Z.

(* int(x) : truncation towards zero *)
Definition Qtrunc (x : Q) : Z := if Qltb x 0 then Qceiling x else Qfloor x.

Definition is_intQ (x : Q) : bool := Qeq_bool (inject_Z (Qfloor x)) x.

Definition memQ (x : Q) (l : list Q) : bool := existsb (Qeq_bool x) l.

(* ---------- categories ---------- *)
(* LabelEncoder.fit on a non-object array: np.unique order -> label of x = number of categories below x *)
Definition rank (cats : list Q) (x : Q) : Z :=
  Z.of_nat (length (filter (fun c => Qltb c x) cats)).

(* inverse_mapping_[i] ; total: an index that is no label gives the first category
   (the code raises KeyError there; C02 clips to the transformed bounds before it gets here) *)
Definition unrank (cats : list Q) (i : Z) : Q :=
  match find (fun c => Z.eqb (rank cats c) i) cats with
  | Some c => c
  | None => hd 0 cats
  end.

(* CategoricalEncoder.mapping_ : position in declaration order *)
Fixpoint index (cats : list Q) (x : Q) : nat :=
  match cats with
  | [] => O
  | c :: t => if Qeq_bool x c then O else S (index t x)
  end.

Fixpoint unit_vec (n i : nat) : list Q :=
  match n with
  | O => []
  | S n' => match i with O => 1 :: repeat 0 n' | S i' => 0 :: unit_vec n' i' end
  end.

(* LabelBinarizer.transform on labels 0..n-1 : n=1 -> one zero column, n=2 -> one 0/1 column, else one-hot *)
Definition onehot (n i : nat) : list Q :=
  match n with
  | 1%nat => [0]
  | 2%nat => [match i with O => 0 | _ => 1 end]
  | _ => unit_vec n i
  end.

(* first index of the maximum (np.argmax) *)
Fixpoint argmax_from (best : Q) (bi : nat) (i : nat) (l : list Q) : nat :=
  match l with
  | [] => bi
  | z :: t => if Qltb best z then argmax_from z i (S i) t else argmax_from best bi (S i) t
  end.
Definition argmax (l : list Q) : nat :=
  match l with [] => O | z :: t => argmax_from z O 1%nat t end.

(* LabelBinarizer.inverse_transform: 1 class -> that class; 2 classes -> threshold 1/2; else argmax *)
Definition unonehot (cats : list Q) (zs : list Q) : Q :=
  match length cats with
  | 1%nat => hd 0 cats
  | 2%nat => if Qltb (1 # 2) (hd 0 zs) then nth 1 cats (hd 0 cats) else hd 0 cats
  | _ => nth (argmax zs) cats (hd 0 cats)
  end.

Definition qmin (l : list Q) : Q := fold_right (fun c m => if Qltb c m then c else m) (hd 0 l) l.
Definition qmax (l : list Q) : Q := fold_right (fun c m => if Qltb m c then c else m) (hd 0 l) l.

(* ---------- membership ---------- *)
Definition in_dim (d : dim) (x : Q) : bool :=
  match d with
  | DReal lo hi _ _ => Qle_bool lo x && Qle_bool x hi
  | DInt lo hi _ _ => Qle_bool (inject_Z lo) x && Qle_bool x (inject_Z hi) && is_intQ x
  | DCat _ cats _ => memQ x cats
  end.

Fixpoint in_space (sp : space) (row : list Q) : bool :=
  match sp, row with
  | [], [] => true
  | d :: sp', x :: row' => in_dim d x && in_space sp' row'
  | _, _ => false
  end.

(* what the constructors of the code insist on (ValueError otherwise) plus what the property assumes *)
Definition wf_prior (lo : Q) (p : prior) : bool :=
  match p with PUniform => true | PLog b => Qltb 1 b && Qltb 0 lo end.

Definition wf_dim (d : dim) : bool :=
  match d with
  | DReal lo hi p _ => Qltb lo hi && wf_prior lo p
  | DInt lo hi p _ => (lo <? hi)%Z && wf_prior (inject_Z lo) p
  | DCat k cats t =>
      negb (Nat.eqb (length cats) 0)
      && (match k with KInt => forallb is_intQ cats | _ => true end)
      && (match t with CIdentity => match k with KTok => false | _ => true end | _ => true end)
  end.
Definition wf_space (sp : space) : bool := forallb wf_dim sp.

Definition tsize (d : dim) : nat :=
  match d with
  | DCat _ cats COnehot => let n := length cats in if Nat.eqb n 2 then 1%nat else n
  | _ => 1%nat
  end.
Definition tdims (sp : space) : nat := fold_right (fun d n => (tsize d + n)%nat) O sp.

Section Oracles.
  Variable R : Q -> Q.
  Variable lg : Q -> Q.
  Variable pw : Q -> Q -> Q.

  (* LogN(base).transform : np.log10(X) / np.log10(base) *)
  Definition logt (b x : Q) : Q := R (lg x / lg b).

  (* Normalize(lo, hi).transform, after the is_int rounding of the argument *)
  Definition norm_fwd (lo hi x : Q) : Q :=
    let w := R (hi - lo) in
    if Qeq_bool w 0 then R (x * 0) else R (R (x - lo) / w).

  (* Normalize(lo, hi).inverse_transform, before the is_int rounding of the result *)
  Definition norm_inv (lo hi z : Q) : Q := R (R (z * R (hi - lo)) + lo).

  (* the transformer chosen by Real/Integer.set_transformer; isint = Normalize(..., is_int=True) *)
  Definition num_fwd (lo hi : Q) (p : prior) (t : ntrans) (isint : bool) (x : Q) : Q :=
    match t, p with
    | TIdentity, PUniform => x
    | TIdentity, PLog b => logt b x
    | TNormalize, PUniform => norm_fwd lo hi (if isint then inject_Z (rhe x) else x)
    | TNormalize, PLog b => norm_fwd (logt b lo) (logt b hi) (logt b x)
    end.

  Definition num_inv (lo hi : Q) (p : prior) (t : ntrans) (isint : bool) (z : Q) : Q :=
    match t, p with
    | TIdentity, PUniform => z
    | TIdentity, PLog b => pw b z
    | TNormalize, PUniform => let v := norm_inv lo hi z in if isint then inject_Z (rhe v) else v
    | TNormalize, PLog b => pw b (norm_inv (logt b lo) (logt b hi) z)
    end.

  (* Dimension.transform of one value: the [tsize d] coordinates it contributes to the warped row *)
  Definition tr_cell (d : dim) (x : Q) : list Q :=
    match d with
    | DReal lo hi p t => [num_fwd lo hi p t false x]
    | DInt lo hi p t => [num_fwd (inject_Z lo) (inject_Z hi) p t true x]
    | DCat k cats t =>
        match t with
        | CIdentity => [x]
        | CLabel => [inject_Z (rank cats x)]
        | COnehot => onehot (length cats) (index cats x)
        | CNormalize => [norm_fwd 0 (inject_Z (Z.of_nat (length cats)) - 1) (inject_Z (rhe (inject_Z (rank cats x))))]
        end
    end.

  (* Categorical.inverse_transform of one warped cell *)
  Definition cat_inv (k : ckind) (cats : list Q) (t : ctrans) (zs : list Q) : Q :=
    match t with
    | CIdentity => match k with KInt => inject_Z (Qtrunc (hd 0 zs)) | _ => hd 0 zs end
    | CLabel => unrank cats (rhe (hd 0 zs))
    | COnehot => unonehot cats zs
    | CNormalize =>
        unrank cats (rhe (inject_Z (rhe (norm_inv 0 (inject_Z (Z.of_nat (length cats)) - 1) (hd 0 zs)))))
    end.

  (* Dimension.inverse_transform of one warped cell ([tsize d] coordinates) - REPAIRED code:
     Real clips to [low, high] like Integer does (fixes/F02), Identity(type_func) maps over rows (fixes/F13,
     visible at the column level in Model.v). *)
  Definition inv_cell (d : dim) (zs : list Q) : Q :=
    match d with
    | DReal lo hi p t => clipQ lo hi (num_inv lo hi p t false (hd 0 zs))
    | DInt lo hi p t =>
        inject_Z (rhe (clipQ (inject_Z lo) (inject_Z hi) (num_inv (inject_Z lo) (inject_Z hi) p t true (hd 0 zs))))
    | DCat k cats t => cat_inv k cats t zs
    end.

  (* TODAY's code: Real.inverse_transform has no clip *)
  Definition inv_cell_noclip (d : dim) (zs : list Q) : Q :=
    match d with
    | DReal lo hi p t => num_inv lo hi p t false (hd 0 zs)
    | _ => inv_cell d zs
    end.

  (* Dimension.transformed_bounds : one (low, high) pair per warped coordinate *)
  Definition num_tbounds (lo hi : Q) (p : prior) (t : ntrans) : Q * Q :=
    match t, p with
    | TNormalize, _ => (0, 1)
    | TIdentity, PUniform => (lo, hi)
    | TIdentity, PLog b => (logt b lo, logt b hi)
    end.

  Definition tbounds (d : dim) : list (Q * Q) :=
    match d with
    | DReal lo hi p t => [num_tbounds lo hi p t]
    | DInt lo hi p t => [num_tbounds (inject_Z lo) (inject_Z hi) p t]
    | DCat k cats t =>
        match t with
        | CLabel => [(0, inject_Z (Z.of_nat (length cats)) - 1)]
        | CIdentity => [(qmin cats, qmax cats)]
        | CNormalize => [(0, 1)]
        | COnehot => repeat (0, 1) (tsize d)
        end
    end.

  Definition tbounds_space (sp : space) : list (Q * Q) := flat_map tbounds sp.
End Oracles.
