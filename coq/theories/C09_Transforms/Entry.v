(* Entry points for the extracted driver: data -> data.   Rationals travel as (num den) pairs.
   The extracted model is run with R = identity on exact rationals and lg / pw given as finite tables of the
   libm values recorded by the harness. *)
From Coq Require Import List ZArith QArith Bool.
Import ListNotations.
Require Import DH.Common.Data DH.C09_Transforms.Dims DH.C09_Transforms.Model DH.C09_Transforms.Check.
Open Scope Z_scope.

Definition dQ (d : data) : Q := Qmake (dZ (dnth 0 d)) (Z.to_pos (dZ (dnth 1 d))).
Definition eQ (q : Q) : data := L [I (Qnum q); I (Zpos (Qden q))].
Definition dQQ (d : data) : Q * Q := (dQ (dnth 0 d), dQ (dnth 1 d)).
Definition eQQ (p : Q * Q) : data := L [eQ (fst p); eQ (snd p)].
Definition dQQQ (d : data) : Q * Q * Q := (dQ (dnth 0 d), dQ (dnth 1 d), dQ (dnth 2 d)).
Definition d_rows (d : data) : list (list Q) := dmap (dmap dQ) d.
Definition e_rows (r : list (list Q)) : data := elist (elist eQ) r.

Definition d_prior (d : data) : prior := match dopt dQ d with None => PUniform | Some b => PLog b end.
Definition d_ntrans (d : data) : ntrans := if dZ d =? 0 then TIdentity else TNormalize.
Definition d_ctrans (d : data) : ctrans :=
  let z := dZ d in if z =? 0 then CIdentity else if z =? 1 then CLabel else if z =? 2 then COnehot else CNormalize.
Definition d_ckind (d : data) : ckind := let z := dZ d in if z =? 0 then KInt else if z =? 1 then KFloat else KTok.

(* (0 lo hi prior tr) | (1 lo hi prior tr) | (2 kind cats tr) *)
Definition d_dim (d : data) : dim :=
  let tag := dZ (dnth 0 d) in
  if tag =? 0 then DReal (dQ (dnth 1 d)) (dQ (dnth 2 d)) (d_prior (dnth 3 d)) (d_ntrans (dnth 4 d))
  else if tag =? 1 then DInt (dZ (dnth 1 d)) (dZ (dnth 2 d)) (d_prior (dnth 3 d)) (d_ntrans (dnth 4 d))
  else DCat (d_ckind (dnth 1 d)) (dmap dQ (dnth 2 d)) (d_ctrans (dnth 3 d)).
Definition d_space (d : data) : space := dmap d_dim d.

Definition d_lg (d : data) : Q -> Q := tab1 (dmap dQQ d).
Definition d_pw (d : data) : Q -> Q -> Q := tab2 (dmap dQQQ d).

Definition d_tr (d : data) : trname :=
  let z := dZ d in if z =? 0 then TrIdentity else if z =? 1 then TrLabel else if z =? 2 then TrOnehot else TrNormalize.
Definition e_tr (t : trname) : data :=
  I (match t with TrIdentity => 0 | TrLabel => 1 | TrOnehot => 2 | TrNormalize => 3 end).
(* (0 t) | (1 (ts)) | (2 j t) | (3 kind t) *)
Definition d_switch (d : data) : switch :=
  let tag := dZ (dnth 0 d) in
  if tag =? 0 then SwAll (d_tr (dnth 1 d))
  else if tag =? 1 then SwList (dmap d_tr (dnth 1 d))
  else if tag =? 2 then SwDim (dnat (dnth 1 d)) (d_tr (dnth 2 d))
  else SwByType (dnat (dnth 1 d)) (d_tr (dnth 2 d)).

Definition entries : list (Z * (data -> data)) :=
  [ (901, fun d => e_rows (transform rid (d_lg (dnth 2 d)) (d_space (dnth 0 d)) (d_rows (dnth 1 d))));
    (902, fun d => elist eQQ (pw_args rid (d_lg (dnth 2 d)) (d_space (dnth 0 d)) (d_rows (dnth 1 d))));
    (903, fun d => e_rows (inverse rid (d_lg (dnth 2 d)) (d_pw (dnth 3 d)) (d_space (dnth 0 d)) (d_rows (dnth 1 d))));
    (904, fun d => eopt e_rows (inverse_today rid (d_lg (dnth 2 d)) (d_pw (dnth 3 d)) (d_space (dnth 0 d)) (d_rows (dnth 1 d))));
    (905, fun d => eZ (ok_C09 (d_space (dnth 0 d)) (dmap dQQ (dnth 1 d)) (dmap dQQ (dnth 2 d))
                              (d_rows (dnth 3 d)) (d_rows (dnth 4 d)) (d_rows (dnth 5 d))));
    (906, fun d => elist eQQ (tbounds_space rid (d_lg (dnth 1 d)) (d_space (dnth 0 d))));
    (907, fun d => enat (tdims (d_space d)));
    (909, fun d => elist e_tr (map tr_of (run_switches (d_space (dnth 0 d)) (dmap d_switch (dnth 1 d)))));
    (908, fun d => ebool (wf_space (d_space (dnth 0 d)) && in_space (d_space (dnth 0 d)) (dmap dQ (dnth 1 d)))) ].
