(* C09 - Space transforms round-trip and stay inside their bounds.  Property theorems only.
   The model (Dims.v, Model.v) describes deephyper/skopt/space/{space,transformers}.py of the pinned tree with the two
   proposed repairs fixes/F02 (Real.inverse_transform clips) and fixes/F13 (Identity(type_func) maps over rows);
   [inverse_today] / [inv_cell_noclip] describe the pinned code itself and carry the *_refuted theorems.
   R = rounding of one binary64 arithmetic step, lg = log10, pw = base ** x : universally quantified oracles. *)
From Coq Require Import List ZArith QArith Qround Bool Lqa.
Import ListNotations.
Require Import DH.C09_Transforms.Dims DH.C09_Transforms.Model DH.C09_Transforms.Check
               DH.C09_Transforms.LemmasExact DH.C09_Transforms.LemmasRobust DH.C09_Transforms.LemmasMember
               DH.C09_Transforms.LemmasSpec DH.C09_Transforms.LemmasSwitch.
Open Scope Q_scope.

(* the algebraic law: exact arithmetic (R x == x), pw inverse to lg, lg strictly monotone: for every space, every
   kind / prior / transform, every list of points of the space of ANY length, inverse (transform X) is X, row by row *)
Theorem C09_roundtrip_exact : forall R lg pw, exact_oracles R lg pw ->
  forall sp X, wf_space sp = true -> Forall (fun row => in_space sp row = true) X ->
  rows_eq (inverse R lg pw sp (transform R lg sp X)) X.
Proof. exact roundtrip_exact. Qed.
Print Assumptions C09_roundtrip_exact.

(* what survives floating point: for ANY rounding R of relative error <= 2^-52 per step, and any lg / pw, every Integer
   (uniform prior; identity transform: ANY magnitude - no arithmetic is involved, which is why spaces whose warped
   columns are all integral are exact for every int64 value; normalize: bounds within +-2^47) and every Categorical
   (identity / label / onehot: any categories; normalize: at most 2^47 of them) coordinate comes back EXACTLY *)
Theorem C09_int_cat_robust : forall R, admissible R -> forall lg pw sp row j d x,
  wf_space sp = true -> in_space sp row = true ->
  nth_error sp j = Some d -> nth_error row j = Some x -> robust_dim d = true ->
  exists x', nth_error (inverse_row R lg pw sp (transform_row R lg sp row)) j = Some x' /\ x' == x.
Proof. exact row_robust. Qed.
Print Assumptions C09_int_cat_robust.

(* PARTIAL - Integer dimensions with a log-uniform prior: exactness is proved only under the explicit accuracy
   hypothesis "the real-valued pipeline (log10, /, normalise, de-normalise, base**x under R) returns a value closer than
   1/2 to x"; the oracle model has no accuracy statement for libm's pow/log10 from which to derive it (observed on the
   implementation: holds up to 2^46, fails from 2^48).  For every prior: clip + round then return x. *)
Theorem C09_int_any_prior_partial : forall R lg pw lo hi p t x,
  wf_dim (DInt lo hi p t) = true -> in_dim (DInt lo hi p t) x = true ->
  (let v := num_inv R lg pw (inject_Z lo) (inject_Z hi) p t true (num_fwd R lg (inject_Z lo) (inject_Z hi) p t true x) in
   x - (1 # 2) < v /\ v < x + (1 # 2)) ->
  inv_cell R lg pw (DInt lo hi p t) (tr_cell R lg (DInt lo hi p t) x) == x.
Proof. exact int_any_prior_partial. Qed.
Print Assumptions C09_int_any_prior_partial.

(* with the final clip (repaired Real, today's Integer): for EVERY R, lg, pw - no hypothesis at all - every
   round-tripped point is a member of the space *)
Theorem C09_member_after_roundtrip : forall R lg pw sp X,
  wf_space sp = true -> Forall (fun row => in_space sp row = true) X ->
  Forall (fun row => in_space sp row = true) (inverse R lg pw sp (transform R lg sp X)).
Proof. exact member_after_roundtrip. Qed.
Print Assumptions C09_member_after_roundtrip.

(* the per-dimension decode lemma C02 builds on: ANY warped cell decodes into the dimension *)
Theorem C09_decode_member : forall R lg pw d zs,
  wf_dim d = true -> is_cat_identity d = false -> in_dim d (inv_cell R lg pw d zs) = true.
Proof. exact inv_cell_member. Qed.
Print Assumptions C09_decode_member.

Theorem C09_decode_row_member : forall R lg pw sp zs,
  wf_space sp = true -> forallb (fun d => negb (is_cat_identity d)) sp = true ->
  in_space sp (inverse_row R lg pw sp zs) = true.
Proof. exact inverse_row_member. Qed.
Print Assumptions C09_decode_row_member.

(* TODAY's Real.inverse_transform (no clip) - F02: an admissible rounding takes a point of the space outside *)
Theorem C09_real_member_refuted :
  exists R d x, admissible R /\ wf_dim d = true /\ in_dim d x = true /\
    (forall lg pw, in_dim d (inv_cell_noclip R lg pw d (tr_cell R lg d x)) = false).
Proof. exact real_member_refuted. Qed.
Print Assumptions C09_real_member_refuted.

(* shape: len(X) rows of width transformed_n_dims; the round trip has len(X) rows of width n_dims *)
Theorem C09_shape : forall R lg pw sp X, Forall (fun row => length row = length sp) X ->
  length (transform R lg sp X) = length X
  /\ Forall (fun r => length r = tdims sp) (transform R lg sp X)
  /\ length (inverse R lg pw sp (transform R lg sp X)) = length X
  /\ Forall (fun r => length r = length sp) (inverse R lg pw sp (transform R lg sp X)).
Proof. exact shape. Qed.
Print Assumptions C09_shape.

(* every warped coordinate lies inside transformed_bounds, for every MONOTONE rounding that fixes 0 and 1 and every
   monotone lg *)
Theorem C09_transformed_in_bounds : forall R lg, mono_oracles R lg -> forall sp X,
  wf_space sp = true -> Forall (fun row => in_space sp row = true) X ->
  Forall (fun r => Forall2 in_b r (tbounds_space R lg sp)) (transform R lg sp X).
Proof. exact transformed_in_bounds. Qed.
Print Assumptions C09_transformed_in_bounds.

(* TODAY's Identity(type_func).inverse_transform - F13: two rows in, one row out (or IndexError) *)
Theorem C09_identity_rows_refuted : forall R lg pw,
  let sp := [DCat KInt [1; 2; 3] CIdentity] in
  let X := [[2]; [3]] in
  wf_space sp = true /\ Forall (fun row => in_space sp row = true) X
  /\ inverse_today R lg pw sp (transform R lg sp X) = Some [[2]]
  /\ inverse_today R lg pw (DInt 0 5 PUniform TIdentity :: sp)
       (transform R lg (DInt 0 5 PUniform TIdentity :: sp) [[0; 2]; [5; 3]]) = None.
Proof. exact identity_rows_refuted. Qed.
Print Assumptions C09_identity_rows_refuted.

(* the oracle applied to the implementation's values decides exactly the specification ... *)
Theorem C09_oracle : forall sp tb tols X Xt X', ok_C09 sp tb tols X Xt X' = 0%Z <-> Spec_C09 sp tb tols X Xt X'.
Proof. exact ok_C09_spec. Qed.
Print Assumptions C09_oracle.

(* ... which the model of the repaired code meets *)
Theorem C09_model_meets_spec : forall R lg pw sp tols X,
  exact_oracles R lg pw -> mono_oracles R lg -> wf_space sp = true ->
  length tols = length sp -> Forall tol_ok tols -> Forall (fun row => in_space sp row = true) X ->
  Spec_C09 sp (tbounds_space R lg sp) tols X (transform R lg sp X) (inverse R lg pw sp (transform R lg sp X)).
Proof. exact model_meets_spec. Qed.
Print Assumptions C09_model_meets_spec.

(* ---------- one Space object used many times ---------- *)
(* transform and inverse_transform are row-by-row maps: no dependence between rows, nothing carried from one call to the
   next; the same rows in another order / in two batches give the same rows *)
Theorem C09_rowwise : forall R lg pw sp X Y,
  transform R lg sp (X ++ Y) = transform R lg sp X ++ transform R lg sp Y
  /\ transform R lg sp (rev X) = rev (transform R lg sp X)
  /\ inverse R lg pw sp (X ++ Y) = inverse R lg pw sp X ++ inverse R lg pw sp Y
  /\ inverse R lg pw sp (rev X) = rev (inverse R lg pw sp X).
Proof.
  intros. repeat split; [apply transform_app| apply transform_rev| apply inverse_app| apply inverse_rev].
Qed.
Print Assumptions C09_rowwise.

(* switching transformers (Space.set_transformer with a string or a list, Dimension.set_transformer,
   normalize_dimensions, set_transformer_by_type - any sequence) never changes which points belong to the space *)
Theorem C09_switch_membership_invariant : forall sp ops row, in_space (run_switches sp ops) row = in_space sp row.
Proof. exact switch_membership_invariant. Qed.
Print Assumptions C09_switch_membership_invariant.

(* ... and after ANY sequence of switches the laws hold for the configuration the space has now *)
Theorem C09_switch_sequence : forall R lg pw sp ops X,
  let sp' := run_switches sp ops in
  wf_space sp' = true -> Forall (fun row => in_space sp row = true) X ->
  (exact_oracles R lg pw -> rows_eq (inverse R lg pw sp' (transform R lg sp' X)) X)
  /\ Forall (fun row => in_space sp row = true) (inverse R lg pw sp' (transform R lg sp' X))
  /\ length (transform R lg sp' X) = length X
  /\ Forall (fun r => length r = tdims sp') (transform R lg sp' X)
  /\ (mono_oracles R lg -> Forall (fun r => Forall2 in_b r (tbounds_space R lg sp')) (transform R lg sp' X)).
Proof. exact switch_sequence. Qed.
Print Assumptions C09_switch_sequence.

(* ---------- non-vacuity ---------- *)
(* the oracle hypotheses are satisfiable over Q: an affine "logarithm" and its inverse; Qred as the exact rounding *)
Definition lg1 (x : Q) : Q := x - 1.
Definition pw1 (b t : Q) : Q := t * (b - 1) + 1.

Example C09_exact_oracles_inhabited : exact_oracles Qred lg1 pw1.
Proof.
  constructor; unfold lg1, pw1.
  - exact Qred_correct.
  - intros b t t' H. rewrite H. reflexivity.
  - intros x y H. rewrite H. reflexivity.
  - intros x y _ H. lra.
  - intros b H. lra.
  - intros b x Hb Hx. field. lra.
Qed.

Example C09_mono_oracles_inhabited : mono_oracles Qred lg1.
Proof.
  constructor; unfold lg1.
  - intros x y H. rewrite !Qred_correct. exact H.
  - reflexivity.
  - reflexivity.
  - intros x y _ H. lra.
  - intros b H. lra.
Qed.

Example C09_admissible_inhabited : admissible (fun x => x) /\ admissible Qred /\ admissible R_up.
Proof.
  split; [|split; [|exact R_up_admissible]]; intros v B H; unfold eps.
  - lra.
  - rewrite Qred_correct. lra.
Qed.

(* a concrete space with every kind of dimension and three points: the executable model returns them *)
Definition ex_space : space :=
  [ DReal (-2) 6 PUniform TNormalize; DReal (1 # 4) 8 (PLog 2) TNormalize; DReal 1 100 (PLog 10) TIdentity;
    DInt (-5) 5 PUniform TNormalize; DInt 1 64 (PLog 2) TIdentity;
    DCat KTok [0; 1; 2] COnehot; DCat KTok [1; 0] COnehot; DCat KInt [16; 32; 64] CIdentity;
    DCat KFloat [5 # 2; 1 # 2] CLabel; DCat KTok [2; 0; 1] CNormalize ].
Definition ex_X : list (list Q) :=
  [ [6; 8; 100; -5; 64; 2; 0; 64; 1 # 2; 0];
    [-2; 1 # 4; 1; 5; 1; 0; 1; 16; 5 # 2; 2];
    [1 # 3; 3; 7; 0; 9; 1; 1; 32; 1 # 2; 1] ].

Example C09_example :
  wf_space ex_space = true /\ forallb (in_space ex_space) ex_X = true
  /\ forall2b (forall2b Qeq_bool) (inverse Qred lg1 pw1 ex_space (transform Qred lg1 ex_space ex_X)) ex_X = true
  /\ tdims ex_space = 12%nat
  /\ ok_C09 ex_space (tbounds_space Qred lg1 ex_space) (repeat (0, 0) 10) ex_X (transform Qred lg1 ex_space ex_X)
       (inverse Qred lg1 pw1 ex_space (transform Qred lg1 ex_space ex_X)) = 0%Z.
Proof. vm_compute. repeat split; reflexivity. Qed.

(* integral warped columns only: exact for integers far above 2^53 (2^53+1, 2^62-1, -2^62) and robust for EVERY rounding *)
Definition big_space : space :=
  [ DInt (-4611686018427387904) 4611686018427387903 PUniform TIdentity;
    DCat KInt [9007199254740993; -4611686018427387904; 4611686018427387903; 7] CIdentity;
    DCat KInt [1152921504606846977; 1152921504606846976; -3] CLabel; DCat KTok [0; 1; 2] COnehot ].
Definition big_X : list (list Q) :=
  [ [9007199254740993; 9007199254740993; 1152921504606846977; 0];
    [4611686018427387903; -4611686018427387904; 1152921504606846976; 2];
    [-4611686018427387904; 4611686018427387903; -3; 1] ].
Example C09_big_integers :
  wf_space big_space = true /\ forallb robust_dim big_space = true /\ forallb (in_space big_space) big_X = true
  /\ transform R_up lg1 big_space big_X
     = [ [9007199254740993; 9007199254740993; 2; 1; 0; 0]; [4611686018427387903; -4611686018427387904; 1; 0; 0; 1];
         [-4611686018427387904; 4611686018427387903; 0; 0; 1; 0] ]
  /\ inverse R_up lg1 pw1 big_space (transform R_up lg1 big_space big_X) = big_X.
Proof. vm_compute. repeat split; reflexivity. Qed.

(* a switch sequence as the optimizer performs it: by type, one dimension through the Dimension API, then normalize_dimensions *)
Example C09_switch_example :
  let sp' := run_switches ex_space [SwByType 2 TrLabel; SwDim 5 TrOnehot; SwAll TrNormalize; SwDim 7 TrIdentity] in
  map tr_of sp' = [TrNormalize; TrNormalize; TrNormalize; TrNormalize; TrNormalize; TrNormalize; TrNormalize; TrIdentity; TrNormalize; TrNormalize]
  /\ wf_space sp' = true /\ tdims sp' = 10%nat
  /\ forall2b (forall2b Qeq_bool) (inverse Qred lg1 pw1 sp' (transform Qred lg1 sp' ex_X)) ex_X = true.
Proof. vm_compute. repeat split; reflexivity. Qed.
