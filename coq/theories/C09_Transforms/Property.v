(* C09 - placeholder, theorems follow *)
