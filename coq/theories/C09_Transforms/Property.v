(* C09 - placeholder, theorems follow *)
From Coq Require Import List.
Theorem C09_placeholder : True. Proof. exact I. Qed.
Print Assumptions C09_placeholder.
