(* C16 - schedules, per-job invariants of protocol runs, and their preservation. *)
From Coq Require Import List ZArith Bool Arith Lia Permutation Sorted.
Import ListNotations.
Require Import DH.C16_Stoppers.Model DH.C16_Stoppers.Lemmas.
Open Scope Z_scope.

Definition wf (p : params) : Prop :=
  1 <= max_steps p /\ 1 <= min_steps p /\ 2 <= rf p /\ 0 <= mesr p /\ 1 <= interval p /\ 0 <= eps p.

(* the stoppers with decision points (MedianStopper as repaired) *)
Definition scheduled (p : params) : Prop := kind p = KAsha \/ kind p = KMedian.

(* ---------- the schedule is strictly increasing and starts at >= 1 ---------- *)
Lemma hb_S p r : wf p -> hb p r < hb p (S r).
Proof.
  intros (_ & _ & Hrf & Hm & _). unfold hb.
  rewrite Nat2Z.inj_succ, Z.add_succ_r, Z.pow_succ_r by lia.
  assert (0 < rf p ^ (mesr p + Z.of_nat r)) by (apply Z.pow_pos_nonneg; lia). nia.
Qed.

Lemma sched_S p r : wf p -> sched p r < sched p (S r).
Proof.
  intros H. unfold sched. destruct (kind p); try apply hb_S; auto;
    destruct H as (_ & _ & _ & _ & Hi & _); rewrite Nat2Z.inj_succ; nia.
Qed.

Lemma sched_mono p r r' : wf p -> (r < r')%nat -> sched p r < sched p r'.
Proof.
  intros H Hlt. induction Hlt as [|m _ IH]; [apply sched_S; exact H|].
  pose proof (sched_S p m H). lia.
Qed.

Lemma sched_0 p : wf p -> 1 <= sched p 0.
Proof.
  intros (_ & Hms & Hrf & Hm & Hi & _).
  assert (0 < rf p ^ (mesr p + Z.of_nat 0)) by (apply Z.pow_pos_nonneg; lia).
  unfold sched, hb. destruct (kind p); lia.
Qed.

Lemma sched_gt p r : wf p -> Z.of_nat r < sched p r.
Proof.
  intros H. induction r as [|r IH]; [pose proof (sched_0 p H); lia|].
  pose proof (sched_S p r H). lia.
Qed.

Lemma sched_pos p r : wf p -> 1 <= sched p r.
Proof. intros H. pose proof (sched_gt p r H). lia. Qed.

(* position of b relative to rung rho *)
Definition at_rung (p : params) (rho : nat) (b : Z) : Prop :=
  (forall r, (r < rho)%nat -> sched p r < b) /\ b <= sched p rho.

Lemma at_rung_unique p rho b k : wf p -> at_rung p rho b -> sched p k = b -> k = rho.
Proof.
  intros H [H1 H2] Hk. destruct (lt_eq_lt_dec k rho) as [[Hlt|He]|Hgt]; auto.
  - specialize (H1 k Hlt). lia.
  - pose proof (sched_mono p rho k H Hgt). lia.
Qed.

Lemma halting_eq p rho b : wf p -> kind p = KMedian \/ kind p = KMedianOld ->
  at_rung p rho b -> halting p b = (b =? sched p rho).
Proof.
  intros (_ & Hms & _ & _ & Hi & _) Hk [H1 H2].
  assert (Es : forall r, sched p r = min_steps p + Z.of_nat r * interval p).
  { intros r. unfold sched. destruct Hk as [-> | ->]; reflexivity. }
  rewrite Es in H2. unfold halting.
  destruct (b =? sched p rho) eqn:E.
  - apply Z.eqb_eq in E. rewrite Es in E. subst b.
    replace (min_steps p + Z.of_nat rho * interval p - min_steps p) with (Z.of_nat rho * interval p) by lia.
    rewrite Z.mod_mul by lia. apply andb_true_iff. split; [apply Z.leb_le; nia|reflexivity].
  - apply Z.eqb_neq in E. rewrite Es in E.
    destruct (min_steps p <=? b) eqn:E1; [|reflexivity]. apply Z.leb_le in E1. cbn [andb].
    apply Z.eqb_neq. intros Hmod.
    pose proof (Z.div_mod (b - min_steps p) (interval p) ltac:(lia)) as Hdm. rewrite Hmod in Hdm.
    set (q := (b - min_steps p) / interval p) in *.
    destruct rho as [|rho'].
    + cbn in H2, E. lia.
    + specialize (H1 rho' ltac:(lia)). rewrite Es in H1. rewrite Nat2Z.inj_succ in *.
      set (n := Z.of_nat rho') in *. set (iv := interval p) in *. set (ms := min_steps p) in *.
      assert (Hq : iv * q = b - ms) by lia.
      assert (n < q) by nia. assert (q < Z.succ n) by nia. lia.
Qed.

Lemma trig_eq p rho b : wf p -> scheduled p -> at_rung p rho b -> trig p rho b = (b =? sched p rho).
Proof.
  intros H Hs Ha. destruct Hs as [Hk|Hk].
  - destruct Ha as [_ H2]. unfold trig, sched in *. rewrite Hk in *.
    destruct (hb p rho <=? b) eqn:E1, (b =? hb p rho) eqn:E2; auto;
      try apply Z.leb_le in E1; try apply Z.leb_gt in E1; try apply Z.eqb_eq in E2; try apply Z.eqb_neq in E2; lia.
  - pose proof (halting_eq p rho b H (or_introl Hk) Ha) as Hh. unfold trig. rewrite Hk. exact Hh.
Qed.

Lemma is_decision_eq p rho b : wf p -> at_rung p rho b -> is_decision p b = (b =? sched p rho).
Proof.
  intros H Ha. unfold is_decision. destruct (b =? sched p rho) eqn:E.
  - apply Z.eqb_eq in E. apply existsb_exists. exists rho. split; [|apply Z.eqb_eq; auto].
    apply in_seq. pose proof (sched_gt p rho H). lia.
  - apply Z.eqb_neq in E. destruct (existsb _ _) eqn:Ex; [|reflexivity].
    apply existsb_exists in Ex as (k & _ & Hk). apply Z.eqb_eq in Hk.
    pose proof (at_rung_unique p rho b k H Ha Hk). subst k. congruence.
Qed.

(* ---------- invariants ---------- *)
Fixpoint budgets_ok (l : list (Z * obj)) : Prop :=
  match l with
  | [] => True
  | (b, _) :: t => b = Z.of_nat (S (length t)) /\ budgets_ok t
  end.

Definition nobs (jb : job) : Z := Z.of_nat (length (obs jb)).

(* every stopper *)
Record JG (p : params) (jb : job) : Prop := {
  jg_bud : budgets_ok (obs jb);
  jg_max : nobs jb <= max_steps p;
  jg_maxs : pending jb = false -> fin jb = false -> nobs jb < max_steps p;
  jg_pend : pending jb = true -> obs jb <> [];
  jg_fin : fin jb = true -> pending jb = false }.

(* stoppers with decision points *)
Record JS (p : params) (jb : job) : Prop := {
  js_lt : forall r, (r < rung jb)%nat -> sched p r <= nobs jb;
  js_lt' : pending jb = true -> forall r, (r < rung jb)%nat -> sched p r < nobs jb;
  js_le : nobs jb <= sched p (rung jb);
  js_strict : pending jb = false -> fin jb = false -> nobs jb < sched p (rung jb);
  js_cr : is_asha p = true -> forall r, existsb (Nat.eqb r) (crungs jb) = (sched p r <=? nobs jb);
  js_meta : forall r, mget r (meta jb) =
              if sched p r <=? nobs jb
              then (if is_asha p && failed (obs jb) then Some Fail else oget (sched p r) (obs jb))
              else None;
  js_nf : fin jb = false -> failed (tl (obs jb)) = false;
  js_nf' : pending jb = false -> fin jb = false -> failed (obs jb) = false }.

Lemma oget_out b l : budgets_ok l -> Z.of_nat (length l) < b -> oget b l = None.
Proof.
  induction l as [|[b' x] t IH]; cbn [budgets_ok oget length]; auto.
  intros [-> Ht] Hb. destruct (b =? _) eqn:E; [apply Z.eqb_eq in E; lia|]. apply IH; auto. lia.
Qed.

(* ---------- init ---------- *)
Lemma JG_job0 p : wf p -> JG p job0.
Proof. intros (Hm & _). constructor; cbn; unfold nobs; cbn; auto; try lia; try discriminate. Qed.

Lemma JS_job0 p : wf p -> JS p job0.
Proof.
  intros H. pose proof (sched_pos p) as Hp.
  constructor; unfold nobs; cbn [job0 obs rung crungs meta pending fin length tl failed existsb mget]; auto; try lia.
  - specialize (Hp 0%nat H). lia.
  - specialize (Hp 0%nat H). lia.
  - intros _ r. specialize (Hp r H). symmetry. apply Z.leb_gt. lia.
  - intros r. specialize (Hp r H). destruct (sched p r <=? Z.of_nat 0) eqn:E; auto. apply Z.leb_le in E. lia.
Qed.

(* ---------- shape of stop_job ---------- *)
Ltac shp := eexists _, _, _; split; [reflexivity|]; split; [lia|]; split; [discriminate|].
Ltac c1 := left; split; reflexivity.
Ltac c2 := right; left; repeat split; auto.
Ltac c3 := right; right; repeat split; auto.

Lemma stop_job_cases p s jb b v t : obs jb = (b, v) :: t ->
  exists c r out, stop_job p s jb = (with_stop jb c r out, Some out) /\
    (max_steps p <= b -> out = true) /\ (v = Fail -> out = true) /\
    ( (r = rung jb /\ out = true)
      \/ (r = rung jb /\ out = false /\ b < max_steps p /\ v <> Fail /\ (trig p (rung jb) b = false \/ kind p = KMedianOld))
      \/ (r = S (rung jb) /\ out = false /\ b < max_steps p /\ v <> Fail /\ trig p (rung jb) b = true) ).
Proof.
  intros Ho. unfold stop_job. rewrite Ho.
  destruct v as [z|].
  2:{ eexists _, _, _. split; [reflexivity|]. repeat split; auto. }
  destruct (max_steps p <=? b) eqn:Em.
  { eexists _, _, _. split; [reflexivity|]. repeat split; auto. }
  apply Z.leb_gt in Em.
  assert (Hnf : Num z <> Fail) by discriminate.
  destruct (kind p) eqn:Ek.
  - shp. c2. left. unfold trig. now rewrite Ek.
  - destruct (stop_step p <=? b) eqn:Es; shp; [c1|c2]. left. unfold trig. now rewrite Ek.
  - destruct (trig p (rung jb) b) eqn:Et; cbn [negb]; [|shp; c2].
    unfold decide. rewrite Ek.
    destruct ((0 <? min_full p) && (num_full s <? min_full p)); [shp; c3|].
    destruct (Z.of_nat (length (competitors s (rung jb))) <? min_comp p); [shp; c1|].
    destruct (asha_promotable p z (competitors s (rung jb))); shp; [c3|c1].
  - destruct (trig p (rung jb) b) eqn:Et; cbn [negb]; [|shp; c2].
    unfold decide. rewrite Ek.
    destruct (Z.of_nat (length (competitors s (rung jb))) <? min_comp p); [shp; c2|].
    destruct (median_promotable p z (competitors s (rung jb))); shp; [c3|c1].
  - destruct (trig p (rung jb) b) eqn:Et; cbn [negb]; [|shp; c2].
    unfold decide. rewrite Ek.
    destruct (Z.of_nat (length (competitors s (rung jb))) <? min_comp p); [shp; c3|].
    destruct (median_promotable p z (competitors s (rung jb))); shp; [c3|c1].
Qed.

(* ---------- projections of observe_job ---------- *)
Lemma obs_observe p jb b v : obs (observe_job p jb b v) = (b, v) :: obs jb.
Proof. unfold observe_job. destruct (kind p); reflexivity. Qed.
Lemma rung_observe p jb b v : rung (observe_job p jb b v) = rung jb.
Proof. unfold observe_job. destruct (kind p); reflexivity. Qed.
Lemma pending_observe p jb b v : pending (observe_job p jb b v) = true.
Proof. unfold observe_job. destruct (kind p); reflexivity. Qed.
Lemma fin_observe p jb b v : fin (observe_job p jb b v) = fin jb.
Proof. unfold observe_job. destruct (kind p); reflexivity. Qed.
Lemma completed_observe p jb b v : completed (observe_job p jb b v) = completed jb.
Proof. unfold observe_job. destruct (kind p); reflexivity. Qed.
Lemma crungs_observe p jb b v : crungs (observe_job p jb b v) =
  if is_asha p && trig p (rung jb) b then rung jb :: crungs jb else crungs jb.
Proof. unfold observe_job, is_asha. destruct (kind p); reflexivity. Qed.
Lemma meta_observe p jb b v : meta (observe_job p jb b v) =
  let m1 := if trig p (rung jb) b then (rung jb, v) :: meta jb else meta jb in
  if is_asha p && is_fail v then map (fun r' => (r', Fail)) (crungs (observe_job p jb b v)) ++ m1 else m1.
Proof. unfold observe_job, is_asha. destruct (kind p); reflexivity. Qed.

Lemma nobs_observe p jb b v : nobs (observe_job p jb b v) = nobs jb + 1.
Proof. unfold nobs. rewrite obs_observe. cbn [length]. lia. Qed.

(* ---------- preservation: every stopper ---------- *)
Lemma JG_observe p jb b v : JG p jb -> pending jb = false -> fin jb = false -> b = nobs jb + 1 ->
  JG p (observe_job p jb b v).
Proof.
  intros [Hb Hm Hs Hp Hf] Hpe Hfi ->. specialize (Hs Hpe Hfi).
  constructor; rewrite ?obs_observe, ?pending_observe, ?fin_observe, ?nobs_observe.
  - cbn [budgets_ok]. split; [unfold nobs; lia|exact Hb].
  - lia.
  - discriminate.
  - discriminate.
  - congruence.
Qed.

Lemma JG_stop p s jb jb' out : JG p jb -> pending jb = true -> fin jb = false ->
  stop_job p s jb = (jb', out) -> JG p jb'.
Proof.
  intros [Hb Hm Hs Hp Hf] Hpe Hfi Hst.
  destruct (obs jb) as [|[b v] t] eqn:Ho; [exfalso; now apply Hp|].
  destruct (stop_job_cases p s jb b v t Ho) as (c & r & o & E & Hmax & _ & _).
  rewrite E in Hst. injection Hst as <- <-.
  assert (Hbn : b = nobs jb). { unfold nobs. rewrite Ho. cbn [budgets_ok] in Hb. cbn [length]. lia. }
  constructor; unfold nobs in *; cbn [with_stop obs pending fin]; auto.
  - rewrite Ho. exact Hb.
  - intros _ Ho'. subst o. destruct (Z_lt_le_dec (Z.of_nat (length (obs jb))) (max_steps p)); auto.
    rewrite Hbn in Hmax. specialize (Hmax l). discriminate.
  - discriminate.
Qed.

Lemma failed_cons b v l : failed ((b, v) :: l) = is_fail v || failed l.
Proof. reflexivity. Qed.

(* ---------- preservation: stoppers with decision points ---------- *)
Lemma JS_observe p jb b v : wf p -> scheduled p -> JS p jb ->
  pending jb = false -> fin jb = false -> b = nobs jb + 1 -> JS p (observe_job p jb b v).
Proof.
  intros Hwf Hsc [Hlt Hlt' Hle Hst Hcr Hme Hnf Hnf'] Hpe Hfi ->.
  specialize (Hst Hpe Hfi). specialize (Hnf' Hpe Hfi).
  set (n := nobs jb) in *. set (rho := rung jb) in *.
  assert (Har : at_rung p rho (n + 1)). { split; [intros r Hr; specialize (Hlt r Hr); lia | lia]. }
  pose proof (trig_eq p rho (n + 1) Hwf Hsc Har) as Ht.
  assert (Hth : forall r, r <> rho -> (sched p r <=? n + 1) = (sched p r <=? n)).
  { intros r Hr. destruct (lt_eq_lt_dec r rho) as [[Hl|He]|Hg]; [|congruence|].
    - specialize (Hlt r Hl). transitivity true; [apply Z.leb_le; lia|symmetry; apply Z.leb_le; lia].
    - pose proof (sched_mono p rho r Hwf Hg). transitivity false; [apply Z.leb_gt; lia|symmetry; apply Z.leb_gt; lia]. }
  assert (Hrho : (sched p rho <=? n) = false) by (apply Z.leb_gt; lia).
  assert (Hrho' : (sched p rho <=? n + 1) = (n + 1 =? sched p rho)).
  { destruct (n + 1 =? sched p rho) eqn:E; [apply Z.eqb_eq in E; apply Z.leb_le; lia|apply Z.eqb_neq in E; apply Z.leb_gt; lia]. }
  assert (Hcr' : is_asha p = true -> forall r,
            existsb (Nat.eqb r) (crungs (observe_job p jb (n + 1) v)) = (sched p r <=? n + 1)).
  { intros Ha r. rewrite crungs_observe, Ha. cbn [andb]. fold rho. rewrite Ht.
    destruct (Nat.eq_dec r rho) as [->|Hne].
    - rewrite Hrho'. destruct (n + 1 =? sched p rho); cbn [existsb]; [now rewrite Nat.eqb_refl|].
      rewrite (Hcr Ha). exact Hrho.
    - rewrite (Hth r Hne). destruct (n + 1 =? sched p rho); cbn [existsb];
        [apply Nat.eqb_neq in Hne; rewrite Hne; cbn [orb]|]; apply (Hcr Ha). }
  assert (Hm1 : forall r, r <> rho ->
            mget r (if n + 1 =? sched p rho then (rho, v) :: meta jb else meta jb) = mget r (meta jb)).
  { intros r Hne. destruct (n + 1 =? sched p rho); [|reflexivity]. cbn [mget]. apply Nat.eqb_neq in Hne. now rewrite Hne. }
  constructor; rewrite ?rung_observe, ?pending_observe, ?fin_observe, ?nobs_observe, ?obs_observe; fold n rho.
  - intros r Hr. specialize (Hlt r Hr). lia.
  - intros _ r Hr. specialize (Hlt r Hr). lia.
  - lia.
  - discriminate.
  - exact Hcr'.
  - intros r. rewrite meta_observe. cbn zeta. fold rho. rewrite Ht.
    rewrite failed_cons, Hnf', orb_false_r.
    destruct (is_asha p && is_fail v) eqn:Eaf.
    + apply andb_true_iff in Eaf as [Ea Ef]. rewrite mget_app_fail, (Hcr' Ea r).
      destruct (sched p r <=? n + 1) eqn:E; [reflexivity|].
      destruct (Nat.eq_dec r rho) as [->|Hne].
      * rewrite Hrho' in E. rewrite E. rewrite Hme. now rewrite Hrho.
      * rewrite (Hm1 r Hne), Hme. rewrite <- (Hth r Hne), E. reflexivity.
    + destruct (Nat.eq_dec r rho) as [->|Hne].
      * rewrite Hrho'. destruct (n + 1 =? sched p rho) eqn:E.
        -- cbn [mget]. rewrite Nat.eqb_refl. cbn [oget]. apply Z.eqb_eq in E. rewrite <- E, Z.eqb_refl. reflexivity.
        -- rewrite Hme. now rewrite Hrho.
      * rewrite (Hm1 r Hne), Hme, (Hth r Hne). destruct (sched p r <=? n) eqn:E; [|reflexivity].
        rewrite Hnf', andb_false_r. cbn [oget].
        destruct (sched p r =? n + 1) eqn:E2; [apply Z.eqb_eq in E2; apply Z.leb_le in E; lia|reflexivity].
  - intros _. cbn [tl]. exact Hnf'.
  - discriminate.
Qed.

Lemma nobs_with_stop jb c r o : nobs (with_stop jb c r o) = nobs jb.
Proof. reflexivity. Qed.

Lemma JS_stop p s jb jb' out : wf p -> scheduled p -> JG p jb -> JS p jb ->
  pending jb = true -> fin jb = false -> stop_job p s jb = (jb', out) -> JS p jb'.
Proof.
  intros Hwf Hsc HG HS Hpe Hfi Hs.
  pose proof (jg_pend _ _ HG Hpe) as Hne. pose proof (jg_bud _ _ HG) as Hb.
  destruct (obs jb) as [|[b v] t] eqn:Ho; [exfalso; now apply Hne|].
  destruct (stop_job_cases p s jb b v t Ho) as (c & r & o & E & _ & _ & Hc).
  rewrite E in Hs. injection Hs as <- <-.
  assert (Hbn : b = nobs jb). { unfold nobs. rewrite Ho. cbn [budgets_ok] in Hb. cbn [length]. lia. }
  destruct HS as [Hlt Hlt' Hle Hst Hcr Hme Hnf Hnf'].
  specialize (Hlt' Hpe). specialize (Hnf Hfi). rewrite Ho in Hnf. cbn [tl] in Hnf.
  assert (Har : at_rung p (rung jb) b). { subst b. split; auto. }
  pose proof (trig_eq _ _ _ Hwf Hsc Har) as Ht.
  destruct Hc as [[-> ->] | [(-> & -> & _ & Hv & Htr) | (-> & -> & _ & Hv & Htr)]].
  - constructor; rewrite ?nobs_with_stop; cbn [with_stop rung pending fin crungs meta obs]; auto; try discriminate.
  - assert (Htf : trig p (rung jb) b = false).
    { destruct Htr as [Htr|Htr]; [exact Htr|]. destruct Hsc as [Hk|Hk]; rewrite Hk in Htr; discriminate. }
    rewrite Htf in Ht. symmetry in Ht. apply Z.eqb_neq in Ht.
    constructor; rewrite ?nobs_with_stop; cbn [with_stop rung pending fin crungs meta obs]; auto; try discriminate.
    + intros _ _. lia.
    + intros _. rewrite Ho. exact Hnf.
    + intros _ _. rewrite Ho, failed_cons, Hnf. destruct v; [reflexivity|congruence].
  - rewrite Htr in Ht. symmetry in Ht. apply Z.eqb_eq in Ht.
    constructor; rewrite ?nobs_with_stop; cbn [with_stop rung pending fin crungs meta obs]; auto; try discriminate.
    + intros r Hr. destruct (Nat.eq_dec r (rung jb)) as [->|Hn]; [lia|]. apply Hlt. lia.
    + pose proof (sched_S p (rung jb) Hwf). lia.
    + intros _ _. pose proof (sched_S p (rung jb) Hwf). lia.
    + intros _. rewrite Ho. exact Hnf.
    + intros _ _. rewrite Ho, failed_cons, Hnf. destruct v; [reflexivity|congruence].
Qed.

(* ---------- the invariants hold in every state reachable by the protocol ---------- *)
Definition JJ (p : params) (jb : job) : Prop := JG p jb /\ (scheduled p -> JS p jb).

Lemma step_JJ p s o : wf p -> Forall (JJ p) s -> ok_op s o = true -> Forall (JJ p) (fst (step p s o)).
Proof.
  intros Hwf HF Hok. destruct o as [j b v|j]; cbn [ok_op step] in *;
    destruct (nth_error s j) as [jb|] eqn:Ej; try discriminate.
  - apply andb_true_iff in Hok as [Hok Hb]. apply andb_true_iff in Hok as [Hpe Hfi].
    apply negb_true_iff in Hpe, Hfi. apply Z.eqb_eq in Hb.
    destruct (Forall_nth_error _ _ _ _ HF Ej) as [HG HS]. cbn [fst]. apply Forall_upd; auto. split.
    + apply JG_observe; auto.
    + intros Hsc. apply JS_observe; auto.
  - apply andb_true_iff in Hok as [Hpe Hfi]. apply negb_true_iff in Hfi.
    destruct (Forall_nth_error _ _ _ _ HF Ej) as [HG HS].
    destruct (stop_job p s jb) as [jb' out] eqn:Es. cbn [fst]. apply Forall_upd; auto. split.
    + eapply JG_stop; eauto.
    + intros Hsc. eapply JS_stop; eauto.
Qed.

Lemma reach_JJ p s : wf p -> reach p s -> Forall (JJ p) s.
Proof.
  intros Hwf H. induction H as [n|s o _ IH Hok].
  - apply Forall_forall. intros jb Hin. apply repeat_spec in Hin. subst jb.
    split; [apply JG_job0; auto|intros _; apply JS_job0; auto].
  - apply step_JJ; auto.
Qed.

Lemma reach_run p s ops : reach p s -> proto p s ops = true -> reach p (run_state p s ops).
Proof.
  revert s. induction ops as [|o t IH]; intros s Hr Hp; cbn [run_state fold_left proto] in *; auto.
  apply andb_true_iff in Hp as [H1 H2]. apply IH; auto. now constructor.
Qed.

Lemma reach_iff p s : reach p s <-> exists n ops, proto p (init n) ops = true /\ s = run_state p (init n) ops.
Proof.
  split.
  - induction 1 as [n|s o _ (n & ops & Hp & ->) Hok].
    + exists n, []. split; reflexivity.
    + exists n, (ops ++ [o]). split.
      * revert Hp Hok. generalize (init n). induction ops as [|a t IH]; intros s0 Hp Hok; cbn [app proto run_state fold_left] in *.
        -- now rewrite Hok.
        -- apply andb_true_iff in Hp as [H1 H2]. rewrite H1. cbn [andb]. apply IH; auto.
      * unfold run_state. now rewrite fold_left_app.
  - intros (n & ops & Hp & ->). apply reach_run; [constructor|exact Hp].
Qed.
