(* C16 - library lemmas: list update, association lists, insertion sort, counting. *)
From Coq Require Import List ZArith Bool Arith Lia Permutation Sorted.
Import ListNotations.
Require Import DH.C16_Stoppers.Model.
Open Scope Z_scope.

(* ---------- upd ---------- *)
Lemma upd_length {A} j (x : A) l : length (upd j x l) = length l.
Proof. revert j. induction l as [|y t IH]; intros [|j]; cbn [upd length]; auto. Qed.

Lemma nth_error_upd_eq {A} j (x : A) l : (j < length l)%nat -> nth_error (upd j x l) j = Some x.
Proof.
  revert j. induction l as [|y t IH]; intros [|j] H; cbn [upd length nth_error] in *; try lia; auto.
  apply IH. lia.
Qed.

Lemma nth_error_upd_neq {A} j j' (x : A) l : j <> j' -> nth_error (upd j x l) j' = nth_error l j'.
Proof.
  revert j j'. induction l as [|y t IH]; intros [|j] [|j'] H; cbn [upd nth_error]; auto; try congruence.
Qed.

Lemma Forall_upd {A} (P : A -> Prop) j x l : Forall P l -> P x -> Forall P (upd j x l).
Proof.
  intros HF Hx. revert j. induction HF as [|y t Hy Ht IH]; intros [|j]; cbn [upd]; constructor; auto.
Qed.

Lemma map_upd {A B} (f : A -> B) j x l : map f (upd j x l) = upd j (f x) (map f l).
Proof. revert j. induction l as [|y t IH]; intros [|j]; cbn [upd map]; auto. now rewrite IH. Qed.

Lemma upd_same {A} j (x : A) l : nth_error l j = Some x -> upd j x l = l.
Proof.
  revert j. induction l as [|y t IH]; intros [|j] H; cbn [upd nth_error] in *; try discriminate; auto.
  - congruence.
  - now rewrite IH.
Qed.

Lemma nth_error_Some_lt {A} (l : list A) j x : nth_error l j = Some x -> (j < length l)%nat.
Proof. intros H. apply nth_error_Some. congruence. Qed.

Lemma Forall_nth_error {A} (P : A -> Prop) l j x : Forall P l -> nth_error l j = Some x -> P x.
Proof. intros HF H. rewrite Forall_forall in HF. apply HF. eapply nth_error_In; eauto. Qed.

Lemma nth_error_repeat {A} (x y : A) n j : nth_error (repeat x n) j = Some y -> y = x.
Proof. intros H. apply nth_error_In in H. apply repeat_spec in H. exact H. Qed.

(* ---------- mget / oget ---------- *)
Lemma mget_app_fail r cr m :
  mget r (map (fun r' => (r', Fail)) cr ++ m) = if existsb (Nat.eqb r) cr then Some Fail else mget r m.
Proof.
  induction cr as [|c t IH]; cbn [map app mget existsb]; auto.
  destruct (Nat.eqb r c); cbn [orb]; auto.
Qed.

Lemma oget_In b v l : oget b l = Some v -> In (b, v) l.
Proof.
  induction l as [|[b' x] t IH]; cbn [oget]; [discriminate|].
  destruct (b =? b') eqn:E.
  - intros [= ->]. apply Z.eqb_eq in E. subst. now left.
  - intros H. right. auto.
Qed.

(* ---------- insertion sort ---------- *)
Lemma insert_perm x l : Permutation (insert x l) (x :: l).
Proof.
  induction l as [|y t IH]; cbn [insert]; auto.
  destruct (x <=? y); auto.
  eapply perm_trans; [apply perm_skip, IH|apply perm_swap].
Qed.

Lemma isort_perm l : Permutation (isort l) l.
Proof.
  induction l as [|x t IH]; cbn [isort fold_right]; auto.
  eapply perm_trans; [apply insert_perm|]. apply perm_skip. exact IH.
Qed.

Lemma isort_length l : length (isort l) = length l.
Proof. apply Permutation_length, isort_perm. Qed.

Lemma insert_sorted x l : StronglySorted Z.le l -> StronglySorted Z.le (insert x l).
Proof.
  induction 1 as [|y t Ht IH Hy]; cbn [insert].
  - constructor; constructor.
  - destruct (x <=? y) eqn:E.
    + apply Z.leb_le in E. constructor; [constructor; auto|].
      constructor; [exact E|]. rewrite Forall_forall in *. intros z Hz. specialize (Hy z Hz). lia.
    + apply Z.leb_gt in E. constructor; [exact IH|].
      rewrite Forall_forall in *. intros z Hz.
      apply (Permutation_in _ (insert_perm x t)) in Hz. destruct Hz as [<-|Hz]; [lia|auto].
Qed.

Lemma isort_sorted l : StronglySorted Z.le (isort l).
Proof. induction l as [|x t IH]; cbn [isort fold_right]; [constructor|apply insert_sorted, IH]. Qed.

Lemma isort_In x l : In x (isort l) <-> In x l.
Proof. split; apply Permutation_in; [|apply Permutation_sym]; apply isort_perm. Qed.

Lemma sorted_split l1 t l2 : StronglySorted Z.le (l1 ++ t :: l2) ->
  Forall (fun a => a <= t) l1 /\ Forall (fun c => t <= c) l2.
Proof.
  induction l1 as [|a l1 IH]; cbn [app]; intros H; inversion H as [|? ? H1 H2]; subst.
  - split; [constructor|exact H2].
  - destruct (IH H1) as [Ha Hb]. split; [|exact Hb]. constructor; [|exact Ha].
    rewrite Forall_forall in H2. apply H2. apply in_or_app. right. now left.
Qed.

(* ---------- count_gt ---------- *)
Lemma count_gt_app x l l' : count_gt x (l ++ l') = (count_gt x l + count_gt x l')%nat.
Proof. unfold count_gt. now rewrite filter_app, app_length. Qed.

Lemma count_gt_perm x l l' : Permutation l l' -> count_gt x l = count_gt x l'.
Proof.
  unfold count_gt. induction 1 as [|y l l' _ IH|y z l|l l' l'' _ IH1 _ IH2]; cbn [filter]; auto.
  - destruct (x <? y); cbn [length]; auto.
  - destruct (x <? y), (x <? z); cbn [length]; auto.
  - congruence.
Qed.

Lemma count_gt_le_length x l : (count_gt x l <= length l)%nat.
Proof. unfold count_gt. induction l as [|y t IH]; cbn [filter length]; auto. destruct (x <? y); cbn [length]; lia. Qed.

Lemma count_gt_none x l : Forall (fun a => a <= x) l -> count_gt x l = 0%nat.
Proof.
  unfold count_gt. induction 1 as [|y t Hy _ IH]; cbn [filter]; auto.
  destruct (x <? y) eqn:E; [apply Z.ltb_lt in E; lia|exact IH].
Qed.

Lemma count_gt_all x l : Forall (fun c => x < c) l -> count_gt x l = length l.
Proof.
  unfold count_gt. induction 1 as [|y t Hy _ IH]; cbn [filter]; auto.
  destruct (x <? y) eqn:E; [cbn [length]; now rewrite IH|apply Z.ltb_ge in E; lia].
Qed.

(* in a sorted list, the element at position i is <= x  iff  fewer than (length - i) elements exceed x *)
Lemma sorted_nth_count l i t x : StronglySorted Z.le l -> nth_error l i = Some t ->
  (t <=? x) = negb (Nat.leb (length l - i) (count_gt x l)).
Proof.
  intros Hs Hn. destruct (nth_error_split l i Hn) as (l1 & l2 & -> & Hlen).
  destruct (sorted_split _ _ _ Hs) as [H1 H2].
  rewrite count_gt_app, app_length. cbn [length]. subst i.
  replace (length l1 + S (length l2) - length l1)%nat with (S (length l2)) by lia.
  destruct (t <=? x) eqn:E.
  - apply Z.leb_le in E. rewrite (count_gt_none x l1).
    2:{ rewrite Forall_forall in *. intros a Ha. specialize (H1 a Ha). lia. }
    change (t :: l2) with ([t] ++ l2). rewrite count_gt_app. rewrite (count_gt_none x [t]) by (constructor; [lia|constructor]).
    pose proof (count_gt_le_length x l2). symmetry. apply negb_true_iff. apply Nat.leb_gt. lia.
  - apply Z.leb_gt in E. rewrite (count_gt_all x (t :: l2)).
    2:{ constructor; [lia|]. rewrite Forall_forall in *. intros a Ha. specialize (H2 a Ha). lia. }
    cbn [length]. symmetry. apply negb_false_iff. apply Nat.leb_le. lia.
Qed.
