(* C16 - frame properties: an operation touches only the evaluation it is addressed to, and searches sharing one
   storage do not influence each other. *)
From Coq Require Import List ZArith Bool Arith Lia.
Import ListNotations.
Require Import DH.C16_Stoppers.Model DH.C16_Stoppers.Lemmas.
Open Scope Z_scope.

Definition target (o : op) : nat := match o with Rec j _ _ => j | Stp j => j end.

(* record()/stopped() of evaluation j leave the stopper state and the metadata of every other evaluation unchanged *)
Theorem step_frame p s o j' : target o <> j' -> nth_error (fst (step p s o)) j' = nth_error s j'.
Proof.
  intros Hne. destruct o as [j b v|j]; cbn [step target] in *; destruct (nth_error s j) as [jb|] eqn:Ej; cbn [fst]; auto.
  - apply nth_error_upd_neq. exact Hne.
  - destruct (stop_job p s jb) as [jb' out]. cbn [fst]. apply nth_error_upd_neq. exact Hne.
Qed.

Theorem step_length p s o : length (fst (step p s o)) = length s.
Proof.
  destruct o as [j b v|j]; cbn [step]; destruct (nth_error s j) as [jb|]; cbn [fst]; auto.
  - apply upd_length.
  - destruct (stop_job p s jb) as [jb' out]. cbn [fst]. apply upd_length.
Qed.

(* an operation never changes the observations or the metadata written by the addressed evaluation earlier,
   except as record() prescribes: observations only grow *)
Theorem step_obs_grow p s o j jb : nth_error s j = Some jb ->
  exists jb', nth_error (fst (step p s o)) j = Some jb' /\ exists l, obs jb' = l ++ obs jb.
Proof.
  intros Ej. destruct (Nat.eq_dec (target o) j) as [E|Hne].
  - destruct o as [j0 b v|j0]; cbn [target] in E; subst j0; cbn [step]; rewrite Ej.
    + cbn [fst]. exists (observe_job p jb b v). split.
      * apply nth_error_upd_eq. eapply nth_error_Some_lt; eauto.
      * exists [(b, v)]. unfold observe_job. destruct (kind p); reflexivity.
    + destruct (stop_job p s jb) as [jb' out] eqn:Es. cbn [fst]. exists jb'. split.
      * apply nth_error_upd_eq. eapply nth_error_Some_lt; eauto.
      * exists []. unfold stop_job in Es. destruct (obs jb) as [|[b v] t] eqn:Ho.
        -- injection Es as <- _. now rewrite Ho.
        -- destruct v; [|injection Es as <- _; cbn [with_stop obs]; now rewrite Ho].
           destruct (max_steps p <=? b); [injection Es as <- _; cbn [with_stop obs]; now rewrite Ho|].
           destruct (kind p); try (injection Es as <- _; cbn [with_stop obs]; now rewrite Ho);
             (destruct (negb (trig p (rung jb) b)); [injection Es as <- _; cbn [with_stop obs]; now rewrite Ho|]);
             destruct (decide p s (rung jb) z) as [r' o']; injection Es as <- _; cbn [with_stop obs]; now rewrite Ho.
  - exists jb. split; [rewrite step_frame; auto|exists []; reflexivity].
Qed.

(* ---------- several searches on one storage ---------- *)
Lemma mrun_state_other p mops : forall ss k s, nth_error ss k = Some s ->
  nth_error (mrun_state p ss mops) k = Some (run_state p s (project k mops)).
Proof.
  induction mops as [|[k' o] t IH]; intros ss k s Ek; cbn [mrun_state fold_left project filter map run_state fst snd] in *; auto.
  unfold mstep at 2. cbn [fst snd].
  destruct (Nat.eqb k' k) eqn:E.
  - apply Nat.eqb_eq in E. subst k'. rewrite Ek. cbn [fst map run_state fold_left].
    apply (IH (upd k (fst (step p s o)) ss) k (fst (step p s o))).
    apply nth_error_upd_eq. eapply nth_error_Some_lt; eauto.
  - apply Nat.eqb_neq in E. destruct (nth_error ss k') as [s'|] eqn:Ek'; cbn [fst].
    + apply IH. rewrite nth_error_upd_neq; auto.
    + apply IH. exact Ek.
Qed.

(* isolation: what a search does and decides is what the single-search machine does on the operations addressed
   to that search, whatever the other searches on the same storage do in between *)
Theorem search_isolation p ss mops k s : nth_error ss k = Some s ->
  nth_error (mrun_state p ss mops) k = Some (run_state p s (project k mops)) /\
  forall o, snd (mstep p (mrun_state p ss mops) (k, o)) = snd (step p (run_state p s (project k mops)) o).
Proof.
  intros Ek. pose proof (mrun_state_other p mops ss k s Ek) as H. split; [exact H|].
  intros o. unfold mstep. cbn [fst snd]. rewrite H. reflexivity.
Qed.
