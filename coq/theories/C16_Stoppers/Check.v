(* C16 - boolean oracles applied to the IMPLEMENTATION's trace (stopped() results and metadata after every
   step), with reflection lemmas, and the proof that the model's own steps satisfy them.
   Everything is computed from the history of observations (which evaluation recorded which objective at which
   budget); the implementation's or the model's rung bookkeeping is never consulted.  The only part of the
   implementation's state that is read is the number of "_completed = True" flags (successive halving's
   min_fully_completed). *)
From Coq Require Import List ZArith Bool Arith Lia.
Import ListNotations.
Require Import DH.C16_Stoppers.Model DH.C16_Stoppers.Lemmas DH.C16_Stoppers.LemmasInv DH.C16_Stoppers.LemmasMain.
Open Scope Z_scope.

Definition hist := list (list (Z * obj)).

Definition is_sched (p : params) : bool := match kind p with KAsha | KMedian => true | _ => false end.

Lemma is_sched_spec p : is_sched p = true <-> scheduled p.
Proof. unfold is_sched, scheduled. destruct (kind p); split; intros H; try discriminate; auto; destruct H; discriminate. Qed.

(* every number recorded at budget b is <= z *)
Definition vals_le (b z : Z) (ob : list (Z * obj)) : bool :=
  forallb (fun bo => match bo with (b', Num z') => implb (b' =? b) (z' <=? z) | (_, Fail) => true end) ob.
Definition best_at (h : hist) (b z : Z) : bool := forallb (vals_le b z) h.

Lemma best_at_spec h b z :
  best_at h b z = true <-> (forall ob z', In ob h -> In (b, Num z') ob -> z' <= z).
Proof.
  unfold best_at, vals_le. rewrite forallb_forall. split.
  - intros H ob z' Hob Hin. specialize (H ob Hob). rewrite forallb_forall in H. specialize (H _ Hin).
    cbn in H. rewrite Z.eqb_refl in H. cbn [implb] in H. apply Z.leb_le. exact H.
  - intros H ob Hob. apply forallb_forall. intros [b' [z'|]] Hin; [|reflexivity].
    destruct (b' =? b) eqn:E; [|reflexivity]. apply Z.eqb_eq in E. subst b'. cbn [implb]. apply Z.leb_le. eauto.
Qed.

(* every competitor recorded at budget b (halving: by evaluations that have not failed) is <= z *)
Definition best_among (p : params) (h : hist) (b z : Z) : bool := forallb (fun c => c <=? z) (hist_comp p h b).

Lemma best_among_spec p h b z : best_among p h b z = true <-> (forall c, In c (hist_comp p h b) -> c <= z).
Proof.
  unfold best_among. rewrite forallb_forall. split; intros H c Hc; specialize (H c Hc); now apply Z.leb_le.
Qed.

Definition enough (p : params) (h : hist) (b : Z) : bool :=
  negb (is_asha p) || (min_comp p <=? Z.of_nat (length (hist_comp p h b))).

Definition outside_topk (p : params) (h : hist) (b z : Z) : bool :=
  let comp := hist_comp p h b in
  is_decision p b && ((Z.of_nat (length comp) <? min_comp p) || Nat.leb (topk_k p (length comp)) (count_gt (z + eps p) comp)).

Definition c_best (p : params) (h : hist) (b z : Z) (o : bool) : bool :=
  (b <? max_steps p) && is_sched p && best_among p h b z && enough p h b && o.
Definition c_topk (p : params) (h : hist) (b z : Z) (o : bool) : bool :=
  (b <? max_steps p) && is_asha p && o && negb (outside_topk p h b z).

(* 0 = all clauses hold; otherwise the number of the first clause that fails:
   1 max_steps, 2 failure, 3 best stopped, 4 stopped inside the top-k, 6 differs from the reference rule, 9 no observation *)
Definition check_stop (p : params) (h : hist) (nfull : Z) (ob : list (Z * obj)) (o : bool) : Z :=
  match ob with
  | [] => 9
  | (b, v) :: _ =>
      if (max_steps p <=? b) && negb o then 1
      else if is_fail v && negb o then 2
      else match v with
           | Fail => 0
           | Num z =>
               if c_best p h b z o then 3
               else if c_topk p h b z o then 4
               else match ref_stop p h nfull ob with
                    | Some o' => if Bool.eqb o o' then 0 else 6
                    | None => 6
                    end
           end
  end.

Record StopSpec (p : params) (h : hist) (nfull : Z) (ob : list (Z * obj)) (o : bool) : Prop := {
  sp_max : forall b v t, ob = (b, v) :: t -> max_steps p <= b -> o = true;
  sp_fail : forall b t, ob = (b, Fail) :: t -> o = true;
  sp_best : forall b z t, ob = (b, Num z) :: t -> b < max_steps p -> scheduled p ->
            (forall c, In c (hist_comp p h b) -> c <= z) ->
            (kind p = KAsha -> min_comp p <= Z.of_nat (length (hist_comp p h b))) -> o = false;
  sp_topk : forall b z t, ob = (b, Num z) :: t -> b < max_steps p -> kind p = KAsha -> o = true ->
            let comp := hist_comp p h b in
            is_decision p b = true /\
            (Z.of_nat (length comp) < min_comp p \/ (topk_k p (length comp) <= count_gt (z + eps p) comp)%nat);
  sp_ref : ref_stop p h nfull ob = Some o }.

Lemma is_asha_spec p : is_asha p = true <-> kind p = KAsha.
Proof. unfold is_asha. destruct (kind p); split; intros H; try discriminate; auto. Qed.

Lemma enough_spec p h b : enough p h b = true <-> (kind p = KAsha -> min_comp p <= Z.of_nat (length (hist_comp p h b))).
Proof.
  unfold enough. rewrite orb_true_iff, negb_true_iff, Z.leb_le. split.
  - intros [H|H] Hk; auto. apply is_asha_spec in Hk. congruence.
  - intros H. destruct (is_asha p) eqn:E; auto. right. apply H. now apply is_asha_spec.
Qed.

Lemma outside_topk_spec p h b z : outside_topk p h b z = true <->
  (is_decision p b = true /\
   (Z.of_nat (length (hist_comp p h b)) < min_comp p \/
    (topk_k p (length (hist_comp p h b)) <= count_gt (z + eps p) (hist_comp p h b))%nat)).
Proof. unfold outside_topk. cbn zeta. now rewrite andb_true_iff, orb_true_iff, Z.ltb_lt, Nat.leb_le. Qed.

(* soundness of the oracle: a trace step it accepts satisfies the specification *)
Theorem check_stop_sound p h nfull ob o : check_stop p h nfull ob o = 0 -> StopSpec p h nfull ob o.
Proof.
  unfold check_stop. destruct ob as [|[b v] t0]; [discriminate|].
  destruct ((max_steps p <=? b) && negb o) eqn:E1; [discriminate|].
  destruct (is_fail v && negb o) eqn:E2; [discriminate|].
  intros H.
  assert (Hmax : max_steps p <= b -> o = true).
  { intros Hm. apply Z.leb_le in Hm. rewrite Hm in E1. destruct o; auto; discriminate. }
  assert (Href : ref_stop p h nfull ((b, v) :: t0) = Some o).
  { destruct v as [z|].
    - destruct (c_best p h b z o) eqn:E3 in H; [discriminate|]. destruct (c_topk p h b z o) eqn:E4 in H; [discriminate|].
      destruct (ref_stop p h nfull ((b, Num z) :: t0)) as [o'|]; [|discriminate].
      destruct (Bool.eqb o o') eqn:E; [|discriminate]. apply eqb_prop in E. now subst.
    - cbn [is_fail andb] in E2. destruct o; [reflexivity|discriminate]. }
  constructor; auto.
  - intros b' v' t [= -> -> ->]. exact Hmax.
  - intros b' t [= -> -> ->]. cbn [is_fail andb] in E2. destruct o; auto; discriminate.
  - intros b' z t [= -> -> ->] Hb Hsc Hbest Hen.
    destruct (c_best p h b' z o) eqn:E3 in H; [discriminate|]. unfold c_best in E3.
    apply Z.ltb_lt in Hb. apply is_sched_spec in Hsc. apply best_among_spec in Hbest. apply enough_spec in Hen.
    rewrite Hb, Hsc, Hbest, Hen in E3. cbn [andb] in E3. exact E3.
  - intros b' z t [= -> -> ->] Hb Hk Ho. cbn zeta.
    destruct (c_best p h b' z o) eqn:E3 in H; [discriminate|]. destruct (c_topk p h b' z o) eqn:E4 in H; [discriminate|].
    unfold c_topk in E4. apply Z.ltb_lt in Hb. apply is_asha_spec in Hk. rewrite Hb, Hk, Ho in E4. cbn [andb] in E4.
    apply negb_false_iff in E4. apply outside_topk_spec in E4. exact E4.
Qed.

(* completeness: a step satisfying the specification is accepted *)
Theorem check_stop_complete p h nfull ob o : ob <> [] -> StopSpec p h nfull ob o -> check_stop p h nfull ob o = 0.
Proof.
  intros Hne [Hmax Hfail Hbest Htopk Href]. unfold check_stop. destruct ob as [|[b v] t0]; [congruence|].
  destruct ((max_steps p <=? b) && negb o) eqn:E1.
  { apply andb_true_iff in E1 as [Ea Eb]. apply Z.leb_le in Ea. rewrite (Hmax _ _ _ eq_refl Ea) in Eb. discriminate. }
  destruct (is_fail v && negb o) eqn:E2.
  { apply andb_true_iff in E2 as [Ea Eb]. destruct v; [discriminate|]. rewrite (Hfail _ _ eq_refl) in Eb. discriminate. }
  destruct v as [z|]; [|reflexivity].
  destruct (c_best p h b z o) eqn:E3.
  { unfold c_best in E3. apply andb_true_iff in E3 as [E3 Eo]. apply andb_true_iff in E3 as [E3 Een]. apply andb_true_iff in E3 as [E3 Ebe].
    apply andb_true_iff in E3 as [Elt Esc]. subst o.
    apply Z.ltb_lt in Elt. apply is_sched_spec in Esc.
    pose proof (proj1 (best_among_spec _ _ _ _) Ebe) as Hb'. pose proof (proj1 (enough_spec _ _ _) Een) as He'.
    specialize (Hbest _ _ _ eq_refl Elt Esc Hb' He'). discriminate. }
  destruct (c_topk p h b z o) eqn:E4.
  { unfold c_topk in E4. apply andb_true_iff in E4 as [E4 Eout]. apply andb_true_iff in E4 as [E4 Eo]. apply andb_true_iff in E4 as [Elt Eas].
    apply Z.ltb_lt in Elt. apply is_asha_spec in Eas.
    specialize (Htopk _ _ _ eq_refl Elt Eas Eo). cbn zeta in Htopk. apply outside_topk_spec in Htopk.
    rewrite Htopk in Eout. discriminate. }
  rewrite Href. now rewrite eqb_reflx.
Qed.

Theorem check_stop_spec p h nfull ob o : ob <> [] ->
  (check_stop p h nfull ob o = 0 <-> StopSpec p h nfull ob o).
Proof. intros Hne. split; [apply check_stop_sound|apply check_stop_complete; exact Hne]. Qed.

(* ---------- "same budget" on the metadata ---------- *)
Definition seen_at (b z : Z) (ob : list (Z * obj)) : bool :=
  existsb (fun bo => match bo with (b', Num z') => (b' =? b) && (z' =? z) | (_, Fail) => false end) ob.

Lemma seen_at_spec b z ob : seen_at b z ob = true <-> In (b, Num z) ob.
Proof.
  unfold seen_at. rewrite existsb_exists. split.
  - intros ([b' [z'|]] & Hin & H); [|discriminate]. apply andb_true_iff in H as [H1 H2].
    apply Z.eqb_eq in H1, H2. now subst.
  - intros H. exists (b, Num z). split; auto. now rewrite !Z.eqb_refl.
Qed.

(* every visible number bound to "_completed_rung_<r>" was observed by that evaluation at the budget of rung r *)
Definition meta_ok (p : params) (ob : list (Z * obj)) (m : list (nat * obj)) : bool :=
  forallb (fun rx => match mget (fst rx) m with Some (Num z) => seen_at (sched p (fst rx)) z ob | _ => true end) m.

Lemma mget_key r m x : mget r m = Some x -> exists y, In (r, y) m.
Proof.
  induction m as [|[r' y] t IH]; cbn [mget]; [discriminate|].
  destruct (Nat.eqb r r') eqn:E.
  - apply Nat.eqb_eq in E. subst. intros _. exists y. now left.
  - intros H. destruct (IH H) as [y' Hy]. exists y'. now right.
Qed.

Lemma meta_ok_spec p ob m :
  meta_ok p ob m = true <-> (forall r z, mget r m = Some (Num z) -> In (sched p r, Num z) ob).
Proof.
  unfold meta_ok. rewrite forallb_forall. split.
  - intros H r z Hm. destruct (mget_key _ _ _ Hm) as [y Hy]. specialize (H _ Hy). cbn [fst] in H.
    rewrite Hm in H. now apply seen_at_spec.
  - intros H [r y] Hin. cbn [fst]. destruct (mget r m) as [[z|]|] eqn:E; auto. apply seen_at_spec. auto.
Qed.

Fixpoint metas_ok (p : params) (h : hist) (ms : list (list (nat * obj))) : bool :=
  match h, ms with
  | [], [] => true
  | ob :: h', m :: ms' => meta_ok p ob m && metas_ok p h' ms'
  | _, _ => false
  end.

(* ---------- the model's own steps are accepted ---------- *)
Theorem model_stop_spec p s j jb o : wf p -> kind p <> KMedianOld -> reach p s -> nth_error s j = Some jb ->
  ok_op s (Stp j) = true -> snd (step p s (Stp j)) = Some o ->
  StopSpec p (map obs s) (num_full s) (obs jb) o.
Proof.
  intros Hwf Hk Hr Ej Hok Ho.
  destruct (pending_shape p s j jb Hwf Hr Ej Hok) as (b & v & t & Hob & Hbn & _).
  constructor.
  - intros b' v' t' E Hm. rewrite Hob in E. injection E as <- <- <-.
    assert (H := max_steps_stops p s j jb Hwf Hr Ej Hok). unfold nobs in Hbn. rewrite <- Hbn in H.
    specialize (H Hm). congruence.
  - intros b' t' E. assert (H := failure_stops p s j jb b' t' Ej E). congruence.
  - intros b' z t' E Hb Hsc Hbest Hen.
    assert (H := best_never_stopped p s j jb b' z t' Hwf Hsc Hr Ej Hok E Hb Hbest Hen). congruence.
  - intros b' z t' E Hb Hka Hot. subst o.
    exact (asha_only_outside_topk p s j jb b' z t' Hwf Hka Hr Ej Hok E Hb Ho).
  - rewrite <- Ho. symmetry. apply reference_agree; auto.
Qed.

Theorem model_stop_accepted p s j jb o : wf p -> kind p <> KMedianOld -> reach p s -> nth_error s j = Some jb ->
  ok_op s (Stp j) = true -> snd (step p s (Stp j)) = Some o ->
  check_stop p (map obs s) (num_full s) (obs jb) o = 0.
Proof.
  intros Hwf Hk Hr Ej Hok Ho. apply check_stop_complete.
  - destruct (pending_shape p s j jb Hwf Hr Ej Hok) as (b & v & t & Hob & _). rewrite Hob. discriminate.
  - eapply model_stop_spec; eauto.
Qed.

Theorem model_metas_ok p s : wf p -> scheduled p -> reach p s -> metas_ok p (map obs s) (map meta s) = true.
Proof.
  intros Hwf Hsc Hr.
  assert (H : forall j jb, nth_error s j = Some jb -> meta_ok p (obs jb) (meta jb) = true).
  { intros j jb Ej. apply meta_ok_spec. intros r z Hm. eapply same_budget; eauto. }
  clear Hr. induction s as [|jb t IH]; cbn [map metas_ok]; auto.
  rewrite (H 0%nat jb eq_refl). cbn [andb]. apply IH. intros j jb' Ej. apply (H (S j)). exact Ej.
Qed.

(* ---------- the monitor: folds the clauses over a whole trace ---------- *)
(* per evaluation: observations so far (newest first), record() done and stopped() pending, stopped() returned True *)
Definition mjob := (list (Z * obj) * (bool * bool))%type.
Definition minit (n : nat) : list mjob := repeat ([], (false, false)) n.
Definition mhist (ms : list mjob) : hist := map fst ms.

Definition full1 (c : option bool) : Z := match c with Some true => 1 | _ => 0 end.
Definition count_full (cs : list (option bool)) : Z := fold_right (fun c a => full1 c + a) 0 cs.

(* one step of a trace: the operation, the stopped() result (None for record), and the metadata of every
   evaluation after the step: "_completed_rung_<r>" bindings and "_completed" *)
Record item := mkItem {
  it_op : op;
  it_out : option bool;
  it_meta : list (list (nat * obj));
  it_comp : list (option bool) }.

(* [] = the trace is accepted ; [i; c] = clause c fails at step i
   (5 = a stored value was not observed at the budget of its rung, 9 = the trace does not follow the protocol) *)
Fixpoint monitor (p : params) (ms : list mjob) (nfull : Z) (tr : list item) (i : Z) : list Z :=
  match tr with
  | [] => []
  | it :: t =>
      match it_op it with
      | Rec j b v =>
          match nth_error ms j with
          | Some (ob, (pe, fi)) =>
              if negb pe && negb fi && (b =? Z.of_nat (length ob) + 1) then
                let ms' := upd j ((b, v) :: ob, (true, fi)) ms in
                if negb (is_sched p) || metas_ok p (mhist ms') (it_meta it)
                then monitor p ms' (count_full (it_comp it)) t (i + 1)
                else [i; 5]
              else [i; 9]
          | None => [i; 9]
          end
      | Stp j =>
          match nth_error ms j, it_out it with
          | Some (ob, (pe, fi)), Some o =>
              if pe && negb fi then
                let c := check_stop p (mhist ms) nfull ob o in
                if c =? 0 then
                  let ms' := upd j (ob, (false, o)) ms in
                  if negb (is_sched p) || metas_ok p (mhist ms') (it_meta it)
                  then monitor p ms' (count_full (it_comp it)) t (i + 1)
                  else [i; 5]
                else [i; c]
              else [i; 9]
          | _, _ => [i; 9]
          end
      end
  end.

(* the trace the model produces *)
Fixpoint model_trace (p : params) (s : list job) (ops : list op) : list item :=
  match ops with
  | [] => []
  | o :: t =>
      let r := step p s o in
      mkItem o (snd r) (map meta (fst r)) (map completed (fst r)) :: model_trace p (fst r) t
  end.

Definition mview (s : list job) : list mjob := map (fun jb => (obs jb, (pending jb, fin jb))) s.

Lemma mhist_mview s : mhist (mview s) = map obs s.
Proof. unfold mhist, mview. rewrite map_map. reflexivity. Qed.

Lemma count_full_completed s : count_full (map completed s) = num_full s.
Proof. induction s as [|jb t IH]; cbn [map count_full num_full fold_right]; auto. unfold count_full in IH. now rewrite IH. Qed.

Lemma nth_error_mview s j : nth_error (mview s) j = option_map (fun jb => (obs jb, (pending jb, fin jb))) (nth_error s j).
Proof. unfold mview. apply nth_error_map. Qed.

(* every protocol run of the model is accepted by the monitor *)
Theorem model_passes_monitor p : wf p -> kind p <> KMedianOld -> forall ops s i, reach p s -> proto p s ops = true ->
  monitor p (mview s) (num_full s) (model_trace p s ops) i = [].
Proof.
  intros Hwf Hk. induction ops as [|o t IH]; intros s i Hr Hp; cbn [model_trace monitor proto] in *; auto.
  apply andb_true_iff in Hp as [Hok Hp].
  assert (Hr' : reach p (fst (step p s o))) by (constructor; auto).
  assert (Hmeta : negb (is_sched p) || metas_ok p (map obs (fst (step p s o))) (map meta (fst (step p s o))) = true).
  { destruct (is_sched p) eqn:Es; [|reflexivity]. cbn [negb orb]. apply model_metas_ok; auto. now apply is_sched_spec. }
  cbn [it_op it_out it_meta it_comp]. destruct o as [j b v|j].
  - cbn [ok_op] in Hok. rewrite nth_error_mview. destruct (nth_error s j) as [jb|] eqn:Ej; [|discriminate].
    cbn [option_map]. rewrite Hok.
    assert (Ev : upd j ((b, v) :: obs jb, (true, fin jb)) (mview s) = mview (fst (step p s (Rec j b v)))).
    { cbn [step]. rewrite Ej. cbn [fst]. unfold mview. rewrite map_upd.
      now rewrite obs_observe, pending_observe, fin_observe. }
    rewrite Ev, mhist_mview, Hmeta, count_full_completed. apply IH; auto.
  - pose proof Hok as Hok'. cbn [ok_op] in Hok. rewrite nth_error_mview. destruct (nth_error s j) as [jb|] eqn:Ej; [|discriminate].
    cbn [option_map].
    destruct (pending_shape p s j jb Hwf Hr Ej Hok') as (b & v & t0 & Hob & _).
    destruct (stop_job_cases p s jb b v t0 Hob) as (c & r & out & E & _).
    assert (Eo : snd (step p s (Stp j)) = Some out) by (rewrite (step_stp _ _ _ _ Ej), E; reflexivity).
    rewrite Eo, Hok, mhist_mview, (model_stop_accepted p s j jb out Hwf Hk Hr Ej Hok' Eo). cbn [Z.eqb].
    assert (Ev : upd j (obs jb, (false, out)) (mview s) = mview (fst (step p s (Stp j)))).
    { cbn [step]. rewrite Ej, E. cbn [fst]. unfold mview. rewrite map_upd. reflexivity. }
    rewrite Ev, mhist_mview, Hmeta, count_full_completed. apply IH; auto.
Qed.
