(* C16 - the theorems about protocol runs of the stopper machine. *)
From Coq Require Import List ZArith Bool Arith Lia Permutation Sorted.
Import ListNotations.
Require Import DH.C16_Stoppers.Model DH.C16_Stoppers.Lemmas DH.C16_Stoppers.LemmasInv.
Open Scope Z_scope.

Lemma step_stp p s j jb : nth_error s j = Some jb -> snd (step p s (Stp j)) = snd (stop_job p s jb).
Proof. intros E. cbn [step]. rewrite E. destruct (stop_job p s jb). reflexivity. Qed.

Lemma ok_stp s j jb : nth_error s j = Some jb -> ok_op s (Stp j) = true -> pending jb = true /\ fin jb = false.
Proof.
  intros E H. cbn [ok_op] in H. rewrite E in H. apply andb_true_iff in H as [H1 H2].
  apply negb_true_iff in H2. auto.
Qed.

(* a pending job of a reachable state: its last observation and where it stands *)
Lemma pending_shape p s j jb : wf p -> reach p s -> nth_error s j = Some jb -> ok_op s (Stp j) = true ->
  exists b v t, obs jb = (b, v) :: t /\ b = nobs jb /\ JG p jb /\ (scheduled p -> JS p jb /\ at_rung p (rung jb) b /\ failed t = false).
Proof.
  intros Hwf Hr Ej Hok. destruct (ok_stp _ _ _ Ej Hok) as [Hpe Hfi].
  pose proof (reach_JJ p s Hwf Hr) as HF. destruct (Forall_nth_error _ _ _ _ HF Ej) as [HG HS].
  pose proof (jg_pend _ _ HG Hpe) as Hne. pose proof (jg_bud _ _ HG) as Hb.
  destruct (obs jb) as [|[b v] t] eqn:Ho; [exfalso; now apply Hne|].
  assert (Hbn : b = nobs jb). { unfold nobs. rewrite Ho. cbn [budgets_ok] in Hb. cbn [length]. lia. }
  exists b, v, t. split; [reflexivity|]. split; [exact Hbn|]. split; [exact HG|].
  intros Hsc. specialize (HS Hsc). split; [exact HS|]. split; [split|].
  - subst b. intros r Hr'. apply (js_lt' _ _ HS); auto.
  - subst b. apply (js_le _ _ HS).
  - pose proof (js_nf _ _ HS Hfi) as Hn. rewrite Ho in Hn. exact Hn.
Qed.

(* ---------- max_steps / failures (every stopper, today's MedianStopper included) ---------- *)
Theorem max_steps_stops p s j jb : wf p -> reach p s -> nth_error s j = Some jb -> ok_op s (Stp j) = true ->
  max_steps p <= Z.of_nat (length (obs jb)) -> snd (step p s (Stp j)) = Some true.
Proof.
  intros Hwf Hr Ej Hok Hm. destruct (pending_shape p s j jb Hwf Hr Ej Hok) as (b & v & t & Ho & Hbn & _).
  rewrite (step_stp _ _ _ _ Ej). destruct (stop_job_cases p s jb b v t Ho) as (c & r & o & E & Hmax & _).
  rewrite E. cbn [snd]. unfold nobs in Hbn. rewrite Hmax; auto. lia.
Qed.

Theorem obs_bounded p s j jb : wf p -> reach p s -> nth_error s j = Some jb ->
  Z.of_nat (length (obs jb)) <= max_steps p.
Proof.
  intros Hwf Hr Ej. pose proof (reach_JJ p s Hwf Hr) as HF.
  destruct (Forall_nth_error _ _ _ _ HF Ej) as [HG _]. apply (jg_max _ _ HG).
Qed.

(* no protocol: holds in every state *)
Theorem failure_stops p s j jb b t : nth_error s j = Some jb -> obs jb = (b, Fail) :: t ->
  snd (step p s (Stp j)) = Some true.
Proof.
  intros Ej Ho. rewrite (step_stp _ _ _ _ Ej). destruct (stop_job_cases p s jb b Fail t Ho) as (c & r & o & E & _ & Hf & _).
  rewrite E. cbn [snd]. now rewrite Hf.
Qed.

(* ---------- same budget ---------- *)
Theorem same_budget p s j jb r z : wf p -> scheduled p -> reach p s -> nth_error s j = Some jb ->
  mget r (meta jb) = Some (Num z) -> In (sched p r, Num z) (obs jb).
Proof.
  intros Hwf Hsc Hr Ej Hm. pose proof (reach_JJ p s Hwf Hr) as HF.
  destruct (Forall_nth_error _ _ _ _ HF Ej) as [HG HS]. specialize (HS Hsc).
  rewrite (js_meta _ _ HS) in Hm. destruct (sched p r <=? nobs jb); [|discriminate].
  destruct (is_asha p && failed (obs jb)); [discriminate|]. apply oget_In. exact Hm.
Qed.

Lemma comp_of_eq p jb r : JG p jb -> JS p jb -> comp_of r jb = hcomp_of p (sched p r) (obs jb).
Proof.
  intros HG HS. unfold comp_of, hcomp_of. rewrite (js_meta _ _ HS).
  destruct (sched p r <=? nobs jb) eqn:E.
  - destruct (is_asha p && failed (obs jb)); reflexivity.
  - apply Z.leb_gt in E. rewrite (oget_out _ _ (jg_bud _ _ HG) E). destruct (is_asha p && failed (obs jb)); reflexivity.
Qed.

Theorem competitors_exact p s r : wf p -> scheduled p -> reach p s ->
  competitors s r = hist_comp p (map obs s) (sched p r).
Proof.
  intros Hwf Hsc Hr. pose proof (reach_JJ p s Hwf Hr) as HF. clear Hr. unfold competitors, hist_comp.
  induction HF as [|jb t [HG HS] _ IH]; cbn [flat_map map]; auto.
  rewrite IH. f_equal. apply comp_of_eq; [exact HG|exact (HS Hsc)].
Qed.

(* ---------- facts on the history competitors ---------- *)
Lemma hist_comp_In p h b c : In c (hist_comp p h b) -> exists ob, In ob h /\ In (b, Num c) ob.
Proof.
  unfold hist_comp. intros H. apply in_flat_map in H as (ob & Hob & Hc). exists ob. split; auto.
  unfold hcomp_of in Hc. destruct (is_asha p && failed ob); [contradiction|].
  destruct (oget b ob) as [[z|]|] eqn:E; try contradiction. destruct Hc as [<-|[]]. apply oget_In. exact E.
Qed.

Lemma own_in_hist_comp p h b z t : In ((b, Num z) :: t) h -> failed t = false -> In z (hist_comp p h b).
Proof.
  intros Hin Hf. unfold hist_comp. apply in_flat_map. exists ((b, Num z) :: t). split; auto.
  unfold hcomp_of. rewrite failed_cons, Hf. cbn [is_fail orb]. rewrite andb_false_r.
  cbn [oget]. rewrite Z.eqb_refl. now left.
Qed.

(* ---------- the decisions, sort-free ---------- *)
Lemma topk_k_ge1 p n : (1 <= topk_k p n)%nat.
Proof. unfold topk_k. destruct (Nat.eqb _ 0) eqn:E; [lia|apply Nat.eqb_neq in E; lia]. Qed.

Lemma topk_k_le p n : 1 <= rf p -> (1 <= n)%nat -> (topk_k p n <= n)%nat.
Proof.
  intros Hrf Hn. unfold topk_k. destruct (Nat.eqb _ 0) eqn:E; [lia|].
  assert (Z.of_nat n / rf p <= Z.of_nat n) by (apply Z.div_le_upper_bound; nia).
  assert (0 <= Z.of_nat n / rf p) by (apply Z.div_pos; lia). lia.
Qed.

Lemma asha_promotable_count p z comp : 1 <= rf p -> comp <> [] ->
  asha_promotable p z comp = negb (Nat.leb (topk_k p (length comp)) (count_gt (z + eps p) comp)).
Proof.
  intros Hrf Hne. unfold asha_promotable. rewrite isort_length.
  set (n := length comp). assert (Hn : (1 <= n)%nat) by (subst n; destruct comp; [congruence|cbn; lia]).
  pose proof (topk_k_ge1 p n) as Hk1. pose proof (topk_k_le p n Hrf Hn) as Hk2.
  destruct (nth_error (isort comp) (n - topk_k p n)) as [t|] eqn:E.
  - rewrite (sorted_nth_count _ _ _ _ (isort_sorted comp) E). rewrite isort_length. fold n.
    replace (n - (n - topk_k p n))%nat with (topk_k p n) by lia.
    now rewrite (count_gt_perm _ _ _ (isort_perm comp)).
  - apply nth_error_None in E. rewrite isort_length in E. fold n in E. lia.
Qed.

Lemma median_promotable_best p z comp : 0 <= eps p -> comp <> [] -> (forall c, In c comp -> c <= z) ->
  median_promotable p z comp = true.
Proof.
  intros He Hne Hall. unfold median_promotable, med2. rewrite isort_length.
  set (n := length comp). assert (Hn : (1 <= n)%nat) by (subst n; destruct comp; [congruence|cbn; lia]).
  assert (Hin : forall i a, nth_error (isort comp) i = Some a -> a <= z).
  { intros i a Hi. apply Hall. apply isort_In. eapply nth_error_In; eauto. }
  assert (Hlt : (n / 2 < n)%nat) by (apply Nat.div_lt_upper_bound; lia).
  assert (Hsome : forall i, (i < n)%nat -> exists a, nth_error (isort comp) i = Some a).
  { intros i Hi. destruct (nth_error (isort comp) i) eqn:E; eauto. apply nth_error_None in E. rewrite isort_length in E. fold n in E. lia. }
  destruct (Nat.odd n) eqn:Eo.
  - destruct (Hsome _ Hlt) as [a Ha]. rewrite Ha. cbn [option_map]. specialize (Hin _ _ Ha). apply Z.leb_le. lia.
  - destruct (Hsome _ Hlt) as [a Ha]. destruct (Hsome (n / 2 - 1)%nat ltac:(lia)) as [a' Ha'].
    rewrite Ha, Ha'. pose proof (Hin _ _ Ha). pose proof (Hin _ _ Ha'). apply Z.leb_le. lia.
Qed.

(* ---------- model = reference (decisions from the history only) ---------- *)
Theorem reference_agree p s j jb : wf p -> kind p <> KMedianOld -> reach p s -> nth_error s j = Some jb ->
  ok_op s (Stp j) = true ->
  snd (step p s (Stp j)) = ref_stop p (map obs s) (num_full s) (obs jb).
Proof.
  intros Hwf Hk Hr Ej Hok. destruct (pending_shape p s j jb Hwf Hr Ej Hok) as (b & v & t & Ho & Hbn & HG & HS).
  rewrite (step_stp _ _ _ _ Ej). unfold stop_job, ref_stop. rewrite Ho.
  destruct v as [z|]; [|reflexivity]. destruct (max_steps p <=? b); [reflexivity|].
  assert (Hown : In ((b, Num z) :: t) (map obs s)). { rewrite <- Ho. apply in_map. eapply nth_error_In; eauto. }
  destruct (kind p) eqn:Ek; try reflexivity; try congruence.
  - (* successive halving *)
    assert (Hsc : scheduled p) by (left; exact Ek). destruct (HS Hsc) as (HJ & Har & Hft).
    rewrite (trig_eq p _ _ Hwf Hsc Har), (is_decision_eq p _ _ Hwf Har).
    destruct (b =? sched p (rung jb)) eqn:Eb; cbn [negb]; [|reflexivity]. apply Z.eqb_eq in Eb.
    unfold decide. rewrite Ek. destruct ((0 <? min_full p) && (num_full s <? min_full p)); [reflexivity|].
    rewrite (competitors_exact p s (rung jb) Hwf Hsc Hr), <- Eb.
    destruct (Z.of_nat (length (hist_comp p (map obs s) b)) <? min_comp p); [reflexivity|].
    rewrite asha_promotable_count.
    + destruct (Nat.leb _ _); reflexivity.
    + destruct Hwf as (_ & _ & Hrf & _). lia.
    + intros Hnil. pose proof (own_in_hist_comp p _ b z t Hown Hft) as Hi. rewrite Hnil in Hi. exact Hi.
  - (* median rule, repaired *)
    assert (Hsc : scheduled p) by (right; exact Ek). destruct (HS Hsc) as (HJ & Har & Hft).
    pose proof (trig_eq p _ _ Hwf Hsc Har) as Ht. unfold trig in *. rewrite Ek in *.
    destruct (halting p b) eqn:Eh; cbn [negb]; [|reflexivity]. symmetry in Ht. apply Z.eqb_eq in Ht.
    unfold decide. rewrite Ek. rewrite (competitors_exact p s (rung jb) Hwf Hsc Hr), <- Ht.
    destruct (Z.of_nat (length (hist_comp p (map obs s) b)) <? min_comp p); [reflexivity|].
    destruct (median_promotable p z _); reflexivity.
Qed.

(* ---------- the best is never stopped early ---------- *)
Theorem best_never_stopped p s j jb b z t : wf p -> scheduled p -> reach p s -> nth_error s j = Some jb ->
  ok_op s (Stp j) = true -> obs jb = (b, Num z) :: t -> b < max_steps p ->
  (forall c, In c (hist_comp p (map obs s) b) -> c <= z) ->
  (kind p = KAsha -> min_comp p <= Z.of_nat (length (hist_comp p (map obs s) b))) ->
  snd (step p s (Stp j)) = Some false.
Proof.
  intros Hwf Hsc Hr Ej Hok Ho Hb Hall Hmc.
  assert (Hk : kind p <> KMedianOld) by (destruct Hsc as [E|E]; rewrite E; discriminate).
  rewrite (reference_agree p s j jb Hwf Hk Hr Ej Hok).
  destruct (pending_shape p s j jb Hwf Hr Ej Hok) as (b' & v' & t' & Ho' & _ & _ & HS).
  rewrite Ho in Ho'. injection Ho' as <- <- <-. destruct (HS Hsc) as (_ & _ & Hft).
  assert (Hown : In ((b, Num z) :: t) (map obs s)). { rewrite <- Ho. apply in_map. eapply nth_error_In; eauto. }
  unfold ref_stop. rewrite Ho. apply Z.leb_gt in Hb. rewrite Hb.
  destruct Hsc as [Ek|Ek]; rewrite Ek.
  - destruct (negb (is_decision p b)); [reflexivity|].
    destruct ((0 <? min_full p) && (num_full s <? min_full p)); [reflexivity|].
    specialize (Hmc Ek). apply Z.ltb_ge in Hmc. rewrite Hmc.
    rewrite count_gt_none.
    + pose proof (topk_k_ge1 p (length (hist_comp p (map obs s) b))) as Hk1.
      destruct (Nat.leb _ 0) eqn:E; [apply Nat.leb_le in E; lia|reflexivity].
    + apply Forall_forall. intros c Hc. specialize (Hall c Hc). destruct Hwf as (_ & _ & _ & _ & _ & He). lia.
  - destruct (negb (halting p b)); [reflexivity|].
    destruct (Z.of_nat (length (hist_comp p (map obs s) b)) <? min_comp p); [reflexivity|].
    rewrite median_promotable_best; auto.
    + destruct Hwf as (_ & _ & _ & _ & _ & He). exact He.
    + intros Hnil. pose proof (own_in_hist_comp p _ b z t Hown Hft) as Hi. rewrite Hnil in Hi. exact Hi.
Qed.

(* ---------- successive halving stops only outside the top 1/rf ---------- *)
Theorem asha_only_outside_topk p s j jb b z t : wf p -> kind p = KAsha -> reach p s -> nth_error s j = Some jb ->
  ok_op s (Stp j) = true -> obs jb = (b, Num z) :: t -> b < max_steps p ->
  snd (step p s (Stp j)) = Some true ->
  let comp := hist_comp p (map obs s) b in
  is_decision p b = true /\
  (Z.of_nat (length comp) < min_comp p \/ (topk_k p (length comp) <= count_gt (z + eps p) comp)%nat).
Proof.
  intros Hwf Ek Hr Ej Hok Ho Hb Hout comp.
  assert (Hk : kind p <> KMedianOld) by (rewrite Ek; discriminate).
  rewrite (reference_agree p s j jb Hwf Hk Hr Ej Hok) in Hout.
  unfold ref_stop in Hout. rewrite Ho in Hout. apply Z.leb_gt in Hb. rewrite Hb, Ek in Hout.
  destruct (is_decision p b); cbn [negb] in Hout; [|discriminate]. split; [reflexivity|].
  destruct ((0 <? min_full p) && (num_full s <? min_full p)); [discriminate|].
  fold comp in Hout. destruct (Z.of_nat (length comp) <? min_comp p) eqn:E.
  - left. apply Z.ltb_lt. exact E.
  - right. injection Hout as Hout. apply Nat.leb_le. exact Hout.
Qed.

(* the same with the plainer hypothesis: at least as good as every number recorded at that budget by anybody *)
Corollary best_never_stopped_all p s j jb b z t : wf p -> scheduled p -> reach p s -> nth_error s j = Some jb ->
  ok_op s (Stp j) = true -> obs jb = (b, Num z) :: t -> b < max_steps p ->
  (forall ob z', In ob (map obs s) -> In (b, Num z') ob -> z' <= z) ->
  (kind p = KAsha -> min_comp p <= Z.of_nat (length (hist_comp p (map obs s) b))) ->
  snd (step p s (Stp j)) = Some false.
Proof.
  intros Hwf Hsc Hr Ej Hok Ho Hb Hbest Hmc. eapply best_never_stopped; eauto.
  intros c Hc. apply hist_comp_In in Hc as (ob & Hob & Hin). eapply Hbest; eauto.
Qed.
