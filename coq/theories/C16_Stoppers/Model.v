(* Model of deephyper.stopper (Stopper, IdleStopper, ConstantStopper, SuccessiveHalvingStopper, MedianStopper)
   attached to RunningJobs that share one storage (RunningJob.record -> Stopper.observe,
   RunningJob.stopped -> Stopper.stop).  Executable definitions only; proofs are in Lemmas*.v.

   Describes /repo at the pinned commit, with ONE deliberate difference: kind [KMedian] is the MedianStopper
   with the repair fixes/F16_median_rung_lag.patch (the rung index advances at every decision point, also when
   fewer than min_competing competitors exist); kind [KMedianOld] is MedianStopper.stop exactly as it is today.

   Objectives: [Num z] is a number (all numbers of one case are integers on one common power-of-two scale,
   epsilon included, so that the comparisons of the code are exact); [Fail] is any non-Number ("F...").
   Storage: metadata key "_completed_rung_<r>" of job j = [mget r (meta j)], key "_completed" = [completed j].
   The fields [pending] and [fin] are ghost (protocol bookkeeping, never read by [step]). *)
From Coq Require Import List ZArith Bool Arith.
Import ListNotations.
Open Scope Z_scope.

Inductive obj := Num (z : Z) | Fail.

Inductive skind := KIdle | KConst | KAsha | KMedianOld | KMedian.

Record params := mkP {
  kind : skind;
  max_steps : Z;
  min_steps : Z;
  rf : Z;          (* reduction_factor *)
  mesr : Z;        (* min_early_stopping_rate *)
  min_comp : Z;    (* min_competing *)
  min_full : Z;    (* min_fully_completed *)
  interval : Z;    (* interval_steps *)
  eps : Z;         (* epsilon, on the objective scale *)
  stop_step : Z }.

Record job := mkJ {
  obs : list (Z * obj);       (* observed_budgets / observed_objectives, newest first *)
  rung : nat;                 (* _rung *)
  crungs : list nat;          (* _list_completed_rung (successive halving) *)
  called : bool;              (* _stop_was_called *)
  meta : list (nat * obj);    (* "_completed_rung_<r>" bindings, newest first *)
  completed : option bool;    (* "_completed" *)
  pending : bool;             (* ghost: record() done, stopped() not yet asked *)
  fin : bool }.               (* ghost: stopped() has returned True *)

Definition job0 : job := mkJ [] 0 [] false [] None false false.
Definition init (n : nat) : list job := repeat job0 n.

Inductive op := Rec (j : nat) (b : Z) (v : obj) | Stp (j : nat).

(* ---------- small library ---------- *)
Fixpoint upd {A} (j : nat) (x : A) (l : list A) : list A :=
  match l, j with
  | [], _ => []
  | _ :: t, O => x :: t
  | y :: t, S j' => y :: upd j' x t
  end.

Fixpoint mget (r : nat) (m : list (nat * obj)) : option obj :=
  match m with
  | [] => None
  | (r', x) :: t => if Nat.eqb r r' then Some x else mget r t
  end.

(* value observed at budget b (the latest one, if a budget was observed twice) *)
Fixpoint oget (b : Z) (l : list (Z * obj)) : option obj :=
  match l with
  | [] => None
  | (b', x) :: t => if b =? b' then Some x else oget b t
  end.

Definition is_fail (x : obj) : bool := match x with Fail => true | Num _ => false end.
Definition failed (l : list (Z * obj)) : bool := existsb (fun bo => is_fail (snd bo)) l.

Fixpoint insert (x : Z) (l : list Z) : list Z :=
  match l with
  | [] => [x]
  | y :: t => if x <=? y then x :: l else y :: insert x t
  end.
Definition isort (l : list Z) : list Z := fold_right insert [] l.

(* ---------- schedules ---------- *)
(* SuccessiveHalvingStopper._compute_halting_budget at rung r *)
Definition hb (p : params) (r : nat) : Z := (min_steps p - 1) + rf p ^ (mesr p + Z.of_nat r).

(* MedianStopper._is_halting_budget at step b *)
Definition halting (p : params) (b : Z) : bool :=
  (min_steps p <=? b) && ((b - min_steps p) mod interval p =? 0).

(* "this observation is at a decision point of the current rung":
   halving: budget >= halting budget of the rung ; median: _is_halting_budget() *)
Definition trig (p : params) (r : nat) (b : Z) : bool :=
  match kind p with
  | KAsha => hb p r <=? b
  | KMedian | KMedianOld => halting p b
  | KIdle | KConst => false
  end.

(* ---------- what is read from the shared storage ---------- *)
(* load_metadata_from_all_jobs(search, "_completed_rung_<r>") filtered to Numbers *)
Definition comp_of (r : nat) (jb : job) : list Z :=
  match mget r (meta jb) with Some (Num z) => [z] | _ => [] end.
Definition competitors (s : list job) (r : nat) : list Z := flat_map (comp_of r) s.

(* _num_fully_completed *)
Definition full_of (jb : job) : Z := match completed jb with Some true => 1 | _ => 0 end.
Definition num_full (s : list job) : Z := fold_right (fun jb a => full_of jb + a) 0 s.

(* ---------- decisions ---------- *)
(* k = int(n // reduction_factor), 1 if that is 0 *)
Definition topk_k (p : params) (n : nat) : nat :=
  let k0 := Z.to_nat (Z.of_nat n / rf p) in
  if Nat.eqb k0 0 then 1%nat else k0.

(* (objective + epsilon) >= sorted[-k] *)
Definition asha_promotable (p : params) (z : Z) (comp : list Z) : bool :=
  let srt := isort comp in
  let n := length srt in
  match nth_error srt (n - topk_k p n) with
  | Some t => t <=? z + eps p
  | None => false          (* empty list: the code raises IndexError; never happens after record() *)
  end.

(* twice np.median of a sorted list *)
Definition med2 (srt : list Z) : option Z :=
  let n := length srt in
  if Nat.odd n then option_map (Z.mul 2) (nth_error srt (n / 2))
  else match nth_error srt (n / 2 - 1), nth_error srt (n / 2) with
       | Some a, Some b => Some (a + b)
       | _, _ => None      (* empty list: np.median = nan, every comparison False *)
       end.

(* objective + epsilon >= median *)
Definition median_promotable (p : params) (z : Z) (comp : list Z) : bool :=
  match med2 (isort comp) with
  | Some m => m <=? 2 * (z + eps p)
  | None => false
  end.

(* the part of stop() after the base-class checks and after "is this a decision point":
   returns (new rung, stop?) *)
Definition decide (p : params) (s : list job) (r : nat) (z : Z) : nat * bool :=
  match kind p with
  | KAsha =>
      if (0 <? min_full p) && (num_full s <? min_full p) then (S r, false)
      else
        let comp := competitors s r in
        if Z.of_nat (length comp) <? min_comp p then (r, true)
        else if asha_promotable p z comp then (S r, false) else (r, true)
  | KMedianOld =>
      let comp := competitors s r in
      if Z.of_nat (length comp) <? min_comp p then (r, false)          (* F16: the rung does not advance *)
      else if median_promotable p z comp then (S r, false) else (r, true)
  | KMedian =>
      let comp := competitors s r in
      if Z.of_nat (length comp) <? min_comp p then (S r, false)
      else if median_promotable p z comp then (S r, false) else (r, true)
  | KIdle | KConst => (r, false)
  end.

(* ---------- Stopper.observe ---------- *)
Definition observe_job (p : params) (jb : job) (b : Z) (v : obj) : job :=
  let r := rung jb in
  let hit := trig p r b in
  let m1 := if hit then (r, v) :: meta jb else meta jb in
  match kind p with
  | KAsha =>
      let cr := if hit then r :: crungs jb else crungs jb in
      (* a failure marks every rung completed so far as failed *)
      let m2 := if is_fail v then map (fun r' => (r', Fail)) cr ++ m1 else m1 in
      mkJ ((b, v) :: obs jb) r cr (called jb) m2 (completed jb) true (fin jb)
  | _ => mkJ ((b, v) :: obs jb) r (crungs jb) (called jb) m1 (completed jb) true (fin jb)
  end.

(* ---------- Stopper.stop ---------- *)
Definition with_stop (jb : job) (c : option bool) (r : nat) (out : bool) : job :=
  mkJ (obs jb) r (crungs jb) true (meta jb) c false out.

Definition stop_job (p : params) (s : list job) (jb : job) : job * option bool :=
  match obs jb with
  | [] => (jb, None)                      (* stop() before any observe(): IndexError in the code *)
  | (b, v) :: _ =>
      let c1 := if called jb then completed jb else Some false in
      match v with
      | Fail => (with_stop jb c1 (rung jb) true, Some true)
      | Num z =>
          if max_steps p <=? b then (with_stop jb (Some true) (rung jb) true, Some true)
          else
            match kind p with
            | KIdle => (with_stop jb c1 (rung jb) false, Some false)
            | KConst => let o := stop_step p <=? b in (with_stop jb c1 (rung jb) o, Some o)
            | _ =>
                if negb (trig p (rung jb) b) then (with_stop jb c1 (rung jb) false, Some false)
                else let '(r', o) := decide p s (rung jb) z in (with_stop jb c1 r' o, Some o)
            end
      end
  end.

(* ---------- the machine ---------- *)
Definition step (p : params) (s : list job) (o : op) : list job * option bool :=
  match o with
  | Rec j b v =>
      match nth_error s j with
      | Some jb => (upd j (observe_job p jb b v) s, None)
      | None => (s, None)
      end
  | Stp j =>
      match nth_error s j with
      | Some jb => let '(jb', out) := stop_job p s jb in (upd j jb' s, out)
      | None => (s, None)
      end
  end.

Fixpoint run (p : params) (s : list job) (ops : list op) : list (list job * option bool) :=
  match ops with
  | [] => []
  | o :: t => let r := step p s o in r :: run p (fst r) t
  end.

Definition run_state (p : params) (s : list job) (ops : list op) : list job :=
  fold_left (fun s o => fst (step p s o)) ops s.

(* ---------- the documented protocol: record(1,.) stopped() record(2,.) stopped() ... until True ---------- *)
Definition ok_op (s : list job) (o : op) : bool :=
  match o with
  | Rec j b v =>
      match nth_error s j with
      | Some jb => negb (pending jb) && negb (fin jb) && (b =? Z.of_nat (length (obs jb)) + 1)
      | None => false
      end
  | Stp j =>
      match nth_error s j with
      | Some jb => pending jb && negb (fin jb)
      | None => false
      end
  end.

Fixpoint proto (p : params) (s : list job) (ops : list op) : bool :=
  match ops with
  | [] => true
  | o :: t => ok_op s o && proto p (fst (step p s o)) t
  end.

Inductive reach (p : params) : list job -> Prop :=
| reach_init : forall n, reach p (init n)
| reach_step : forall s o, reach p s -> ok_op s o = true -> reach p (fst (step p s o)).

(* ---------- reference formulation: decisions from the HISTORY of observations only ---------- *)
(* budget of the r-th decision point *)
Definition sched (p : params) (r : nat) : Z :=
  match kind p with
  | KAsha => hb p r
  | _ => min_steps p + Z.of_nat r * interval p
  end.

Definition is_decision (p : params) (b : Z) : bool :=
  existsb (fun r => sched p r =? b) (seq 0 (Z.to_nat b)).

Definition is_asha (p : params) : bool := match kind p with KAsha => true | _ => false end.

(* numbers observed at budget b by the evaluations (for halving: that have not failed) *)
Definition hcomp_of (p : params) (b : Z) (ob : list (Z * obj)) : list Z :=
  if is_asha p && failed ob then []
  else match oget b ob with Some (Num z) => [z] | _ => [] end.
Definition hist_comp (p : params) (h : list (list (Z * obj))) (b : Z) : list Z := flat_map (hcomp_of p b) h.

Definition count_gt (x : Z) (l : list Z) : nat := length (filter (fun c => x <? c) l).

Definition ref_stop (p : params) (h : list (list (Z * obj))) (nfull : Z) (ob : list (Z * obj)) : option bool :=
  match ob with
  | [] => None
  | (b, Fail) :: _ => Some true
  | (b, Num z) :: _ =>
      if max_steps p <=? b then Some true
      else
        match kind p with
        | KIdle => Some false
        | KConst => Some (stop_step p <=? b)
        | KAsha =>
            if negb (is_decision p b) then Some false
            else if (0 <? min_full p) && (nfull <? min_full p) then Some false
            else
              let comp := hist_comp p h b in
              let n := length comp in
              if Z.of_nat n <? min_comp p then Some true
              else Some (Nat.leb (topk_k p n) (count_gt (z + eps p) comp))
        | KMedian | KMedianOld =>
            if negb (halting p b) then Some false
            else
              let comp := hist_comp p h b in
              if Z.of_nat (length comp) <? min_comp p then Some false
              else Some (negb (median_promotable p z comp))
        end
  end.

(* ---------- several searches on one storage ----------
   load_metadata_from_all_jobs(search_id, key) reads the jobs of ONE search: a storage holding several searches is
   a list of single-search machines; an operation is addressed to (search, evaluation). *)
Definition mstep (p : params) (ss : list (list job)) (mo : nat * op) : list (list job) * option bool :=
  match nth_error ss (fst mo) with
  | Some s => let r := step p s (snd mo) in (upd (fst mo) (fst r) ss, snd r)
  | None => (ss, None)
  end.

Definition mrun_state (p : params) (ss : list (list job)) (mops : list (nat * op)) : list (list job) :=
  fold_left (fun ss mo => fst (mstep p ss mo)) mops ss.

(* the operations addressed to search k *)
Definition project (k : nat) (mops : list (nat * op)) : list op :=
  map snd (filter (fun mo => Nat.eqb (fst mo) k) mops).
