(* C16 - today's MedianStopper (kind KMedianOld: the rung index does not advance at a decision point with fewer
   than min_competing competitors) violates "same budget" and "the best is never stopped": concrete witness.
   Finding F16; the witness is replayed on the implementation from corpus/C16/f16_median_lag.json. *)
From Coq Require Import List ZArith Bool Arith Lia.
Import ListNotations.
Require Import DH.C16_Stoppers.Model DH.C16_Stoppers.Lemmas DH.C16_Stoppers.LemmasInv DH.C16_Stoppers.LemmasMain
  DH.C16_Stoppers.Check.
Open Scope Z_scope.

(* MedianStopper(max_steps=9, min_steps=1, min_competing=2, interval_steps=1, epsilon=0) *)
Definition p16 : params := mkP KMedianOld 9 1 3 0 2 0 1 0 1.
(* evaluation 0 records 2 at budget 1 (alone: no pruning, rung stays 0), then 8 at budget 2 - stored under rung 0 again;
   evaluation 1 records 3 at budget 1: better than evaluation 0 at that budget *)
Definition ops16 : list op := [Rec 0 1 (Num 2); Stp 0; Rec 0 2 (Num 8); Rec 1 1 (Num 3)].
Definition s16 : list job := run_state p16 (init 2) ops16.

Lemma wf_p16 : wf p16.
Proof. unfold wf, p16; cbn. lia. Qed.

Lemma reach_s16 : reach p16 s16.
Proof. apply reach_run; [constructor|vm_compute; reflexivity]. Qed.

Theorem median_lag_refuted :
  exists p s, kind p = KMedianOld /\ wf p /\ reach p s /\
    (* an evaluation that is at least as good as every value recorded at its budget is stopped early *)
    (exists j jb b z t, nth_error s j = Some jb /\ ok_op s (Stp j) = true /\ obs jb = (b, Num z) :: t /\ b < max_steps p /\
        (forall ob z', In ob (map obs s) -> In (b, Num z') ob -> z' <= z) /\
        snd (step p s (Stp j)) = Some true) /\
    (* and a value stored under rung r was not observed at the r-th decision point *)
    (exists j jb r z, nth_error s j = Some jb /\ mget r (meta jb) = Some (Num z) /\ ~ In (sched p r, Num z) (obs jb)).
Proof.
  exists p16, s16. split; [reflexivity|]. split; [exact wf_p16|]. split; [exact reach_s16|]. split.
  - exists 1%nat, (mkJ [(1, Num 3)] 0 [] false [(0%nat, Num 3)] None true false), 1, 3, [].
    split; [vm_compute; reflexivity|]. split; [vm_compute; reflexivity|]. split; [reflexivity|]. split; [cbn; lia|].
    split; [apply best_at_spec; vm_compute; reflexivity|vm_compute; reflexivity].
  - exists 0%nat, (mkJ [(2, Num 8); (1, Num 2)] 0 [] true [(0%nat, Num 8); (0%nat, Num 2)] (Some false) true false), 0%nat, 8.
    split; [vm_compute; reflexivity|]. split; [vm_compute; reflexivity|].
    intros H. apply seen_at_spec in H. vm_compute in H. discriminate.
Qed.
