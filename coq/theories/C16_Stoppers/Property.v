(* C16 - Early-discarding never cuts the best evaluation and respects the step budget.  Property theorems only.

   Vocabulary (Model.v): a state [s] is the list of evaluations (stopper state + metadata in the shared storage);
   [Rec j b v] is RunningJob.record(b, v) of evaluation j, [Stp j] is RunningJob.stopped(); [snd (step p s (Stp j))]
   is what stopped() returns.  [reach p s]: s is reached from any number of fresh evaluations by ANY interleaving of
   operations in which every evaluation follows the documented protocol record(1,.) stopped() record(2,.) stopped() ...
   and gets no operation after stopped() returned True ([C16_reach_is_protocol]).  [obs jb] are the observations of
   an evaluation, newest first; [map obs s] is the whole history.  No bound on the number of evaluations, steps, or on
   the schedule.  Kinds: KIdle, KConst, KAsha (SuccessiveHalvingStopper), KMedian (MedianStopper with
   fixes/F16_median_rung_lag.patch), KMedianOld (MedianStopper of the pinned tree). *)
From Coq Require Import List ZArith Bool Arith Lia.
Import ListNotations.
Require Import DH.C16_Stoppers.Model DH.C16_Stoppers.Lemmas DH.C16_Stoppers.LemmasInv DH.C16_Stoppers.LemmasMain
  DH.C16_Stoppers.Check DH.C16_Stoppers.LemmasRefuted DH.C16_Stoppers.LemmasDefaults DH.C16_Stoppers.LemmasFrame.
Open Scope Z_scope.

(* reach = states of protocol runs from n fresh evaluations *)
Theorem C16_reach_is_protocol : forall p s,
  reach p s <-> exists n ops, proto p (init n) ops = true /\ s = run_state p (init n) ops.
Proof. exact reach_iff. Qed.
Print Assumptions C16_reach_is_protocol.

(* every stopper: stopped() after the max_steps-th observation returns True ... *)
Theorem C16_max_steps : forall p s j jb, wf p -> reach p s -> nth_error s j = Some jb -> ok_op s (Stp j) = true ->
  max_steps p <= Z.of_nat (length (obs jb)) -> snd (step p s (Stp j)) = Some true.
Proof. exact max_steps_stops. Qed.
Print Assumptions C16_max_steps.

(* ... hence no evaluation ever makes more than max_steps observations *)
Theorem C16_max_steps_bound : forall p s j jb, wf p -> reach p s -> nth_error s j = Some jb ->
  Z.of_nat (length (obs jb)) <= max_steps p.
Proof. exact obs_bounded. Qed.
Print Assumptions C16_max_steps_bound.

(* every stopper, every state: stopped() right after a failure observation returns True *)
Theorem C16_failure_stops : forall p s j jb b t, nth_error s j = Some jb -> obs jb = (b, Fail) :: t ->
  snd (step p s (Stp j)) = Some true.
Proof. exact failure_stops. Qed.
Print Assumptions C16_failure_stops.

(* same budget: a number stored under "_completed_rung_<r>" by any evaluation was observed by it at the budget of
   the r-th decision point (halving: (min_steps-1) + rf^(mesr+r); median: min_steps + r*interval_steps) *)
Theorem C16_same_budget : forall p s j jb r z, wf p -> scheduled p -> reach p s -> nth_error s j = Some jb ->
  mget r (meta jb) = Some (Num z) -> In (sched p r, Num z) (obs jb).
Proof. exact same_budget. Qed.
Print Assumptions C16_same_budget.

(* and exactly those: the competitors read at rung r are the numbers recorded at that budget (halving: by the
   evaluations that have not failed) *)
Theorem C16_same_budget_exact : forall p s r, wf p -> scheduled p -> reach p s ->
  competitors s r = hist_comp p (map obs s) (sched p r).
Proof. exact competitors_exact. Qed.
Print Assumptions C16_same_budget_exact.

(* an evaluation at least as good as every competitor recorded at its budget so far ([hist_comp]: the numbers recorded
   at budget b by any evaluation - for halving, by those that have not failed since) is not stopped before max_steps;
   for halving provided min_competing <= number of competitors (always true for the default 0) *)
Theorem C16_best_never_stopped : forall p s j jb b z t, wf p -> scheduled p -> reach p s -> nth_error s j = Some jb ->
  ok_op s (Stp j) = true -> obs jb = (b, Num z) :: t -> b < max_steps p ->
  (forall c, In c (hist_comp p (map obs s) b) -> c <= z) ->
  (kind p = KAsha -> min_comp p <= Z.of_nat (length (hist_comp p (map obs s) b))) ->
  snd (step p s (Stp j)) = Some false.
Proof. exact best_never_stopped. Qed.
Print Assumptions C16_best_never_stopped.

(* the same with the plainer (stronger) hypothesis: at least as good as every number anybody recorded at that budget *)
Theorem C16_best_never_stopped_all : forall p s j jb b z t, wf p -> scheduled p -> reach p s -> nth_error s j = Some jb ->
  ok_op s (Stp j) = true -> obs jb = (b, Num z) :: t -> b < max_steps p ->
  (forall ob z', In ob (map obs s) -> In (b, Num z') ob -> z' <= z) ->
  (kind p = KAsha -> min_comp p <= Z.of_nat (length (hist_comp p (map obs s) b))) ->
  snd (step p s (Stp j)) = Some false.
Proof. exact best_never_stopped_all. Qed.
Print Assumptions C16_best_never_stopped_all.

(* with the DEFAULT constructor arguments of the current source tree (Generated/Facts_C16.v; min_competing = 0 for
   halving, 10 for the median rule) the stoppers are well-formed and no side condition is needed *)
Theorem C16_default_best_never_stopped : forall ms e s j jb b z t,
  1 <= ms -> 0 <= e ->
  forall p, p = asha_default ms e \/ p = median_default ms e ->
  reach p s -> nth_error s j = Some jb -> ok_op s (Stp j) = true -> obs jb = (b, Num z) :: t -> b < max_steps p ->
  (forall c, In c (hist_comp p (map obs s) b) -> c <= z) ->
  snd (step p s (Stp j)) = Some false.
Proof. exact default_best_never_stopped. Qed.
Print Assumptions C16_default_best_never_stopped.

(* halving stops an evaluation before max_steps only at a decision point, and only if at least
   k = max 1 (n div rf) of the n competitors recorded there exceed its objective + epsilon (outside the top 1/rf),
   or by the bootstrap rule n < min_competing *)
Theorem C16_asha_only_outside_topk : forall p s j jb b z t, wf p -> kind p = KAsha -> reach p s -> nth_error s j = Some jb ->
  ok_op s (Stp j) = true -> obs jb = (b, Num z) :: t -> b < max_steps p ->
  snd (step p s (Stp j)) = Some true ->
  let comp := hist_comp p (map obs s) b in
  is_decision p b = true /\
  (Z.of_nat (length comp) < min_comp p \/ (topk_k p (length comp) <= count_gt (z + eps p) comp)%nat).
Proof. exact asha_only_outside_topk. Qed.
Print Assumptions C16_asha_only_outside_topk.

(* the decisions of the stoppers equal the reference rules [ref_stop], which read only the history of observations
   (and the number of "_completed" evaluations for min_fully_completed) *)
Theorem C16_reference_agree : forall p s j jb, wf p -> kind p <> KMedianOld -> reach p s -> nth_error s j = Some jb ->
  ok_op s (Stp j) = true ->
  snd (step p s (Stp j)) = ref_stop p (map obs s) (num_full s) (obs jb).
Proof. exact reference_agree. Qed.
Print Assumptions C16_reference_agree.

(* the MedianStopper of the pinned tree violates both clauses (finding F16) *)
Theorem C16_median_lag_refuted :
  exists p s, kind p = KMedianOld /\ wf p /\ reach p s /\
    (exists j jb b z t, nth_error s j = Some jb /\ ok_op s (Stp j) = true /\ obs jb = (b, Num z) :: t /\ b < max_steps p /\
        (forall ob z', In ob (map obs s) -> In (b, Num z') ob -> z' <= z) /\
        snd (step p s (Stp j)) = Some true) /\
    (exists j jb r z, nth_error s j = Some jb /\ mget r (meta jb) = Some (Num z) /\ ~ In (sched p r, Num z) (obs jb)).
Proof. exact median_lag_refuted. Qed.
Print Assumptions C16_median_lag_refuted.

(* the oracle run on the implementation's stopped() results decides the specification of one step *)
Theorem C16_oracle_stop : forall p h nfull ob o, ob <> [] ->
  (check_stop p h nfull ob o = 0 <-> StopSpec p h nfull ob o).
Proof. exact check_stop_spec. Qed.
Print Assumptions C16_oracle_stop.

(* the oracle run on the implementation's metadata decides "same budget" *)
Theorem C16_oracle_same_budget : forall p ob m,
  meta_ok p ob m = true <-> (forall r z, mget r m = Some (Num z) -> In (sched p r, Num z) ob).
Proof. exact meta_ok_spec. Qed.
Print Assumptions C16_oracle_same_budget.

(* every protocol run of the model is accepted by the monitor that is applied to the implementation's traces *)
Theorem C16_model_passes_monitor : forall p, wf p -> kind p <> KMedianOld -> forall ops s i, reach p s ->
  proto p s ops = true -> monitor p (mview s) (num_full s) (model_trace p s ops) i = [].
Proof. exact model_passes_monitor. Qed.
Print Assumptions C16_model_passes_monitor.

(* frame: an operation of evaluation j changes neither the stopper state nor the metadata of any other evaluation
   (every state, no protocol needed) *)
Theorem C16_frame : forall p s o j', target o <> j' -> nth_error (fst (step p s o)) j' = nth_error s j'.
Proof. exact step_frame. Qed.
Print Assumptions C16_frame.

(* several searches on one storage ([mstep]: an operation is addressed to (search, evaluation)): what search k does
   and decides after ANY interleaved history is what the single-search machine does on the operations addressed to
   k alone - so every theorem above holds per search *)
Theorem C16_search_isolation : forall p ss mops k s, nth_error ss k = Some s ->
  nth_error (mrun_state p ss mops) k = Some (run_state p s (project k mops)) /\
  forall o, snd (mstep p (mrun_state p ss mops) (k, o)) = snd (step p (run_state p s (project k mops)) o).
Proof. exact search_isolation. Qed.
Print Assumptions C16_search_isolation.

(* ---------- non-vacuity ---------- *)
Definition pA : params := mkP KAsha 9 1 3 0 0 0 1 0 1.      (* SuccessiveHalvingStopper(max_steps=9), epsilon 0 *)
Definition pM : params := mkP KMedian 9 1 3 0 2 0 1 0 1.    (* MedianStopper(max_steps=9, min_competing=2), repaired *)

Example C16_params_wf : wf pA /\ scheduled pA /\ wf pM /\ scheduled pM.
Proof. unfold wf, scheduled. cbn. repeat split; try lia; auto. Qed.

(* three evaluations at budget 1 with objectives 5, 3, 7: the first is promoted, the second is stopped early
   (one of two competitors exceeds it), the third is promoted; the run follows the protocol *)
Example C16_asha_run :
  let ops := [Rec 0 1 (Num 5); Stp 0; Rec 1 1 (Num 3); Stp 1; Rec 2 1 (Num 7); Stp 2] in
  proto pA (init 3) ops = true /\
  map snd (run pA (init 3) ops) = [None; Some false; None; Some true; None; Some false].
Proof. vm_compute. split; reflexivity. Qed.

(* the witness of F16 on the repaired median rule: evaluation 1 (3 at budget 1, evaluation 0 had 2) is kept,
   and evaluation 0's later value 8 is stored under rung 1 *)
Example C16_median_run :
  let ops := [Rec 0 1 (Num 2); Stp 0; Rec 0 2 (Num 8); Rec 1 1 (Num 3); Stp 1] in
  proto pM (init 2) ops = true /\
  map snd (run pM (init 2) ops) = [None; Some false; None; None; Some false] /\
  map snd (run p16 (init 2) ops) = [None; Some false; None; None; Some true].
Proof. vm_compute. repeat split; reflexivity. Qed.

(* a median decision that does stop: 1 against competitors 5 and 9 *)
Example C16_median_stops :
  let p := mkP KMedian 9 1 3 0 0 0 1 0 1 in
  let ops := [Rec 0 1 (Num 5); Stp 0; Rec 1 1 (Num 9); Stp 1; Rec 2 1 (Num 1); Stp 2] in
  proto p (init 3) ops = true /\ map snd (run p (init 3) ops) = [None; Some false; None; Some false; None; Some true].
Proof. vm_compute. split; reflexivity. Qed.
