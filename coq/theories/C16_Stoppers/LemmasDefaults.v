(* C16 - facts of the source consumed by proofs: the DEFAULT constructor arguments (regenerated from the current
   tree into Generated/Facts_C16.v on every run).  If a default changes so that a statement below stops being true
   (e.g. min_competing of successive halving is no longer 0), this file no longer compiles and the check reports it. *)
From Coq Require Import List ZArith Bool Lia.
Import ListNotations.
Require Import DH.C16_Stoppers.Model DH.C16_Stoppers.Lemmas DH.C16_Stoppers.LemmasInv DH.C16_Stoppers.LemmasMain.
Require Import DH.Generated.Facts_C16.
Open Scope Z_scope.

Lemma facts_recognised : srcfacts_ok = true.
Proof. reflexivity. Qed.

(* SuccessiveHalvingStopper(max_steps=ms) / MedianStopper(max_steps=ms), every other argument at its default;
   e = the default epsilon on the objective scale of the case (only its sign matters) *)
Definition asha_default (ms e : Z) : params :=
  mkP KAsha ms asha_default_min_steps asha_default_reduction_factor asha_default_min_early_stopping_rate
      asha_default_min_competing asha_default_min_fully_completed 1 e 1.
Definition median_default (ms e : Z) : params :=
  mkP KMedian ms median_default_min_steps 3 0 median_default_min_competing 0 median_default_interval_steps e 1.

Lemma default_epsilon_nonneg : 0 <= asha_default_epsilon_num /\ 0 <= median_default_epsilon_num.
Proof. split; vm_compute; discriminate. Qed.

Lemma asha_default_wf ms e : 1 <= ms -> 0 <= e -> wf (asha_default ms e).
Proof. intros H1 H2. unfold wf, asha_default. cbn. repeat split; try assumption; vm_compute; discriminate. Qed.

Lemma median_default_wf ms e : 1 <= ms -> 0 <= e -> wf (median_default ms e).
Proof. intros H1 H2. unfold wf, median_default. cbn. repeat split; try assumption; vm_compute; discriminate. Qed.

(* with the default arguments no side condition on the number of competitors is needed *)
Theorem default_best_never_stopped ms e s j jb b z t :
  1 <= ms -> 0 <= e ->
  forall p, p = asha_default ms e \/ p = median_default ms e ->
  reach p s -> nth_error s j = Some jb -> ok_op s (Stp j) = true -> obs jb = (b, Num z) :: t -> b < max_steps p ->
  (forall c, In c (hist_comp p (map obs s) b) -> c <= z) ->
  snd (step p s (Stp j)) = Some false.
Proof.
  intros H1 H2 p Hp Hr Ej Hok Ho Hb Hbest.
  destruct Hp as [-> | ->].
  - eapply best_never_stopped; eauto.
    + now apply asha_default_wf.
    + left. reflexivity.
    + intros _. cbn [asha_default min_comp]. change asha_default_min_competing with 0. lia.
  - eapply best_never_stopped; eauto.
    + now apply median_default_wf.
    + right. reflexivity.
    + intros Hk. discriminate Hk.
Qed.
