(* Entry points for the extracted driver: data -> data *)
From Coq Require Import List ZArith Bool.
Import ListNotations.
Require Import DH.Common.Data DH.C16_Stoppers.Model DH.C16_Stoppers.Check.
Open Scope Z_scope.

Definition d_kind (d : data) : skind :=
  let k := dZ d in
  if k =? 0 then KIdle else if k =? 1 then KConst else if k =? 2 then KAsha else if k =? 3 then KMedianOld else KMedian.

(* (kind max_steps min_steps rf mesr min_comp min_full interval eps stop_step) *)
Definition d_params (d : data) : params :=
  mkP (d_kind (dnth 0 d)) (dZ (dnth 1 d)) (dZ (dnth 2 d)) (dZ (dnth 3 d)) (dZ (dnth 4 d)) (dZ (dnth 5 d))
      (dZ (dnth 6 d)) (dZ (dnth 7 d)) (dZ (dnth 8 d)) (dZ (dnth 9 d)).

(* () = failure, (z) = number *)
Definition d_obj (d : data) : obj := match dopt dZ d with Some z => Num z | None => Fail end.
Definition e_obj (x : obj) : data := match x with Num z => L [I z] | Fail => L [] end.

(* (0 j b obj) = record ; (1 j) = stopped *)
Definition d_op (d : data) : op :=
  if dZ (dnth 0 d) =? 0 then Rec (dnat (dnth 1 d)) (dZ (dnth 2 d)) (d_obj (dnth 3 d)) else Stp (dnat (dnth 1 d)).

Definition e_out (o : option bool) : data := match o with Some false => I 0 | Some true => I 1 | None => I 2 end.
Definition d_out (d : data) : option bool := let k := dZ d in if k =? 0 then Some false else if k =? 1 then Some true else None.
Definition e_meta (m : list (nat * obj)) : data := elist (epair enat e_obj) m.
Definition d_meta (d : data) : list (nat * obj) := dmap (dpair dnat d_obj) d.
Definition e_completed (c : option bool) : data := match c with None => I 0 | Some false => I 1 | Some true => I 2 end.

(* what the harness compares after every step: metadata bindings (newest first), "_completed", and, for the
   failure detail only, rung / number of observations *)
Definition e_job (jb : job) : data :=
  L [e_meta (meta jb); e_completed (completed jb); enat (rung jb); enat (length (obs jb))].
Definition e_state (s : list job) : data := elist e_job s.

Definition e_run (l : list (list job * option bool)) : data := elist (fun r => L [e_out (snd r); e_state (fst r)]) l.

(* reference decisions along a run of the model *)
Fixpoint ref_run (p : params) (s : list job) (ops : list op) : list (option bool) :=
  match ops with
  | [] => []
  | o :: t =>
      let r := match o with
               | Stp j => match nth_error s j with Some jb => ref_stop p (map obs s) (num_full s) (obs jb) | None => None end
               | Rec _ _ _ => None
               end in
      r :: ref_run p (fst (step p s o)) t
  end.

Definition d_completed (d : data) : option bool := let k := dZ d in if k =? 0 then None else if k =? 1 then Some false else Some true.

(* (op out (meta of job 0, meta of job 1, ...) (completed of job 0, ...)) *)
Definition d_item (d : data) : item :=
  mkItem (d_op (dnth 0 d)) (d_out (dnth 1 d)) (dmap d_meta (dnth 2 d)) (dmap d_completed (dnth 3 d)).

Definition entries : list (Z * (data -> data)) :=
  [ (1601, fun d => e_run (run (d_params (dnth 0 d)) (init (dnat (dnth 1 d))) (dmap d_op (dnth 2 d))));
    (1602, fun d => ebool (proto (d_params (dnth 0 d)) (init (dnat (dnth 1 d))) (dmap d_op (dnth 2 d))));
    (1603, fun d => elist e_out (ref_run (d_params (dnth 0 d)) (init (dnat (dnth 1 d))) (dmap d_op (dnth 2 d))));
    (* the oracle: () = accepted, (step clause) otherwise *)
    (1604, fun d => elist eZ (monitor (d_params (dnth 0 d)) (minit (dnat (dnth 1 d))) 0 (dmap d_item (dnth 2 d)) 0)) ].
