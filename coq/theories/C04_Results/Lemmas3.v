(* C04: the end-of-search Pareto pass on a faithful table, and the assembled statement about search_fixed. *)
From Coq Require Import List ZArith Bool Arith Lia Permutation.
Import ListNotations.
Require Import DH.Common.VecOrd DH.C11_Pareto.Model DH.C11_Pareto.Lemmas DH.C11_Pareto.Check.
Require Import DH.C04_Results.Model DH.C04_Results.Check DH.C04_Results.Lemmas DH.C04_Results.Lemmas2.
Open Scope Z_scope.

(* ---------- the mask: first occurrence of every non-dominated value ---------- *)
Lemma vmem_In v l : vmem v l = true <-> In v l.
Proof. exact (memv_In v l). Qed.

Lemma first_occ_length sel pts : forall seen, length (first_occ_mask sel seen pts) = length pts.
Proof. induction pts as [|p t IH]; intros seen; cbn [first_occ_mask length]; [reflexivity|]. rewrite IH. reflexivity. Qed.

Lemma first_occ_in sel pts : forall seen x,
  In x (select (first_occ_mask sel seen pts) pts) <-> In x pts /\ In x sel /\ ~ In x seen.
Proof.
  induction pts as [|p t IH]; intros seen x; cbn [first_occ_mask select].
  - cbn [In]. tauto.
  - destruct (vmem p sel && negb (vmem p seen)) eqn:E.
    + apply andb_true_iff in E as [E1 E2]. apply vmem_In in E1. apply negb_true_iff in E2.
      assert (Hn : ~ In p seen) by (intros H; apply vmem_In in H; congruence).
      cbn [In]. rewrite IH. cbn [In]. split.
      * intros [<-|(H1 & H2 & H3)]; [repeat split; auto|]. repeat split; auto.
      * intros (H1 & H2 & H3). destruct (vec_eq_dec p x) as [->|Hne]; [left; reflexivity|right].
        destruct H1 as [H1|H1]; [contradiction|]. repeat split; auto. intros [Hc|Hc]; auto.
    + rewrite IH. cbn [In].
      assert (Hpx : In x sel -> ~ In x seen -> p <> x).
      { intros H2 H3 ->. apply vmem_In in H2. rewrite H2 in E. cbn [andb] in E. apply negb_false_iff in E.
        apply vmem_In in E. contradiction. }
      split.
      * intros (H1 & H2 & H3). repeat split; auto.
      * intros (H1 & H2 & H3). specialize (Hpx H2 H3). destruct H1 as [H1|H1]; [contradiction|].
        repeat split; auto. intros [Hc|Hc]; auto.
Qed.

Lemma first_occ_nodup sel pts : forall seen, NoDup (select (first_occ_mask sel seen pts) pts).
Proof.
  induction pts as [|p t IH]; intros seen; cbn [first_occ_mask select]; [constructor|].
  destruct (vmem p sel && negb (vmem p seen)); [|apply IH].
  constructor; [|apply IH]. intros H. apply first_occ_in in H as (_ & _ & H). apply H. left. reflexivity.
Qed.

Lemma nds_mask_spec m pts : SameLen m pts -> NdsSpec pts (select (nds_mask pts) pts).
Proof.
  intros HS. destruct (nds_correct m pts HS) as (Hincl & Hnd & Hsound & Hcompl).
  unfold nds_mask. repeat split.
  - intros s Hs. apply first_occ_in in Hs. tauto.
  - apply first_occ_nodup.
  - intros s x Hs Hx. apply first_occ_in in Hs as (_ & Hs & _). apply Hsound; assumption.
  - intros x Hx. destruct (Hcompl x Hx) as (s & Hs & Hw). exists s. split; [|exact Hw].
    apply first_occ_in. repeat split; [apply Hincl; exact Hs|exact Hs|intros []].
Qed.

(* ---------- shape of a header ---------- *)
Lemma filter_obj_CP (l : list (Z * cell)) : filter is_objcol (map (fun kv => CP (fst kv)) l) = [].
Proof. induction l as [|a t IH]; cbn [map filter is_objcol]; [reflexivity|exact IH]. Qed.
Lemma filter_obj_CM (l : list (Z * cell)) : filter is_objcol (map (fun kv => CM (fst kv)) l) = [].
Proof. induction l as [|a t IH]; cbn [map filter is_objcol]; [reflexivity|exact IH]. Qed.
Lemma filter_obj_objcols k : filter is_objcol (objcols_of k) = objcols_of k.
Proof.
  destruct k as [|m]; cbn [objcols_of]; [reflexivity|]. induction (seq 0 m) as [|i t IH]; cbn [map filter is_objcol]; [reflexivity|].
  rewrite IH. reflexivity.
Qed.

Lemma objcols_header k j : objcols (header_of k j) = objcols_of k.
Proof.
  unfold objcols, header_of. rewrite !filter_app, filter_obj_CP, filter_obj_CM, filter_obj_objcols.
  cbn [filter is_objcol app]. rewrite app_nil_r. reflexivity.
Qed.

Lemma header_no_pareto k j : ~ In CPareto (header_of k j).
Proof.
  unfold header_of. rewrite !in_app_iff. intros [H|[H|[H|H]]].
  - apply in_map_iff in H as [kv [E _]]. discriminate.
  - destruct k as [|m]; cbn [objcols_of] in H; [destruct H as [E|[]]; discriminate|].
    apply in_map_iff in H as [i [E _]]. discriminate.
  - destruct H as [E|[E|[]]]; discriminate.
  - apply in_map_iff in H as [kv [E _]]. discriminate.
Qed.

(* ---------- positional access in an extended row ---------- *)
Lemma index_of_app c h x : In c h -> index_of c (h ++ x) = index_of c h.
Proof.
  induction h as [|c' t IH]; intros Hin; [contradiction|]. cbn [app index_of].
  destruct (col_eqb c c') eqn:E; [reflexivity|]. f_equal. apply IH.
  destruct Hin as [->|Hin]; [rewrite col_eqb_refl in E; discriminate|exact Hin].
Qed.

Lemma index_of_lt c h : In c h -> (index_of c h < length h)%nat.
Proof.
  induction h as [|c' t IH]; intros Hin; [contradiction|]. cbn [index_of length].
  destruct (col_eqb c c') eqn:E; [lia|]. apply -> Nat.succ_lt_mono. apply IH.
  destruct Hin as [->|Hin]; [rewrite col_eqb_refl in E; discriminate|exact Hin].
Qed.

Lemma index_of_notin c h x : ~ In c h -> index_of c (h ++ c :: x) = length h.
Proof.
  induction h as [|c' t IH]; intros Hn; cbn [app index_of length].
  - rewrite col_eqb_refl. reflexivity.
  - rewrite col_eqb_neq; [f_equal; apply IH; intros H; apply Hn; right; exact H|].
    intros ->. apply Hn. left. reflexivity.
Qed.

Lemma cell_at_ext_old h c r x : In c h -> length r = length h -> cell_at (h ++ [CPareto]) c (r ++ [x]) = cell_at h c r.
Proof.
  intros Hin Hl. unfold cell_at. rewrite index_of_app by exact Hin. apply app_nth1. rewrite Hl. apply index_of_lt. exact Hin.
Qed.

Lemma cell_at_ext_new h r x : ~ In CPareto h -> length r = length h -> cell_at (h ++ [CPareto]) CPareto (r ++ [x]) = x.
Proof.
  intros Hn Hl. unfold cell_at. rewrite index_of_notin by exact Hn. rewrite <- Hl. rewrite app_nth2 by lia.
  rewrite Nat.sub_diag. reflexivity.
Qed.

Lemma objcols_ext h : objcols (h ++ [CPareto]) = objcols h.
Proof. unfold objcols. rewrite filter_app. cbn [filter is_objcol]. apply app_nil_r. Qed.

Lemma objcols_incl h c : In c (objcols h) -> In c h.
Proof. unfold objcols. intros H. apply filter_In in H. tauto. Qed.

Lemma row_failed_ext h r x : length r = length h -> row_failed (h ++ [CPareto]) (r ++ [x]) = row_failed h r.
Proof.
  intros Hl. unfold row_failed. rewrite objcols_ext. destruct (objcols h) as [|c t] eqn:E; [reflexivity|].
  rewrite cell_at_ext_old; [reflexivity| |exact Hl]. apply objcols_incl. rewrite E. left. reflexivity.
Qed.

Lemma traverse_ext {A B} (f g : A -> option B) l : (forall x, In x l -> f x = g x) -> traverse f l = traverse g l.
Proof.
  induction l as [|a t IH]; intros H; cbn [traverse]; [reflexivity|].
  rewrite (H a) by (left; reflexivity). rewrite IH; [reflexivity|]. intros x Hx. apply H. right. exact Hx.
Qed.

Lemma row_vec_ext h r x : length r = length h -> row_vec (h ++ [CPareto]) (r ++ [x]) = row_vec h r.
Proof.
  intros Hl. unfold row_vec. rewrite objcols_ext. apply traverse_ext. intros c Hc.
  rewrite cell_at_ext_old; [reflexivity|apply objcols_incl; exact Hc|exact Hl].
Qed.

(* ---------- assign ---------- *)
Definition ext (r : list cell) (b : bool) : list cell := r ++ [bcell b].

Lemma bcell_true_bit b : cell_eqb (bcell b) (bcell true) = b.
Proof. destruct b; reflexivity. Qed.

Lemma assign_spec h : ~ In CPareto h -> forall rows mask,
  (forall r, In r rows -> length r = length h) ->
  length mask = length (succ_rows h rows) ->
  let h' := h ++ [CPareto] in
  let rows' := assign h rows mask in
  Forall2 (fun r r' => exists b, r' = ext r b) rows rows'
  /\ (forall r', In r' rows' -> cell_at h' CPareto r' = bcell true \/ cell_at h' CPareto r' = bcell false)
  /\ (forall r', In r' rows' -> row_failed h' r' = true -> cell_at h' CPareto r' = bcell false)
  /\ traverse (row_vec h') (succ_rows h' rows') = traverse (row_vec h) (succ_rows h rows)
  /\ map (pareto_bit h') (succ_rows h' rows') = mask.
Proof.
  intros Hn. induction rows as [|r t IH]; intros mask Hlen Hm; cbn zeta.
  - cbn [assign succ_rows filter length] in *. destruct mask; [|discriminate].
    split; [constructor|]. split; [intros r' []|]. split; [intros r' []|]. split; reflexivity.
  - assert (Hr : length r = length h) by (apply Hlen; left; reflexivity).
    assert (Ht : forall r0, In r0 t -> length r0 = length h) by (intros r0 H0; apply Hlen; right; exact H0).
    cbn [assign]. unfold succ_rows in Hm. cbn [filter] in Hm. fold (succ_rows h t) in Hm.
    destruct (row_failed h r) eqn:Ef; cbn [negb] in Hm.
    + destruct (IH mask Ht Hm) as (I1 & I2 & I3 & I4 & I5). cbn zeta in *.
      assert (Hf' : row_failed (h ++ [CPareto]) (r ++ [bcell false]) = true) by (rewrite row_failed_ext; assumption).
      repeat split.
      * constructor; [exists false; reflexivity|exact I1].
      * intros r' [<-|Hin]; [right; apply cell_at_ext_new; assumption|apply I2; exact Hin].
      * intros r' [<-|Hin] Hfr; [apply cell_at_ext_new; assumption|apply I3; assumption].
      * unfold succ_rows. cbn [filter]. rewrite Hf', Ef. cbn [negb]. exact I4.
      * unfold succ_rows. cbn [filter]. rewrite Hf'. cbn [negb]. exact I5.
    + destruct mask as [|b mk]; [cbn [length] in Hm; discriminate|]. cbn [length] in Hm. injection Hm as Hm.
      destruct (IH mk Ht Hm) as (I1 & I2 & I3 & I4 & I5). cbn zeta in *.
      assert (Hf' : row_failed (h ++ [CPareto]) (r ++ [bcell b]) = false) by (rewrite row_failed_ext; assumption).
      assert (Hc : cell_at (h ++ [CPareto]) CPareto (r ++ [bcell b]) = bcell b) by (apply cell_at_ext_new; assumption).
      repeat split.
      * constructor; [exists b; reflexivity|exact I1].
      * intros r' [<-|Hin]; [rewrite Hc; destruct b; auto|apply I2; exact Hin].
      * intros r' [<-|Hin] Hfr; [congruence|apply I3; assumption].
      * unfold succ_rows. cbn [filter]. rewrite Hf', Ef. cbn [negb traverse].
        rewrite row_vec_ext by exact Hr. fold (succ_rows (h ++ [CPareto]) (assign h t mk)). fold (succ_rows h t).
        rewrite I4. reflexivity.
      * unfold succ_rows. cbn [filter]. rewrite Hf'. cbn [negb map]. fold (succ_rows (h ++ [CPareto]) (assign h t mk)).
        rewrite I5. unfold pareto_bit. rewrite Hc. rewrite bcell_true_bit. reflexivity.
Qed.

Lemma traverse_length {A B} (f : A -> option B) l ys : traverse f l = Some ys -> length ys = length l.
Proof.
  revert ys; induction l as [|a t IH]; intros ys H; cbn [traverse] in H.
  - injection H as <-. reflexivity.
  - destruct (f a); [|discriminate]. destruct (traverse f t) eqn:E; [|discriminate]. injection H as <-.
    cbn [length]. f_equal. apply IH. reflexivity.
Qed.

Lemma seq_head n : (1 <= n)%nat -> exists t, seq 0 n = 0%nat :: t.
Proof. destruct n as [|n']; [lia|]. intros _. exists (seq 1 n'). reflexivity. Qed.

(* ---------- a faithful multi-objective table goes through the Pareto pass ---------- *)
Section FaithfulPareto.
  Variable m : nat.
  Hypothesis Hm : (2 <= m)%nat.
  Variable j0 : job.
  Let h := header_of (Vec m) j0.

  Lemma in_objI i : (i < m)%nat -> In (CObjI i) h.
  Proof.
    intros Hi. unfold h, header_of. apply in_or_app; right. apply in_or_app; left. cbn [objcols_of].
    apply in_map. apply in_seq. lia.
  Qed.

  Lemma shows_failed j row : consistent (Vec m) j -> shows h j row -> row_failed h row = negb (is_tuple_job j).
  Proof.
    intros Hc Hs. unfold row_failed. unfold h at 1. rewrite objcols_header. cbn [objcols_of].
    destruct (seq_head m) as [t0 Ht0]; [lia|]. rewrite Ht0. cbn [map]. unfold shows in Hs. subst row.
    rewrite cell_at_map by (apply in_objI; lia). cbn [expected_cell]. unfold consistent in Hc. unfold is_tuple_job.
    destruct (objective_of j) as [[z| | |]|s|l|]; try contradiction; cbn [obji_cell obj_cell negb]; [reflexivity|].
    destruct l as [|z t]; [cbn in Hc; lia|reflexivity].
  Qed.

  Lemma traverse_objI (f : col -> option Z) l : forall s,
    (forall i z, nth_error l i = Some z -> f (CObjI (s + i)) = Some (- z)) ->
    traverse f (map CObjI (seq s (length l))) = Some (map Z.opp l).
  Proof.
    induction l as [|z t IH]; intros s H; cbn [length seq map traverse]; [reflexivity|].
    assert (E : f (CObjI s) = Some (- z)). { specialize (H 0%nat z eq_refl). rewrite Nat.add_0_r in H. exact H. }
    rewrite E. rewrite (IH (S s)); [reflexivity|]. intros i z' Hi. specialize (H (S i) z' Hi).
    replace (S s + i)%nat with (s + S i)%nat by lia. exact H.
  Qed.

  Lemma shows_vec j row l : objective_of j = OTup l -> length l = m -> shows h j row -> row_vec h row = Some (map Z.opp l).
  Proof.
    intros Ho Hl Hs. unfold row_vec. replace (objcols h) with (objcols_of (Vec m)) by (symmetry; apply objcols_header).
    cbn [objcols_of]. rewrite <- Hl at 1.
    apply traverse_objI. intros i z Hi. cbn [Nat.add]. unfold shows in Hs. subst row.
    assert (Hlt : (i < m)%nat). { rewrite <- Hl. apply nth_error_Some. congruence. }
    rewrite cell_at_map by (apply in_objI; exact Hlt). cbn [expected_cell]. rewrite Ho. cbn [obji_cell]. rewrite Hi. reflexivity.
  Qed.

  Lemma faithful_vecs jobs rows : Forall (consistent (Vec m)) jobs -> Forall2 (shows h) jobs rows ->
    exists pts, traverse (row_vec h) (succ_rows h rows) = Some pts /\ SameLen m pts.
  Proof.
    intros Hc HF. induction HF as [|j row jobs' rows' Hs HF IH].
    - exists []. split; [reflexivity|constructor].
    - inversion Hc as [|? ? Hcj Hct]; subst. destruct (IH Hct) as (pts & Hp & Hsl).
      unfold succ_rows. cbn [filter]. rewrite (shows_failed j row Hcj Hs).
      unfold is_tuple_job. pose proof Hcj as Hcj'. unfold consistent in Hcj'.
      destruct (objective_of j) as [[z| | |]|s|l|] eqn:Eo; try contradiction; cbn [negb].
      + exists pts. split; assumption.
      + exists (map Z.opp l :: pts). split.
        * cbn [traverse]. rewrite (shows_vec j row l Eo Hcj' Hs). fold (succ_rows h rows'). rewrite Hp. reflexivity.
        * constructor; [rewrite map_length; exact Hcj'|exact Hsl].
  Qed.
End FaithfulPareto.

(* ---------- the assembled statement ---------- *)
Lemma Forall2_imp {A B} (P Q : A -> B -> Prop) l l' : (forall a b, P a b -> Q a b) -> Forall2 P l l' -> Forall2 Q l l'.
Proof. intros H. induction 1; constructor; auto. Qed.

Lemma Forall2_In_r {A B} (P : A -> B -> Prop) l l' y : Forall2 P l l' -> In y l' -> exists x, In x l /\ P x y.
Proof.
  induction 1 as [|a b l l' Hab HF IH]; intros Hin; [contradiction|]. destruct Hin as [<-|Hin].
  - exists a. split; [left; reflexivity|exact Hab].
  - destruct (IH Hin) as (x & Hx & Hp). exists x. split; [right; exact Hx|exact Hp].
Qed.

Lemma shows_length h j row : shows h j row -> length row = length h.
Proof. unfold shows. intros ->. apply map_length. Qed.

Lemma shows_cells h j row : shows h j row -> CellsSpec h j row.
Proof.
  unfold shows, CellsSpec. intros ->. induction h as [|c t IH]; cbn [map]; constructor; [right; reflexivity|exact IH].
Qed.

Lemma pareto_spec_trivial h rows : (length (objcols h) <= 1)%nat -> ParetoSpec h rows.
Proof. intros H H2. lia. Qed.

Definition hdr_hyp_of (k : kind) (evs : list event) : Prop :=
  match k with Scalar => True | Vec _ => hdr_hyp [] evs = true end.

Theorem search_fixed_from_spec n0 evs :
  let jobs := all_jobs evs in
  let k := kind_of jobs in
  weakn k n0 ->
  ends_with_flush evs = true -> kind_wf k -> Forall (consistent k) jobs -> hdr_hyp_of k evs ->
  match search_fixed_from n0 evs with
  | NoTable => jobs = []
  | Raised => False
  | Table h rows =>
      TableSpec jobs h rows
      /\ Forall2 (CellsSpec h) jobs rows                       (* row i is the row of the i-th finished job *)
      /\ (exists j0, In j0 jobs /\ (h = header_of k j0 \/ h = header_of k j0 ++ [CPareto]))
  end.
Proof.
  intros jobs k Hn0 Hfl Hwf Hcons Hhyp. unfold search_fixed_from, final.
  pose proof (runF_n k Hwf n0 evs Hn0 Hhyp Hcons) as HI.
  destruct (run_complete_from infer_fixed n0 evs Hfl) as [Hpend _].
  remember (run_from infer_fixed n0 evs) as s0 eqn:Es0. clear Es0. destruct s0 as [st tbl]. unfold InvF in HI. cbn [fst snd] in *.
  destruct HI as [(Hs & Hc & Ht & Hp & Hn)|(Hs & h & j0 & Hc & Hh & Hj0 & Hhd & Hp & Hn & Hrows)].
  - subst tbl. cbn [fst]. fold jobs in Hp. rewrite <- Hp. exact Hpend.
  - fold jobs in Hj0, Hrows. rewrite Hh.
    assert (Hlen : forall r, In r (snd tbl) -> length r = length h).
    { intros r Hr. destruct (Forall2_In_r _ _ _ r Hrows Hr) as (j & _ & Hsj). exact (shows_length h j r Hsj). }
    unfold pareto_pass. cbn [fst snd]. subst h. rewrite objcols_header.
    destruct k as [|m] eqn:Ek; cbn [objcols_of length].
    + cbn [Nat.leb]. split; [|split].
      * split; [|split; [|split]].
        -- exists jobs. split; [apply Permutation_refl|]. eapply Forall2_imp; [|exact Hrows]. intros j r. apply shows_cells.
        -- apply header_has_id.
        -- exists j0, Scalar. split; [exact Hj0|]. split; [left; fold k; rewrite Ek; reflexivity|].
           split; [intros c Hc'; right; exact Hc'|intros c Hc'; exact Hc'].
        -- apply pareto_spec_trivial. rewrite objcols_header. cbn. lia.
      * eapply Forall2_imp; [|exact Hrows]. intros j r. apply shows_cells.
      * exists j0. split; [exact Hj0|left; reflexivity].
    + rewrite map_length, seq_length. cbn [kind_wf] in Hwf.
      destruct (m <=? 1)%nat eqn:El; [apply Nat.leb_le in El; lia|].
      destruct (faithful_vecs m Hwf j0 jobs (snd tbl) Hcons Hrows) as (pts & Hpts & Hsl).
      fold (succ_rows (header_of (Vec m) j0) (snd tbl)). rewrite Hpts.
      pose proof (header_no_pareto (Vec m) j0) as Hnp.
      assert (Hml : length (nds_mask pts) = length (succ_rows (header_of (Vec m) j0) (snd tbl))).
      { unfold nds_mask. rewrite first_occ_length. apply (traverse_length _ _ _ Hpts). }
      destruct (assign_spec _ Hnp (snd tbl) (nds_mask pts) Hlen Hml) as (A1 & A2 & A3 & A4 & A5). cbn zeta in *.
      assert (Hcells : Forall2 (CellsSpec (header_of (Vec m) j0 ++ [CPareto])) jobs
                               (assign (header_of (Vec m) j0) (snd tbl) (nds_mask pts))).
      { clear - Hrows A1. revert A1. generalize (assign (header_of (Vec m) j0) (snd tbl) (nds_mask pts)).
        induction Hrows as [|j r js rs Hjr Hrest IH]; intros rows' A1; inversion A1 as [|? r' ? rs' [b Hb] Hrest']; subst; constructor.
        - unfold ext, CellsSpec. apply Forall2_app; [apply shows_cells; exact Hjr|]. constructor; [left; reflexivity|constructor].
        - apply IH. exact Hrest'. }
      split; [|split].
      * split; [|split; [|split]].
        -- exists jobs. split; [apply Permutation_refl|exact Hcells].
        -- apply in_or_app. left. apply header_has_id.
        -- exists j0, (Vec m). split; [exact Hj0|]. split; [left; fold k; rewrite Ek; reflexivity|]. split.
           ++ intros c Hc'. apply in_app_or in Hc' as [Hc'|[<-|[]]]; [right; exact Hc'|left; reflexivity].
           ++ intros c Hc'. apply in_or_app. left. exact Hc'.
        -- intros _. split; [|split; [|split]].
           ++ apply in_or_app. right. left. reflexivity.
           ++ exact A2.
           ++ exact A3.
           ++ exists pts. split; [rewrite A4; exact Hpts|]. rewrite A5. apply (nds_mask_spec m). exact Hsl.
      * exact Hcells.
      * exists j0. split; [exact Hj0|right; reflexivity].
Qed.

Theorem search_fixed_spec evs :
  let jobs := all_jobs evs in
  let k := kind_of jobs in
  ends_with_flush evs = true -> kind_wf k -> Forall (consistent k) jobs -> hdr_hyp_of k evs ->
  match search_fixed evs with
  | NoTable => jobs = []
  | Raised => False
  | Table h rows =>
      TableSpec jobs h rows
      /\ Forall2 (CellsSpec h) jobs rows
      /\ (exists j0, In j0 jobs /\ (h = header_of k j0 \/ h = header_of k j0 ++ [CPareto]))
  end.
Proof. intros jobs k. apply (search_fixed_from_spec None evs). left. reflexivity. Qed.

(* the value of num_objective a run leaves behind is compatible with the kind of its jobs *)
Lemma nobj_after_weak n0 evs :
  let k := kind_of (all_jobs evs) in
  weakn k n0 -> kind_wf k -> Forall (consistent k) (all_jobs evs) -> hdr_hyp_of k evs ->
  weakn k (nobj (fst (run_from infer_fixed n0 evs))).
Proof.
  intros k Hn Hwf Hc Hh. apply (InvF_weak k (all_jobs evs)). apply runF_n; assumption.
Qed.
