(* C04: basic lemmas - equality tests, ordered dictionaries, the row of one job (mkresult) against the
   column-wise specification (expected_cell / header_of). *)
From Coq Require Import List ZArith Bool Arith Lia.
Import ListNotations.
Require Import DH.Common.VecOrd DH.C11_Pareto.Model DH.C04_Results.Model DH.C04_Results.Check.
Open Scope Z_scope.

(* ---------- equality tests ---------- *)
Lemma cell_eqb_eq a b : cell_eqb a b = true <-> a = b.
Proof.
  destruct a as [x|x|], b as [y|y|]; cbn [cell_eqb]; split; intros H; try discriminate; try reflexivity.
  - apply Z.eqb_eq in H. congruence.
  - injection H as ->. apply Z.eqb_refl.
  - apply Z.eqb_eq in H. congruence.
  - injection H as ->. apply Z.eqb_refl.
Qed.

Lemma col_eqb_eq a b : col_eqb a b = true <-> a = b.
Proof.
  destruct a as [x| |i| | |x| ], b as [y| |j| | |y| ]; cbn [col_eqb]; split; intros H; try discriminate; try reflexivity.
  - apply Z.eqb_eq in H. congruence.
  - injection H as ->. apply Z.eqb_refl.
  - apply Nat.eqb_eq in H. congruence.
  - injection H as ->. apply Nat.eqb_refl.
  - apply Z.eqb_eq in H. congruence.
  - injection H as ->. apply Z.eqb_refl.
Qed.

Lemma col_eqb_refl a : col_eqb a a = true.
Proof. apply col_eqb_eq. reflexivity. Qed.

Lemma col_eqb_neq a b : a <> b -> col_eqb a b = false.
Proof. intros H. destruct (col_eqb a b) eqn:E; [apply col_eqb_eq in E; contradiction|reflexivity]. Qed.

Lemma cmem_In c l : cmem c l = true <-> In c l.
Proof.
  unfold cmem. rewrite existsb_exists. split.
  - intros [x [Hx E]]. apply col_eqb_eq in E. subst. exact Hx.
  - intros H. exists c. split; [exact H|apply col_eqb_refl].
Qed.

(* ---------- association lists ---------- *)
Lemma alookup_app {K V} (eqb : K -> K -> bool) k (l1 l2 : list (K * V)) :
  alookup eqb k (l1 ++ l2) = match alookup eqb k l1 with Some v => Some v | None => alookup eqb k l2 end.
Proof.
  induction l1 as [|[k' v] t IH]; cbn [alookup app]; [reflexivity|].
  destruct (eqb k k'); [reflexivity|exact IH].
Qed.

Lemma alookup_none_notin (l : list (col * cell)) c :
  ~ In c (map fst l) -> alookup col_eqb c l = None.
Proof.
  induction l as [|[c' v] t IH]; cbn [alookup map fst In]; intros H; [reflexivity|].
  rewrite col_eqb_neq; [apply IH; tauto|]. intros ->. apply H. left. reflexivity.
Qed.

Lemma alookup_CP k (l : list (Z * cell)) :
  alookup col_eqb (CP k) (map (fun kv => (CP (fst kv), snd kv)) l) = alookup Z.eqb k l.
Proof.
  induction l as [|[k' v] t IH]; cbn [alookup map fst snd col_eqb]; [reflexivity|].
  destruct (k =? k'); [reflexivity|exact IH].
Qed.

Lemma alookup_CM k (l : list (Z * cell)) :
  alookup col_eqb (CM k) (map (fun kv => (CM (fst kv), snd kv)) l) = alookup Z.eqb k l.
Proof.
  induction l as [|[k' v] t IH]; cbn [alookup map fst snd col_eqb]; [reflexivity|].
  destruct (k =? k'); [reflexivity|exact IH].
Qed.

Definition isCP (c : col) : bool := match c with CP _ => true | _ => false end.
Definition isCM (c : col) : bool := match c with CM _ => true | _ => false end.

Lemma alookup_CPmap_other c (l : list (Z * cell)) :
  isCP c = false -> alookup col_eqb c (map (fun kv => (CP (fst kv), snd kv)) l) = None.
Proof.
  intros H. induction l as [|[k' v] t IH]; cbn [alookup map fst snd]; [reflexivity|].
  destruct c; cbn [col_eqb isCP] in *; try discriminate; exact IH.
Qed.

Lemma alookup_CMmap_other c (l : list (Z * cell)) :
  isCM c = false -> alookup col_eqb c (map (fun kv => (CM (fst kv), snd kv)) l) = None.
Proof.
  intros H. induction l as [|[k' v] t IH]; cbn [alookup map fst snd]; [reflexivity|].
  destruct c; cbn [col_eqb isCM] in *; try discriminate; exact IH.
Qed.

(* ---------- objective entries ---------- *)
Lemma tuple_entries_keys s l : map fst (tuple_entries s l) = map CObjI (seq s (length l)).
Proof.
  revert s; induction l as [|z t IH]; intros s; cbn [tuple_entries map fst length seq]; [reflexivity|].
  rewrite IH. reflexivity.
Qed.

Lemma tuple_entries_lookup s l i :
  alookup col_eqb (CObjI i) (tuple_entries s l) =
  if (s <=? i)%nat then option_map Num (nth_error l (i - s)) else None.
Proof.
  revert s; induction l as [|z t IH]; intros s; cbn [tuple_entries alookup col_eqb].
  - destruct (s <=? i)%nat; [|reflexivity]. destruct (i - s)%nat; reflexivity.
  - destruct (Nat.eqb i s) eqn:E.
    + apply Nat.eqb_eq in E. subst. rewrite Nat.leb_refl, Nat.sub_diag. reflexivity.
    + apply Nat.eqb_neq in E. rewrite IH.
      destruct (Nat.leb_spec s i) as [H1|H1], (Nat.leb_spec (S s) i) as [H2|H2]; try lia; [|reflexivity].
      replace (i - s)%nat with (S (i - S s)) by lia. reflexivity.
Qed.

Lemma tuple_entries_other s l c :
  (forall i, c <> CObjI i) -> alookup col_eqb c (tuple_entries s l) = None.
Proof.
  intros H. apply alookup_none_notin. rewrite tuple_entries_keys. intros Hin.
  apply in_map_iff in Hin as [i [E _]]. exact (H i (eq_sym E)).
Qed.

Lemma rep_lookup (c : cell) s m i :
  alookup col_eqb (CObjI i) (map (fun i => (CObjI i, c)) (seq s m)) =
  if ((s <=? i) && (i <? s + m))%nat then Some c else None.
Proof.
  revert s; induction m as [|m IH]; intros s; cbn [seq map alookup col_eqb].
  - destruct (Nat.leb_spec s i) as [H1|H1], (Nat.ltb_spec i (s + 0)) as [H2|H2]; cbn [andb]; try reflexivity; lia.
  - destruct (Nat.eqb i s) eqn:E.
    + apply Nat.eqb_eq in E. subst. rewrite Nat.leb_refl. cbn [andb].
      destruct (Nat.ltb_spec s (s + S m)) as [H2|H2]; [reflexivity|lia].
    + apply Nat.eqb_neq in E. rewrite IH.
      destruct (Nat.leb_spec (S s) i) as [H1|H1], (Nat.leb_spec s i) as [H2|H2], (Nat.ltb_spec i (S s + m)) as [H3|H3],
        (Nat.ltb_spec i (s + S m)) as [H4|H4]; cbn [andb]; try reflexivity; lia.
Qed.

Lemma rep_keys (c : cell) s m : map fst (map (fun i => (CObjI i, c)) (seq s m)) = map CObjI (seq s m).
Proof. rewrite map_map. reflexivity. Qed.

(* ---------- kinds ---------- *)
Definition kind_wf (k : kind) : Prop := match k with Scalar => True | Vec m => (2 <= m)%nat end.

(* the value of num_objective a row must be built with *)
Definition okn (k : kind) (n : option nat) : Prop :=
  match k with Scalar => n = None \/ n = Some 1%nat | Vec m => n = Some m end.
Definition weakn (k : kind) (n : option nat) : Prop := n = None \/ okn k n.

(* the objective (after _on_done) fits the kind of the search *)
Definition consistent (k : kind) (j : job) : Prop :=
  match objective_of j, k with
  | OStr _, _ => True
  | ONum (Fin _), Scalar => True
  | OTup l, Vec m => length l = m
  | _, _ => False
  end.

Definition col_ok (k : kind) (c : col) : Prop :=
  match k, c with
  | Scalar, CObjI _ => False
  | Vec _, CObj => False
  | Vec m, CObjI i => (i < m)%nat
  | _, _ => True
  end.

Lemma obj_entries_keys k n j : kind_wf k -> okn k n -> consistent k j ->
  map fst (obj_entries n (objective_of j)) = objcols_of k.
Proof.
  unfold consistent, okn, kind_wf. intros Hwf Hn Hc.
  destruct (objective_of j) as [[z| | |]|s|l|], k as [|m]; try contradiction; cbn [obj_entries objcols_of].
  - destruct Hn as [->| ->]; reflexivity.
  - destruct Hn as [->| ->]; reflexivity.
  - subst n. cbn [scalar_entries]. destruct (1 <? m)%nat eqn:E; [apply rep_keys|]. apply Nat.ltb_ge in E. lia.
  - rewrite tuple_entries_keys. rewrite Hc. reflexivity.
Qed.

Lemma obj_entries_only_obj n o c : is_objcol c = false -> alookup col_eqb c (obj_entries n o) = None.
Proof.
  intros H. apply alookup_none_notin. intros Hin.
  assert (Hall : forall x, In x (map fst (obj_entries n o)) -> is_objcol x = true).
  { intros x Hx. destruct o as [[z| | |]|s|l|]; cbn [obj_entries] in Hx;
      try (rewrite tuple_entries_keys in Hx; apply in_map_iff in Hx as [i [<- _]]; reflexivity);
      unfold scalar_entries in Hx; destruct n as [m|];
      try (destruct (1 <? m)%nat; [rewrite rep_keys in Hx; apply in_map_iff in Hx as [i [<- _]]; reflexivity|]);
      cbn in Hx; destruct Hx as [<-|[]]; reflexivity. }
  apply Hall in Hin. congruence.
Qed.

(* ---------- the row of one job, column by column ---------- *)
Lemma lookup_CP n j k : alookup col_eqb (CP k) (mkresult n j) =
  alookup Z.eqb k (jargs j).
Proof.
  unfold mkresult. rewrite alookup_app, alookup_CP. destruct (alookup Z.eqb k (jargs j)); [reflexivity|].
  rewrite alookup_app, obj_entries_only_obj by reflexivity.
  rewrite alookup_app. cbn [alookup col_eqb]. apply alookup_CMmap_other. reflexivity.
Qed.

Lemma lookup_CId n j : alookup col_eqb CId (mkresult n j) = Some (Num (jid j)).
Proof.
  unfold mkresult. rewrite alookup_app, alookup_CPmap_other by reflexivity.
  rewrite alookup_app, obj_entries_only_obj by reflexivity. reflexivity.
Qed.

Lemma lookup_CStatus n j : alookup col_eqb CStatus (mkresult n j) = Some (Str (jstatus j)).
Proof.
  unfold mkresult. rewrite alookup_app, alookup_CPmap_other by reflexivity.
  rewrite alookup_app, obj_entries_only_obj by reflexivity. reflexivity.
Qed.

Lemma lookup_CM n j k : alookup col_eqb (CM k) (mkresult n j) = alookup Z.eqb k (pub_md j).
Proof.
  unfold mkresult. rewrite alookup_app, alookup_CPmap_other by reflexivity.
  rewrite alookup_app, obj_entries_only_obj by reflexivity.
  rewrite alookup_app. cbn [alookup col_eqb]. apply alookup_CM.
Qed.

Lemma lookup_CPareto n j : alookup col_eqb CPareto (mkresult n j) = None.
Proof.
  unfold mkresult. rewrite alookup_app, alookup_CPmap_other by reflexivity.
  rewrite alookup_app, obj_entries_only_obj by reflexivity.
  rewrite alookup_app. cbn [alookup col_eqb]. apply alookup_CMmap_other. reflexivity.
Qed.

Lemma lookup_obj n j c : is_objcol c = true ->
  alookup col_eqb c (mkresult n j) = alookup col_eqb c (obj_entries n (objective_of j)).
Proof.
  intros H. unfold mkresult. rewrite alookup_app, alookup_CPmap_other by (destruct c; try discriminate; reflexivity).
  rewrite alookup_app. destruct (alookup col_eqb c (obj_entries n (objective_of j))); [reflexivity|].
  rewrite alookup_app. destruct c; try discriminate; cbn [alookup col_eqb]; apply alookup_CMmap_other; reflexivity.
Qed.

Lemma lookup_expected k n j c : kind_wf k -> okn k n -> consistent k j -> col_ok k c ->
  odflt (alookup col_eqb c (mkresult n j)) = expected_cell c j.
Proof.
  intros Hwf Hn Hc Hcol. destruct c as [p| |i| | |p| ]; cbn [expected_cell].
  - rewrite lookup_CP. reflexivity.
  - rewrite lookup_obj by reflexivity. unfold consistent, okn, col_ok in *.
    destruct k as [|m]; [|contradiction].
    destruct (objective_of j) as [[z| | |]|s|l|]; try contradiction; cbn [obj_entries obj_cell];
      destruct Hn as [->| ->]; reflexivity.
  - rewrite lookup_obj by reflexivity. unfold consistent, okn, col_ok, kind_wf in *.
    destruct k as [|m]; [contradiction|]. subst n.
    destruct (objective_of j) as [[z| | |]|s|l|]; try contradiction; cbn [obj_entries obji_cell obj_cell scalar_entries].
    + destruct (1 <? m)%nat eqn:E; [|apply Nat.ltb_ge in E; lia]. rewrite rep_lookup. cbn [Nat.leb andb].
      destruct (i <? 0 + m)%nat eqn:E2; [reflexivity|]. apply Nat.ltb_ge in E2. lia.
    + rewrite tuple_entries_lookup. cbn [Nat.leb]. rewrite Nat.sub_0_r.
      destruct (nth_error l i); reflexivity.
  - rewrite lookup_CId. reflexivity.
  - rewrite lookup_CStatus. reflexivity.
  - rewrite lookup_CM. reflexivity.
  - rewrite lookup_CPareto. reflexivity.
Qed.

Lemma mkresult_keys k n j : kind_wf k -> okn k n -> consistent k j ->
  map fst (mkresult n j) = header_of k j.
Proof.
  intros Hwf Hn Hc. unfold mkresult, header_of. rewrite !map_app, !map_map. cbn [map fst].
  rewrite (obj_entries_keys k n j Hwf Hn Hc). reflexivity.
Qed.

Lemma header_cols_ok k j : Forall (col_ok k) (header_of k j).
Proof.
  unfold header_of. rewrite !Forall_app. repeat split.
  - apply Forall_forall. intros c Hc. apply in_map_iff in Hc as [kv [<- _]]. destruct k; exact I.
  - destruct k as [|m]; cbn [objcols_of].
    + constructor; [exact I|constructor].
    + apply Forall_forall. intros c Hc. apply in_map_iff in Hc as [i [<- Hi]]. apply in_seq in Hi. cbn [col_ok]. lia.
  - destruct k; repeat constructor.
  - apply Forall_forall. intros c Hc. apply in_map_iff in Hc as [kv [<- _]]. destruct k; exact I.
Qed.

Lemma header_has_id k j : In CId (header_of k j).
Proof. unfold header_of. apply in_or_app; right. apply in_or_app; right. left. reflexivity. Qed.

Lemma mkresult_has_id n j : In CId (map fst (mkresult n j)).
Proof.
  unfold mkresult. rewrite !map_app. apply in_or_app; right. apply in_or_app; right. apply in_or_app; left. left. reflexivity.
Qed.

(* the row of job j under the header defined by job j0 shows, column by column, what j returned *)
Lemma project_expected k n j j0 : kind_wf k -> okn k n -> consistent k j ->
  project (header_of k j0) (mkresult n j) = map (fun c => expected_cell c j) (header_of k j0).
Proof.
  intros Hwf Hn Hc. unfold project. apply map_ext_in. intros c Hin.
  apply (lookup_expected k n j c Hwf Hn Hc).
  pose proof (header_cols_ok k j0) as HF. rewrite Forall_forall in HF. apply HF. exact Hin.
Qed.

(* ---------- positional access ---------- *)
Lemma cell_at_map (f : col -> cell) h c : In c h -> cell_at h c (map f h) = f c.
Proof.
  unfold cell_at. induction h as [|c' t IH]; intros Hin; [contradiction|].
  cbn [index_of map]. destruct (col_eqb c c') eqn:E.
  - apply col_eqb_eq in E. subst. reflexivity.
  - cbn [nth]. apply IH. destruct Hin as [->|Hin]; [rewrite col_eqb_refl in E; discriminate|exact Hin].
Qed.

Lemma cell_at_project h c r : In c h -> cell_at h c (project h r) = odflt (alookup col_eqb c r).
Proof. intros H. unfold project. apply (cell_at_map (fun c => odflt (alookup col_eqb c r))). exact H. Qed.

Lemma cell_at_Forall2 (P : col -> cell -> Prop) h row c :
  Forall2 P h row -> In c h -> P c (cell_at h c row).
Proof.
  unfold cell_at. intros HF. induction HF as [|c' v h' row' Hcv HF IH]; intros Hin; [contradiction|].
  cbn [index_of]. destruct (col_eqb c c') eqn:E.
  - apply col_eqb_eq in E. subst. exact Hcv.
  - cbn [nth]. apply IH. destruct Hin as [->|Hin]; [rewrite col_eqb_refl in E; discriminate|exact Hin].
Qed.

(* ---------- success test ---------- *)
Lemma is_success_str n j s : objective_of j = OStr s -> is_success (mkresult n j) = false.
Proof.
  intros H. unfold is_success. rewrite !lookup_obj by reflexivity. rewrite H. cbn [obj_entries].
  unfold scalar_entries. destruct n as [m|]; [destruct (1 <? m)%nat eqn:E|].
  - rewrite alookup_none_notin.
    + rewrite rep_lookup. destruct ((0 <=? 0) && (0 <? 0 + m))%nat; reflexivity.
    + rewrite rep_keys. intros Hin. apply in_map_iff in Hin as [i [Hi _]]. discriminate.
  - reflexivity.
  - reflexivity.
Qed.

Lemma is_success_tuple n j l : objective_of j = OTup l -> (1 <= length l)%nat -> is_success (mkresult n j) = true.
Proof.
  intros H Hl. unfold is_success. rewrite !lookup_obj by reflexivity. rewrite H. cbn [obj_entries].
  rewrite tuple_entries_lookup. cbn [Nat.leb Nat.sub]. destruct l as [|z t]; [cbn in Hl; lia|].
  cbn [nth_error option_map not_str]. apply orb_true_r.
Qed.
