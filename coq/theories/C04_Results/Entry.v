(* Entry points for the extracted driver: data -> data *)
From Coq Require Import List ZArith Bool.
Import ListNotations.
Require Import DH.Common.Data DH.C04_Results.Model DH.C04_Results.Check.
Open Scope Z_scope.

(* cell: (0 z) | (1 s) | (2) *)
Definition d_cell (d : data) : cell :=
  match dZ (dnth 0 d) with 0 => Num (dZ (dnth 1 d)) | 1 => Str (dZ (dnth 1 d)) | _ => Empty end.
Definition e_cell (c : cell) : data :=
  match c with Num z => L [I 0; I z] | Str s => L [I 1; I s] | Empty => L [I 2] end.

(* col: (0 k) p:k | (1) objective | (2 i) objective_i | (3) job_id | (4) job_status | (5 k) m:k | (6) pareto_efficient *)
Definition d_col (d : data) : col :=
  match dZ (dnth 0 d) with
  | 0 => CP (dZ (dnth 1 d)) | 1 => CObj | 2 => CObjI (dnat (dnth 1 d)) | 3 => CId | 4 => CStatus
  | 5 => CM (dZ (dnth 1 d)) | _ => CPareto
  end.
Definition e_col (c : col) : data :=
  match c with
  | CP k => L [I 0; I k] | CObj => L [I 1] | CObjI i => L [I 2; enat i] | CId => L [I 3] | CStatus => L [I 4]
  | CM k => L [I 5; I k] | CPareto => L [I 6]
  end.

Definition d_meta (d : data) : meta := dmap (dpair dZ d_cell) d.
(* fnum: (0 z) | (1) nan | (2) +inf | (3) -inf *)
Definition d_fnum (d : data) : fnum :=
  match dZ (dnth 0 d) with 0 => Fin (dZ (dnth 1 d)) | 1 => NaN | 2 => PInf | _ => NInf end.
(* robj: (0 fnum) | (1 s) | (2 (z ...)) | (3) a tuple with a non-finite member *)
Definition d_robj (d : data) : robj :=
  match dZ (dnth 0 d) with 0 => ONum (d_fnum (dnth 1 d)) | 1 => OStr (dZ (dnth 1 d)) | 2 => OTup (dmap dZ (dnth 1 d)) | _ => OBad end.
(* rplain: (0 robj) | (1 robj (meta)?) *)
Definition d_rplain (d : data) : rplain :=
  match dZ (dnth 0 d) with 0 => PObj (d_robj (dnth 1 d)) | _ => PDict (d_robj (dnth 1 d)) (dopt d_meta (dnth 2 d)) end.
(* rfout: (0 rplain) | (1 rplain meta) *)
Definition d_rfout (d : data) : rfout :=
  match dZ (dnth 0 d) with 0 => Plain (d_rplain (dnth 1 d)) | _ => Profiled (d_rplain (dnth 1 d)) (d_meta (dnth 2 d)) end.
(* job: (id args out status pre post) *)
Definition d_job (d : data) : job :=
  mkJob (dZ (dnth 0 d)) (d_meta (dnth 1 d)) (d_rfout (dnth 2 d)) (dZ (dnth 3 d)) (d_meta (dnth 4 d)) (d_meta (dnth 5 d)).
Definition d_event (d : data) : event := (dmap d_job (dnth 0 d), dbool (dnth 1 d)).

Definition e_rows (rows : list (list cell)) : data := elist (elist e_cell) rows.
(* outcome: (0) no table | (1) raised | (2 header rows) *)
Definition e_outcome (o : outcome) : data :=
  match o with NoTable => L [I 0] | Raised => L [I 1] | Table h rows => L [I 2; elist e_col h; e_rows rows] end.

Definition d_table (d : data) : list job * list col * list (list cell) :=
  (dmap d_job (dnth 0 d), dmap d_col (dnth 1 d), dmap (dmap d_cell) (dnth 2 d)).

Definition entries : list (Z * (data -> data)) :=
  [ (* 401: events -> table of the REPAIRED model *)
    (401, fun d => e_outcome (search_fixed (dmap d_event d)));
    (* 402: events -> table of the PINNED model *)
    (402, fun d => e_outcome (search_pinned (dmap d_event d)));
    (* 403: (jobs header rows) -> (ok clause bad_cells) : the oracle on the implementation's cell matrix *)
    (403, fun d => let '(jobs, h, rows) := d_table d in
                   L [ebool (ok_C04 jobs h rows); I (clause_C04 jobs h rows);
                      elist (epair enat enat) (bad_cells jobs h rows)]);
    (* 405: list of event lists (searches one after the other on ONE evaluator) -> tables of the REPAIRED model *)
    (405, fun d => elist e_outcome (searches_from infer_fixed None (dmap (dmap d_event) d)));
    (* 404: job -> (objective-kind standardized public metadata) for the report *)
    (404, fun d => let j := d_job d in elist (epair eZ e_cell) (pub_md j)) ].
