(* C04 - placeholder while the harness is being built *)
From Coq Require Import List ZArith Bool.
Import ListNotations.
Require Import DH.C04_Results.Model DH.C04_Results.Check.
Open Scope Z_scope.
Example C04_placeholder : tokF = 0. Proof. reflexivity. Qed.
