(* C04 - Results table is a faithful, complete record of the evaluations.  Property theorems only.

   An event list `evs : list (list job * bool)` is ANY batching of ANY sequence of finished jobs into gathers, each followed
   by one dump call with its flush flag (one or several search() calls: a call ends with a forced dump).
   `run infer evs` is the dump state and the file after these calls, `search_fixed evs` the table search() leaves
   (REPAIRED arity rule, fixes/F06), `search_pinned` the same with the arity rule of the pinned tree. *)
From Coq Require Import List ZArith Bool Arith Lia Permutation.
Import ListNotations.
Require Import DH.Common.VecOrd DH.C11_Pareto.Model DH.C11_Pareto.Check.
Require Import DH.C04_Results.Model DH.C04_Results.Check DH.C04_Results.Lemmas DH.C04_Results.Lemmas2 DH.C04_Results.Lemmas3
  DH.C04_Results.Lemmas4.
Open Scope Z_scope.

(* Exactly one row per finished evaluation, in completion order, nothing left pending after a forced dump.
   No hypothesis on the outputs; holds for every arity rule (pinned and repaired). *)
Theorem C04_one_row_per_job : forall infer evs, ends_with_flush evs = true ->
  let s := run infer evs in
  pending (fst s) = []
  /\ ((snd s = (None, []) /\ all_jobs evs = [])
      \/ exists h, fst (snd s) = Some h /\ In CId h
           /\ map (cell_at h CId) (snd (snd s)) = map (fun j => Num (jid j)) (all_jobs evs)).
Proof. exact one_row_per_job. Qed.
Print Assumptions C04_one_row_per_job.

(* hypotheses of the faithfulness clauses: the run ends with a forced dump; all successes have the arity of the search
   (scalars, or m-tuples with m >= 2); for a multi-objective search the first forced dump that finds pending evaluations
   finds a success among them or a success was dumped before (hdr_hyp; see C04_first_call_all_failed_refuted). *)
Definition C04_hyps (evs : list event) : Prop :=
  ends_with_flush evs = true
  /\ kind_wf (kind_of (all_jobs evs))
  /\ Forall (consistent (kind_of (all_jobs evs))) (all_jobs evs)
  /\ match kind_of (all_jobs evs) with Scalar => True | Vec _ => hdr_hyp [] evs = true end.

(* they hold for every single search() call *)
Theorem C04_single_call : forall evs new,
  forallb (fun e => negb (snd e)) evs = true ->
  let all := evs ++ [(new, true)] in
  kind_wf (kind_of (all_jobs all)) -> Forall (consistent (kind_of (all_jobs all))) (all_jobs all) -> C04_hyps all.
Proof. exact single_call_hyps. Qed.
Print Assumptions C04_single_call.

(* the i-th row shows, column by column, what the i-th finished job received and returned *)
Theorem C04_row_faithful : forall evs, C04_hyps evs ->
  match search_fixed evs with
  | NoTable => all_jobs evs = []
  | Raised => False
  | Table h rows =>
      Forall2 (fun j row => Forall2 (fun c v => c = CPareto \/ v = expected_cell c j) h row) (all_jobs evs) rows
  end.
Proof. exact row_faithful. Qed.
Print Assumptions C04_row_faithful.

(* objective / objective_0..objective_{m-1} exactly, and every failed row carries its label in each of them *)
Theorem C04_arity_columns : forall evs, C04_hyps evs ->
  match search_fixed evs with
  | NoTable => all_jobs evs = []
  | Raised => False
  | Table h rows =>
      objcols h = objcols_of (kind_of (all_jobs evs))
      /\ Forall2 (fun j row => forall s, objective_of j = OStr s -> forall c, In c (objcols h) -> cell_at h c row = Str s)
                 (all_jobs evs) rows
  end.
Proof. exact arity_columns. Qed.
Print Assumptions C04_arity_columns.

(* multi-objective: pareto_efficient is a boolean column, False on failed rows, and on the successful rows it selects
   exactly the non-dominated set (C11's NdsSpec) of the negated objective vectors *)
Theorem C04_pareto_exact : forall evs, C04_hyps evs ->
  match search_fixed evs with
  | NoTable => all_jobs evs = []
  | Raised => False
  | Table h rows => ParetoSpec h rows /\ forall m, kind_of (all_jobs evs) = Vec m -> length (objcols h) = m
  end.
Proof. exact pareto_exact. Qed.
Print Assumptions C04_pareto_exact.

(* the assembled statement: the model's table satisfies the specification the oracle decides *)
Theorem C04_table_spec : forall evs, C04_hyps evs ->
  match search_fixed evs with
  | NoTable => all_jobs evs = []
  | Raised => False
  | Table h rows => TableSpec (all_jobs evs) h rows
  end.
Proof. exact table_spec. Qed.
Print Assumptions C04_table_spec.

(* two Search objects, one after the other, on ONE evaluator (Search.__init__ resets the header state of the evaluator it is
   given, num_objective survives): both tables satisfy the specification when the two searches have the same arity *)
Theorem C04_reused_evaluator : forall evs1 evs2, C04_hyps evs1 -> C04_hyps evs2 ->
  kind_of (all_jobs evs1) = kind_of (all_jobs evs2) ->
  exists o1 o2, searches_from infer_fixed None [evs1; evs2] = [o1; o2]
    /\ outcome_spec (all_jobs evs1) o1 /\ outcome_spec (all_jobs evs2) o2.
Proof. exact reused_evaluator. Qed.
Print Assumptions C04_reused_evaluator.

(* the oracle applied to the implementation's cell matrix is sound for that specification ... *)
Theorem C04_oracle_sound : forall jobs h rows, ok_C04 jobs h rows = true -> TableSpec jobs h rows.
Proof. exact ok_C04_sound. Qed.
Print Assumptions C04_oracle_sound.

(* ... which entails: the job_id cells are a permutation of the finished jobs' ids *)
Theorem C04_spec_ids : forall jobs h rows, TableSpec jobs h rows ->
  Permutation (map (cell_at h CId) rows) (map (fun j => Num (jid j)) jobs).
Proof. exact table_ids. Qed.
Print Assumptions C04_spec_ids.

(* F06 - PINNED arity rule: a failure dumped before the first success of a two-objective search (a run that satisfies
   C04_hyps): the failed row has EMPTY objective cells, the oracle rejects the table, the Pareto step raises;
   the repaired rule gives a table the oracle accepts. *)
Theorem C04_failfirst_refuted :
  C04_hyps w_failfirst
  /\ search_pinned w_failfirst = Raised
  /\ snd (run infer_pinned w_failfirst) =
       (Some [CP 1; CObjI 0; CObjI 1; CId; CStatus], [[Num 5; Empty; Empty; Num 0; Str 9]; [Num 6; Num 1; Num 2; Num 1; Str 9]])
  /\ ok_C04 [wF; wT] [CP 1; CObjI 0; CObjI 1; CId; CStatus] (snd (snd (run infer_pinned w_failfirst))) = false
  /\ (exists h rows, search_fixed w_failfirst = Table h rows /\ ok_C04 [wF; wT] h rows = true).
Proof. exact failfirst_refuted. Qed.
Print Assumptions C04_failfirst_refuted.

(* F06b (open) - both rules: every evaluation of the FIRST search() call failed; the forced flush fixes the header with the
   single column `objective`; the success of the second call is written with an EMPTY objective cell. *)
Theorem C04_first_call_all_failed_refuted :
  ends_with_flush w_firstcall = true
  /\ kind_wf (kind_of (all_jobs w_firstcall)) /\ Forall (consistent (kind_of (all_jobs w_firstcall))) (all_jobs w_firstcall)
  /\ hdr_hyp [] w_firstcall = false
  /\ search_fixed w_firstcall = Table [CP 1; CObj; CId; CStatus] [[Num 5; Str 7; Num 0; Str 9]; [Num 6; Empty; Num 1; Str 9]]
  /\ search_pinned w_firstcall = search_fixed w_firstcall
  /\ ok_C04 [wF; wT] [CP 1; CObj; CId; CStatus] [[Num 5; Str 7; Num 0; Str 9]; [Num 6; Empty; Num 1; Str 9]] = false.
Proof. exact first_call_all_failed_refuted. Qed.
Print Assumptions C04_first_call_all_failed_refuted.

(* a tuple with a non-finite member (OBad) is a failure: its row carries the failure marker in every objective column *)
Example C04_example_nonfinite_member :
  search_fixed [([mkJob 2 [(1, Num 7)] (Plain (PDict OBad None)) 9 [] []; wT], true)] =
  Table [CP 1; CObjI 0; CObjI 1; CId; CStatus; CPareto]
        [[Num 7; Str tokF; Str tokF; Num 2; Str 9; Str tokFalse]; [Num 6; Num 1; Num 2; Num 1; Str 9; Str tokTrue]].
Proof. vm_compute. reflexivity. Qed.

(* non-vacuity: a two-call, three-objective-free run with metadata, private keys, a NaN scalar, both dict forms *)
Definition ex_a : job := mkJob 0 [(1, Num 3)] (Plain (PObj (ONum NaN))) 9 [(10, Str 4)] [(11, Str 4)].
Definition ex_b : job :=
  mkJob 8 [(1, Num 4)] (Profiled (PDict (OTup [2; 2]) (Some [(20, Num 7); (-1, Num 1)])) [(21, Str 5); (20, Num 6)]) 9 [(10, Str 4)] [(11, Str 4)].
Definition ex_c : job := mkJob 16 [(1, Num 5)] (Plain (PDict (OTup [1; 3]) None)) 9 [(10, Str 4)] [(11, Str 4)].
Definition ex_d : job := mkJob 24 [(1, Num 5)] (Plain (PObj (OTup [2; 2]))) 9 [(10, Str 4)] [(11, Str 4)].
Definition ex_evs : list event := [([ex_a], false); ([ex_b; ex_c], false); ([], true); ([ex_d], false); ([], true)].

Example C04_example :
  C04_hyps ex_evs
  /\ search_fixed ex_evs =
     Table [CP 1; CObjI 0; CObjI 1; CId; CStatus; CM 10; CM 21; CM 20; CM 11; CPareto]
       [ [Num 3; Str 0; Str 0; Num 0; Str 9; Str 4; Empty; Empty; Str 4; Str 2];
         [Num 4; Num 2; Num 2; Num 8; Str 9; Str 4; Str 5; Num 7; Str 4; Str 1];
         [Num 5; Num 1; Num 3; Num 16; Str 9; Str 4; Empty; Empty; Str 4; Str 1];
         [Num 5; Num 2; Num 2; Num 24; Str 9; Str 4; Empty; Empty; Str 4; Str 2] ]
  /\ ok_C04 [ex_a; ex_b; ex_c; ex_d] [CP 1; CObjI 0; CObjI 1; CId; CStatus; CM 10; CM 21; CM 20; CM 11; CPareto]
       [ [Num 3; Str 0; Str 0; Num 0; Str 9; Str 4; Empty; Empty; Str 4; Str 2];
         [Num 4; Num 2; Num 2; Num 8; Str 9; Str 4; Str 5; Num 7; Str 4; Str 1];
         [Num 5; Num 1; Num 3; Num 16; Str 9; Str 4; Empty; Empty; Str 4; Str 1];
         [Num 5; Num 2; Num 2; Num 24; Str 9; Str 4; Empty; Empty; Str 4; Str 2] ] = true.
Proof. vm_compute. repeat split; try lia; repeat constructor. Qed.
