(* C04 - Results table is a faithful, complete record of the evaluations.

   Model of (pinned tree df03838 + fixes up to 5f31b5a, and of the repair fixes/F06_*.patch):
     deephyper.evaluator._job.HPOJob.standardize_output / set_output
     deephyper.evaluator._evaluator.Evaluator._on_done            (non-finite scalar objective -> "F")
     deephyper.evaluator._evaluator.Evaluator._dump_jobs_done_to_csv_as_hpo_format
     deephyper.hpo._search.Search.search (tail) / extend_results_with_pareto_efficient_indicator

   Executable definitions only; proofs are in Lemmas*.v.

   Conventions (no strings in extracted code):
   * every text (column name parts, metadata keys, failure labels, status names, string values) is an integer
     token assigned by the harness; three tokens are fixed: tokF (text of Evaluator.FAIL_RETURN_VALUE),
     tokTrue / tokFalse (the texts pandas writes for booleans);
   * metadata keys whose text starts with "_" get NEGATIVE tokens (is_private);
   * every number of one case is an integer over ONE common power-of-two denominator chosen by the harness
     (binary64 values are dyadic), so a number is a Z and equality / order are those of Z. *)
From Coq Require Import List ZArith Bool Arith.
Import ListNotations.
Require Import DH.Common.VecOrd DH.C11_Pareto.Model.
Open Scope Z_scope.

Definition tokF : Z := 0.
Definition tokTrue : Z := 1.
Definition tokFalse : Z := 2.

(* what a run-function can return as a scalar number *)
Inductive fnum := Fin (z : Z) | NaN | PInf | NInf.

Inductive cell := Num (z : Z) | Str (s : Z) | Empty.

(* columns of the table:  p:<k> | objective | objective_<i> | job_id | job_status | m:<k> | pareto_efficient *)
Inductive col := CP (k : Z) | CObj | CObjI (i : nat) | CId | CStatus | CM (k : Z) | CPareto.

Definition cell_eqb (a b : cell) : bool :=
  match a, b with
  | Num x, Num y => x =? y
  | Str x, Str y => x =? y
  | Empty, Empty => true
  | _, _ => false
  end.

Definition col_eqb (a b : col) : bool :=
  match a, b with
  | CP x, CP y => x =? y
  | CObj, CObj => true
  | CObjI i, CObjI j => Nat.eqb i j
  | CId, CId => true
  | CStatus, CStatus => true
  | CM x, CM y => x =? y
  | CPareto, CPareto => true
  | _, _ => false
  end.

(* ---- ordered dictionaries (python dict: insertion order, update keeps the position of an existing key) ---- *)
Definition meta := list (Z * cell).

Fixpoint alookup {K V} (eqb : K -> K -> bool) (k : K) (l : list (K * V)) : option V :=
  match l with
  | [] => None
  | (k', v) :: t => if eqb k k' then Some v else alookup eqb k t
  end.

Definition odflt (o : option cell) : cell := match o with Some c => c | None => Empty end.

Fixpoint upd (d : meta) (k : Z) (v : cell) : meta :=
  match d with
  | [] => [(k, v)]
  | (k', v') :: t => if k =? k' then (k, v) :: t else (k', v') :: upd t k v
  end.

Definition update (d e : meta) : meta := fold_left (fun acc kv => upd acc (fst kv) (snd kv)) e d.

(* ---- return forms of the run-function ---- *)
(* the objective part: number | string | tuple or list of (finite) numbers *)
(* OBad: a tuple / list one of whose members is not finite (its members do not matter: _on_done turns it into "F") *)
Inductive robj := ONum (x : fnum) | OStr (s : Z) | OTup (l : list Z) | OBad.
(* x | "F.." | (x, y)   or   {"objective": .., "metadata"?: {..}} *)
Inductive rplain := PObj (o : robj) | PDict (o : robj) (md : option meta).
(* plain, or the profiled form {"output": <plain>, "metadata": {..}} *)
Inductive rfout := Plain (p : rplain) | Profiled (p : rplain) (md : meta).

Definition mdflt (o : option meta) : meta := match o with Some m => m | None => [] end.

(* HPOJob.standardize_output: (objective, metadata) *)
Definition standardize (o : rfout) : robj * meta :=
  match o with
  | Plain (PObj ob) => (ob, [])
  | Plain (PDict ob md) => (ob, update [] (mdflt md))
  | Profiled (PObj ob) md => (ob, update [] md)
  | Profiled (PDict ob md') md => (ob, update (update [] md) (mdflt md'))
  end.

(* Evaluator._on_done: a non-finite value, alone or as one member of a tuple / list, marks the evaluation as failed:
   the objective is rewritten to FAIL_RETURN_VALUE *)
Definition on_done (o : robj) : robj :=
  match o with
  | ONum (Fin z) => ONum (Fin z)
  | ONum _ => OStr tokF
  | OBad => OStr tokF
  | other => other
  end.

(* a finished job as the dump sees it.  jpre = job.metadata before set_output (timestamp_submit),
   jpost = what _on_done adds afterwards (timestamp_gather); their values are opaque tokens for the harness *)
Record job := mkJob { jid : Z; jargs : list (Z * cell); jout : rfout; jstatus : Z; jpre : meta; jpost : meta }.

Definition objective_of (j : job) : robj := on_done (fst (standardize (jout j))).
Definition job_metadata (j : job) : meta := update (update (jpre j) (snd (standardize (jout j)))) (jpost j).
Definition is_private (k : Z) : bool := k <? 0.
Definition pub_md (j : job) : meta := filter (fun kv => negb (is_private (fst kv))) (job_metadata j).

(* ---- one dictionary `result` per job (the loop body of the dump) ---- *)
Definition result := list (col * cell).

Definition scalar_entries (n : option nat) (c : cell) : result :=
  match n with
  | Some m => if (1 <? m)%nat then map (fun i => (CObjI i, c)) (seq 0 m) else [(CObj, c)]
  | None => [(CObj, c)]
  end.

Fixpoint tuple_entries (i : nat) (l : list Z) : result :=
  match l with
  | [] => []
  | z :: t => (CObjI i, Num z) :: tuple_entries (S i) t
  end.

Definition obj_entries (n : option nat) (o : robj) : result :=
  match o with
  | OTup l => tuple_entries 0 l
  | OStr s => scalar_entries n (Str s)
  | ONum (Fin z) => scalar_entries n (Num z)
  | ONum _ => scalar_entries n (Str tokF)      (* not reachable after on_done *)
  | OBad => scalar_entries n (Str tokF)        (* not reachable after on_done *)
  end.

Definition mkresult (n : option nat) (j : job) : result :=
  map (fun kv => (CP (fst kv), snd kv)) (jargs j)
  ++ obj_entries n (objective_of j)
  ++ [(CId, Num (jid j)); (CStatus, Str (jstatus j))]
  ++ map (fun kv => (CM (fst kv), snd kv)) (pub_md j).

(* "objective" in result and type(result["objective"]) is not str, or the same for "objective_0" *)
Definition not_str (o : option cell) : bool :=
  match o with Some (Str _) => false | Some _ => true | None => false end.
Definition is_success (r : result) : bool :=
  not_str (alookup col_eqb CObj r) || not_str (alookup col_eqb (CObjI 0) r).

(* csv.DictWriter(fp, columns, extrasaction="ignore"): missing key -> empty cell *)
Definition project (cs : list col) (r : result) : list cell :=
  map (fun c => odflt (alookup col_eqb c r)) cs.

(* ---- the objective arity `num_objective` ---- *)
Definition arity1 (j : job) : nat := match objective_of j with OTup l => length l | _ => 1%nat end.

(* PINNED code: set by the first job ever dumped, whatever it is (a failure string gives 1) *)
Definition infer_pinned (n : option nat) (p : list job) : option nat :=
  match n with
  | Some m => Some m
  | None => match p with [] => None | j :: _ => Some (arity1 j) end
  end.

(* REPAIRED code (fixes/F06): set by the first pending job whose objective is not a failure string *)
Fixpoint first_arity (p : list job) : option nat :=
  match p with
  | [] => None
  | j :: t => match objective_of j with OStr _ => first_arity t | _ => Some (arity1 j) end
  end.
Definition infer_fixed (n : option nat) (p : list job) : option nat :=
  match n with Some m => Some m | None => first_arity p end.

(* ---- dump state and one call of _dump_jobs_done_to_csv_as_hpo_format ---- *)
Record dstate := mkD { columns : option (list col); started : bool; nobj : option nat; pending : list job }.
Definition dinit : dstate := mkD None false None [].

(* what one call appends to the file: the header line (if written now) and the rows *)
Definition chunk := (option (list col) * list (list cell))%type.

Section Dump.
  Variable infer : option nat -> list job -> option nat.

  Definition dump (st : dstate) (flush : bool) : dstate * chunk :=
    match pending st with
    | [] => (st, (None, []))                                     (* resultsList empty: no file operation *)
    | _ =>
      let n := infer (nobj st) (pending st) in
      let results := map (mkresult n) (pending st) in
      let cols :=
        if started st then columns st
        else match find (fun r => is_success r || flush) results with
             | Some r => Some (map fst r)
             | None => columns st
             end in
      match cols with
      | None => (mkD None (started st) n (pending st), (None, []))        (* file opened and closed, nothing written *)
      | Some cs =>
        (mkD (Some cs) true n [],
         ((if started st then None else Some cs), map (project cs) results))
      end
    end.

  (* the file seen as a table *)
  Definition table := (option (list col) * list (list cell))%type.
  Definition tinit : table := (None, []).
  Definition append (t : table) (c : chunk) : table :=
    ((match fst c with Some h => Some h | None => fst t end), snd t ++ snd c).

  (* one event = a gather returning `new` finished jobs (appended to jobs_done) followed by a dump call *)
  Definition event := (list job * bool)%type.
  Definition step (s : dstate * table) (e : event) : dstate * table :=
    let st := fst s in
    let st1 := mkD (columns st) (started st) (nobj st) (pending st ++ fst e) in
    let r := dump st1 (snd e) in
    (fst r, append (snd s) (snd r)).
  Definition run (evs : list event) : dstate * table := fold_left step evs (dinit, tinit).
End Dump.

Definition all_jobs (evs : list event) : list job := concat (map fst evs).
Definition ends_with_flush (evs : list event) : bool :=
  match rev evs with (_, f) :: _ => f | [] => false end.

(* ---- end of search(): extend_results_with_pareto_efficient_indicator ---- *)
Definition is_objcol (c : col) : bool := match c with CObj | CObjI _ => true | _ => false end.
Definition objcols (h : list col) : list col := filter is_objcol h.

Fixpoint index_of (c : col) (h : list col) : nat :=
  match h with [] => O | c' :: t => if col_eqb c c' then O else S (index_of c t) end.
Definition cell_at (h : list col) (c : col) (row : list cell) : cell := nth (index_of c h) row Empty.

(* df[objective_columns[0]] is a string column and the cell starts with "F": every Str cell of an objective
   column is a failure label *)
Definition row_failed (h : list col) (row : list cell) : bool :=
  match objcols h with
  | [] => false
  | c :: _ => match cell_at h c row with Str _ => true | _ => false end
  end.

Fixpoint traverse {A B} (f : A -> option B) (l : list A) : option (list B) :=
  match l with
  | [] => Some []
  | x :: t => match f x, traverse f t with Some y, Some ys => Some (y :: ys) | _, _ => None end
  end.

(* -df[objective_columns].values.astype(float); None = a non-numeric cell (NaN: asarray_chkfinite raises) *)
Definition row_vec (h : list col) (row : list cell) : option vec :=
  traverse (fun c => match cell_at h c row with Num z => Some (- z) | _ => None end) (objcols h).

Definition vmem (v : vec) (l : list vec) : bool := existsb (veqb v) l.

(* the mask: first occurrence of every selected value *)
Fixpoint first_occ_mask (sel seen pts : list vec) : list bool :=
  match pts with
  | [] => []
  | p :: t => (vmem p sel && negb (vmem p seen)) :: first_occ_mask sel (p :: seen) t
  end.
Definition nds_mask (pts : list vec) : list bool := first_occ_mask (nds pts) [] pts.

Definition bcell (b : bool) : cell := Str (if b then tokTrue else tokFalse).

Fixpoint assign (h : list col) (rows : list (list cell)) (mask : list bool) : list (list cell) :=
  match rows with
  | [] => []
  | r :: t =>
    if row_failed h r then (r ++ [bcell false]) :: assign h t mask
    else match mask with
         | b :: m => (r ++ [bcell b]) :: assign h t m
         | [] => (r ++ [bcell false]) :: assign h t []
         end
  end.

(* None = the Pareto step raises (ValueError: array must not contain infs or NaNs) *)
Definition pareto_pass (t : list col * list (list cell)) : option (list col * list (list cell)) :=
  let h := fst t in
  let rows := snd t in
  if (length (objcols h) <=? 1)%nat then Some t
  else
    match traverse (row_vec h) (filter (fun r => negb (row_failed h r)) rows) with
    | None => None
    | Some pts => Some (h ++ [CPareto], assign h rows (nds_mask pts))
    end.

(* what search() leaves in results.csv / returns: NoTable = no file (search returns None), Raised = exception *)
Inductive outcome := NoTable | Raised | Table (h : list col) (rows : list (list cell)).

Definition final (t : table) : outcome :=
  match fst t with
  | None => NoTable
  | Some h => match pareto_pass (h, snd t) with Some (h', rows') => Table h' rows' | None => Raised end
  end.

(* A Search created with an evaluator that already served another search (Search.__init__ resets _columns_dumped and
   _start_dumping of the evaluator it is given; num_objective survives): the run starts with num_objective = n0 *)
Definition dstart (n0 : option nat) : dstate := mkD None false n0 [].
Definition run_from (infer : option nat -> list job -> option nat) (n0 : option nat) (evs : list event) : dstate * table :=
  fold_left (step infer) evs (dstart n0, tinit).
Definition search_fixed_from (n0 : option nat) (evs : list event) : outcome := final (snd (run_from infer_fixed n0 evs)).
(* several searches, one after the other, on ONE evaluator *)
Fixpoint searches_from (infer : option nat -> list job -> option nat) (n0 : option nat) (l : list (list event)) : list outcome :=
  match l with
  | [] => []
  | evs :: t => let r := run_from infer n0 evs in final (snd r) :: searches_from infer (nobj (fst r)) t
  end.

Definition search_fixed (evs : list event) : outcome := final (snd (run infer_fixed evs)).
Definition search_pinned (evs : list event) : outcome := final (snd (run infer_pinned evs)).
