(* C04: the specification of a faithful, complete results table (TableSpec) and the boolean oracle ok_C04 that is
   applied to the IMPLEMENTATION's cell matrix, with its soundness proof (ok_C04 = true -> TableSpec). *)
From Coq Require Import List ZArith Bool Arith Lia Permutation.
Import ListNotations.
Require Import DH.Common.VecOrd DH.C11_Pareto.Model DH.C11_Pareto.Check DH.C04_Results.Model.
Open Scope Z_scope.

(* ---------- what the table must show ---------- *)
Inductive kind := Scalar | Vec (m : nat).

Definition is_tuple_job (j : job) : bool := match objective_of j with OTup _ => true | _ => false end.
(* the arity of the search = the arity of the tuples its run-function returned (none: single objective) *)
Definition kind_of (jobs : list job) : kind :=
  match find is_tuple_job jobs with Some j => Vec (arity1 j) | None => Scalar end.

Definition objcols_of (k : kind) : list col :=
  match k with Scalar => [CObj] | Vec m => map CObjI (seq 0 m) end.

(* the header that job j defines: its arguments, the objective column(s), id, status, its public metadata keys *)
Definition header_of (k : kind) (j : job) : list col :=
  map (fun kv => CP (fst kv)) (jargs j) ++ objcols_of k ++ [CId; CStatus] ++ map (fun kv => CM (fst kv)) (pub_md j).

Definition obj_cell (o : robj) : cell :=
  match o with ONum (Fin z) => Num z | ONum _ => Str tokF | OStr s => Str s | OTup _ => Empty | OBad => Str tokF end.
Definition obji_cell (i : nat) (o : robj) : cell :=
  match o with
  | OTup l => match nth_error l i with Some z => Num z | None => Empty end
  | other => obj_cell other
  end.

(* the cell of column c in the row of job j *)
Definition expected_cell (c : col) (j : job) : cell :=
  match c with
  | CP k => odflt (alookup Z.eqb k (jargs j))
  | CObj => obj_cell (objective_of j)
  | CObjI i => obji_cell i (objective_of j)
  | CId => Num (jid j)
  | CStatus => Str (jstatus j)
  | CM k => odflt (alookup Z.eqb k (pub_md j))
  | CPareto => Empty
  end.

Definition CellsSpec (h : list col) (j : job) (row : list cell) : Prop :=
  Forall2 (fun c v => c = CPareto \/ v = expected_cell c j) h row.

(* the kind the header may have: the kind of the jobs; when EVERY job failed the table says nothing about the arity and an
   evaluator that learnt it from an earlier search on the same evaluator may replicate the labels into objective_0..m-1 *)
Definition is_str_job (j : job) : bool := match objective_of j with OStr _ => true | _ => false end.
Definition HKind (jobs : list job) (k : kind) : Prop :=
  k = kind_of jobs \/ (forallb is_str_job jobs = true /\ exists m, k = Vec m /\ (2 <= m)%nat).

Definition HeaderSpec (jobs : list job) (h : list col) : Prop :=
  exists j0 k, In j0 jobs /\ HKind jobs k
    /\ (forall c, In c h -> c = CPareto \/ In c (header_of k j0))
    /\ (forall c, In c (header_of k j0) -> In c h).

Definition succ_rows (h : list col) (rows : list (list cell)) : list (list cell) :=
  filter (fun r => negb (row_failed h r)) rows.
Definition pareto_bit (h : list col) (r : list cell) : bool := cell_eqb (cell_at h CPareto r) (bcell true).

Definition ParetoSpec (h : list col) (rows : list (list cell)) : Prop :=
  (2 <= length (objcols h))%nat ->
  In CPareto h
  /\ (forall r, In r rows -> cell_at h CPareto r = bcell true \/ cell_at h CPareto r = bcell false)
  /\ (forall r, In r rows -> row_failed h r = true -> cell_at h CPareto r = bcell false)
  /\ exists pts, traverse (row_vec h) (succ_rows h rows) = Some pts
       /\ NdsSpec pts (select (map (pareto_bit h) (succ_rows h rows)) pts).

Definition TableSpec (jobs : list job) (h : list col) (rows : list (list cell)) : Prop :=
  (exists pj, Permutation pj jobs /\ Forall2 (CellsSpec h) pj rows)
  /\ In CId h
  /\ HeaderSpec jobs h
  /\ ParetoSpec h rows.

(* ---------- the oracle ---------- *)
Definition cmem (c : col) (l : list col) : bool := existsb (col_eqb c) l.
Definition inclb (a b : list col) : bool := forallb (fun c => cmem c b) a.
Definition no_pareto (h : list col) : list col := filter (fun c => negb (col_eqb c CPareto)) h.

Definition ok_header_kind (k : kind) (jobs : list job) (h : list col) : bool :=
  existsb (fun j0 => inclb (no_pareto h) (header_of k j0) && inclb (header_of k j0) h) jobs.
Definition ok_header (jobs : list job) (h : list col) : bool :=
  ok_header_kind (kind_of jobs) jobs h
  || (forallb is_str_job jobs && (2 <=? length (objcols h))%nat && ok_header_kind (Vec (length (objcols h))) jobs h).

Definition find_job (id : cell) (jobs : list job) : option job :=
  find (fun j => cell_eqb id (Num (jid j))) jobs.

Fixpoint forallb2 {A B} (f : A -> B -> bool) (a : list A) (b : list B) : bool :=
  match a, b with
  | [], [] => true
  | x :: a', y :: b' => f x y && forallb2 f a' b'
  | _, _ => false
  end.

Definition ok_cells_of (h : list col) (j : job) (row : list cell) : bool :=
  forallb2 (fun c v => col_eqb c CPareto || cell_eqb v (expected_cell c j)) h row.

Definition ok_row (jobs : list job) (h : list col) (row : list cell) : bool :=
  match find_job (cell_at h CId row) jobs with
  | None => false
  | Some j => ok_cells_of h j row
  end.

Fixpoint cnodupb (l : list cell) : bool :=
  match l with [] => true | x :: t => negb (existsb (cell_eqb x) t) && cnodupb t end.

(* one row per finished job: as many rows as jobs, pairwise different job_id cells *)
Definition ok_ids (jobs : list job) (h : list col) (rows : list (list cell)) : bool :=
  cmem CId h && Nat.eqb (length rows) (length jobs) && cnodupb (map (cell_at h CId) rows).

Definition ok_cells (jobs : list job) (h : list col) (rows : list (list cell)) : bool :=
  forallb (ok_row jobs h) rows.

Definition is_boolcell (c : cell) : bool := cell_eqb c (bcell true) || cell_eqb c (bcell false).

Definition ok_pareto (h : list col) (rows : list (list cell)) : bool :=
  if (length (objcols h) <=? 1)%nat then true
  else
    cmem CPareto h
    && forallb (fun r => is_boolcell (cell_at h CPareto r)) rows
    && forallb (fun r => if row_failed h r then cell_eqb (cell_at h CPareto r) (bcell false) else true) rows
    && match traverse (row_vec h) (succ_rows h rows) with
       | None => false
       | Some pts => ok_nds pts (map (pareto_bit h) (succ_rows h rows))
       end.

Definition ok_C04 (jobs : list job) (h : list col) (rows : list (list cell)) : bool :=
  ok_ids jobs h rows && ok_cells jobs h rows && ok_header jobs h && ok_pareto h rows.

(* first failing clause, for the report: 0 = none, 1 ids, 2 cells, 3 header, 4 pareto *)
Definition clause_C04 (jobs : list job) (h : list col) (rows : list (list cell)) : Z :=
  if negb (ok_ids jobs h rows) then 1
  else if negb (ok_header jobs h) then 3
  else if negb (ok_cells jobs h rows) then 2
  else if negb (ok_pareto h rows) then 4
  else 0.

(* the cells that are not what they must be: (row index, column index), for the report *)
Fixpoint bad_in_row (i : nat) (k : nat) (j : job) (h : list col) (row : list cell) : list (nat * nat) :=
  match h, row with
  | c :: h', v :: row' =>
    (if col_eqb c CPareto || cell_eqb v (expected_cell c j) then [] else [(i, k)]) ++ bad_in_row i (S k) j h' row'
  | [], [] => []
  | _, _ => [(i, k)]
  end.
Fixpoint bad_cells_from (i : nat) (jobs : list job) (h : list col) (rows : list (list cell)) : list (nat * nat) :=
  match rows with
  | [] => []
  | r :: t =>
    (match find_job (cell_at h CId r) jobs with
     | None => [(i, index_of CId h)]
     | Some j => bad_in_row i 0 j h r
     end) ++ bad_cells_from (S i) jobs h t
  end.
Definition bad_cells := bad_cells_from 0.
