(* C04: invariants of the dump over ALL event sequences (all batchings into gathers / dumps).
   1. conservation (any arity rule): rows written + pending jobs = finished jobs, in order;
   2. faithfulness (repaired arity rule): every written row shows, column by column, what its job returned. *)
From Coq Require Import List ZArith Bool Arith Lia.
Import ListNotations.
Require Import DH.Common.VecOrd DH.C11_Pareto.Model DH.C04_Results.Model DH.C04_Results.Check DH.C04_Results.Lemmas.
Open Scope Z_scope.

(* ---------- one dump call, case by case ---------- *)
Section DumpCases.
  Variable infer : option nat -> list job -> option nat.

  Lemma dump_nil st fl : pending st = [] -> dump infer st fl = (st, (None, [])).
  Proof. intros H. unfold dump. rewrite H. reflexivity. Qed.

  Lemma dump_started st fl j t h : pending st = j :: t -> started st = true -> columns st = Some h ->
    let n := infer (nobj st) (pending st) in
    dump infer st fl = (mkD (Some h) true n [], (None, map (project h) (map (mkresult n) (pending st)))).
  Proof. intros Hp Hs Hc. unfold dump. rewrite Hp, Hs, Hc. reflexivity. Qed.

  Lemma dump_first st fl j t r : pending st = j :: t -> started st = false ->
    let n := infer (nobj st) (pending st) in
    find (fun r => is_success r || fl) (map (mkresult n) (pending st)) = Some r ->
    dump infer st fl = (mkD (Some (map fst r)) true n [],
                        (Some (map fst r), map (project (map fst r)) (map (mkresult n) (pending st)))).
  Proof. intros Hp Hs n Hf. unfold dump. subst n. revert Hf. rewrite Hp. intros Hf. rewrite Hs, Hf. reflexivity. Qed.

  Lemma dump_wait st fl j t : pending st = j :: t -> started st = false -> columns st = None ->
    let n := infer (nobj st) (pending st) in
    find (fun r => is_success r || fl) (map (mkresult n) (pending st)) = None ->
    dump infer st fl = (mkD None false n (pending st), (None, [])).
  Proof. intros Hp Hs Hc n Hf. unfold dump. subst n. revert Hf. rewrite Hp. intros Hf. rewrite Hs, Hc, Hf. reflexivity. Qed.
End DumpCases.

(* ---------- 1. conservation ---------- *)
Section Conservation.
  Variable infer : option nat -> list job -> option nat.

  Definition InvC (seen : list job) (s : dstate * table) : Prop :=
    (started (fst s) = false /\ columns (fst s) = None /\ snd s = (None, []) /\ pending (fst s) = seen)
    \/ (started (fst s) = true /\ exists h, columns (fst s) = Some h /\ fst (snd s) = Some h /\ In CId h
          /\ pending (fst s) = [] /\ map (cell_at h CId) (snd (snd s)) = map (fun j => Num (jid j)) seen).

  Lemma ids_of_rows h n (p : list job) : In CId h ->
    map (cell_at h CId) (map (project h) (map (mkresult n) p)) = map (fun j => Num (jid j)) p.
  Proof.
    intros Hin. rewrite !map_map. apply map_ext. intros j.
    rewrite cell_at_project by exact Hin. rewrite lookup_CId. reflexivity.
  Qed.

  Lemma stepC seen s new fl : InvC seen s -> InvC (seen ++ new) (step infer s (new, fl)).
  Proof.
    destruct s as [st tbl]. unfold InvC, step. cbn [fst snd].
    set (st1 := mkD (columns st) (started st) (nobj st) (pending st ++ new)).
    intros [(Hs & Hc & Ht & Hp)|(Hs & h & Hc & Hh & Hid & Hp & Hrows)].
    - subst tbl. destruct (pending st1) as [|j t] eqn:Ep.
      + rewrite (dump_nil infer st1 fl Ep). left. cbn [fst snd append app]. subst st1. cbn [pending started columns] in *.
        repeat split; try assumption. rewrite Hp. reflexivity.
      + set (n := infer (nobj st1) (pending st1)).
        destruct (find (fun r => is_success r || fl) (map (mkresult n) (pending st1))) as [r|] eqn:Ef.
        * rewrite (dump_first infer st1 fl j t r Ep Hs Ef). right. cbn [fst snd append app started columns pending].
          split; [reflexivity|]. exists (map fst r). fold n.
          assert (Hid : In CId (map fst r)).
          { apply find_some in Ef as [Hin _]. apply in_map_iff in Hin as [j0 [<- _]]. apply mkresult_has_id. }
          repeat split; try reflexivity; try exact Hid.
          rewrite (ids_of_rows _ _ _ Hid). subst st1. cbn [pending]. rewrite Hp. reflexivity.
        * rewrite (dump_wait infer st1 fl j t Ep Hs Hc Ef). left. cbn [fst snd append app started columns pending].
          repeat split; try reflexivity. subst st1. cbn [pending]. rewrite Hp. reflexivity.
    - destruct (pending st1) as [|j t] eqn:Ep.
      + rewrite (dump_nil infer st1 fl Ep). right. cbn [fst snd append]. subst st1. cbn [pending started columns] in *.
        split; [exact Hs|]. exists h. rewrite Hp in Ep. cbn [app] in Ep. subst new.
        rewrite !app_nil_r. repeat split; assumption.
      + rewrite (dump_started infer st1 fl j t h Ep Hs Hc). right. cbn [fst snd append started columns pending].
        split; [reflexivity|]. exists h. repeat split; try assumption; try reflexivity.
        rewrite !map_app. rewrite Hrows. rewrite (ids_of_rows _ _ _ Hid). subst st1. cbn [pending]. rewrite Hp. reflexivity.
  Qed.

  Lemma runC_from evs : forall seen s, InvC seen s -> InvC (seen ++ all_jobs evs) (fold_left (step infer) evs s).
  Proof.
    induction evs as [|[new fl] rest IH]; intros seen s H; cbn [fold_left all_jobs map concat fst].
    - rewrite app_nil_r. exact H.
    - fold (all_jobs rest). rewrite app_assoc. apply IH. apply stepC. exact H.
  Qed.

  Lemma runC evs : InvC (all_jobs evs) (run infer evs).
  Proof. apply (runC_from evs [] (dinit, tinit)). left. repeat split. Qed.

  (* a forced dump leaves nothing pending *)
  Lemma step_flush_empties seen s new : InvC seen s -> pending (fst (step infer s (new, true))) = [].
  Proof.
    destruct s as [st tbl]. unfold InvC, step. cbn [fst snd].
    set (st1 := mkD (columns st) (started st) (nobj st) (pending st ++ new)).
    intros [(Hs & Hc & Ht & Hp)|(Hs & h & Hc & Hh & Hid & Hp & Hrows)].
    - destruct (pending st1) as [|j t] eqn:Ep.
      + rewrite (dump_nil infer st1 true Ep). exact Ep.
      + set (n := infer (nobj st1) (pending st1)).
        destruct (find (fun r => is_success r || true) (map (mkresult n) (pending st1))) as [r|] eqn:Ef.
        * rewrite (dump_first infer st1 true j t r Ep Hs Ef). reflexivity.
        * exfalso. rewrite Ep in Ef. cbn [map find] in Ef. rewrite orb_true_r in Ef. discriminate.
    - destruct (pending st1) as [|j t] eqn:Ep.
      + rewrite (dump_nil infer st1 true Ep). exact Ep.
      + rewrite (dump_started infer st1 true j t h Ep Hs Hc). reflexivity.
  Qed.

  Lemma run_snoc evs e : run infer (evs ++ [e]) = step infer (run infer evs) e.
  Proof. unfold run. rewrite fold_left_app. reflexivity. Qed.

  Lemma runC_n n0 evs : InvC (all_jobs evs) (run_from infer n0 evs).
  Proof. apply (runC_from evs [] (dstart n0, tinit)). left. repeat split. Qed.

  Lemma ends_with_flush_inv evs : ends_with_flush evs = true -> exists evs' new, evs = evs' ++ [(new, true)].
  Proof.
    unfold ends_with_flush. intros H. destruct (rev evs) as [|[new f] t] eqn:E; [discriminate|]. subst f.
    exists (rev t), new. rewrite <- (rev_involutive evs), E. reflexivity.
  Qed.

  (* after a search() call (its last dump is forced) every finished job has its row *)
  Lemma run_complete_from n0 evs : ends_with_flush evs = true ->
    let s := run_from infer n0 evs in
    pending (fst s) = []
    /\ ((snd s = (None, []) /\ all_jobs evs = [])
        \/ exists h, fst (snd s) = Some h /\ In CId h
             /\ map (cell_at h CId) (snd (snd s)) = map (fun j => Num (jid j)) (all_jobs evs)).
  Proof.
    intros H. destruct (ends_with_flush_inv evs H) as (evs' & new & ->).
    cbn zeta. assert (Hp : pending (fst (run_from infer n0 (evs' ++ [(new, true)]))) = []).
    { unfold run_from. rewrite fold_left_app. cbn [fold_left]. apply (step_flush_empties (all_jobs evs')). apply runC_n. }
    split; [exact Hp|].
    destruct (runC_n n0 (evs' ++ [(new, true)])) as [(Hs & Hc & Ht & Hpp)|(Hs & h & Hc & Hh & Hid & Hpp & Hrows)].
    - left. split; [exact Ht|]. rewrite <- Hpp. exact Hp.
    - right. exists h. auto.
  Qed.

  Lemma run_complete evs : ends_with_flush evs = true ->
    let s := run infer evs in
    pending (fst s) = []
    /\ ((snd s = (None, []) /\ all_jobs evs = [])
        \/ exists h, fst (snd s) = Some h /\ In CId h
             /\ map (cell_at h CId) (snd (snd s)) = map (fun j => Num (jid j)) (all_jobs evs)).
  Proof. exact (run_complete_from None evs). Qed.
End Conservation.

(* ---------- 2. faithfulness of the repaired dump ---------- *)
Lemma first_arity_scalar p : Forall (consistent Scalar) p -> first_arity p = None \/ first_arity p = Some 1%nat.
Proof.
  induction 1 as [|j t Hj Ht IH]; cbn [first_arity]; [left; reflexivity|].
  unfold consistent in Hj. unfold arity1. destruct (objective_of j) as [[z| | |]|s|l|]; try contradiction; auto.
Qed.

Lemma first_arity_vec m p : Forall (consistent (Vec m)) p -> first_arity p = None \/ first_arity p = Some m.
Proof.
  induction 1 as [|j t Hj Ht IH]; cbn [first_arity]; [left; reflexivity|].
  unfold consistent in Hj. unfold arity1. destruct (objective_of j) as [[z| | |]|s|l|]; try contradiction; auto.
Qed.

Lemma first_arity_tuple m p : Forall (consistent (Vec m)) p -> existsb is_tuple_job p = true -> first_arity p = Some m.
Proof.
  induction 1 as [|j t Hj Ht IH]; cbn [first_arity existsb]; [discriminate|].
  unfold consistent in Hj. unfold is_tuple_job, arity1. destruct (objective_of j) as [[z| | |]|s|l|]; try contradiction; cbn [orb].
  - exact IH.
  - intros _. congruence.
Qed.

Lemma no_tuple_all_str m p : Forall (consistent (Vec m)) p -> existsb is_tuple_job p = false ->
  forall j, In j p -> exists s, objective_of j = OStr s.
Proof.
  intros HF He j Hin. rewrite Forall_forall in HF. specialize (HF j Hin).
  assert (Ht : is_tuple_job j = false).
  { destruct (is_tuple_job j) eqn:E; [|reflexivity].
    assert (existsb is_tuple_job p = true) by (apply existsb_exists; exists j; auto). congruence. }
  unfold consistent in HF. unfold is_tuple_job in Ht.
  destruct (objective_of j) as [[z| | |]|s|l|]; try contradiction; try discriminate. exists s. reflexivity.
Qed.

Lemma infer_weak k n p : weakn k n -> Forall (consistent k) p -> weakn k (infer_fixed n p).
Proof.
  intros Hn HF. unfold infer_fixed. destruct n as [m|]; [exact Hn|].
  destruct k as [|m].
  - destruct (first_arity_scalar p HF) as [->| ->]; [left; reflexivity|right; right; reflexivity].
  - destruct (first_arity_vec m p HF) as [->| ->]; [left; reflexivity|right; reflexivity].
Qed.

Lemma infer_scalar n p : weakn Scalar n -> Forall (consistent Scalar) p -> okn Scalar (infer_fixed n p).
Proof.
  intros Hn HF. destruct (infer_weak Scalar n p Hn HF) as [H|H]; [left; exact H|exact H].
Qed.

Lemma infer_vec m n p : weakn (Vec m) n -> Forall (consistent (Vec m)) p ->
  (n <> None \/ existsb is_tuple_job p = true) -> okn (Vec m) (infer_fixed n p).
Proof.
  intros Hn HF H. unfold infer_fixed. destruct n as [m'|].
  - destruct Hn as [Hn|Hn]; [discriminate|exact Hn].
  - destruct H as [H|H]; [congruence|]. cbn [okn]. apply first_arity_tuple; assumption.
Qed.

(* the first forced dump that finds pending evaluations finds a successful one among them, or a success came earlier:
   the hypothesis under which a multi-objective header is right (it is decided at that moment and never revised) *)
Fixpoint hdr_hyp (p : list job) (evs : list event) : bool :=
  match evs with
  | [] => true
  | (new, fl) :: rest =>
    if existsb is_tuple_job (p ++ new) then true
    else if fl then (match p ++ new with [] => hdr_hyp [] rest | _ => false end)
    else hdr_hyp (p ++ new) rest
  end.

Section Faithful.
  Variable k : kind.
  Hypothesis Hwf : kind_wf k.

  Definition shows (h : list col) (j : job) (row : list cell) : Prop := row = map (fun c => expected_cell c j) h.

  Definition InvF (seen : list job) (s : dstate * table) : Prop :=
    (started (fst s) = false /\ columns (fst s) = None /\ snd s = (None, []) /\ pending (fst s) = seen
       /\ weakn k (nobj (fst s)))
    \/ (started (fst s) = true /\ exists h j0, columns (fst s) = Some h /\ fst (snd s) = Some h /\ In j0 seen
          /\ h = header_of k j0 /\ pending (fst s) = [] /\ okn k (nobj (fst s))
          /\ Forall2 (shows h) seen (snd (snd s))).

  Definition hh (s : dstate * table) (evs : list event) : Prop :=
    match k with Scalar => True | Vec _ => started (fst s) = false -> hdr_hyp (pending (fst s)) evs = true end.

  Lemma rows_show n j0 p : okn k n -> Forall (consistent k) p ->
    Forall2 (shows (header_of k j0)) p (map (project (header_of k j0)) (map (mkresult n) p)).
  Proof.
    intros Hn HF. induction HF as [|j t Hj Ht IH]; cbn [map]; constructor; [|exact IH].
    unfold shows. apply (project_expected k n j j0 Hwf Hn Hj).
  Qed.

  Lemma stepF seen s new fl rest :
    InvF seen s -> hh s ((new, fl) :: rest) -> Forall (consistent k) seen -> Forall (consistent k) new ->
    InvF (seen ++ new) (step infer_fixed s (new, fl)) /\ hh (step infer_fixed s (new, fl)) rest.
  Proof.
    destruct s as [st tbl]. unfold InvF, step, hh. cbn [fst snd].
    set (st1 := mkD (columns st) (started st) (nobj st) (pending st ++ new)).
    intros [(Hs & Hc & Ht & Hp & Hn)|(Hs & h & j0 & Hc & Hh & Hj0 & Hhd & Hp & Hn & Hrows)] Hhh Hseen Hnew.
    - (* nothing written yet *)
      subst tbl. assert (Hcons : Forall (consistent k) (pending st1)).
      { subst st1. cbn [pending]. rewrite Hp. apply Forall_app. split; assumption. }
      destruct (pending st1) as [|j t] eqn:Ep.
      + rewrite (dump_nil infer_fixed st1 fl Ep). cbn [fst snd append app]. split.
        * left. subst st1. cbn [pending started columns nobj] in *. repeat split; try assumption. rewrite Hp. reflexivity.
        * destruct k as [|m]; [exact I|]. intros _. specialize (Hhh Hs). cbn [hdr_hyp] in Hhh.
          subst st1. cbn [pending] in *. rewrite Ep in Hhh. cbn [existsb] in Hhh. rewrite Ep. destruct fl; exact Hhh.
      + set (n := infer_fixed (nobj st1) (pending st1)).
        assert (Hnw : weakn k n). { apply infer_weak; [exact Hn|rewrite Ep; exact Hcons]. }
        destruct (find (fun r => is_success r || fl) (map (mkresult n) (pending st1))) as [r|] eqn:Ef.
        * (* the header is decided now *)
          rewrite (dump_first infer_fixed st1 fl j t r Ep Hs Ef). cbn [fst snd append app started columns pending nobj]. fold n.
          pose proof (find_some _ _ Ef) as [Hin Hpred]. apply in_map_iff in Hin as [j0 [Hr Hj0]].
          assert (Hcj0 : consistent k j0). { rewrite Forall_forall in Hcons. apply Hcons. rewrite <- Ep. exact Hj0. }
          assert (Hokn : okn k n).
          { destruct k as [|m] eqn:Ek.
            - apply infer_scalar; [exact Hn|rewrite Ep; exact Hcons].
            - destruct (existsb is_tuple_job (pending st1)) eqn:Et.
              + apply infer_vec; [exact Hn|rewrite Ep; exact Hcons|right; exact Et].
              + exfalso. rewrite Ep in Et.
                destruct (no_tuple_all_str m _ Hcons Et j0) as [s Hs0]; [rewrite <- Ep; exact Hj0|].
                rewrite <- Hr, (is_success_str n j0 s Hs0) in Hpred. cbn [orb] in Hpred. subst fl.
                specialize (Hhh Hs). cbn [hdr_hyp] in Hhh. subst st1. cbn [pending] in *. rewrite Ep in Hhh.
                rewrite Et in Hhh. discriminate. }
          split.
          -- right. split; [reflexivity|]. exists (header_of k j0), j0.
             assert (Hkeys : map fst r = header_of k j0). { rewrite <- Hr. apply (mkresult_keys k n j0 Hwf Hokn Hcj0). }
             rewrite Hkeys. repeat split; try reflexivity; try exact Hokn.
             ++ subst st1. cbn [pending] in *. rewrite <- Hp. exact Hj0.
             ++ subst st1. cbn [pending] in *. rewrite <- Hp. apply rows_show; [exact Hokn|]. rewrite Hp.
                apply Forall_app. split; assumption.
          -- destruct k; [exact I|]. cbn [started]. discriminate.
        * (* still waiting for a success *)
          rewrite (dump_wait infer_fixed st1 fl j t Ep Hs Hc Ef). cbn [fst snd append app started columns pending nobj]. fold n.
          split.
          -- left. repeat split; try reflexivity; try exact Hnw. subst st1. cbn [pending]. rewrite Hp. reflexivity.
          -- destruct k as [|m] eqn:Ek; [exact I|]. intros _. specialize (Hhh Hs). cbn [hdr_hyp] in Hhh.
             subst st1. cbn [pending] in *.
             destruct (existsb is_tuple_job (pending st ++ new)) eqn:Et.
             ++ exfalso. apply existsb_exists in Et as [jt [Hjt Htup]].
                pose proof (find_none _ _ Ef (mkresult n jt)) as Hnone.
                assert (Hin : In (mkresult n jt) (map (mkresult n) (pending st ++ new))) by (apply in_map; exact Hjt).
                specialize (Hnone Hin). apply orb_false_iff in Hnone as [Hnone _].
                rewrite Forall_forall in Hcons. rewrite <- Ep in Hcons. specialize (Hcons jt Hjt).
                unfold consistent in Hcons. unfold is_tuple_job in Htup.
                destruct (objective_of jt) as [x|x|l|] eqn:Eo; try discriminate.
                cbn [kind_wf] in Hwf. rewrite (is_success_tuple n jt l Eo) in Hnone; [discriminate|lia].
             ++ destruct fl.
                ** rewrite Ep in Hhh. discriminate.
                ** exact Hhh.
    - (* the header exists: rows are appended *)
      destruct (pending st1) as [|j t] eqn:Ep.
      + rewrite (dump_nil infer_fixed st1 fl Ep). cbn [fst snd append]. subst st1. cbn [pending started columns nobj] in *.
        rewrite Hp in Ep. cbn [app] in Ep. subst new. rewrite !app_nil_r. split.
        * right. split; [exact Hs|]. exists h, j0. repeat split; assumption.
        * destruct k; [exact I|]. intros Hf. congruence.
      + rewrite (dump_started infer_fixed st1 fl j t h Ep Hs Hc). cbn [fst snd append started columns pending nobj].
        assert (Hpn : pending st1 = new). { subst st1. cbn [pending]. rewrite Hp. reflexivity. }
        set (n := infer_fixed (nobj st1) (pending st1)).
        assert (Hokn : okn k n).
        { unfold n. subst st1. cbn [nobj pending]. destruct k as [|m] eqn:Ek.
          - apply infer_scalar; [right; exact Hn|]. rewrite Hp. exact Hnew.
          - cbn [okn] in Hn. rewrite Hn. reflexivity. }
        split.
        * right. split; [reflexivity|]. exists h, j0. repeat split; try assumption; try reflexivity.
          -- apply in_or_app. left. exact Hj0.
          -- apply Forall2_app; [exact Hrows|]. rewrite Hpn. subst h. apply rows_show; assumption.
        * destruct k; [exact I|]. cbn [started]. discriminate.
  Qed.

  Lemma runF_from evs : forall seen s, InvF seen s -> hh s evs -> Forall (consistent k) seen ->
    Forall (consistent k) (all_jobs evs) -> InvF (seen ++ all_jobs evs) (fold_left (step infer_fixed) evs s).
  Proof.
    induction evs as [|[new fl] rest IH]; intros seen s H Hh Hseen Hall; cbn [fold_left all_jobs map concat fst].
    - rewrite app_nil_r. exact H.
    - fold (all_jobs rest). cbn [all_jobs map concat fst] in Hall. fold (all_jobs rest) in Hall.
      apply Forall_app in Hall as [Hnew Hrest].
      destruct (stepF seen s new fl rest H Hh Hseen Hnew) as [H' Hh'].
      rewrite app_assoc. apply IH; try assumption. apply Forall_app. split; assumption.
  Qed.

  Lemma runF_n n0 evs : weakn k n0 -> (match k with Scalar => True | Vec _ => hdr_hyp [] evs = true end) ->
    Forall (consistent k) (all_jobs evs) -> InvF (all_jobs evs) (run_from infer_fixed n0 evs).
  Proof.
    intros Hn Hh Hall. apply (runF_from evs [] (dstart n0, tinit)); try assumption.
    - left. cbn. repeat split. exact Hn.
    - unfold hh. destruct k; [exact I|]. intros _. exact Hh.
    - constructor.
  Qed.

  Lemma runF evs : (match k with Scalar => True | Vec _ => hdr_hyp [] evs = true end) ->
    Forall (consistent k) (all_jobs evs) -> InvF (all_jobs evs) (run infer_fixed evs).
  Proof. apply (runF_n None). left. reflexivity. Qed.

  (* num_objective after a run is still compatible with the kind of the search: the next search on this evaluator may start *)
  Lemma InvF_weak seen s : InvF seen s -> weakn k (nobj (fst s)).
  Proof. intros [(_ & _ & _ & _ & H)|(_ & h & j0 & _ & _ & _ & _ & _ & H & _)]; [exact H|right; exact H]. Qed.
End Faithful.
