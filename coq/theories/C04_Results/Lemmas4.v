(* C04: soundness of the oracle (ok_C04 = true -> TableSpec), corollaries in the shape of the property's clauses,
   and the refutations (pinned arity rule; first call all failed). *)
From Coq Require Import List ZArith Bool Arith Lia Permutation.
Import ListNotations.
Require Import DH.Common.VecOrd DH.C11_Pareto.Model DH.C11_Pareto.Lemmas DH.C11_Pareto.Check.
Require Import DH.C04_Results.Model DH.C04_Results.Check DH.C04_Results.Lemmas DH.C04_Results.Lemmas2 DH.C04_Results.Lemmas3.
Open Scope Z_scope.

(* ---------- oracle soundness ---------- *)
Lemma forallb2_Forall2 {A B} (f : A -> B -> bool) (P : A -> B -> Prop) :
  (forall a b, f a b = true -> P a b) -> forall l l', forallb2 f l l' = true -> Forall2 P l l'.
Proof.
  intros Hf. induction l as [|a t IH]; intros [|b t'] H; cbn [forallb2] in H; try discriminate; constructor.
  - apply Hf. apply andb_true_iff in H. tauto.
  - apply IH. apply andb_true_iff in H. tauto.
Qed.

Lemma Forall2_len {A B} (P : A -> B -> Prop) l l' : Forall2 P l l' -> length l = length l'.
Proof. induction 1; cbn [length]; [reflexivity|f_equal; assumption]. Qed.

Lemma ok_cells_of_sound h j row : ok_cells_of h j row = true -> CellsSpec h j row.
Proof.
  unfold ok_cells_of, CellsSpec. apply forallb2_Forall2. intros c v H. apply orb_true_iff in H as [H|H].
  - left. apply col_eqb_eq. exact H.
  - right. apply cell_eqb_eq. exact H.
Qed.

Lemma find_job_sound id jobs j : find_job id jobs = Some j -> In j jobs /\ id = Num (jid j).
Proof. unfold find_job. intros H. apply find_some in H as [H1 H2]. split; [exact H1|apply cell_eqb_eq; exact H2]. Qed.

Lemma cnodupb_NoDup l : cnodupb l = true -> NoDup l.
Proof.
  induction l as [|x t IH]; cbn [cnodupb]; intros H; constructor.
  - apply andb_true_iff in H as [H _]. apply negb_true_iff in H. intros Hin.
    assert (existsb (cell_eqb x) t = true) by (apply existsb_exists; exists x; split; [exact Hin|apply cell_eqb_eq; reflexivity]).
    congruence.
  - apply IH. apply andb_true_iff in H. tauto.
Qed.

Lemma rows_jobs jobs h rows : forallb (ok_row jobs h) rows = true ->
  exists pj, Forall2 (fun j row => In j jobs /\ CellsSpec h j row /\ cell_at h CId row = Num (jid j)) pj rows.
Proof.
  induction rows as [|r t IH]; cbn [forallb]; intros H.
  - exists []. constructor.
  - apply andb_true_iff in H as [Hr Ht]. destruct (IH Ht) as [pj Hpj]. unfold ok_row in Hr.
    destruct (find_job (cell_at h CId r) jobs) as [j|] eqn:E; [|discriminate].
    apply find_job_sound in E as [Hin Hid]. exists (j :: pj). constructor; [|exact Hpj].
    repeat split; [exact Hin|apply ok_cells_of_sound; exact Hr|exact Hid].
Qed.

Lemma inclb_incl a b : Check.inclb a b = true -> incl a b.
Proof. unfold Check.inclb. rewrite forallb_forall. intros H c Hc. apply cmem_In. apply H. exact Hc. Qed.

Lemma ok_header_kind_sound k jobs h : ok_header_kind k jobs h = true ->
  exists j0, In j0 jobs /\ (forall c, In c h -> c = CPareto \/ In c (header_of k j0)) /\ (forall c, In c (header_of k j0) -> In c h).
Proof.
  unfold ok_header_kind. intros H. apply existsb_exists in H as [j0 [Hj0 H]].
  apply andb_true_iff in H as [H1 H2]. apply inclb_incl in H1, H2. exists j0. split; [exact Hj0|]. split.
  - intros c Hc. destruct (col_eqb c CPareto) eqn:E; [left; apply col_eqb_eq; exact E|right].
    apply H1. unfold no_pareto. apply filter_In. split; [exact Hc|]. rewrite E. reflexivity.
  - exact H2.
Qed.

Lemma ok_header_sound jobs h : ok_header jobs h = true -> HeaderSpec jobs h.
Proof.
  unfold ok_header, HeaderSpec. intros H. apply orb_true_iff in H as [H|H].
  - destruct (ok_header_kind_sound _ _ _ H) as (j0 & A & B & C). exists j0, (kind_of jobs). repeat split; try assumption. left. reflexivity.
  - apply andb_true_iff in H as [H H3]. apply andb_true_iff in H as [H1 H2]. apply Nat.leb_le in H2.
    destruct (ok_header_kind_sound _ _ _ H3) as (j0 & A & B & C). exists j0, (Vec (length (objcols h))).
    split; [exact A|]. split; [right; split; [exact H1|eexists; split; [reflexivity|exact H2]]|]. split; assumption.
Qed.

Lemma ok_pareto_sound h rows : ok_pareto h rows = true -> ParetoSpec h rows.
Proof.
  unfold ok_pareto, ParetoSpec. intros H H2.
  destruct (length (objcols h) <=? 1)%nat eqn:E; [apply Nat.leb_le in E; lia|].
  apply andb_true_iff in H as [H Hnds]. apply andb_true_iff in H as [H Hfail]. apply andb_true_iff in H as [Hin Hbool].
  rewrite forallb_forall in Hbool, Hfail. split; [apply cmem_In; exact Hin|]. split; [|split].
  - intros r Hr. specialize (Hbool r Hr). unfold is_boolcell in Hbool. apply orb_true_iff in Hbool as [Hb|Hb];
      apply cell_eqb_eq in Hb; auto.
  - intros r Hr Hf. specialize (Hfail r Hr). rewrite Hf in Hfail. apply cell_eqb_eq. exact Hfail.
  - destruct (traverse (row_vec h) (succ_rows h rows)) as [pts|]; [|discriminate]. exists pts. split; [reflexivity|].
    unfold ok_nds in Hnds. apply andb_true_iff in Hnds as [_ Hnds]. apply ok_nds_sel_spec. exact Hnds.
Qed.

Theorem ok_C04_sound jobs h rows : ok_C04 jobs h rows = true -> TableSpec jobs h rows.
Proof.
  unfold ok_C04. intros H. apply andb_true_iff in H as [H Hpar]. apply andb_true_iff in H as [H Hhdr].
  apply andb_true_iff in H as [Hids Hcells]. unfold ok_ids in Hids.
  apply andb_true_iff in Hids as [Hids Hnd]. apply andb_true_iff in Hids as [Hid Hlen].
  apply Nat.eqb_eq in Hlen. apply cnodupb_NoDup in Hnd. apply cmem_In in Hid.
  split; [|split; [exact Hid|split; [apply ok_header_sound; exact Hhdr|apply ok_pareto_sound; exact Hpar]]].
  destruct (rows_jobs jobs h rows Hcells) as [pj Hpj]. exists pj. split.
  - assert (Hmap : map (fun j => Num (jid j)) pj = map (cell_at h CId) rows).
    { clear - Hpj. induction Hpj as [|j r pj' rows' (_ & _ & E) _ IH]; cbn [map]; [reflexivity|]. rewrite IH, E. reflexivity. }
    assert (Hndpj : NoDup pj). { apply (NoDup_map_inv (fun j => Num (jid j))). rewrite Hmap. exact Hnd. }
    apply NoDup_Permutation_bis.
    + exact Hndpj.
    + rewrite <- Hlen. assert (length pj = length rows) by (eapply Forall2_len; exact Hpj). lia.
    + intros j Hj. clear - Hpj Hj. induction Hpj as [|j' r pj' rows' (Hin & _ & _) _ IH]; [contradiction|].
      destruct Hj as [<-|Hj]; [exact Hin|apply IH; exact Hj].
  - eapply Forall2_imp; [|exact Hpj]. intros j r (_ & Hc & _). exact Hc.
Qed.

(* one row per finished job, unique job_id: what the first clause of TableSpec says in terms of ids *)
Lemma table_ids jobs h rows : TableSpec jobs h rows ->
  Permutation (map (cell_at h CId) rows) (map (fun j => Num (jid j)) jobs).
Proof.
  intros ((pj & Hperm & HF) & Hid & _). apply Permutation_trans with (map (fun j => Num (jid j)) pj).
  - assert (E : map (cell_at h CId) rows = map (fun j => Num (jid j)) pj).
    { clear - HF Hid. induction HF as [|j r pj' rows' Hc _ IH]; cbn [map]; [reflexivity|]. rewrite IH. f_equal.
      destruct (cell_at_Forall2 _ h r CId Hc Hid) as [E|E]; [discriminate|exact E]. }
    rewrite E. apply Permutation_refl.
  - apply Permutation_map. exact Hperm.
Qed.

(* ---------- the clauses of the property, for the model of the repaired code ---------- *)
Definition Hyps (evs : list event) : Prop :=
  ends_with_flush evs = true /\ kind_wf (kind_of (all_jobs evs)) /\ Forall (consistent (kind_of (all_jobs evs))) (all_jobs evs)
  /\ hdr_hyp_of (kind_of (all_jobs evs)) evs.

(* exactly one row per finished evaluation, in the order of completion - for ANY arity rule, no hypothesis on the outputs *)
Theorem one_row_per_job infer evs : ends_with_flush evs = true ->
  let s := run infer evs in
  pending (fst s) = []
  /\ ((snd s = (None, []) /\ all_jobs evs = [])
      \/ exists h, fst (snd s) = Some h /\ In CId h
           /\ map (cell_at h CId) (snd (snd s)) = map (fun j => Num (jid j)) (all_jobs evs)).
Proof. exact (run_complete infer evs). Qed.

Theorem row_faithful evs : Hyps evs ->
  match search_fixed evs with
  | NoTable => all_jobs evs = []
  | Raised => False
  | Table h rows => Forall2 (fun j row => Forall2 (fun c v => c = CPareto \/ v = expected_cell c j) h row) (all_jobs evs) rows
  end.
Proof.
  intros (H1 & H2 & H3 & H4). pose proof (search_fixed_spec evs H1 H2 H3 H4) as H. cbn zeta in H.
  destruct (search_fixed evs); [exact H|exact H|]. destruct H as (_ & H & _). exact H.
Qed.

Theorem table_spec evs : Hyps evs ->
  match search_fixed evs with
  | NoTable => all_jobs evs = []
  | Raised => False
  | Table h rows => TableSpec (all_jobs evs) h rows
  end.
Proof.
  intros (H1 & H2 & H3 & H4). pose proof (search_fixed_spec evs H1 H2 H3 H4) as H. cbn zeta in H.
  destruct (search_fixed evs); [exact H|exact H|]. destruct H as [H _]. exact H.
Qed.

Lemma objcols_app a b : objcols (a ++ b) = objcols a ++ objcols b.
Proof. unfold objcols. apply filter_app. Qed.

Theorem arity_columns evs : Hyps evs ->
  match search_fixed evs with
  | NoTable => all_jobs evs = []
  | Raised => False
  | Table h rows =>
      objcols h = objcols_of (kind_of (all_jobs evs))
      /\ Forall2 (fun j row => forall s, objective_of j = OStr s -> forall c, In c (objcols h) -> cell_at h c row = Str s)
                 (all_jobs evs) rows
  end.
Proof.
  intros (H1 & H2 & H3 & H4). pose proof (search_fixed_spec evs H1 H2 H3 H4) as H. cbn zeta in H.
  destruct (search_fixed evs) as [| |h rows]; [exact H|exact H|]. destruct H as (_ & Hcells & j0 & Hj0 & Hh).
  assert (Ho : objcols h = objcols_of (kind_of (all_jobs evs))).
  { destruct Hh as [->| ->]; [apply objcols_header|]. rewrite objcols_ext. apply objcols_header. }
  split; [exact Ho|]. eapply Forall2_imp; [|exact Hcells]. intros j row Hc s Hs c Hin.
  assert (Hinh : In c h) by (apply objcols_incl; exact Hin).
  destruct (cell_at_Forall2 _ h row c Hc Hinh) as [->|E].
  - unfold objcols in Hin. apply filter_In in Hin as [_ Hin]. discriminate.
  - rewrite E. rewrite Ho in Hin. destruct (kind_of (all_jobs evs)) as [|m]; cbn [objcols_of] in Hin.
    + destruct Hin as [<-|[]]. cbn [expected_cell]. rewrite Hs. reflexivity.
    + apply in_map_iff in Hin as [i [<- _]]. cbn [expected_cell]. rewrite Hs. reflexivity.
Qed.

Theorem pareto_exact evs : Hyps evs ->
  match search_fixed evs with
  | NoTable => all_jobs evs = []
  | Raised => False
  | Table h rows => ParetoSpec h rows /\ forall m, kind_of (all_jobs evs) = Vec m -> length (objcols h) = m
  end.
Proof.
  intros Hy. pose proof (arity_columns evs Hy) as Ha. destruct Hy as (H1 & H2 & H3 & H4).
  pose proof (search_fixed_spec evs H1 H2 H3 H4) as H. cbn zeta in H.
  destruct (search_fixed evs) as [| |h rows]; [exact H|exact H|]. destruct H as ((_ & _ & _ & Hp) & _). split; [exact Hp|].
  intros m Hm. destruct Ha as [Ha _]. rewrite Ha, Hm. cbn [objcols_of]. rewrite map_length, seq_length. reflexivity.
Qed.

(* a single search() call: dumps without flush, then the forced one - the header hypothesis holds by itself *)
Lemma existsb_app {A} (f : A -> bool) a b : existsb f (a ++ b) = existsb f a || existsb f b.
Proof. induction a as [|x t IH]; cbn [existsb app]; [reflexivity|]. rewrite IH. apply orb_assoc. Qed.

Lemma hdr_hyp_single p evs new :
  forallb (fun e => negb (snd e)) evs = true ->
  existsb is_tuple_job (p ++ all_jobs evs ++ new) = true -> hdr_hyp p (evs ++ [(new, true)]) = true.
Proof.
  revert p. induction evs as [|[n0 fl] rest IH]; intros p Hnf Ht; cbn [app hdr_hyp].
  - cbn [all_jobs map concat app] in Ht. rewrite Ht. reflexivity.
  - cbn [forallb snd] in Hnf. apply andb_true_iff in Hnf as [Hfl Hnf]. apply negb_true_iff in Hfl. subst fl.
    destruct (existsb is_tuple_job (p ++ n0)); [reflexivity|]. apply IH; [exact Hnf|].
    cbn [all_jobs map concat fst] in Ht. fold (all_jobs rest) in Ht. rewrite <- !app_assoc. rewrite <- app_assoc in Ht. exact Ht.
Qed.

Lemma kind_vec_has_tuple jobs m : kind_of jobs = Vec m -> existsb is_tuple_job jobs = true.
Proof.
  unfold kind_of. destruct (find is_tuple_job jobs) as [j|] eqn:E; [|discriminate]. intros _.
  apply find_some in E as [Hin Ht]. apply existsb_exists. exists j. auto.
Qed.

Lemma all_jobs_app a b : all_jobs (a ++ b) = all_jobs a ++ all_jobs b.
Proof. unfold all_jobs. rewrite map_app, concat_app. reflexivity. Qed.

Theorem single_call_hyps evs new :
  forallb (fun e => negb (snd e)) evs = true ->
  let all := evs ++ [(new, true)] in
  kind_wf (kind_of (all_jobs all)) -> Forall (consistent (kind_of (all_jobs all))) (all_jobs all) -> Hyps all.
Proof.
  intros Hnf all Hwf Hc. unfold Hyps. split; [|split; [exact Hwf|split; [exact Hc|]]].
  - unfold all, ends_with_flush. rewrite rev_app_distr. reflexivity.
  - unfold hdr_hyp_of. destruct (kind_of (all_jobs all)) as [|m] eqn:Ek; [exact I|].
    apply hdr_hyp_single; [exact Hnf|]. cbn [app]. apply kind_vec_has_tuple in Ek.
    unfold all in Ek. rewrite all_jobs_app in Ek. cbn [all_jobs map concat fst] in Ek. rewrite app_nil_r in Ek. exact Ek.
Qed.

(* ---------- refutations ---------- *)
(* F06: the PINNED arity rule; a failure is dumped before the first success of a two-objective search *)
Definition wF : job := mkJob 0 [(1, Num 5)] (Plain (PObj (OStr 7))) 9 [] [].
Definition wT : job := mkJob 1 [(1, Num 6)] (Plain (PObj (OTup [1; 2]))) 9 [] [].
Definition w_failfirst : list event := [([wF], false); ([wT], false); ([], true)].

Lemma w_failfirst_hyps : Hyps w_failfirst.
Proof. unfold Hyps. vm_compute. repeat split; try lia; repeat constructor. Qed.

Theorem failfirst_refuted :
  Hyps w_failfirst
  /\ search_pinned w_failfirst = Raised
  /\ snd (run infer_pinned w_failfirst) =
       (Some [CP 1; CObjI 0; CObjI 1; CId; CStatus], [[Num 5; Empty; Empty; Num 0; Str 9]; [Num 6; Num 1; Num 2; Num 1; Str 9]])
  /\ ok_C04 [wF; wT] [CP 1; CObjI 0; CObjI 1; CId; CStatus] (snd (snd (run infer_pinned w_failfirst))) = false
  /\ (exists h rows, search_fixed w_failfirst = Table h rows /\ ok_C04 [wF; wT] h rows = true).
Proof.
  split; [exact w_failfirst_hyps|]. split; [vm_compute; reflexivity|]. split; [vm_compute; reflexivity|].
  split; [vm_compute; reflexivity|]. eexists. eexists. split; vm_compute; reflexivity.
Qed.

(* F06b: every evaluation of the first search() call failed; the forced flush fixes a single-objective header; both rules *)
Definition w_firstcall : list event := [([wF], true); ([wT], true)].

Theorem first_call_all_failed_refuted :
  ends_with_flush w_firstcall = true
  /\ kind_wf (kind_of (all_jobs w_firstcall)) /\ Forall (consistent (kind_of (all_jobs w_firstcall))) (all_jobs w_firstcall)
  /\ hdr_hyp [] w_firstcall = false
  /\ search_fixed w_firstcall = Table [CP 1; CObj; CId; CStatus] [[Num 5; Str 7; Num 0; Str 9]; [Num 6; Empty; Num 1; Str 9]]
  /\ search_pinned w_firstcall = search_fixed w_firstcall
  /\ ok_C04 [wF; wT] [CP 1; CObj; CId; CStatus] [[Num 5; Str 7; Num 0; Str 9]; [Num 6; Empty; Num 1; Str 9]] = false.
Proof. vm_compute. repeat split; try lia; repeat constructor. Qed.

(* ---------- several searches on ONE evaluator (num_objective survives Search.__init__) ---------- *)
Definition outcome_spec (jobs : list job) (o : outcome) : Prop :=
  match o with NoTable => jobs = [] | Raised => False | Table h rows => TableSpec jobs h rows end.

Theorem reused_evaluator evs1 evs2 : Hyps evs1 -> Hyps evs2 -> kind_of (all_jobs evs1) = kind_of (all_jobs evs2) ->
  exists o1 o2, searches_from infer_fixed None [evs1; evs2] = [o1; o2]
    /\ outcome_spec (all_jobs evs1) o1 /\ outcome_spec (all_jobs evs2) o2.
Proof.
  intros (A1 & A2 & A3 & A4) (B1 & B2 & B3 & B4) Hk. cbn [searches_from].
  eexists. eexists. split; [reflexivity|]. split.
  - pose proof (search_fixed_from_spec None evs1 (or_introl eq_refl) A1 A2 A3 A4) as H. cbn zeta in H.
    unfold search_fixed_from in H. destruct (final (snd (run_from infer_fixed None evs1))); cbn [outcome_spec]; [exact H|exact H|].
    destruct H as [H _]. exact H.
  - assert (Hn : weakn (kind_of (all_jobs evs2)) (nobj (fst (run_from infer_fixed None evs1)))).
    { rewrite <- Hk. apply nobj_after_weak; try assumption. left. reflexivity. }
    pose proof (search_fixed_from_spec _ evs2 Hn B1 B2 B3 B4) as H. cbn zeta in H.
    unfold search_fixed_from in H. destruct (final (snd (run_from infer_fixed _ evs2))); cbn [outcome_spec]; [exact H|exact H|].
    destruct H as [H _]. exact H.
Qed.
