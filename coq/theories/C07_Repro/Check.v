(* C07 - boolean oracles applied to the IMPLEMENTATION's observations, with their reflection lemmas.
   A run is observed as the sequence of proposed configurations; a configuration is a list of tokens (one per hyperparameter:
   the harness encodes repr(value) injectively as an integer).  Nothing here depends on the generated facts. *)
From Coq Require Import List ZArith Bool Lia.
Import ListNotations.
Require Import DH.C07_Repro.Model.
Open Scope Z_scope.

Definition conf := list Z.
Definition trace := list conf.

Fixpoint conf_eqb (a b : conf) : bool :=
  match a, b with
  | [], [] => true
  | x :: a', y :: b' => (x =? y) && conf_eqb a' b'
  | _, _ => false
  end.

Fixpoint trace_eqb (a b : trace) : bool :=
  match a, b with
  | [], [] => true
  | x :: a', y :: b' => conf_eqb x y && trace_eqb a' b'
  | _, _ => false
  end.

Lemma conf_eqb_eq a b : conf_eqb a b = true <-> a = b.
Proof.
  revert b. induction a as [|x a IH]; intros [|y b]; cbn [conf_eqb]; split; intros H; try reflexivity; try discriminate.
  - apply andb_true_iff in H. destruct H as [H1 H2]. apply Z.eqb_eq in H1. apply IH in H2. subst. reflexivity.
  - inversion H; subst. apply andb_true_iff. split; [apply Z.eqb_refl | apply IH; reflexivity].
Qed.

Lemma trace_eqb_eq a b : trace_eqb a b = true <-> a = b.
Proof.
  revert b. induction a as [|x a IH]; intros [|y b]; cbn [trace_eqb]; split; intros H; try reflexivity; try discriminate.
  - apply andb_true_iff in H. destruct H as [H1 H2]. apply conf_eqb_eq in H1. apply IH in H2. subst. reflexivity.
  - inversion H; subst. apply andb_true_iff. split; [apply conf_eqb_eq; reflexivity | apply IH; reflexivity].
Qed.

(* index of the first proposal at which two runs differ (length of the common prefix) *)
Fixpoint first_diff (a b : trace) : nat :=
  match a, b with
  | x :: a', y :: b' => if conf_eqb x y then S (first_diff a' b') else O
  | _, _ => O
  end.

(* The property on one triple of observed runs: A and B built from the same seed (different process, hash seed, global RNG state,
   log directory) propose the identical sequence; C built from another seed proposes a different one. *)
Definition Spec_C07 (a b c : trace) : Prop := a = b /\ a <> c.

(* 0 = ok, 1 = same seed but different sequences, 2 = different seeds but the same sequence *)
Definition ok_C07 (a b c : trace) : Z :=
  if negb (trace_eqb a b) then 1 else if trace_eqb a c then 2 else 0.

Lemma ok_C07_spec a b c : ok_C07 a b c = 0 <-> Spec_C07 a b c.
Proof.
  unfold ok_C07, Spec_C07. destruct (trace_eqb a b) eqn:E1; cbn [negb].
  - apply trace_eqb_eq in E1. destruct (trace_eqb a c) eqn:E2.
    + apply trace_eqb_eq in E2. split; [discriminate | intros [_ H]; contradiction].
    + split; [|reflexivity]. intros _. split; [exact E1|]. intros H. apply trace_eqb_eq in H. congruence.
  - split; [discriminate|]. intros [H _]. apply trace_eqb_eq in H. congruence.
Qed.

Lemma ok_C07_same_seed a b c : ok_C07 a b c <> 1 <-> a = b.
Proof.
  unfold ok_C07. destruct (trace_eqb a b) eqn:E1; cbn [negb].
  - apply trace_eqb_eq in E1. split; [intros _; exact E1|]. intros _. destruct (trace_eqb a c); discriminate.
  - split; [intros H; exfalso; apply H; reflexivity|]. intros H. apply trace_eqb_eq in H. congruence.
Qed.
