(* C07 - Seeded searches are reproducible.  Property theorems only (claimed level: partial - see TRUSTED in harness/vp/props/c07.py).

   Model.v: a search is a program over two streams of random values - the SEEDED stream (all that descends from
   RandomState(seed)) and the GLOBAL stream (what a second process does not share) - and emits the proposed configurations.
   The instance is generated from the source on every run: nsites / nenv are the RNG call sites and environment reads of the
   eight anchor files (Generated/Facts_C07.v through the tables of Keys.v), wfacts the two source facts the hand-written
   reachability table [reach] rests on.  A configuration class c is in the property's quantifier when the seed is an int and no
   transfer-learning call was made ([in_quantifier]). *)
From Coq Require Import List ZArith Bool String.
Import ListNotations.
Require Import DH.C07_Repro.Model DH.C07_Repro.Check DH.C07_Repro.Keys DH.C07_Repro.Lemmas DH.C07_Repro.LemmasFacts.
Require DH.Generated.Facts_C07.

(* 1. A program without global draws proposes the same configurations for every state of the global stream. *)
Theorem C07_no_global_deterministic : forall p, no_global p -> forall sd g g' i j j', run p sd g i j = run p sd g' i j'.
Proof. exact run_no_global. Qed.
Print Assumptions C07_no_global_deterministic.

(* ... and the dynamic reading: a run that consumed nothing from the global stream is independent of it *)
Theorem C07_global_unused_deterministic : forall p sd g i j, global_used p sd g i j = 0%nat -> forall g' j', run p sd g i j = run p sd g' i j'.
Proof. exact run_global_unused. Qed.
Print Assumptions C07_global_unused_deterministic.

(* 1'. Several calls on one seeded object: the second call continues where the first left the streams ([seq p q]); k calls propose what
       one long call proposes, and a sequence of calls without global draws does not depend on the global stream. *)
Theorem C07_run_seq : forall p q sd g i j,
  run (seq p q) sd g i j = (run p sd g i j ++ run q sd g (i + seeded_used p sd g i j) (j + global_used p sd g i j))%list.
Proof. exact run_seq. Qed.
Print Assumptions C07_run_seq.

Theorem C07_calls_compose : forall p q, no_global p -> no_global q -> forall sd g g' i j j',
  run (seq p q) sd g i j = (run p sd g' i j' ++ run q sd g' (i + seeded_used p sd g' i j') j')%list.
Proof. exact calls_compose. Qed.
Print Assumptions C07_calls_compose.

(* 2. The translator recognised every source shape, and its numeric site lists are the ones computed here from the string facts. *)
Theorem C07_sites_complete :
  DH.Generated.Facts_C07.srcfacts_ok = true /\ map site_triple nsites = DH.Generated.Facts_C07.rng_sites_num /\
  map esite_quad nenv = DH.Generated.Facts_C07.env_sites_num /\ w_sample_possible wfacts = DH.Generated.Facts_C07.world_num /\
  w_npint_seeded wfacts = DH.Generated.Facts_C07.seed_test_accepts_numpy_int.
Proof. exact sites_complete. Qed.
Print Assumptions C07_sites_complete.

(* 3. Every RNG call site that a configuration class of the quantifier - Python int seed, not acq_func MES / MESd (see 5, 5') - can reach
      is fed by the seeded stream. *)
Theorem C07_sites_seeded : forall c, in_quantifier c = true -> is_mes c = false -> np_seed c = false -> sites_ok wfacts c nsites = true.
Proof. exact sites_seeded. Qed.
Print Assumptions C07_sites_seeded.

(* 4. Hence: whatever reachable sites an execution visits, in whatever order, with whatever deterministic computation in between,
      the proposed configurations do not depend on the global stream. *)
Theorem C07_seeded_runs_ignore_global : forall c, in_quantifier c = true -> is_mes c = false -> np_seed c = false -> forall sched,
  (forall i, In i sched -> exists s, nth_error nsites i = Some s /\ reach wfacts c s = true) ->
  forall out sd g g' j j',
    run (prog_of out (map (src_at wfacts c nsites) sched) []) sd g 0 j = run (prog_of out (map (src_at wfacts c nsites) sched) []) sd g' 0 j'.
Proof. exact seeded_runs_ignore_global. Qed.
Print Assumptions C07_seeded_runs_ignore_global.

(* 5. F09: while gaussian_mes draws with scipy's norm.rvs without random_state, the MES classes fail the site check ... *)
Theorem C07_mes_refuted : forall c, is_mes c = true -> site_in prefix_mes_site nsites = true -> sites_ok wfacts c nsites = false.
Proof. exact mes_refuted. Qed.
Print Assumptions C07_mes_refuted.

(* ... and once that site is seeded (fixes/F09) every class of the quantifier passes it. *)
Theorem C07_sites_seeded_when_mes_fixed : site_in prefix_mes_site nsites = false -> forall c, in_quantifier c = true -> np_seed c = false -> sites_ok wfacts c nsites = true.
Proof. exact sites_seeded_when_mes_fixed. Qed.
Print Assumptions C07_sites_seeded_when_mes_fixed.

(* 5'. F87: a numpy integer is an integer random_state, but `type(random_state) is int` sends it to the unseeded np.random.RandomState() ... *)
Theorem C07_npint_refuted : w_npint_seeded wfacts = false -> forall c, np_seed c = true -> site_in fresh_search_site nsites = true -> sites_ok wfacts c nsites = false.
Proof. exact npint_refuted. Qed.
Print Assumptions C07_npint_refuted.

(* ... and with both repairs in the source every class of the quantifier passes the site check. *)
Theorem C07_sites_seeded_when_all_fixed : site_in prefix_mes_site nsites = false -> w_npint_seeded wfacts = true ->
  forall c, in_quantifier c = true -> sites_ok wfacts c nsites = true.
Proof. exact sites_seeded_when_all_fixed. Qed.
Print Assumptions C07_sites_seeded_when_all_fixed.

(* 6. Hash seed / clock / directory order: for every class but RegularizedEvolution, every reachable environment read only
      flows into log messages or log-file names. *)
Theorem C07_env_benign : forall c, in_quantifier c = true -> is_regevo c = false -> env_ok wfacts c nenv = true.
Proof. exact env_benign_non_regevo. Qed.
Print Assumptions C07_env_benign.

(* F47: RegularizedEvolution._ask iterates list(space.get_active_hyperparameters(...)), a set of str: order = PYTHONHASHSEED. *)
Theorem C07_regevo_refuted : forall c, is_regevo c = true -> esite_in prefix_regevo_site nenv = true -> env_ok wfacts c nenv = false.
Proof. exact regevo_refuted. Qed.
Print Assumptions C07_regevo_refuted.

Theorem C07_env_benign_when_regevo_fixed : esite_in prefix_regevo_site nenv = false -> forall c, in_quantifier c = true -> env_ok wfacts c nenv = true.
Proof. exact env_benign_when_regevo_fixed. Qed.
Print Assumptions C07_env_benign_when_regevo_fixed.

(* 7. Trace acceptance (the extracted checker the harness applies to observed site traces) is sound. *)
Theorem C07_accept_sound : forall w c l sched, accept w c l sched = true ->
  forall out sd g g' j j', run (prog_of out (map (src_at w c l) sched) []) sd g 0 j = run (prog_of out (map (src_at w c l) sched) []) sd g' 0 j'.
Proof. exact accept_sound. Qed.
Print Assumptions C07_accept_sound.

(* 8. The oracle applied to triples of observed runs decides the property's statement. *)
Theorem C07_oracle : forall a b c, ok_C07 a b c = 0%Z <-> (a = b /\ a <> c).
Proof. exact ok_C07_spec. Qed.
Print Assumptions C07_oracle.

(* 9. One global draw that reaches the output loses reproducibility (the site check is not vacuous). *)
Theorem C07_global_draw_refuted : exists p sd g g', run p sd g 0 0 <> run p sd g' 0 0.
Proof. exact global_draw_refuted. Qed.
Print Assumptions C07_global_draw_refuted.

(* 10. A draw from the seeded stream that is conditional on ambient state (site kind Guarded: logging level, environment, clock,
       verbosity) loses reproducibility although no ambient value reaches the output and every proposal is a value of the seeded stream:
       the ambient bit moves the stream position.  Unconditionally, the same draw is harmless. *)
Theorem C07_guarded_draw_refuted : exists sd g g',
  run (guarded propose_next) sd g 0 0 <> run (guarded propose_next) sd g' 0 0 /\
  seeded_used (guarded propose_next) sd g 0 0 <> seeded_used (guarded propose_next) sd g' 0 0 /\
  (forall v, In v (run (guarded propose_next) sd g 0 0) -> exists i, v = sd i) /\
  (forall v, In v (run (guarded propose_next) sd g' 0 0) -> exists i, v = sd i).
Proof. exact guarded_refuted. Qed.
Print Assumptions C07_guarded_draw_refuted.

Theorem C07_unguarded_draw_deterministic : forall rest, no_global rest -> forall sd g g' i j j',
  run (Draw SSeeded (fun _ => rest)) sd g i j = run (Draw SSeeded (fun _ => rest)) sd g' i j'.
Proof. exact unguarded_deterministic. Qed.
Print Assumptions C07_unguarded_draw_deterministic.

(* 11. A fact of the host (the number of CPUs the process may use: os.cpu_count, sched_getaffinity, joblib.effective_n_jobs - environment
       kind Host) used as a COUNT of draws / restarts / candidates instead of a degree of parallelism: the same loss, although every proposal
       is a value of the seeded stream.  A count that is an option of the search is harmless. *)
Theorem C07_host_count_refuted : exists sd g g',
  run (counted propose_next) sd g 0 0 <> run (counted propose_next) sd g' 0 0 /\
  (forall v, In v (run (counted propose_next) sd g 0 0) -> exists i, v = sd i) /\
  (forall v, In v (run (counted propose_next) sd g' 0 0) -> exists i, v = sd i).
Proof. exact counted_refuted. Qed.
Print Assumptions C07_host_count_refuted.

Theorem C07_fixed_count_deterministic : forall n rest, no_global rest -> forall sd g g' i j j',
  run (skip n rest) sd g i j = run (skip n rest) sd g' i j'.
Proof. exact fixed_count_deterministic. Qed.
Print Assumptions C07_fixed_count_deterministic.

(* ---- non-vacuity *)
Definition c_example (s : search_t) (a : acq_t) : cfg :=
  {| c_search := s; c_surr := 1; c_acq := a; c_acq_d := false; c_strategy := 0; c_init := 0; c_cond := false; c_moo := false;
     c_transfer := false; c_seed := SeedPyInt |}.

Example quantifier_inhabited : in_quantifier (c_example CBO UCB) = true /\ is_mes (c_example CBO UCB) = false /\ is_regevo (c_example CBO UCB) = false.
Proof. repeat split; reflexivity. Qed.
Example reachable_sites_exist : (10 <=? List.length (filter (reach wfacts (c_example CBO UCB)) nsites))%nat = true.
Proof. vm_compute. reflexivity. Qed.
Example mes_witness_on_snapshot : sites_ok wfacts (c_example CBO MES) [prefix_mes_site] = false.
Proof. reflexivity. Qed.
Example regevo_witness_on_snapshot : env_ok wfacts (c_example RegEvo UCB) [prefix_regevo_site] = false.
Proof. reflexivity. Qed.
Example a_global_site_would_break : sites_ok wfacts (c_example CBO UCB) ({| s_owner := O_CBO; s_key := S_None; s_cls := K_Global |} :: nsites) = false.
Proof. vm_compute. reflexivity. Qed.
Example numpy_seed_witness_on_snapshot :
  sites_ok {| w_sample_possible := false; w_npint_seeded := false |}
           {| c_search := CBO; c_surr := 1; c_acq := UCB; c_acq_d := false; c_strategy := 0; c_init := 0; c_cond := false; c_moo := false; c_transfer := false; c_seed := SeedNpInt |}
           [fresh_search_site] = false.
Proof. reflexivity. Qed.
Example a_guarded_site_would_break : sites_ok wfacts (c_example CBO UCB) ({| s_owner := O_CBO; s_key := S_None; s_cls := K_Guarded |} :: nsites) = false.
Proof. vm_compute. reflexivity. Qed.
Example a_host_count_would_break :
  env_ok wfacts (c_example CBO UCB) ({| e_owner := O_CBO; e_key := S_None; e_kind := E_Host; e_flow := F_Flows |} :: nenv) = false
  /\ env_ok wfacts (c_example CBO UCB) ({| e_owner := O_CBO; e_key := S_None; e_kind := E_Host; e_flow := F_Parallelism |} :: nenv) = true.
Proof. vm_compute. split; reflexivity. Qed.
Example seeds_matter : forall g, run (prog_of (fun l => hd 0%Z l) [SSeeded] []) (fun _ => 1%Z) g 0 0 <> run (prog_of (fun l => hd 0%Z l) [SSeeded] []) (fun _ => 2%Z) g 0 0.
Proof. intros g. apply seed_sensitive. cbn. discriminate. Qed.
