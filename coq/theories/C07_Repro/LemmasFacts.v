(* C07 - proof obligations over the GENERATED facts of the current tree (Generated/Facts_C07.v), discharged by computation.
   Every proof here is re-run whenever the translator's output changes; the proofs are written so that they hold both for
   the tree before the fixes of F09 (3c09a2c) and F47 (2727a7f) and for the tree with them. *)
From Coq Require Import List ZArith Bool String.
Import ListNotations.
Require Import DH.C07_Repro.Model DH.C07_Repro.Keys DH.C07_Repro.Lemmas.
Require DH.Generated.Facts_C07.
(* no module alias (coqchk 8.16 raises an anomaly on aliases of library modules): qualified names are used *)
Open Scope Z_scope.

Definition nsites : list site := map num_site DH.Generated.Facts_C07.rng_sites.
Definition nenv : list esite := map num_env DH.Generated.Facts_C07.env_sites.
Definition wfacts : world :=
  world_of_facts DH.Generated.Facts_C07.cbo_opt_kwargs DH.Generated.Facts_C07.sample_max_size_default DH.Generated.Facts_C07.seed_test_accepts_numpy_int.

(* the translator's own obligation: it recognised every shape (fail closed otherwise), and the numeric copies it derived from
   the tables of Keys.v are the ones Coq computes from the string facts *)
Lemma sites_complete :
  DH.Generated.Facts_C07.srcfacts_ok = true /\ map site_triple nsites = DH.Generated.Facts_C07.rng_sites_num /\ map esite_quad nenv = DH.Generated.Facts_C07.env_sites_num /\
  w_sample_possible wfacts = DH.Generated.Facts_C07.world_num /\ w_npint_seeded wfacts = DH.Generated.Facts_C07.seed_test_accepts_numpy_int.
Proof. vm_compute. repeat split; reflexivity. Qed.

Ltac by_cases c :=
  destruct c as [s su a d st ini cond moo tr seed];
  destruct s, a, tr, seed; cbn [in_quantifier int_seed np_seed is_mes is_regevo c_search c_acq c_transfer c_seed andb negb] in *;
  try discriminate; try contradiction; vm_compute; reflexivity.

(* every call site that a non-MES configuration class of the property's quantifier, built from a PYTHON int seed, can reach draws from
   the seeded stream *)
Lemma sites_seeded : forall c, in_quantifier c = true -> is_mes c = false -> np_seed c = false -> sites_ok wfacts c nsites = true.
Proof. intros c Hq Hm Hn. by_cases c. Qed.

Lemma mes_refuted : forall c, is_mes c = true -> site_in prefix_mes_site nsites = true -> sites_ok wfacts c nsites = false.
Proof. intros c Hm Hin. apply mes_site_breaks; assumption. Qed.

(* once the norm.rvs site is no longer a global draw (fix of F09), the MES classes are covered as well *)
Lemma sites_seeded_when_mes_fixed : site_in prefix_mes_site nsites = false -> forall c, in_quantifier c = true -> np_seed c = false -> sites_ok wfacts c nsites = true.
Proof.
  intros H. vm_compute in H. first [ discriminate H | (intros c Hq Hn; by_cases c) ].
Qed.

(* F87: while Search.__init__ tests `type(random_state) is int`, a numpy integer seed reaches the unseeded RandomState() *)
Lemma npint_refuted : w_npint_seeded wfacts = false -> forall c, np_seed c = true -> site_in fresh_search_site nsites = true -> sites_ok wfacts c nsites = false.
Proof. intros Hw c Hn Hin. apply fresh_site_breaks; assumption. Qed.

(* with both repairs in the source every class of the quantifier - numpy-integer seeds included - passes the site check *)
Lemma sites_seeded_when_all_fixed : site_in prefix_mes_site nsites = false -> w_npint_seeded wfacts = true ->
  forall c, in_quantifier c = true -> sites_ok wfacts c nsites = true.
Proof.
  intros H1 H2. vm_compute in H1. vm_compute in H2. first [ discriminate H1 | discriminate H2 | (intros c Hq; by_cases c) ].
Qed.

(* environment reads: nothing a class other than RegularizedEvolution can reach flows anywhere but log messages / log file names *)
Lemma env_benign_non_regevo : forall c, in_quantifier c = true -> is_regevo c = false -> env_ok wfacts c nenv = true.
Proof. intros c Hq Hm. by_cases c. Qed.

Lemma regevo_refuted : forall c, is_regevo c = true -> esite_in prefix_regevo_site nenv = true -> env_ok wfacts c nenv = false.
Proof. intros c Hm Hin. apply regevo_site_breaks; assumption. Qed.

Lemma env_benign_when_regevo_fixed : esite_in prefix_regevo_site nenv = false -> forall c, in_quantifier c = true -> env_ok wfacts c nenv = true.
Proof.
  intros H. vm_compute in H. first [ discriminate H | (intros c Hq; by_cases c) ].
Qed.

(* the consequence for executions: any schedule of reachable sites, any deterministic computation between the draws *)
Lemma seeded_runs_ignore_global : forall c, in_quantifier c = true -> is_mes c = false -> np_seed c = false -> forall sched,
  (forall i, In i sched -> exists s, nth_error nsites i = Some s /\ reach wfacts c s = true) ->
  forall out sd g g' j j',
    run (prog_of out (map (src_at wfacts c nsites) sched) []) sd g 0 j = run (prog_of out (map (src_at wfacts c nsites) sched) []) sd g' 0 j'.
Proof.
  intros c Hq Hm Hn sched Hs. apply sites_ok_deterministic; [apply sites_seeded; assumption | exact Hs].
Qed.
