(* C07 - Seeded searches are reproducible.  MODEL (no proofs here; describes /repo at f809570).

   Two layers.

   (1) A tiny effect language: a search is a program that interleaves draws from two streams - the SEEDED stream (everything
       that descends from Search.__init__'s  RandomState(seed): self._random_state, Optimizer.rng, the child states of
       Space.rvs, ConfigSpace's generator after .seed(...), the seeds handed to estimators/samplers) and the GLOBAL stream
       (everything a second process does not share: numpy's / Python's module-level generators, OS entropy, the hash seed,
       clocks) - with deterministic computation ([k]) and emits the proposed configurations.

   (2) The instance: the RNG call sites of the eight anchor files (GENERATED: Generated/Facts_C07.v, converted to the numeric
       records below by Keys.v) and a hand-written reachability table [reach]: which call site a configuration class can execute.
       [sites_ok w c l]: every site class c can reach draws from the seeded stream.  [prog_of]: any execution that visits
       reachable sites in any order with any deterministic computation in between.

   No strings here (this file is extracted). *)
From Coq Require Import List ZArith Bool.
Import ListNotations.
Open Scope Z_scope.

(* ------------------------------------------------------------------ (1) effect language *)
Inductive src := SSeeded | SGlobal.

Inductive prog :=
| Ret
| Emit (v : Z) (p : prog)            (* one proposed configuration (a token) *)
| Draw (s : src) (k : Z -> prog).    (* draw one value from a stream, continue with any function of it *)

Definition stream := nat -> Z.

(* i / j: how many values of the seeded / global stream have been consumed *)
Fixpoint run (p : prog) (sd gl : stream) (i j : nat) : list Z :=
  match p with
  | Ret => []
  | Emit v p' => v :: run p' sd gl i j
  | Draw SSeeded k => run (k (sd i)) sd gl (S i) j
  | Draw SGlobal k => run (k (gl j)) sd gl i (S j)
  end.

(* number of values of the global stream a run consumes *)
Fixpoint global_used (p : prog) (sd gl : stream) (i j : nat) : nat :=
  match p with
  | Ret => 0
  | Emit _ p' => global_used p' sd gl i j
  | Draw SSeeded k => global_used (k (sd i)) sd gl (S i) j
  | Draw SGlobal k => S (global_used (k (gl j)) sd gl i (S j))
  end.

(* Several calls on one seeded object: the second call continues where the first left the streams.  [seq p q] = p, then q. *)
Fixpoint seq (p q : prog) : prog :=
  match p with
  | Ret => q
  | Emit v p' => Emit v (seq p' q)
  | Draw s k => Draw s (fun x => seq (k x) q)
  end.

(* a guarded draw: the ambient value b (read from the global stream) is used for nothing but deciding whether one value of the SEEDED
   stream is consumed (e.g. a diagnostic under `if logger.isEnabledFor(DEBUG)` that samples with the search's own random state) *)
Definition guarded (rest : prog) : prog := Draw SGlobal (fun b => if b =? 0 then rest else Draw SSeeded (fun _ => rest)).
Definition propose_next : prog := Draw SSeeded (fun x => Emit x Ret).

(* a host fact used as a COUNT: c (CPUs the process may use - a value of the global stream) decides how many values of the seeded stream are
   consumed before the next proposal (restarts, candidates, draws sized by effective_n_jobs / cpu_count) *)
Fixpoint skip (n : nat) (rest : prog) : prog := match n with O => rest | S m => Draw SSeeded (fun _ => skip m rest) end.
Definition counted (rest : prog) : prog := Draw SGlobal (fun c => skip (Z.to_nat c) rest).

(* number of values of the seeded stream a run consumes *)
Fixpoint seeded_used (p : prog) (sd gl : stream) (i j : nat) : nat :=
  match p with
  | Ret => 0
  | Emit _ p' => seeded_used p' sd gl i j
  | Draw SSeeded k => S (seeded_used (k (sd i)) sd gl (S i) j)
  | Draw SGlobal k => seeded_used (k (gl j)) sd gl i (S j)
  end.

Fixpoint no_global (p : prog) : Prop :=
  match p with
  | Ret => True
  | Emit _ p' => no_global p'
  | Draw SSeeded k => forall x, no_global (k x)
  | Draw SGlobal _ => False
  end.

(* ------------------------------------------------------------------ (2) configuration classes (the property's quantifier) *)
Inductive search_t := CBO | RandomSearch | RegEvo.
Inductive acq_t := UCB | EI | PI | MES | GPHedge.
(* what the caller passes as random_state: a Python int, a numpy integer (np.int64(42): an integer as well), a RandomState object,
   anything else (None, a numpy Generator, ...) *)
Inductive seed_t := SeedPyInt | SeedNpInt | SeedRandomState | SeedOther.

Record cfg := {
  c_search : search_t;
  c_surr : Z;            (* 0 DUMMY 1 ET 2 RF 3 GP 4 other              - not inspected by reach *)
  c_acq : acq_t;
  c_acq_d : bool;        (* the "d" (disentangled / deterministic) variant: UCBd, EId, PId, MESd, gp_hedged *)
  c_strategy : Z;        (* multi-point strategy                          - not inspected by reach *)
  c_init : Z;            (* initial design                                - not inspected by reach *)
  c_cond : bool;         (* conditional / forbidden space (ConfigSpace sampling) *)
  c_moo : bool;          (* multi-objective *)
  c_transfer : bool;     (* fit_generative_model was called (model_sdv set): OUTSIDE the property's quantifier *)
  c_seed : seed_t        (* the property's hypothesis: an integer random_state (SeedPyInt or SeedNpInt) *)
}.

Definition int_seed (c : cfg) : bool := match c_seed c with SeedPyInt | SeedNpInt => true | _ => false end.
Definition np_seed (c : cfg) : bool := match c_seed c with SeedNpInt => true | _ => false end.
Definition in_quantifier (c : cfg) : bool := int_seed c && negb (c_transfer c).
Definition is_mes (c : cfg) : bool := match c_search c, c_acq c with CBO, MES => true | _, _ => false end.
Definition is_regevo (c : cfg) : bool := match c_search c with RegEvo => true | _ => false end.

(* classification of a call site, computed by the translator (harness/vp/props/c07_sites.py; index in its CLASSES list) *)
Definition K_Seeded := 0.    Definition K_Global := 1.  Definition K_CtorSeeded := 2.  Definition K_CtorFresh := 3.
Definition K_Dist := 4.      Definition K_CS := 5.      Definition K_CSSeed := 6.      Definition K_Ext := 7.
Definition K_Pass := 8.      Definition K_PassFresh := 9.   Definition K_PassShared := 10.
Definition K_Guarded := 11.
(* K_Guarded: a draw from / advance of a seeded stream whose execution is conditional on ambient state of the process (logging level,
   environment variable, clock, verbosity): the ambient read is a value of the GLOBAL stream (what a second process does not share), so
   the position of the seeded stream - hence every later proposal - is not a function of the seed alone ([guarded], Lemmas.guarded_refuted) *)
(* K_PassShared: a shared generator handed to the concurrently running tasks of a Parallel(require="sharedmem"): the thread schedule decides
   which task draws which slice of the stream - not a function of the seed *)

(* owner of a file: which search class executes code of that file *)
Definition O_Any := 0.  Definition O_CBO := 1.  Definition O_Random := 2.  Definition O_RegEvo := 3.

(* special sites of the reachability table (assigned by Keys.v from (file, function, callee, guard)); 0 = no entry *)
Definition S_None := 0.
Definition S_FreshSearch := 1.   (* Search.__init__, else-branch: np.random.RandomState()   - needs a random_state the seeded test rejects *)
Definition S_FreshMoo := 2.      (* MoScalarFunction.__init__, else-branch                   - Optimizer always passes self.rng *)
Definition S_SampleChoice := 3.  (* Optimizer._sample: np.random.choice under `if self._sample_max_size > 0 and ...` *)
Definition S_MesRvs := 4.        (* gaussian_mes: scipy norm.rvs without random_state        - needs acq_func MES / MESd *)
Definition S_SdvSample := 5.     (* Space.rvs: self.model_sdv.sample                         - needs fit_generative_model *)
Definition S_SdvSetOrder := 6.   (* Space.rvs: list(set(hps_names) - set(sdv_names))         - needs fit_generative_model *)
Definition S_InternalAlias := 8.  (* Optimizer.space / Space.config_space bound to a constructor argument: not an API boundary - inside the
                                     anchors these objects are only built from Search._problem (the search's own deep copy): CBO.__init__
                                     (convert_to_skopt_space(self._problem.space)), CBO._setup_optimizer, Optimizer.copy (its own space) *)
Definition S_RegevoSetOrder := 7. (* RegularizedEvolution._ask: list(space.get_active_hyperparameters(...)) *)

Record site := { s_owner : Z; s_key : Z; s_cls : Z }.

(* facts about the source the table rests on (computed by Keys.v from the generated facts) *)
Record world := {
  w_sample_possible : bool;  (* CBO hands sample_max_size to the Optimizer, or its default is > 0 *)
  w_npint_seeded : bool      (* the test guarding RandomState(random_state) in Search.__init__ accepts numpy integers
                                (isinstance(.., numbers.Integral)); `type(random_state) is int` does not: F87 *)
}.

Definition owner_ok (c : cfg) (o : Z) : bool :=
  if o =? O_Any then true
  else match c_search c with
       | CBO => o =? O_CBO
       | RandomSearch => o =? O_Random
       | RegEvo => o =? O_RegEvo
       end.

Definition key_ok (w : world) (c : cfg) (k : Z) : bool :=
  if k =? S_FreshSearch then
    match c_seed c with SeedPyInt => false | SeedNpInt => negb (w_npint_seeded w) | SeedRandomState => false | SeedOther => true end
  else if k =? S_FreshMoo then false
  else if k =? S_SampleChoice then w_sample_possible w
  else if k =? S_MesRvs then is_mes c
  else if k =? S_SdvSample then c_transfer c
  else if k =? S_SdvSetOrder then c_transfer c
  else if k =? S_InternalAlias then false
  else true.   (* S_None, S_RegevoSetOrder and any unknown key: reachable (fail closed) *)

Definition reach (w : world) (c : cfg) (s : site) : bool := owner_ok c (s_owner s) && key_ok w c (s_key s).

Definition cls_plain_ok (k : Z) : bool :=
  (k =? K_Seeded) || (k =? K_CtorSeeded) || (k =? K_Dist) || (k =? K_CSSeed) || (k =? K_Pass).

(* ConfigSpace's own generator is part of the seeded stream iff the class executes a  <space>.seed(<seeded value>)  site *)
Definition cs_seeded (w : world) (c : cfg) (l : list site) : bool :=
  existsb (fun t => (s_cls t =? K_CSSeed) && reach w c t) l.

Definition site_fine (w : world) (c : cfg) (l : list site) (s : site) : bool :=
  cls_plain_ok (s_cls s) || ((s_cls s =? K_CS) && cs_seeded w c l).

Definition sites_ok (w : world) (c : cfg) (l : list site) : bool :=
  forallb (fun s => implb (reach w c s) (site_fine w c l s)) l.

(* indices of the reachable sites that are not fed by the seeded stream (targets of the search for a differing pair) *)
Fixpoint bad_sites_from (w : world) (c : cfg) (l all : list site) (i : Z) : list Z :=
  match l with
  | [] => []
  | s :: r => if reach w c s && negb (site_fine w c all s) then i :: bad_sites_from w c r all (i + 1) else bad_sites_from w c r all (i + 1)
  end.
Definition bad_sites (w : world) (c : cfg) (l : list site) : list Z := bad_sites_from w c l l 0.

(* can the class consume numpy's / Python's module-level generators? *)
(* (a Global draw, or a hand-over that omits / passes None for the random state: the callee falls back to check_random_state(None),
   numpy's global generator) *)
Definition may_touch_global (w : world) (c : cfg) (l : list site) : bool :=
  existsb (fun s => reach w c s && ((s_cls s =? K_Global) || (s_cls s =? K_PassFresh))) l.

Definition site_eqb (a b : site) : bool := (s_owner a =? s_owner b) && (s_key a =? s_key b) && (s_cls a =? s_cls b).
Definition site_in (s : site) (l : list site) : bool := existsb (site_eqb s) l.
(* the two defect sites of the pinned tree (regression witnesses; line numbers deliberately not part of a site's identity) *)
Definition prefix_mes_site : site := {| s_owner := O_CBO; s_key := S_MesRvs; s_cls := K_Global |}.          (* F09 *)
Definition fresh_search_site : site := {| s_owner := O_Any; s_key := S_FreshSearch; s_cls := K_CtorFresh |}.  (* F87: reached by numpy-integer seeds *)

(* ---- environment reads *)
Definition E_SetOrder := 0. Definition E_Hash := 1. Definition E_Id := 2. Definition E_Listing := 3. Definition E_Clock := 4.
Definition E_Pid := 5. Definition E_Entropy := 6. Definition E_SharedState := 7. Definition E_Host := 8.
Definition F_LogOnly := 0. Definition F_PathOnly := 1. Definition F_Flows := 2. Definition F_Owned := 3. Definition F_Parallelism := 4.

Record esite := { e_owner : Z; e_key : Z; e_kind : Z; e_flow : Z }.

Definition ereach (w : world) (c : cfg) (e : esite) : bool := owner_ok c (e_owner e) && key_ok w c (e_key e).
(* benign: the value only reaches log messages or the name of a file in the log directory; for state received from the caller
   (E_SharedState): the search works on its own deep copy (F_Owned); for a fact of the host (E_Host: CPUs the process may use): it only
   becomes a degree of parallelism (F_Parallelism) *)
Definition env_benign (e : esite) : bool :=
  (e_flow e =? F_LogOnly) || (e_flow e =? F_PathOnly) || (e_flow e =? F_Owned) || (e_flow e =? F_Parallelism).
Definition env_ok (w : world) (c : cfg) (l : list esite) : bool := forallb (fun e => implb (ereach w c e) (env_benign e)) l.
Definition esite_eqb (a b : esite) : bool := (e_owner a =? e_owner b) && (e_key a =? e_key b) && (e_kind a =? e_kind b) && (e_flow a =? e_flow b).
Definition esite_in (e : esite) (l : list esite) : bool := existsb (esite_eqb e) l.
Definition prefix_regevo_site : esite := {| e_owner := O_RegEvo; e_key := S_RegevoSetOrder; e_kind := E_SetOrder; e_flow := F_Flows |}.   (* F47 *)

(* ------------------------------------------------------------------ the instance as a program *)
Definition src_at (w : world) (c : cfg) (l : list site) (i : nat) : src :=
  match nth_error l i with
  | Some s => if site_fine w c l s then SSeeded else SGlobal
  | None => SGlobal
  end.

Section Instance.
  Variable out : list Z -> Z.   (* the deterministic computation of the code between draws: any function of the values drawn so far *)
  (* visit the sources in order; after every draw emit one observable token *)
  Fixpoint prog_of (srcs : list src) (acc : list Z) : prog :=
    match srcs with
    | [] => Ret
    | s :: r => Draw s (fun x => Emit (out (x :: acc)) (prog_of r (x :: acc)))
    end.
End Instance.

(* trace acceptance: the sites an observed run executed (indices into l) are all reachable for its class and seeded *)
Definition accept (w : world) (c : cfg) (l : list site) (sched : list nat) : bool :=
  forallb (fun i => match nth_error l i with Some s => reach w c s && site_fine w c l s | None => false end) sched.
(* which observed sites the table declares unreachable (the table is wrong) / not seeded *)
Definition unreachable_observed (w : world) (c : cfg) (l : list site) (sched : list nat) : list nat :=
  filter (fun i => match nth_error l i with Some s => negb (reach w c s) | None => true end) sched.
