(* C07 - the hand-written tables that turn the GENERATED string facts (Generated/Facts_C07.v) into the numeric sites of Model.v.
   NOT extracted (strings).  The translator (harness/vp/props/c07.py) PARSES the two tables below (one entry per line, this exact
   shape) to emit the numeric copies rng_sites_num / env_sites_num; theorem C07_sites_complete re-computes them here and checks the
   equality, so the tables have one source (this file) and a parse error breaks a proof obligation.

   owner_table : which search class executes code of a file (O_Any = every class).  A file that is not listed is O_Any.
   key_table   : the call sites whose reachability is NOT "whenever the owner class runs"; identified by
                 (file, enclosing function, dotted callee, outermost enclosing if-test) - not by line number, so that edits that
                 only move code do not alarm, while a new global draw elsewhere in the same function has a different guard or
                 callee and is therefore reachable by default (fail closed). *)
From Coq Require Import List ZArith Bool String.
Import ListNotations.
Require Import DH.C07_Repro.Model.
Open Scope string_scope.
Open Scope Z_scope.

Definition owner_table : list (string * Z) := [
  ("hpo/_search.py", O_Any);
  ("hpo/_cbo.py", O_CBO);
  ("hpo/_random.py", O_Random);
  ("hpo/_regevo.py", O_RegEvo);
  ("skopt/optimizer/optimizer.py", O_CBO);
  ("skopt/space/space.py", O_CBO);
  ("skopt/acquisition.py", O_CBO);
  ("skopt/moo/_multiobjective.py", O_CBO)
].

(* Why each entry is (un)reachable is stated next to its constant in Model.v [key_ok]:
   S_FreshSearch / S_FreshMoo : the else-branch of `if <seed test> ... elif isinstance(random_state, RandomState)` (the translator
                                writes every recognised spelling of the test - `type(random_state) is int`, isinstance(random_state,
                                numbers.Integral), ... - as <seed test>);
                                which integers the test accepts is the generated fact seed_test_accepts_numpy_int [key_ok];
                                Optimizer._moo_scalarize passes random_state=self.rng (a Pass site), never an integer.
   S_SampleChoice             : needs Optimizer._sample_max_size > 0; CBO never passes sample_max_size (fact cbo_opt_kwargs) and the
                                default is -1 (fact sample_max_size_default): [world_of_facts].
   S_MesRvs                   : _gaussian_acquisition calls gaussian_mes only for acq_func in ["MES"] (after stripping the "d").
   S_SdvSample / S_SdvSetOrder: Space.model_sdv is None unless CBO.fit_generative_model was called (outside the quantifier).
   S_RegevoSetOrder           : reachable by every RegularizedEvolution search once the population is full.
   S_InternalAlias            : Optimizer / Space keep the space objects they are constructed with; they are internal classes whose only
                                constructions inside the anchors pass objects derived from Search._problem (deep copy of the caller's problem,
                                environment site Search.__init__ self._problem=copy.deepcopy [Owned]); validated by the shared-problem process pairs. *)
Definition key_table : list ((string * string * string * string) * Z) := [
  (("hpo/_search.py", "Search.__init__", "np.random.RandomState", "else:<seed test>"), S_FreshSearch);
  (("skopt/moo/_multiobjective.py", "MoScalarFunction.__init__", "np.random.RandomState", "else:<seed test>"), S_FreshMoo);
  (("skopt/optimizer/optimizer.py", "Optimizer._sample", "np.random.choice", "if:self._sample_max_size > 0 and size > self._sample_max_size"), S_SampleChoice);
  (("skopt/acquisition.py", "gaussian_mes", "norm.rvs", ""), S_MesRvs);
  (("skopt/space/space.py", "Space.rvs", "self.model_sdv.sample", "if:self.config_space"), S_SdvSample);
  (("skopt/space/space.py", "Space.rvs", "self.model_sdv.sample", "else:self.config_space"), S_SdvSample);
  (("skopt/space/space.py", "Space.rvs", "list:set(hps_names) - set(sdv_names)", "if:self.config_space"), S_SdvSetOrder);
  (("hpo/_regevo.py", "RegularizedEvolution._ask", "list:space.get_active_hyperparameters", "else:len(self._population) < self.population_size"), S_RegevoSetOrder);
  (("skopt/optimizer/optimizer.py", "Optimizer.__init__", "self.space=dimensions", "if:isinstance(dimensions, Space)"), S_InternalAlias);
  (("skopt/optimizer/optimizer.py", "Optimizer.__init__", "self.space=Space", "else:isinstance(dimensions, Space)"), S_InternalAlias);
  (("skopt/space/space.py", "Space.__init__", "self.config_space=config_space", ""), S_InternalAlias)
].

Definition str4 := (string * string * string * string)%type.
Definition str4_eqb (a b : str4) : bool :=
  match a, b with
  | (a1, a2, a3, a4), (b1, b2, b3, b4) => String.eqb a1 b1 && String.eqb a2 b2 && String.eqb a3 b3 && String.eqb a4 b4
  end.

Fixpoint lookup_owner (f : string) (t : list (string * Z)) : Z :=
  match t with [] => O_Any | (g, o) :: r => if String.eqb f g then o else lookup_owner f r end.
Fixpoint lookup_key (k : str4) (t : list (str4 * Z)) : Z :=
  match t with [] => S_None | (g, v) :: r => if str4_eqb k g then v else lookup_key k r end.

(* shape of the generated facts:  ((file, function, callee, guard), (classification, line, end line)) *)
Definition fact_site := (str4 * (Z * Z * Z))%type.
Definition fact_env := (str4 * (Z * Z * Z))%type.          (* (kind, flow, line) *)

Definition file_of (k : str4) : string := match k with (f, _, _, _) => f end.

Definition num_site (f : fact_site) : site :=
  match f with (k, (cls, _, _)) => {| s_owner := lookup_owner (file_of k) owner_table; s_key := lookup_key k key_table; s_cls := cls |} end.
Definition num_env (f : fact_env) : esite :=
  match f with (k, (kind, flow, _)) => {| e_owner := lookup_owner (file_of k) owner_table; e_key := lookup_key k key_table; e_kind := kind; e_flow := flow |} end.

Definition site_triple (s : site) : Z * Z * Z := (s_owner s, s_key s, s_cls s).
Definition esite_quad (e : esite) : Z * Z * Z * Z := (e_owner e, e_key e, e_kind e, e_flow e).

Definition world_of_facts (cbo_opt_kwargs : list string) (sample_max_size_default : Z) (seed_test_accepts_numpy_int : bool) : world :=
  {| w_sample_possible := existsb (String.eqb "sample_max_size") cbo_opt_kwargs || (0 <? sample_max_size_default);
     w_npint_seeded := seed_test_accepts_numpy_int |}.
