(* C07 - proofs that do not depend on the generated facts. *)
From Coq Require Import List ZArith Bool Lia Arith.
Import ListNotations.
Require Import DH.C07_Repro.Model DH.C07_Repro.Check.
Open Scope Z_scope.

(* ------------------------------------------------------------------ the effect language *)
Lemma run_no_global : forall p, no_global p -> forall sd g g' i j j', run p sd g i j = run p sd g' i j'.
Proof.
  induction p as [|v p IH|s k IH]; intros Hng sd g g' i j j'; cbn [run].
  - reflexivity.
  - f_equal. apply IH. exact Hng.
  - destruct s; cbn [no_global] in Hng.
    + apply IH. apply Hng.
    + contradiction.
Qed.

Lemma global_used_no_global : forall p, no_global p -> forall sd g i j, global_used p sd g i j = 0%nat.
Proof.
  induction p as [|v p IH|s k IH]; intros Hng sd g i j; cbn [global_used].
  - reflexivity.
  - apply IH. exact Hng.
  - destruct s; cbn [no_global] in Hng.
    + apply IH. apply Hng.
    + contradiction.
Qed.

(* a run that consumed nothing from the global stream does not depend on it - the dynamic reading of the same fact:
   what the harness observes (the state of the global generators did not change) is sufficient for independence *)
Lemma run_global_unused : forall p sd g i j, global_used p sd g i j = 0%nat -> forall g' j', run p sd g i j = run p sd g' i j'.
Proof.
  induction p as [|v p IH|s k IH]; intros sd g i j Hu g' j'; cbn [run]; cbn [global_used] in Hu.
  - reflexivity.
  - f_equal. apply IH. exact Hu.
  - destruct s.
    + apply IH. exact Hu.
    + discriminate.
Qed.

(* one global draw that reaches the output is enough to lose reproducibility *)
Definition leak : prog := Draw SGlobal (fun x => Emit x Ret).
Lemma global_draw_refuted : exists p sd g g', run p sd g 0 0 <> run p sd g' 0 0.
Proof.
  exists leak, (fun _ => 0), (fun _ => 0), (fun _ => 1). cbn. discriminate.
Qed.

(* A guarded draw: no value of the global stream reaches the output, every emitted value comes from the seeded stream - and still the
   proposals are not a function of the seed: the ambient bit moves the position of the seeded stream. *)
Lemma guarded_refuted : exists sd g g',
  run (guarded propose_next) sd g 0 0 <> run (guarded propose_next) sd g' 0 0 /\
  seeded_used (guarded propose_next) sd g 0 0 <> seeded_used (guarded propose_next) sd g' 0 0 /\
  (forall v, In v (run (guarded propose_next) sd g 0 0) -> exists i, v = sd i) /\
  (forall v, In v (run (guarded propose_next) sd g' 0 0) -> exists i, v = sd i).
Proof.
  exists (fun i => Z.of_nat i), (fun _ => 0), (fun _ => 1). cbn. repeat split.
  - discriminate.
  - discriminate.
  - intros v [H|[]]. exists 0%nat. symmetry. exact H.
  - intros v [H|[]]. exists 1%nat. symmetry. exact H.
Qed.

(* the same with a host fact used as a count (2 CPUs in one process, 16 in the other) *)
Lemma counted_refuted : exists sd g g',
  run (counted propose_next) sd g 0 0 <> run (counted propose_next) sd g' 0 0 /\
  (forall v, In v (run (counted propose_next) sd g 0 0) -> exists i, v = sd i) /\
  (forall v, In v (run (counted propose_next) sd g' 0 0) -> exists i, v = sd i).
Proof.
  exists (fun i => Z.of_nat i), (fun _ => 2), (fun _ => 16). vm_compute. repeat split.
  - discriminate.
  - intros v [H|[]]. exists 2%nat. symmetry. exact H.
  - intros v [H|[]]. exists 16%nat. symmetry. exact H.
Qed.

(* a count that is an OPTION of the search (a constant of the program) is harmless *)
Lemma fixed_count_deterministic : forall n rest, no_global rest -> forall sd g g' i j j',
  run (skip n rest) sd g i j = run (skip n rest) sd g' i j'.
Proof.
  intros n rest H sd g g' i j j'. apply run_no_global. clear sd g g' i j j'.
  induction n as [|n IH]; cbn [skip no_global]; [exact H | intros _; exact IH].
Qed.

(* without the guard (the same draws, unconditionally) the run is a function of the seeded stream alone *)
Lemma unguarded_deterministic : forall rest, no_global rest -> forall sd g g' i j j',
  run (Draw SSeeded (fun _ => rest)) sd g i j = run (Draw SSeeded (fun _ => rest)) sd g' i j'.
Proof.
  intros rest H sd g g' i j j'. apply run_no_global. cbn [no_global]. intros _. exact H.
Qed.

(* "different seeds give different sequences" cannot hold for every program (a program may ignore its draws); it holds for the
   programs that emit an injective function of a draw on which the two seeded streams differ *)
Lemma seed_sensitive : forall (out : list Z -> Z) sd sd' g,
  out [sd 0%nat] <> out [sd' 0%nat] ->
  run (prog_of out [SSeeded] []) sd g 0 0 <> run (prog_of out [SSeeded] []) sd' g 0 0.
Proof.
  intros out sd sd' g H. cbn. intros E. inversion E. contradiction.
Qed.

(* ------------------------------------------------------------------ several calls on one object *)
Lemma run_seq : forall p q sd g i j,
  run (seq p q) sd g i j = run p sd g i j ++ run q sd g (i + seeded_used p sd g i j) (j + global_used p sd g i j).
Proof.
  induction p as [|v p IH|s k IH]; intros q sd g i j; cbn [seq run seeded_used global_used app].
  - rewrite !Nat.add_0_r. reflexivity.
  - rewrite IH. reflexivity.
  - destruct s; rewrite IH.
    + rewrite Nat.add_succ_r. reflexivity.
    + rewrite Nat.add_succ_r. reflexivity.
Qed.

Lemma no_global_seq : forall p q, no_global p -> no_global q -> no_global (seq p q).
Proof.
  induction p as [|v p IH|s k IH]; intros q Hp Hq; cbn [seq no_global] in *.
  - exact Hq.
  - apply IH; assumption.
  - destruct s; [|contradiction]. intros x. apply IH; [apply Hp | exact Hq].
Qed.

(* k calls propose what one long call proposes, and neither depends on the global stream *)
Lemma calls_compose : forall p q, no_global p -> no_global q -> forall sd g g' i j j',
  run (seq p q) sd g i j = run p sd g' i j' ++ run q sd g' (i + seeded_used p sd g' i j') j'.
Proof.
  intros p q Hp Hq sd g g' i j j'. rewrite run_seq.
  rewrite (global_used_no_global p Hp). rewrite Nat.add_0_r.
  assert (Hs : forall a b, seeded_used p sd g i a = seeded_used p sd g' i b).
  { clear q Hq. revert Hp i. induction p as [|v p IH|s k IH]; intros Hp i0 a b; cbn [seeded_used no_global] in *.
    - reflexivity.
    - apply IH. exact Hp.
    - destruct s; [|contradiction]. f_equal. apply IH. apply Hp. }
  rewrite (Hs j j'). rewrite (run_no_global p Hp sd g g' i j j').
  rewrite (run_no_global q Hq sd g g' _ j j'). reflexivity.
Qed.

(* ------------------------------------------------------------------ the instance *)
Lemma prog_of_no_global : forall out srcs acc, (forall s, In s srcs -> s = SSeeded) -> no_global (prog_of out srcs acc).
Proof.
  intros out srcs. induction srcs as [|s r IH]; intros acc H; cbn [prog_of no_global].
  - exact I.
  - rewrite (H s (or_introl eq_refl)). cbn [no_global]. intros x. apply IH. intros s' Hs'. apply H. right. exact Hs'.
Qed.

Lemma accept_srcs : forall w c l sched, accept w c l sched = true -> forall s, In s (map (src_at w c l) sched) -> s = SSeeded.
Proof.
  intros w c l sched Ha s Hs. apply in_map_iff in Hs. destruct Hs as [i [Ei Hi]]. subst s.
  unfold accept in Ha. rewrite forallb_forall in Ha. specialize (Ha i Hi). unfold src_at.
  destruct (nth_error l i) as [st|]; [|discriminate].
  apply andb_true_iff in Ha. destruct Ha as [_ Hf]. rewrite Hf. reflexivity.
Qed.

(* Soundness of trace acceptance: if every site an execution visits is reachable-and-seeded, then the execution - whatever the
   order of the visits and whatever deterministic computation [out] the code performs between draws - proposes the same
   configurations for every state of the global stream. *)
Lemma accept_sound : forall w c l sched, accept w c l sched = true ->
  forall out sd g g' j j', run (prog_of out (map (src_at w c l) sched) []) sd g 0 j = run (prog_of out (map (src_at w c l) sched) []) sd g' 0 j'.
Proof.
  intros w c l sched Ha out sd g g' j j'. apply run_no_global. apply prog_of_no_global. apply (accept_srcs w c l sched Ha).
Qed.

Lemma accept_global_unused : forall w c l sched, accept w c l sched = true ->
  forall out sd g j, global_used (prog_of out (map (src_at w c l) sched) []) sd g 0 j = 0%nat.
Proof.
  intros w c l sched Ha out sd g j. apply global_used_no_global. apply prog_of_no_global. apply (accept_srcs w c l sched Ha).
Qed.

(* the static check implies acceptance of every schedule over reachable sites *)
Lemma sites_ok_accept : forall w c l sched, sites_ok w c l = true ->
  (forall i, In i sched -> exists s, nth_error l i = Some s /\ reach w c s = true) -> accept w c l sched = true.
Proof.
  intros w c l sched Hok Hs. unfold accept. apply forallb_forall. intros i Hi.
  destruct (Hs i Hi) as [s [En Hr]]. rewrite En. rewrite Hr. cbn [andb].
  unfold sites_ok in Hok. rewrite forallb_forall in Hok. specialize (Hok s (nth_error_In l i En)). rewrite Hr in Hok. exact Hok.
Qed.

Lemma sites_ok_deterministic : forall w c l, sites_ok w c l = true -> forall sched,
  (forall i, In i sched -> exists s, nth_error l i = Some s /\ reach w c s = true) ->
  forall out sd g g' j j', run (prog_of out (map (src_at w c l) sched) []) sd g 0 j = run (prog_of out (map (src_at w c l) sched) []) sd g' 0 j'.
Proof.
  intros w c l Hok sched Hs. apply accept_sound. apply sites_ok_accept; assumption.
Qed.

(* ------------------------------------------------------------------ refutation lemmas (generic in the site list) *)
Lemma site_eqb_eq a b : site_eqb a b = true -> s_owner a = s_owner b /\ s_key a = s_key b /\ s_cls a = s_cls b.
Proof.
  unfold site_eqb. rewrite !andb_true_iff, !Z.eqb_eq. tauto.
Qed.

Lemma site_fine_by_cls w c l a b : s_cls a = s_cls b -> site_fine w c l a = site_fine w c l b.
Proof. intros E. unfold site_fine. rewrite E. reflexivity. Qed.

Lemma reach_by_fields w c a b : s_owner a = s_owner b -> s_key a = s_key b -> reach w c a = reach w c b.
Proof. intros E1 E2. unfold reach. rewrite E1, E2. reflexivity. Qed.

Lemma bad_site_breaks : forall w c l s, site_in s l = true -> reach w c s = true -> site_fine w c l s = false -> sites_ok w c l = false.
Proof.
  intros w c l s Hin Hr Hf. unfold site_in in Hin. apply existsb_exists in Hin. destruct Hin as [t [Ht E]].
  apply site_eqb_eq in E. destruct E as [E1 [E2 E3]].
  destruct (sites_ok w c l) eqn:Hok; [|reflexivity]. exfalso.
  unfold sites_ok in Hok. rewrite forallb_forall in Hok. specialize (Hok t Ht).
  rewrite <- (reach_by_fields w c s t E1 E2), Hr in Hok. cbn [implb] in Hok.
  rewrite <- (site_fine_by_cls w c l s t E3) in Hok. congruence.
Qed.

Lemma mes_site_breaks : forall w c l, is_mes c = true -> site_in prefix_mes_site l = true -> sites_ok w c l = false.
Proof.
  intros w c l Hm Hin. apply (bad_site_breaks w c l prefix_mes_site Hin).
  - unfold is_mes in Hm. destruct (c_search c) eqn:Es; try discriminate. destruct (c_acq c) eqn:Ea; try discriminate.
    unfold reach, owner_ok, key_ok, is_mes, prefix_mes_site. cbn [s_owner s_key]. rewrite Es, Ea. reflexivity.
  - reflexivity.
Qed.

Lemma fresh_site_breaks : forall w c l, np_seed c = true -> w_npint_seeded w = false -> site_in fresh_search_site l = true -> sites_ok w c l = false.
Proof.
  intros w c l Hn Hw Hin. apply (bad_site_breaks w c l fresh_search_site Hin).
  - unfold np_seed in Hn. destruct (c_seed c) eqn:Es; try discriminate.
    unfold reach, owner_ok, key_ok, fresh_search_site. cbn [s_owner s_key]. rewrite Es, Hw. reflexivity.
  - reflexivity.
Qed.

Lemma esite_eqb_eq a b : esite_eqb a b = true -> e_owner a = e_owner b /\ e_key a = e_key b /\ e_kind a = e_kind b /\ e_flow a = e_flow b.
Proof.
  unfold esite_eqb. rewrite !andb_true_iff, !Z.eqb_eq. tauto.
Qed.

Lemma regevo_site_breaks : forall w c l, is_regevo c = true -> esite_in prefix_regevo_site l = true -> env_ok w c l = false.
Proof.
  intros w c l Hm Hin. unfold esite_in in Hin. apply existsb_exists in Hin. destruct Hin as [t [Ht E]].
  apply esite_eqb_eq in E. destruct E as [E1 [E2 [E3 E4]]].
  destruct (env_ok w c l) eqn:Hok; [|reflexivity]. exfalso.
  unfold env_ok in Hok. rewrite forallb_forall in Hok. specialize (Hok t Ht).
  unfold ereach, env_benign in Hok. rewrite <- E1, <- E2, <- E4 in Hok. unfold is_regevo in Hm.
  destruct (c_search c) eqn:Es; try discriminate.
  unfold prefix_regevo_site, owner_ok, key_ok in Hok. cbn [e_owner e_key e_flow] in Hok. rewrite Es in Hok. vm_compute in Hok. discriminate.
Qed.
