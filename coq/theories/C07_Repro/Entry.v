(* Entry points for the extracted driver: data -> data.  Imports Model / Check only. *)
From Coq Require Import List ZArith Bool.
Import ListNotations.
Require Import DH.Common.Data DH.C07_Repro.Model DH.C07_Repro.Check.
Open Scope Z_scope.

Definition d_search (d : data) : search_t := let z := dZ d in if z =? 0 then CBO else if z =? 1 then RandomSearch else RegEvo.
Definition d_acq (d : data) : acq_t :=
  let z := dZ d in if z =? 0 then UCB else if z =? 1 then EI else if z =? 2 then PI else if z =? 3 then MES else GPHedge.

Definition d_seed (d : data) : seed_t :=
  let z := dZ d in if z =? 0 then SeedPyInt else if z =? 1 then SeedNpInt else if z =? 2 then SeedRandomState else SeedOther.
(* [search; surrogate; acq; d; strategy; init; cond; moo; transfer; seed kind] *)
Definition d_cfg (d : data) : cfg :=
  {| c_search := d_search (dnth 0 d); c_surr := dZ (dnth 1 d); c_acq := d_acq (dnth 2 d); c_acq_d := dbool (dnth 3 d);
     c_strategy := dZ (dnth 4 d); c_init := dZ (dnth 5 d); c_cond := dbool (dnth 6 d); c_moo := dbool (dnth 7 d);
     c_transfer := dbool (dnth 8 d); c_seed := d_seed (dnth 9 d) |}.
Definition d_world (d : data) : world := {| w_sample_possible := dbool (dnth 0 d); w_npint_seeded := dbool (dnth 1 d) |}.
Definition d_site (d : data) : site := {| s_owner := dZ (dnth 0 d); s_key := dZ (dnth 1 d); s_cls := dZ (dnth 2 d) |}.
Definition d_esite (d : data) : esite := {| e_owner := dZ (dnth 0 d); e_key := dZ (dnth 1 d); e_kind := dZ (dnth 2 d); e_flow := dZ (dnth 3 d) |}.
Definition d_trace (d : data) : trace := dmap (dmap dZ) d.

Definition entries : list (Z * (data -> data)) :=
  [ (* 701: [A; B; C] -> [verdict; first index at which A and B differ] *)
    (701, fun d => L [eZ (ok_C07 (d_trace (dnth 0 d)) (d_trace (dnth 1 d)) (d_trace (dnth 2 d)));
                      enat (first_diff (d_trace (dnth 0 d)) (d_trace (dnth 1 d)))]);
    (* 702..: [world; cfg; sites; ...] *)
    (702, fun d => ebool (accept (d_world (dnth 0 d)) (d_cfg (dnth 1 d)) (dmap d_site (dnth 2 d)) (dmap dnat (dnth 3 d))));
    (703, fun d => ebool (sites_ok (d_world (dnth 0 d)) (d_cfg (dnth 1 d)) (dmap d_site (dnth 2 d))));
    (704, fun d => ebool (may_touch_global (d_world (dnth 0 d)) (d_cfg (dnth 1 d)) (dmap d_site (dnth 2 d))));
    (705, fun d => elist eZ (bad_sites (d_world (dnth 0 d)) (d_cfg (dnth 1 d)) (dmap d_site (dnth 2 d))));
    (706, fun d => ebool (env_ok (d_world (dnth 0 d)) (d_cfg (dnth 1 d)) (dmap d_esite (dnth 2 d))));
    (707, fun d => elist enat (unreachable_observed (d_world (dnth 0 d)) (d_cfg (dnth 1 d)) (dmap d_site (dnth 2 d)) (dmap dnat (dnth 3 d)))) ].
