(* Model of the task/job bookkeeping of deephyper.evaluator.Evaluator (submit / gather / close / dump).

   What is modelled (src/deephyper/evaluator/_evaluator.py):
     _create_tasks            -> [submit_one]      (budget test, id allocation, task appended to _tasks_running)
     _await_at_least_n_tasks  -> [await_n]         (n clipped to the number of running tasks; ALL_COMPLETED when n = running;
                                                    otherwise a loop of FIRST_COMPLETED wake-ups, each returning every task done so far)
     process_local_tasks_done -> [process]         (non-cancelled done tasks: returned, removed from _tasks_running, id -> job_id_gathered)
     close                    -> [close]           (cancel, drain finished tasks, mark the rest CANCELLED)
     dump (regular format)    -> [dump]
   The completion schedule [sched] is the list of event-loop wake-ups, each the set of running tasks that finish in it
   (several completions in one wake-up, jobs queued behind the worker semaphore simply finish in a later wake-up).
   The first group is what has finished by the first wake-up (it is applied before the first test of the loop).
   An exhausted schedule completes the remaining tasks oldest first (every run-function returns).
   [fix] = true : close() empties _tasks_running (the repaired code, /repo HEAD);  false: the pinned code, where the
   cancelled tasks stay in _tasks_running and belong to a closed loop (finding F01). *)
From Coq Require Import List ZArith Bool Arith.
Import ListNotations.

Definition memn (x : nat) (l : list nat) : bool := existsb (Nat.eqb x) l.
Fixpoint remove1n (x : nat) (l : list nat) : list nat :=
  match l with [] => [] | y :: t => if Nat.eqb x y then t else y :: remove1n x t end.

Inductive delivery := Returned | ClosedDone | ClosedCancelled.

Record ev := mkEv {
  njobs : nat;                  (* jobs created so far; job ids are 0 .. njobs-1 *)
  payload : list (Z * Z);       (* per job id: configuration submitted, value its run-function returns *)
  tasks : list nat;             (* _tasks_running *)
  fin : list nat;               (* tasks that have finished but are not yet processed *)
  dead : list nat;              (* cancelled tasks of a closed loop still in _tasks_running (only when fix = false) *)
  gathered : list nat;          (* job_id_gathered *)
  done_q : list (nat * bool);   (* jobs_done awaiting dump: id, true = DONE / false = CANCELLED *)
  offset : nat;                 (* _num_jobs_offset *)
  maxjobs : Z;                  (* maximum_num_jobs_submitted, -1 = unlimited *)
  loop_open : bool;
  log : list (nat * delivery)   (* ghost: every hand-back, in order *)
}.

Definition init : ev := mkEv 0 [] [] [] [] [] [] 0 (-1)%Z false [].

Inductive op :=
| Submit (cs : list (Z * Z))
| GatherAll (sched : list (list nat))
| GatherBatch (k : nat) (sched : list (list nat))
| Close (g : list nat)     (* g: tasks whose coroutine completes before the cancellation takes effect *)
| Dump
| SetMax (m : Z)
| Tick (g : list nat).      (* the event loop runs outside gather/close (a caller driving evaluator.loop): tasks of g finish *)

Inductive out :=
| OSubmitted (ids : list nat)
| OMaxReached (ids : list nat)               (* MaximumJobsSpawnReached after creating ids *)
| OJobs (l : list (nat * Z * Z))             (* gather: id, configuration, value *)
| ONoJobsPending                             (* ValueError "No jobs pending" *)
| OLoopClosed                                (* RuntimeError "Event loop is closed" *)
| ORows (l : list (nat * bool))              (* rows written by dump *)
| ONone.

Definition num_submitted (s : ev) : nat := njobs s - offset s.
Definition num_gathered (s : ev) : nat := length (gathered s) - offset s.

Definition set_tasks s t f := mkEv (njobs s) (payload s) t f (dead s) (gathered s) (done_q s) (offset s) (maxjobs s) (loop_open s) (log s).

(* ---- submit ---- *)
Definition budget_hit (s : ev) : bool :=
  (0 <? maxjobs s)%Z && (maxjobs s <=? Z.of_nat (num_submitted s))%Z.

Definition submit_one (s : ev) (c : Z * Z) : ev :=
  mkEv (S (njobs s)) (payload s ++ [c]) (tasks s ++ [njobs s]) (fin s) (dead s) (gathered s) (done_q s)
       (offset s) (maxjobs s) (loop_open s) (log s).

Fixpoint submit_list (s : ev) (cs : list (Z * Z)) (acc : list nat) : ev * out :=
  match cs with
  | [] => (s, OSubmitted acc)
  | c :: t => if budget_hit s then (s, OMaxReached acc) else submit_list (submit_one s c) t (acc ++ [njobs s])
  end.

Definition open_loop s := mkEv (njobs s) (payload s) (tasks s) (fin s) (dead s) (gathered s) (done_q s) (offset s) (maxjobs s) true (log s).

(* ---- completions ---- *)
Definition pending (s : ev) : list nat := filter (fun j => negb (memn j (fin s)) && negb (memn j (dead s))) (tasks s).

(* the tasks of group g that are running and not yet finished, finish (in task order; duplicates in g are harmless) *)
Definition complete_group (g : list nat) (s : ev) : ev :=
  set_tasks s (tasks s) (fin s ++ filter (fun j => memn j g) (pending s)).

Definition complete_oldest (s : ev) : ev :=
  match pending s with [] => s | j :: _ => set_tasks s (tasks s) (fin s ++ [j]) end.

Definition complete_all (s : ev) : ev := set_tasks s (tasks s) (fin s ++ pending s).

(* while len(done) < n: done = wait(FIRST_COMPLETED) *)
Fixpoint await_n (fuel n : nat) (sched : list (list nat)) (s : ev) : ev :=
  if Nat.leb n (length (fin s)) then s else
  match fuel with
  | O => s
  | S f =>
    match sched with
    | g :: rest => await_n f n rest (complete_group g s)
    | [] => await_n f n [] (complete_oldest s)
    end
  end.

Definition lookup_payload (s : ev) (j : nat) : Z * Z := nth j (payload s) (0%Z, 0%Z).

(* process_local_tasks_done on the finished tasks *)
Definition process (d : delivery) (s : ev) : ev * list (nat * Z * Z) :=
  let r := fin s in
  (mkEv (njobs s) (payload s) (fold_left (fun t j => remove1n j t) r (tasks s)) [] (dead s)
        (gathered s ++ r) (done_q s ++ map (fun j => (j, true)) r) (offset s) (maxjobs s) (loop_open s)
        (log s ++ map (fun j => (j, d)) r),
   map (fun j => (j, fst (lookup_payload s j), snd (lookup_payload s j))) r).

Definition gather (n : nat) (all : bool) (sched : list (list nat)) (s : ev) : ev * out :=
  let running := length (tasks s) in
  let n := if all then running else n in
  if Nat.eqb n 0 then (s, OJobs [])                      (* size = 0: the loop is not run, nothing was done *)
  else if negb (Nat.eqb (length (dead s)) 0) then (s, OLoopClosed)  (* asyncio.wait on tasks of a closed loop *)
  else if Nat.eqb running 0 then (s, ONoJobsPending)
  else
    let n := Nat.min n running in
    let s1 := if Nat.eqb n running then complete_all s
              else match sched with
                   | [] => await_n (length (tasks s)) n [] s
                   | g :: rest => await_n (length rest + length (tasks s)) n rest (complete_group g s)
                   end in
    let (s2, l) := process Returned s1 in (s2, OJobs l).

(* ---- close ---- *)
Definition close (fix_ : bool) (s : ev) : ev * out :=
  if negb (loop_open s) then (s, ONone)
  else if Nat.eqb (length (tasks s)) 0 then
    (mkEv (njobs s) (payload s) [] [] (dead s) (gathered s) (done_q s) (offset s) (maxjobs s) false (log s), ONone)
  else if negb (Nat.eqb (length (dead s)) 0) then (s, OLoopClosed)
  else
    let p := pending s in
    let (s1, _) := process ClosedDone s in
    (mkEv (njobs s1) (payload s1) (if fix_ then [] else tasks s1) [] (if fix_ then [] else p)
          (gathered s1 ++ p) (done_q s1 ++ map (fun j => (j, false)) p) (offset s1) (maxjobs s1) false
          (log s1 ++ map (fun j => (j, ClosedCancelled)) p), ONone).

(* ---- dump (regular format): every job in jobs_done is written, then the list is reset ---- *)
Definition dump (s : ev) : ev * out :=
  (mkEv (njobs s) (payload s) (tasks s) (fin s) (dead s) (gathered s) [] (offset s) (maxjobs s) (loop_open s) (log s),
   ORows (done_q s)).

(* set_maximum_num_jobs_submitted: the offset is computed from the (already offset) gathered count *)
Definition set_max (m : Z) (s : ev) : ev :=
  mkEv (njobs s) (payload s) (tasks s) (fin s) (dead s) (gathered s) (done_q s) (num_gathered s) m (loop_open s) (log s).

Definition step (fix_ : bool) (s : ev) (o : op) : ev * out :=
  match o with
  | Submit cs => submit_list (open_loop s) cs []
  | GatherAll sched => gather 0 true sched s
  | GatherBatch k sched => gather k false sched s
  | Close g => close fix_ (if loop_open s then complete_group g s else s)
  | Dump => dump s
  | SetMax m => (set_max m s, ONone)
  | Tick g => (complete_group g s, ONone)
  end.

Definition run (fix_ : bool) (ops : list op) : ev := fold_left (fun s o => fst (step fix_ s o)) ops init.

Fixpoint run_outs (fix_ : bool) (s : ev) (ops : list op) : list out :=
  match ops with [] => [] | o :: t => let (s', r) := step fix_ s o in r :: run_outs fix_ s' t end.

(* ---- acceptance form: the OBSERVED set of returned ids of a gather instead of a schedule ---- *)
Definition subsetn (a b : list nat) : bool := forallb (fun x => memn x b) a.
Fixpoint nodupn (l : list nat) : bool := match l with [] => true | x :: t => negb (memn x t) && nodupn t end.

Definition accept_gather (k : nat) (all : bool) (r : list nat) (s : ev) : option ev :=
  let running := length (tasks s) in
  let n := if all then running else k in
  if Nat.eqb n 0 then (match r with [] => Some s | _ => None end)
  else if negb (Nat.eqb (length (dead s)) 0) then None
  else if Nat.eqb running 0 then None
  else
    if nodupn r && subsetn (fin s) r && subsetn r (tasks s) && Nat.leb (Nat.min n running) (length r)
    then Some (fst (process Returned (complete_group r s)))
    else None.
