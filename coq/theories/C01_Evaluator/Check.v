(* Acceptance oracle: replays an OBSERVED history of the real evaluator on the model.
   Every accepted event is a step of the model (accept_event_is_step), so the theorems about all runs apply to it. *)
From Coq Require Import List ZArith Bool Arith.
Import ListNotations.
Require Import DH.C01_Evaluator.Model.

Inductive obs :=
| EvSubmit (cs : list (Z * Z)) (exc : nat)                          (* exc: 0 none, 1 MaximumJobsSpawnReached *)
| EvGather (all : bool) (k : nat) (exc : nat) (r : list (nat * Z * Z))  (* exc: 0 none, 1 ValueError(no jobs pending), 2 any other *)
| EvClose (d c : list nat)                                           (* ids recorded DONE / CANCELLED by this close *)
| EvDump (rows : list (nat * bool)) (pay : list (nat * Z * Z))   (* rows written: id, DONE?; payload cells of the DONE rows *)
| EvSetMax (m : Z)
| EvSettle (g : list nat).      (* the harness let the loop run until idle: the run-functions of g have returned, their tasks are done *)

(* observed counters after the call: num_jobs_submitted, num_jobs_gathered, len(_tasks_running) (or -1 = not observed) *)
Definition counters := (Z * Z * Z)%type.

Definition same_set (a b : list nat) : bool := nodupn a && nodupn b && subsetn a b && subsetn b a.

Definition pairb (x y : nat * bool) : bool := Nat.eqb (fst x) (fst y) && Bool.eqb (snd x) (snd y).
Definition same_rows (a b : list (nat * bool)) : bool :=
  Nat.eqb (length a) (length b) && forallb (fun x => existsb (pairb x) b) a && forallb (fun x => existsb (pairb x) a) b.

Definition payload_ok (s : ev) (r : list (nat * Z * Z)) : bool :=
  forallb (fun x => let '(j, c, v) := x in
     (Z.eqb c (fst (lookup_payload s j)) && Z.eqb v (snd (lookup_payload s j)))%bool) r.

(* clause codes: 1 exception mismatch, 2 illegal set of returned jobs (lost / twice / unknown), 3 batch too small,
   4 payload, 5 close ledger, 6 dump rows, 7 counters *)
Definition accept_event (s : ev) (e : obs) : ev + nat :=
  match e with
  | EvSubmit cs exc =>
      let (s', o) := step true s (Submit cs) in
      match o, exc with
      | OSubmitted _, O => inl s'
      | OMaxReached _, S O => inl s'
      | _, _ => inr 1
      end
  | EvGather all k exc r =>
      let ids := map (fun x => fst (fst x)) r in
      match snd (gather k all [] s), exc with
      | ONoJobsPending, S _ => inl s      (* nothing to wait for: the call raises (ValueError; AttributeError when no loop exists yet) *)
      | ONoJobsPending, O => inr 1
      | OLoopClosed, _ => inr 1
      | _, S _ => inr 1
      | _, O =>
        match accept_gather k all ids s with
        | Some s' => if payload_ok s r then inl s' else inr 4
        | None =>
            if nodupn ids && subsetn (fin s) ids && subsetn ids (tasks s) then inr 3 else inr 2
        end
      end
  | EvClose d c =>
      if negb (loop_open s) then (match d, c with [], [] => inl s | _, _ => inr 5 end)
      else
        let s1 := complete_group d s in
        if subsetn d (tasks s) && same_set (fin s1) d && same_set (pending s1) c
        then inl (fst (close true s1)) else inr 5
  | EvDump rows pay =>
      if same_rows rows (done_q s) && payload_ok s pay then inl (fst (dump s)) else inr 6
  | EvSetMax m => inl (set_max m s)
  | EvSettle g => if subsetn g (tasks s) then inl (complete_group g s) else inr 2
  end.

Definition counters_ok (s : ev) (c : counters) : bool :=
  let '(a, b, r) := c in
  (Z.eqb a (Z.of_nat (njobs s) - Z.of_nat (offset s)) && Z.eqb b (Z.of_nat (length (gathered s)) - Z.of_nat (offset s))
   && ((r <? 0) || Z.eqb r (Z.of_nat (length (tasks s)))))%Z%bool.

(* replay: (index of the first rejected event, clause) or None when the whole history is accepted *)
Fixpoint replay (s : ev) (i : nat) (h : list (obs * counters)) : option (nat * nat) * ev :=
  match h with
  | [] => (None, s)
  | (e, c) :: t =>
    match accept_event s e with
    | inr cl => (Some (i, cl), s)
    | inl s' => if counters_ok s' c then replay s' (S i) t else (Some (i, 7), s')
    end
  end.

(* final ledger check: everything submitted is accounted for exactly once (decided on the model state) *)
Definition ledger_ok (s : ev) : bool :=
  nodupn (map fst (log s)) && nodupn (tasks s)
  && forallb (fun j => xorb (memn j (map fst (log s))) (memn j (tasks s))) (seq 0 (njobs s)).
