(* C01 - Evaluator delivers every submitted job exactly once.  Property theorems only.
   [run true ops] = the state reached by ANY history ops of submit / gather ALL / gather BATCH k / close / dump /
   set-maximum calls with ANY completion schedules (Model.v), for the repaired close() (fix = true). *)
From Coq Require Import List ZArith Bool Arith.
Import ListNotations.
Require Import DH.C01_Evaluator.Model DH.C01_Evaluator.Lemmas DH.C01_Evaluator.Lemmas2 DH.C01_Evaluator.Check DH.C01_Evaluator.Lemmas3 DH.C01_Evaluator.Lemmas4.

(* never lost, never twice, never both: every submitted id is either still running (once) or in the hand-back log (once) *)
Theorem C01_exactly_once : forall ops j, j < njobs (run true ops) ->
  count_occ Nat.eq_dec (map fst (log (run true ops))) j + count_occ Nat.eq_dec (tasks (run true ops)) j = 1.
Proof. intros ops. exact (exactly_once _ (inv_run ops)). Qed.
Print Assumptions C01_exactly_once.

Theorem C01_counters : forall ops, offset (run true ops) = 0 ->
  num_submitted (run true ops) = njobs (run true ops) /\
  num_gathered (run true ops) = length (log (run true ops)) /\
  njobs (run true ops) = length (log (run true ops)) + length (tasks (run true ops)).
Proof. intros ops. exact (Lemmas.counters _ (inv_run ops)). Qed.
Print Assumptions C01_counters.

Theorem C01_batch_size : forall ops k sched, 0 < k -> tasks (run true ops) <> [] ->
  exists l, snd (step true (run true ops) (GatherBatch k sched)) = OJobs l
            /\ Nat.min k (length (tasks (run true ops))) <= length l.
Proof. intros ops k sched. exact (batch_size k sched _ (inv_run ops)). Qed.
Print Assumptions C01_batch_size.

Theorem C01_all_drains : forall ops sched, tasks (fst (step true (run true ops) (GatherAll sched))) = [].
Proof. intros ops sched. exact (all_drains sched _ (inv_run ops)). Qed.
Print Assumptions C01_all_drains.

Theorem C01_payload : forall s n all sched l, snd (gather n all sched s) = OJobs l ->
  forall j c v, In (j, c, v) l -> nth j (payload s) (0%Z, 0%Z) = (c, v).
Proof. intros s n all sched l. exact (gather_payload n all sched s l). Qed.
Print Assumptions C01_payload.

(* usable after close: no call ever meets a closed loop; close leaves no task behind and accounts for every job *)
Theorem C01_usable_after_close : forall ops,
  (forall o, snd (step true (run true ops) o) <> OLoopClosed) /\
  (forall g, loop_open (run true ops) = true ->
     let s' := fst (step true (run true ops) (Close g)) in
     tasks s' = [] /\ fin s' = [] /\ dead s' = [] /\ loop_open s' = false /\
     forall j, j < njobs s' -> count_occ Nat.eq_dec (map fst (log s')) j = 1).
Proof.
  intros ops. split; [intros o; exact (no_loop_closed _ o (inv_run ops))|].
  intros g Ho s'. destruct (close_clean g _ (inv_run ops) Ho) as (A & B & C & D).
  repeat split; try assumption. exact (close_accounts_all g _ (inv_run ops) Ho).
Qed.
Print Assumptions C01_usable_after_close.

(* the tie: an observed history accepted by the replay oracle IS a run of the model *)
Theorem C01_accepted_history_is_run : forall h s', replay init 0 h = (None, s') -> exists ops, run true ops = s'.
Proof. intros h s'. apply replay_reachable. exists []. reflexivity. Qed.
Print Assumptions C01_accepted_history_is_run.

(* ... and conversely the oracle demands nothing more than the model does: whatever a gather of the model hands back,
   under ANY schedule, is accepted (no false alarm on behaviour the model allows) *)
Theorem C01_model_gather_is_accepted : forall ops k all sched l,
  snd (gather k all sched (run true ops)) = OJobs l -> l <> [] ->
  exists s', accept_gather k all (map (fun x => fst (fst x)) l) (run true ops) = Some s'.
Proof. intros ops k all sched l. exact (gather_is_accepted k all sched _ l (inv_run ops)). Qed.
Print Assumptions C01_model_gather_is_accepted.

(* the pinned code (close leaves cancelled tasks of a closed loop in _tasks_running) is not usable after close: F01 *)
Theorem C01_prefix_unusable_after_close_refuted :
  run_outs false init [Submit [(1, 10)%Z]; Close []; Submit [(2, 20)%Z]; GatherAll []]
  = [OSubmitted [0]; ONone; OSubmitted [1]; OLoopClosed].
Proof. exact unusable_after_close_prefix. Qed.
Print Assumptions C01_prefix_unusable_after_close_refuted.

(* non-vacuity: 5 jobs, a BATCH with two completions in one wake-up, an ALL, a close with one job still running *)
Example C01_example :
  run_outs true init
    [Submit [(1,10);(2,20);(3,30);(4,40);(5,50)]%Z; GatherBatch 1 [[1;3]]; GatherAll []; Submit [(6,60);(7,70)]%Z; Close [5]; Dump;
     Submit [(8,80)]%Z; GatherBatch 3 []]
  = [OSubmitted [0;1;2;3;4]; OJobs [(1,2%Z,20%Z);(3,4%Z,40%Z)]; OJobs [(0,1%Z,10%Z);(2,3%Z,30%Z);(4,5%Z,50%Z)]; OSubmitted [5;6]; ONone;
     ORows [(1,true);(3,true);(0,true);(2,true);(4,true);(5,true);(6,false)]; OSubmitted [7]; OJobs [(7,8%Z,80%Z)]].
Proof. vm_compute. reflexivity. Qed.
