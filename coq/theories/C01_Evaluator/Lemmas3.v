From Coq Require Import List ZArith Bool Arith Lia Permutation.
Import ListNotations.
Require Import DH.Common.ListSet DH.C01_Evaluator.Model DH.C01_Evaluator.Lemmas DH.C01_Evaluator.Lemmas2 DH.C01_Evaluator.Check.

Lemma gather_all_k k k' sched s : gather k true sched s = gather k' true sched s.
Proof. reflexivity. Qed.

Definition gather_op (all : bool) (k : nat) (sched : list (list nat)) : op :=
  if all then GatherAll sched else GatherBatch k sched.

Lemma step_gather_op all k sched s : step true s (gather_op all k sched) = gather k all sched s.
Proof. destruct all; reflexivity. Qed.

Lemma accept_gather_nil k all s s' : accept_gather k all [] s = Some s' -> s' = s /\ fst (gather k all [] s) = s.
Proof.
  unfold accept_gather, gather. destruct (Nat.eqb (if all then length (tasks s) else k) 0) eqn:E0.
  - intros E. injection E as <-. split; reflexivity.
  - destruct (negb _); [discriminate|]. destruct (Nat.eqb (length (tasks s)) 0) eqn:E1; [discriminate|].
    cbn [nodupn subsetn forallb length]. rewrite !andb_true_l.
    destruct (subsetn (fin s) []); cbn [andb]; [|discriminate].
    destruct (Nat.leb _ 0) eqn:E2; [|discriminate]. apply Nat.leb_le in E2.
    apply Nat.eqb_neq in E0, E1. lia.
Qed.

Theorem accept_event_is_step s e s' : Inv s -> accept_event s e = inl s' -> exists o, fst (step true s o) = s'.
Proof.
  intros H. destruct e as [cs exc|all k exc r|d c|rows pay|m|g]; cbn [accept_event].
  - destruct (step true s (Submit cs)) as [s1 o] eqn:E. intros A. exists (Submit cs). rewrite E. cbn [fst].
    destruct o; try discriminate; destruct exc as [|[|?]]; try discriminate; injection A as <-; reflexivity.
  - set (ids := map (fun x => fst (fst x)) r).
    destruct (snd (gather k all [] s)) eqn:Eo; destruct exc as [|[|?]]; try discriminate.
    all: try (intros A; injection A as <-; exists (gather_op all k []); rewrite step_gather_op;
              revert Eo; unfold gather;
              repeat match goal with |- context [if ?b then _ else _] => destruct b end; cbn; try discriminate; try reflexivity;
              match goal with |- context [process ?d ?x] => destruct (process d x); discriminate end).
    all: destruct (accept_gather k all ids s) as [s1|] eqn:Ea;
         [| destruct (nodupn ids && subsetn (fin s) ids && subsetn ids (tasks s)); discriminate];
         destruct (payload_ok s r); [|discriminate]; intros A; injection A as <-;
         destruct ids as [|i0 it] eqn:Ei;
         [ apply accept_gather_nil in Ea as [-> Eg]; exists (gather_op all k []); rewrite step_gather_op; exact Eg
         | exists (gather_op all k [i0 :: it]); rewrite step_gather_op; apply accept_is_run; [exact H| exact Ea| discriminate] ].
  - destruct (negb (loop_open s)) eqn:Eo.
    + destruct d, c; try discriminate. intros A; injection A as <-. exists (Close []). cbn [step].
      apply negb_true_iff in Eo. rewrite Eo. unfold close. rewrite Eo. reflexivity.
    + destruct (subsetn d (tasks s) && same_set (fin (complete_group d s)) d && same_set (pending (complete_group d s)) c); [|discriminate].
      intros A; injection A as <-. exists (Close d). cbn [step]. apply negb_false_iff in Eo. rewrite Eo. reflexivity.
  - destruct (same_rows rows (done_q s) && payload_ok s pay); [|discriminate]. intros A; injection A as <-. exists Dump. reflexivity.
  - intros A; injection A as <-. exists (SetMax m). reflexivity.
  - destruct (subsetn g (tasks s)); [|discriminate]. intros A; injection A as <-. exists (Tick g). reflexivity.
Qed.

Lemma run_snoc ops o : run true (ops ++ [o]) = fst (step true (run true ops) o).
Proof. unfold run. rewrite fold_left_app. reflexivity. Qed.

(* a history accepted by the replay is a run of the model: its final state is reachable *)
Theorem replay_reachable : forall h s i s', (exists ops, run true ops = s) ->
  replay s i h = (None, s') -> exists ops, run true ops = s'.
Proof.
  induction h as [|[e c] t IH]; intros s i s' Hr; cbn [replay].
  - intros E; injection E as <-. exact Hr.
  - destruct (accept_event s e) as [s1|cl] eqn:Ea; [|discriminate].
    destruct (counters_ok s1 c); [|discriminate]. apply IH.
    destruct Hr as [ops <-]. destruct (accept_event_is_step _ _ _ (inv_run ops) Ea) as [o Eo].
    exists (ops ++ [o]). rewrite run_snoc. exact Eo.
Qed.
