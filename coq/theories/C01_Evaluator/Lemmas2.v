From Coq Require Import List ZArith Bool Arith Lia Permutation.
Import ListNotations.
Require Import DH.Common.ListSet DH.C01_Evaluator.Model DH.C01_Evaluator.Lemmas.

(* ---------- fin and pending partition the running tasks ---------- *)
Lemma tasks_partition s : Inv s -> Permutation (tasks s) (fin s ++ pending s).
Proof.
  intros H. apply NoDup_Permutation; [apply H| |].
  - apply NoDup_app_intro; [apply H| apply pending_NoDup, H|].
    intros x Hx Hx'. apply pending_spec in Hx'; [tauto| apply H].
  - intros x. rewrite in_app_iff, (pending_spec s x (i_dead s H)). split.
    + intros Hx. destruct (in_dec Nat.eq_dec x (fin s)); tauto.
    + intros [Hx|[Hx _]]; [apply (i_fin_incl s H); exact Hx| exact Hx].
Qed.

Lemma tasks_count s : Inv s -> length (tasks s) = length (fin s) + length (pending s).
Proof. intros H. rewrite (Permutation_length (tasks_partition s H)), app_length. reflexivity. Qed.

Lemma pending_complete_oldest s : Inv s -> pending s <> [] ->
  length (pending (complete_oldest s)) < length (pending s) /\ length (fin (complete_oldest s)) = S (length (fin s)).
Proof.
  intros H Hne. pose proof (inv_complete_oldest s H) as H'.
  pose proof (tasks_count s H) as C1. pose proof (tasks_count _ H') as C2.
  unfold complete_oldest in *. destruct (pending s) as [|j t] eqn:E; [congruence|].
  cbn [tasks fin set_tasks] in *. rewrite app_length in *. cbn [length] in *. lia.
Qed.

(* the loop of FIRST_COMPLETED wake-ups ends with at least n finished tasks (n <= running) *)
Lemma await_reaches : forall fuel n sched s, Inv s -> n <= length (tasks s) ->
  length sched + length (pending s) <= fuel -> n <= length (fin (await_n fuel n sched s)).
Proof.
  induction fuel as [|f IH]; intros n sched s H Hn Hf; cbn [await_n]; destruct (Nat.leb n (length (fin s))) eqn:E;
    try (apply Nat.leb_le in E; exact E); apply Nat.leb_gt in E.
  - pose proof (tasks_count s H). lia.
  - destruct sched as [|g rest].
    + assert (Hne : pending s <> []).
      { intros E0. pose proof (tasks_count s H) as C. rewrite E0 in C. cbn in C. lia. }
      destruct (pending_complete_oldest s H Hne) as [P1 P2].
      apply IH; [apply inv_complete_oldest, H| unfold complete_oldest; destruct (pending s); cbn; exact Hn| cbn [length] in *; lia].
    + apply IH; [apply inv_complete_group, H| cbn; exact Hn|].
      pose proof (inv_complete_group g s H) as H'. pose proof (tasks_count s H) as C1. pose proof (tasks_count _ H') as C2.
      unfold complete_group in C2 |- *. cbn [tasks fin set_tasks] in *. rewrite app_length in C2. cbn [length] in Hf. lia.
Qed.

Lemma process_out d s : snd (process d s) = map (fun j => (j, fst (lookup_payload s j), snd (lookup_payload s j))) (fin s).
Proof. reflexivity. Qed.

(* ---------- BATCH returns at least min(k, running); ALL leaves nothing running ---------- *)
Theorem batch_size k sched s : Inv s -> 0 < k -> tasks s <> [] ->
  exists l, snd (gather k false sched s) = OJobs l /\ Nat.min k (length (tasks s)) <= length l.
Proof.
  intros H Hk Hne. unfold gather.
  destruct (Nat.eqb k 0) eqn:E0; [apply Nat.eqb_eq in E0; lia|].
  rewrite (i_dead s H). cbn [length Nat.eqb negb].
  destruct (Nat.eqb (length (tasks s)) 0) eqn:E1; [apply Nat.eqb_eq, length_zero_iff_nil in E1; congruence|].
  set (n := Nat.min k (length (tasks s))).
  match goal with |- context [process Returned ?x] => set (s1 := x) end.
  assert (Hlen : n <= length (fin s1)).
  { subst s1. destruct (Nat.eqb n (length (tasks s))) eqn:E2.
    - apply Nat.eqb_eq in E2. unfold complete_all. cbn [fin set_tasks]. rewrite <- (Permutation_length (tasks_partition s H)). lia.
    - destruct sched as [|g rest].
      + apply await_reaches; [exact H| unfold n; lia| pose proof (tasks_count s H); cbn; lia].
      + apply await_reaches; [apply inv_complete_group, H| cbn; unfold n; lia|].
        pose proof (inv_complete_group g s H) as H'. pose proof (tasks_count _ H') as C2. cbn [tasks complete_group set_tasks] in C2. lia. }
  pose proof (process_out Returned s1) as Ho. destruct (process Returned s1) as [s2 l]. cbn [snd] in *.
  exists l. split; [reflexivity|]. rewrite Ho, map_length. exact Hlen.
Qed.

Lemma nil_of_no_elements (l : list nat) : (forall x, ~ In x l) -> l = [].
Proof. destruct l as [|x t]; [reflexivity| intros H; exfalso; apply (H x); left; reflexivity]. Qed.

Theorem all_drains sched s : Inv s -> tasks (fst (gather 0 true sched s)) = [].
Proof.
  intros H. unfold gather. cbv beta iota zeta.
  destruct (Nat.eqb (length (tasks s)) 0) eqn:E1.
  { apply Nat.eqb_eq in E1. apply length_zero_iff_nil in E1. exact E1. }
  rewrite (i_dead s H). cbn [length Nat.eqb negb]. rewrite Nat.min_id, Nat.eqb_refl.
  pose proof (process_tasks Returned _ (inv_complete_all s H)) as Ht.
  destruct (process Returned (complete_all s)) as [s2 l]. cbn [fst] in *.
  apply nil_of_no_elements. intros x Hx. apply Ht in Hx as [Hx Hn]. apply Hn. unfold complete_all. cbn [fin set_tasks tasks] in *.
  eapply Permutation_in; [apply (tasks_partition s H)| exact Hx].
Qed.

(* every job handed back carries the configuration and value recorded at submission *)
Lemma await_payload : forall fuel n sched s, payload (await_n fuel n sched s) = payload s.
Proof.
  induction fuel as [|f IH]; intros n sched s; cbn [await_n]; destruct (Nat.leb _ _); try reflexivity.
  destruct sched; rewrite IH; [unfold complete_oldest; destruct (pending s); reflexivity| reflexivity].
Qed.

Theorem gather_payload n all sched s l : snd (gather n all sched s) = OJobs l ->
  forall j c v, In (j, c, v) l -> nth j (payload s) (0%Z, 0%Z) = (c, v).
Proof.
  unfold gather. destruct (Nat.eqb _ 0); [intros E; injection E as <-; intros ? ? ? []|].
  destruct (negb _); [discriminate|]. destruct (Nat.eqb (length (tasks s)) 0); [discriminate|].
  match goal with |- context [process Returned ?x] => set (s1 := x) end.
  assert (Hp : payload s1 = payload s).
  { subst s1. destruct (Nat.eqb _ _); [reflexivity|]. destruct sched as [|g rest]; rewrite await_payload; reflexivity. }
  pose proof (process_out Returned s1) as Ho. destruct (process Returned s1) as [s2 l']. cbn [snd] in Ho.
  intros E; injection E as <-. intros j c v Hin. rewrite Ho in Hin. apply in_map_iff in Hin as [j' [E' _]].
  injection E' as E1 E2 E3. subst j' c v. unfold lookup_payload. rewrite Hp. destruct (nth j (payload s) (0%Z, 0%Z)); reflexivity.
Qed.

(* ---------- the repaired evaluator never meets a closed loop; close leaves a clean evaluator ---------- *)
Theorem no_loop_closed s o : Inv s -> snd (step true s o) <> OLoopClosed.
Proof.
  intros H. destruct o; cbn [step].
  - generalize (inv_open s H). generalize (open_loop s). generalize (@nil nat).
    induction cs as [|c t IH]; intros acc s0 H0; cbn [submit_list]; [discriminate|].
    destruct (budget_hit s0); [discriminate| apply IH, inv_submit_one, H0].
  - unfold gather. destruct (Nat.eqb _ 0); [discriminate|]. rewrite (i_dead s H). cbn [length Nat.eqb negb].
    destruct (Nat.eqb (length (tasks s)) 0); [discriminate|]. match goal with |- context [process ?d ?x] => destruct (process d x) end; discriminate.
  - unfold gather. destruct (Nat.eqb _ 0); [discriminate|]. rewrite (i_dead s H). cbn [length Nat.eqb negb].
    destruct (Nat.eqb (length (tasks s)) 0); [discriminate|]. match goal with |- context [process ?d ?x] => destruct (process d x) end; discriminate.
  - assert (H' : Inv (if loop_open s then complete_group g s else s)) by (destruct (loop_open s); [apply inv_complete_group|]; exact H).
    revert H'. generalize (if loop_open s then complete_group g s else s). intros s0 H0. unfold close.
    destruct (negb (loop_open s0)); [discriminate|]. destruct (Nat.eqb _ 0); [discriminate|].
    rewrite (i_dead s0 H0). cbn [length Nat.eqb negb]. match goal with |- context [process ?d ?x] => destruct (process d x) end; discriminate.
  - discriminate.
  - discriminate.
  - discriminate.
Qed.

Theorem close_clean g s : Inv s -> loop_open s = true ->
  let s' := fst (step true s (Close g)) in tasks s' = [] /\ fin s' = [] /\ dead s' = [] /\ loop_open s' = false.
Proof.
  intros H Ho. cbn [step]. rewrite Ho. pose proof (inv_complete_group g s H) as H0.
  assert (Ho' : loop_open (complete_group g s) = true) by exact Ho.
  revert H0 Ho'. generalize (complete_group g s). intros s0 H0 Ho'. unfold close. rewrite Ho'. cbn [negb].
  destruct (Nat.eqb (length (tasks s0)) 0) eqn:E; [cbn; rewrite (i_dead s0 H0); auto|].
  rewrite (i_dead s0 H0). cbn [length Nat.eqb negb]. destruct (process ClosedDone s0). cbn. auto.
Qed.

(* after close every submitted job has been handed back exactly once *)
Theorem close_accounts_all g s : Inv s -> loop_open s = true ->
  let s' := fst (step true s (Close g)) in forall j, j < njobs s' -> count_occ Nat.eq_dec (ids s') j = 1.
Proof.
  intros H Ho s' j Hj. pose proof (inv_step s (Close g) H) as H'. fold s' in H'.
  pose proof (exactly_once s' H' j Hj) as E. destruct (close_clean g s H Ho) as [Ht _]. fold s' in Ht. rewrite Ht in E. cbn in E. lia.
Qed.

(* ---------- acceptance: an observed gather outcome that is accepted is a run of the model ---------- *)
Lemma subsetn_incl a b : subsetn a b = true <-> incl a b.
Proof. unfold subsetn. rewrite forallb_forall. split; intros H x Hx; [apply memn_In|apply memn_In]; auto. Qed.

Lemma nodupn_NoDup l : nodupn l = true <-> NoDup l.
Proof.
  induction l as [|x t IH]; cbn [nodupn]; [split; [constructor|reflexivity]|].
  rewrite andb_true_iff, negb_true_iff, memn_false, IH. split; [intros [A B]; constructor; assumption| intros N; inversion N; auto].
Qed.

Theorem accept_is_run k all r s s' : Inv s -> accept_gather k all r s = Some s' -> r <> [] ->
  fst (gather k all [r] s) = s'.
Proof.
  intros H. unfold accept_gather, gather.
  destruct (Nat.eqb (if all then length (tasks s) else k) 0) eqn:E0.
  { destruct r; [intros _ Hne; congruence| discriminate]. }
  rewrite (i_dead s H). cbn [length Nat.eqb negb].
  destruct (Nat.eqb (length (tasks s)) 0) eqn:E1; [discriminate|].
  set (n0 := if all then length (tasks s) else k) in *.
  destruct (nodupn r && subsetn (fin s) r && subsetn r (tasks s) && Nat.leb (Nat.min n0 (length (tasks s))) (length r)) eqn:C; [|discriminate].
  apply andb_true_iff in C as [C C4]. apply andb_true_iff in C as [C C3]. apply andb_true_iff in C as [C1 C2].
  apply nodupn_NoDup in C1. apply subsetn_incl in C2, C3. apply Nat.leb_le in C4.
  intros E _. injection E as <-.
  (* the state reached by the single wake-up r *)
  assert (Hfin : Permutation r (fin (complete_group r s))).
  { apply NoDup_Permutation; [exact C1| apply (inv_complete_group r s H)|].
    intros x. unfold complete_group. cbn [fin set_tasks]. rewrite in_app_iff, filter_In, memn_In, (pending_spec s x (i_dead s H)). split.
    - intros Hx. destruct (in_dec Nat.eq_dec x (fin s)); [left; assumption| right; repeat split; auto].
    - intros [Hx|[_ Hx]]; auto. }
  destruct (Nat.eqb (Nat.min n0 (length (tasks s))) (length (tasks s))) eqn:E2.
  - (* everything is awaited: r is all of the running tasks, so the wake-up r completes them all *)
    apply Nat.eqb_eq in E2.
    assert (Hall : forall x, In x (pending s) -> memn x r = true).
    { assert (Hlen : length (tasks s) <= length r) by lia.
      assert (Hincl : incl (tasks s) r) by (apply NoDup_length_incl; [exact C1| exact Hlen| exact C3]).
      intros x Hx. apply memn_In, Hincl. apply pending_spec in Hx; [tauto| apply H]. }
    assert (Hf : filter (fun j => memn j r) (pending s) = pending s).
    { clear -Hall. induction (pending s) as [|x t IH]; [reflexivity|]. cbn [filter]. rewrite (Hall x (or_introl eq_refl)). f_equal.
      apply IH. intros y Hy. apply Hall. right; exact Hy. }
    unfold complete_group. rewrite Hf. reflexivity.
  - cbn [length Nat.add]. cbn [await_n].
    assert (Hle : Nat.leb (Nat.min n0 (length (tasks s))) (length (fin (complete_group r s))) = true).
    { apply Nat.leb_le. rewrite <- (Permutation_length Hfin). exact C4. }
    destruct (length (tasks s)) eqn:El; [discriminate|]. cbn [Nat.add await_n]. rewrite Hle.
    reflexivity.
Qed.

(* ---------- the pinned code (fix = false): the evaluator is NOT usable after a close with a job in flight ---------- *)
Theorem unusable_after_close_prefix :
  run_outs false init [Submit [(1, 10)%Z]; Close []; Submit [(2, 20)%Z]; GatherAll []]
  = [OSubmitted [0]; ONone; OSubmitted [1]; OLoopClosed].
Proof. vm_compute. reflexivity. Qed.
