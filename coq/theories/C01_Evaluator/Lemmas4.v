(* The other direction of the tie: every behaviour of the schedule-driven model is accepted by the oracle
   (the acceptance conditions demand nothing more than what every run of the model satisfies). *)
From Coq Require Import List ZArith Bool Arith Lia Permutation.
Import ListNotations.
Require Import DH.Common.ListSet DH.C01_Evaluator.Model DH.C01_Evaluator.Lemmas DH.C01_Evaluator.Lemmas2.

Lemma await_tasks : forall fuel n sched s, tasks (await_n fuel n sched s) = tasks s.
Proof.
  induction fuel as [|f IH]; intros n sched s; cbn [await_n]; destruct (Nat.leb _ _); try reflexivity.
  destruct sched; rewrite IH; [unfold complete_oldest; destruct (pending s); reflexivity| reflexivity].
Qed.

Lemma await_fin_mono : forall fuel n sched s, incl (fin s) (fin (await_n fuel n sched s)).
Proof.
  induction fuel as [|f IH]; intros n sched s; cbn [await_n]; destruct (Nat.leb _ _); try apply incl_refl.
  destruct sched as [|g rest].
  - eapply incl_tran; [|apply IH]. unfold complete_oldest. destruct (pending s); [apply incl_refl| cbn; apply incl_appl, incl_refl].
  - eapply incl_tran; [|apply IH]. cbn. apply incl_appl, incl_refl.
Qed.

(* the state in which the finished tasks are processed by a gather that runs the loop *)
Definition awaited (k : nat) (all : bool) (sched : list (list nat)) (s : ev) : ev :=
  let running := length (tasks s) in
  let n := Nat.min (if all then running else k) running in
  if Nat.eqb n running then complete_all s
  else match sched with
       | [] => await_n (length (tasks s)) n [] s
       | g :: rest => await_n (length rest + length (tasks s)) n rest (complete_group g s)
       end.

Lemma awaited_facts k all sched s : Inv s ->
  Inv (awaited k all sched s) /\ tasks (awaited k all sched s) = tasks s /\ incl (fin s) (fin (awaited k all sched s)).
Proof.
  intros H. unfold awaited. destruct (Nat.eqb _ _).
  - split; [apply inv_complete_all, H|]. split; [reflexivity| cbn; apply incl_appl, incl_refl].
  - destruct sched as [|g rest].
    + split; [apply inv_await, H|]. split; [apply await_tasks| apply await_fin_mono].
    + split; [apply inv_await, inv_complete_group, H|]. split; [rewrite await_tasks; reflexivity|].
      eapply incl_tran; [|apply await_fin_mono]. cbn. apply incl_appl, incl_refl.
Qed.

Theorem gather_is_accepted k all sched s l : Inv s -> snd (gather k all sched s) = OJobs l -> l <> [] ->
  exists s', accept_gather k all (map (fun x => fst (fst x)) l) s = Some s'.
Proof.
  intros H. unfold gather, accept_gather.
  destruct (Nat.eqb (if all then length (tasks s) else k) 0) eqn:E0; [intros E; injection E as <-; congruence|].
  rewrite (i_dead s H). cbn [length Nat.eqb negb].
  destruct (Nat.eqb (length (tasks s)) 0) eqn:E1; [discriminate|].
  fold (awaited k all sched s).
  destruct (awaited_facts k all sched s H) as (Hi & Ht & Hf).
  set (s1 := awaited k all sched s) in *.
  pose proof (process_out Returned s1) as Ho. destruct (process Returned s1) as [s2 l'] eqn:Ep. cbn [snd] in Ho.
  intros E _. injection E as <-. rewrite Ho, map_map. cbn [fst]. rewrite map_id.
  (* the four acceptance conditions *)
  assert (C1 : nodupn (fin s1) = true) by (apply nodupn_NoDup, Hi).
  assert (C2 : subsetn (fin s) (fin s1) = true) by (apply subsetn_incl, Hf).
  assert (C3 : subsetn (fin s1) (tasks s) = true) by (apply subsetn_incl; rewrite <- Ht; apply Hi).
  assert (C4 : Nat.leb (Nat.min (if all then length (tasks s) else k) (length (tasks s))) (length (fin s1)) = true).
  { apply Nat.leb_le. unfold s1, awaited. set (n := Nat.min (if all then length (tasks s) else k) (length (tasks s))).
    destruct (Nat.eqb n (length (tasks s))) eqn:E2.
    - apply Nat.eqb_eq in E2. unfold complete_all. cbn [fin set_tasks]. rewrite <- (Permutation_length (tasks_partition s H)). lia.
    - destruct sched as [|g rest].
      + apply await_reaches; [exact H| unfold n; lia| pose proof (tasks_count s H); cbn; lia].
      + apply await_reaches; [apply inv_complete_group, H| cbn; unfold n; lia|].
        pose proof (inv_complete_group g s H) as H'. pose proof (tasks_count _ H') as C. cbn [tasks complete_group set_tasks] in C. lia. }
  rewrite C1, C2, C3, C4. cbn [andb]. eexists. reflexivity.
Qed.
