From Coq Require Import List ZArith Bool.
Import ListNotations.
Require Import DH.Common.Data DH.C01_Evaluator.Model DH.C01_Evaluator.Check.
Open Scope Z_scope.

Definition d_pay (d : data) : nat * Z * Z := (dnat (dnth 0 d), dZ (dnth 1 d), dZ (dnth 2 d)).
Definition d_obs (d : data) : obs :=
  let k := dZ (dnth 0 d) in
  if k =? 0 then EvSubmit (dmap (dpair dZ dZ) (dnth 1 d)) (dnat (dnth 2 d))
  else if k =? 1 then EvGather (dbool (dnth 1 d)) (dnat (dnth 2 d)) (dnat (dnth 3 d)) (dmap d_pay (dnth 4 d))
  else if k =? 2 then EvClose (dmap dnat (dnth 1 d)) (dmap dnat (dnth 2 d))
  else if k =? 3 then EvDump (dmap (dpair dnat dbool) (dnth 1 d)) (dmap d_pay (dnth 2 d))
  else if k =? 5 then EvSettle (dmap dnat (dnth 1 d))
  else EvSetMax (dZ (dnth 1 d)).
Definition d_counters (d : data) : counters := (dZ (dnth 0 d), dZ (dnth 1 d), dZ (dnth 2 d)).

(* 101: replay a history -> [accepted?; index; clause; ledger_ok; njobs; tasks; gathered] *)
Definition e_replay (d : data) : data :=
  let h := dmap (dpair d_obs d_counters) d in
  let (r, s) := replay init 0 h in
  L [ ebool (match r with None => true | Some _ => false end);
      enat (match r with None => 0%nat | Some (i, _) => i end);
      enat (match r with None => 0%nat | Some (_, c) => c end);
      ebool (ledger_ok s); enat (njobs s); elist enat (tasks s); elist enat (gathered s) ].

Definition entries : list (Z * (data -> data)) := [ (101, e_replay) ].
