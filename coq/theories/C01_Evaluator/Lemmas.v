From Coq Require Import List ZArith Bool Arith Lia Permutation.
Import ListNotations.
Require Import DH.Common.ListSet DH.C01_Evaluator.Model.

(* ---------- list utilities ---------- *)
Lemma memn_In x l : memn x l = true <-> In x l.
Proof.
  unfold memn. rewrite existsb_exists. split.
  - intros [y [Hy E]]. apply Nat.eqb_eq in E. subst. exact Hy.
  - intros H. exists x. split; [exact H| apply Nat.eqb_refl].
Qed.

Lemma memn_false x l : memn x l = false <-> ~ In x l.
Proof. rewrite <- memn_In. destruct (memn x l); split; congruence. Qed.

Lemma remove1n_In_iff x y l : NoDup l -> (In y (remove1n x l) <-> In y l /\ y <> x).
Proof.
  induction l as [|z t IH]; intros Hnd; cbn [remove1n]; [split; [intros []|intros [[] _]]|].
  inversion Hnd as [|? ? Hz Ht]; subst. destruct (Nat.eqb x z) eqn:E.
  - apply Nat.eqb_eq in E. subst z. split.
    + intros Hy. split; [right; exact Hy| intros ->; contradiction].
    + intros [[->|Hy] Hne]; [congruence|exact Hy].
  - apply Nat.eqb_neq in E. cbn [In]. rewrite (IH Ht). split.
    + intros [->|[Hy Hne]]; [split; [left; reflexivity| congruence]| split; [right; exact Hy| exact Hne]].
    + intros [[->|Hy] Hne]; [left; reflexivity| right; split; assumption].
Qed.

Lemma remove1n_NoDup x l : NoDup l -> NoDup (remove1n x l).
Proof.
  induction l as [|z t IH]; intros Hnd; cbn [remove1n]; [constructor|].
  inversion Hnd as [|? ? Hz Ht]; subst. destruct (Nat.eqb x z); [exact Ht|].
  constructor; [|apply IH; exact Ht]. intros Hin. apply (remove1n_In_iff x z t Ht) in Hin. tauto.
Qed.

Lemma removes_spec : forall r l, NoDup l ->
  NoDup (fold_left (fun t j => remove1n j t) r l) /\
  forall y, In y (fold_left (fun t j => remove1n j t) r l) <-> In y l /\ ~ In y r.
Proof.
  induction r as [|x r IH]; intros l Hnd; cbn [fold_left].
  - split; [exact Hnd| intros y; cbn; tauto].
  - destruct (IH (remove1n x l) (remove1n_NoDup x l Hnd)) as [H1 H2]. split; [exact H1|].
    intros y. rewrite H2, (remove1n_In_iff x y l Hnd). cbn [In]. split.
    + intros [[Hy Hne] Hr]. split; [exact Hy| intros [E|Hin]; [congruence|contradiction]].
    + intros [Hy Hn]. repeat split; [exact Hy| intros ->; apply Hn; left; reflexivity| intros Hin; apply Hn; right; exact Hin].
Qed.

Lemma map_fst_tag {A} (d : A) (r : list nat) : map fst (map (fun j => (j, d)) r) = r.
Proof. induction r as [|x r IH]; cbn; [reflexivity| rewrite IH; reflexivity]. Qed.

Lemma filter_NoDup_n (f : nat -> bool) l : NoDup l -> NoDup (filter f l).
Proof. apply NoDup_filter. Qed.

(* ---------- the invariant ---------- *)
Definition ids (s : ev) : list nat := map fst (log s).

Record Inv (s : ev) : Prop := {
  i_nd_tasks : NoDup (tasks s);
  i_fin_incl : incl (fin s) (tasks s);
  i_nd_fin : NoDup (fin s);
  i_payload : length (payload s) = njobs s;
  i_tasks_lt : forall j, In j (tasks s) -> j < njobs s;
  i_nd_log : NoDup (ids s);
  i_gathered : gathered s = ids s;
  i_disj : forall j, In j (tasks s) -> ~ In j (ids s);
  i_cover : forall j, j < njobs s -> In j (tasks s) \/ In j (ids s);
  i_ids_lt : forall j, In j (ids s) -> j < njobs s;
  i_dead : dead s = [] }.

Lemma inv_init : Inv init.
Proof. constructor; cbn; try apply NoDup_nil; try reflexivity; try (intros j Hj; lia); try (intros j []). Qed.

Lemma pending_spec s j : dead s = [] -> (In j (pending s) <-> In j (tasks s) /\ ~ In j (fin s)).
Proof.
  intros Hd. unfold pending. rewrite filter_In, Hd, andb_true_iff, !negb_true_iff, memn_false. cbn. tauto.
Qed.

Lemma pending_NoDup s : NoDup (tasks s) -> NoDup (pending s).
Proof. apply NoDup_filter. Qed.

(* any way of letting some pending tasks finish preserves the invariant *)
Lemma inv_finish s extra : Inv s -> NoDup extra -> incl extra (pending s) ->
  Inv (set_tasks s (tasks s) (fin s ++ extra)).
Proof.
  intros [H1 H2 H3 H4 H5 H6 H7 H8 H9 H10 H11] Hnd Hincl.
  constructor; cbn; try assumption.
  - intros j Hj. apply in_app_or in Hj as [Hj|Hj]; [apply H2; exact Hj|].
    apply Hincl in Hj. apply pending_spec in Hj; tauto.
  - apply NoDup_app_intro; [exact H3| exact Hnd|]. intros x Hx Hx'. apply Hincl in Hx'. apply pending_spec in Hx'; tauto.
Qed.

Lemma inv_complete_group g s : Inv s -> Inv (complete_group g s).
Proof.
  intros H. unfold complete_group. apply inv_finish; [exact H| apply NoDup_filter, pending_NoDup, H|].
  intros j Hj. apply filter_In in Hj. tauto.
Qed.

Lemma inv_complete_oldest s : Inv s -> Inv (complete_oldest s).
Proof.
  intros H. unfold complete_oldest. destruct (pending s) as [|j t] eqn:E; [exact H|].
  apply inv_finish; [exact H| constructor; [intros []|constructor]|]. intros x [<-|[]]. rewrite E. left; reflexivity.
Qed.

Lemma inv_complete_all s : Inv s -> Inv (complete_all s).
Proof. intros H. unfold complete_all. apply inv_finish; [exact H| apply pending_NoDup, H| intros j Hj; exact Hj]. Qed.

Lemma inv_await fuel : forall n sched s, Inv s -> Inv (await_n fuel n sched s).
Proof.
  induction fuel as [|f IH]; intros n sched s H; cbn [await_n]; destruct (Nat.leb n (length (fin s))); try exact H.
  destruct sched as [|g rest]; apply IH; [apply inv_complete_oldest| apply inv_complete_group]; exact H.
Qed.

(* processing the finished tasks *)
Lemma inv_process d s : Inv s -> Inv (fst (process d s)).
Proof.
  intros [H1 H2 H3 H4 H5 H6 H7 H8 H9 H10 H11]. unfold process. cbn [fst].
  destruct (removes_spec (fin s) (tasks s) H1) as [R1 R2].
  constructor; cbn [tasks fin payload njobs log gathered dead done_q ids]; unfold ids in *; cbn [log];
    rewrite ?map_app, ?map_fst_tag; try assumption.
  - intros j [].
  - constructor.
  - intros j Hj. apply R2 in Hj. apply H5. tauto.
  - apply NoDup_app_intro; [exact H6| exact H3|]. intros x Hx Hx'. apply (H8 x); [apply H2; exact Hx'| exact Hx].
  - rewrite H7. reflexivity.
  - intros j Hj Hin. apply R2 in Hj as [Hj Hnf]. apply in_app_or in Hin as [Hin|Hin]; [exact (H8 j Hj Hin)| contradiction].
  - intros j Hj. destruct (H9 j Hj) as [Ht|Hl]; [|right; apply in_or_app; left; exact Hl].
    destruct (in_dec Nat.eq_dec j (fin s)) as [Hf|Hf]; [right; apply in_or_app; right; exact Hf| left; apply R2; tauto].
  - intros j Hj. apply in_app_or in Hj as [Hj|Hj]; [apply H10; exact Hj| apply H5, H2; exact Hj].
Qed.

Lemma process_tasks d s : Inv s -> forall j, In j (tasks (fst (process d s))) <-> In j (tasks s) /\ ~ In j (fin s).
Proof. intros H j. unfold process; cbn [fst tasks]. apply (proj2 (removes_spec (fin s) (tasks s) (i_nd_tasks s H))). Qed.

Lemma inv_gather n all sched s : Inv s -> Inv (fst (gather n all sched s)).
Proof.
  intros H. unfold gather.
  destruct (Nat.eqb (if all then length (tasks s) else n) 0); [exact H|].
  destruct (negb (Nat.eqb (length (dead s)) 0)); [exact H|].
  destruct (Nat.eqb (length (tasks s)) 0); [exact H|].
  match goal with |- context [process Returned ?x] => assert (Hx : Inv x) end.
  { destruct (Nat.eqb _ _); [apply inv_complete_all; exact H|].
    destruct sched as [|g rest]; apply inv_await; [exact H| apply inv_complete_group; exact H]. }
  match goal with |- context [process Returned ?x] => pose proof (inv_process Returned x Hx) as Hp; destruct (process Returned x) as [s2 l] end.
  exact Hp.
Qed.

Lemma inv_submit_one s c : Inv s -> Inv (submit_one s c).
Proof.
  intros [H1 H2 H3 H4 H5 H6 H7 H8 H9 H10 H11]. constructor; cbn [submit_one tasks fin payload njobs log gathered dead ids]; unfold ids in *; cbn [log]; try assumption.
  - apply NoDup_app_intro; [exact H1| constructor; [intros []|constructor]|]. intros x Hx [<-|[]]. apply H5 in Hx. lia.
  - intros j Hj. apply in_or_app; left. apply H2; exact Hj.
  - rewrite app_length. cbn. lia.
  - intros j Hj. apply in_app_or in Hj as [Hj|[<-|[]]]; [apply H5 in Hj; lia| lia].
  - intros j Hj Hin. apply in_app_or in Hj as [Hj|[<-|[]]]; [exact (H8 j Hj Hin)| apply H10 in Hin; lia].
  - intros j Hj. destruct (Nat.eq_dec j (njobs s)) as [->|Hne]; [left; apply in_or_app; right; left; reflexivity|].
    destruct (H9 j ltac:(lia)) as [Ht|Hl]; [left; apply in_or_app; left; exact Ht| right; exact Hl].
  - intros j Hj. apply H10 in Hj. lia.
Qed.

Lemma inv_submit_list : forall cs s acc, Inv s -> Inv (fst (submit_list s cs acc)).
Proof.
  induction cs as [|c t IH]; intros s acc H; cbn [submit_list]; [exact H|].
  destruct (budget_hit s); [exact H|]. apply IH, inv_submit_one, H.
Qed.

Lemma inv_open s : Inv s -> Inv (open_loop s).
Proof. intros [H1 H2 H3 H4 H5 H6 H7 H8 H9 H10 H11]. constructor; assumption. Qed.

Lemma inv_close s : Inv s -> Inv (fst (close true s)).
Proof.
  intros H. unfold close. destruct (negb (loop_open s)); [exact H|].
  destruct (Nat.eqb (length (tasks s)) 0) eqn:E0.
  { apply Nat.eqb_eq, length_zero_iff_nil in E0. destruct H as [H1 H2 H3 H4 H5 H6 H7 H8 H9 H10 H11].
    constructor; cbn; try assumption; try apply NoDup_nil.
    - intros j [].
    - intros j [].
    - intros j [].
    - intros j Hj. destruct (H9 j Hj) as [Ht|Hl]; [rewrite E0 in Ht; destruct Ht| right; exact Hl]. }
  destruct (negb (Nat.eqb (length (dead s)) 0)); [exact H|].
  pose proof (inv_process ClosedDone s H) as Hp. pose proof (process_tasks ClosedDone s H) as Ht.
  destruct (process ClosedDone s) as [s1 l] eqn:Ep. cbn [fst] in *.
  assert (Hpend : forall j, In j (pending s) <-> In j (tasks s1)).
  { intros j. rewrite Ht. apply pending_spec, H. }
  destruct Hp as [H1 H2 H3 H4 H5 H6 H7 H8 H9 H10 H11].
  constructor; cbn [tasks fin payload njobs log gathered dead ids]; unfold ids in *; cbn [log];
    rewrite ?map_app, ?map_fst_tag; try assumption; try apply NoDup_nil; try reflexivity.
  - intros j [].
  - intros j [].
  - apply NoDup_app_intro; [exact H6| apply pending_NoDup, H|]. intros x Hx Hx'. apply Hpend in Hx'. exact (H8 x Hx' Hx).
  - rewrite H7. reflexivity.
  - intros j [].
  - intros j Hj. destruct (H9 j Hj) as [Hj'|Hl]; right; apply in_or_app; [right; apply Hpend; exact Hj'| left; exact Hl].
  - intros j Hj. apply in_app_or in Hj as [Hj|Hj]; [apply H10; exact Hj| apply H5, Hpend; exact Hj].
Qed.

Lemma inv_step s o : Inv s -> Inv (fst (step true s o)).
Proof.
  intros H. destruct o; cbn [step].
  - apply inv_submit_list, inv_open, H.
  - apply inv_gather, H.
  - apply inv_gather, H.
  - apply inv_close. destruct (loop_open s); [apply inv_complete_group|]; exact H.
  - destruct H as [H1 H2 H3 H4 H5 H6 H7 H8 H9 H10 H11]. constructor; assumption.
  - destruct H as [H1 H2 H3 H4 H5 H6 H7 H8 H9 H10 H11]. constructor; assumption.
  - apply inv_complete_group, H.
Qed.

Theorem inv_run ops : Inv (run true ops).
Proof.
  unfold run. generalize inv_init. generalize init. induction ops as [|o t IH]; intros s H; cbn [fold_left]; [exact H|].
  apply IH, inv_step, H.
Qed.

(* ---------- exactly once ---------- *)
Lemma count_occ_NoDup_In (l : list nat) x : NoDup l -> In x l -> count_occ Nat.eq_dec l x = 1.
Proof. intros Hnd Hin. apply NoDup_count_occ' with (decA := Nat.eq_dec) in Hin; assumption. Qed.

Theorem exactly_once s : Inv s -> forall j, j < njobs s ->
  count_occ Nat.eq_dec (ids s) j + count_occ Nat.eq_dec (tasks s) j = 1.
Proof.
  intros H j Hj. destruct (i_cover s H j Hj) as [Ht|Hl].
  - rewrite (count_occ_NoDup_In _ _ (i_nd_tasks s H) Ht).
    assert (count_occ Nat.eq_dec (ids s) j = 0) as -> by (apply count_occ_not_In; apply (i_disj s H); exact Ht). reflexivity.
  - rewrite (count_occ_NoDup_In _ _ (i_nd_log s H) Hl).
    assert (count_occ Nat.eq_dec (tasks s) j = 0) as ->; [|reflexivity].
    apply count_occ_not_In. intros Ht. exact (i_disj s H j Ht Hl).
Qed.

(* counters = true counts (no budget offset in force) *)
Theorem counters s : Inv s -> offset s = 0 ->
  num_submitted s = njobs s /\ num_gathered s = length (log s) /\ njobs s = length (log s) + length (tasks s).
Proof.
  intros H Ho. unfold num_submitted, num_gathered. rewrite Ho, (i_gathered s H). unfold ids. rewrite map_length, !Nat.sub_0_r.
  repeat split.
  (* ids and tasks partition 0..njobs-1 *)
  assert (Hp : Permutation (seq 0 (njobs s)) (ids s ++ tasks s)).
  { apply NoDup_Permutation; [apply seq_NoDup| |].
    - apply NoDup_app_intro; [apply H| apply H|]. intros x Hx Hx'. exact (i_disj s H x Hx' Hx).
    - intros x. rewrite in_seq, in_app_iff. split.
      + intros [_ Hx]. cbn in Hx. destruct (i_cover s H x Hx); tauto.
      + intros [Hx|Hx]; [apply (i_ids_lt s H) in Hx| apply (i_tasks_lt s H) in Hx]; lia. }
  apply Permutation_length in Hp. rewrite seq_length, app_length in Hp. unfold ids in Hp. rewrite map_length in Hp. exact Hp.
Qed.
