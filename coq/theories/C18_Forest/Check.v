(* Boolean oracles applied to the IMPLEMENTATION's outputs, with their reflection lemmas.

   One observation (per query point):  means = [predict(X); predict(X, return_std)[0]; predict(X, True, True)[0]]
                                       stds  = [std; std_al; std_ep]
   every entry an [option Q]: None = the implementation returned a non-finite float.
   sqrt is an oracle: the stds are compared through their squares.  Float rounding is bounded by tolerances that are
   proportional to the magnitudes that the code adds / cancels:
       tol_m = epsm * E|m|                 for the means
       tol_v = epsv * E[ |max(v,minv)| + m^2 ]   for the variances (the code computes E[x^2] - E[x]^2).
   With epsm = epsv = 0 the specification is the exact statement of the property. *)
From Coq Require Import List ZArith QArith Qabs Bool Lia Lqa Permutation Qring Qfield Setoid Morphisms.
Import ListNotations.
Require Import DH.C18_Forest.Model DH.C18_Forest.Lemmas.
Open Scope Q_scope.

Definition closeb (a b tol : Q) : bool := Qle_bool (Qabs (a - b)) tol.
Definition nonnegb (x : Q) : bool := Qle_bool 0 x.

Definition mag_m (ts : list tree) : Q := sumf (fun t => Qabs (fst t)) ts / nQ ts.
Definition mag_v (minv : Q) (ts : list tree) : Q := sumf (fun t => Qabs (Qmx (snd t) minv) + fst t * fst t) ts / nQ ts.
Definition tol_m (epsm : Q) (ts : list tree) : Q := epsm * mag_m ts.
Definition tol_v (epsv minv : Q) (ts : list tree) : Q := epsv * mag_v minv ts.

Lemma closeb_iff a b tol : closeb a b tol = true <-> Qabs (a - b) <= tol.
Proof. unfold closeb. apply Qle_bool_iff. Qed.
Lemma nonnegb_iff x : nonnegb x = true <-> 0 <= x.
Proof. unfold nonnegb. apply Qle_bool_iff. Qed.

(* ---------------- the property on one observation ---------------- *)
Record Spec (epsm epsv minv : Q) (ts : list tree) (means stds : list (option Q)) : Prop := {
  sp_mp : Q; sp_ms : Q; sp_md : Q; sp_st : Q; sp_sa : Q; sp_se : Q;
  sp_finite : means = [Some sp_mp; Some sp_ms; Some sp_md] /\ stds = [Some sp_st; Some sp_sa; Some sp_se];
  sp_nonneg : 0 <= sp_st /\ 0 <= sp_sa /\ 0 <= sp_se;
  sp_mean : Qabs (sp_mp - avg ts) <= tol_m epsm ts /\ Qabs (sp_ms - avg ts) <= tol_m epsm ts
            /\ Qabs (sp_md - avg ts) <= tol_m epsm ts;
  sp_law : Qabs (sp_st * sp_st - (sp_sa * sp_sa + sp_se * sp_se)) <= tol_v epsv minv ts;
  sp_al : Qabs (sp_sa * sp_sa - avg_leaf_var minv ts) <= tol_v epsv minv ts;
  sp_ep : Qabs (sp_se * sp_se - var_of_means ts) <= tol_v epsv minv ts
}.

(* one boolean per clause, in the order: finite, nonneg, mean_is_average, total_eq_al_plus_ep,
   aleatoric_is_avg_leaf_var, epistemic_is_var_of_means *)
Definition clauses (epsm epsv minv : Q) (ts : list tree) (means stds : list (option Q)) : list bool :=
  match means, stds with
  | [Some mp; Some ms; Some md], [Some st; Some sa; Some se] =>
      let tm := tol_m epsm ts in let tv := tol_v epsv minv ts in
      [ true;
        nonnegb st && nonnegb sa && nonnegb se;
        closeb mp (avg ts) tm && closeb ms (avg ts) tm && closeb md (avg ts) tm;
        closeb (st * st) (sa * sa + se * se) tv;
        closeb (sa * sa) (avg_leaf_var minv ts) tv;
        closeb (se * se) (var_of_means ts) tv ]
  | _, _ => [false]
  end.

Definition ok_C18 (epsm epsv minv : Q) (ts : list tree) (means stds : list (option Q)) : bool :=
  forallb (fun b => b) (clauses epsm epsv minv ts means stds).

Lemma ok_C18_spec epsm epsv minv ts means stds :
  ok_C18 epsm epsv minv ts means stds = true <-> Spec epsm epsv minv ts means stds.
Proof.
  unfold ok_C18, clauses. split.
  - destruct means as [|[mp|] [|[ms|] [|[md|] [|? ?]]]]; try (cbn; discriminate);
      destruct stds as [|[st|] [|[sa|] [|[se|] [|? ?]]]]; try (cbn; discriminate).
    cbn [forallb]. rewrite !andb_true_iff, !closeb_iff, !nonnegb_iff.
    intros (_ & ((H1 & H2) & H3) & ((H4 & H5) & H6) & H7 & H8 & H9 & _).
    exact (Build_Spec epsm epsv minv ts _ _ mp ms md st sa se (conj eq_refl eq_refl)
             (conj H1 (conj H2 H3)) (conj H4 (conj H5 H6)) H7 H8 H9).
  - intros [mp ms md st sa se [-> ->] (H1 & H2 & H3) (H4 & H5 & H6) H7 H8 H9].
    cbn [forallb]. rewrite !andb_true_iff, !closeb_iff, !nonnegb_iff. tauto.
Qed.

(* ---------------- the model meets the exact specification (epsm = epsv = 0), for every sqrt oracle ---------------- *)
Lemma Qabs_zero_le x t : x == 0 -> 0 <= t -> Qabs x <= t.
Proof. intros H Ht. rewrite H. exact Ht. Qed.

Lemma model_meets_spec minv ts st sa se : ts <> [] -> 0 <= minv ->
  0 <= st -> 0 <= sa -> 0 <= se ->
  st * st == var_total minv ts -> sa * sa == var_al minv ts -> se * se == var_ep minv ts ->
  Spec 0 0 minv ts [Some (mean1 ts); Some (mean2 minv ts); Some (mean3 minv ts)] [Some st; Some sa; Some se].
Proof.
  intros Hne Hm H1 H2 H3 Et Ea Ee.
  destruct (clamps_are_identities minv ts Hne Hm) as (_ & Ca & Ce).
  assert (Z0 : forall f, 0 * f == 0) by (intros; ring).
  refine (Build_Spec 0 0 minv ts _ _ _ _ _ st sa se (conj eq_refl eq_refl) (conj H1 (conj H2 H3)) _ _ _ _);
    unfold tol_m, tol_v; rewrite ?Z0.
  - repeat split; apply Qabs_zero_le; try lra.
    + rewrite mean1_avg. ring.
    + rewrite mean2_avg. ring.
    + rewrite mean3_avg. ring.
  - apply Qabs_zero_le; [|lra]. rewrite Et, Ea, Ee, (total_variance minv ts Hne Hm). ring.
  - apply Qabs_zero_le; [|lra]. rewrite Ea, Ca, var_al_raw_eq. unfold avg_leaf_var. ring.
  - apply Qabs_zero_le; [|lra]. rewrite Ee, Ce, (var_ep_raw_dev minv ts Hne). unfold var_of_means. ring.
Qed.

(* ---------------- correspondence: the implementation's outputs against the model's (code-shaped) functions --------
   order: mean_plain, mean_std, mean_dis, var_total, var_al, var_ep *)
Definition corr_clauses (epsm epsv minv : Q) (ts : list tree) (means stds : list (option Q)) : list bool :=
  match means, stds with
  | [Some mp; Some ms; Some md], [Some st; Some sa; Some se] =>
      let tm := tol_m epsm ts in let tv := tol_v epsv minv ts in
      [ closeb mp (mean1 ts) tm; closeb ms (mean2 minv ts) tm; closeb md (mean3 minv ts) tm;
        closeb (st * st) (var_total minv ts) tv; closeb (sa * sa) (var_al minv ts) tv; closeb (se * se) (var_ep minv ts) tv ]
  | _, _ => [false]
  end.

(* ---------------- n_jobs: two observations of the same forest agree (means, squared stds) ---------------- *)
Fixpoint all_close (f : Q -> Q) (tol : Q) (a b : list (option Q)) : bool :=
  match a, b with
  | [], [] => true
  | Some x :: a', Some y :: b' => closeb (f x) (f y) tol && all_close f tol a' b'
  | _, _ => false
  end.

Definition ok_same (epsm epsv minv : Q) (ts : list tree) (means1 stds1 means2 stds2 : list (option Q)) : bool :=
  all_close (fun x => x) (tol_m epsm ts) means1 means2 && all_close (fun x => x * x) (tol_v epsv minv ts) stds1 stds2.

Lemma all_close_spec f tol a b : all_close f tol a b = true ->
  Forall2 (fun x y => exists p q, x = Some p /\ y = Some q /\ Qabs (f p - f q) <= tol) a b.
Proof.
  revert b. induction a as [|[x|] a IH]; intros [|[y|] b] H; cbn [all_close] in H; try discriminate; [constructor|].
  apply andb_true_iff in H as [H1 H2]. constructor; [|apply IH; exact H2].
  exists x, y. repeat split. apply closeb_iff. exact H1.
Qed.

(* ---------------- acquisition: gaussian_lcb returned mu - kappa * std for the (mu, std) it was given ------------- *)
Definition ok_lcb (eps : Q) (kappa : option Q) (mu std a : Q) : bool :=
  closeb a (lcb_of kappa mu std)
         (eps * (match kappa with None => Qabs std | Some k => Qabs mu + Qabs (k * std) end)).

Lemma ok_lcb_spec eps kappa mu std a : ok_lcb eps kappa mu std a = true <->
  Qabs (a - lcb_of kappa mu std) <= eps * (match kappa with None => Qabs std | Some k => Qabs mu + Qabs (k * std) end).
Proof. unfold ok_lcb. apply closeb_iff. Qed.
